import MgpuProofs.C01Tile
import MgpuProofs.C01CopyGrid
/-! # C01 — `matrixTranspose` on the whole grid, from per-wavefront phase descriptions

The launch of the benchmark on a square matrix of `64 nb` floats per side: grid `(16 nb, 16 nb, 1)`, work-groups
`(16, 16, 1)`.  `wgList_geoT`: the work-groups the grid builder produces (C08 `wgs_enumerate`), `nb²` of them, the
`n`-th with id `(n % nb, n / nb, 0)` and full size.  `runE_transpose`: when the wavefronts of every work-group have
the phase descriptions of the kernel (hypothesis `WGDesc`), the emulator's dispatch loop — work-group after
work-group, each through the two rounds of `runWG` on a fresh LDS — ends without fault with the transposed matrix
in the output buffer and every other byte of memory unchanged. -/
set_option linter.unusedSimpArgs false
set_option linter.unusedVariables false
set_option maxRecDepth 100000
namespace C01
namespace Emu
namespace TT

/-- the dispatch geometry of the benchmark: `nb` blocks of 64 floats per side, 16x16 work-items of 4x4 floats -/
def geoT (nb : Nat) : C08.Geo := ⟨16 * nb, 16 * nb, 1, 16, 16, 1⟩

theorem geoT_valid (nb : Nat) (h : 0 < nb) : (geoT nb).Valid :=
  ⟨show 0 < 16 * nb by omega, show 0 < 16 * nb by omega, Nat.one_pos, show 0 < 16 by omega, show 0 < 16 by omega, Nat.one_pos⟩

theorem nwg16 (nb : Nat) (h : 0 < nb) : C08.nwg (16 * nb) 16 = nb := by
  unfold C08.nwg
  omega

theorem geoT_nx (nb : Nat) (h : 0 < nb) : (geoT nb).nx = nb := nwg16 nb h
theorem geoT_ny (nb : Nat) (h : 0 < nb) : (geoT nb).ny = nb := nwg16 nb h
theorem geoT_nz (nb : Nat) : (geoT nb).nz = 1 := by
  show C08.nwg 1 1 = 1
  decide
theorem geoT_total (nb : Nat) (h : 0 < nb) : (geoT nb).total = nb * nb := by
  unfold C08.Geo.total
  rw [geoT_nx nb h, geoT_ny nb h, geoT_nz, Nat.mul_one]

/-- the `n`-th work-group of the launch -/
def wgT (nb n : Nat) : C08.WG := ⟨(n % nb, n / nb, 0), (16, 16, 1)⟩

theorem allWGs_geoT (nb : Nat) (h : 0 < nb) :
    C08.allWGs (geoT nb) = (List.range (nb * nb)).map (wgT nb) := by
  unfold C08.allWGs
  rw [geoT_total nb h]
  apply List.map_congr_left
  intro n hn
  have hn' : n < nb * nb := List.mem_range.mp hn
  have h1 : n / nb < nb := (Nat.div_lt_iff_lt_mul h).mpr hn'
  have h2 : n % nb < nb := Nat.mod_lt _ h
  have h3 : n / nb / nb = 0 := Nat.div_eq_of_lt h1
  simp only [C08.wgAt, C08.coordOf, C08.sizesOf, geoT_nx nb h, geoT_ny nb h, Nat.mod_eq_of_lt h1, h3, wgT]
  have e1 : min (16 * nb - n % nb * 16) 16 = 16 := by omega
  have e2 : min (16 * nb - n / nb * 16) 16 = 16 := by omega
  simp only [geoT, e1, e2]
  rfl

/-- the work-groups the grid builder produces (C08 `wgs_enumerate`) -/
theorem wgList_geoT (nb : Nat) (h : 0 < nb) : wgList (geoT nb) = (List.range (nb * nb)).map (wgT nb) := by
  unfold wgList
  have hw := C08.wgs_enumerate (geoT nb) (geoT_valid nb h) (fun _ => true) 0 ((geoT nb).total + 1)
  have hs : C08.skip (geoT nb) (fun _ => true) 0 ⟨0, 0, 0⟩ = ⟨0, 0, 0⟩ := rfl
  rw [hs] at hw
  rw [hw, List.drop_zero]
  have hf : (C08.allWGs (geoT nb)).filter (fun w => (fun _ => true) w.id) = C08.allWGs (geoT nb) :=
    List.filter_eq_self.mpr (fun _ _ => rfl)
  rw [hf, List.take_of_length_le (by simp [C08.allWGs])]
  exact allWGs_geoT nb h

/-- the wavefronts of the `n`-th work-group have the phase descriptions of the kernel: phase-1 LDS writes that
    concatenate to `lwAll` of the group's tile, phase-2 memory writes that concatenate to `wrAll` on the LDS content
    phase 1 leaves on a fresh (zero) LDS -/
def WGDesc (P : Program) (D : Dispatch) (fuel : Nat) (Ok : Mem → Prop) (inp out nb : Nat) (f0 : Nat → Nat) (n : Nat) : Prop :=
  ∃ (lw wr : Wave → List (Nat × Nat)) (Q : Wave → Wave → Prop),
    wavesOf D (wgT nb n) ≠ [] ∧
    (wavesOf D (wgT nb n)).flatMap lw = lwAll (gridTile inp out nb n) f0 ∧
    (wavesOf D (wgT nb n)).flatMap wr =
      wrAll (gridTile inp out nb n) (applyWrites (lwAll (gridTile inp out nb n) f0) (fun _ => 0)) ∧
    (∀ w ∈ wavesOf D (wgT nb n), Phase1 P D.kernelObject fuel Ok w (lw w) (Q w)) ∧
    (∀ w ∈ wavesOf D (wgT nb n), ∀ w1, Q w w1 → w1.completed = false →
      Phase2 P D.kernelObject fuel Ok (applyWrites (lwAll (gridTile inp out nb n) f0) (fun _ => 0))
        { w1 with atBarrier := false } (wr w))

theorem flatMap_map' {α β γ : Type} (l : List α) (f : α → β) (g : β → List γ) :
    (l.map f).flatMap g = l.flatMap fun x => g (f x) := by
  induction l with
  | nil => rfl
  | cons x xs ih => rw [List.map_cons, List.flatMap_cons, List.flatMap_cons, ih]

/-- the dispatch loop over all work-groups -/
theorem runE_transpose (P : Program) (D : Dispatch) (nb : Nat) (hnb : 0 < nb) (hgeo : D.geo = geoT nb)
    (inp out r : Nat) (f0 : Nat → Nat) (Ok : Mem → Prop)
    (hwg : ∀ n, n < nb * nb → WGDesc P D (r + 2) Ok inp out nb f0 n)
    (m : Mem) (hok : Ok (install D.packetAddr D.packet (install D.kernargAddr D.kernarg m))) :
    ∃ m', runE P D (r + 2) m = .ok m' ∧ Ok m' ∧
      (∀ Rg Cg b, Rg < 64 * nb → Cg < 64 * nb → b < 4 →
        get m' (out + 4 * (64 * nb * Rg + Cg) + b) = f0 (inp + 4 * (64 * nb * Cg + Rg) + b)) ∧
      (∀ a, (a < out ∨ out + 4 * (64 * nb * (64 * nb)) ≤ a) →
        get m' a = get (install D.packetAddr D.packet (install D.kernargAddr D.kernarg m)) a) := by
  have hfold := Copy.foldlM_effect (fun m wg => runWG P D.kernelObject (r + 2) (r + 2) (wavesOf D wg) m []) Ok
    (fun wg => wrAll (gridTile inp out nb (wg.id.2.1 * nb + wg.id.1))
      (applyWrites (lwAll (gridTile inp out nb (wg.id.2.1 * nb + wg.id.1)) f0) (fun _ => 0)))
    ((List.range (nb * nb)).map (wgT nb))
    (by
      intro wg hwgm m1 hok1
      obtain ⟨n, hn, rfl⟩ := List.mem_map.mp hwgm
      have hn' : n < nb * nb := List.mem_range.mp hn
      obtain ⟨lw, wr, Q, hne, hlw, hwr, h1, h2⟩ := hwg n hn'
      have hidx : (wgT nb n).id.2.1 * nb + (wgT nb n).id.1 = n := by
        show n / nb * nb + n % nb = n
        rw [Nat.mul_comm]
        exact Nat.div_add_mod n nb
      rw [hidx]
      obtain ⟨m', hr, hg, hok'⟩ := runWG_barrier_round P D.kernelObject (r + 2) r Ok (fun _ => 0) lw wr Q
        (wavesOf D (wgT nb n)) hne h1 (by rw [hlw]; exact h2) m1 [] hok1 (funext fun _ => rfl)
      exact ⟨m', hr, by rw [hg, hwr], hok'⟩)
    _ hok
  obtain ⟨m', hrun, hg, hok'⟩ := hfold
  refine ⟨m', ?_, hok', ?_⟩
  · unfold runE
    rw [hgeo, wgList_geoT nb hnb]
    exact hrun
  · have hw : ((List.range (nb * nb)).map (wgT nb)).flatMap (fun wg =>
        wrAll (gridTile inp out nb (wg.id.2.1 * nb + wg.id.1))
          (applyWrites (lwAll (gridTile inp out nb (wg.id.2.1 * nb + wg.id.1)) f0) (fun _ => 0))) =
        gridWrites inp out nb f0 (fun _ => 0) := by
      rw [flatMap_map']
      unfold gridWrites
      apply flatMap_congr'
      intro n _
      have hidx : (wgT nb n).id.2.1 * nb + (wgT nb n).id.1 = n := by
        show n / nb * nb + n % nb = n
        rw [Nat.mul_comm]
        exact Nat.div_add_mod n nb
      rw [hidx]
    rw [hg, hw]
    exact grid_algebra inp out nb hnb f0 (fun _ => 0) _

end TT
end Emu
end C01
