import MgpuProofs.C13DrvSync
/-!
# C13 — the repaired driver (`runP`): cache key = (process, code object)

`runP ops = run (keyed ops).2`: the repaired driver is `step` over the history whose code-object tags are the keys
`ckey pid pointer`; two uses of one key come from queues of one process (`keyed_one_process`), which is the
hypothesis `OneProcessPerObject` of `same_process_partial` — for the repaired driver it holds by construction.
-/
namespace C13
namespace Drv

theorem ckey_inj {p1 i1 p2 i2 : Nat} (h : ckey p1 i1 = ckey p2 i2) : p1 = p2 ∧ i1 = i2 := by
  unfold ckey at h
  have sq : ∀ a b : Nat, a < b → (a + 1) * (a + 1) ≤ b * b := fun a b hab => Nat.mul_le_mul hab hab
  have ex : ∀ a : Nat, (a + 1) * (a + 1) = a * a + a + a + 1 := by
    intro a; simp only [Nat.add_mul, Nat.mul_add, Nat.mul_one, Nat.one_mul]; omega
  rcases Nat.lt_trichotomy (p1 + i1) (p2 + i2) with hl | he | hg
  · have := sq _ _ hl; have := ex (p1 + i1); omega
  · rw [he] at h; omega
  · have := sq _ _ hg; have := ex (p2 + i2); omega

theorem keyed_snoc (ops : List Op) (op : Op) :
    keyed (ops ++ [op]) = (stepP (keyed ops).1 op, (keyed ops).2 ++ [keyOp (keyed ops).1.queues op]) := by
  simp [keyed, List.foldl_append]

/-- the repaired driver IS `step` over the keyed history -/
theorem keyed_run (ops : List Op) : runP ops = run (keyed ops).2 := by
  unfold runP
  induction ops using snoc_ind with
  | nil => rfl
  | snoc ops op ih => rw [keyed_snoc, run_snoc, ← ih]; rfl

theorem keyOp_isNew (qs : List Queue) (op : Op) : isNew (keyOp qs op) = isNew op := by cases op <;> rfl
theorem keyOp_qOf (qs : List Queue) (op : Op) : qOf (keyOp qs op) = qOf op := by cases op <;> rfl

/-- every non-unified use in the keyed history is by an existing queue and carries a key of that queue's process -/
theorem keyed_uses (ops : List Op) (hwf : WF (keyed ops).2) :
    ∀ a ∈ usesOf (keyed ops).2, a.1 < (runP ops).queues.length ∧ ∃ id, a.2 = ckey (pidOf (runP ops).queues a.1) id := by
  induction ops using snoc_ind with
  | nil => intro a ha; simp [keyed, usesOf] at ha
  | snoc ops op ih =>
    have hk := keyed_snoc ops op
    have hwf' : WF ((keyed ops).2 ++ [keyOp (keyed ops).1.queues op]) := by rw [hk] at hwf; exact hwf
    obtain ⟨hw0, hq⟩ := (WF_snoc _ _).mp hwf'
    have ih' := ih hw0
    have hrun : runP (ops ++ [op]) = step (runP ops) (keyOp (runP ops).queues op) := by
      unfold runP; rw [hk]; rfl
    have hlen : (runP ops).queues.length = nqOf (keyed ops).2 := by rw [keyed_run, run_queues_length]
    intro a ha
    rw [hk] at ha
    simp only [usesOf_append, List.mem_append] at ha
    rw [hrun]
    rcases ha with ha | ha
    · obtain ⟨hl, id, hid⟩ := ih' a ha
      refine ⟨?_, id, ?_⟩
      · rw [step_queues_length]; omega
      · rw [step_pidOf _ _ hl]; exact hid
    · cases op with
      | newQueue pid => simp [keyOp, usesOf, useOf] at ha
      | launchUnified q gpus co addrs => simp [keyOp, usesOf, useOf] at ha
      | launch q gpu co addrs =>
        simp only [keyOp, usesOf, useOf, List.append_nil, List.mem_singleton] at ha
        subst ha
        have hql : q < (runP ops).queues.length := by
          have := hq (by simp [keyOp, isNew])
          simp only [keyOp, qOf] at this
          rw [hlen]; exact this
        refine ⟨?_, co.id, ?_⟩
        · rw [step_queues_length]; show q < _; omega
        · show ckey (pidOf (keyed ops).1.queues q) co.id = _
          rw [step_pidOf _ _ hql]; rfl

/-- in the repaired driver every cache key is used by queues of one process only -/
theorem keyed_one_process (ops : List Op) (hwf : WF (keyed ops).2) : OneProcessPerObject (keyed ops).2 := by
  intro a ha b hb hab
  obtain ⟨_, ia, ea⟩ := keyed_uses ops hwf a ha
  obtain ⟨_, ib, eb⟩ := keyed_uses ops hwf b hb
  rw [← keyed_run]
  rw [ea, eb] at hab
  exact (ckey_inj hab).1

end Drv
end C13
