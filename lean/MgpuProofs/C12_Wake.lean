import MgpuModel.C12_Wake
/-! Helper lemmas for C12.W: the wake invariant of a ticking component under explicit hypotheses on
    the stages of its `Tick`, and the proof that the transcribed stages of `Driver.Tick` meet them. -/
namespace C12
namespace W

variable {D I O : Type}

/-- **What `no_lost_wakeup` needs from the stages of `Tick`** (each middleware's `Tick` is a stage). -/
structure TickHyps (stages : List (Stage D I O)) (outCap : Nat) (work : Core D I O → Prop) : Prop where
  /-- (W1) a stage that reports NO progress has changed nothing: it returns `true` whenever it
      consumed a message, sent one, or changed a queue, a flag or a counter -/
  silent : ∀ st ∈ stages, ∀ c, (st c).2 = false → (st c).1 = c
  /-- (W2) every piece of work is claimed: on a state with work, at least one stage reports progress
      (the message at the head of the port has an owner that takes it, a runnable command has a
      handler that starts it, a sendable request is sent) -/
  claims : ∀ c, work c → ∃ st ∈ stages, (st c).2 = true
  /-- (W3) a message waiting in the incoming buffer is work -/
  input_is_work : ∀ c, c.inb ≠ [] → work c
  /-- (W4) work depends on the outgoing buffer only through "there is room" -/
  out_room_only : ∀ c outb', (c.outb.length < outCap ↔ outb'.length < outCap) → work { c with outb := outb' } → work c

theorem runStages_quiet (stages : List (Stage D I O)) (hs : ∀ st ∈ stages, ∀ c, (st c).2 = false → (st c).1 = c)
    (c : Core D I O) (h : (runStages stages c).2 = false) :
    (runStages stages c).1 = c ∧ ∀ st ∈ stages, (st c).2 = false := by
  induction stages generalizing c with
  | nil => simp [runStages]
  | cons st rest ih =>
    simp only [runStages, Bool.or_eq_false_iff] at h
    have h1 := hs st (by simp) c h.1
    have hrest := ih (fun st' hst' => hs st' (by simp [hst'])) (st c).1 h.2
    rw [h1] at hrest
    refine ⟨?_, ?_⟩
    · simp only [runStages]; rw [h1]; exact hrest.1
    · intro st' hst'
      rcases List.mem_cons.mp hst' with rfl | hm
      · exact h.1
      · exact hrest.2 st' hm

/-- the wake invariant: work ⇒ a tick is scheduled, or a `TickLater` by `runAsync` is still owed -/
def WInv (work : Core D I O → Prop) (s : Sys D I O) : Prop := work s.core → s.awake = true ∨ s.owed = true

theorem winv_step (inCap outCap : Nat) (stages : List (Stage D I O)) (work : Core D I O → Prop)
    (hy : TickHyps stages outCap work) (s : Sys D I O) (ev : Ev D I O) (h : WInv work s) :
    WInv work (step inCap outCap stages s ev) := by
  cases ev with
  | deliver m =>
    simp only [step]
    split
    · intro _
      cases hin : s.core.inb with
      | nil => simp
      | cons x t =>
        have := h (hy.input_is_work _ (by simp [hin]))
        rcases this with ha | ho
        · left; simp [ha]
        · right; exact ho
    · exact h
  | retrieve =>
    simp only [step]
    split
    · exact h
    · rename_i x rest hout
      intro hw
      by_cases hfull : s.core.outb.length = outCap
      · left; simp [hfull]
      · by_cases hlt : s.core.outb.length < outCap
        · have hw' : work s.core := by
            apply hy.out_room_only s.core rest _ hw
            rw [hout] at hlt ⊢
            simp only [List.length_cons] at hlt ⊢
            constructor <;> intro _ <;> omega
          rcases h hw' with ha | ho
          · left; simp [ha]
          · right; exact ho
        · -- above capacity (unreachable): the room does not change either
          have hw' : work s.core := by
            apply hy.out_room_only s.core rest _ hw
            rw [hout] at hlt hfull ⊢
            simp only [List.length_cons] at hlt hfull ⊢
            constructor <;> intro _ <;> omega
          rcases h hw' with ha | ho
          · left; simp [ha]
          · right; exact ho
  | enq f => intro _; right; rfl
  | kick => intro _; left; rfl
  | tick =>
    simp only [step]
    split
    · intro hw
      cases hp : (runStages stages s.core).2 with
      | true => left; rfl
      | false =>
        exfalso
        obtain ⟨heq, hall⟩ := runStages_quiet stages hy.silent s.core hp
        simp only [heq] at hw
        obtain ⟨st, hst, hprog⟩ := hy.claims s.core hw
        rw [hall st hst] at hprog; cases hprog
    · exact h

theorem winv_run (inCap outCap : Nat) (stages : List (Stage D I O)) (work : Core D I O → Prop)
    (hy : TickHyps stages outCap work) (evs : List (Ev D I O)) (s : Sys D I O) (h : WInv work s) :
    WInv work (run inCap outCap stages s evs) := by
  induction evs generalizing s with
  | nil => exact h
  | cons ev evs ih => exact ih _ (winv_step inCap outCap stages work hy s ev h)

/-! ### the stages of `Driver.Tick` meet the hypotheses -/
namespace Drv

theorem procQ_silent (i : Nat) (q : Q) (h : (procQ i q).2.2 = false) : (procQ i q).1 = q ∧ (procQ i q).2.1 = [] := by
  unfold procQ at h ⊢
  cases hc : q.cmds with
  | nil => exact ⟨rfl, rfl⟩
  | cons c cs =>
    cases hr : q.running with
    | true => exact ⟨rfl, rfl⟩
    | false =>
      exfalso
      simp only [hc, hr] at h
      cases c with
      | noop => simp at h
      | kern n => cases n <;> simp at h

theorem procAll_silent (i : Nat) (qs : List Q) (h : (procAll i qs).2.2 = false) :
    (procAll i qs).1 = qs ∧ (procAll i qs).2.1 = [] := by
  induction qs generalizing i with
  | nil => simp [procAll]
  | cons q rest ih =>
    simp only [procAll, Bool.or_eq_false_iff] at h
    have h1 := procQ_silent i q h.1
    have h2 := ih (i + 1) h.2
    simp only [procAll, h1.1, h1.2, h2.1, h2.2]; simp

theorem procQ_claims (i : Nat) (q : Q) (h : startable q) : (procQ i q).2.2 = true := by
  unfold procQ
  cases hc : q.cmds with
  | nil => exact absurd hc h.1
  | cons c cs =>
    simp only [h.2]
    cases c with
    | noop => rfl
    | kern n => cases n <;> rfl

theorem procAll_claims (i : Nat) (qs : List Q) (h : ∃ q ∈ qs, startable q) : (procAll i qs).2.2 = true := by
  induction qs generalizing i with
  | nil => obtain ⟨q, hq, _⟩ := h; cases hq
  | cons q rest ih =>
    obtain ⟨x, hx, hs⟩ := h
    simp only [procAll, Bool.or_eq_true]
    rcases List.mem_cons.mp hx with rfl | hm
    · exact Or.inl (procQ_claims i x hs)
    · exact Or.inr (ih (i + 1) ⟨x, hm, hs⟩)

theorem tickHyps (outCap : Nat) : TickHyps (stages outCap) outCap (work outCap) := by
  constructor
  · -- (W1)
    intro st hst c hfalse
    simp only [stages, List.mem_cons, List.mem_nil_iff, or_false] at hst
    rcases hst with rfl | rfl | rfl | rfl
    · unfold sendToGPUs at hfalse ⊢
      split
      · rfl
      · rename_i x rest hts
        simp only [hts] at hfalse
        split
        · rename_i hlt; simp [hlt] at hfalse
        · rfl
    · unfold mwTick at hfalse ⊢
      split
      · rename_i k hk; simp [hk] at hfalse
      · rename_i hk; simp [hk] at hfalse
      · rfl
    · unfold processReturnReq at hfalse ⊢
      split
      · rfl
      · rename_i m rest hin; simp [hin] at hfalse
    · unfold processNewCommand at hfalse ⊢
      simp only at hfalse
      have := procAll_silent 0 c.d.qs hfalse
      simp only [this.1, this.2, List.append_nil]
  · -- (W2)
    intro c hw
    rcases hw with hin | hstart | hsend
    · refine ⟨processReturnReq, by simp [stages], ?_⟩
      unfold processReturnReq
      cases h : c.inb with
      | nil => exact absurd h hin
      | cons m rest => rfl
    · refine ⟨processNewCommand, by simp [stages], ?_⟩
      exact procAll_claims 0 c.d.qs hstart
    · refine ⟨sendToGPUs outCap, by simp [stages], ?_⟩
      unfold sendToGPUs
      cases h : c.d.toSend with
      | nil => exact absurd h hsend.1
      | cons x rest => simp [hsend.2]
  · -- (W3)
    intro c hin; exact Or.inl hin
  · -- (W4)
    intro c outb' hroom hw
    rcases hw with hin | hstart | hsend
    · exact Or.inl hin
    · exact Or.inr (Or.inl hstart)
    · exact Or.inr (Or.inr ⟨hsend.1, hroom.mpr hsend.2⟩)

theorem winv_init (outCap nq : Nat) : WInv (work outCap) (init nq) := by
  intro hw
  exfalso
  rcases hw with hin | ⟨q, hq, hs⟩ | hsend
  · simp [init] at hin
  · simp only [init, List.mem_replicate] at hq
    rw [hq.2] at hs; simp [startable] at hs
  · simp [init] at hsend

end Drv

namespace Copy

theorem run_counts (l : List RKind) (s : CQ) :
    (l.foldl deliver s).f = s.f - l.count .flush ∧ (l.foldl deliver s).c = s.c - l.count .copy := by
  induction l generalizing s with
  | nil => simp
  | cons k t ih =>
    cases k
    · have := ih (deliver s .flush)
      simp only [List.foldl_cons, deliver] at this ⊢
      simp only [List.count_cons_self, this]
      constructor
      · omega
      · simp
    · have := ih (deliver s .copy)
      simp only [List.foldl_cons, deliver] at this ⊢
      simp only [List.count_cons_self, this]
      constructor
      · simp
      · omega

/-- no early completion: while fewer responses than requests have been processed the command
    stays queued -/
theorem stays_queued (l : List RKind) (s : CQ) (hl : l.length < s.f + s.c) (hq : s.queued = true) :
    (l.foldl deliver s).queued = true := by
  induction l generalizing s with
  | nil => exact hq
  | cons k t ih =>
    simp only [List.length_cons] at hl
    cases k
    · refine ih (deliver s .flush) ?_ ?_
      · simp only [deliver]; omega
      · simp only [deliver, hq, Bool.true_and, Bool.not_eq_true', beq_eq_false_iff_ne]; omega
    · refine ih (deliver s .copy) ?_ ?_
      · simp only [deliver]; omega
      · simp only [deliver, hq, Bool.true_and, Bool.not_eq_true', beq_eq_false_iff_ne]; omega

/-- before the fix: while a flush response is still missing, no copy response completes the command -/
theorem stays_queued_old (l : List RKind) (s : CQ) (hf : l.count .flush < s.f) (hq : s.queued = true) :
    (l.foldl deliverOld s).queued = true := by
  induction l generalizing s with
  | nil => exact hq
  | cons k t ih =>
    cases k
    · simp only [List.count_cons_self] at hf
      refine ih (deliverOld s .flush) ?_ hq
      simp only [deliverOld]; omega
    · have hf' : t.count .flush < s.f := by simpa [List.count_cons] using hf
      refine ih (deliverOld s .copy) hf' ?_
      simp only [deliverOld, hq, Bool.true_and, Bool.not_eq_true', beq_eq_false_iff_ne]
      omega

end Copy

end W


end C12
