import MgpuModel.C13Drv
/-!
# C13 — driver side: where the code of a launch was uploaded (helper definitions and lemmas)

Hypotheses on histories (`WF`, `Consistent`, `OneQueuePerObject`, `OneProcessPerObject`), the
statement `UploadedBefore`, and the invariant of `run` from which the properties in
`MgpuProofs/Props/C13DrvSync.lean` follow.
-/
namespace C13
namespace Drv

/-! ## hypotheses on histories -/

/-- queue indices used by launches exist when the launch is issued (in Go the queue is a pointer) -/
def wfFrom (nq : Nat) : List Op → Bool
  | [] => true
  | .newQueue _ :: r => wfFrom (nq + 1) r
  | .launch q _ _ _ :: r => decide (q < nq) && wfFrom nq r
  | .launchUnified q _ _ _ :: r => decide (q < nq) && wfFrom nq r

def WF (ops : List Op) : Prop := wfFrom 0 ops = true

instance (ops : List Op) : Decidable (WF ops) := by unfold WF; infer_instance

/-- the code object named by one operation -/
def coOf : Op → List Co
  | .newQueue _ => []
  | .launch _ _ co _ => [co]
  | .launchUnified _ _ co _ => [co]

/-- the code objects named by a history -/
def cosOf : List Op → List Co
  | [] => []
  | op :: r => coOf op ++ cosOf r

/-- a pointer identifies one object whose Data / sizes do not change between launches -/
def Consistent (ops : List Op) : Prop := ∀ a ∈ cosOf ops, ∀ b ∈ cosOf ops, a.id = b.id → a = b

instance (ops : List Op) : Decidable (Consistent ops) := by unfold Consistent; infer_instance

/-- (queue index, co id) of one operation, non-unified launches only -/
def useOf : Op → List (Nat × Nat)
  | .launch q _ co _ => [(q, co.id)]
  | _ => []

/-- (queue index of a non-unified launch, co id) pairs -/
def usesOf : List Op → List (Nat × Nat)
  | [] => []
  | op :: r => useOf op ++ usesOf r

/-- every code object is launched (non-unified) through one queue only -/
def OneQueuePerObject (ops : List Op) : Prop :=
  ∀ a ∈ usesOf ops, ∀ b ∈ usesOf ops, a.2 = b.2 → a.1 = b.1

instance (ops : List Op) : Decidable (OneQueuePerObject ops) := by
  unfold OneQueuePerObject; infer_instance

/-- every code object is launched (non-unified) from queues of one process only -/
def OneProcessPerObject (ops : List Op) : Prop :=
  ∀ a ∈ usesOf ops, ∀ b ∈ usesOf ops, a.2 = b.2 →
    pidOf (run ops).queues a.1 = pidOf (run ops).queues b.1

instance (ops : List Op) : Decidable (OneProcessPerObject ops) := by
  unfold OneProcessPerObject; infer_instance

/-- in a command list every launch is preceded by the upload of its code to the address it points at -/
def UploadedBefore (cmds : List Cmd) : Prop :=
  ∀ pre c post, cmds = pre ++ c :: post →
    (∀ co len ko ka dp, c = .launch co len ko ka dp → .copyCode ko co len ∈ pre) ∧
    (∀ co len parts, c = .launchUnified co len parts → ∀ p ∈ parts, .copyCode p.1 co len ∈ pre)

/-- no unified launch in the history -/
def NoUnified (ops : List Op) : Prop := ∀ q gpus co addrs, Op.launchUnified q gpus co addrs ∉ ops

/-- `c` uploads the code of object `id` -/
def isCopyOf (id : Nat) : Cmd → Bool
  | .copyCode _ co _ => co == id
  | _ => false

/-- number of uploads of the code of `id`, over all queues -/
def codeCopies : List Queue → Nat → Nat
  | [], _ => 0
  | q :: r, id => q.cmds.countP (isCopyOf id) + codeCopies r id

/-- what a non-unified launch of `id` would put in the cache if it were the first -/
def launchAddr (id : Nat) : Op → Option Nat
  | .launch _ _ co addrs => if co.id = id then some (addrs.getD 0 0) else none
  | _ => none

/-- the code address handed out by the first non-unified launch of `id` -/
def firstLaunchAddr (ops : List Op) (id : Nat) : Option Nat := ops.findSome? (launchAddr id)

/-- number of queues created by a history -/
def nqOf : List Op → Nat
  | [] => 0
  | .newQueue _ :: r => nqOf r + 1
  | _ :: r => nqOf r

/-! ## histories, from the right -/

theorem snoc_ind {α : Type} {P : List α → Prop} (nil : P [])
    (snoc : ∀ l a, P l → P (l ++ [a])) : ∀ l, P l := by
  intro l
  have : ∀ r : List α, P r.reverse := by
    intro r
    induction r with
    | nil => exact nil
    | cons a r ih => rw [List.reverse_cons]; exact snoc _ _ ih
  simpa using this l.reverse

theorem run_snoc (ops : List Op) (op : Op) : run (ops ++ [op]) = step (run ops) op := by
  simp [run, List.foldl_append]

theorem cosOf_append (a b : List Op) : cosOf (a ++ b) = cosOf a ++ cosOf b := by
  induction a with
  | nil => rfl
  | cons x r ih => simp [cosOf, ih]

theorem usesOf_append (a b : List Op) : usesOf (a ++ b) = usesOf a ++ usesOf b := by
  induction a with
  | nil => rfl
  | cons x r ih => simp [usesOf, ih]

theorem nqOf_append (a b : List Op) : nqOf (a ++ b) = nqOf a + nqOf b := by
  induction a with
  | nil => simp [nqOf]
  | cons x r ih => cases x <;> simp [nqOf, ih] <;> omega

theorem wfFrom_append (n : Nat) (a b : List Op) :
    wfFrom n (a ++ b) = (wfFrom n a && wfFrom (n + nqOf a) b) := by
  induction a generalizing n with
  | nil => simp [wfFrom, nqOf]
  | cons x r ih =>
    cases x <;> simp [wfFrom, nqOf, ih, Bool.and_assoc]
    congr 2; omega

theorem Consistent.init {ops : List Op} {op : Op} (h : Consistent (ops ++ [op])) : Consistent ops := by
  intro a ha b hb
  apply h <;> simp [cosOf_append, *]

/-! ## `pushCmds`, `pidOf`, `lookup` -/

theorem pushCmds_getElem? (qs : List Queue) (q : Nat) (cs : List Cmd) (i : Nat) :
    (pushCmds qs q cs)[i]? =
      qs[i]?.map (fun x => if i = q then { x with cmds := x.cmds ++ cs } else x) := by
  simp [pushCmds, List.getElem?_mapIdx]

theorem pushCmds_length (qs : List Queue) (q : Nat) (cs : List Cmd) :
    (pushCmds qs q cs).length = qs.length := by
  simp [pushCmds]

theorem pidOf_pushCmds (qs : List Queue) (q : Nat) (cs : List Cmd) (i : Nat) :
    pidOf (pushCmds qs q cs) i = pidOf qs i := by
  unfold pidOf
  rw [pushCmds_getElem?]
  cases qs[i]? with
  | none => rfl
  | some x => by_cases h : i = q <;> simp [h]

theorem pidOf_eq {qs : List Queue} {i : Nat} {x : Queue} (h : qs[i]? = some x) : pidOf qs i = x.pid := by
  simp [pidOf, h]

theorem pidOf_snoc {qs : List Queue} {i : Nat} (h : i < qs.length) (x : Queue) :
    pidOf (qs ++ [x]) i = pidOf qs i := by
  simp [pidOf, List.getElem?_append_left h]

theorem lookup_snoc (c : List (Nat × Nat)) (k v id : Nat) :
    lookup (c ++ [(k, v)]) id = (lookup c id).or (if k = id then some v else none) := by
  unfold lookup
  rw [List.find?_append]
  cases h : c.find? (·.1 == id) with
  | some x => simp
  | none => by_cases hk : k = id <;> simp [hk]

/-- recursive form of `pushCmds` -/
def push' : List Queue → Nat → List Cmd → List Queue
  | [], _, _ => []
  | x :: r, 0, cs => { x with cmds := x.cmds ++ cs } :: r
  | x :: r, q + 1, cs => x :: push' r q cs

theorem push'_getElem? (qs : List Queue) (q : Nat) (cs : List Cmd) (i : Nat) :
    (push' qs q cs)[i]? =
      qs[i]?.map (fun x => if i = q then { x with cmds := x.cmds ++ cs } else x) := by
  induction qs generalizing q i with
  | nil => simp [push']
  | cons x r ih =>
    cases q with
    | zero =>
      cases i with
      | zero => simp [push']
      | succ i => simp [push']
    | succ q =>
      cases i with
      | zero => simp [push']
      | succ i => simp [push', ih]

theorem pushCmds_eq_push' (qs : List Queue) (q : Nat) (cs : List Cmd) : pushCmds qs q cs = push' qs q cs := by
  apply List.ext_getElem?
  intro i
  rw [pushCmds_getElem?, push'_getElem?]

theorem codeCopies_push' (qs : List Queue) (q : Nat) (cs : List Cmd) (id : Nat) (h : q < qs.length) :
    codeCopies (push' qs q cs) id = codeCopies qs id + cs.countP (isCopyOf id) := by
  induction qs generalizing q with
  | nil => simp at h
  | cons x r ih =>
    cases q with
    | zero => simp [push', codeCopies, List.countP_append]; omega
    | succ q =>
      have h' : q < r.length := by simpa using h
      simp [push', codeCopies, ih q h']; omega

theorem codeCopies_pushCmds (qs : List Queue) (q : Nat) (cs : List Cmd) (id : Nat) (h : q < qs.length) :
    codeCopies (pushCmds qs q cs) id = codeCopies qs id + cs.countP (isCopyOf id) := by
  rw [pushCmds_eq_push', codeCopies_push' _ _ _ _ h]

theorem codeCopies_snoc_empty (qs : List Queue) (pid id : Nat) :
    codeCopies (qs ++ [⟨pid, []⟩]) id = codeCopies qs id := by
  induction qs with
  | nil => simp [codeCopies]
  | cons x r ih => simp [codeCopies, ih]

/-! ## what one operation appends -/

/-- the queue an operation appends to -/
def qOf : Op → Nat
  | .newQueue _ => 0
  | .launch q _ _ _ => q
  | .launchUnified q _ _ _ => q

def isNew : Op → Bool
  | .newQueue _ => true
  | _ => false

/-- the commands an operation appends to queue `qOf op` -/
def newCmds (s : State) : Op → List Cmd
  | .newQueue _ => []
  | .launch _ _ co addrs =>
    match lookup s.cache co.id with
    | some ko =>
      [.copyArgs (addrs.getD 0 0) co.kernarg, .copyPacket (addrs.getD 1 0),
       .launch co.id co.len ko (addrs.getD 0 0) (addrs.getD 1 0)]
    | none =>
      [.copyCode (addrs.getD 0 0) co.id co.len, .copyArgs (addrs.getD 1 0) co.kernarg,
       .copyPacket (addrs.getD 2 0),
       .launch co.id co.len (addrs.getD 0 0) (addrs.getD 1 0) (addrs.getD 2 0)]
  | .launchUnified q gpus co addrs =>
    (unifiedParts (pidOf s.queues q) co gpus addrs).2.1 ++
      [.launchUnified co.id co.len (unifiedParts (pidOf s.queues q) co gpus addrs).2.2]

/-- the allocations an operation makes -/
def newAllocs (s : State) : Op → List Alloc
  | .newQueue _ => []
  | .launch q gpu co addrs =>
    match lookup s.cache co.id with
    | some _ =>
      [⟨pidOf s.queues q, gpu, addrs.getD 0 0, co.kernarg⟩, ⟨pidOf s.queues q, gpu, addrs.getD 1 0, packetSize⟩]
    | none =>
      [⟨pidOf s.queues q, gpu, addrs.getD 0 0, co.len⟩, ⟨pidOf s.queues q, gpu, addrs.getD 1 0, co.kernarg⟩,
       ⟨pidOf s.queues q, gpu, addrs.getD 2 0, packetSize⟩]
  | .launchUnified q gpus co addrs => (unifiedParts (pidOf s.queues q) co gpus addrs).1

theorem step_allocs (s : State) (op : Op) : (step s op).allocs = s.allocs ++ newAllocs s op := by
  cases op with
  | newQueue pid => simp [step, newAllocs]
  | launch q gpu co addrs => cases h : lookup s.cache co.id <;> simp [step, newAllocs, h]
  | launchUnified q gpus co addrs => rfl

theorem step_cache (s : State) (op : Op) :
    (step s op).cache =
      match op with
      | .launch _ _ co addrs =>
        match lookup s.cache co.id with
        | some _ => s.cache
        | none => s.cache ++ [(co.id, addrs.getD 0 0)]
      | _ => s.cache := by
  cases op with
  | newQueue pid => rfl
  | launch q gpu co addrs => cases h : lookup s.cache co.id <;> simp [step, h]
  | launchUnified q gpus co addrs => rfl

theorem step_queues_push (s : State) (op : Op) (h : isNew op = false) :
    (step s op).queues = pushCmds s.queues (qOf op) (newCmds s op) := by
  cases op with
  | newQueue pid => simp [isNew] at h
  | launch q gpu co addrs => cases h : lookup s.cache co.id <;> simp [step, newCmds, qOf, h]
  | launchUnified q gpus co addrs => rfl

theorem step_queues_getElem? (s : State) (op : Op) (j : Nat) :
    (step s op).queues[j]? =
      match s.queues[j]? with
      | some x => some { x with cmds := x.cmds ++ (if j = qOf op then newCmds s op else []) }
      | none =>
        match op with
        | .newQueue pid => if j = s.queues.length then some ⟨pid, []⟩ else none
        | _ => none := by
  by_cases hn : isNew op = false
  · rw [step_queues_push s op hn, pushCmds_getElem?]
    cases hj : s.queues[j]? with
    | none => cases op <;> simp [isNew] at hn ⊢
    | some x => by_cases hq : j = qOf op <;> simp [hq]
  · cases op with
    | newQueue pid =>
      simp only [step, newCmds, qOf]
      cases hj : s.queues[j]? with
      | none =>
        have hl : s.queues.length ≤ j := by
          rcases Nat.lt_or_ge j s.queues.length with h | h
          · simp [List.getElem?_eq_getElem h] at hj
          · exact h
        rw [List.getElem?_append_right hl]
        by_cases he : j = s.queues.length
        · simp [he]
        · have : j - s.queues.length ≠ 0 := by omega
          simp [he, this]
      | some x =>
        have hl : j < s.queues.length := by
          rcases Nat.lt_or_ge j s.queues.length with h | h
          · exact h
          · simp [List.getElem?_eq_none h] at hj
        rw [List.getElem?_append_left hl, hj]
        cases x; simp; exact ite_self _
    | launch q gpu co addrs => simp [isNew] at hn
    | launchUnified q gpus co addrs => simp [isNew] at hn

theorem step_queues_length (s : State) (op : Op) :
    (step s op).queues.length = s.queues.length + nqOf [op] := by
  cases op with
  | newQueue pid => simp [step, nqOf]
  | launch q gpu co addrs => rw [step_queues_push _ _ rfl, pushCmds_length]; simp [nqOf]
  | launchUnified q gpus co addrs => rw [step_queues_push _ _ rfl, pushCmds_length]; simp [nqOf]

theorem run_queues_length (ops : List Op) : (run ops).queues.length = nqOf ops := by
  induction ops using snoc_ind with
  | nil => rfl
  | snoc ops op ih => rw [run_snoc, step_queues_length, ih, nqOf_append]

theorem step_pidOf (s : State) (op : Op) {i : Nat} (h : i < s.queues.length) :
    pidOf (step s op).queues i = pidOf s.queues i := by
  unfold pidOf
  rw [step_queues_getElem?, List.getElem?_eq_getElem h]
  simp

theorem WF_snoc (ops : List Op) (op : Op) :
    WF (ops ++ [op]) ↔ WF ops ∧ (isNew op = false → qOf op < nqOf ops) := by
  unfold WF
  rw [wfFrom_append]
  cases op <;> simp [wfFrom, isNew, qOf]

/-- induction along a history, from the right -/
theorem run_induction {P : List Op → State → Prop} (h0 : P [] {})
    (hs : ∀ ops op, P ops (run ops) → P (ops ++ [op]) (step (run ops) op)) : ∀ ops, P ops (run ops) := by
  intro ops
  induction ops using snoc_ind with
  | nil => exact h0
  | snoc ops op ih => rw [run_snoc]; exact hs ops op ih

/-! ## the cache -/

theorem firstLaunchAddr_snoc (ops : List Op) (op : Op) (id : Nat) :
    firstLaunchAddr (ops ++ [op]) id = (firstLaunchAddr ops id).or (launchAddr id op) := by
  unfold firstLaunchAddr
  rw [List.findSome?_append]
  simp [List.findSome?_cons]
  cases launchAddr id op <;> rfl

theorem lookup_cache_run (ops : List Op) (id : Nat) :
    lookup (run ops).cache id = firstLaunchAddr ops id := by
  induction ops using snoc_ind with
  | nil => rfl
  | snoc ops op ih =>
    rw [run_snoc, firstLaunchAddr_snoc, ← ih, step_cache]
    cases op with
    | newQueue pid => simp [launchAddr]
    | launchUnified q gpus co addrs => simp [launchAddr]
    | launch q gpu co addrs =>
      cases h : lookup (run ops).cache co.id with
      | some ko =>
        by_cases hid : co.id = id
        · subst hid; simp [h]
        · simp [launchAddr, hid, h]
      | none => simp only [h, lookup_snoc, launchAddr]

theorem step_lookup_mono {s : State} {id ko : Nat} (h : lookup s.cache id = some ko) (op : Op) :
    lookup (step s op).cache id = some ko := by
  cases op with
  | newQueue pid => exact h
  | launchUnified q gpus co addrs => exact h
  | launch q gpu co addrs =>
    cases h' : lookup s.cache co.id with
    | some ko' => simp only [step_cache, h', h]
    | none => simp only [step_cache, h', lookup_snoc, h, Option.some_or]

theorem firstLaunchAddr_isSome (ops : List Op) (id : Nat) :
    (firstLaunchAddr ops id).isSome ↔ ∃ q gpu co addrs, Op.launch q gpu co addrs ∈ ops ∧ co.id = id := by
  unfold firstLaunchAddr
  induction ops with
  | nil => simp
  | cons op r ih =>
    rw [List.findSome?_cons]
    cases op with
    | newQueue pid => simpa [launchAddr] using ih
    | launchUnified q gpus co addrs => simpa [launchAddr] using ih
    | launch q gpu co addrs =>
      by_cases hid : co.id = id
      · simp only [launchAddr, hid, if_true, Option.isSome_some, true_iff]
        exact ⟨q, gpu, co, addrs, by simp, hid⟩
      · simp only [launchAddr, hid, if_false]
        rw [ih]
        constructor
        · rintro ⟨q', g', c', a', hm, hc⟩
          exact ⟨q', g', c', a', by simp [hm], hc⟩
        · rintro ⟨q', g', c', a', hm, hc⟩
          refine ⟨q', g', c', a', ?_, hc⟩
          rcases List.mem_cons.mp hm with he | hm
          · injection he with _ _ h3 _
            subst h3; exact absurd hc hid
          · exact hm

/-! ## list splitting -/

theorem append_split {α : Type} {old new pre post : List α} {c : α}
    (h : old ++ new = pre ++ c :: post) :
    (∃ post', old = pre ++ c :: post') ∨ (∃ pre', pre = old ++ pre' ∧ new = pre' ++ c :: post) := by
  induction old generalizing pre with
  | nil => exact Or.inr ⟨pre, by simp, by simpa using h⟩
  | cons x r ih =>
    cases pre with
    | nil =>
      simp at h
      exact Or.inl ⟨r, by simp [h.1]⟩
    | cons y pre =>
      simp at h
      rcases ih h.2 with ⟨post', hp⟩ | ⟨pre', hp1, hp2⟩
      · exact Or.inl ⟨post', by simp [h.1, hp]⟩
      · exact Or.inr ⟨pre', by simp [h.1, hp1], hp2⟩

theorem snoc_split {α : Type} {l pre post : List α} {y c : α} (h : l ++ [y] = pre ++ c :: post) :
    c ∈ l ∨ (pre = l ∧ c = y) := by
  rcases append_split h with ⟨post', hp⟩ | ⟨pre', hp1, hp2⟩
  · left; simp [hp]
  · cases pre' with
    | nil => simp at hp2; right; exact ⟨by simpa using hp1, hp2.1.symm⟩
    | cons z t =>
      simp at hp2

/-! ## unified launches -/

def isLaunch : Cmd → Bool
  | .launch .. => true
  | .launchUnified .. => true
  | _ => false

theorem unifiedParts_spec (pid : Nat) (co : Co) (gpus : List Nat) (addrs : List Nat) :
    (∀ x ∈ (unifiedParts pid co gpus addrs).2.1, isLaunch x = false) ∧
    (∀ p ∈ (unifiedParts pid co gpus addrs).2.2,
      Cmd.copyCode p.1 co.id co.len ∈ (unifiedParts pid co gpus addrs).2.1 ∧
      ∃ a ∈ (unifiedParts pid co gpus addrs).1, a.addr = p.1 ∧ a.size = co.len ∧ a.pid = pid) := by
  induction gpus generalizing addrs with
  | nil => simp [unifiedParts]
  | cons g gs ih =>
    obtain ⟨ih1, ih2⟩ := ih (addrs.drop 3)
    constructor
    · intro x hx
      simp only [unifiedParts, List.mem_append, List.mem_cons, List.not_mem_nil, or_false] at hx
      rcases hx with (rfl | rfl | rfl) | hx
      · rfl
      · rfl
      · rfl
      · exact ih1 x hx
    · intro p hp
      simp only [unifiedParts, List.mem_cons] at hp
      rcases hp with rfl | hp
      · simp [unifiedParts]
      · obtain ⟨h1, a, ha, h2⟩ := ih2 p hp
        refine ⟨?_, a, ?_, h2⟩
        · simp only [unifiedParts, List.mem_append]; exact Or.inr h1
        · simp only [unifiedParts, List.mem_append]; exact Or.inr ha

/-! ## the invariant -/

/-- the code of `id` (`len` bytes) was uploaded to `ko` through queue `i`, into a buffer of that
queue's process -/
def Home (s : State) (i ko id len : Nat) : Prop :=
  ∃ qu, s.queues[i]? = some qu ∧ Cmd.copyCode ko id len ∈ qu.cmds ∧
    ∃ a ∈ s.allocs, a.addr = ko ∧ a.size = len ∧ a.pid = qu.pid

/-- what is known of a command of queue `j` (process `pid`) preceded by `pre` -/
def GoodCmd (s : State) (ops : List Op) (j pid : Nat) (pre : List Cmd) : Cmd → Prop
  | .launch co len ko _ _ =>
    lookup s.cache co = some ko ∧ (j, co) ∈ usesOf ops ∧
      ∃ i, (i, co) ∈ usesOf ops ∧ Home s i ko co len ∧ (i = j → Cmd.copyCode ko co len ∈ pre)
  | .launchUnified co len parts =>
    ∀ p ∈ parts, Cmd.copyCode p.1 co len ∈ pre ∧
      ∃ a ∈ s.allocs, a.addr = p.1 ∧ a.size = len ∧ a.pid = pid
  | _ => True

structure Inv (ops : List Op) (s : State) : Prop where
  cache : ∀ id ko, lookup s.cache id = some ko →
    ∃ c ∈ cosOf ops, c.id = id ∧ ∃ i, (i, id) ∈ usesOf ops ∧ Home s i ko id c.len
  cmds : ∀ j qu, s.queues[j]? = some qu → ∀ pre c post, qu.cmds = pre ++ c :: post →
    GoodCmd s ops j qu.pid pre c

theorem mem_step_allocs {s : State} {a : Alloc} (h : a ∈ s.allocs) (op : Op) : a ∈ (step s op).allocs := by
  rw [step_allocs]; exact List.mem_append_left _ h

theorem Home.mono {s : State} {i ko id len : Nat} (h : Home s i ko id len) (op : Op) :
    Home (step s op) i ko id len := by
  obtain ⟨qu, hq, hc, a, ha, h1⟩ := h
  refine ⟨{ qu with cmds := qu.cmds ++ (if i = qOf op then newCmds s op else []) }, ?_, ?_, a,
    mem_step_allocs ha op, h1⟩
  · rw [step_queues_getElem?, hq]
  · exact List.mem_append_left _ hc

theorem GoodCmd.mono {s : State} {ops : List Op} {j pid : Nat} {pre : List Cmd} {c : Cmd}
    (h : GoodCmd s ops j pid pre c) (op : Op) : GoodCmd (step s op) (ops ++ [op]) j pid pre c := by
  cases c with
  | copyCode _ _ _ => trivial
  | copyArgs _ _ => trivial
  | copyPacket _ => trivial
  | launch co len ko ka dp =>
    obtain ⟨h1, h2, i, h3, h4, h5⟩ := h
    exact ⟨step_lookup_mono h1 op, by simp [usesOf_append, h2], i, by simp [usesOf_append, h3],
      h4.mono op, h5⟩
  | launchUnified co len parts =>
    intro p hp
    obtain ⟨h1, a, ha, h2⟩ := h p hp
    exact ⟨h1, a, mem_step_allocs ha op, h2⟩

theorem GoodCmd.of_not_launch {s : State} {ops : List Op} {j pid : Nat} {pre : List Cmd} {c : Cmd}
    (h : isLaunch c = false) : GoodCmd s ops j pid pre c := by
  cases c <;> first | trivial | simp [isLaunch] at h

/-- a non-cached launch makes its queue the home of the code -/
theorem home_of_uncached {s : State} {q gpu : Nat} {co : Co} {addrs : List Nat} {x : Queue}
    (hx : s.queues[q]? = some x) (hc : lookup s.cache co.id = none) :
    Home (step s (.launch q gpu co addrs)) q (addrs.getD 0 0) co.id co.len := by
  refine ⟨{ x with cmds := x.cmds ++ newCmds s (.launch q gpu co addrs) }, ?_, ?_,
    ⟨pidOf s.queues q, gpu, addrs.getD 0 0, co.len⟩, ?_, rfl, rfl, (pidOf_eq hx : _ = x.pid)⟩
  · rw [step_queues_getElem?, hx]; simp [qOf]
  · simp [newCmds, hc]
  · rw [step_allocs]; simp [newAllocs, hc]

theorem Inv.nil : Inv [] {} := by
  constructor
  · intro id ko h; simp [lookup] at h
  · intro j qu h; simp at h

theorem Inv.preserved {ops : List Op} {s : State} (inv : Inv ops s) (op : Op)
    (hq : isNew op = false → qOf op < s.queues.length) (hcons : Consistent (ops ++ [op])) :
    Inv (ops ++ [op]) (step s op) := by
  -- mono of the cache clause
  have cacheMono : ∀ id ko, lookup s.cache id = some ko →
      ∃ c ∈ cosOf (ops ++ [op]), c.id = id ∧ ∃ i, (i, id) ∈ usesOf (ops ++ [op]) ∧
        Home (step s op) i ko id c.len := by
    intro id ko h
    obtain ⟨c, hc, hid, i, hi, hh⟩ := inv.cache id ko h
    exact ⟨c, by simp [cosOf_append, hc], hid, i, by simp [usesOf_append, hi], hh.mono op⟩
  constructor
  · intro id ko h
    cases op with
    | newQueue pid => exact cacheMono id ko h
    | launchUnified q gpus co addrs => exact cacheMono id ko h
    | launch q gpu co addrs =>
      cases hc : lookup s.cache co.id with
      | some ko' =>
        simp only [step_cache, hc] at h
        exact cacheMono id ko h
      | none =>
        simp only [step_cache, hc, lookup_snoc] at h
        cases ho : lookup s.cache id with
        | some ko' =>
          rw [ho, Option.some_or] at h
          exact cacheMono id ko (by rw [ho, h])
        | none =>
          rw [ho, Option.none_or] at h
          by_cases hid : co.id = id
          · rw [if_pos hid] at h
            injection h with h
            subst h; subst hid
            have hlt : q < s.queues.length := hq rfl
            refine ⟨co, by simp [cosOf_append, cosOf, coOf], rfl, q,
              by simp [usesOf_append, usesOf, useOf], ?_⟩
            exact home_of_uncached (List.getElem?_eq_getElem hlt) hc
          · rw [if_neg hid] at h; cases h
  · intro j qu hj pre c post hsplit
    rw [step_queues_getElem?] at hj
    cases hx : s.queues[j]? with
    | none =>
      rw [hx] at hj
      cases op with
      | newQueue pid =>
        simp only at hj
        split at hj
        · injection hj with hj; subst hj; simp at hsplit
        · cases hj
      | launch q gpu co addrs => cases hj
      | launchUnified q gpus co addrs => cases hj
    | some x =>
      rw [hx] at hj
      injection hj with hj
      subst hj
      simp only at hsplit ⊢
      rcases append_split hsplit with ⟨post', hp⟩ | ⟨pre', hp1, hp2⟩
      · exact (inv.cmds j x hx pre c post' hp).mono op
      · subst hp1
        by_cases hjq : j = qOf op
        · rw [if_pos hjq] at hp2
          cases op with
          | newQueue pid => simp [newCmds] at hp2
          | launchUnified q gpus co addrs =>
            simp only [qOf] at hjq
            subst hjq
            obtain ⟨u1, u2⟩ := unifiedParts_spec (pidOf s.queues j) co gpus addrs
            rcases snoc_split hp2 with hm | ⟨rfl, rfl⟩
            · exact GoodCmd.of_not_launch (u1 c hm)
            · intro p hp
              obtain ⟨h1, a, ha, h2, h3, h4⟩ := u2 p hp
              refine ⟨List.mem_append_right _ h1, a, ?_, h2, h3, ?_⟩
              · rw [step_allocs]; exact List.mem_append_right _ ha
              · rw [h4]; exact pidOf_eq hx
          | launch q gpu co addrs =>
            simp only [qOf] at hjq
            subst hjq
            cases hc : lookup s.cache co.id with
            | none =>
              simp only [newCmds, hc] at hp2
              have hh : Home (step s (.launch j gpu co addrs)) j (addrs.getD 0 0) co.id co.len :=
                home_of_uncached hx hc
              rcases snoc_split (l := [_, _, _]) hp2 with hm | ⟨rfl, rfl⟩
              · apply GoodCmd.of_not_launch
                simp only [List.mem_cons, List.not_mem_nil, or_false] at hm
                rcases hm with rfl | rfl | rfl <;> rfl
              · refine ⟨?_, by simp [usesOf_append, usesOf, useOf], j,
                  by simp [usesOf_append, usesOf, useOf], hh, fun _ => by simp⟩
                simp only [step_cache, hc, lookup_snoc]
                simp
            | some ko =>
              simp only [newCmds, hc] at hp2
              rcases snoc_split (l := [_, _]) hp2 with hm | ⟨rfl, rfl⟩
              · apply GoodCmd.of_not_launch
                simp only [List.mem_cons, List.not_mem_nil, or_false] at hm
                rcases hm with rfl | rfl <;> rfl
              · obtain ⟨c', hc', hid, i, hi, hh⟩ := inv.cache co.id ko hc
                have hcc : c' = co :=
                  hcons c' (by simp [cosOf_append, hc']) co (by simp [cosOf_append, cosOf, coOf]) hid
                subst hcc
                refine ⟨step_lookup_mono hc _, by simp [usesOf_append, usesOf, useOf], i,
                  by simp [usesOf_append, hi], hh.mono _, ?_⟩
                intro hij
                subst hij
                obtain ⟨qu, hq', hcopy, _⟩ := hh
                rw [hx] at hq'
                injection hq' with hq'
                subst hq'
                exact List.mem_append_left _ hcopy
        · rw [if_neg hjq] at hp2
          simp at hp2

theorem inv_run (ops : List Op) (hwf : WF ops) (hc : Consistent ops) : Inv ops (run ops) := by
  revert hwf hc
  refine run_induction (P := fun ops s => WF ops → Consistent ops → Inv ops s) ?_ ?_ ops
  · intro _ _; exact Inv.nil
  · intro ops op ih hwf hc
    rw [WF_snoc] at hwf
    refine (ih hwf.1 hc.init).preserved op ?_ hc
    rw [run_queues_length]; exact hwf.2

/-- from membership to the indexed form used by the invariant -/
theorem Inv.good_of_mem {ops : List Op} {s : State} (inv : Inv ops s) {qu : Queue} (hq : qu ∈ s.queues)
    {c : Cmd} (hc : c ∈ qu.cmds) :
    ∃ j pre post, s.queues[j]? = some qu ∧ qu.cmds = pre ++ c :: post ∧ GoodCmd s ops j qu.pid pre c := by
  obtain ⟨j, hj⟩ := List.mem_iff_getElem?.mp hq
  obtain ⟨pre, post, hs⟩ := List.append_of_mem hc
  exact ⟨j, pre, post, hj, hs, inv.cmds j qu hj pre c post hs⟩

/-! ## a launch command carries the cached address (no hypothesis on the history) -/

theorem launch_cmd_cached (ops : List Op) :
    ∀ qu ∈ (run ops).queues, ∀ co len ko ka dp, Cmd.launch co len ko ka dp ∈ qu.cmds →
      lookup (run ops).cache co = some ko := by
  refine run_induction (P := fun _ s => ∀ qu ∈ s.queues, ∀ co len ko ka dp,
    Cmd.launch co len ko ka dp ∈ qu.cmds → lookup s.cache co = some ko) ?_ ?_ ops
  · intro qu hq; simp at hq
  · intro ops op ih qu hq co len ko ka dp hm
    obtain ⟨j, hj⟩ := List.mem_iff_getElem?.mp hq
    rw [step_queues_getElem?] at hj
    cases hx : (run ops).queues[j]? with
    | none =>
      rw [hx] at hj
      cases op with
      | newQueue pid =>
        simp only at hj
        split at hj
        · injection hj with hj; subst hj; simp at hm
        · cases hj
      | launch q gpu co addrs => cases hj
      | launchUnified q gpus co addrs => cases hj
    | some x =>
      rw [hx] at hj
      injection hj with hj
      subst hj
      simp only at hm
      rcases List.mem_append.mp hm with hm | hm
      · exact step_lookup_mono (ih x (List.mem_of_getElem? hx) co len ko ka dp hm) op
      · by_cases hjq : j = qOf op
        · rw [if_pos hjq] at hm
          cases op with
          | newQueue pid => simp [newCmds] at hm
          | launchUnified q gpus co' addrs =>
            simp only [newCmds, List.mem_append, List.mem_cons, List.not_mem_nil, or_false] at hm
            rcases hm with hm | hm
            · have := (unifiedParts_spec (pidOf (run ops).queues q) co' gpus addrs).1 _ hm
              simp [isLaunch] at this
            · cases hm
          | launch q gpu co' addrs =>
            cases hc : lookup (run ops).cache co'.id with
            | some ko' =>
              simp only [newCmds, hc, List.mem_cons, List.not_mem_nil, or_false] at hm
              rcases hm with hm | hm | hm
              · cases hm
              · cases hm
              · injection hm with h1 h2 h3 h4 h5
                subst h1; subst h3
                exact step_lookup_mono hc _
            | none =>
              simp only [newCmds, hc, List.mem_cons, List.not_mem_nil, or_false] at hm
              rcases hm with hm | hm | hm | hm
              · cases hm
              · cases hm
              · cases hm
              · injection hm with h1 h2 h3 h4 h5
                subst h1; subst h3
                simp only [step_cache, hc, lookup_snoc]
                simp
        · rw [if_neg hjq] at hm
          simp at hm

/-! ## counting uploads -/

theorem NoUnified.init {ops : List Op} {op : Op} (h : NoUnified (ops ++ [op])) : NoUnified ops := by
  intro q g c a hm
  exact h q g c a (List.mem_append_left _ hm)

theorem codeCopies_run (ops : List Op) (hwf : WF ops) (hnu : NoUnified ops) (id : Nat) :
    codeCopies (run ops).queues id = if (lookup (run ops).cache id).isSome then 1 else 0 := by
  revert hwf hnu
  refine run_induction (P := fun ops s => WF ops → NoUnified ops →
    codeCopies s.queues id = if (lookup s.cache id).isSome then 1 else 0) ?_ ?_ ops
  · intro _ _; rfl
  · intro ops op ih hwf hnu
    rw [WF_snoc] at hwf
    have ih := ih hwf.1 hnu.init
    have hlt := hwf.2
    rw [← run_queues_length] at hlt
    cases op with
    | newQueue pid =>
      simp only [step, codeCopies_snoc_empty]
      exact ih
    | launchUnified q gpus co addrs =>
      exact absurd (List.mem_append_right _ (List.mem_singleton.mpr rfl)) (hnu q gpus co addrs)
    | launch q gpu co addrs =>
      have hlt : q < (run ops).queues.length := hlt rfl
      rw [step_queues_push _ _ rfl]
      simp only [qOf]
      rw [codeCopies_pushCmds _ _ _ _ hlt, ih]
      cases hc : lookup (run ops).cache co.id with
      | some ko =>
        simp [newCmds, hc, step_cache, isCopyOf]
      | none =>
        simp only [newCmds, hc, step_cache, lookup_snoc]
        by_cases hid : co.id = id
        · subst hid
          simp [hc, isCopyOf]
        · cases ho : lookup (run ops).cache id <;> simp [hid, isCopyOf]

/-! ## concrete histories -/

/-- two queues (two processes), two objects, a cached re-launch, a unified launch -/
def demo : List Op :=
  [.newQueue 1, .newQueue 2,
   .launch 0 1 ⟨7, 64, 16, 0⟩ [4096, 8192, 12288],
   .launch 1 1 ⟨9, 128, 32, 8⟩ [4096, 8192, 12288],
   .launch 0 1 ⟨7, 64, 16, 0⟩ [16384, 20480],
   .launchUnified 1 [1, 2] ⟨7, 64, 16, 0⟩ [24576, 28672, 32768, 36864, 40960, 45056]]

/-- `demo` without the unified launch -/
def demoPlain : List Op := demo.take 5

/-- the second queue launches the cached object: no upload in that queue -/
def sameQueueWitness : List Op :=
  [.newQueue 1, .newQueue 1, .launch 0 1 ⟨7, 64, 16, 0⟩ [4096, 8192, 12288],
   .launch 1 2 ⟨7, 64, 16, 0⟩ [16384, 20480]]

/-- the second process is handed the first process's address 16384, which in its own address
space is its kernarg buffer -/
def sameProcessWitness : List Op :=
  [.newQueue 1, .newQueue 2, .launch 0 1 ⟨7, 64, 16, 0⟩ [16384, 20480, 24576],
   .launch 1 1 ⟨7, 64, 16, 0⟩ [16384, 20480]]

/-- same pointer, `len(co.Data)` changed between the launches -/
def inconsistentWitness : List Op :=
  [.newQueue 1, .launch 0 1 ⟨7, 64, 16, 0⟩ [4096, 8192, 12288],
   .launch 0 1 ⟨7, 128, 16, 0⟩ [16384, 20480]]

/-- a launch through a queue index that does not exist yet: the cache is filled, nothing is enqueued -/
def illFormedWitness : List Op :=
  [.launch 0 1 ⟨7, 64, 16, 0⟩ [4096, 8192, 12288], .newQueue 1,
   .launch 0 1 ⟨7, 64, 16, 0⟩ [16384, 20480]]

end Drv
end C13
