import MgpuModel.C11Cp
/-! Specification-side definitions for the command processor's copy / flush path: projections of the
ghost event log and the flush-protocol acceptor. Used by the statements in `Props/C11Cp.lean`. -/
namespace C11

def CpEv.isFwd : CpEv → Bool
  | .fwd .. => true
  | _ => false

def CpEv.isAck : CpEv → Bool
  | .ack => true
  | _ => false

def CpEv.cacheIdx? : CpEv → Option Nat
  | .cacheReq i => some i
  | _ => none

def CpEv.flushStart? : CpEv → Option Nat
  | .flushStart f => some f
  | _ => none

def CpEv.flushDone? : CpEv → Option Nat
  | .flushDone f _ => some f
  | _ => none

/-- the driver request this event took from the driver port -/
def CpEv.popped? : CpEv → Option CpMsg
  | .flushStart f => some ⟨f, .flush⟩
  | .fwd o _ k _ => some ⟨o, k⟩
  | _ => none

/-- the clone this event put into ToDMA's outgoing buffer -/
def CpEv.clone? : CpEv → Option CpClone
  | .fwd o c k true => some ⟨c, o, k⟩
  | _ => none

/-- clone id created by this event (sent or dropped) -/
def CpEv.fwdCid? : CpEv → Option Nat
  | .fwd _ c _ _ => some c
  | _ => none

/-- the answer this event put into ToDriver's outgoing buffer -/
def CpEv.rsp? : CpEv → Option CpMsg
  | .flushDone f true => some ⟨f, .flush⟩
  | .done o _ k true => some ⟨o, k⟩
  | _ => none

/-- original request a `done` event answers (sent or dropped) -/
def CpEv.doneOrig? : CpEv → Option Nat
  | .done o _ _ _ => some o
  | _ => none

/-- the `Send` of this event failed and its error was ignored (possible only before the repair) -/
def CpEv.dropped : CpEv → Bool
  | .flushDone _ false => true
  | .fwd _ _ _ false => true
  | .done _ _ _ false => true
  | _ => false

/-- state of the flush-protocol acceptor -/
structure FlushSpec where
  /-- flush request being served -/
  cur : Option Nat := none
  /-- cache flushes sent and not yet acknowledged -/
  waiting : Nat := 0
  /-- caches asked on behalf of `cur`, in order -/
  asked : List Nat := []
deriving DecidableEq, Repr

/-- The flush protocol as an acceptor over the event log (`n` caches): a flush starts only when none
    is open and nothing is outstanding; it asks caches `0,1,…` in order; an acknowledgement needs an
    outstanding request; the flush is answered only when ALL `n` caches were asked and nothing is
    outstanding; a copy is forwarded to the DMA engine only when no flush is open. -/
def specStep (n : Nat) (q : FlushSpec) : CpEv → Option FlushSpec
  | .flushStart f => if q.cur = none ∧ q.waiting = 0 then some { cur := some f, waiting := 0, asked := [] } else none
  | .cacheReq i =>
    if q.cur.isSome ∧ i = q.asked.length ∧ i < n then some { q with waiting := q.waiting + 1, asked := q.asked ++ [i] }
    else none
  | .ack => if 0 < q.waiting then some { q with waiting := q.waiting - 1 } else none
  | .flushDone f _ =>
    if q.cur = some f ∧ q.waiting = 0 ∧ q.asked.length = n then some { cur := none, waiting := 0, asked := [] } else none
  | .fwd .. => if q.cur = none ∧ q.waiting = 0 then some q else none
  | .done .. => some q

def specRun (n : Nat) : FlushSpec → List CpEv → Option FlushSpec
  | q, [] => some q
  | q, ev :: rest => (specStep n q ev).bind fun q' => specRun n q' rest

/-- state after an arbitrary list of environment moves, arbitrary configuration -/
def reachCp (nCaches capIn capDrv capDma capCache : Nat) (ops : List CpOp) : CpEnv :=
  (CpEnv.init nCaches capIn capDrv capDma capCache).run ops

/-- the same for the code before the repair (`Send` errors ignored) -/
def reachCpOld (nCaches capIn capDrv capDma capCache : Nat) (ops : List CpOp) : CpEnv :=
  (CpEnv.init nCaches capIn capDrv capDma capCache).runOld ops

/-- nothing in flight anywhere: all port buffers empty, the DMA side and the caches hold nothing -/
def CpEnv.quiet (e : CpEnv) : Prop :=
  e.s.drvIn = [] ∧ e.s.drvOut = [] ∧ e.s.dmaOut = [] ∧ e.s.dmaIn = [] ∧ e.s.cacheOut = [] ∧ e.s.cacheIn = [] ∧
  e.atDma = [] ∧ e.atCaches = []

end C11
