import MgpuProofs.C15Inv
/-! # C15 — quiescence and progress lemmas for the tick-exact ROB model -/
namespace C15

/-- the state with the id counter forgotten (a failed `Send` consumes an id and nothing else) -/
def forget (s : St) : St := { s with nextBot := 0 }

/-- what `bottomUp` waits for -/
def WaitBottomUp (c : Cfg) (s : St) : Prop :=
  s.txs = [] ∨ (∃ t rest, s.txs = t :: rest ∧ t.rsp = none) ∨ c.topOutCap ≤ s.topOut.length

/-- what `topDown` waits for -/
def WaitTopDown (c : Cfg) (s : St) : Prop :=
  s.topIn = [] ∨ c.cap ≤ s.txs.length ∨ c.botOutCap ≤ s.botOut.length

/-- what `processControlMsg` waits for -/
def WaitCtl (c : Cfg) (s : St) : Prop := s.ctlIn = [] ∨ c.ctlOutCap ≤ s.ctlOut

theorem isSome_false_of_none {α} {o : Option α} (h : o = none) : o.isSome = false := by simp [h]

theorem bottomUp_fault_back (c : Cfg) (s : St) (h : (bottomUp c s).1.fault = none) : s.fault = none := by
  unfold bottomUp at h
  split at h
  · exact h
  · rename_i hf; simpa using hf

theorem parseBottom_fault_back (s : St) (h : (parseBottom s).1.fault = none) : s.fault = none := by
  unfold parseBottom at h
  split at h
  · exact h
  · rename_i hf; simpa using hf

theorem topDown_fault_back (c : Cfg) (s : St) (h : (topDown c s).1.fault = none) : s.fault = none := by
  unfold topDown at h
  split at h
  · exact h
  · rename_i hf; simpa using hf

theorem bottomUp_quiet (c : Cfg) (s : St) (hq : (bottomUp c s).2 = false)
    (hf : (bottomUp c s).1.fault = none) : forget (bottomUp c s).1 = forget s ∧ WaitBottomUp c s := by
  revert hq hf
  unfold bottomUp
  split
  · intro _ _; exact ⟨rfl, Or.inl (by rename_i h _; simp_all)⟩
  · split
    · rename_i h; intro _ _; exact ⟨rfl, Or.inl h⟩
    · rename_i t rest hs
      split
      · rename_i hr; intro _ _; exact ⟨rfl, Or.inr (Or.inl ⟨t, rest, hs, hr⟩)⟩
      · split
        · intro _ hf; simp at hf
        · split
          · intro hq _; simp at hq
          · rename_i h1; intro _ _; exact ⟨rfl, Or.inr (Or.inr (by omega))⟩

theorem parseBottom_quiet (s : St) (hq : (parseBottom s).2 = false)
    (hf : (parseBottom s).1.fault = none) : forget (parseBottom s).1 = forget s ∧ s.botIn = [] := by
  revert hq hf
  unfold parseBottom
  split
  · rename_i h; intro _ hf; rw [hf] at h; simp at h
  · split
    · rename_i h; intro _ _; exact ⟨rfl, h⟩
    · split
      · intro hq _; simp at hq
      · intro hq _; simp at hq

theorem topDown_quiet (c : Cfg) (s : St) (hq : (topDown c s).2 = false)
    (hf : (topDown c s).1.fault = none) : forget (topDown c s).1 = forget s ∧ WaitTopDown c s := by
  revert hq hf
  unfold topDown
  split
  · rename_i h; intro _ hf; rw [hf] at h; simp at h
  · split
    · rename_i h; intro _ _; exact ⟨rfl, Or.inl h⟩
    · split
      · rename_i h1; intro _ _; exact ⟨rfl, Or.inr (Or.inl h1)⟩
      · split
        · intro _ hf; simp at hf
        · split
          · rename_i h3; intro _ _; exact ⟨rfl, Or.inr (Or.inr h3)⟩
          · intro hq _; simp at hq

theorem iterP_quiet {f : St → St × Bool} {W : St → Prop}
    (hfault : ∀ s, (f s).1.fault = none → s.fault = none)
    (hq : ∀ s, (f s).2 = false → (f s).1.fault = none → forget (f s).1 = forget s ∧ W s) :
    ∀ n sb, (iterP f n sb).2 = false → (iterP f n sb).1.fault = none →
      sb.2 = false ∧ sb.1.fault = none ∧ forget (iterP f n sb).1 = forget sb.1 ∧ (1 ≤ n → W sb.1) := by
  intro n
  induction n with
  | zero => intro sb h1 h2; exact ⟨h1, h2, rfl, fun h => absurd h (by omega)⟩
  | succ n ih =>
    intro sb h1 h2
    obtain ⟨a1, a2, a3, _⟩ := ih ((f sb.1).1, sb.2 || (f sb.1).2) h1 h2
    simp only [Bool.or_eq_false_iff] at a1
    obtain ⟨b1, b2⟩ := hq sb.1 a1.2 a2
    exact ⟨a1.1, hfault _ a2, a3.trans b1, fun _ => b2⟩

theorem processCtl_quiet (c : Cfg) (s : St) (hq : (processCtl c s).2 = false)
    (hf : (processCtl c s).1.fault = none) : (processCtl c s).1 = s ∧ WaitCtl c s := by
  revert hq hf
  unfold processCtl
  split
  · rename_i h; intro _ _; exact ⟨rfl, Or.inl h⟩
  · split
    · split
      · rename_i h; intro _ _; exact ⟨rfl, Or.inr h⟩
      · intro hq _; simp at hq
    · split
      · split
        · rename_i h; intro _ _; exact ⟨rfl, Or.inr h⟩
        · intro hq _; simp at hq
      · intro _ hf; simp at hf

/-! ### the delivered log only grows -/

def DelExt (s s' : St) : Prop := ∃ more, s'.delivered = s.delivered ++ more

theorem DelExt.refl (s : St) : DelExt s s := ⟨[], by simp⟩

theorem DelExt.trans {a b c : St} (h1 : DelExt a b) (h2 : DelExt b c) : DelExt a c := by
  obtain ⟨m1, e1⟩ := h1
  obtain ⟨m2, e2⟩ := h2
  exact ⟨m1 ++ m2, by rw [e2, e1, List.append_assoc]⟩

theorem bottomUp_del (c : Cfg) (s : St) : DelExt s (bottomUp c s).1 := by
  unfold bottomUp
  repeat' split
  all_goals first
    | exact DelExt.refl _
    | exact ⟨_, rfl⟩

theorem parseBottom_del (s : St) : DelExt s (parseBottom s).1 := by
  unfold parseBottom
  repeat' split
  all_goals exact ⟨[], by simp⟩

theorem topDown_del (c : Cfg) (s : St) : DelExt s (topDown c s).1 := by
  unfold topDown
  repeat' split
  all_goals exact ⟨[], by simp⟩

theorem runPipeline_from (c : Cfg) (s : St) (n : Nat) (hw : c.width = n + 1) :
    DelExt (bottomUp c s).1 (runPipeline c s).1 := by
  unfold runPipeline
  rw [hw]
  have h1 := iterP_rel DelExt.refl (fun _ _ _ => DelExt.trans) (bottomUp_del c) n
    ((bottomUp c s).1, false || (bottomUp c s).2)
  have h2 := iterP_rel DelExt.refl (fun _ _ _ => DelExt.trans) parseBottom_del (n + 1)
    (iterP (bottomUp c) (n + 1) (s, false))
  have h3 := iterP_rel DelExt.refl (fun _ _ _ => DelExt.trans) (topDown_del c) (n + 1)
    (iterP parseBottom (n + 1) (iterP (bottomUp c) (n + 1) (s, false)))
  exact DelExt.trans (DelExt.trans h1 h2) h3

end C15
