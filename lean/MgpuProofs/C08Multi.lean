import MgpuModel.C08
import MgpuProofs.C08PartInv
/-! # C08 — helper lemmas for the whole-system statement (driver split ∘ partition dispatch) -/
namespace C08

theorem flatMap_perm_congr {α β : Type} (f h : α → List β) : ∀ is : List α, (∀ i ∈ is, (f i).Perm (h i)) →
    (is.flatMap f).Perm (is.flatMap h) := by
  intro is
  induction is with
  | nil => intro _; exact List.Perm.refl _
  | cons a t ih =>
    intro hp
    simp only [List.flatMap_cons]
    exact List.Perm.append (hp a List.mem_cons_self) (ih fun i hi => hp i (List.mem_cons_of_mem _ hi))

theorem flatMap_indicator {β : Type} (i0 : Nat) (a : β) : ∀ is : List Nat, is.Nodup → i0 ∈ is →
    is.flatMap (fun i => if i = i0 then [a] else []) = [a] := by
  intro is
  induction is with
  | nil => intro _ h; cases h
  | cons b t ih =>
    intro hnd hm
    rw [List.nodup_cons] at hnd
    simp only [List.flatMap_cons]
    by_cases hb : b = i0
    · subst hb
      have : t.flatMap (fun i => if i = b then [a] else []) = [] := by
        rw [List.flatMap_def]
        have : t.map (fun i => if i = b then [a] else ([] : List β)) = t.map (fun _ => []) := by
          apply List.map_congr_left
          intro i hi
          have : i ≠ b := fun e => hnd.1 (e ▸ hi)
          simp [this]
        rw [this]
        induction t with
        | nil => rfl
        | cons c u _ => simp
      simp [this]
    · have hmt : i0 ∈ t := by
        rcases List.mem_cons.mp hm with e | e
        · exact absurd e.symm hb
        · exact e
      simp [hb, ih hnd.2 hmt]

/-- predicates of which exactly one accepts each element split a list into a permutation of it -/
theorem filter_partition_perm {α : Type} (k : Nat) (p : Nat → α → Bool) : ∀ l : List α,
    (∀ a ∈ l, ∃ i, i < k ∧ p i a = true ∧ ∀ j, j < k → p j a = true → j = i) →
    ((List.range k).flatMap fun i => l.filter (p i)).Perm l := by
  intro l
  induction l with
  | nil =>
    intro _
    have : ((List.range k).flatMap fun i => ([] : List α).filter (p i)) = [] := by
      induction (List.range k) with
      | nil => rfl
      | cons c u _ => simp
    rw [this]
  | cons a t ih =>
    intro h
    obtain ⟨i0, hi0, hp0, huniq⟩ := h a List.mem_cons_self
    have hsplit : ((List.range k).flatMap fun i => (a :: t).filter (p i)) =
        (List.range k).flatMap fun i => (if i = i0 then [a] else []) ++ t.filter (p i) := by
      rw [List.flatMap_def, List.flatMap_def]
      congr 1
      apply List.map_congr_left
      intro i hi
      rw [List.mem_range] at hi
      by_cases e : i = i0
      · subst e; simp [hp0]
      · have : p i a = false := by
          cases hpi : p i a with
          | false => rfl
          | true => exact absurd (huniq i hi hpi) e
        simp [this, e]
    rw [hsplit]
    refine (flatMap_append_perm _ _ _).symm.trans ?_
    rw [flatMap_indicator i0 a (List.range k) List.nodup_range (List.mem_range.mpr hi0)]
    exact List.Perm.cons a (ih fun b hb => h b (List.mem_cons_of_mem _ hb))

end C08
