import MgpuProofs.C20_Inv1
import MgpuProofs.C20_Inv2
import MgpuProofs.C20_Final
import MgpuProofs.C20_Measure
/-! # C20 — no stuck state unless finished, for every run of the repaired code -/
namespace C20

instance (G S C : Nat) (e : Ev) : Decidable (e.InRange G S C) := by
  cases e <;> unfold Ev.InRange <;> infer_instance

/-- along every in-range event sequence of the repaired code: an empty event queue means finished -/
theorem asleep_finished (G S C : Nat) (trace : List Kernel) (evs : List Ev)
    (hG : 1 ≤ G) (hS : 1 ≤ S) (hC : 1 ≤ C) (hr : ∀ e ∈ evs, e.InRange G S C)
    (ha : allAsleep (run (init false G S C trace) evs) = true) :
    finished (run (init false G S C trace) evs) = true := by
  have hs := shape_run (init false G S C trace) evs
  have hG' : (run (init false G S C trace) evs).G = G := hs.G
  have hS' : (run (init false G S C trace) evs).S = S := hs.S
  have hC' : (run (init false G S C trace) evs).C = C := hs.C
  exact stuck_finished _ (inv1_run' G S C trace evs) (inv2_run G S C trace evs hr)
    (by rw [hG']; exact hG) (by rw [hS']; exact hS) (by rw [hC']; exact hC) ha

instance strictDecidable : (s : Sys) → (evs : List Ev) → Decidable (Strict s evs)
  | _, [] => isTrue trivial
  | s, e :: es =>
    match h : awakeOf s e, strictDecidable (step s e) es with
    | true, isTrue h2 => isTrue ⟨h, h2⟩
    | true, isFalse h2 => isFalse (fun hh => h2 hh.2)
    | false, _ => isFalse (fun hh => by have h1 := hh.1; rw [h] at h1; cases h1)

end C20
