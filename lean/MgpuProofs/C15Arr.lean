import MgpuProofs.C15ArrDefs
/-! # C15 — liveness from arrival: the measure `muIn` never grows, helpful events shrink it

Stage lemmas for `muAll` / `muIn` through `bottomUp`, `parseBottom`, `topDown`, the tick and every
event of the closed system, mirroring `bottomUp_mu` … `sysStep_mu` of `C15Fair.lean`.  The window
`WinIn` (request `a` waits in the Top port's incoming buffer) is left only by the `topDown` step
that accepts `a`; from then on the window `Window` of `C15Fair.lean` holds. -/
namespace C15

/-! ### `posIn` -/

theorem posIn_pos (a : Nat) (l : List Req) (h : a ∈ l.map (·.id)) : 1 ≤ posIn a l :=
  lastPos_pos_of_mem [a] _ a h (by simp)

theorem posIn_le (a : Nat) (l : List Req) : posIn a l ≤ l.length := by
  have := lastPos_le [a] (l.map (·.id))
  simpa [posIn] using this

theorem posIn_cons_ne (a : Nat) (r : Req) (rest : List Req) (ha : a ∈ rest.map (·.id)) :
    posIn a (r :: rest) = posIn a rest + 1 := by
  have hp : 0 < lastPos [a] (rest.map (·.id)) := posIn_pos a rest ha
  unfold posIn
  simp only [List.map_cons, lastPos]
  simp [hp]

theorem posIn_append_ne (a : Nat) (l : List Req) (x : Req) (hx : x.id ≠ a) : posIn a (l ++ [x]) = posIn a l := by
  unfold posIn
  rw [List.map_append]
  exact lastPos_append_not [a] _ x.id (by simpa using hx)

theorem kAcc_succ (c : Cfg) (n : Nat) : kAcc c * (n + 1) = kAcc c * n + (c.botInCap + 5) := by
  rw [Nat.mul_succ]; rfl

theorem cap_mul_succ (k X Y : Nat) : (k + 1) * (X + 1 + Y) = (k + 1) * (X + Y) + (k + 1) := by
  have : X + 1 + Y = (X + Y) + 1 := by omega
  rw [this, Nat.mul_succ]

theorem cap_mul_succ' (k X Y : Nat) : (k + 1) * (X + (Y + 1)) = (k + 1) * (X + Y) + (k + 1) := by
  rw [← Nat.add_assoc, Nat.mul_succ]

/-! ### what the first two pipeline phases leave alone -/

/-- `s'` has the Top port's incoming and the Bottom port's outgoing buffer of `s` and no more
    transactions -/
structure Keep (s s' : St) : Prop where
  topIn : s'.topIn = s.topIn
  botOut : s'.botOut = s.botOut
  txs : s'.txs.length ≤ s.txs.length

theorem Keep.refl (s : St) : Keep s s := ⟨rfl, rfl, Nat.le_refl _⟩

theorem Keep.trans {a b c : St} (h1 : Keep a b) (h2 : Keep b c) : Keep a c :=
  ⟨h2.topIn.trans h1.topIn, h2.botOut.trans h1.botOut, Nat.le_trans h2.txs h1.txs⟩

theorem canAccept_keep (c : Cfg) {s s' : St} (k : Keep s s') (h : canAccept c s = true) : canAccept c s' = true := by
  unfold canAccept at h ⊢
  simp only [Bool.and_eq_true, decide_eq_true_eq] at h ⊢
  rw [k.topIn, k.botOut]
  exact ⟨⟨h.1.1, Nat.lt_of_le_of_lt k.txs h.1.2⟩, h.2⟩

theorem muIn_keep (c : Cfg) (a : Nat) {s s' : St} (m : List BReq) (k : Keep s s') :
    muIn c a s' m = kAcc c * posIn a s.topIn + muAll c s' m := by
  unfold muIn; rw [k.topIn]

/-! ### `bottomUp` -/

/-- what one `bottomUp` step guarantees inside the window -/
def BUpPost (c : Cfg) (a : Nat) (s : St) (m : List BReq) (o : List TRsp) (s' : St) : Prop :=
  SInv c s' m o ∧ WinIn c a s' ∧ Keep s s' ∧ muAll c s' m ≤ muAll c s m ∧
    lastPos (allIds s') (s'.botIn.map (·.1)) = lastPos (allIds s) (s.botIn.map (·.1)) ∧
    s'.botIn = s.botIn ∧ (Ready c s → muAll c s' m < muAll c s m)

theorem bottomUp_muIn (c : Cfg) (a : Nat) (s : St) (m : List BReq) (o : List TRsp) (h : SInv c s m o)
    (w : WinIn c a s) : BUpPost c a s m o (bottomUp c s).1 := by
  have hsinv := bottomUp_sinv c s m o h
  have hnf : s.fault.isSome = false := by simp [w.nofault]
  have same : bottomUp c s = (s, false) → ¬ Ready c s → BUpPost c a s m o (bottomUp c s).1 := by
    intro e hnr
    rw [e]
    exact ⟨h, w, Keep.refl s, Nat.le_refl _, rfl, rfl, fun r => absurd r hnr⟩
  cases hs : s.txs with
  | nil =>
    refine same (by unfold bottomUp; simp [hnf, hs]) ?_
    rintro ⟨t', rest', p', h1, _, _⟩
    rw [hs] at h1; cases h1
  | cons t rest =>
    cases hp : t.rsp with
    | none =>
      refine same (by unfold bottomUp; simp [hnf, hs, hp]) ?_
      rintro ⟨t', rest', p', h1, h2, _⟩
      rw [hs] at h1
      injection h1 with h1 _
      subst h1
      rw [hp] at h2; cases h2
    | some p =>
      have hsrc := w.srcs t (by rw [hs]; exact List.mem_cons_self)
      by_cases hroom : s.topOut.length < c.topOutCap
      · have e : bottomUp c s = (retireSt s t rest p, true) := by
          unfold bottomUp retireSt
          simp [hnf, hs, hp, hsrc, hroom]
        rw [e] at hsinv ⊢
        dsimp only at hsinv ⊢
        have hall : allIds s = t.botId :: allIds (retireSt s t rest p) := by
          unfold allIds retireSt; rw [hs]; rfl
        have hnotin : t.botId ∉ chanOf s m :=
          h.someOut t (by rw [hs]; exact List.mem_cons_self) p hp
        have hiff : ∀ x ∈ chanOf s m, x ∈ allIds s ↔ x ∈ allIds (retireSt s t rest p) := by
          intro x hx
          rw [hall]
          constructor
          · intro hm
            rcases List.mem_cons.1 hm with e' | hm
            · subst e'; exact absurd hx hnotin
            · exact hm
          · exact List.mem_cons_of_mem _
        have c2 := cnt_congr _ _ (s.botOut.map (·.id)) (fun x hx => hiff x (mem_chanOf.2 (Or.inl hx)))
        have c3 := cnt_congr _ _ (m.map (·.id)) (fun x hx => hiff x (mem_chanOf.2 (Or.inr (Or.inl hx))))
        have c4 := lastPos_congr _ _ (s.botIn.map (·.1)) (fun x hx => hiff x (mem_chanOf.2 (Or.inr (Or.inr hx))))
        have hmu : muAll c (retireSt s t rest p) m + 1 = muAll c s m := by
          simp only [muAll]
          rw [c2, c3, c4, hs]
          simp only [retireSt, List.length_cons, List.length_append, List.length_nil]
          omega
        refine ⟨hsinv, { nofault := w.nofault, noflush := w.noflush, noctl := w.noctl, waits := w.waits,
                         srcs := ?_, srcsIn := w.srcsIn, bu := w.bu },
                ⟨rfl, rfl, ?_⟩, by omega, c4.symm, rfl, fun _ => by omega⟩
        · intro t' ht'
          exact w.srcs t' (by rw [hs]; exact List.mem_cons_of_mem _ ht')
        · show rest.length ≤ s.txs.length
          rw [hs]; simp
      · refine same (by unfold bottomUp; simp [hnf, hs, hp, hsrc, hroom]) ?_
        rintro ⟨t', rest', p', h1, _, h3⟩
        exact hroom h3

/-! ### `parseBottom` -/

theorem parseBottom_muIn (c : Cfg) (a : Nat) (s : St) (m : List BReq) (o : List TRsp) (h : SInv c s m o)
    (w : WinIn c a s) :
    SInv c (parseBottom s).1 m o ∧ WinIn c a (parseBottom s).1 ∧ Keep s (parseBottom s).1 ∧
      muAll c (parseBottom s).1 m ≤ muAll c s m ∧
      (0 < lastPos (allIds s) (s.botIn.map (·.1)) → muAll c (parseBottom s).1 m < muAll c s m) := by
  have hsinv := parseBottom_sinv c s m o h
  have hnf : s.fault.isSome = false := by simp [w.nofault]
  cases hs : s.botIn with
  | nil =>
    have e : parseBottom s = (s, false) := by unfold parseBottom; simp [hnf, hs]
    rw [e]
    exact ⟨h, w, Keep.refl s, Nat.le_refl _, by simp [lastPos]⟩
  | cons bp rest =>
    obtain ⟨b, p⟩ := bp
    have htail := lastPos_tail (allIds s) b (rest.map (·.1))
    by_cases hb : b ∈ s.table
    · have e : parseBottom s = (parsedSt s b p rest, true) := by
        unfold parseBottom parsedSt; simp [hnf, hs, hb]
      rw [e] at hsinv ⊢
      dsimp only at hsinv ⊢
      have hall : allIds (parsedSt s b p rest) = allIds s := setRsp_map_bot b p s.txs
      have hlen : (parsedSt s b p rest).txs.length = s.txs.length := setRsp_length b p s.txs
      refine ⟨hsinv, { nofault := w.nofault, noflush := w.noflush, noctl := w.noctl, waits := w.waits,
                       srcs := ?_, srcsIn := w.srcsIn, bu := w.bu },
              ⟨rfl, rfl, Nat.le_of_eq hlen⟩, ?_, ?_⟩
      · intro t' ht'
        obtain ⟨t, ht, h1, _⟩ := mem_setRsp ht'
        rw [h1]; exact w.srcs t ht
      · simp only [muAll, hall, hlen, hs, List.map_cons]
        simp only [parsedSt]
        omega
      · intro hpos
        simp only [muAll, hall, hlen, hs, List.map_cons] at hpos ⊢
        simp only [parsedSt]
        omega
    · have e : parseBottom s = ({ s with botIn := rest }, true) := by
        unfold parseBottom; simp [hnf, hs, hb]
      rw [e] at hsinv ⊢
      have hall : allIds { s with botIn := rest } = allIds s := rfl
      refine ⟨hsinv, { nofault := w.nofault, noflush := w.noflush, noctl := w.noctl, waits := w.waits,
                       srcs := w.srcs, srcsIn := w.srcsIn, bu := w.bu },
              ⟨rfl, rfl, Nat.le_refl _⟩, ?_, ?_⟩
      · simp only [muAll, hall, hs, List.map_cons]
        omega
      · intro hpos
        simp only [muAll, hall, hs, List.map_cons] at hpos ⊢
        omega

/-! ### `topDown` -/

theorem window_of_accept (c : Cfg) (a : Nat) (s : St) (r : Req) (rest : List Req) (w : WinIn c a s)
    (hs : s.topIn = r :: rest) (hra : r.id = a) : Window c a (acceptSt s r rest) := by
  have hrsrc : r.src ≠ 0 := by
    apply w.srcsIn r
    have h1 : 1 ≤ posIn a s.topIn := posIn_pos a _ w.waits
    obtain ⟨k, hk⟩ : ∃ k, posIn a s.topIn = k + 1 := ⟨posIn a s.topIn - 1, by omega⟩
    rw [hk, hs, List.take_succ_cons]
    exact List.mem_cons_self
  refine { nofault := w.nofault, noflush := w.noflush, noctl := w.noctl, pend := ?_, srcs := ?_, bu := w.bu }
  · show a ∈ (s.txs ++ [(⟨r, s.nextBot, none⟩ : Tx)]).map (·.req.id)
    rw [List.map_append]; exact List.mem_append_right _ (by simp [hra])
  · intro t ht
    have ht : t ∈ s.txs ++ [⟨r, s.nextBot, none⟩] := upTo_sub a _ t ht
    rcases List.mem_append.1 ht with ht | ht
    · exact w.srcs t ht
    · simp at ht; subst ht; exact hrsrc

theorem winIn_of_accept (c : Cfg) (a : Nat) (s : St) (r : Req) (rest : List Req) (w : WinIn c a s)
    (hs : s.topIn = r :: rest) (hra : r.id ≠ a) :
    a ∈ rest.map (·.id) ∧ WinIn c a (acceptSt s r rest) := by
  have hin : a ∈ rest.map (·.id) := by
    have := w.waits
    rw [hs] at this
    simp only [List.map_cons, List.mem_cons] at this
    rcases this with e | e
    · exact absurd e.symm hra
    · exact e
  have hpos : posIn a s.topIn = posIn a rest + 1 := by rw [hs]; exact posIn_cons_ne a r rest hin
  have htake : s.topIn.take (posIn a s.topIn) = r :: rest.take (posIn a rest) := by
    rw [hpos, hs, List.take_succ_cons]
  refine ⟨hin, { nofault := w.nofault, noflush := w.noflush, noctl := w.noctl, waits := hin, srcs := ?_,
                 srcsIn := ?_, bu := w.bu }⟩
  · intro t ht
    have ht : t ∈ s.txs ++ [⟨r, s.nextBot, none⟩] := ht
    rcases List.mem_append.1 ht with ht | ht
    · exact w.srcs t ht
    · simp at ht; subst ht
      exact w.srcsIn r (by rw [htake]; exact List.mem_cons_self)
  · intro r' hr'
    have hr' : r' ∈ rest.take (posIn a rest) := hr'
    exact w.srcsIn r' (by rw [htake]; exact List.mem_cons_of_mem _ hr')

theorem muAll_accept (c : Cfg) (s : St) (m : List BReq) (o : List TRsp) (r : Req) (rest : List Req)
    (h : SInv c s m o) : muAll c (acceptSt s r rest) m = muAll c s m + (c.botInCap + 4) := by
  have hnew : s.nextBot ∉ chanOf s m := fun hm => Nat.lt_irrefl _ (h.chanFresh _ hm)
  have hall : allIds (acceptSt s r rest) = allIds s ++ [s.nextBot] := by
    unfold allIds acceptSt; simp
  have hiff : ∀ x ∈ chanOf s m, x ∈ allIds s ++ [s.nextBot] ↔ x ∈ allIds s := by
    intro x hx
    constructor
    · intro hm
      rcases List.mem_append.1 hm with hm | hm
      · exact hm
      · simp at hm; subst hm; exact absurd hx hnew
    · exact List.mem_append_left _
  have c2 := cnt_congr _ _ (s.botOut.map (·.id)) (fun x hx => hiff x (mem_chanOf.2 (Or.inl hx)))
  have c3 := cnt_congr _ _ (m.map (·.id)) (fun x hx => hiff x (mem_chanOf.2 (Or.inr (Or.inl hx))))
  have c4 := lastPos_congr _ _ (s.botIn.map (·.1)) (fun x hx => hiff x (mem_chanOf.2 (Or.inr (Or.inr hx))))
  have hself : s.nextBot ∈ allIds s ++ [s.nextBot] := List.mem_append_right _ (by simp)
  simp only [muAll, hall]
  simp only [acceptSt, List.map_append, List.map_cons, List.map_nil, dupReq_id, List.length_append,
    List.length_cons, List.length_nil]
  rw [cnt_append, cnt_cons, cnt_nil, c2, c3, c4]
  simp only [hself, if_true]
  generalize cnt (allIds s) (s.botOut.map (·.id)) = X
  generalize cnt (allIds s) (m.map (·.id)) = Y
  have e1 : X + (1 + 0) + Y = X + 1 + Y := by omega
  rw [e1, cap_mul_succ]
  omega

theorem topDown_muIn (c : Cfg) (a : Nat) (s : St) (m : List BReq) (o : List TRsp) (h : SInv c s m o)
    (w : WinIn c a s) :
    SInv c (topDown c s).1 m o ∧
    (Window c a (topDown c s).1 ∨
      (WinIn c a (topDown c s).1 ∧ muIn c a (topDown c s).1 m ≤ muIn c a s m ∧
        (canAccept c s = true → muIn c a (topDown c s).1 m < muIn c a s m))) := by
  have hsinv := topDown_sinv c s m o h w.noflush
  refine ⟨hsinv, ?_⟩
  have hnf : s.fault.isSome = false := by simp [w.nofault]
  cases hs : s.topIn with
  | nil => have := w.waits; rw [hs] at this; simp at this
  | cons r rest =>
    by_cases hfull : s.txs.length ≥ c.cap
    · have e : topDown c s = (s, false) := by unfold topDown; simp [hnf, hs, hfull]
      rw [e]
      refine Or.inr ⟨w, Nat.le_refl _, ?_⟩
      intro hc
      unfold canAccept at hc
      simp only [Bool.and_eq_true, decide_eq_true_eq] at hc
      omega
    · by_cases hbo : s.botOut.length ≥ c.botOutCap
      · have e : topDown c s = ({ s with nextBot := s.nextBot + 1 }, false) := by
          unfold topDown; simp [hnf, hs, hfull, w.bu, hbo]
        rw [e]
        refine Or.inr ⟨{ nofault := w.nofault, noflush := w.noflush, noctl := w.noctl, waits := w.waits,
                         srcs := w.srcs, srcsIn := w.srcsIn, bu := w.bu }, Nat.le_refl _, ?_⟩
        intro hc
        unfold canAccept at hc
        simp only [Bool.and_eq_true, decide_eq_true_eq] at hc
        omega
      · have e : topDown c s = (acceptSt s r rest, true) := by
          unfold topDown acceptSt; simp [hnf, hs, hfull, w.bu, hbo]
        rw [e]
        dsimp only
        by_cases hra : r.id = a
        · exact Or.inl (window_of_accept c a s r rest w hs hra)
        · obtain ⟨hin, w'⟩ := winIn_of_accept c a s r rest w hs hra
          have hpos : posIn a s.topIn = posIn a rest + 1 := by rw [hs]; exact posIn_cons_ne a r rest hin
          have hmu := muAll_accept c s m o r rest h
          have hlt : muIn c a (acceptSt s r rest) m + 1 = muIn c a s m := by
            unfold muIn
            rw [hpos, kAcc_succ, hmu]
            show kAcc c * posIn a rest + _ + 1 = _
            omega
          exact Or.inr ⟨w', by omega, fun _ => by omega⟩

/-! ### the tick -/

theorem winIn_muIn_pos {c : Cfg} {a : Nat} {s : St} (m : List BReq) (w : WinIn c a s) : 5 ≤ muIn c a s m := by
  have h1 := posIn_pos a _ w.waits
  have h2 : (c.botInCap + 5) * 1 ≤ (c.botInCap + 5) * posIn a s.topIn := Nat.mul_le_mul_left _ h1
  unfold muIn kAcc
  omega

theorem tick_eq_pipeline (c : Cfg) (a : Nat) (s : St) (w : WinIn c a s) :
    (tick c s).1 = (runPipeline c s).1 := by
  have hp : processCtl c s = (s, false) := by unfold processCtl; rw [w.noctl]
  unfold tick
  simp [w.nofault, hp, w.noflush]

theorem tick_muIn (c : Cfg) (a : Nat) (s : St) (m : List BReq) (o : List TRsp) (h : SInv c s m o)
    (w : WinIn c a s) (hw : 1 ≤ c.width) :
    Window c a (tick c s).1 ∨
    (WinIn c a (tick c s).1 ∧ muIn c a (tick c s).1 m ≤ muIn c a s m ∧
      ((Ready c s ∨ 0 < lastPos (allIds s) (s.botIn.map (·.1)) ∨ canAccept c s = true) →
        muIn c a (tick c s).1 m < muIn c a s m)) := by
  obtain ⟨n, hn⟩ : ∃ n, c.width = n + 1 := ⟨c.width - 1, by omega⟩
  rw [tick_eq_pipeline c a s w]
  unfold runPipeline
  rw [hn]
  let PB : Nat → St → Prop := fun k s' => SInv c s' m o ∧ WinIn c a s' ∧ Keep s s' ∧ muAll c s' m ≤ k ∧
    lastPos (allIds s') (s'.botIn.map (·.1)) = lastPos (allIds s) (s.botIn.map (·.1))
  let PP : Nat → St → Prop := fun k s' => SInv c s' m o ∧ WinIn c a s' ∧ Keep s s' ∧ muAll c s' m ≤ k
  let PT : Nat → St → Prop := fun k s' => SInv c s' m o ∧ (Window c a s' ∨ (WinIn c a s' ∧ muIn c a s' m ≤ k))
  have stepB : ∀ k s', PB k s' → PB k (bottomUp c s').1 := by
    intro k s' ⟨hi, hwin, kp, le, pe⟩
    obtain ⟨hi', w', kp', le', pe', _, _⟩ := bottomUp_muIn c a s' m o hi hwin
    exact ⟨hi', w', kp.trans kp', Nat.le_trans le' le, pe'.trans pe⟩
  have stepP : ∀ k s', PP k s' → PP k (parseBottom s').1 := by
    intro k s' ⟨hi, hwin, kp, le⟩
    obtain ⟨hi', w', kp', le', _⟩ := parseBottom_muIn c a s' m o hi hwin
    exact ⟨hi', w', kp.trans kp', Nat.le_trans le' le⟩
  have stepT : ∀ k s', PT k s' → PT k (topDown c s').1 := by
    intro k s' ⟨hi, hc⟩
    rcases hc with wd | ⟨hwin, le⟩
    · have := (topDown_mu c a s' m o (Win.of hi wd)).1
      exact ⟨this.sinv, Or.inl this.window⟩
    · obtain ⟨hi', hc'⟩ := topDown_muIn c a s' m o hi hwin
      refine ⟨hi', ?_⟩
      rcases hc' with wd | ⟨w', le', _⟩
      · exact Or.inl wd
      · exact Or.inr ⟨w', Nat.le_trans le' le⟩
  -- first `bottomUp`
  obtain ⟨hi1, w1, kp1, le1, pe1, _, st1⟩ := bottomUp_muIn c a s m o h w
  rw [iterP_succ (bottomUp c)]
  have hPB := iterP_pres (P := PB (muAll c (bottomUp c s).1 m)) (stepB _) n
    ((bottomUp c (s, false).1).1, (s, false).2 || (bottomUp c (s, false).1).2)
    ⟨hi1, w1, kp1, Nat.le_refl _, pe1⟩
  generalize iterP (bottomUp c) n ((bottomUp c (s, false).1).1, (s, false).2 || (bottomUp c (s, false).1).2) = sB
    at hPB ⊢
  obtain ⟨hiB, wB, kpB, leB, peB⟩ := hPB
  -- first `parseBottom`
  obtain ⟨hi2, w2, kp2, le2, st2⟩ := parseBottom_muIn c a sB.1 m o hiB wB
  rw [iterP_succ parseBottom]
  have hPP := iterP_pres (P := PP (muAll c (parseBottom sB.1).1 m)) (stepP _) n
    ((parseBottom sB.1).1, sB.2 || (parseBottom sB.1).2) ⟨hi2, w2, kpB.trans kp2, Nat.le_refl _⟩
  generalize iterP parseBottom n ((parseBottom sB.1).1, sB.2 || (parseBottom sB.1).2) = sP at hPP ⊢
  obtain ⟨hiP, wP, kpP, leP⟩ := hPP
  -- first `topDown`
  have hmuP : muIn c a sP.1 m = kAcc c * posIn a s.topIn + muAll c sP.1 m := muIn_keep c a m kpP
  have hmuS : muIn c a s m = kAcc c * posIn a s.topIn + muAll c s m := rfl
  obtain ⟨k3, hk3, hk3', hPT⟩ : ∃ k3, k3 ≤ muIn c a sP.1 m ∧
      (canAccept c sP.1 = true → k3 < muIn c a sP.1 m) ∧ PT k3 (topDown c sP.1).1 := by
    obtain ⟨hi3, hc3⟩ := topDown_muIn c a sP.1 m o hiP wP
    rcases hc3 with wd | ⟨w3, le3, st3⟩
    · have := winIn_muIn_pos m wP
      exact ⟨0, Nat.zero_le _, fun _ => by omega, hi3, Or.inl wd⟩
    · exact ⟨_, le3, st3, hi3, Or.inr ⟨w3, Nat.le_refl _⟩⟩
  rw [iterP_succ (topDown c)]
  have hfin := iterP_pres (P := PT k3) (stepT k3) n
    ((topDown c sP.1).1, sP.2 || (topDown c sP.1).2) hPT
  rcases hfin.2 with wd | ⟨wf, lef⟩
  · exact Or.inl wd
  · refine Or.inr ⟨wf, by omega, ?_⟩
    rintro (hr | hL | hc)
    · have := st1 hr; omega
    · have := st2 (by rw [peB]; exact hL); omega
    · have := hk3' (canAccept_keep c kpP hc); omega

/-! ### events of the closed system -/

theorem allIds_sub_of_pids (a : Nat) (s : St) : ∀ x ∈ pids a s, x ∈ allIds s := by
  intro x hx
  obtain ⟨t, ht, rfl⟩ := List.mem_map.1 hx
  exact List.mem_map.2 ⟨t, upTo_sub a _ t ht, rfl⟩

theorem sysStep_muIn (c : Cfg) (a : Nat) (σ : Sys) (e : Ev) (ok : σ.Ok c) (w : WinIn c a σ.rob)
    (hw : 1 ≤ c.width) (hn : isCtl e = false) :
    Window c a (sysStep c σ e).rob ∨
    (WinIn c a (sysStep c σ e).rob ∧ (sysStep c σ e).muIn c a ≤ σ.muIn c a ∧
      (helpfulIn c σ e = true → (sysStep c σ e).muIn c a < σ.muIn c a)) := by
  have ok' : SInv c σ.rob σ.mem σ.out := ok
  unfold Sys.muIn
  cases e with
  | ctl x => simp [isCtl] at hn
  | tick =>
    rcases tick_muIn c a σ.rob σ.mem σ.out ok' w hw with wd | ⟨w', le, st⟩
    · exact Or.inl wd
    · refine Or.inr ⟨w', le, ?_⟩
      intro hh
      apply st
      simp only [helpfulIn, Bool.or_eq_true, decide_eq_true_eq] at hh
      rcases hh with (hh | hh) | hh
      · exact Or.inl ((readyB_iff c σ.rob).1 hh)
      · exact Or.inr (Or.inl hh)
      · exact Or.inr (Or.inr hh)
  | arrive q =>
    refine Or.inr ?_
    simp only [sysStep, helpfulIn]
    simp only [step]
    split
    · have hne : (q.toReq σ.rob.nextTop).id ≠ a := by
        have := ok'.inv.freshTop a (List.mem_append_right _ w.waits)
        show σ.rob.nextTop ≠ a
        omega
      have hpos : posIn a (σ.rob.topIn ++ [q.toReq σ.rob.nextTop]) = posIn a σ.rob.topIn :=
        posIn_append_ne a _ _ hne
      refine ⟨{ nofault := w.nofault, noflush := w.noflush, noctl := w.noctl, waits := ?_, srcs := w.srcs,
                srcsIn := ?_, bu := w.bu }, ?_, fun f => by cases f⟩
      · show a ∈ (σ.rob.topIn ++ [q.toReq σ.rob.nextTop]).map (·.id)
        rw [List.map_append]; exact List.mem_append_left _ w.waits
      · intro r hr
        have hr : r ∈ (σ.rob.topIn ++ [q.toReq σ.rob.nextTop]).take
            (posIn a (σ.rob.topIn ++ [q.toReq σ.rob.nextTop])) := hr
        rw [hpos, List.take_append_of_le_length (posIn_le a _)] at hr
        exact w.srcsIn r hr
      · show kAcc c * posIn a (σ.rob.topIn ++ [q.toReq σ.rob.nextTop]) + muAll c σ.rob σ.mem ≤ _
        rw [hpos]; exact Nat.le_refl _
    · exact ⟨w, Nat.le_refl _, fun f => by cases f⟩
  | takeAck =>
    refine Or.inr ?_
    exact ⟨{ nofault := w.nofault, noflush := w.noflush, noctl := w.noctl, waits := w.waits, srcs := w.srcs,
             srcsIn := w.srcsIn, bu := w.bu }, Nat.le_refl _, fun f => by cases f⟩
  | memTake =>
    refine Or.inr ?_
    simp only [sysStep, helpfulIn]
    cases hb : σ.rob.botOut with
    | nil => simp only []; exact ⟨w, Nat.le_refl _, by simp⟩
    | cons b rest =>
      simp only []
      have hall : allIds (step c σ.rob .drainBot) = allIds σ.rob := rfl
      have hkey : muIn c a (step c σ.rob .drainBot) (σ.mem ++ [b]) + 1 = muIn c a σ.rob σ.mem := by
        simp only [muIn, muAll, hall]
        simp only [step, hb, List.drop_one, List.tail_cons, List.map_cons, List.map_append, List.map_nil,
          List.length_cons, cnt_cons, cnt_append, cnt_nil]
        generalize cnt (allIds σ.rob) (rest.map (·.id)) = X
        generalize cnt (allIds σ.rob) (σ.mem.map (·.id)) = Y
        generalize (if b.id ∈ allIds σ.rob then 1 else 0) = I
        have e1 : I + X + Y = X + (Y + (I + 0)) := by omega
        rw [e1]; omega
      exact ⟨{ nofault := w.nofault, noflush := w.noflush, noctl := w.noctl, waits := w.waits, srcs := w.srcs,
               srcsIn := w.srcsIn, bu := w.bu }, by omega, fun _ => by omega⟩
  | takeRsp =>
    refine Or.inr ?_
    simp only [sysStep, helpfulIn]
    cases hr : σ.rob.topOut with
    | nil => simp only []; exact ⟨w, Nat.le_refl _, by simp⟩
    | cons r rest =>
      simp only []
      have hall : allIds (step c σ.rob .drainTop) = allIds σ.rob := rfl
      have hkey : muIn c a (step c σ.rob .drainTop) σ.mem + 1 = muIn c a σ.rob σ.mem := by
        simp only [muIn, muAll, hall]
        simp only [step, hr, List.drop_one, List.tail_cons, List.length_cons]
        omega
      exact ⟨{ nofault := w.nofault, noflush := w.noflush, noctl := w.noctl, waits := w.waits, srcs := w.srcs,
               srcsIn := w.srcsIn, bu := w.bu }, by omega, fun _ => by omega⟩
  | memAnswer j p =>
    refine Or.inr ?_
    simp only [sysStep, helpfulIn]
    cases hj : σ.mem[j]? with
    | none => simp only []; exact ⟨w, Nat.le_refl _, by simp⟩
    | some b =>
      simp only []
      by_cases hroom : σ.rob.botIn.length < c.botInCap
      · simp only [hroom, if_true]
        have e : step c σ.rob (.bot b.id p) = { σ.rob with botIn := σ.rob.botIn ++ [(b.id, p)] } := by
          simp [step, hroom]
        rw [e]
        have hall : allIds { σ.rob with botIn := σ.rob.botIn ++ [(b.id, p)] } = allIds σ.rob := rfl
        have hcnt := cnt_eraseIdx (·.id) (allIds σ.rob) σ.mem j b hj
        have hL := lastPos_le (allIds σ.rob) (σ.rob.botIn.map (·.1))
        rw [List.length_map] at hL
        refine ⟨{ nofault := w.nofault, noflush := w.noflush, noctl := w.noctl, waits := w.waits,
                  srcs := w.srcs, srcsIn := w.srcsIn, bu := w.bu }, ?_, ?_⟩
        · simp only [muIn, muAll, hall, List.map_append, List.map_cons, List.map_nil]
          by_cases hin : b.id ∈ allIds σ.rob
          · rw [lastPos_append_mem _ _ _ hin]
            simp only [hin, if_true] at hcnt
            rw [← hcnt, List.length_map]
            generalize cnt (allIds σ.rob) (σ.rob.botOut.map (·.id)) = X
            generalize cnt (allIds σ.rob) ((σ.mem.eraseIdx j).map (·.id)) = Y
            rw [cap_mul_succ']; omega
          · rw [lastPos_append_not _ _ _ hin]
            simp only [hin, if_false, Nat.add_zero] at hcnt
            rw [← hcnt]; omega
        · intro hh
          simp only [Bool.and_eq_true, decide_eq_true_eq] at hh
          have hin := hh.1
          simp only [muIn, muAll, hall, List.map_append, List.map_cons, List.map_nil]
          rw [lastPos_append_mem _ _ _ hin]
          simp only [hin, if_true] at hcnt
          rw [← hcnt, List.length_map]
          generalize cnt (allIds σ.rob) (σ.rob.botOut.map (·.id)) = X
          generalize cnt (allIds σ.rob) ((σ.mem.eraseIdx j).map (·.id)) = Y
          rw [cap_mul_succ']; omega
      · simp only [hroom, if_false]
        exact ⟨w, Nat.le_refl _, by simp⟩

/-! ### runs -/

theorem accepted_fold (c : Cfg) (a : Nat) (evs : List Ev) (σ : Sys) (ok : σ.Ok c) (h : a ∈ σ.rob.accepted) :
    a ∈ (evs.foldl (sysStep c) σ).rob.accepted := by
  obtain ⟨more, e⟩ := (Spec.star_ext (sysFold_refines c evs σ ok)).fwd
  have e' : (evs.foldl (sysStep c) σ).rob.fwd = σ.rob.fwd ++ more := e
  unfold St.accepted at *
  rw [e', List.map_append]; exact List.mem_append_left _ h

theorem window_accepted {c : Cfg} {a : Nat} {σ : Sys} (ok : σ.Ok c) (w : Window c a σ.rob) :
    a ∈ σ.rob.accepted := by
  have ok' : SInv c σ.rob σ.mem σ.out := ok
  obtain ⟨t, ht, rfl⟩ := List.mem_map.1 w.pend
  exact ok'.inv.pending_accepted t ht

theorem fold_muIn (c : Cfg) (a : Nat) (hw : 1 ≤ c.width) : ∀ (evs : List Ev) (σ : Sys), σ.Ok c →
    WinIn c a σ.rob → (∀ e ∈ evs, isCtl e = false) →
    a ∈ (evs.foldl (sysStep c) σ).rob.accepted ∨
    (WinIn c a (evs.foldl (sysStep c) σ).rob ∧
      (evs.foldl (sysStep c) σ).muIn c a + helpfulInCount c σ evs ≤ σ.muIn c a)
  | [], σ, _, w, _ => Or.inr ⟨w, by simp [helpfulInCount]⟩
  | e :: es, σ, ok, w, hn => by
    have hne := hn e List.mem_cons_self
    have hn' : ∀ e' ∈ es, isCtl e' = false := fun e' he' => hn e' (List.mem_cons_of_mem _ he')
    have ok1 := sysStep_ok c σ e ok
    rcases sysStep_muIn c a σ e ok w hw hne with wd | ⟨w', le, st⟩
    · exact Or.inl (accepted_fold c a es _ ok1 (window_accepted ok1 wd))
    · rcases fold_muIn c a hw es _ ok1 w' hn' with d | ⟨w'', le'⟩
      · exact Or.inl d
      · refine Or.inr ⟨w'', ?_⟩
        simp only [List.foldl_cons, helpfulInCount]
        by_cases hh : helpfulIn c σ e = true
        · have := st hh
          simp only [hh, if_true]; omega
        · simp only [hh]; simp only [Bool.false_eq_true, if_false]; omega

/-! ### schedules -/

/-- walking along the schedule: the window persists and the measure does not grow, or `a` has been
    accepted -/
theorem sysAt_walkIn (c : Cfg) (a : Nat) (σ0 : Sys) (sched : Nat → Ev) (ok : σ0.Ok c) (hw : 1 ≤ c.width)
    (hn : ∀ n, isCtl (sched n) = false) (n : Nat) (w : WinIn c a (sysAt c σ0 sched n).rob) :
    ∀ d, (∃ n', Window c a (sysAt c σ0 sched n').rob) ∨
      (WinIn c a (sysAt c σ0 sched (n + d)).rob ∧
        (sysAt c σ0 sched (n + d)).muIn c a ≤ (sysAt c σ0 sched n).muIn c a)
  | 0 => Or.inr ⟨w, Nat.le_refl _⟩
  | d + 1 => by
    rcases sysAt_walkIn c a σ0 sched ok hw hn n w d with dn | ⟨w', le⟩
    · exact Or.inl dn
    · rcases sysStep_muIn c a _ (sched (n + d)) (sysAt_ok c σ0 sched ok (n + d)) w' hw (hn _) with
        wd | ⟨w'', le', _⟩
      · exact Or.inl ⟨n + d + 1, wd⟩
      · exact Or.inr ⟨w'', Nat.le_trans le' le⟩

theorem eventually_window (c : Cfg) (a : Nat) (σ0 : Sys) (sched : Nat → Ev) (ok : σ0.Ok c) (hw : 1 ≤ c.width)
    (hn : ∀ n, isCtl (sched n) = false)
    (hfair : ∀ n, a ∈ (sysAt c σ0 sched n).rob.topIn.map (·.id) →
      ∃ j, n ≤ j ∧ helpfulIn c (sysAt c σ0 sched j) (sched j) = true) :
    ∀ k n, WinIn c a (sysAt c σ0 sched n).rob → (sysAt c σ0 sched n).muIn c a ≤ k →
      ∃ n', Window c a (sysAt c σ0 sched n').rob
  | 0, n, w, hk => by
    have := winIn_muIn_pos (sysAt c σ0 sched n).mem w
    unfold Sys.muIn at hk; omega
  | k + 1, n, w, hk => by
    obtain ⟨j, hj, hh⟩ := hfair n w.waits
    obtain ⟨d, rfl⟩ : ∃ d, j = n + d := ⟨j - n, by omega⟩
    rcases sysAt_walkIn c a σ0 sched ok hw hn n w d with dn | ⟨w', le⟩
    · exact dn
    · rcases sysStep_muIn c a _ (sched (n + d)) (sysAt_ok c σ0 sched ok (n + d)) w' hw (hn _) with
        wd | ⟨w'', _, st⟩
      · exact ⟨n + d + 1, wd⟩
      · have := st hh
        exact eventually_window c a σ0 sched ok hw hn hfair k (n + d + 1) w'' (by
          show (sysStep c (sysAt c σ0 sched (n + d)) (sched (n + d))).muIn c a ≤ k
          omega)

/-! ### no deadlock before acceptance -/

theorem helpfulIn_of_helpful (c : Cfg) (a' : Nat) (σ : Sys) (e : Ev) (h : helpful c a' σ e = true) :
    helpfulIn c σ e = true := by
  have sub := allIds_sub_of_pids a' σ.rob
  cases e with
  | tick =>
    simp only [helpful, Bool.or_eq_true, decide_eq_true_eq] at h
    simp only [helpfulIn, Bool.or_eq_true, decide_eq_true_eq]
    rcases h with h | h
    · exact Or.inl (Or.inl h)
    · obtain ⟨x, hx, hi⟩ := mem_of_lastPos_pos _ _ h
      exact Or.inl (Or.inr (lastPos_pos_of_mem _ _ x hx (sub x hi)))
  | memTake =>
    simp only [helpful, decide_eq_true_eq] at h
    simp only [helpfulIn]
    cases hb : σ.rob.botOut with
    | nil => rw [hb] at h; simp [lastPos] at h
    | cons b rest => simp
  | memAnswer j p =>
    simp only [helpful] at h
    simp only [helpfulIn]
    cases hj : σ.mem[j]? with
    | none => rw [hj] at h; simp at h
    | some b =>
      rw [hj] at h
      simp only [Bool.and_eq_true, decide_eq_true_eq] at h ⊢
      exact ⟨sub _ h.1, h.2⟩
  | takeRsp => exact h
  | arrive q => simp [helpful] at h
  | ctl x => simp [helpful] at h
  | takeAck => simp [helpful] at h

theorem helpfulIn_or_backpressure (c : Cfg) (a : Nat) (σ : Sys) (ok : σ.Ok c) (w : WinIn c a σ.rob)
    (hto : 1 ≤ c.topOutCap) (hcap : 1 ≤ c.cap) (hbo : 1 ≤ c.botOutCap) :
    (∃ e, isCtl e = false ∧ helpfulIn c σ e = true) ∨
    (c.botInCap ≤ σ.rob.botIn.length ∧ ∃ (j : Nat) (b : BReq), σ.mem[j]? = some b ∧ b.id ∈ allIds σ.rob) := by
  by_cases hfull : σ.rob.txs.length < c.cap
  · by_cases hroom : σ.rob.botOut.length < c.botOutCap
    · left
      refine ⟨.tick, rfl, ?_⟩
      have hne : σ.rob.topIn ≠ [] := by
        intro hnil
        have := w.waits; rw [hnil] at this; simp at this
      cases ht : σ.rob.topIn with
      | nil => exact absurd ht hne
      | cons r rest => simp [helpfulIn, canAccept, ht, hfull, hroom]
    · left
      refine ⟨.memTake, rfl, ?_⟩
      cases hb : σ.rob.botOut with
      | nil => rw [hb] at hroom; simp at hroom; omega
      | cons b rest => simp [helpfulIn, hb]
  · cases hs : σ.rob.txs with
    | nil => rw [hs] at hfull; simp at hfull; omega
    | cons t rest =>
      have wd : Window c t.req.id σ.rob :=
        { nofault := w.nofault, noflush := w.noflush, noctl := w.noctl,
          pend := by rw [hs]; simp,
          srcs := fun t' ht' => w.srcs t' (upTo_sub _ _ t' ht'), bu := w.bu }
      rcases helpful_or_backpressure c t.req.id σ (Win.of ok wd) hto with ⟨e, he, hh⟩ | ⟨hle, j, b, hj, hb⟩
      · exact Or.inl ⟨e, he, helpfulIn_of_helpful c _ σ e hh⟩
      · exact Or.inr ⟨hle, j, b, hj, allIds_sub_of_pids _ _ _ hb⟩

end C15
