import MgpuProofs.C15CuProj
/-! # C15 ∘ C14 — the command processor's flush / restart round towards the ROB always completes:
a decreasing measure over the composed state (helpers for `Props/C15Round.lean`)

`roundMu` counts the steps of the round that are still to come (discard message waiting → processed,
acknowledgement waiting → taken → restart message waiting → processed → acknowledgement taken →
compute unit restarted). Under the protocol invariant `Proto` no legal composed event increases it
except the opening of a new round (possible only at `robPh = 0`, where the measure is 0), and the
event that is due (`helpfulR`) decreases it by exactly one. -/
namespace C15.Cu

/-- steps of the command processor's round towards the reorder buffer that are still to come -/
def roundMu (σ : Comp) : Nat :=
  match σ.robPh with
  | 0 => 0
  | 1 => if σ.sys.rob.ctlIn.isEmpty then 5 else 6
  | 2 => 4
  | 3 => if σ.sys.rob.ctlIn.isEmpty then 2 else 3
  | _ => 1

/-- the event of the round that is due: the ROB's tick while a control message waits, the command
    processor taking the acknowledgement, its `Restart` message, its restart request to the compute
    unit (each only when the receiving port has room / the component is not faulted) -/
def helpfulR (c : Cfg) (σ : Comp) : CEv → Bool
  | .rob .tick =>
    decide (σ.robPh = 1 ∨ σ.robPh = 3) && !σ.sys.rob.ctlIn.isEmpty && σ.sys.rob.fault.isNone
  | .rob .takeAck => decide (σ.robPh = 1 ∨ σ.robPh = 3) && decide (σ.sys.rob.ctlOut ≠ 0)
  | .rob (.ctl m) =>
    decide (σ.robPh = 2) && !m.discard && m.restart && decide (σ.sys.rob.ctlIn.length < c.rob.ctlInCap)
  | .cu .cpRestart => decide (σ.robPh = 4) && !σ.cu.fault && decide (σ.cu.cpIn.length < c.cu.capCP)
  | _ => false

def helpfulCountR (c : Cfg) : Comp → List CEv → Nat
  | _, [] => 0
  | σ, e :: es => (if helpfulR c σ e then 1 else 0) + helpfulCountR c (cstep c σ e) es

/-! ## the phase moves only forward -/

theorem robPh_step (c : Cfg) (σ : Comp) (e : CEv) :
    (cstep c σ e).robPh = σ.robPh ∨
    (σ.robPh = 0 ∧ (cstep c σ e).robPh = 1) ∨ (σ.robPh = 1 ∧ (cstep c σ e).robPh = 2) ∨
    (σ.robPh = 2 ∧ (cstep c σ e).robPh = 3) ∨ (σ.robPh = 3 ∧ (cstep c σ e).robPh = 4) ∨
    (σ.robPh = 4 ∧ (cstep c σ e).robPh = 0 ∧ e = .cu .cpRestart ∧ σ.cu.cpIn.length < c.cu.capCP) := by
  cases e with
  | cu o =>
    simp only [cstep]
    split
    · exact Or.inl rfl
    · cases o <;> simp only [robPhStep] <;> first | exact Or.inl rfl | exact Or.inl trivial | skip
      split
      · rename_i h; exact Or.inr (Or.inr (Or.inr (Or.inr (Or.inr ⟨h.2, by simp, by simp, h.1⟩))))
      · exact Or.inl rfl
  | xfer =>
    simp only [cstep]
    repeat' split
    all_goals exact Or.inl rfl
  | back =>
    simp only [cstep]
    repeat' split
    all_goals exact Or.inl rfl
  | rob e =>
    cases e with
    | ctl m =>
      simp only [cstep, robPhStep]
      split
      · split
        · rename_i h; exact Or.inr (Or.inl ⟨h.2, rfl⟩)
        · split
          · rename_i h; exact Or.inr (Or.inr (Or.inr (Or.inl ⟨h.2.2, rfl⟩)))
          · exact Or.inl rfl
      · exact Or.inl rfl
    | takeAck =>
      simp only [cstep, robPhStep]
      split
      · exact Or.inl rfl
      · split
        · rename_i h; exact Or.inr (Or.inr (Or.inl ⟨h, rfl⟩))
        · split
          · rename_i h; exact Or.inr (Or.inr (Or.inr (Or.inr (Or.inl ⟨h, rfl⟩))))
          · exact Or.inl rfl
    | tick => exact Or.inl rfl
    | arrive q => exact Or.inl rfl
    | takeRsp => exact Or.inl rfl
    | memTake => exact Or.inl rfl
    | memAnswer j p => exact Or.inl rfl

/-! ## only a control message of the command processor lengthens the Control port's queue -/

theorem tick_ctlIn_le (c : C15.Cfg) (s : C15.St) : (tick c s).1.ctlIn.length ≤ s.ctlIn.length := by
  have h2 : (processCtl c s).1.ctlIn.length ≤ s.ctlIn.length := by
    rcases processCtl_cv c s with h | ⟨m, rest, hin, h | h⟩
    · simp only [cv, Prod.mk.injEq] at h; rw [h.1]; exact Nat.le_refl _
    · simp only [cv, Prod.mk.injEq] at h; rw [h.2.1, hin]; simp
    · simp only [cv, Prod.mk.injEq] at h; rw [h.2.2.1, hin]; simp
  rcases tick_cv c s with h | h
  · simp only [cv, Prod.mk.injEq] at h; rw [h.1]; exact Nat.le_refl _
  · simp only [cv, Prod.mk.injEq] at h; rw [h.1]; exact h2

theorem sysStep_ctlIn_le (c : C15.Cfg) (σ : Sys) (e : Ev) (h2 : ∀ m, e ≠ .ctl m) :
    (sysStep c σ e).rob.ctlIn.length ≤ σ.rob.ctlIn.length := by
  by_cases h1 : e = .tick
  · subst h1; exact tick_ctlIn_le c σ.rob
  · by_cases h3 : e = .takeAck
    · subst h3; exact Nat.le_refl _
    · have := sysStep_cv c σ e h1 h2 h3
      simp only [cv, Prod.mk.injEq] at this
      rw [this.1]; exact Nat.le_refl _

theorem cstep_ctlIn_le (c : Cfg) (σ : Comp) (e : CEv) (h : ∀ m, e ≠ .rob (.ctl m)) :
    (cstep c σ e).sys.rob.ctlIn.length ≤ σ.sys.rob.ctlIn.length := by
  rw [cstep_sys]
  rcases hr : robEv c σ e with _ | e'
  · exact Nat.le_refl _
  · refine sysStep_ctlIn_le c.rob σ.sys e' ?_
    intro m hm
    subst hm
    cases e with
    | cu o => simp [robEv] at hr
    | xfer =>
      simp only [robEv] at hr
      repeat' split at hr
      all_goals simp at hr
    | back =>
      simp only [robEv] at hr
      repeat' split at hr
      all_goals simp at hr
    | rob e'' =>
      cases e'' <;> simp [robEv] at hr
      subst hr
      exact h _ rfl

/-! ## a tick consumes the waiting control message -/

theorem tick_consumes (c : C15.Cfg) (s : C15.St) (m : Ctl) (rest : List Ctl) (hf : s.fault = none)
    (hin : s.ctlIn = m :: rest) (hout : s.ctlOut < c.ctlOutCap) (hm : m.discard = true ∨ m.restart = true) :
    (tick c s).1.ctlIn = rest := by
  have hp : (processCtl c s).1.ctlIn = rest ∧ (processCtl c s).1.fault = none := by
    unfold processCtl
    rw [hin]
    simp only
    have : ¬ s.ctlOut ≥ c.ctlOutCap := by omega
    by_cases hd : m.discard = true
    · simp [hd, this, hf]
    · have hr : m.restart = true := by rcases hm with h | h; exact absurd h hd; exact h
      simp [hd, hr, this, hf]
  unfold tick
  simp only [hf, Option.isSome_none, Bool.false_eq_true, if_false, hp.2]
  split
  · exact hp.1
  · have := runPipeline_cv c (processCtl c s).1
    simp only [cv, Prod.mk.injEq] at this
    rw [this.1]; exact hp.1

theorem roundMu_le_of {σ σ' : Comp} (h1 : σ'.robPh = σ.robPh)
    (h2 : σ'.sys.rob.ctlIn.length ≤ σ.sys.rob.ctlIn.length) : roundMu σ' ≤ roundMu σ := by
  unfold roundMu
  rw [h1]
  rcases ha : σ.sys.rob.ctlIn with _ | ⟨a, l⟩
  · rw [ha] at h2
    have : σ'.sys.rob.ctlIn = [] := List.length_eq_zero_iff.mp (Nat.le_zero.mp h2)
    rw [this]; exact Nat.le_refl _
  · rcases σ'.sys.rob.ctlIn with _ | ⟨b, l'⟩ <;> split <;> simp

theorem roundMu_zero {σ : Comp} (h : roundMu σ = 0) : σ.robPh = 0 := by
  unfold roundMu at h
  split at h
  · assumption
  · split at h <;> omega
  · omega
  · split at h <;> omega
  · omega

theorem legalRunB_append (c : Cfg) (a b : List CEv) (σ : Comp) :
    legalRunB c σ (a ++ b) = true → legalRunB c σ a = true ∧ legalRunB c (a.foldl (cstep c) σ) b = true := by
  induction a generalizing σ with
  | nil => intro h; exact ⟨rfl, h⟩
  | cons e es ih =>
    intro h
    simp only [List.cons_append, legalRunB, Bool.and_eq_true] at h
    have := ih (cstep c σ e) h.2
    simp only [legalRunB, Bool.and_eq_true, List.foldl_cons]
    exact ⟨⟨h.1, this.1⟩, this.2⟩

theorem roundMu_le_six (σ : Comp) : roundMu σ ≤ 6 := by
  unfold roundMu; repeat' split
  all_goals omega

theorem roundMu_pos {σ : Comp} (h : σ.robPh ≠ 0) : 1 ≤ roundMu σ := by
  unfold roundMu; repeat' split
  all_goals first | omega | contradiction

theorem roundMu_of_zero {σ : Comp} (h : σ.robPh = 0) : roundMu σ = 0 := by
  simp [roundMu, h]

end C15.Cu
