import MgpuProofs.C19Dir
/-! Helper lemmas for C19 (closed system): every stage of `tick` keeps the invariant of both
    directions the controller takes part in. -/
namespace C19

variable {v : DirV} {live : List Live}

/-- two concatenations of the same pieces are permutations of each other -/
macro "count_perm" : tactic =>
  `(tactic| (apply List.perm_iff_count.mpr; intro a;
             simp only [List.count_append, List.count_cons, List.count_nil, List.count_singleton]; omega))

/-- a move that only carries tokens from one queue to the next, touching no protocol field -/
theorem Dir.move (h : Dir v live) (v' : DirV) (hT : (toks v').Perm (toks v)) (ep : v'.p = v.p)
    (hk : key v'.rq = key v.rq) (hself : v'.rq.self = v.rq.self) (hco : v'.rq.ctlOut = v.rq.ctlOut)
    (hmap : v'.rq.map = v.rq.map) (hcq : v'.cq = v.cq) (hmR : v'.memR = v.memR) (hmO : v'.memO = v.memO)
    (wd' : v'.rq.wdone.isSome = true → v'.rq.memIn = []) (mi' : v'.rq.memIn.length ≤ 1)
    (rt1' : ∀ r ∈ v'.rq.toPull, r.src = v.p ∧ r.dst = 1 - v.p)
    (rt2' : ∀ r, RMsg.req r ∈ v'.rq.remOut → r.src = v.p ∧ r.dst = 1 - v.p)
    (rt3' : ∀ r, RMsg.req r ∈ v'.ow.remIn → r.src = v.p)
    (rp' : v'.ow.reqPort = some v.p ∨ (v'.ow.reqPort = none ∧ ownInner v' = []))
    (rd1' : ∀ r ∈ v'.ow.toRsp, r.dst = some v.p)
    (rd2' : ∀ r, RMsg.rsp r ∈ v'.ow.remOut → r.dst = some v.p) :
    Dir v' live := by
  have hk' := hk
  simp only [key, Key.mk.injEq] at hk
  obtain ⟨k1, k2, k3, k4, k5, k6, k7, k8⟩ := hk
  have hact : activeId v'.rq = activeId v.rq := by simp [activeId, k2, k3]
  obtain ⟨m1, m2⟩ := h.mv_nm (v' := v') hT ep k2 k1 hmap k5 hmR
  exact {
    sf := by rw [hself, ep]; exact h.sf
    co := by rw [hco, k7]; exact h.co
    ph := by rw [hk']; exact h.ph
    idn := by rw [ep]; exact h.idn
    lk := by rw [ep, hco, hact, k8, hcq]; exact h.lk
    lm := by rw [ep, k2, k8, hcq]; exact h.lm
    cj := by rw [k8, hcq]; exact h.cj
    wd := wd'
    mi := mi'
    wf := by rw [ep, hmR, hmO]; exact h.wf
    dn := by rw [ep, hco, k3, hmR]; exact h.dn
    sr := by rw [ep, hmO]; exact h.sr
    rt1 := by rw [ep]; exact rt1'
    rt2 := by rw [ep]; exact rt2'
    rt3 := by rw [ep]; exact rt3'
    rp := by rw [ep]; exact rp'
    rd1 := by rw [ep]; exact rd1'
    rd2 := by rw [ep]; exact rd2'
    mv := m1
    nm := m2 }

/-- no foreign message is anywhere -/
theorem Dir.nobad (h : Dir v live) : Tok.bad ∉ toks v := by
  intro hb
  by_cases hc : v.rq.cur.isSome = true ∧ v.rq.handling = true
  · obtain ⟨hc1, hc2⟩ := hc
    obtain ⟨r, hr⟩ := Option.isSome_iff_exists.mp hc1
    obtain ⟨ℓ, _, _, _, b, hm⟩ := h.mv r hr hc2
    exact hm.good _ hb
  · rw [(h.nm hc).1] at hb; exact absurd hb (by simp)

@[simp] theorem flatMap_outReq_req (l : List PullReq) : (l.map RMsg.req).flatMap outReq = l.map tReq := by
  induction l <;> simp_all [outReq]
@[simp] theorem flatMap_outRsp_req (l : List PullReq) : (l.map RMsg.req).flatMap outRsp = [] := by
  induction l <;> simp_all [outRsp]
@[simp] theorem flatMap_outRsp_rsp (l : List PullRsp) : (l.map RMsg.rsp).flatMap outRsp = l.map tRsp := by
  induction l <;> simp_all [outRsp]
@[simp] theorem flatMap_outReq_rsp (l : List PullRsp) : (l.map RMsg.rsp).flatMap outReq = [] := by
  induction l <;> simp_all [outReq]

theorem reads_of_nobad (l : List MReq) (h : ∀ m ∈ l, tRd m ≠ Tok.bad) :
    l.flatMap moRd = l.map tRd ∧ l.flatMap moWr = [] := by
  induction l with
  | nil => simp
  | cons m l ih =>
    obtain ⟨i1, i2⟩ := ih (fun x hx => h x (List.mem_cons_of_mem _ hx))
    have := h m (List.mem_cons_self ..)
    cases m <;> simp_all [moRd, moWr, tRd]

theorem writes_of_nobad (l : List MReq) (h : ∀ m ∈ l, tWr m ≠ Tok.bad) :
    l.flatMap moWr = l.map tWr ∧ l.flatMap moRd = [] := by
  induction l with
  | nil => simp
  | cons m l ih =>
    obtain ⟨i1, i2⟩ := ih (fun x hx => h x (List.mem_cons_of_mem _ hx))
    have := h m (List.mem_cons_self ..)
    cases m <;> simp_all [moRd, moWr, tWr]

/-- the two directions a controller `q` takes part in: as requester of `vx`, as owner of `vy` -/
def Both (vx vy : DirV) (live : List Live) (q : Pmc) : Prop :=
  Dir { vx with rq := q } live ∧ Dir { vy with ow := q } live

variable {vx vy : DirV} {q : Pmc}

theorem both_sendPull (h : Both vx vy live q) :
    (sendPull q).1.fault = q.fault ∧ Both vx vy live (sendPull q).1 := by
  obtain ⟨hx, hy⟩ := h
  have hno : ∀ r ∈ q.toPull, r.dst ≠ q.self := by
    intro r hr
    have := hx.rt1 r hr
    have := hx.sf
    simp only at *
    omega
  obtain ⟨sent, kept, h1, h2, -, -⟩ := sendPull_spec q hno
  rw [h2]
  refine ⟨rfl, ?_, ?_⟩
  · refine hx.move _ ?_ rfl rfl rfl rfl rfl rfl rfl rfl hx.wd hx.mi ?_ ?_ hx.rt3 hx.rp hx.rd1 hx.rd2
    · simp only [toks, reqSide, h1]
      simp
      grind
    · intro r hr; exact hx.rt1 r (by simp [h1, hr])
    · intro r hr
      simp only [List.mem_append, List.mem_map] at hr
      rcases hr with hr | ⟨r', hr', he⟩
      · exact hx.rt2 r hr
      · cases he; exact hx.rt1 r (by simp [h1, hr'])
  · refine hy.move _ ?_ rfl rfl rfl rfl rfl rfl rfl rfl hy.wd hy.mi hy.rt1 hy.rt2 hy.rt3 ?_ hy.rd1 ?_
    · simp [toks, ownSide]
    · exact hy.rp
    · intro r hr
      simp only [List.mem_append, List.mem_map] at hr
      rcases hr with hr | ⟨r', _, he⟩
      · exact hy.rd2 r hr
      · cases he

theorem mem_toks_toRead {m : MReq} (h : m ∈ v.ow.toRead) : tRd m ∈ toks v := by
  simp only [toks, ownSide, List.mem_append, List.mem_map]
  exact Or.inl (Or.inl (Or.inl (Or.inl (Or.inl (Or.inr (Or.inl (Or.inl (Or.inl (Or.inl (Or.inl (Or.inr ⟨m, h, rfl⟩)))))))))))

theorem mem_toks_writeReqs {m : MReq} (h : m ∈ v.rq.writeReqs) : tWr m ∈ toks v := by
  simp only [toks, reqSide, List.mem_append, List.mem_map]
  exact Or.inl (Or.inl (Or.inl (Or.inl (Or.inl (Or.inl (Or.inl (Or.inl (Or.inl (Or.inr ⟨m, h, rfl⟩)))))))))

theorem both_sendRead (h : Both vx vy live q) :
    (sendRead q).1.fault = q.fault ∧ Both vx vy live (sendRead q).1 := by
  obtain ⟨hx, hy⟩ := h
  obtain ⟨sent, kept, h1, h2, -, -⟩ := sendRead_spec q
  obtain ⟨e1, e2⟩ := reads_of_nobad sent (by
    intro m hm hb
    exact hy.nobad (hb ▸ mem_toks_toRead (v := { vy with ow := q }) (by simp [h1, hm])))
  rw [h2]
  refine ⟨rfl, ?_, ?_⟩
  · refine hx.move _ ?_ rfl rfl rfl rfl rfl rfl rfl rfl hx.wd hx.mi hx.rt1 hx.rt2 hx.rt3 hx.rp hx.rd1 hx.rd2
    simp [toks, reqSide, e2]
  · refine hy.move _ ?_ rfl rfl rfl rfl rfl rfl rfl rfl hy.wd hy.mi hy.rt1 hy.rt2 hy.rt3 ?_ hy.rd1 hy.rd2
    · simp only [toks, ownSide, h1, List.map_append, List.flatMap_append, e1]
      count_perm
    · rcases hy.rp with hp | ⟨hp, hi⟩
      · exact Or.inl hp
      · refine Or.inr ⟨hp, ?_⟩
        simp only [ownInner, h1, List.map_append, List.flatMap_append, e1] at hi ⊢
        simp only [List.append_eq_nil_iff] at hi ⊢
        simp_all

theorem both_sendRsp (h : Both vx vy live q) :
    (sendRsp q).1.fault = q.fault ∧ Both vx vy live (sendRsp q).1 := by
  obtain ⟨hx, hy⟩ := h
  have hno : ∀ r ∈ q.toRsp, r.dst ≠ none := by
    intro r hr; rw [hy.rd1 r hr]; simp
  obtain ⟨sent, kept, h1, h2, -, -⟩ := sendRsp_spec q hno
  rw [h2]
  refine ⟨rfl, ?_, ?_⟩
  · refine hx.move _ ?_ rfl rfl rfl rfl rfl rfl rfl rfl hx.wd hx.mi hx.rt1 ?_ hx.rt3 hx.rp hx.rd1 hx.rd2
    · simp [toks, reqSide]
    · intro r hr
      simp only [List.mem_append, List.mem_map] at hr
      rcases hr with hr | ⟨r', _, he⟩
      · exact hx.rt2 r hr
      · cases he
  · refine hy.move _ ?_ rfl rfl rfl rfl rfl rfl rfl rfl hy.wd hy.mi hy.rt1 hy.rt2 hy.rt3 ?_ ?_ ?_
    · simp only [toks, ownSide, h1, List.map_append, List.flatMap_append, flatMap_outRsp_rsp]
      count_perm
    · exact hy.rp
    · intro r hr; exact hy.rd1 r (by simp [h1, hr])
    · intro r hr
      simp only [List.mem_append, List.mem_map] at hr
      rcases hr with hr | ⟨r', hr', he⟩
      · exact hy.rd2 r hr
      · cases he; exact hy.rd1 r (by simp [h1, hr'])

theorem both_sendWrite (h : Both vx vy live q) :
    (sendWrite q).1.fault = q.fault ∧ Both vx vy live (sendWrite q).1 := by
  obtain ⟨hx, hy⟩ := h
  obtain ⟨sent, kept, h1, h2, -, -⟩ := sendWrite_spec q
  obtain ⟨e1, e2⟩ := writes_of_nobad sent (by
    intro m hm hb
    exact hx.nobad (hb ▸ mem_toks_writeReqs (v := { vx with rq := q }) (by simp [h1, hm])))
  rw [h2]
  refine ⟨rfl, ?_, ?_⟩
  · refine hx.move _ ?_ rfl rfl rfl rfl rfl rfl rfl rfl hx.wd hx.mi hx.rt1 hx.rt2 hx.rt3 hx.rp hx.rd1 hx.rd2
    simp only [toks, reqSide, h1, List.map_append, List.flatMap_append, e1]
    count_perm
  · refine hy.move _ ?_ rfl rfl rfl rfl rfl rfl rfl rfl hy.wd hy.mi hy.rt1 hy.rt2 hy.rt3 ?_ hy.rd1 hy.rd2
    · simp [toks, ownSide, e2]
    · rcases hy.rp with hp | ⟨hp, hi⟩
      · exact Or.inl hp
      · refine Or.inr ⟨hp, ?_⟩
        simp only [ownInner, List.flatMap_append, e2] at hi ⊢
        simpa using hi

theorem mem_toks_remIn_req {m : RMsg} (h : m ∈ v.rq.remIn) : ∀ t ∈ inRsp m, t ∈ toks v := by
  intro t ht
  simp only [toks, reqSide, List.mem_append, List.mem_flatMap]
  exact Or.inl (Or.inl (Or.inl (Or.inl (Or.inl (Or.inl (Or.inl (Or.inl (Or.inl (Or.inl (Or.inl (Or.inr ⟨m, h, ht⟩)))))))))))

theorem both_fromOutside (h : Both vx vy live q) :
    (fromOutside q).1.fault = q.fault ∧ Both vx vy live (fromOutside q).1 := by
  obtain ⟨hx, hy⟩ := h
  unfold fromOutside
  split
  · exact ⟨rfl, hx, hy⟩
  · rename_i r rest hin
    refine ⟨rfl, ?_, ?_⟩
    · refine hx.move _ ?_ rfl rfl rfl rfl rfl rfl rfl rfl hx.wd hx.mi hx.rt1 hx.rt2 hx.rt3 hx.rp hx.rd1 hx.rd2
      simp [toks, reqSide, hin, inRsp]
    · have hsrc := hy.rt3 r (by simp [hin])
      refine hy.move _ ?_ rfl rfl rfl rfl rfl rfl rfl rfl hy.wd hy.mi hy.rt1 hy.rt2 ?_ ?_ hy.rd1 hy.rd2
      · simp only [toks, ownSide, hin, List.map_append, List.flatMap_cons, inReq, List.map_cons, List.map_nil]
        count_perm
      · intro r' hr'; exact hy.rt3 r' (by simp [hin, hr'])
      · exact Or.inl (by simp [hsrc])
  · rename_i r rest hin
    refine ⟨rfl, ?_, ?_⟩
    · refine hx.move _ ?_ rfl rfl rfl rfl rfl rfl rfl rfl hx.wd hx.mi hx.rt1 hx.rt2 hx.rt3 hx.rp hx.rd1 hx.rd2
      simp only [toks, reqSide, hin, List.map_append, List.flatMap_cons, inRsp, List.map_cons, List.map_nil]
      count_perm
    · refine hy.move _ ?_ rfl rfl rfl rfl rfl rfl rfl rfl hy.wd hy.mi hy.rt1 hy.rt2 ?_ ?_ hy.rd1 hy.rd2
      · simp [toks, ownSide, hin, inReq]
      · intro r' hr'; exact hy.rt3 r' (by simp [hin, hr'])
      · rcases hy.rp with hp | ⟨hp, hi⟩
        · exact Or.inl hp
        · exact Or.inr ⟨hp, by simpa [ownInner] using hi⟩
  · rename_i d rest hin
    exact absurd (mem_toks_remIn_req (v := { vx with rq := q }) (m := RMsg.junk d) (by simp [hin]) Tok.bad (by simp [inRsp])) hx.nobad

theorem mem_toks_memIn_req {m : MRsp} (h : m ∈ v.rq.memIn) : ∀ t ∈ miDn m, t ∈ toks v := by
  intro t ht
  simp only [toks, reqSide, List.mem_append, List.mem_flatMap]
  exact Or.inl (Or.inl (Or.inl (Or.inl (Or.inl (Or.inl (Or.inl (Or.inr ⟨m, h, ht⟩)))))))

theorem both_fromMem (h : Both vx vy live q) :
    (fromMem q).1.fault = q.fault ∧ Both vx vy live (fromMem q).1 := by
  obtain ⟨hx, hy⟩ := h
  unfold fromMem
  split
  · exact ⟨rfl, hx, hy⟩
  · rename_i i d rest hin
    have hmi := hx.mi
    simp only [hin, List.length_cons] at hmi
    have hrest : rest = [] := List.eq_nil_of_length_eq_zero (by omega)
    refine ⟨rfl, ?_, ?_⟩
    · refine hx.move _ ?_ rfl rfl rfl rfl rfl rfl rfl rfl ?_ ?_ hx.rt1 hx.rt2 hx.rt3 hx.rp hx.rd1 hx.rd2
      · simp [toks, reqSide, hin, miDn]
      · intro _; exact hrest
      · simp [hrest]
    · refine hy.move _ ?_ rfl rfl rfl rfl rfl rfl rfl rfl hy.wd hy.mi hy.rt1 hy.rt2 hy.rt3 ?_ hy.rd1 hy.rd2
      · simp only [toks, ownSide, hin, List.map_append, List.flatMap_cons, miDt, List.map_cons, List.map_nil]
        count_perm
      · rcases hy.rp with hp | ⟨hp, hi⟩
        · exact Or.inl hp
        · simp [ownInner, hin, miDt] at hi
  · rename_i i rest hin
    have hmi := hx.mi
    simp only [hin, List.length_cons] at hmi
    have hrest : rest = [] := List.eq_nil_of_length_eq_zero (by omega)
    have hwd : q.wdone = none := by
      cases hw : q.wdone with
      | none => rfl
      | some w => have := hx.wd (by simp [hw]); simp [hin] at this
    refine ⟨rfl, ?_, ?_⟩
    · refine hx.move _ ?_ rfl rfl rfl rfl rfl rfl rfl rfl ?_ ?_ hx.rt1 hx.rt2 hx.rt3 hx.rp hx.rd1 hx.rd2
      · simp [toks, reqSide, hin, miDn, hwd, hrest]
      · intro _; exact hrest
      · simp [hrest]
    · refine hy.move _ ?_ rfl rfl rfl rfl rfl rfl rfl rfl hy.wd hy.mi hy.rt1 hy.rt2 hy.rt3 ?_ hy.rd1 hy.rd2
      · simp [toks, ownSide, hin, miDt]
      · rcases hy.rp with hp | ⟨hp, hi⟩
        · exact Or.inl hp
        · exact Or.inr ⟨hp, by simpa [ownInner, hin, miDt] using hi⟩
  · rename_i rest hin
    exact absurd (mem_toks_memIn_req (v := { vx with rq := q }) (m := MRsp.junk) (by simp [hin]) Tok.bad (by simp [miDn])) hx.nobad

theorem both_readPage (h : Both vx vy live q) :
    (readPage q).1.fault = q.fault ∧ Both vx vy live (readPage q).1 := by
  obtain ⟨hx, hy⟩ := h
  unfold readPage
  split
  · exact ⟨rfl, hx, hy⟩
  · have e : (q.curPull.map fun r => MReq.read r.id r.addr r.size).map tRd = q.curPull.map tReq := by
      simp [tRd, tReq]
    refine ⟨rfl, ?_, ?_⟩
    · refine hx.move _ ?_ rfl rfl rfl rfl rfl rfl rfl rfl hx.wd hx.mi hx.rt1 hx.rt2 hx.rt3 hx.rp hx.rd1 hx.rd2
      simp [toks, reqSide]
    · refine hy.move _ ?_ rfl rfl rfl rfl rfl rfl rfl rfl hy.wd hy.mi hy.rt1 hy.rt2 hy.rt3 ?_ hy.rd1 hy.rd2
      · simp only [toks, ownSide, List.map_append, e, List.map_nil]
        count_perm
      · rcases hy.rp with hp | ⟨hp, hi⟩
        · exact Or.inl hp
        · refine Or.inr ⟨hp, ?_⟩
          simp only [ownInner, List.map_append, e, List.map_nil] at hi ⊢
          simp only [List.append_eq_nil_iff] at hi ⊢
          simp_all

theorem both_dataReadyRsp (h : Both vx vy live q) :
    (dataReadyRsp q).1.fault = q.fault ∧ Both vx vy live (dataReadyRsp q).1 := by
  obtain ⟨hx, hy⟩ := h
  unfold dataReadyRsp
  split
  · exact ⟨rfl, hx, hy⟩
  · rename_i hne
    have e : (q.dataReady.map fun x => (⟨x.1, q.reqPort, x.2⟩ : PullRsp)).map tRsp =
        q.dataReady.map fun e => Tok.dt e.1 e.2 := by
      simp [tRsp]
    have hport : q.reqPort = some vy.p := by
      rcases hy.rp with hp | ⟨_, hi⟩
      · exact hp
      · simp only [ownInner, List.append_eq_nil_iff, List.map_eq_nil_iff] at hi
        exact absurd (by simp [hi.2]) hne
    refine ⟨rfl, ?_, ?_⟩
    · refine hx.move _ ?_ rfl rfl rfl rfl rfl rfl rfl rfl hx.wd hx.mi hx.rt1 hx.rt2 hx.rt3 hx.rp hx.rd1 hx.rd2
      simp [toks, reqSide]
    · refine hy.move _ ?_ rfl rfl rfl rfl rfl rfl rfl rfl hy.wd hy.mi hy.rt1 hy.rt2 hy.rt3 ?_ ?_ hy.rd2
      · simp only [toks, ownSide, List.map_append, e, List.map_nil]
        count_perm
      · exact Or.inl hport
      · intro r hr
        simp only [List.mem_append, List.mem_map] at hr
        rcases hr with hr | ⟨x, _, rfl⟩
        · exact hy.rd1 r hr
        · exact hport

/-- a stage that changes nothing the owner role looks at -/
theorem Dir.own_same (h : Dir v live) (q' : Pmc) (e1 : q'.remIn = v.ow.remIn) (e2 : q'.reqPort = v.ow.reqPort)
    (e3 : q'.toRsp = v.ow.toRsp) (e4 : q'.remOut = v.ow.remOut) (e5 : q'.curPull = v.ow.curPull)
    (e6 : q'.toRead = v.ow.toRead) (e7 : q'.memOut = v.ow.memOut) (e8 : q'.memIn = v.ow.memIn)
    (e9 : q'.dataReady = v.ow.dataReady) : Dir { v with ow := q' } live := by
  refine h.move _ ?_ rfl rfl rfl rfl rfl rfl rfl rfl h.wd h.mi h.rt1 h.rt2 ?_ ?_ ?_ ?_
  · simp [toks, ownSide, e1, e3, e4, e5, e6, e7, e8, e9]
  · simpa [e1] using h.rt3
  · simpa [ownInner, e2, e5, e6, e7, e8, e9] using h.rp
  · simpa [e3] using h.rd1
  · simpa [e4] using h.rd2

theorem both_sendComplete (h : Both vx vy live q) (hph : Phase (key q)) :
    (sendComplete q).1.fault = q.fault ∧ Both vx vy live (sendComplete q).1 := by
  obtain ⟨hx, hy⟩ := h
  unfold sendComplete
  cases hc : q.toCtrl with
  | none => exact ⟨rfl, hx, hy⟩
  | some c =>
    simp only
    split
    · refine ⟨rfl, ?_, hy.own_same _ rfl rfl rfl rfl rfl rfl rfl rfl rfl⟩
      cases hph with
      | idle _ _ h3 _ _ => simp [key, hc] at h3
      | moving S r _ _ _ _ h5 _ _ => simp [key, hc] at h5
      | done S r g1 g2 g3 g4 g5 g6 g7 g8 =>
        simp only [key] at g1 g2 g3 g4 g5 g6 g7 g8
        have hact : activeId q = some c := by simp [activeId, g2, hc]
        obtain ⟨n1, n2⟩ := hx.nm (by simp [g2])
        exact {
          sf := hx.sf
          co := by
            intro c' hc'
            rcases List.mem_append.mp hc' with hc' | hc'
            · exact List.mem_append_left _ (hx.co c' hc')
            · exact List.mem_append_right _ hc'
          ph := by
            have hcr : c = r.id := by rw [hc] at g5; injection g5
            exact Or.inl (Phase.idle rfl rfl rfl g6 (by simp [key, g3, g4, hcr]))
          idn := hx.idn
          lk := by
            have := hx.lk
            simp only [hact] at this
            simpa [activeId] using this
          lm := by
            intro r' hr'
            exact hx.lm r' (Or.inr (by simpa using hr'))
          cj := hx.cj
          wd := hx.wd
          mi := hx.mi
          wf := hx.wf
          dn := by
            intro ℓ hl hp hid
            refine hx.dn ℓ hl hp ?_
            simp only [List.mem_append, List.mem_singleton] at hid
            rcases hid with (hid | hid) | hid
            · exact Or.inl hid
            · exact Or.inr (by simp [hc, hid])
            · simp at hid
          sr := hx.sr
          rt1 := hx.rt1
          rt2 := hx.rt2
          rt3 := hx.rt3
          rp := hx.rp
          rd1 := hx.rd1
          rd2 := hx.rd2
          mv := by intro r' hr'; simp at hr'
          nm := by
            intro _
            refine ⟨?_, n2⟩
            simpa [toks, reqSide] using n1 }
    · exact ⟨rfl, hx, hy⟩

theorem both_fromCtrl (h : Both vx vy live q) (hph : Phase (key q)) :
    (fromCtrl q).1.fault = q.fault ∧ Both vx vy live (fromCtrl q).1 := by
  obtain ⟨hx, hy⟩ := h
  unfold fromCtrl
  split
  · exact ⟨rfl, hx, hy⟩
  · rename_i hh
    split
    · exact ⟨rfl, hx, hy⟩
    · rename_i r rest hin
      refine ⟨rfl, ?_, hy.own_same _ rfl rfl rfl rfl rfl rfl rfl rfl rfl⟩
      cases hph with
      | moving S r' g1 => simp only [key] at g1; exact absurd g1 hh
      | done S r' g1 => simp only [key] at g1; exact absurd g1 hh
      | idle g1 g2 g3 g4 g5 =>
        simp only [key] at g1 g2 g3 g4 g5
        have hact : activeId q = none := by simp [activeId, g2, g3]
        obtain ⟨n1, n2⟩ := hx.nm (by simp [g2])
        exact {
          sf := hx.sf
          co := hx.co
          ph := Or.inr (Accepted.mk q.started r g1 rfl rfl g5 g3 g4)
          idn := hx.idn
          lk := by
            have := hx.lk
            simp only [hact, hin, migsOf] at this
            simpa [activeId] using this
          lm := by
            intro r' hr'
            rcases hr' with hr' | hr' | hr'
            · have : r = r' := by simpa using hr'
              subst this
              exact hx.lm r (Or.inr (Or.inl (by simp [hin, migsOf])))
            · exact hx.lm r' (Or.inr (Or.inl (by simp only [hin, migsOf]; exact List.mem_cons_of_mem _ hr')))
            · exact hx.lm r' (Or.inr (Or.inr hr'))
          cj := ⟨fun hj => hx.cj.1 (by simp only [hin]; exact List.mem_cons_of_mem _ hj), hx.cj.2⟩
          wd := hx.wd
          mi := hx.mi
          wf := hx.wf
          dn := hx.dn
          sr := hx.sr
          rt1 := hx.rt1
          rt2 := hx.rt2
          rt3 := hx.rt3
          rp := hx.rp
          rd1 := hx.rd1
          rd2 := hx.rd2
          mv := by intro r' _ hh'; simp only at hh'; rw [g1] at hh'; cases hh'
          nm := fun _ => ⟨by simpa [toks, reqSide] using n1, n2⟩ }
    · rename_i rest hin
      exact absurd (by simp [hin]) hx.cj.1

theorem both_startMigration (h : Both vx vy live q) :
    (startMigration q).1.fault = q.fault ∧ Both vx vy live (startMigration q).1 ∧
      Phase (key (startMigration q).1) := by
  obtain ⟨hx, hy⟩ := h
  have hph := (phase_startMigration q hx.ph).1
  refine ⟨?_, ?_, hph⟩
  · cases hc : q.cur with
    | none => rw [startMigration_idle (Or.inl hc)]
    | some r =>
      cases hh : q.handling with
      | true => rw [startMigration_idle (Or.inr hh)]
      | false => rw [startMigration_spec hc hh]
  revert hph
  cases hc : q.cur with
  | none => rw [startMigration_idle (Or.inl hc)]; intro _; exact ⟨hx, hy⟩
  | some r =>
    cases hh : q.handling with
    | true => rw [startMigration_idle (Or.inr hh)]; intro _; exact ⟨hx, hy⟩
    | false =>
      rw [startMigration_spec hc hh]
      intro hph
      refine ⟨?_, hy.own_same _ rfl rfl rfl rfl rfl rfl rfl rfl rfl⟩
      obtain ⟨n1, n2⟩ := hx.nm (by simp [hh])
      obtain ⟨ℓ, hl, hlp, hlr⟩ := hx.lm r (Or.inl hc)
      obtain ⟨w1, w2, w3, w4, w5, w6⟩ := hx.wf ℓ hl hlp
      rw [hlr] at w1 w2 w3
      have hn : 0 < nCh r := by
        unfold nCh
        have := Nat.div_add_mod r.size unit
        simp only [unit_eq] at *
        omega
      have hself : q.self = vx.p := hx.sf.1
      have hT : (toks { vx with rq := { q with
          pending := (↑(r.size / unit) : Int),
          toPull := q.toPull ++ (mkPulls q.self r.peer r.rd r.wr q.nid (r.size / unit)).map (·.1),
          map := q.map ++ (mkPulls q.self r.peer r.rd r.wr q.nid (r.size / unit)).map (fun x => (x.1.id, x.2)),
          nid := q.nid + r.size / unit, handling := true, dones := 0,
          plog := q.plog ++ mkPulls q.self r.peer r.rd r.wr q.nid (r.size / unit) } }).Perm
          ((mkPulls q.self r.peer r.rd r.wr q.nid (r.size / unit)).map fun x => tReq x.1) := by
        have e : ((mkPulls q.self r.peer r.rd r.wr q.nid (r.size / unit)).map (·.1)).map tReq =
            (mkPulls q.self r.peer r.rd r.wr q.nid (r.size / unit)).map fun x => tReq x.1 := by
          rw [List.map_map]; rfl
        have : (toks { vx with rq := { q with
          pending := (↑(r.size / unit) : Int),
          toPull := q.toPull ++ (mkPulls q.self r.peer r.rd r.wr q.nid (r.size / unit)).map (·.1),
          map := q.map ++ (mkPulls q.self r.peer r.rd r.wr q.nid (r.size / unit)).map (fun x => (x.1.id, x.2)),
          nid := q.nid + r.size / unit, handling := true, dones := 0,
          plog := q.plog ++ mkPulls q.self r.peer r.rd r.wr q.nid (r.size / unit) } }).Perm
          (((mkPulls q.self r.peer r.rd r.wr q.nid (r.size / unit)).map fun x => tReq x.1) ++
            toks { vx with rq := q }) := by
          simp only [toks, reqSide, List.map_append, e]
          count_perm
        rw [n1, List.append_nil] at this
        exact this
      exact {
        sf := hx.sf
        co := hx.co
        ph := Or.inl hph
        idn := hx.idn
        lk := by simpa [activeId, hc] using hx.lk
        lm := by simpa [hc] using hx.lm
        cj := hx.cj
        wd := hx.wd
        mi := hx.mi
        wf := hx.wf
        dn := hx.dn
        sr := hx.sr
        rt1 := by
          intro x hxm
          rcases List.mem_append.mp hxm with hxm | hxm
          · exact hx.rt1 x hxm
          · obtain ⟨y, hy', rfl⟩ := List.mem_map.mp hxm
            obtain ⟨i, _, rfl⟩ := (mem_mkPulls ..).mp hy'
            exact ⟨hself, w1⟩
        rt2 := hx.rt2
        rt3 := hx.rt3
        rp := hx.rp
        rd1 := hx.rd1
        rd2 := hx.rd2
        mv := by
          intro r' hr' _
          have : r = r' := by simpa [hc] using hr'
          subst this
          refine ⟨ℓ, hl, hlp, hlr, q.nid, ?_⟩
          have hm := (Moving.start vx.p r ℓ.snap q.nid vx.memR hn)
          have n2' : q.map = [] := n2
          rw [hself] at hT
          have := hm.perm hT
          simp only [n2', List.nil_append, hself]
          exact this
        nm := by intro hn'; simp [hc] at hn' }

end C19
