import MgpuProofs.C09PCP2
import MgpuProofs.C09Once2
/-! # C09 — partition algorithm inside the command processor, part 3: the trace invariant.

`PG log drv K Ks pending` (the analogue of `G` of `C09Once2.lean`; there the mapped indices of a busy
launch are `0 … n−1` in grid order, here they are an arbitrary duplicate-free list): launch ids are distinct
over the launches still to come (`pending`), the queued ones (`drv`) and the busy ones (`K`); a launch that is
not yet busy has nothing in the trace; a busy one has no response; and for every launch id the mapped indices
are distinct, inside the grid of the launch, at most one response exists, and once the response is in the
trace the mapped indices are a permutation of the grid. `Ks` = all the launches of the run. -/
namespace C09

/-- function update -/
def upd {α : Type} (f : Nat → α) (i : Nat) (x : α) : Nat → α := fun j => if j = i then x else f j

theorem upd_same {α : Type} (f : Nat → α) (i : Nat) (x : α) : upd f i x i = x := by simp [upd]
theorem upd_other {α : Type} (f : Nat → α) (i j : Nat) (x : α) (h : j ≠ i) : upd f i x j = f j := by simp [upd, h]

/-- kernels of a duplicate-free id list are determined by their id -/
theorem id_inj : ∀ (Ks : List Kern), (Ks.map (·.id)).Nodup → ∀ k ∈ Ks, ∀ k' ∈ Ks, k.id = k'.id → k = k' := by
  intro Ks
  induction Ks with
  | nil => intro _ k hk; cases hk
  | cons x xs ih =>
    intro hnd k hk k' hk' he
    rw [List.map_cons, List.nodup_cons] at hnd
    rcases List.mem_cons.1 hk with h1 | h1 <;> rcases List.mem_cons.1 hk' with h2 | h2
    · rw [h1, h2]
    · subst h1; exact absurd (List.mem_map.2 ⟨k', h2, he.symm⟩) hnd.1
    · subst h2; exact absurd (List.mem_map.2 ⟨k, h1, he⟩) hnd.1
    · exact ih hnd.2 k h1 k' h2 he

structure PG (log : List Ev) (drv : List Kern) (K : Nat → Option Kern) (Ks : List Kern)
    (pending : List Nat) : Prop where
  knd : (Ks.map (·.id)).Nodup
  pnd : pending.Nodup
  dnd : (drv.map (·.id)).Nodup
  bdist : ∀ i j k k', i ≠ j → K i = some k → K j = some k' → k.id ≠ k'.id
  bdrv : ∀ i k, K i = some k → k.id ∉ drv.map (·.id)
  pdrv : ∀ l ∈ pending, l ∉ drv.map (·.id)
  pbusy : ∀ l ∈ pending, ∀ i k, K i = some k → k.id ≠ l
  pfresh : ∀ l ∈ pending, mapsOf log l = [] ∧ rspCount log l = 0
  busy : ∀ i k, K i = some k → rspCount log k.id = 0 ∧ k ∈ Ks
  wait : ∀ k ∈ drv, mapsOf log k.id = [] ∧ rspCount log k.id = 0 ∧ k ∈ Ks
  all : ∀ l, (mapsOf log l).Nodup ∧ rspCount log l ≤ 1 ∧
    ∀ k ∈ Ks, k.id = l → (∀ idx ∈ mapsOf log l, idx < k.numWG) ∧
      (rspCount log l = 1 → (mapsOf log l).Perm (List.range k.numWG))

theorem PG_congr {log drv K Ks p} (K' : Nat → Option Kern) (h : PG log drv K Ks p) (hK : ∀ j, K' j = K j) :
    PG log drv K' Ks p := by
  have e1 : K' = K := funext hK
  rw [e1]; exact h

/-- a `MapWGReq` for a work-group of the busy launch `k` that was not mapped before and lies in its grid -/
theorem PG_map {log drv K Ks p} (h : PG log drv K Ks p) (i : Nat) (k : Kern) (hk : K i = some k)
    (r c idx : Nat) (locs : List Loc) (hnew : idx ∉ mapsOf log k.id) (hlt : idx < k.numWG) :
    PG (.map r c k.id idx locs :: log) drv K Ks p := by
  have hm : ∀ l, l ≠ k.id → mapsOf (.map r c k.id idx locs :: log) l = mapsOf log l := by
    intro l hl; rw [mapsOf_cons_map, if_neg (fun e => hl e.symm)]; simp
  exact {
    knd := h.knd, pnd := h.pnd, dnd := h.dnd, bdist := h.bdist, bdrv := h.bdrv, pdrv := h.pdrv, pbusy := h.pbusy
    pfresh := by
      intro l hl
      have hne : l ≠ k.id := fun e => h.pbusy l hl i k hk e.symm
      rw [hm l hne, rspCount_cons_map]; exact h.pfresh l hl
    busy := by
      intro j k' hk'
      rw [rspCount_cons_map]; exact h.busy j k' hk'
    wait := by
      intro k' hk'
      have hne : k'.id ≠ k.id := by
        intro e; exact h.bdrv i k hk (by rw [← e]; exact List.mem_map.2 ⟨k', hk', rfl⟩)
      rw [hm _ hne, rspCount_cons_map]; exact h.wait k' hk'
    all := by
      intro l
      rw [rspCount_cons_map]
      by_cases hl : l = k.id
      · subst hl
        rw [mapsOf_cons_map, if_pos rfl]
        obtain ⟨a1, a2, a3⟩ := h.all k.id
        refine ⟨?_, a2, ?_⟩
        · rw [List.nodup_append]
          refine ⟨a1, by simp, ?_⟩
          intro a ha b hb
          simp only [List.mem_singleton] at hb
          subst hb; intro e; subst e; exact hnew ha
        · intro k' hk' he
          have hkk : k' = k := id_inj Ks h.knd k' hk' k (h.busy i k hk).2 he
          subst hkk
          refine ⟨?_, ?_⟩
          · intro x hx
            rcases List.mem_append.1 hx with hx | hx
            · exact (a3 k' hk' rfl).1 x hx
            · simp only [List.mem_singleton] at hx; subst hx; exact hlt
          · intro h1
            have := (h.busy i k' hk).1
            omega
      · rw [hm l hl]; exact h.all l }

/-- the `LaunchKernelRsp` of the busy launch `k` whose whole grid is in the trace -/
theorem PG_rsp {log drv K Ks p} (h : PG log drv K Ks p) (i : Nat) (k : Kern) (hk : K i = some k)
    (hperm : (mapsOf log k.id).Perm (List.range k.numWG)) :
    PG (.rsp k.id :: log) drv (upd K i none) Ks p := by
  have hr : ∀ l, l ≠ k.id → rspCount (.rsp k.id :: log) l = rspCount log l := by
    intro l hl; rw [rspCount_cons_rsp, if_neg (fun e => hl e.symm)]; rfl
  have hK : ∀ j k', upd K i none j = some k' → j ≠ i ∧ K j = some k' := by
    intro j k' hj
    by_cases hji : j = i
    · simp [upd, hji] at hj
    · rw [upd_other _ _ _ _ hji] at hj; exact ⟨hji, hj⟩
  exact {
    knd := h.knd, pnd := h.pnd, dnd := h.dnd
    bdist := by
      intro a b ka kb hab ha hb
      exact h.bdist a b ka kb hab (hK a ka ha).2 (hK b kb hb).2
    bdrv := fun a ka ha => h.bdrv a ka (hK a ka ha).2
    pdrv := h.pdrv
    pbusy := fun l hl a ka ha => h.pbusy l hl a ka (hK a ka ha).2
    pfresh := by
      intro l hl
      have hne : l ≠ k.id := fun e => h.pbusy l hl i k hk e.symm
      rw [mapsOf_cons_rsp, hr l hne]; exact h.pfresh l hl
    busy := by
      intro j k' hj
      obtain ⟨hji, hj'⟩ := hK j k' hj
      have hne : k'.id ≠ k.id := h.bdist j i k' k hji hj' hk
      rw [hr _ hne]; exact h.busy j k' hj'
    wait := by
      intro k' hk'
      have hne : k'.id ≠ k.id := by
        intro e; exact h.bdrv i k hk (by rw [← e]; exact List.mem_map.2 ⟨k', hk', rfl⟩)
      rw [mapsOf_cons_rsp, hr _ hne]; exact h.wait k' hk'
    all := by
      intro l
      rw [mapsOf_cons_rsp]
      obtain ⟨a1, a2, a3⟩ := h.all l
      by_cases hl : l = k.id
      · subst hl
        rw [rspCount_cons_rsp, if_pos rfl, (h.busy i k hk).1]
        refine ⟨a1, Nat.le_refl _, ?_⟩
        intro k' hk' he
        have hkk : k' = k := id_inj Ks h.knd k' hk' k (h.busy i k hk).2 he
        subst hkk
        exact ⟨(a3 k' hk' rfl).1, fun _ => hperm⟩
      · rw [hr l hl]; exact ⟨a1, a2, a3⟩ }

/-- a dispatcher takes the launch at the head of the queue -/
theorem PG_start {log rest K Ks p} (k : Kern) (h : PG log (k :: rest) K Ks p) (i : Nat) (_hk : K i = none) :
    PG log rest (upd K i (some k)) Ks p := by
  have hdn := h.dnd
  rw [List.map_cons, List.nodup_cons] at hdn
  have hsub : ∀ x, x ∈ rest.map (·.id) → x ∈ (k :: rest).map (·.id) := by
    intro x hx; rw [List.map_cons]; exact List.mem_cons_of_mem _ hx
  have hkid : k.id ∈ (k :: rest).map (·.id) := by rw [List.map_cons]; exact List.mem_cons_self
  have hK : ∀ j k', upd K i (some k) j = some k' → (j = i ∧ k' = k) ∨ (j ≠ i ∧ K j = some k') := by
    intro j k' hj
    by_cases hji : j = i
    · subst hji; rw [upd_same] at hj; injection hj with hj; exact Or.inl ⟨rfl, hj.symm⟩
    · rw [upd_other _ _ _ _ hji] at hj; exact Or.inr ⟨hji, hj⟩
  exact {
    knd := h.knd, pnd := h.pnd, dnd := hdn.2
    bdist := by
      intro a b ka kb hab ha hb
      rcases hK a ka ha with ⟨ha1, ha2⟩ | ⟨ha1, ha2⟩ <;> rcases hK b kb hb with ⟨hb1, hb2⟩ | ⟨hb1, hb2⟩
      · exact absurd (ha1.trans hb1.symm) hab
      · subst ha2; intro e; exact h.bdrv b kb hb2 (by rw [← e]; exact hkid)
      · subst hb2; intro e; exact h.bdrv a ka ha2 (by rw [e]; exact hkid)
      · exact h.bdist a b ka kb hab ha2 hb2
    bdrv := by
      intro a ka ha
      rcases hK a ka ha with ⟨_, ha2⟩ | ⟨_, ha2⟩
      · subst ha2; exact hdn.1
      · exact fun hm => h.bdrv a ka ha2 (hsub _ hm)
    pdrv := fun l hl hm => h.pdrv l hl (hsub _ hm)
    pbusy := by
      intro l hl a ka ha
      rcases hK a ka ha with ⟨_, ha2⟩ | ⟨_, ha2⟩
      · subst ha2; intro e; exact h.pdrv l hl (by rw [← e]; exact hkid)
      · exact h.pbusy l hl a ka ha2
    pfresh := h.pfresh
    busy := by
      intro j k' hj
      rcases hK j k' hj with ⟨_, hj2⟩ | ⟨_, hj2⟩
      · subst hj2
        have := h.wait k' List.mem_cons_self
        exact ⟨this.2.1, this.2.2⟩
      · exact h.busy j k' hj2
    wait := fun k' hk' => h.wait k' (List.mem_cons_of_mem _ hk')
    all := h.all }

/-- a launch request arrives -/
theorem PG_launch {log drv K Ks p} (k : Kern) (h : PG log drv K Ks (k.id :: p)) (hKs : k ∈ Ks) :
    PG log (drv ++ [k]) K Ks p := by
  have hp := h.pnd
  rw [List.nodup_cons] at hp
  have hkd : k.id ∉ drv.map (·.id) := h.pdrv k.id List.mem_cons_self
  have hmem : ∀ x, x ∈ (drv ++ [k]).map (·.id) → x ∈ drv.map (·.id) ∨ x = k.id := by
    intro x hx; simpa using hx
  exact {
    knd := h.knd
    pnd := hp.2
    dnd := by
      rw [List.map_append, List.nodup_append]
      refine ⟨h.dnd, by simp, ?_⟩
      intro a ha b hb
      simp only [List.map_cons, List.map_nil, List.mem_singleton] at hb
      subst hb; intro e; exact hkd (by rw [← e]; exact ha)
    bdist := h.bdist
    bdrv := by
      intro a ka ha hm
      rcases hmem _ hm with h' | h'
      · exact h.bdrv a ka ha h'
      · exact h.pbusy k.id List.mem_cons_self a ka ha h'
    pdrv := by
      intro l hl hm
      rcases hmem _ hm with h' | h'
      · exact h.pdrv l (List.mem_cons_of_mem _ hl) h'
      · subst h'; exact hp.1 hl
    pbusy := fun l hl => h.pbusy l (List.mem_cons_of_mem _ hl)
    pfresh := fun l hl => h.pfresh l (List.mem_cons_of_mem _ hl)
    busy := h.busy
    wait := by
      intro k' hk'
      rcases List.mem_append.1 hk' with h' | h'
      · exact h.wait k' h'
      · simp only [List.mem_singleton] at h'; subst h'
        have := h.pfresh k'.id List.mem_cons_self
        exact ⟨this.1, this.2, hKs⟩
    all := h.all }

/-- the trace invariant with the link to the dispatchers: `S j` = the indices dispatcher `j` has sent for
    its current launch, newest first -/
structure TInv (log : List Ev) (drv : List Kern) (K : Nat → Option Kern) (S : Nat → List Nat)
    (Ks : List Kern) (p : List Nat) : Prop where
  g : PG log drv K Ks p
  maps : ∀ j k, K j = some k → mapsOf log k.id = (S j).reverse

theorem TInv_congr {log drv K S Ks p} (K' : Nat → Option Kern) (S' : Nat → List Nat)
    (h : TInv log drv K S Ks p) (hK : ∀ j, K' j = K j) (hS : ∀ j, S' j = S j) : TInv log drv K' S' Ks p := by
  have e1 : K' = K := funext hK
  have e2 : S' = S := funext hS
  rw [e1, e2]; exact h

theorem TInv_map {log drv K S Ks p} (h : TInv log drv K S Ks p) (i : Nat) (k : Kern) (hk : K i = some k)
    (r c idx : Nat) (locs : List Loc) (hnew : idx ∉ S i) (hlt : idx < k.numWG) :
    TInv (.map r c k.id idx locs :: log) drv K (upd S i (idx :: S i)) Ks p := by
  refine ⟨PG_map h.g i k hk r c idx locs ?_ hlt, ?_⟩
  · rw [h.maps i k hk]; simpa using hnew
  · intro j k' hk'
    by_cases hj : j = i
    · subst hj
      rw [hk] at hk'; injection hk' with hk'; subst hk'
      rw [upd_same, mapsOf_cons_map, if_pos rfl, h.maps j k hk, List.reverse_cons]
    · rw [upd_other _ _ _ _ hj, mapsOf_cons_map, if_neg (h.g.bdist i j k k' (Ne.symm hj) hk hk')]
      simpa using h.maps j k' hk'

theorem TInv_rsp {log drv K S Ks p} (h : TInv log drv K S Ks p) (i : Nat) (k : Kern) (hk : K i = some k)
    (hperm : (S i).Perm (List.range k.numWG)) :
    TInv (.rsp k.id :: log) drv (upd K i none) S Ks p := by
  refine ⟨PG_rsp h.g i k hk ?_, ?_⟩
  · rw [h.maps i k hk]; exact (List.reverse_perm _).trans hperm
  · intro j k' hk'
    by_cases hj : j = i
    · subst hj; rw [upd_same] at hk'; cases hk'
    · rw [upd_other _ _ _ _ hj] at hk'
      rw [mapsOf_cons_rsp]; exact h.maps j k' hk'

theorem TInv_start {log rest K S Ks p} (k : Kern) (h : TInv log (k :: rest) K S Ks p) (i : Nat)
    (hk : K i = none) : TInv log rest (upd K i (some k)) (upd S i []) Ks p := by
  refine ⟨PG_start k h.g i hk, ?_⟩
  intro j k' hk'
  by_cases hj : j = i
  · subst hj
    rw [upd_same] at hk'; injection hk' with hk'; subst hk'
    rw [upd_same, (h.g.wait k List.mem_cons_self).1]; rfl
  · rw [upd_other _ _ _ _ hj] at hk'
    rw [upd_other _ _ _ _ hj]; exact h.maps j k' hk'

theorem TInv_launch {log drv K S Ks p} (k : Kern) (h : TInv log drv K S Ks (k.id :: p)) (hKs : k ∈ Ks) :
    TInv log (drv ++ [k]) K S Ks p :=
  ⟨PG_launch k h.g hKs, h.maps⟩

end C09
