import MgpuProofs.C11CpMain
/-! Liveness of the command processor's copy / flush path: a measure that every productive move
decreases, absence of deadlock, and termination under every fair schedule (helper lemmas for
`Props/C11CpLive.lean`). -/
namespace C11

deriving instance DecidableEq for Cp, CpEnv

/-! ## the measure -/

/-- remaining work of a request waiting in the driver port (`n` caches) -/
def cpW (n : Nat) (m : CpMsg) : Nat := if m.kind = .flush then 4 * n + 2 else 6

/-- remaining work: copy: driver port 6 → ToDMA 5 → at the DMA engine 4 → DMA answer 3 → ToDriver 1 →
    taken 0; flush: driver port 4n+2 → n cache requests, 4 each (n = 0: ToDriver 1) → at the caches 3 →
    acknowledgement 2 → (last one) ToDriver 1 → taken 0 -/
def cpMeasure (e : CpEnv) : Nat :=
  (e.s.drvIn.map (cpW e.s.nCaches)).sum + 5 * e.s.dmaOut.length + 4 * e.atDma.length + 3 * e.s.dmaIn.length +
  4 * e.s.cacheOut.length + 3 * e.atCaches.length + 2 * e.s.cacheIn.length + e.s.drvOut.length

/-- a move that either changes nothing or decreases the measure -/
def Prog (a b : CpEnv) : Prop := b = a ∨ cpMeasure b < cpMeasure a

theorem Prog.rfl' (a : CpEnv) : Prog a a := .inl rfl

theorem Prog.le {a b : CpEnv} (h : Prog a b) : cpMeasure b ≤ cpMeasure a := by
  rcases h with h | h
  · rw [h]; exact Nat.le_refl _
  · exact Nat.le_of_lt h

theorem Prog.trans {a b c : CpEnv} (h1 : Prog a b) (h2 : Prog b c) : Prog a c := by
  rcases h1 with h1 | h1
  · rw [h1] at h2; exact h2
  · right; exact Nat.lt_of_le_of_lt h2.le h1

/-- a chain that returns to its start never left it -/
theorem Prog.mid {a b c : CpEnv} (h1 : Prog a b) (h2 : Prog b c) (h : c = a) : b = a := by
  rcases h1 with h1 | h1
  · exact h1
  · have := h2.le; rw [h] at this; omega

/-! ## reachable states without fault -/

structure CpGood (e : CpEnv) : Prop where
  inv : CpInvAll e
  nofault : e.s.fault = none
  cap : e.s.nCaches ≤ e.s.capCache

theorem CpGood.tr {e e' : CpEnv} (h : CpGood e) (t : CpTr e e') : CpGood e' := by
  obtain ⟨c1, c2⟩ := t.cfg
  exact ⟨h.inv.tr t, h.inv.no_fault_tr h.cap h.nofault t, by rw [c1, c2]; exact h.cap⟩

theorem CpGood.steps {e e' : CpEnv} (h : CpGood e) (t : CpSteps e e') : CpGood e' := by
  induction t with
  | refl => exact h
  | tail _ t ih => exact ih.tr t

theorem reach_good (n cin cdrv cdma ccache : Nat) (ops : List CpOp) (h : n ≤ ccache) :
    CpGood (reachCp n cin cdrv cdma ccache ops) := by
  obtain ⟨a, b, c, d⟩ := reach_all n cin cdrv cdma ccache ops
  exact ⟨a, d h, by rw [b, c]; exact h⟩

theorem reach_caps (n cin cdrv cdma ccache : Nat) (ops : List CpOp) :
    (reachCp n cin cdrv cdma ccache ops).s.capIn = cin ∧ (reachCp n cin cdrv cdma ccache ops).s.capDrv = cdrv ∧
    (reachCp n cin cdrv cdma ccache ops).s.capDma = cdma := by
  refine reach_inv (P := fun e => e.s.capIn = cin ∧ e.s.capDrv = cdrv ∧ e.s.capDma = cdma) ⟨rfl, rfl, rfl⟩ ?_ ops
  rintro e e' ⟨h1, h2, h3⟩ t
  cases t <;> exact ⟨h1, h2, h3⟩

/-! ## the three stages of a pass: unchanged, or the measure drops -/

theorem handle_prog {e : CpEnv} (hg : CpGood e) :
    e.s.handle = (e.s, false) ∨ (e.s.handle.2 = true ∧ cpMeasure (e.withS e.s.handle.1) < cpMeasure e) := by
  have hg' := (hg.steps (handle_steps e)).nofault
  rcases Cp.handle_cases e.s with h | ⟨m, rest, hf, hd, hn, hk, h | h | h⟩ | ⟨m, rest, hf, hd, hn, hk, hb, h⟩
  · exact .inl h
  · obtain ⟨k, _, _, h⟩ := h
    rw [h] at hg'; cases hg'
  · obtain ⟨_, h⟩ := h
    right; rw [h]
    refine ⟨rfl, ?_⟩
    simp [cpMeasure, Cp.flushAsk, hd, cpW, hk]
    omega
  · obtain ⟨hz, _, h⟩ := h
    right; rw [h]
    refine ⟨rfl, ?_⟩
    simp [cpMeasure, hd, cpW, hk, hz]
    omega
  · right; rw [h]
    refine ⟨rfl, ?_⟩
    simp [cpMeasure, Cp.copyFwd, hd, cpW, hk]
    omega

theorem dmaRsp_prog {e : CpEnv} (hg : CpGood e) :
    e.s.dmaRsp = (e.s, false) ∨ (e.s.dmaRsp.2 = true ∧ cpMeasure (e.withS e.s.dmaRsp.1) < cpMeasure e) := by
  have hg' := (hg.steps (dmaRsp_steps e)).nofault
  rcases Cp.dmaRsp_cases e.s with h | ⟨c, rest, hf, hd, hb, ⟨o, k, hl, h⟩ | ⟨hH, hD, h⟩⟩
  · exact .inl h
  · right; rw [h]
    refine ⟨rfl, ?_⟩
    simp [cpMeasure, Cp.copyDone, hd]
    omega
  · rw [h] at hg'; cases hg'

theorem cacheRsp_prog {e : CpEnv} (hg : CpGood e) :
    e.s.cacheRsp = (e.s, false) ∨ (e.s.cacheRsp.2 = true ∧ cpMeasure (e.withS e.s.cacheRsp.1) < cpMeasure e) := by
  have hg' := (hg.steps (cacheRsp_steps e)).nofault
  rcases Cp.cacheRsp_cases e.s with h | ⟨x, rest, n', hf, hd, hn, ⟨hz, h⟩ | ⟨hz, hc, h⟩ | ⟨hz, f, hc, hb, h⟩⟩
  · exact .inl h
  · right; rw [h]
    refine ⟨rfl, ?_⟩
    simp [cpMeasure, hd]
  · rw [h] at hg'; cases hg'
  · right; rw [h]
    refine ⟨rfl, ?_⟩
    simp [cpMeasure, hd]
    omega

/-! ## one pass, one tick -/

theorem Cp.pass_fst (s : Cp) : s.pass.1 = s.handle.1.dmaRsp.1.cacheRsp.1 := rfl

theorem Cp.tick_fst (s : Cp) (hf : s.fault = none) :
    s.tick.1 = if s.drvIn.isEmpty then s.pass.1 else s.pass.1.pass.1 := by
  unfold Cp.tick; simp [hf]; split <;> rfl

theorem stage_prog {e : CpEnv} {r : Cp × Bool}
    (h : r = (e.s, false) ∨ (r.2 = true ∧ cpMeasure (e.withS r.1) < cpMeasure e)) : Prog e (e.withS r.1) := by
  rcases h with h | h
  · left; rw [h]; rfl
  · exact .inr h.2

/-- a stage that does not decrease the measure changed nothing and reported no progress -/
theorem stage_fix {e : CpEnv} {r : Cp × Bool}
    (h : r = (e.s, false) ∨ (r.2 = true ∧ cpMeasure (e.withS r.1) < cpMeasure e))
    (hle : cpMeasure e ≤ cpMeasure (e.withS r.1)) : r = (e.s, false) := by
  rcases h with h | h
  · exact h
  · omega

theorem CpGood.handle {e : CpEnv} (hg : CpGood e) : CpGood (e.withS e.s.handle.1) := hg.steps (handle_steps e)

theorem CpGood.dmaRsp {e : CpEnv} (hg : CpGood e) : CpGood (e.withS e.s.dmaRsp.1) := hg.steps (dmaRsp_steps e)

theorem CpGood.pass {e : CpEnv} (hg : CpGood e) : CpGood (e.withS e.s.pass.1) := hg.steps (pass_steps e)

theorem pass_prog {e : CpEnv} (hg : CpGood e) : Prog e (e.withS e.s.pass.1) := by
  have h1 := stage_prog (handle_prog hg)
  have h2 := stage_prog (dmaRsp_prog hg.handle)
  have h3 := stage_prog (cacheRsp_prog hg.handle.dmaRsp)
  simp only [CpEnv.withS_s, CpEnv.withS_withS] at h2 h3
  rw [Cp.pass_fst]
  exact (h1.trans h2).trans h3

/-- a pass that leaves the state as it is: none of its three stages could move -/
theorem pass_fix {e : CpEnv} (hg : CpGood e) (h : e.s.pass.1 = e.s) :
    e.s.handle = (e.s, false) ∧ e.s.dmaRsp = (e.s, false) ∧ e.s.cacheRsp = (e.s, false) := by
  have p1 := handle_prog hg
  have p2 := dmaRsp_prog hg.handle
  have p3 := cacheRsp_prog hg.handle.dmaRsp
  have h1 := (stage_prog p1).le
  have h2 := (stage_prog p2).le
  have h3 := (stage_prog p3).le
  simp only [CpEnv.withS_s, CpEnv.withS_withS] at p2 p3 h2 h3
  rw [Cp.pass_fst] at h
  have hm : cpMeasure (e.withS e.s.handle.1.dmaRsp.1.cacheRsp.1) = cpMeasure e := by rw [h]; rfl
  have f1 := stage_fix p1 (by omega)
  have g1 : e.s.handle.1 = e.s := by rw [f1]
  rw [g1] at p2 p3 h2 h3 h hm
  simp only [CpEnv.withS_self] at p2 p3 h2 h3
  have f2 := stage_fix p2 (by omega)
  have g2 : e.s.dmaRsp.1 = e.s := by rw [f2]
  rw [g2] at p3 h
  simp only [CpEnv.withS_self] at p3
  have f3 := stage_fix p3 (by rw [h]; exact Nat.le_refl _)
  exact ⟨f1, f2, f3⟩

theorem tick_prog {e : CpEnv} (hg : CpGood e) : Prog e (e.withS e.s.tick.1) := by
  rw [Cp.tick_fst _ hg.nofault]
  split
  · exact pass_prog hg
  · have h2 := pass_prog hg.pass
    simp only [CpEnv.withS_s, CpEnv.withS_withS] at h2
    exact (pass_prog hg).trans h2

/-- a tick that leaves the state as it is: a pass leaves it as it is -/
theorem tick_fix {e : CpEnv} (hg : CpGood e) (h : e.s.tick.1 = e.s) : e.s.pass.1 = e.s := by
  rw [Cp.tick_fst _ hg.nofault] at h
  split at h
  · exact h
  · have h2 := pass_prog hg.pass
    simp only [CpEnv.withS_s, CpEnv.withS_withS] at h2
    have := (pass_prog hg).mid h2 (by rw [h]; rfl)
    have := congrArg CpEnv.s this
    simpa using this

/-! ## when a stage can move -/

theorem Cp.handle_enabled (s : Cp) (m : CpMsg) (rest : List CpMsg) (hf : s.fault = none) (hd : s.drvIn = m :: rest)
    (hn : s.numAck = 0) (h1 : m.kind = .flush → s.nCaches = 0 → s.drvOut.length < s.capDrv)
    (h2 : m.kind ≠ .flush → s.dmaOut.length < s.capDma) : s.handle.2 = true := by
  rcases s with ⟨nC, cIn, cDrv, cDma, cCache, drvIn, drvOut, dmaOut, dmaIn, cacheOut, cacheIn, numAck,
    curFlush, mapH, mapD, nextCid, fault, log⟩
  simp only at hf hd hn h1 h2
  subst hf hd hn
  rcases m with ⟨mid, mk⟩
  unfold Cp.handle
  cases mk with
  | flush =>
    obtain ⟨k, flt, hkl, he, hd'⟩ := Cp.foldl_flushCache_shape (List.range nC)
      (Cp.mk nC cIn cDrv cDma cCache (⟨mid, .flush⟩ :: rest) drvOut dmaOut dmaIn cacheOut cacheIn 0
        curFlush mapH mapD nextCid none (log ++ [.flushStart mid])) rfl
    simp only [List.length_range] at hkl hd'
    simp only [] at he
    simp only [Option.isSome_none, Bool.false_eq_true, if_false, Nat.lt_irrefl, gt_iff_lt]
    rw [he]
    rcases hd' with ⟨h1', h2'⟩ | ⟨h1', _, _⟩
    · subst h1'; cases h2'
      by_cases hz : nC = 0
      · subst hz
        have hr := h1 rfl rfl
        simp [hr]
      · simp [hz]
    · subst h1'
      simp
  | h2d =>
    have hr := h2 (by simp)
    simp [hr]
  | d2h =>
    have hr := h2 (by simp)
    simp [hr]

theorem Cp.dmaRsp_enabled (s : Cp) (c : Nat) (rest : List Nat) (hf : s.fault = none) (hd : s.dmaIn = c :: rest)
    (hr : s.drvOut.length < s.capDrv) : s.dmaRsp.2 = true := by
  unfold Cp.dmaRsp
  rw [hd]
  simp only [hf, Option.isSome_none, Bool.false_eq_true, if_false, hr, if_true]
  cases s.mapH.lookup c with
  | some o => rfl
  | none =>
    cases s.mapD.lookup c with
    | some o => rfl
    | none => rfl

theorem Cp.cacheRsp_enabled (s : Cp) (x : Nat) (rest : List Nat) (hf : s.fault = none) (hd : s.cacheIn = x :: rest)
    (hr : s.drvOut.length < s.capDrv) : s.cacheRsp.2 = true := by
  unfold Cp.cacheRsp
  rw [hd]
  simp only [hf, Option.isSome_none, Bool.false_eq_true, if_false, hr, not_true_eq_false, and_false]
  repeat' (first | rfl | split)

/-! ## the environment moves: a no-op (for the stated reason), or the measure drops -/

theorem step_tick_eq (e : CpEnv) : (e.step .tick).1 = e.withS e.s.tick.1 := rfl

theorem takeDma_prog (e : CpEnv) (k : Nat) :
    ((k = 0 ∨ e.s.dmaOut = []) ∧ (e.step (.takeDma k)).1 = e) ∨
    cpMeasure (e.step (.takeDma k)).1 < cpMeasure e := by
  by_cases h : k = 0 ∨ e.s.dmaOut = []
  · left
    refine ⟨h, ?_⟩
    have h1 : e.s.dmaOut.take k = [] := by rcases h with h | h <;> simp [h]
    have h2 : e.s.dmaOut.drop k = e.s.dmaOut := by rcases h with h | h <;> simp [h]
    simp only [CpEnv.step, h1, h2, List.append_nil]
  · right
    have hk : 1 ≤ k := by omega
    have hl : 1 ≤ e.s.dmaOut.length := by
      cases hd : e.s.dmaOut with
      | nil => exact absurd (.inr hd) h
      | cons a l => simp
    simp only [CpEnv.step, cpMeasure, List.length_append, List.length_take, List.length_drop]
    omega

theorem takeCache_prog (e : CpEnv) (k : Nat) :
    ((k = 0 ∨ e.s.cacheOut = []) ∧ (e.step (.takeCache k)).1 = e) ∨
    cpMeasure (e.step (.takeCache k)).1 < cpMeasure e := by
  by_cases h : k = 0 ∨ e.s.cacheOut = []
  · left
    refine ⟨h, ?_⟩
    have h1 : e.s.cacheOut.take k = [] := by rcases h with h | h <;> simp [h]
    have h2 : e.s.cacheOut.drop k = e.s.cacheOut := by rcases h with h | h <;> simp [h]
    simp only [CpEnv.step, h1, h2, List.append_nil]
  · right
    have hk : 1 ≤ k := by omega
    have hl : 1 ≤ e.s.cacheOut.length := by
      cases hd : e.s.cacheOut with
      | nil => exact absurd (.inr hd) h
      | cons a l => simp
    simp only [CpEnv.step, cpMeasure, List.length_append, List.length_take, List.length_drop]
    omega

theorem takeDrv_prog (e : CpEnv) (k : Nat) :
    ((k = 0 ∨ e.s.drvOut = []) ∧ (e.step (.takeDrv k)).1 = e) ∨
    cpMeasure (e.step (.takeDrv k)).1 < cpMeasure e := by
  by_cases h : k = 0 ∨ e.s.drvOut = []
  · left
    refine ⟨h, ?_⟩
    have h1 : e.s.drvOut.take k = [] := by rcases h with h | h <;> simp [h]
    have h2 : e.s.drvOut.drop k = e.s.drvOut := by rcases h with h | h <;> simp [h]
    simp only [CpEnv.step, h1, h2, List.append_nil]
  · right
    have hk : 1 ≤ k := by omega
    have hl : 1 ≤ e.s.drvOut.length := by
      cases hd : e.s.drvOut with
      | nil => exact absurd (.inr hd) h
      | cons a l => simp
    simp only [CpEnv.step, cpMeasure, List.length_drop]
    omega

theorem ack_prog (e : CpEnv) (j : Nat) :
    ((e.atCaches = [] ∨ e.s.capIn ≤ e.s.cacheIn.length) ∧ (e.step (.ack j)).1 = e) ∨
    cpMeasure (e.step (.ack j)).1 < cpMeasure e := by
  simp only [CpEnv.step]
  split
  · rename_i h; exact .inl ⟨.inl h, rfl⟩
  · rename_i hne
    split
    · rename_i h; exact .inl ⟨.inr h, rfl⟩
    · right
      have hpos : 0 < e.atCaches.length := by
        cases h : e.atCaches with
        | nil => exact absurd h (by simpa using hne)
        | cons a l => simp
      have hj := Nat.mod_lt j hpos
      simp only [cpMeasure, List.length_append, List.length_eraseIdx, hj, if_true, List.length_singleton]
      omega

theorem rsp_prog (e : CpEnv) (j : Nat) :
    ((e.atDma = [] ∨ e.s.capIn ≤ e.s.dmaIn.length) ∧ (e.step (.rsp j)).1 = e) ∨
    cpMeasure (e.step (.rsp j)).1 < cpMeasure e := by
  simp only [CpEnv.step]
  split
  · rename_i h; exact .inl ⟨.inl h, rfl⟩
  · rename_i hne
    split
    · rename_i h; exact .inl ⟨.inr h, rfl⟩
    · have hpos : 0 < e.atDma.length := by
        cases h : e.atDma with
        | nil => exact absurd h (by simpa using hne)
        | cons a l => simp
      have hj := Nat.mod_lt j hpos
      split
      · rename_i hn
        rw [List.getElem?_eq_getElem hj] at hn
        cases hn
      · right
        simp only [cpMeasure, List.length_append, List.length_eraseIdx, hj, if_true, List.length_singleton]
        omega

/-- every move other than a new request leaves the state as it is or decreases the measure -/
theorem step_prog {e : CpEnv} (hg : CpGood e) (op : CpOp) (hop : ∀ k, op ≠ .req k) : Prog e (e.step op).1 := by
  cases op with
  | req k => exact absurd rfl (hop k)
  | tick => exact tick_prog hg
  | takeDma k => exact (takeDma_prog e k).imp (fun h => h.2) id
  | takeCache k => exact (takeCache_prog e k).imp (fun h => h.2) id
  | takeDrv k => exact (takeDrv_prog e k).imp (fun h => h.2) id
  | ack j => exact (ack_prog e j).imp (fun h => h.2) id
  | rsp j => exact (rsp_prog e j).imp (fun h => h.2) id

/-! ## no deadlock -/

/-- A reachable state in which no move changes anything is quiet: the tick is a no-op, the three
    outgoing buffers are empty (nothing to take), no acknowledgement and no DMA answer can be delivered. -/
theorem no_deadlock_core {e : CpEnv} (hg : CpGood e) (hin : 1 ≤ e.s.capIn) (hdrv : 1 ≤ e.s.capDrv)
    (hdma : 1 ≤ e.s.capDma) (ht : e.s.tick.1 = e.s) (h1 : e.s.dmaOut = []) (h2 : e.s.cacheOut = [])
    (h3 : e.s.drvOut = []) (h4 : e.atCaches = [] ∨ e.s.capIn ≤ e.s.cacheIn.length)
    (h5 : e.atDma = [] ∨ e.s.capIn ≤ e.s.dmaIn.length) : e.quiet := by
  obtain ⟨f1, f2, f3⟩ := pass_fix hg (tick_fix hg ht)
  have hf := hg.nofault
  have hroom : e.s.drvOut.length < e.s.capDrv := by rw [h3]; exact hdrv
  have d1 : e.s.dmaIn = [] := by
    cases hd : e.s.dmaIn with
    | nil => rfl
    | cons c rest =>
      have := Cp.dmaRsp_enabled e.s c rest hf hd hroom
      rw [f2] at this; cases this
  have d2 : e.s.cacheIn = [] := by
    cases hd : e.s.cacheIn with
    | nil => rfl
    | cons c rest =>
      have := Cp.cacheRsp_enabled e.s c rest hf hd hroom
      rw [f3] at this; cases this
  have d3 : e.atCaches = [] := by
    rcases h4 with h | h
    · exact h
    · rw [d2] at h; simp at h; omega
  have d4 : e.atDma = [] := by
    rcases h5 with h | h
    · exact h
    · rw [d1] at h; simp at h; omega
  have hn : e.s.numAck = 0 := by rw [hg.inv.flush.acks, h2, d3, d2]; rfl
  have d5 : e.s.drvIn = [] := by
    cases hd : e.s.drvIn with
    | nil => rfl
    | cons m rest =>
      have := Cp.handle_enabled e.s m rest hf hd hn (fun _ _ => hroom) (fun _ => by rw [h1]; exact hdma)
      rw [f1] at this; cases this
  exact ⟨d5, h3, h1, d1, h2, d2, d4, d3⟩

/-! ## a quiet state stays quiet while no request arrives -/

theorem Cp.handle_nil {s : Cp} (h : s.drvIn = []) : s.handle = (s, false) := by
  unfold Cp.handle; rw [h]; split <;> rfl

theorem Cp.dmaRsp_nil {s : Cp} (h : s.dmaIn = []) : s.dmaRsp = (s, false) := by
  unfold Cp.dmaRsp; rw [h]; split <;> rfl

theorem Cp.cacheRsp_nil {s : Cp} (h : s.cacheIn = []) : s.cacheRsp = (s, false) := by
  unfold Cp.cacheRsp; rw [h]; split <;> rfl

theorem Cp.pass_nil {s : Cp} (h1 : s.drvIn = []) (h2 : s.dmaIn = []) (h3 : s.cacheIn = []) : s.pass.1 = s := by
  rw [Cp.pass_fst, Cp.handle_nil h1]
  simp only
  rw [Cp.dmaRsp_nil h2]
  simp only
  rw [Cp.cacheRsp_nil h3]

theorem Cp.tick_nil {s : Cp} (h1 : s.drvIn = []) (h2 : s.dmaIn = []) (h3 : s.cacheIn = []) : s.tick.1 = s := by
  unfold Cp.tick
  split
  · rfl
  · simp only [h1, List.isEmpty_nil, if_true]
    exact Cp.pass_nil h1 h2 h3

/-- every move other than a new request is a no-op in a quiet state -/
theorem quiet_step {e : CpEnv} (hq : e.quiet) (op : CpOp) (hop : ∀ k, op ≠ .req k) : (e.step op).1 = e := by
  obtain ⟨q1, q2, q3, q4, q5, q6, q7, q8⟩ := hq
  cases op with
  | req k => exact absurd rfl (hop k)
  | tick => rw [step_tick_eq, Cp.tick_nil q1 q4 q6]; rfl
  | takeDma k =>
    rcases takeDma_prog e k with h | h
    · exact h.2
    · simp only [CpEnv.step, cpMeasure, q3] at h; simp at h
  | takeCache k =>
    rcases takeCache_prog e k with h | h
    · exact h.2
    · simp only [CpEnv.step, cpMeasure, q5] at h; simp at h
  | takeDrv k =>
    rcases takeDrv_prog e k with h | h
    · exact h.2
    · simp only [CpEnv.step, cpMeasure, q2] at h; simp at h
  | ack j => simp only [CpEnv.step, q8]
  | rsp j => simp only [CpEnv.step, q7]

/-! ## infinite schedules -/

/-- the state after the first `i` moves of the infinite schedule `σ` -/
def cpRunSched (e : CpEnv) (σ : Nat → CpOp) : Nat → CpEnv
  | 0 => e
  | i + 1 => ((cpRunSched e σ i).step (σ i)).1

/-- A fair schedule without new requests: again and again the CP ticks, the DMA side, the caches and
    the driver each take at least one message (if there is one), a cache acknowledges some outstanding
    flush and the DMA engine answers some outstanding clone (if there is one; which one is arbitrary). -/
def CpFair (σ : Nat → CpOp) : Prop :=
  (∀ i k, σ i ≠ .req k) ∧
  ∀ i, (∃ j, i ≤ j ∧ σ j = .tick) ∧ (∃ j, i ≤ j ∧ ∃ k, 1 ≤ k ∧ σ j = .takeDma k) ∧
    (∃ j, i ≤ j ∧ ∃ k, 1 ≤ k ∧ σ j = .takeCache k) ∧ (∃ j, i ≤ j ∧ ∃ k, 1 ≤ k ∧ σ j = .takeDrv k) ∧
    (∃ j, i ≤ j ∧ ∃ x, σ j = .ack x) ∧ (∃ j, i ≤ j ∧ ∃ x, σ j = .rsp x)

theorem CpEnv.run_append (e : CpEnv) (a b : List CpOp) : e.run (a ++ b) = (e.run a).run b := by
  induction a generalizing e with
  | nil => rfl
  | cons op a ih => exact ih _

theorem cpRunSched_eq_run (e : CpEnv) (σ : Nat → CpOp) (i : Nat) :
    cpRunSched e σ i = e.run ((List.range i).map σ) := by
  induction i with
  | zero => rfl
  | succ i ih =>
    rw [List.range_succ, List.map_append, CpEnv.run_append, ← ih]
    rfl

/-- a state on a schedule from a reachable state is reachable -/
theorem cpRunSched_reach (n cin cdrv cdma ccache : Nat) (ops : List CpOp) (σ : Nat → CpOp) (i : Nat) :
    cpRunSched (reachCp n cin cdrv cdma ccache ops) σ i =
      reachCp n cin cdrv cdma ccache (ops ++ (List.range i).map σ) := by
  rw [cpRunSched_eq_run]
  unfold reachCp
  rw [CpEnv.run_append]

/-- once quiet, quiet for ever (no new requests) -/
theorem cpRunSched_quiet_const {e : CpEnv} {σ : Nat → CpOp} (hσ : ∀ i k, σ i ≠ .req k) {N : Nat}
    (hq : (cpRunSched e σ N).quiet) : ∀ d, cpRunSched e σ (N + d) = cpRunSched e σ N := by
  intro d
  induction d with
  | zero => rfl
  | succ d ih =>
    show ((cpRunSched e σ (N + d)).step (σ (N + d))).1 = _
    rw [ih]
    exact quiet_step hq _ (hσ _)

/-- on a fair schedule through good states: quiet now, or the measure drops later -/
theorem fair_quiet_or_drop {e : CpEnv} {σ : Nat → CpOp} (hσ : CpFair σ)
    (hg : ∀ i, CpGood (cpRunSched e σ i)) (hin : ∀ i, 1 ≤ (cpRunSched e σ i).s.capIn)
    (hdrv : ∀ i, 1 ≤ (cpRunSched e σ i).s.capDrv) (hdma : ∀ i, 1 ≤ (cpRunSched e σ i).s.capDma) (i : Nat) :
    (cpRunSched e σ i).quiet ∨ ∃ j, i ≤ j ∧ cpMeasure (cpRunSched e σ j) < cpMeasure (cpRunSched e σ i) := by
  by_cases h : ∃ j, i ≤ j ∧ cpMeasure (cpRunSched e σ j) < cpMeasure (cpRunSched e σ i)
  · exact .inr h
  · left
    have hconst : ∀ d, cpRunSched e σ (i + d) = cpRunSched e σ i := by
      intro d
      induction d with
      | zero => rfl
      | succ d ih =>
        have hp : Prog (cpRunSched e σ (i + d)) (cpRunSched e σ (i + d + 1)) := step_prog (hg _) _ (hσ.1 _)
        rcases hp with hp | hp
        · exact hp.trans ih
        · rw [ih] at hp
          exact absurd ⟨i + d + 1, by omega, hp⟩ h
    have hc : ∀ j, i ≤ j → cpRunSched e σ j = cpRunSched e σ i := by
      intro j hj
      have := hconst (j - i)
      rwa [show i + (j - i) = j by omega] at this
    -- a move scheduled at `j ≥ i` is a no-op in the state at `i`
    have hnoop : ∀ j, i ≤ j → ((cpRunSched e σ i).step (σ j)).1 = cpRunSched e σ i := by
      intro j hj
      have h1 : cpRunSched e σ (j + 1) = ((cpRunSched e σ j).step (σ j)).1 := rfl
      rw [hc j hj, hc (j + 1) (by omega)] at h1
      exact h1.symm
    have irr : ∀ {x : CpEnv}, x = cpRunSched e σ i → ¬ cpMeasure x < cpMeasure (cpRunSched e σ i) := by
      intro x hx; rw [hx]; exact Nat.lt_irrefl _
    obtain ⟨⟨j1, l1, s1⟩, ⟨j2, l2, k2, hk2, s2⟩, ⟨j3, l3, k3, hk3, s3⟩, ⟨j4, l4, k4, hk4, s4⟩,
      ⟨j5, l5, x5, s5⟩, ⟨j6, l6, x6, s6⟩⟩ := hσ.2 i
    have n1 := hnoop j1 l1; rw [s1] at n1
    have n2 := hnoop j2 l2; rw [s2] at n2
    have n3 := hnoop j3 l3; rw [s3] at n3
    have n4 := hnoop j4 l4; rw [s4] at n4
    have n5 := hnoop j5 l5; rw [s5] at n5
    have n6 := hnoop j6 l6; rw [s6] at n6
    refine no_deadlock_core (hg i) (hin i) (hdrv i) (hdma i) ?_ ?_ ?_ ?_ ?_ ?_
    · have := congrArg CpEnv.s n1
      rwa [step_tick_eq] at this
    · rcases takeDma_prog (cpRunSched e σ i) k2 with ⟨h | h, _⟩ | h
      · omega
      · exact h
      · exact absurd h (irr n2)
    · rcases takeCache_prog (cpRunSched e σ i) k3 with ⟨h | h, _⟩ | h
      · omega
      · exact h
      · exact absurd h (irr n3)
    · rcases takeDrv_prog (cpRunSched e σ i) k4 with ⟨h | h, _⟩ | h
      · omega
      · exact h
      · exact absurd h (irr n4)
    · rcases ack_prog (cpRunSched e σ i) x5 with ⟨h, _⟩ | h
      · exact h
      · exact absurd h (irr n5)
    · rcases rsp_prog (cpRunSched e σ i) x6 with ⟨h, _⟩ | h
      · exact h
      · exact absurd h (irr n6)

/-- on a fair schedule through good states a quiet state is reached -/
theorem fair_reaches_quiet {e : CpEnv} {σ : Nat → CpOp} (hσ : CpFair σ)
    (hg : ∀ i, CpGood (cpRunSched e σ i)) (hin : ∀ i, 1 ≤ (cpRunSched e σ i).s.capIn)
    (hdrv : ∀ i, 1 ≤ (cpRunSched e σ i).s.capDrv) (hdma : ∀ i, 1 ≤ (cpRunSched e σ i).s.capDma) :
    ∀ m i, cpMeasure (cpRunSched e σ i) ≤ m → ∃ N, i ≤ N ∧ (cpRunSched e σ N).quiet := by
  intro m
  induction m with
  | zero =>
    intro i hm
    rcases fair_quiet_or_drop hσ hg hin hdrv hdma i with h | ⟨j, _, hj⟩
    · exact ⟨i, Nat.le_refl _, h⟩
    · omega
  | succ m ih =>
    intro i hm
    rcases fair_quiet_or_drop hσ hg hin hdrv hdma i with h | ⟨j, hij, hj⟩
    · exact ⟨i, Nat.le_refl _, h⟩
    · obtain ⟨N, hN, hq⟩ := ih j (by omega)
      exact ⟨N, by omega, hq⟩

/-! ## a driver port without room (`cin = 0`) accepts nothing: every reachable state is the initial one -/

theorem run_cin0_quiet (ops : List CpOp) (e : CpEnv) (h0 : e.s.capIn = 0) (hq : e.quiet) : e.run ops = e := by
  induction ops with
  | nil => rfl
  | cons op ops ih =>
    have : (e.step op).1 = e := by
      by_cases hop : ∀ k, op ≠ .req k
      · exact quiet_step hq op hop
      · have : ∃ k, op = .req k := by
          cases op with
          | req k => exact ⟨k, rfl⟩
          | _ => exact absurd (fun k => by simp) hop
        obtain ⟨k, rfl⟩ := this
        simp only [CpEnv.step, h0, Nat.not_lt_zero, if_false]
    show ((e.step op).1).run ops = e
    rw [this]; exact ih

theorem reach_cin0_quiet (n cdrv cdma ccache : Nat) (ops : List CpOp) : (reachCp n 0 cdrv cdma ccache ops).quiet := by
  unfold reachCp
  rw [run_cin0_quiet ops _ rfl ⟨rfl, rfl, rfl, rfl, rfl, rfl, rfl, rfl⟩]
  exact ⟨rfl, rfl, rfl, rfl, rfl, rfl, rfl, rfl⟩

/-- from every reachable state every fair schedule reaches a quiet state and stays there -/
theorem reach_fair_quiet (n cin cdrv cdma ccache : Nat) (ops : List CpOp) (h2 : 1 ≤ cdrv) (h3 : 1 ≤ cdma)
    (h4 : n ≤ ccache) (σ : Nat → CpOp) (hσ : CpFair σ) :
    ∃ N, ∀ M, N ≤ M → (cpRunSched (reachCp n cin cdrv cdma ccache ops) σ M).quiet := by
  by_cases h1 : cin = 0
  · subst h1
    refine ⟨0, fun M _ => ?_⟩
    rw [cpRunSched_reach]
    exact reach_cin0_quiet ..
  · have hcaps := fun i => reach_caps n cin cdrv cdma ccache (ops ++ (List.range i).map σ)
    obtain ⟨N, _, hq⟩ := fair_reaches_quiet (e := reachCp n cin cdrv cdma ccache ops) hσ
      (fun i => by rw [cpRunSched_reach]; exact reach_good _ _ _ _ _ _ h4)
      (fun i => by rw [cpRunSched_reach, (hcaps i).1]; omega)
      (fun i => by rw [cpRunSched_reach, (hcaps i).2.1]; exact h2)
      (fun i => by rw [cpRunSched_reach, (hcaps i).2.2]; exact h3) _ 0 (Nat.le_refl _)
    refine ⟨N, fun M hM => ?_⟩
    have := cpRunSched_quiet_const hσ.1 hq (M - N)
    rw [show N + (M - N) = M by omega] at this
    rw [this]; exact hq

/-! ## the number of productive moves is bounded by the measure -/

/-- number of moves of the run that change the state -/
def cpProductive (e : CpEnv) : List CpOp → Nat
  | [] => 0
  | op :: rest => (if (e.step op).1 = e then 0 else 1) + cpProductive (e.step op).1 rest

theorem CpGood.step {e : CpEnv} (hg : CpGood e) (op : CpOp) : CpGood (e.step op).1 := hg.steps (step_steps e op)

theorem productive_le_measure (l : List CpOp) (hl : ∀ op ∈ l, ∀ k, op ≠ .req k) {e : CpEnv} (hg : CpGood e) :
    cpProductive e l ≤ cpMeasure e := by
  induction l generalizing e with
  | nil => exact Nat.zero_le _
  | cons op l ih =>
    have ih' := ih (fun o ho => hl o (List.mem_cons_of_mem _ ho)) (hg.step op)
    rcases step_prog hg op (hl op List.mem_cons_self) with h | h
    · simp only [cpProductive, h, if_true, Nat.zero_add]
      rw [h] at ih'; exact ih'
    · simp only [cpProductive]
      split <;> omega

/-! ## a fair schedule -/

/-- round robin: tick, the DMA side takes one, the caches take one, the driver takes one, the oldest
    outstanding cache flush is acknowledged, the oldest outstanding clone is answered -/
def cpRoundRobin (i : Nat) : CpOp :=
  match i % 6 with
  | 0 => .tick
  | 1 => .takeDma 1
  | 2 => .takeCache 1
  | 3 => .takeDrv 1
  | 4 => .ack 0
  | _ => .rsp 0

theorem cpRoundRobin_at (i r : Nat) : cpRoundRobin (6 * i + r) = cpRoundRobin r := by
  unfold cpRoundRobin
  rw [Nat.mul_add_mod]

theorem cpRoundRobin_fair : CpFair cpRoundRobin := by
  constructor
  · intro i k
    unfold cpRoundRobin
    split <;> simp
  · intro i
    refine ⟨⟨6 * i + 0, by omega, ?_⟩, ⟨6 * i + 1, by omega, 1, Nat.le_refl _, ?_⟩,
      ⟨6 * i + 2, by omega, 1, Nat.le_refl _, ?_⟩, ⟨6 * i + 3, by omega, 1, Nat.le_refl _, ?_⟩,
      ⟨6 * i + 4, by omega, 0, ?_⟩, ⟨6 * i + 5, by omega, 0, ?_⟩⟩ <;>
    (rw [cpRoundRobin_at]; rfl)

/-! ## the hypotheses are needed: states that wait for ever -/

/-- a state in which every move other than a new request is a no-op stays as it is for ever -/
theorem cpRunSched_stuck {e : CpEnv} (ht : (e.step .tick).1 = e) (h1 : e.s.dmaOut = []) (h2 : e.s.cacheOut = [])
    (h3 : e.s.drvOut = []) (h4 : e.atCaches = []) (h5 : e.atDma = []) {σ : Nat → CpOp} (hσ : ∀ i k, σ i ≠ .req k) :
    ∀ M, cpRunSched e σ M = e := by
  intro M
  induction M with
  | zero => rfl
  | succ M ih =>
    show ((cpRunSched e σ M).step (σ M)).1 = e
    rw [ih]
    have := hσ M
    cases hop : σ M with
    | req k => exact absurd hop (this k)
    | tick => exact ht
    | takeDma k =>
      rcases takeDma_prog e k with h | h
      · exact h.2
      · simp only [CpEnv.step, cpMeasure, h1] at h; simp at h
    | takeCache k =>
      rcases takeCache_prog e k with h | h
      · exact h.2
      · simp only [CpEnv.step, cpMeasure, h2] at h; simp at h
    | takeDrv k =>
      rcases takeDrv_prog e k with h | h
      · exact h.2
      · simp only [CpEnv.step, cpMeasure, h3] at h; simp at h
    | ack j => simp only [CpEnv.step, h4]
    | rsp j => simp only [CpEnv.step, h5]

/-- a fault is for ever, and a request in the driver port of a faulted CP stays there -/
theorem step_fault_stuck (e : CpEnv) (op : CpOp) (x : String) (hf : e.s.fault = some x) (hd : e.s.drvIn ≠ []) :
    (e.step op).1.s.fault = some x ∧ (e.step op).1.s.drvIn ≠ [] := by
  cases op with
  | req k =>
    simp only [CpEnv.step]
    split
    · exact ⟨hf, by simp⟩
    · exact ⟨hf, hd⟩
  | tick =>
    have : e.s.tick.1 = e.s := by unfold Cp.tick; rw [hf]; rfl
    rw [step_tick_eq, CpEnv.withS_s, this]
    exact ⟨hf, hd⟩
  | takeDma k => exact ⟨hf, hd⟩
  | takeCache k => exact ⟨hf, hd⟩
  | takeDrv k => exact ⟨hf, hd⟩
  | ack j =>
    simp only [CpEnv.step]
    split
    · exact ⟨hf, hd⟩
    · split <;> exact ⟨hf, hd⟩
  | rsp j =>
    simp only [CpEnv.step]
    split
    · exact ⟨hf, hd⟩
    · split
      · exact ⟨hf, hd⟩
      · split <;> exact ⟨hf, hd⟩

theorem cpRunSched_fault_stuck {e : CpEnv} {x : String} (hf : e.s.fault = some x) (hd : e.s.drvIn ≠ [])
    (σ : Nat → CpOp) : ∀ M, (cpRunSched e σ M).s.fault = some x ∧ (cpRunSched e σ M).s.drvIn ≠ [] := by
  intro M
  induction M with
  | zero => exact ⟨hf, hd⟩
  | succ M ih => exact step_fault_stuck _ _ x ih.1 ih.2

/-! ## statements about reachable states, as used by the property theorems -/

theorem step_sent (e : CpEnv) (op : CpOp) (hop : ∀ k, op ≠ .req k) : (e.step op).1.sent = e.sent := by
  cases op with
  | req k => exact absurd rfl (hop k)
  | tick => rfl
  | takeDma k => rfl
  | takeCache k => rfl
  | takeDrv k => rfl
  | ack j =>
    simp only [CpEnv.step]
    split
    · rfl
    · split <;> rfl
  | rsp j =>
    simp only [CpEnv.step]
    split
    · rfl
    · split
      · rfl
      · split <;> rfl

theorem cpRunSched_sent (e : CpEnv) {σ : Nat → CpOp} (hσ : ∀ i k, σ i ≠ .req k) (M : Nat) :
    (cpRunSched e σ M).sent = e.sent := by
  induction M with
  | zero => rfl
  | succ M ih => exact (step_sent _ _ (hσ M)).trans ih

/-- quiet reachable state, no fault possible: every accepted request was answered exactly once -/
theorem reach_quiet_perm (n cin cdrv cdma ccache : Nat) (ops : List CpOp) (h4 : n ≤ ccache)
    (hq : (reachCp n cin cdrv cdma ccache ops).quiet) :
    (reachCp n cin cdrv cdma ccache ops).s.fault = none ∧
    (reachCp n cin cdrv cdma ccache ops).drained.Perm (reachCp n cin cdrv cdma ccache ops).sent := by
  have hf := (reach_all n cin cdrv cdma ccache ops).2.2.2 h4
  exact ⟨hf, (reach_all n cin cdrv cdma ccache ops).1.quiet_perm hq hf
    (run_nodrop ops _ (by intro ev hev; cases hev))⟩

/-- a reachable state in which none of the six kinds of move changes anything is quiet -/
theorem reach_no_deadlock (n cin cdrv cdma ccache : Nat) (ops : List CpOp) (h2 : 1 ≤ cdrv) (h3 : 1 ≤ cdma)
    (h4 : n ≤ ccache) (e : CpEnv) (he : e = reachCp n cin cdrv cdma ccache ops)
    (n1 : (e.step .tick).1 = e) (n2 : (e.step (.takeDma 1)).1 = e) (n3 : (e.step (.takeCache 1)).1 = e)
    (n4 : (e.step (.takeDrv 1)).1 = e) (n5 : (e.step (.ack 0)).1 = e) (n6 : (e.step (.rsp 0)).1 = e) : e.quiet := by
  by_cases h1 : cin = 0
  · subst h1; rw [he]; exact reach_cin0_quiet ..
  · obtain ⟨c1, c2, c3⟩ := reach_caps n cin cdrv cdma ccache ops
    rw [← he] at c1 c2 c3
    have hg : CpGood e := by rw [he]; exact reach_good _ _ _ _ _ _ h4
    have irr : ∀ {x : CpEnv}, x = e → ¬ cpMeasure x < cpMeasure e := by
      intro x hx; rw [hx]; exact Nat.lt_irrefl _
    refine no_deadlock_core hg (by omega) (by omega) (by omega) ?_ ?_ ?_ ?_ ?_ ?_
    · have := congrArg CpEnv.s n1
      rwa [step_tick_eq] at this
    · rcases takeDma_prog e 1 with ⟨h | h, _⟩ | h
      · omega
      · exact h
      · exact absurd h (irr n2)
    · rcases takeCache_prog e 1 with ⟨h | h, _⟩ | h
      · omega
      · exact h
      · exact absurd h (irr n3)
    · rcases takeDrv_prog e 1 with ⟨h | h, _⟩ | h
      · omega
      · exact h
      · exact absurd h (irr n4)
    · rcases ack_prog e 0 with ⟨h, _⟩ | h
      · exact h
      · exact absurd h (irr n5)
    · rcases rsp_prog e 0 with ⟨h, _⟩ | h
      · exact h
      · exact absurd h (irr n6)

end C11
