import MgpuProofs.C02BarEmu
/-! C02 (barriers) — helper lemmas, part 3: the per-wavefront relation between a wavefront of the
work-group on the timing compute unit and the emulator's segment of the current barrier phase
(`WRel`), and its preservation by every event `wgstep` lets the wavefront take. -/
namespace C02.Bar
open C02.Wf

/-! ## what `tstep` can do to the phase of a wavefront -/

/-- a wavefront that has stopped with nothing in flight only receives fetch responses -/
theorem tstep_of_done {P : Prog} {gate} {s s' : TState} {e : Ev} (hph : s.ph = .done) (hv : s.vq = [])
    (hs : s.sq = []) (h : tstep P gate s e = some s') (hne : isEnv e = false) :
    s'.ph = .done ∧ s'.vq = [] ∧ s'.sq = [] ∧ s'.regs = s.regs ∧ s'.trace = s.trace ∧ s'.mem = s.mem := by
  cases e with
  | env a v => simp [isEnv] at hne
  | fetch =>
    simp only [tstep] at h
    split at h
    · rename_i hc; exact absurd hph hc.2.1
    · cases h
  | fetchRet =>
    simp only [tstep] at h
    split at h
    · cases h
    · split at h <;> cases h <;> exact ⟨hph, hv, hs, rfl, rfl, rfl⟩
  | resync =>
    simp only [tstep] at h
    split at h
    · cases h; exact ⟨hph, hv, hs, rfl, rfl, rfl⟩
    · cases h
  | decode =>
    simp only [tstep] at h
    split at h
    · cases h
    · split at h
      · rename_i hc; rw [hph] at hc; exact absurd hc.2.1 (by decide)
      · cases h
  | issue =>
    simp only [tstep] at h
    split at h
    · cases h
    · split at h
      · rename_i hc; rw [hph] at hc; exact absurd hc.1 (by decide)
      · cases h
  | exec =>
    simp only [tstep] at h
    split at h
    · cases h
    · split at h
      · rename_i hc; rw [hph] at hc; cases hc
      · cases h
  | complete =>
    simp only [tstep] at h
    split at h
    · cases h
    · rename_i i _
      cases hk : i.kind <;> simp only [hk] at h
      · split at h
        · rename_i hc; rw [hph] at hc; cases hc
        · cases h
      · split at h
        · rename_i hc; rw [hph] at hc; cases hc
        · cases h
      · cases h
      · cases h
      · cases h
      · split at h
        · rename_i hc; rw [hph] at hc; exact absurd hc.1 (by decide)
        · cases h
      · split at h
        · rename_i hc; rw [hph] at hc; cases hc
        · cases h
      · split at h
        · rename_i hc; rw [hph] at hc; exact absurd hc.1 (by decide)
        · cases h
  | serveV k => simp [tstep, hv] at h
  | serveS k => simp [tstep, hs] at h
  | retV => simp [tstep, hv] at h
  | retS k => simp [tstep, hs] at h

/-- the only way into `.done` is the `complete` event of an instruction of kind `.endpgm` -/
theorem tstep_ph_done {P : Prog} {gate} {s s' : TState} {e : Ev} (h : tstep P gate s e = some s')
    (hd : s'.ph = .done) (hnd : s.ph ≠ .done) :
    e = .complete ∧ s.ph = .issued ∧ s'.trace = s.trace ∧ ∃ i, s.cur = some i ∧ i.kind = .endpgm := by
  have adv : ∀ (t : TState) (i : Inst), advance t i = some s' → False := by
    intro t i ha
    rw [advance_ph ha] at hd; cases hd
  have sr : ∀ (t : TState), setReady t = some s' → False := by
    intro t ha
    obtain ⟨st, ib, _, rfl⟩ := setReady_eq _ _ ha
    cases hd
  cases e with
  | env a v =>
    simp only [tstep] at h; split at h <;> cases h; exact absurd hd hnd
  | fetch => simp only [tstep] at h; split at h <;> cases h; exact absurd hd hnd
  | fetchRet =>
    simp only [tstep] at h
    split at h
    · cases h
    · split at h <;> cases h <;> exact absurd hd hnd
  | resync => simp only [tstep] at h; split at h <;> cases h; exact absurd hd hnd
  | decode =>
    simp only [tstep] at h
    split at h
    · cases h
    · split at h
      · split at h <;> cases h; exact absurd hd hnd
      · cases h
  | issue =>
    simp only [tstep] at h
    split at h
    · cases h
    · split at h <;> cases h; cases hd
  | exec =>
    simp only [tstep] at h
    split at h
    · cases h
    · rename_i i _
      split at h
      · cases hk : i.kind <;> simp only [hk] at h
        · split at h <;> cases h <;> cases hd
        · cases h; cases hd
        · split at h
          · split at h
            · cases h
            · exact (adv _ _ h).elim
          · exact (adv _ _ h).elim
        · split at h
          · split at h
            · cases h
            · exact (adv _ _ h).elim
          · exact (adv _ _ h).elim
        · exact (adv _ _ h).elim
        · cases h
        · cases h
        · cases h
      · cases h
  | complete =>
    simp only [tstep] at h
    split at h
    · cases h
    · rename_i i hcur
      cases hk : i.kind <;> simp only [hk] at h
      · split at h
        · split at h
          · exact (sr _ h).elim
          · exact (adv _ _ h).elim
        · cases h
      · split at h <;> cases h; cases hd
      · cases h
      · cases h
      · cases h
      · split at h
        · exact (adv _ _ h).elim
        · cases h
      · split at h
        · exact (adv _ _ h).elim
        · cases h
      · split at h
        · rename_i hc
          cases h
          exact ⟨rfl, hc.1, rfl, i, hcur, hk⟩
        · cases h
  | serveV k =>
    simp only [tstep] at h
    split at h
    · cases h
    · split at h
      · cases h
      · split at h <;> cases h <;> exact absurd hd hnd
  | serveS k =>
    simp only [tstep] at h
    split at h
    · cases h
    · split at h <;> cases h; exact absurd hd hnd
  | retV =>
    simp only [tstep] at h
    split at h
    · cases h
    · split at h <;> cases h; exact absurd hd hnd
  | retS k =>
    simp only [tstep] at h
    split at h
    · cases h
    · split at h <;> cases h; exact absurd hd hnd

/-! ## the simulation invariant under changes it does not look at -/

theorem inv_mem_change {P : Prog} (hP : P.WF) {s : TState} {E : EState} {H : HState} (hinv : Inv P s E H)
    (m' : Mem) (hag : ∀ a, P.own a = true → m' a = s.mem a) : Inv P { s with mem := m' } E H := by
  have hwf := pend_wf hP hinv
  refine ⟨hinv.c, ?_, ?_, hinv.f, hinv.p, hinv.pdec⟩
  · apply hinv.r.mem_change hwf
    intro p hp _ _ b hb
    exact (hag b ((hinv.pdec p hp).2.1 b hb)).symm
  · constructor
    · intro a ha hall
      show E.mem a = m' a
      rw [hag a ha]
      exact hinv.m.m1 a ha hall
    · intro p hp hst hsv a ha
      rw [hinv.m.m2 p hp hst hsv a ha]
      exact (hwf p (List.mem_append_left _ hp)).st_dep hst p.r0 p.r0 s.mem m' a (fun _ _ => rfl) ha

/-- with nothing in flight and the wavefront stopped, the invariant does not look at `cur` or the
    instruction buffer beyond "the buffer is a window of instruction memory" -/
theorem inv_fetch_fields {P : Prog} {s : TState} {E : EState} {H : HState} (hinv : Inv P s E H)
    (st : Nat) (ib : List Nat) (f : Option Nat)
    (hib : ∀ k (h : k < ib.length), ib[k] = P.imem (st + k)) :
    Inv P { s with ibStart := st, ib := ib, fetching := f } E H :=
  ⟨hinv.c, hinv.r, hinv.m, ⟨hib, hinv.f.tok⟩, hinv.p, hinv.pdec⟩

theorem invc_drained {vm lgkm : Nat} {vq sq : List Pend} {H : HState} (hc : InvC vm lgkm vq sq H)
    (hpv : H.pv = []) (hps : H.ps = []) : vm = 0 ∧ lgkm = 0 := by
  have hv : vq = [] := by
    have := hc.vsuf
    rw [hpv] at this
    have h2 := List.eq_nil_of_suffix_nil this
    simpa using h2
  have hs : sq = [] := by
    cases sq with
    | nil => rfl
    | cons p ps =>
      have := hc.smem p (List.mem_cons_self ..)
      rw [hps] at this
      cases this
  have h1 := hc.cvm
  have h2 := hc.clgkm
  rw [hv] at h1 h2
  rw [hs] at h2
  exact ⟨h1, h2⟩

/-! ## the per-wavefront relation -/

/-- wavefront on the timing side (`T`, `pk` = waits at the barrier) against the emulator's wavefront `we`
    as it stands at the START of the current phase, `mk` being the memory at the start of the phase:
    * a wavefront that had ended before the phase: its final registers and instruction sequence;
    * otherwise the simulation relation with the emulator's segment of this phase run ALONE from `mk`
      under the phase's ownership `Q`; a wavefront waiting at the barrier has stopped behind a barrier
      instruction and the emulator's PC is behind that instruction; a wavefront that stopped otherwise
      did not stop at a barrier. -/
def WRel (g : WG) (Q : Prog) (we : EWf) (mk : Mem) (pk : Bool) (T : TState) : Prop :=
  (we.E.done = true → pk = false ∧ T.ph = .done ∧ T.vq = [] ∧ T.sq = [] ∧ T.regs = we.E.regs ∧
    T.trace = we.E.trace) ∧
  (we.E.done = false → ∃ (n : Nat) (E : EState) (H : HState),
    ehrun Q n ({ we.E with mem := mk }, {}) = some (E, H) ∧ Inv Q T E H ∧
    (pk = true → T.ph = .done ∧ g.bars (T.trace.getLastD 0) = true ∧
      ∃ i, T.cur = some i ∧ E.pc = pcAdd T.pc i.size) ∧
    (pk = false → T.ph = .done → g.bars (T.trace.getLastD 0) = false))

theorem wrel_mem_change {g : WG} {Q : Prog} (hQ : Q.WF) {we : EWf} {mk : Mem} {pk : Bool} {T : TState}
    (h : WRel g Q we mk pk T) (m' : Mem) (hag : ∀ a, Q.own a = true → m' a = T.mem a) :
    WRel g Q we mk pk { T with mem := m' } := by
  refine ⟨h.1, ?_⟩
  intro hd
  obtain ⟨n, E, H, hrun, hinv, h1, h2⟩ := h.2 hd
  exact ⟨n, E, H, hrun, inv_mem_change hQ hinv m' hag, h1, h2⟩

/-- an ordinary event of a wavefront that is not at the barrier (and is not the arrival at one) -/
theorem wrel_tstep (g : WG) {P : Prog} (hP : P.WF) (o wo : Nat → Bool) (gate : TState → Inst → Bool)
    (hfuel : Nat) (we : EWf) (mk : Mem) {s s' : TState} {e : Ev}
    (hhaz : we.E.done = false → hazardFreeRun (withOwn P o wo) hfuel ({ we.E with mem := mk }, {}) = true)
    (hrel : WRel g (withOwn P o wo) we mk false s)
    (ht : tstep P gate s e = some s') (hne : isEnv e = false)
    (hnb : ¬ (e = .complete ∧ s.ph = .issued ∧ isBar g s = true)) :
    WRel g (withOwn P o wo) we mk false s' ∧
      ∀ a, s'.mem a ≠ s.mem a → we.E.done = false ∧ wo a = true := by
  have hQ := withOwn_wf hP o wo
  cases hd : we.E.done with
  | true =>
    obtain ⟨_, hph, hv, hs, hr, htr⟩ := hrel.1 hd
    obtain ⟨h1, h2, h3, h4, h5, h6⟩ := tstep_of_done hph hv hs ht hne
    refine ⟨⟨fun _ => ⟨rfl, h1, h2, h3, by rw [h4, hr], by rw [h5, htr]⟩, fun h => (by rw [hd] at h; cases h)⟩, ?_⟩
    intro a ha
    rw [h6] at ha
    exact absurd rfl ha
  | false =>
    obtain ⟨n, E, H, hrun, hinv, _, hx⟩ := hrel.2 hd
    have ht' : tstep (withOwn P o wo) gate s e = some s' := by rw [tstep_withOwn _ _ _ _ _ _ hne]; exact ht
    obtain ⟨n', E', H', hrun', hinv'⟩ := sim_step hQ (hhaz hd) e ⟨n, E, H, hrun, hinv⟩ ht'
    refine ⟨⟨fun h => (by rw [hd] at h; cases h), fun _ => ⟨n', E', H', hrun', hinv', fun h => (by cases h), ?_⟩⟩, ?_⟩
    · intro _ hd'
      by_cases hsd : s.ph = .done
      · have hp := hinv.p
        rw [hsd] at hp
        simp only [InvP] at hp
        obtain ⟨_, _, _, _, h5, _⟩ := tstep_of_done hsd hp.2.2.1 hp.2.2.2 ht hne
        rw [h5]
        exact hx rfl hsd
      · obtain ⟨he, hiss, htr, i, hcur, hk⟩ := tstep_ph_done ht hd' hsd
        have hp := hinv.p
        rw [hiss] at hp
        simp only [InvP] at hp
        obtain ⟨i', _, _, _, htr', _⟩ := hp
        rw [htr, htr']
        simp only [List.getLastD_eq_getLast?, List.getLast?_append, List.getLast?_singleton, Option.some_or,
          Option.getD_some]
        cases hb : g.bars s.pc with
        | false => rfl
        | true =>
          exfalso
          apply hnb
          refine ⟨he, hiss, ?_⟩
          unfold isBar
          simp [hcur, hk, hb]
    · intro a ha
      refine ⟨rfl, ?_⟩
      rcases tstep_mem ht hne with hm | ⟨k, p, hk, hpst, hm⟩
      · rw [hm] at ha; exact absurd rfl ha
      · have hpv : p ∈ s.vq := List.mem_of_getElem? hk
        obtain ⟨⟨l, hl⟩, _, hpw⟩ := hinv.pdec p (List.mem_append_left _ hpv)
        cases hfa : p.inst.fp p.r0 a with
        | true => exact hpw hpst a hfa
        | false =>
          rw [hm, (hQ.inst l _ hl).1.st_frame hpst p.r0 s.mem a hfa] at ha
          exact absurd rfl ha

/-- an event of a wavefront waiting at the barrier: only the instruction buffer moves -/
theorem wrel_parkedStep (g : WG) {P : Prog} (o wo : Nat → Bool) (gate : TState → Inst → Bool)
    (we : EWf) (mk : Mem) {s s' : TState} {e : Ev}
    (hrel : WRel g (withOwn P o wo) we mk true s) (ht : parkedStep P gate s e = some s') :
    WRel g (withOwn P o wo) we mk true s' ∧ s'.mem = s.mem := by
  cases hd : we.E.done with
  | true => have := (hrel.1 hd).1; cases this
  | false =>
    obtain ⟨n, E, H, hrun, hinv, hx, _⟩ := hrel.2 hd
    obtain ⟨hph, hbar, i, hcur, hpc⟩ := hx rfl
    have hp := hinv.p
    rw [hph] at hp
    simp only [InvP] at hp
    obtain ⟨_, _, hv, hs⟩ := hp
    have key : ∀ (st : Nat) (ib : List Nat) (f : Option Nat),
        (∀ k (h : k < ib.length), ib[k] = P.imem (st + k)) →
        s' = { s with ibStart := st, ib := ib, fetching := f } →
        WRel g (withOwn P o wo) we mk true s' ∧ s'.mem = s.mem := by
      intro st ib f hib he
      subst he
      refine ⟨⟨fun h => (by rw [hd] at h; cases h), fun _ => ⟨n, E, H, hrun, inv_fetch_fields hinv st ib f hib, ?_, fun h => (by cases h)⟩⟩, rfl⟩
      intro _
      exact ⟨hph, hbar, i, hcur, hpc⟩
    cases e with
    | fetch =>
      simp only [parkedStep] at ht
      split at ht
      · cases ht
        apply key _ _ _ _ rfl
        intro k hk
        by_cases he : s.ib = []
        · simp [he] at hk
        · simp only [he, if_false]
          exact hinv.f.ibok k hk
      · cases ht
    | fetchRet =>
      simp only [parkedStep, tstep] at ht
      split at ht
      · cases ht
      · rename_i a _
        split at ht
        · cases ht
          apply key s.ibStart (s.ib ++ P.window a 64) none _ rfl
          intro k hk
          by_cases hlt : k < s.ib.length
          · rw [List.getElem_append_left hlt]
            exact hinv.f.ibok k hlt
          · rw [List.getElem_append_right (by omega)]
            simp only [Prog.window, List.getElem_map, List.getElem_range]
            rename_i ha
            show P.imem _ = P.imem _
            congr 1
            omega
        · cases ht
          exact key s.ibStart s.ib none hinv.f.ibok rfl
    | serveV k => simp [parkedStep, tstep, hv] at ht
    | serveS k => simp [parkedStep, tstep, hs] at ht
    | retV => simp [parkedStep, tstep, hv] at ht
    | retS k => simp [parkedStep, tstep, hs] at ht
    | resync => simp [parkedStep] at ht
    | decode => simp [parkedStep] at ht
    | issue => simp [parkedStep] at ht
    | exec => simp [parkedStep] at ht
    | complete => simp [parkedStep] at ht
    | env a v => simp [parkedStep] at ht

/-- arrival at the barrier: the emulator executes the barrier instruction; by the "drained" hypothesis
    nothing is in flight, so the wavefront stops exactly as `s_endpgm` would stop it -/
theorem wrel_park (g : WG) {Q : Prog} (hfuel : Nat) (we : EWf) (mk : Mem) {s : TState}
    (hhaz : we.E.done = false → hazardFreeRun Q hfuel ({ we.E with mem := mk }, {}) = true ∧
      drainedRun Q g.bars hfuel ({ we.E with mem := mk }, {}) = true)
    (hrel : WRel g Q we mk false s) (hph : s.ph = .issued) (hb : isBar g s = true) :
    WRel g Q we mk true { s with ph := .done } := by
  cases hd : we.E.done with
  | true => have := (hrel.1 hd).2.1; rw [hph] at this; cases this
  | false =>
    refine ⟨fun h => (by rw [hd] at h; cases h), fun _ => ?_⟩
    obtain ⟨n, E, H, hrun, hinv, _, _⟩ := hrel.2 hd
    obtain ⟨hfr, hdr⟩ := hhaz hd
    have hp := hinv.p
    rw [hph] at hp
    simp only [InvP] at hp
    obtain ⟨i, hcur, hi, hpc, htr, hdE⟩ := hp
    have hib : isBar g s = (decide (i.kind = .endpgm) && g.bars s.pc) := by unfold isBar; rw [hcur]
    rw [hib] at hb
    simp only [Bool.and_eq_true, decide_eq_true_eq] at hb
    obtain ⟨hk, hbars⟩ := hb
    obtain ⟨y, hy⟩ := hfr_next Q hfuel _ n (E, H) hfr hrun hdE
    have hrun' := ehrun_snoc Q n _ (E, H) y hrun hy
    obtain ⟨hpv, hps⟩ := drained_at Q g.bars hfuel _ n (E, H) hfr hdr hrun hdE i (by rw [hpc]; exact hi) hk
      (by rw [hpc]; exact hbars)
    obtain ⟨hvm, hlg⟩ := invc_drained hinv.c hpv hps
    obtain ⟨hv0, hs0, hc0⟩ := hinv.c.done hvm hlg
    unfold ehstep at hy
    simp only [hdE, Bool.false_eq_true, if_false, hpc, hi] at hy
    cases hh : hstep false Q.oldCU H i (i.fpl E.regs) (i.noTxn E.regs) with
    | none => simp [hh] at hy
    | some H' =>
      cases he : estep Q E with
      | none => simp [hh, he] at hy
      | some E' =>
        simp only [hh, he] at hy
        split at hy
        · cases hy
          have hE' := estep_eq he (by rw [hpc]; exact hi) hdE
          simp only [hk] at hE'
          subst hE'
          have hH' : H' = {} := by
            unfold hstep at hh; simp only [hk] at hh; cases hh; rfl
          subst hH'
          have hti := toIssue_none_of_not_ready hinv (by rw [hph]; decide)
          refine ⟨n + 1, _, _, hrun', ⟨hc0, hinv.r, hinv.m, ⟨hinv.f.ibok, ?_⟩, ?_, hinv.pdec⟩, ?_, fun h => (by cases h)⟩
          · intro j hj; rw [hti] at hj; cases hj
          · show InvP Q .done s.cur s.pc s.trace s.vq s.sq _
            exact ⟨rfl, by show s.trace = E.trace ++ [E.pc]; rw [hpc]; exact htr, hv0, hs0⟩
          · intro _
            refine ⟨rfl, ?_, i, hcur, by show pcAdd E.pc i.size = pcAdd s.pc i.size; rw [hpc]⟩
            show g.bars (s.trace.getLastD 0) = true
            rw [htr]
            simp only [List.getLastD_eq_getLast?, List.getLast?_append, List.getLast?_singleton, Option.some_or,
              Option.getD_some]
            exact hbars
        · cases hy

end C02.Bar
