import MgpuProofs.C14Frame
/-! # C14 — the wait counters against the really outstanding accesses

`Tracked`: every counter equals the number of outstanding instructions whose *last-transaction*
response has not arrived — an invariant of every consistently annotated run (`grun_Tracked`), in any
response order. `AllLast`: under in-order returns every outstanding instruction still waits for its
last-transaction response (`grun_AllLast`), so the counters equal the number of really outstanding
instructions. Evaluation rounds never touch the counters (`foldl_SubL`), so the equalities hold at
every `s_waitcnt` / `s_endpgm` evaluated inside `EvaluateInternalInst`. -/
namespace C14

/-- instructions of a queue whose last-transaction response is outstanding -/
def countLast (q : List Acc) : Nat := (q.filter (·.lastPending)).length

/-- the counters of state `s` against the ghost `g` -/
def TrackedS (g : Nat → GWf) (s : State) : Prop :=
  ∀ w ∈ s.wfs, w.ovc = (countLast (g w.id).qv : Int) ∧
    w.osc = (countLast (g w.id).qv : Int) + (countLast (g w.id).qs : Int)

def Tracked (gs : GState) : Prop := TrackedS gs.g gs.s

/-- every outstanding instruction still waits for the response of its last transaction -/
def AllLast (g : Nat → GWf) : Prop :=
  ∀ i, (∀ a ∈ (g i).qv, a.lastPending = true) ∧ (∀ a ∈ (g i).qs, a.lastPending = true)

theorem countLast_all {q : List Acc} (h : ∀ a ∈ q, a.lastPending = true) : countLast q = q.length := by
  unfold countLast
  rw [List.filter_eq_self.mpr]
  intro a ha
  exact h a ha

theorem countLast_append_one (q : List Acc) (n : Nat) : countLast (q ++ [⟨n, true⟩]) = countLast q + 1 := by
  unfold countLast
  simp [List.filter_append]

/-- a consistent response: the count of pending last-transaction responses drops exactly when the
    response is one -/
theorem accRet_count (q : List Acc) (k : Nat) (last : Bool) (a : Acc) (hk : q[k]? = some a)
    (hok : (if last then a.lastPending else decide (a.rest > 0)) = true) :
    countLast q = countLast (accRet q k last) + (if last then 1 else 0) := by
  induction q generalizing k with
  | nil => simp at hk
  | cons b q ih =>
    cases k with
    | zero =>
      simp only [List.getElem?_cons_zero, Option.some.injEq] at hk
      subst hk
      unfold accRet
      cases last with
      | true =>
        simp only [if_true] at hok
        simp only [if_true]
        split
        · simp [countLast, hok]
        · simp [countLast, hok]
      | false =>
        simp only [Bool.false_eq_true, if_false, decide_eq_true_eq] at hok
        simp only [Bool.false_eq_true, if_false, Nat.add_zero]
        split
        · rename_i h
          simp [countLast, h.2]
        · cases hb : b.lastPending <;> simp [countLast, hb]
    | succ k =>
      simp only [List.getElem?_cons_succ] at hk
      have := ih k hk
      unfold accRet
      unfold countLast at this ⊢
      cases hb : b.lastPending
      · simp only [List.filter_cons, hb, Bool.false_eq_true, if_false]; exact this
      · simp only [List.filter_cons, hb, if_true, List.length_cons]; omega

/-- an in-order response keeps `AllLast` and removes an instruction exactly when it is the response of
    its last transaction -/
theorem accRet_inorder (q : List Acc) (last : Bool) (a : Acc) (hk : q[0]? = some a)
    (hall : ∀ b ∈ q, b.lastPending = true) (hord : last = true → a.rest = 0) :
    (∀ b ∈ accRet q 0 last, b.lastPending = true) := by
  cases q with
  | nil => simp at hk
  | cons b q =>
    simp only [List.getElem?_cons_zero, Option.some.injEq] at hk
    subst hk
    have hb := hall b List.mem_cons_self
    have hq : ∀ x ∈ q, x.lastPending = true := fun x hx => hall x (List.mem_cons_of_mem _ hx)
    unfold accRet
    cases last with
    | true =>
      have := hord rfl
      simp only [if_true, this, true_and]
      exact hq
    | false =>
      simp only [Bool.false_eq_true, if_false]
      split
      · rename_i h
        exact absurd (hb.symm.trans h.2) (by decide)
      · intro x hx
        rcases List.mem_cons.mp hx with e | e
        · rw [e]; exact hb
        · exact hq x e

/-! ## events that do not touch the counters -/

/-- every wavefront of `l'` has the identity and the counters of a wavefront of `l` -/
def SubL (l l' : List Wf) : Prop := ∀ v' ∈ l', ∃ v ∈ l, v'.id = v.id ∧ v'.osc = v.osc ∧ v'.ovc = v.ovc

theorem SubL_refl (l : List Wf) : SubL l l := fun v hv => ⟨v, hv, rfl, rfl, rfl⟩

theorem SubL_trans {a b c : List Wf} (h1 : SubL a b) (h2 : SubL b c) : SubL a c := by
  intro v'' hv''
  obtain ⟨v', hv', e1, e2, e3⟩ := h2 v'' hv''
  obtain ⟨v, hv, f1, f2, f3⟩ := h1 v' hv'
  exact ⟨v, hv, e1.trans f1, e2.trans f2, e3.trans f3⟩

theorem SubL_map (l : List Wf) (F : Wf → Wf)
    (hF : ∀ v, (F v).id = v.id ∧ (F v).osc = v.osc ∧ (F v).ovc = v.ovc) : SubL l (l.map F) := by
  intro v' hv'
  obtain ⟨v, hv, rfl⟩ := List.mem_map.mp hv'
  exact ⟨v, hv, hF v⟩

theorem SubL_upd (l : List Wf) (i : Nat) (f : Wf → Wf)
    (hf : ∀ v, (f v).id = v.id ∧ (f v).osc = v.osc ∧ (f v).ovc = v.ovc) : SubL l (updWf l i f) := by
  apply SubL_map
  intro v
  split
  · exact hf v
  · exact ⟨rfl, rfl, rfl⟩

theorem TrackedS_sub {g : Nat → GWf} {s s' : State} (h : TrackedS g s) (hs : SubL s.wfs s'.wfs) :
    TrackedS g s' := by
  intro v' hv'
  obtain ⟨v, hv, e1, e2, e3⟩ := hs v' hv'
  rw [e1, e2, e3]
  exact h v hv

theorem evalInst_SubL (c : Cfg) (s : State) (w : Wf) : SubL s.wfs (evalInst c s w).s.wfs := by
  obtain ⟨F, hF, hP, _⟩ := evalInst_frame c s w
  rw [hF]
  exact SubL_map _ F (fun v => ⟨(hP v).1, (hP v).2.2.2.2.1, (hP v).2.2.2.2.2.1⟩)

theorem finishOne_wfs' (i g : Nat) (e : Ev) : (finishOne i g e).wfs = e.s.wfs := by
  unfold finishOne
  simp only
  split <;> split <;> rfl

theorem evalOne_SubL (c : Cfg) (sp : State × Bool) (j : Nat) : SubL sp.1.wfs (evalOne c sp j).1.wfs := by
  unfold evalOne
  split
  · exact SubL_refl _
  · split
    · exact SubL_refl _
    · rename_i w _
      split
      · exact SubL_refl _
      · show SubL sp.1.wfs (finishOne j w.wg (evalInst c sp.1 w)).wfs
        rw [finishOne_wfs']
        exact evalInst_SubL c sp.1 w

theorem foldl_SubL (c : Cfg) (l : List Nat) (sp : State × Bool) :
    SubL sp.1.wfs (l.foldl (evalOne c) sp).1.wfs := by
  induction l generalizing sp with
  | nil => exact SubL_refl _
  | cons j l ih => exact SubL_trans (evalOne_SubL c sp j) (ih _)

theorem wfComp_SubL (c : Cfg) (s : State) (i : Nat) : SubL s.wfs (wfComp c s i).1.wfs := by
  have h1 : SubL s.wfs (updWf s.wfs i complete) := SubL_upd _ _ _ (fun _ => ⟨rfl, rfl, rfl⟩)
  unfold wfComp
  split
  · exact SubL_refl _
  · simp only
    split
    · split
      · refine SubL_trans h1 ?_
        unfold clearPool
        apply SubL_map
        intro v
        split <;> exact ⟨rfl, rfl, rfl⟩
      · exact h1
    · exact h1

/-- an event that is not a counted memory issue / return leaves the counters alone -/
theorem step_SubL (c : Cfg) (s : State) (o : Op) (h : respOK ⟨s, fun _ => ⟨[], []⟩⟩ (.plain o) = true) :
    SubL s.wfs (step c s o).1.wfs := by
  cases o with
  | eval => exact foldl_SubL c _ _
  | wfComp i => exact wfComp_SubL c s i
  | drain k => exact SubL_refl _
  | memIssue i v => simp [respOK] at h
  | memRet i k l =>
    simp only [respOK, decide_eq_true_eq] at h
    apply SubL_upd
    intro v
    unfold memRetWf
    split
    · exact ⟨rfl, rfl, rfl⟩
    · rw [if_neg (by omega), if_neg (by omega), if_neg (by omega)]
      exact ⟨rfl, rfl, rfl⟩
  | issue i op lk vm => exact SubL_upd _ _ _ (fun _ => ⟨rfl, rfl, rfl⟩)
  | issueUnit i => exact SubL_upd _ _ _ (fun _ => ⟨rfl, rfl, rfl⟩)
  | unitDone i => exact SubL_upd _ _ _ (fun _ => ⟨rfl, rfl, rfl⟩)

theorem respOK_plain_indep (gs : GState) (o : Op) :
    respOK gs (.plain o) = respOK ⟨gs.s, fun _ => ⟨[], []⟩⟩ (.plain o) := by
  cases o <;> rfl

/-! ## the invariants along annotated runs -/

theorem gstep_Tracked (c : Cfg) (gs : GState) (o : GOp) (h : Tracked gs) (hok : respOK gs o = true) :
    Tracked (gstep c gs o) := by
  cases o with
  | plain o =>
    rw [respOK_plain_indep] at hok
    exact TrackedS_sub h (step_SubL c gs.s o hok)
  | memIssue i v n =>
    intro w' hw'
    obtain ⟨w, hw, rfl⟩ := mem_updWf.mp hw'
    have hT := h w hw
    by_cases hi : w.id = i
    · subst hi
      simp only [if_true]
      cases v with
      | true =>
        simp only [gstep, if_true, gIssue, countLast_append_one]
        constructor
        · show w.ovc + 1 = _; rw [hT.1]; omega
        · show w.osc + 1 = _; rw [hT.2]; omega
      | false =>
        simp only [gstep, Bool.false_eq_true, if_false, if_true, gIssue, countLast_append_one]
        constructor
        · show w.ovc = _; exact hT.1
        · show w.osc + 1 = _; rw [hT.2]; omega
    · simp only [if_neg hi, gstep]
      exact hT
  | memRet i kind k last =>
    simp only [respOK, Bool.and_eq_true, Bool.or_eq_true, beq_iff_eq] at hok
    obtain ⟨hkind, hent⟩ := hok
    intro w' hw'
    obtain ⟨w, hw, rfl⟩ := mem_updWf.mp hw'
    have hT := h w hw
    by_cases hi : w.id = i
    · subst hi
      have hid : (memRetWf kind last w).id = w.id := (memRetWf_fields kind last w).1
      simp only [if_true, gstep, hid]
      cases hq : (pathQueue (gs.g w.id) kind)[k]? with
      | none => rw [hq] at hent; cases hent
      | some a =>
        rw [hq] at hent
        simp only at hent
        have hcnt := accRet_count _ k last a hq hent
        rcases hkind with (h0 | h1) | h3
        · have hp : pathQueue (gs.g w.id) kind = (gs.g w.id).qv := by simp [pathQueue, h0]
          rw [hp] at hcnt
          simp only [gRet, h0, true_or, if_true, memRetWf]
          cases last with
          | true =>
            simp only [Bool.not_true, Bool.false_eq_true, if_false, if_true] at hcnt ⊢
            constructor
            · show w.ovc - 1 = _; rw [hT.1, hcnt]; omega
            · show w.osc - 1 = _; rw [hT.2, hcnt]; omega
          | false =>
            simp only [Bool.not_false, if_true, Bool.false_eq_true, if_false, Nat.add_zero] at hcnt ⊢
            rw [← hcnt]; exact hT
        · have hp : pathQueue (gs.g w.id) kind = (gs.g w.id).qv := by simp [pathQueue, h1]
          rw [hp] at hcnt
          simp only [gRet, h1, or_true, if_true, memRetWf]
          cases last with
          | true =>
            simp only [Bool.not_true, Bool.false_eq_true, if_false, if_true] at hcnt ⊢
            constructor
            · show w.ovc - 1 = _; rw [hT.1, hcnt]; omega
            · show w.osc - 1 = _; rw [hT.2, hcnt]; omega
          | false =>
            simp only [Bool.not_false, if_true, Bool.false_eq_true, if_false, Nat.add_zero] at hcnt ⊢
            rw [← hcnt]; exact hT
        · have hp : pathQueue (gs.g w.id) kind = (gs.g w.id).qs := by simp [pathQueue, h3]
          rw [hp] at hcnt
          have e1 : ¬ ((3 : Nat) = 0 ∨ (3 : Nat) = 1) := by decide
          have e2 : ¬ ((3 : Nat) = 2) := by decide
          simp only [gRet, h3, e1, e2, if_false, if_true, memRetWf]
          cases last with
          | true =>
            simp only [Bool.not_true, Bool.false_eq_true, if_false, if_true] at hcnt ⊢
            constructor
            · show w.ovc = _; exact hT.1
            · show w.osc - 1 = _; rw [hT.2, hcnt]; omega
          | false =>
            simp only [Bool.not_false, if_true, Bool.false_eq_true, if_false, Nat.add_zero] at hcnt ⊢
            rw [← hcnt]; exact hT
    · simp only [if_neg hi, gstep]
      exact hT

theorem gstep_AllLast (c : Cfg) (gs : GState) (o : GOp) (h : AllLast gs.g) (hok : respOK gs o = true)
    (hin : inOrder gs o = true) : AllLast (gstep c gs o).g := by
  cases o with
  | plain o => exact h
  | memIssue i v n =>
    intro j
    simp only [gstep]
    by_cases hj : j = i
    · subst hj
      simp only [if_true, gIssue]
      cases v with
      | true =>
        simp only [if_true]
        refine ⟨?_, (h j).2⟩
        intro a ha
        rcases List.mem_append.mp ha with e | e
        · exact (h j).1 a e
        · simp only [List.mem_singleton] at e; rw [e]
      | false =>
        simp only [Bool.false_eq_true, if_false]
        refine ⟨(h j).1, ?_⟩
        intro a ha
        rcases List.mem_append.mp ha with e | e
        · exact (h j).2 a e
        · simp only [List.mem_singleton] at e; rw [e]
    · simp only [if_neg hj]; exact h j
  | memRet i kind k last =>
    simp only [respOK, Bool.and_eq_true, Bool.or_eq_true, beq_iff_eq] at hok
    obtain ⟨hkind, hent⟩ := hok
    simp only [inOrder, Bool.and_eq_true, beq_iff_eq, Bool.or_eq_true, Bool.not_eq_true'] at hin
    obtain ⟨hk0, hlast⟩ := hin
    subst hk0
    intro j
    simp only [gstep]
    by_cases hj : j = i
    · subst hj
      simp only [if_true]
      cases hq : (pathQueue (gs.g j) kind)[0]? with
      | none => rw [hq] at hent; cases hent
      | some a =>
        rw [hq] at hlast
        have hord : last = true → a.rest = 0 := by
          intro hl
          rcases hlast with e | e
          · rw [hl] at e; cases e
          · simpa using e
        rcases hkind with (h0 | h1) | h3
        · have hp : pathQueue (gs.g j) kind = (gs.g j).qv := by simp [pathQueue, h0]
          rw [hp] at hq
          simp only [gRet, h0, true_or, if_true]
          exact ⟨accRet_inorder _ last a hq (h j).1 hord, (h j).2⟩
        · have hp : pathQueue (gs.g j) kind = (gs.g j).qv := by simp [pathQueue, h1]
          rw [hp] at hq
          simp only [gRet, h1, or_true, if_true]
          exact ⟨accRet_inorder _ last a hq (h j).1 hord, (h j).2⟩
        · have hp : pathQueue (gs.g j) kind = (gs.g j).qs := by simp [pathQueue, h3]
          rw [hp] at hq
          have e1 : ¬ ((3 : Nat) = 0 ∨ (3 : Nat) = 1) := by decide
          simp only [gRet, h3, e1, if_false, if_true]
          exact ⟨(h j).1, accRet_inorder _ last a hq (h j).2 hord⟩
    · simp only [if_neg hj]; exact h j

theorem grun_Tracked (c : Cfg) (ops : List GOp) (gs : GState) (h : Tracked gs)
    (hok : respOKRun c gs ops = true) : Tracked (grun c gs ops) := by
  unfold grun
  induction ops generalizing gs with
  | nil => exact h
  | cons o ops ih =>
    simp only [respOKRun, Bool.and_eq_true] at hok
    exact ih _ (gstep_Tracked c gs o h hok.1) hok.2

theorem grun_AllLast (c : Cfg) (ops : List GOp) (gs : GState) (h : AllLast gs.g)
    (hok : respOKRun c gs ops = true) (hin : inOrderRun c gs ops = true) : AllLast (grun c gs ops).g := by
  unfold grun
  induction ops generalizing gs with
  | nil => exact h
  | cons o ops ih =>
    simp only [respOKRun, Bool.and_eq_true] at hok
    simp only [inOrderRun, Bool.and_eq_true] at hin
    exact ih _ (gstep_AllLast c gs o h hok.1 hin.1) hok.2 hin.2

/-- the scheduler component of a ghost run is the plain run on the erased events -/
theorem grun_erase (c : Cfg) (ops : List GOp) (gs : GState) :
    (grun c gs ops).s = run c gs.s (ops.map GOp.erase) := by
  unfold grun run
  induction ops generalizing gs with
  | nil => rfl
  | cons o ops ih => exact ih _

/-- nothing outstanding, counters zero -/
def GFresh (gs : GState) : Prop :=
  (∀ w ∈ gs.s.wfs, w.osc = 0 ∧ w.ovc = 0) ∧ ∀ i, gs.g i = ⟨[], []⟩

theorem GFresh_inv {gs : GState} (h : GFresh gs) : Tracked gs ∧ AllLast gs.g := by
  constructor
  · intro w hw
    rw [h.2 w.id, (h.1 w hw).1, (h.1 w hw).2]
    exact ⟨rfl, rfl⟩
  · intro i
    have := h.2 i
    constructor
    · intro a ha; rw [this] at ha; cases ha
    · intro a ha; rw [this] at ha; cases ha

/-- counters = really outstanding instructions, in a tracked state where every outstanding
    instruction still waits for its last-transaction response -/
theorem truth_of {g : Nat → GWf} {s : State} (ht : TrackedS g s) (ha : AllLast g) {w : Wf} (hw : w ∈ s.wfs) :
    w.ovc = ((g w.id).trueVM : Int) ∧ w.osc = ((g w.id).trueLGKM : Int) := by
  have := ht w hw
  rw [countLast_all (ha w.id).1, countLast_all (ha w.id).2] at this
  unfold GWf.trueVM GWf.trueLGKM
  exact ⟨this.1, by rw [this.2]; omega⟩

end C14
