import MgpuModel.C18
/-! Helper lemmas for C18: the channel invariant and its preservation by every step. -/
namespace C18

def FwdRec.toTx (f : FwdRec) : Tx := ⟨f.orig, f.out.fid⟩
def AnsRec.toTx (a : AnsRec) : Tx := ⟨a.orig, a.fid⟩

/-- Invariant of one channel; `route` is the address table the channel forwards with. -/
structure CInv (route : Nat → Option Nat) (c : Chan) : Prop where
  fidLt : ∀ f ∈ c.fwd, f.out.fid < c.nextF
  fidNodup : (c.fwd.map (·.out.fid)).Nodup
  idLt : ∀ x ∈ c.reqIn.map (·.id) ++ c.fwd.map (·.orig.id), x < c.nextA
  idNodup : (c.reqIn.map (·.id) ++ c.fwd.map (·.orig.id)).Nodup
  faithful : ∀ f ∈ c.fwd, f.out.pl = f.orig.pl ∧ route (addrOf f.orig.pl) = some f.out.dst
  ansOk : ∀ a ∈ c.ans, a.out.rspTo = a.orig.id ∧ a.out.dst = a.orig.src ∧
      ∃ r ∈ c.del, r.rspTo = a.fid ∧ r.data = a.out.data ∧ r.bad = false
  conserve : (c.fwd.map FwdRec.toTx).Perm (c.ans.map AnsRec.toTx ++ c.tx)
  rspDel : ∀ r ∈ c.rspIn, r ∈ c.del

theorem cinv_init (route : Nat → Option Nat) : CInv route {} := by
  constructor <;> simp

theorem clonePl_id (p : Payload) : clonePl p = p := by
  cases p <;> rfl

theorem extract_perm {fid : Nat} : ∀ {l : List Tx} {t : Tx} {r : List Tx},
    extract fid l = some (t, r) → l.Perm (t :: r) ∧ t.fid = fid := by
  intro l
  induction l with
  | nil => intro t r h; simp [extract] at h
  | cons x xs ih =>
    intro t r h
    unfold extract at h
    split at h
    · next hx =>
      simp only [Option.some.injEq, Prod.mk.injEq] at h
      obtain ⟨h1, h2⟩ := h
      subst h1; subst h2
      exact ⟨List.Perm.refl _, hx⟩
    · split at h
      · simp at h
      · next g r' he =>
        simp only [Option.some.injEq, Prod.mk.injEq] at h
        obtain ⟨h1, h2⟩ := h
        subst h1; subst h2
        have := ih he
        exact ⟨(List.Perm.cons x this.1).trans (List.Perm.swap _ _ _), this.2⟩

/-- `fwdStep` keeps the invariant. -/
theorem cinv_fwdStep (route : Nat → Option Nat) (cap : Nat) (c : Chan) (h : CInv route c) :
    CInv route (fwdStep route cap c).1 := by
  unfold fwdStep
  split
  · exact h
  · next r rest hin =>
    split
    · exact { h with }
    · next hbad =>
      split
      · exact { h with }
      · next dst hr =>
        split
        · -- the forward
          have hidLt := h.idLt
          have hidN := h.idNodup
          rw [hin] at hidLt hidN
          simp only [List.map_cons, List.cons_append] at hidLt hidN
          have hperm : (rest.map (·.id) ++ r.id :: c.fwd.map (·.orig.id)).Perm
              (r.id :: (rest.map (·.id) ++ c.fwd.map (·.orig.id))) := List.perm_middle
          constructor
          · intro f hf
            simp only [List.mem_cons] at hf
            rcases hf with rfl | hf
            · simp
            · have := h.fidLt f hf; simp only; omega
          · simp only [List.map_cons, List.nodup_cons]
            refine ⟨?_, h.fidNodup⟩
            intro hm
            rcases List.mem_map.mp hm with ⟨f, hf, he⟩
            have := h.fidLt f hf
            omega
          · intro x hx
            simp only [List.map_cons] at hx
            exact hidLt x ((hperm.mem_iff).mp hx)
          · simp only [List.map_cons]
            exact (hperm.nodup_iff).mpr hidN
          · intro f hf
            simp only [List.mem_cons] at hf
            rcases hf with rfl | hf
            · exact ⟨clonePl_id _, hr⟩
            · exact h.faithful f hf
          · exact h.ansOk
          · simp only [List.map_cons, FwdRec.toTx]
            have h1 := List.Perm.cons (⟨r, c.nextF⟩ : Tx) h.conserve
            refine h1.trans ?_
            rw [← List.append_assoc]
            exact (List.perm_append_singleton _ _).symm
          · exact h.rspDel
        · exact h

/-- `rspStep` keeps the invariant. -/
theorem cinv_rspStep (route : Nat → Option Nat) (cap : Nat) (c : Chan) (h : CInv route c) :
    CInv route (rspStep cap c).1 := by
  unfold rspStep
  split
  · exact h
  · next r rest hin =>
    split
    · exact { h with }
    · next hbad =>
      split
      · exact { h with }
      · next t tx' he =>
        split
        · have hp := extract_perm he
          have hdel : r ∈ c.del := h.rspDel r (by rw [hin]; simp)
          constructor
          · exact h.fidLt
          · exact h.fidNodup
          · exact h.idLt
          · exact h.idNodup
          · exact h.faithful
          · intro a ha
            simp only [List.mem_cons] at ha
            rcases ha with rfl | ha
            · refine ⟨rfl, rfl, r, hdel, hp.2.symm, rfl, ?_⟩
              simpa using hbad
            · exact h.ansOk a ha
          · simp only [List.map_cons, AnsRec.toTx, List.cons_append]
            have h2 : (c.ans.map AnsRec.toTx ++ c.tx).Perm (t :: (c.ans.map AnsRec.toTx ++ tx')) :=
              (List.Perm.append_left _ hp.1).trans List.perm_middle
            exact h.conserve.trans h2
          · intro x hx
            exact h.rspDel x (by rw [hin]; exact List.mem_cons_of_mem _ hx)
        · exact h

theorem cinv_l1Loop (route : Nat → Option Nat) (cap : Nat) :
    ∀ (n : Nat) (c : Chan) (p : Bool), CInv route c → CInv route (l1Loop route cap n c p).1 := by
  intro n
  induction n with
  | zero => intro c p h; exact h
  | succ n ih =>
    intro c p h
    unfold l1Loop
    split
    · exact h
    · simp only
      split
      · exact ih _ _ (cinv_fwdStep route cap c h)
      · exact cinv_fwdStep route cap c h

theorem cinv_deliverReq (route : Nat → Option Nat) (cap : Nat) (c : Chan) (src : Nat) (pl : Payload)
    (h : CInv route c) : CInv route (deliverReq cap c src pl) := by
  unfold deliverReq
  split
  · have hperm : ((c.reqIn ++ [(⟨c.nextA, src, pl⟩ : Req)]).map (fun r : Req => r.id) ++ c.fwd.map (·.orig.id)).Perm
        (c.nextA :: (c.reqIn.map (·.id) ++ c.fwd.map (·.orig.id))) := by
      simp only [List.map_append, List.map_cons, List.map_nil, List.append_assoc, List.singleton_append]
      exact List.perm_middle
    constructor
    · exact h.fidLt
    · exact h.fidNodup
    · intro x hx
      have := (hperm.mem_iff).mp hx
      simp only [List.mem_cons] at this
      rcases this with rfl | hm
      · simp
      · have := h.idLt x hm; simp only; omega
    · refine (hperm.nodup_iff).mpr ?_
      simp only [List.nodup_cons]
      refine ⟨?_, h.idNodup⟩
      intro hm
      have := h.idLt _ hm
      omega
    · exact h.faithful
    · exact h.ansOk
    · exact h.conserve
    · exact h.rspDel
  · constructor
    · exact h.fidLt
    · exact h.fidNodup
    · intro x hx
      have := h.idLt x hx; simp only; omega
    · exact h.idNodup
    · exact h.faithful
    · exact h.ansOk
    · exact h.conserve
    · exact h.rspDel

theorem cinv_deliverRsp (route : Nat → Option Nat) (cap : Nat) (c : Chan) (r : Rsp)
    (h : CInv route c) : CInv route (deliverRsp cap c r) := by
  unfold deliverRsp
  split
  · constructor
    · exact h.fidLt
    · exact h.fidNodup
    · exact h.idLt
    · exact h.idNodup
    · exact h.faithful
    · intro a ha
      obtain ⟨h1, h2, x, hx, h3⟩ := h.ansOk a ha
      exact ⟨h1, h2, x, List.mem_cons_of_mem _ hx, h3⟩
    · exact h.conserve
    · intro x hx
      simp only [List.mem_append, List.mem_singleton] at hx
      rcases hx with hx | rfl
      · exact List.mem_cons_of_mem _ (h.rspDel x hx)
      · exact List.mem_cons_self
  · exact h

theorem cinv_tailReqOut (route : Nat → Option Nat) (c : Chan) (h : CInv route c) :
    CInv route { c with reqOut := c.reqOut.tail } := { h with }

theorem cinv_tailRspOut (route : Nat → Option Nat) (c : Chan) (h : CInv route c) :
    CInv route { c with rspOut := c.rspOut.tail } := { h with }

/-! ### Lifting predicates through `guard` and `iter` -/

theorem pres_guard (P : St → Prop) (f : St → St × Bool) (hf : ∀ s, P s → P (f s).1) :
    ∀ s, P s → P (guard f s).1 := by
  intro s hs
  unfold guard
  split
  · exact hs
  · exact hf s hs

theorem pres_iter (P : St → Prop) (f : St → St × Bool) (hf : ∀ s, P s → P (f s).1) :
    ∀ n s, P s → P (iter f n s).1 := by
  intro n
  induction n with
  | zero => intro s hs; exact hs
  | succ n ih => intro s hs; exact ih _ (hf s hs)

/-- the state invariant: both channels are consistent -/
def Inv (c : Cfg) (s : St) : Prop := CInv (routeOut c) s.io ∧ CInv (routeIn c) s.oi

theorem ctrlStep_io (cap : Nat) (s : St) : (ctrlStep cap s).1.io = s.io ∧ (ctrlStep cap s).1.oi = s.oi := by
  unfold ctrlStep
  split
  · exact ⟨rfl, rfl⟩
  · exact ⟨rfl, rfl⟩
  · split
    · exact ⟨rfl, rfl⟩
    · split <;> exact ⟨rfl, rfl⟩
  · exact ⟨rfl, rfl⟩

theorem drainStep_io (cap : Nat) (s : St) : (drainStep cap s).1.io = s.io ∧ (drainStep cap s).1.oi = s.oi := by
  unfold drainStep
  split
  · split
    · exact ⟨rfl, rfl⟩
    · split <;> exact ⟨rfl, rfl⟩
  · exact ⟨rfl, rfl⟩

theorem ctrlPhase_io (c : Cfg) (s : St) : (ctrlPhase c s).1.io = s.io ∧ (ctrlPhase c s).1.oi = s.oi := by
  unfold ctrlPhase
  simp only
  have h1 := ctrlStep_io c.cap s
  split
  · unfold guard
    split
    · exact h1
    · have h2 := drainStep_io c.cap (ctrlStep c.cap s).1
      exact ⟨h2.1.trans h1.1, h2.2.trans h1.2⟩
  · exact h1

theorem inv_fromL1 (c : Cfg) (s : St) (h : Inv c s) : Inv c (fromL1 c s).1 := by
  unfold fromL1
  split
  · exact h
  · exact ⟨cinv_l1Loop _ _ _ _ _ h.1, h.2⟩

theorem inv_dataPhase (c : Cfg) (s : St) (h : Inv c s) : Inv c (dataPhase c s).1 := by
  unfold dataPhase
  simp only
  apply pres_iter (Inv c) _ (pres_guard (Inv c) _ ?_)
  · apply pres_iter (Inv c) _ (pres_guard (Inv c) _ ?_)
    · apply pres_iter (Inv c) _ (pres_guard (Inv c) _ ?_)
      · exact pres_iter (Inv c) _ (pres_guard (Inv c) _ (inv_fromL1 c)) _ _ h
      · intro s hs; exact ⟨hs.1, cinv_rspStep _ _ _ hs.2⟩
    · intro s hs; exact ⟨hs.1, cinv_fwdStep _ _ _ hs.2⟩
  · intro s hs; exact ⟨cinv_rspStep _ _ _ hs.1, hs.2⟩

theorem inv_tick (c : Cfg) (s : St) (h : Inv c s) : Inv c (tick c s).1 := by
  unfold tick
  simp only
  apply inv_dataPhase
  have := ctrlPhase_io c s
  unfold Inv
  rw [this.1, this.2]
  exact h

theorem inv_step (c : Cfg) (s : St) (o : Op) (h : Inv c s) : Inv c (step c s o) := by
  cases o with
  | reqI src pl => exact ⟨cinv_deliverReq _ _ _ _ _ h.1, h.2⟩
  | reqO src pl => exact ⟨h.1, cinv_deliverReq _ _ _ _ _ h.2⟩
  | rspI r => exact ⟨cinv_deliverRsp _ _ _ _ h.1, h.2⟩
  | rspO r => exact ⟨h.1, cinv_deliverRsp _ _ _ _ h.2⟩
  | ctl k =>
    simp only [step]
    split <;> exact h
  | tick => exact inv_tick c s h
  | takeFwdI => exact ⟨cinv_tailReqOut _ _ h.1, h.2⟩
  | takeFwdO => exact ⟨h.1, cinv_tailReqOut _ _ h.2⟩
  | takeAnsI => exact ⟨cinv_tailRspOut _ _ h.1, h.2⟩
  | takeAnsO => exact ⟨h.1, cinv_tailRspOut _ _ h.2⟩
  | takeCtl => exact h

theorem inv_run (c : Cfg) (ops : List Op) : Inv c (run c ops) := by
  unfold run
  have : ∀ (ops : List Op) (s : St), Inv c s → Inv c (ops.foldl (step c) s) := by
    intro ops
    induction ops with
    | nil => intro s hs; exact hs
    | cons o os ih => intro s hs; exact ih _ (inv_step c s o hs)
  exact this ops {} ⟨cinv_init _, cinv_init _⟩

/-! ### Consequences of the channel invariant -/

theorem cinv_ans_nodup {route : Nat → Option Nat} {c : Chan} (h : CInv route c) :
    (c.ans.map (·.orig.id)).Nodup ∧ (c.fwd.map (·.orig.id)).Nodup := by
  have hf : (c.fwd.map (·.orig.id)).Nodup := (List.nodup_append.mp h.idNodup).2.1
  refine ⟨?_, hf⟩
  have hp := h.conserve.map (fun t : Tx => t.orig.id)
  simp only [List.map_append, List.map_map] at hp
  have hf' : (List.map ((fun t : Tx => t.orig.id) ∘ FwdRec.toTx) c.fwd).Nodup := by
    simpa [Function.comp_def, FwdRec.toTx] using hf
  have := (hp.nodup_iff).mp hf'
  have := (List.nodup_append.mp this).1
  simpa [Function.comp_def, AnsRec.toTx] using this

theorem cinv_ans_forwarded {route : Nat → Option Nat} {c : Chan} (h : CInv route c) :
    ∀ a ∈ c.ans, ∃ f ∈ c.fwd, f.orig = a.orig ∧ f.out.fid = a.fid := by
  intro a ha
  have hm : a.toTx ∈ c.ans.map AnsRec.toTx ++ c.tx :=
    List.mem_append_left _ (List.mem_map_of_mem ha)
  have := (h.conserve.mem_iff).mpr hm
  rcases List.mem_map.mp this with ⟨f, hf, he⟩
  refine ⟨f, hf, ?_, ?_⟩
  · have := congrArg Tx.orig he; simpa [FwdRec.toTx, AnsRec.toTx] using this
  · have := congrArg Tx.fid he; simpa [FwdRec.toTx, AnsRec.toTx] using this

theorem cinv_tx_forwarded {route : Nat → Option Nat} {c : Chan} (h : CInv route c) :
    ∀ t ∈ c.tx, ∃ f ∈ c.fwd, f.orig = t.orig ∧ f.out.fid = t.fid := by
  intro t ht
  have hm : t ∈ c.ans.map AnsRec.toTx ++ c.tx := List.mem_append_right _ ht
  have := (h.conserve.mem_iff).mpr hm
  rcases List.mem_map.mp this with ⟨f, hf, he⟩
  refine ⟨f, hf, ?_, ?_⟩
  · have := congrArg Tx.orig he; simpa [FwdRec.toTx] using this
  · have := congrArg Tx.fid he; simpa [FwdRec.toTx] using this

theorem cinv_ansfid_nodup {route : Nat → Option Nat} {c : Chan} (h : CInv route c) :
    (c.ans.map (·.fid) ++ c.tx.map (·.fid)).Nodup := by
  have hp := h.conserve.map (fun t : Tx => t.fid)
  simp only [List.map_append, List.map_map] at hp
  have hf' : (List.map ((fun t : Tx => t.fid) ∘ FwdRec.toTx) c.fwd).Nodup := by
    simpa [Function.comp_def, FwdRec.toTx] using h.fidNodup
  have := (hp.nodup_iff).mp hf'
  simpa [Function.comp_def, AnsRec.toTx] using this

end C18
