import MgpuProofs.C09Tie1
/-! # C09 — `TI` (residents tied to held work-groups, shapes constant) through the completion half of
    `Tick`, the command processor's tick, and every run. -/
namespace C09

theorem nodup_fst_eq {β : Type} (l : List (Nat × β)) (h : (l.map (·.1)).Nodup) (a : Nat) (b b' : β)
    (h1 : (a, b) ∈ l) (h2 : (a, b') ∈ l) : b = b' := by
  induction l with
  | nil => cases h1
  | cons x xs ih =>
    simp only [List.map_cons, List.nodup_cons] at h
    rcases List.mem_cons.1 h1 with e1 | e1 <;> rcases List.mem_cons.1 h2 with e2 | e2
    · rw [← e1] at e2; injection e2 with _ e; exact e.symm
    · exfalso; apply h.1; rw [← e1]; exact List.mem_map.2 ⟨(a, b'), e2, rfl⟩
    · exfalso; apply h.1; rw [← e2]; exact List.mem_map.2 ⟨(a, b), e1, rfl⟩
    · exact ih h.2 e1 e2

/-- the owner consumes one completion: the work-group leaves the CU and the in-flight list together -/
theorem completeOne_TI {S} (cp : CP) (i id : Nat) (hdc : DCI cp) (h : TI S cp) : TI S (completeOne cp i id) := by
  unfold completeOne
  cases hfind : (cp.disp i).inflight.find? (·.1 = id) with
  | none => simp only [hfind]; exact h
  | some xdl =>
    obtain ⟨x, dl⟩ := xdl
    simp only [hfind]
    have hx : x = id := by
      have := List.find?_some hfind; simpa using this
    have hmem : (x, dl) ∈ (cp.disp i).inflight := List.mem_of_find?_eq_some hfind
    subst hx
    cases hf : free (cp.pool.getD dl.cu default) dl.key with
    | none =>
      simp only []
      refine ⟨h.shapes, ?_⟩
      intro hfault
      simp [CP.setDisp] at hfault
    | some cu' =>
      simp only []
      have hsh := free_shapes _ _ _ hf
      have hri := free_resident_iff _ _ _ hf
      refine ⟨?_, ?_⟩
      · show (cp.pool.set dl.cu cu').map CU.shapes = S
        rw [shapes_set _ _ _ hsh]; exact h.shapes
      · intro hfault c e he
        have hfault0 : cp.fault = none := hfault
        have he' : e ∈ ((cp.pool.set dl.cu cu').getD c default).resident := he
        rw [getD_set_cu] at he'
        -- the old entry and why its holder is not the completed request
        have hold : e ∈ (cp.pool.getD c default).resident ∧ ¬ (c = dl.cu ∧ e.1 = dl.key) := by
          split at he'
          · rename_i hc
            obtain ⟨a, b⟩ := (hri e).1 he'
            rw [hc.1]; exact ⟨a, fun x => b x.2⟩
          · rename_i hc
            refine ⟨he', fun x => ?_⟩
            -- c = dl.cu but dl.cu out of range: the CU is the default one, without residents
            have hlt : ¬ dl.cu < cp.pool.length := fun y => hc ⟨x.1, y⟩
            have : cp.pool.getD c default = default := by
              rw [x.1]; simp only [List.getD_eq_getElem?_getD]
              rw [List.getElem?_eq_none (by omega)]; rfl
            rw [this] at he'; cases he'
        obtain ⟨j, dl', h1, h2, h3⟩ := h.tied hfault0 c e hold.1
        have hne : dl' ≠ dl := by
          intro e'; subst e'; exact hold.2 ⟨h1.symm, h2.symm⟩
        refine ⟨j, dl', h1, h2, ?_⟩
        unfold Holds at h3 ⊢
        rw [disp_setDisp]
        split
        · rename_i hc; obtain ⟨rfl, _⟩ := hc
          rcases h3 with ⟨r, h3⟩ | h3
          · left
            refine ⟨r, List.mem_filter.2 ⟨h3, ?_⟩⟩
            simp only [ne_eq, decide_eq_true_eq]
            intro hr; subst hr
            exact hne (nodup_fst_eq _ (hdc i).ids _ _ _ h3 hmem)
          · exact Or.inr h3
        · exact h3

theorem consume_TI {S} (i : Nat) : ∀ (ids : List Nat) (cp : CP), DCI cp → TI S cp →
    TI S (consume i ids cp).1 := by
  intro ids
  induction ids with
  | nil => intro cp _ h; exact h
  | cons id ids ih =>
    intro cp hdc h
    simp only [consume]
    split
    · exact ih _ (completeOne_DCI cp i id hdc) (completeOne_TI cp i id hdc h)
    · exact ih cp hdc h

theorem procMsgs_TI {S} (i : Nat) : ∀ (n : Nat) (cp : CP), DCI cp → TI S cp → TI S (procMsgs i n cp).1 := by
  intro n
  induction n with
  | zero => intro cp _ h; exact h
  | succ n ih =>
    intro cp hdc h
    unfold procMsgs
    cases hcu : cp.cuIn with
    | nil => exact h
    | cons ids rest =>
      simp only []
      have d1 := consume_DCI i ids cp hdc
      have h1 := consume_TI i ids cp hdc h
      split
      · exact h
      · split
        · exact h1
        · split
          · exact ih { (consume i ids cp).1 with cuIn := rest } d1
              (TI_frame _ _ h1 rfl (fun x => x) (fun j => ⟨rfl, rfl⟩))
          · exact TI_frame _ _ h1 rfl (fun x => x) (fun j => ⟨rfl, rfl⟩)

theorem completeKernel_TI {S} (cp : CP) (i : Nat) (h : TI S cp) : TI S (completeKernel cp i).1 := by
  unfold completeKernel
  cases hk : (cp.disp i).kern with
  | none => simp only [hk]; exact h
  | some k =>
    simp only [hk]
    by_cases hr : cp.drvRoom = 0
    · simp only [hr, if_true]; exact h
    · simp only [hr, if_false]
      exact TI_frame cp _ h rfl (fun x => x) (setDisp_holds _ i _ rfl rfl)

theorem dispTick_TI {S} (cp : CP) (i : Nat) (hdc : DCI cp) (h : TI S cp) : TI S (dispTick cp i).1 := by
  have key : ∀ r1 : CP × Bool, DCI r1.1 → TI S r1.1 →
      TI S (if r1.1.fault.isSome then r1 else
        let r2 := procMsgs i 8 r1.1
        (r2.1, r1.2 || r2.2)).1 := by
    intro r1 hd1 hr1
    by_cases hf : r1.1.fault.isSome = true
    · simp only [hf, if_true]; exact hr1
    · simp only [hf]; exact procMsgs_TI i 8 _ hd1 hr1
  unfold dispTick
  by_cases hc : (cp.disp i).cycleLeft > 0
  · simp only [hc, if_true]
    exact TI_frame cp _ h rfl (fun x => x) (setDisp_holds _ i _ rfl rfl)
  · simp only [hc, if_false]
    by_cases hks : (cp.disp i).kern.isSome = true
    · simp only [hks, if_true]
      by_cases hkc : kernelCompleted (cp.disp i) = true
      · simp only [hkc, if_true]
        exact key _ (completeKernel_DCI cp i hdc hkc) (completeKernel_TI cp i h)
      · simp only [hkc]
        exact key _ (dispatchLoop_DCI i 8 cp hdc) (dispatchLoop_TI i 8 cp hdc h)
    · simp only [hks]; exact key (cp, false) hdc h

theorem tickDispatchers_TI {S} : ∀ (is : List Nat) (cp : CP), DCI cp → TI S cp →
    TI S (tickDispatchers is cp).1 := by
  intro is
  induction is with
  | nil => intro cp _ h; exact h
  | cons i is ih =>
    intro cp hdc h
    simp only [tickDispatchers]
    by_cases hf : cp.fault.isSome = true
    · simp only [hf, if_true]; exact h
    · simp only [hf]; exact ih _ (dispTick_DCI cp i hdc) (dispTick_TI cp i hdc h)

theorem handleLaunch_TI {S} (cp : CP) (h : TI S cp) : TI S (handleLaunch cp).1 := by
  refine handleLaunch_ind (P := TI S) cp ?_ ⟨h.shapes, fun hf => by simp [CP.rejected] at hf⟩
  unfold handleLaunchOld
  cases hdr : cp.drvIn with
  | nil => exact h
  | cons k rest =>
    simp only []
    cases hfa : findAvailable cp.disps with
    | none => exact h
    | some i =>
      simp only []
      have h1 : TI S { cp with drvIn := rest } := TI_frame cp _ h rfl (fun x => x) (fun j => ⟨rfl, rfl⟩)
      exact TI_frame _ _ h1 rfl (fun x => x) (setDisp_holds _ i _ rfl rfl)

theorem cpTick_TI {S} (cp : CP) (hdc : DCI cp) (h : TI S cp) : TI S (cpTick cp).1 := by
  have h1 := tickDispatchers_TI (List.range cp.disps.length) cp hdc h
  unfold cpTick
  by_cases hf : (tickDispatchers (List.range cp.disps.length) cp).1.fault.isSome = true
  · simp only [hf, if_true]; exact h1
  · simp only [hf]; exact handleLaunch_TI _ (handleLaunch_TI _ h1)

theorem step_TI {S} (cp : CP) (op : Op) (hdc : DCI cp) (h : TI S cp) : TI S (step cp op) := by
  cases op with
  | tick => exact cpTick_TI cp hdc h
  | launch k => exact TI_frame cp _ h rfl (fun x => x) (fun j => ⟨rfl, rfl⟩)
  | complete ids => exact TI_frame cp _ h rfl (fun x => x) (fun j => ⟨rfl, rfl⟩)
  | cuRoom n => exact TI_frame cp _ h rfl (fun x => x) (fun j => ⟨rfl, rfl⟩)
  | drvRoom n => exact TI_frame cp _ h rfl (fun x => x) (fun j => ⟨rfl, rfl⟩)

theorem run_TI {S} : ∀ (ops : List Op) (cp : CP), DCI cp → TI S cp → TI S (run cp ops) := by
  intro ops
  induction ops with
  | nil => intro cp _ h; exact h
  | cons op ops ih => intro cp hdc h; exact ih (step cp op) (step_DCI cp op hdc) (step_TI cp op hdc h)

theorem mkCP_TI (cfg : Cfg) (nd : Nat) (pool : List CU) (hempty : ∀ cu ∈ pool, cu.resident = []) :
    TI (pool.map CU.shapes) (mkCP cfg nd pool) := by
  refine ⟨rfl, ?_⟩
  intro _ c e he
  exfalso
  have : (mkCP cfg nd pool).pool = pool := rfl
  rw [this] at he
  by_cases hc : c < pool.length
  · have hg : pool.getD c default = pool[c] := by simp [List.getD_eq_getElem?_getD, hc]
    rw [hg, hempty _ (List.getElem_mem hc)] at he; cases he
  · have hg : pool.getD c default = default := by
      simp only [List.getD_eq_getElem?_getD]
      rw [List.getElem?_eq_none (by omega)]; rfl
    rw [hg] at he; cases he

/-- **`TI` holds in every reachable state** -/
theorem ti_run (cfg : Cfg) (nd : Nat) (pool : List CU) (ops : List Op)
    (hempty : ∀ cu ∈ pool, cu.resident = []) :
    TI (pool.map CU.shapes) (run (mkCP cfg nd pool) ops) :=
  run_TI ops _ (mkCP_DCI cfg nd pool) (mkCP_TI cfg nd pool hempty)

end C09
