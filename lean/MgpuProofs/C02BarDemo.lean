import MgpuProofs.C02BarRun
import MgpuProofs.C02WfConcrete
/-! C02 (barriers) — concrete work-groups and schedules used as witnesses / non-vacuity examples. -/
namespace C02.Bar
open C02.Wf

/-- a round-robin greedy scheduler (used to produce complete schedules; the witnesses below are literal
    event lists): wavefront `f % n` takes the first event of `evOrder` that `wgstep` accepts -/
def evOrder : List Ev :=
  [.complete, .exec, .issue, .decode, .retV, .retS 0, .serveV 0, .serveS 0, .fetchRet, .fetch, .resync]

def sched (g : WG) (n : Nat) : Nat → Nat → WState → List (Nat × Ev) → List (Nat × Ev)
  | 0, _, _, acc => acc.reverse
  | fuel + 1, f, W, acc =>
    if W.finished then acc.reverse else
    let w := f % n
    match evOrder.findSome? (fun e => (wgstep g (fun _ _ => true) W (w, e)).map fun W' => (e, W')) with
    | some (e, W') => sched g n fuel (f + 1) W' ((w, e) :: acc)
    | none => sched g n fuel (f + 1) W acc

/-! ## the exchange kernel: every wavefront stores 256·j into its own 256-byte slot of the window at
0x200000, waits for the store, meets the others at the barrier, and loads its neighbour's slot -/

def exch : List BI :=
  [.c (.smov 5 0), .c (.smov 4 0x200000), .c (.sadd 4 4 14), .c (.vxor 2 4 0), .c (.vmov 3 5), .c (.vmov 6 14),
   .c (.fst 2 6), .c (.wait 0 0), .bar,
   .c (.smov 12 0x200000), .c (.sadd 12 12 13), .c (.vxor 4 12 0), .c (.vmov 5 5), .c (.fld 8 4), .c (.wait 0 0),
   .c .endp]

def PX : Prog := cprog 0x1000 (exch.map BI.toC) (fun _ => false)
def gX : WG := bwg 0x1000 exch (fun _ => false) 2
def initsX : List (Nat × RF) := (List.range 2).map fun j => (0x1000, initRegsW 7 3 j 2)
def m0X : Mem := memByte 7

theorem PX_wf : PX.WF := cprog_wf _ _ _

def slot (j a : Nat) : Bool := decide (0x200000 + 256 * j ≤ a ∧ a < 0x200000 + 256 * j + 256)
/-- phase 0: wavefront `j` owns and may write its slot; later: it owns its neighbour's slot, read-only -/
def ownX (k j a : Nat) : Bool := if k = 0 then slot j a else slot ((j + 1) % 2) a
def wownX (k j a : Nat) : Bool := if k = 0 then slot j a else false

/-- per wavefront: two fetches, six ALU instructions, the store, `s_waitcnt` (the store is performed and
    returns), the barrier; then four ALU instructions, the load, `s_waitcnt`, `s_endpgm` -/
def evsWfX : List Ev :=
  [.fetch, .fetchRet,
   .decode, .issue, .exec, .complete, .decode, .issue, .exec, .complete, .decode, .issue, .exec, .complete,
   .decode, .issue, .exec, .complete, .decode, .issue, .exec, .complete, .decode, .issue, .exec, .complete,
   .decode, .issue, .exec,
   .decode, .issue, .serveV 0, .retV, .complete,
   .decode, .issue, .complete,
   .decode, .issue, .exec, .complete, .decode, .issue, .exec, .complete, .decode, .issue, .exec, .complete,
   .decode, .issue, .exec, .complete,
   .fetch, .fetchRet,
   .decode, .issue, .exec,
   .decode, .issue, .serveV 0, .retV, .complete,
   .decode, .issue, .complete]

/-- the two wavefronts in lockstep (the schedule `sched gX 2 4000 0 …` produces) -/
def evsX : List (Nat × Ev) := evsWfX.flatMap fun e => [(0, e), (1, e)]

/-- the exchange kernel meets the hypotheses of the work-group theorem -/
theorem exch_phaseOK : PhaseOK gX PX 2 ownX wownX 400 40 4 initsX m0X where
  wf := PX_wf
  same := rfl
  len := rfl
  sep := by
    intro k i j hij a h
    unfold wownX at h
    unfold ownX
    split at h
    · rename_i hk
      rw [if_pos hk]
      simp only [slot, decide_eq_true_eq] at h
      simp only [slot, decide_eq_false_iff_not]
      omega
    · cases h
  sub := by
    intro k j a h
    unfold wownX at h
    unfold ownX
    split at h
    · rename_i hk; rw [if_pos hk]; exact h
    · cases h
  phases := by decide +kernel

/-- the lockstep schedule completes both wavefronts: wavefront 0 has loaded 256 (what wavefront 1 stored),
    wavefront 1 has loaded 0 -/
theorem exch_timing_run : (wgrun gX (fun _ _ => true) (winit initsX m0X) evsX).map
    (fun W => (W.finished, W.c.map fun T => (T.regs (vreg 8 0), T.regs (vreg 8 1), T.mem 0x200000, T.mem 0x200101))) =
    some (true, [(256, 256, 0, 1), (0, 0, 0, 1)]) := by decide +kernel

theorem exch_emu_run : (ewgRun gX 400 4 (einitW initsX m0X) m0X).map
    (fun r => (r.1.map fun w => (w.E.regs (vreg 8 0), w.E.regs (vreg 8 1)), r.2 0x200000, r.2 0x200101)) =
    some ([(256, 256), (0, 0)], 0, 1) := by decide +kernel

/-! ## the same kernel WITHOUT the `s_waitcnt` before the barrier -/

def noWait : List BI :=
  [.c (.smov 5 0), .c (.smov 4 0x200000), .c (.sadd 4 4 14), .c (.vxor 2 4 0), .c (.vmov 3 5), .c (.vmov 6 14),
   .c (.fst 2 6), .bar,
   .c (.smov 12 0x200000), .c (.sadd 12 12 13), .c (.vxor 4 12 0), .c (.vmov 5 5), .c (.fld 8 4), .c (.wait 0 0),
   .c .endp]

def gN : WG := bwg 0x1000 noWait (fun _ => false) 2

def evAlu : List Ev := [.decode, .issue, .exec, .complete]
def evMem : List Ev := [.decode, .issue, .exec]
def evSpec : List Ev := [.decode, .issue, .complete]
def onWf (w : Nat) (l : List Ev) : List (Nat × Ev) := l.map fun e => (w, e)
def rep (n : Nat) (l : List Ev) : List Ev := (List.replicate n l).flatten

/-- wavefront 0 arrives at the barrier with its store still in flight; wavefront 1 arrives, the barrier
    passes; wavefront 1's load of wavefront 0's slot is performed BEFORE wavefront 0's store -/
def evsBadBar : List (Nat × Ev) :=
  onWf 0 ([.fetch, .fetchRet, .fetch, .fetchRet] ++ rep 6 evAlu ++ evMem ++ evSpec) ++
  onWf 1 ([.fetch, .fetchRet, .fetch, .fetchRet] ++ rep 6 evAlu ++ evMem ++ [.serveV 0, .retV] ++ evSpec) ++
  onWf 1 (rep 4 evAlu ++ evMem ++ [.decode, .issue, .serveV 0, .retV, .complete] ++ evSpec) ++
  onWf 0 ([.serveV 0, .retV] ++ rep 4 evAlu ++ evMem ++ [.decode, .issue, .serveV 0, .retV, .complete] ++ evSpec)

end C02.Bar
