import MgpuProofs.C07Run
set_option linter.unusedVariables false
set_option linter.unusedSimpArgs false
/-! # C07 helper lemmas: `resetRegisterValue` inside the run-level refinement — the abstract machine
with a release step (all SGPR/VGPR cells of the finished wavefront become 0, nothing else changes) -/
namespace C07
open Gen

/-- an operand access or the release of the wavefront's registers -/
inductive GOp where
  | acc (o : Op)
  | rel

/-- every general register cell reads 0, the special registers keep their values -/
def clearRegs (m : CMap) : CMap := fun id =>
  match id with
  | .s _ => 0
  | .v _ _ => 0
  | id => m id

def GMap.stepR (g : GMap) (wi : Nat) : GOp → GMap × Out
  | .acc o => g.step wi o
  | .rel => (fun j => if j = wi then clearRegs (g wi) else g j, .done none)

def TimingRF.stepR (t : TimingRF) (wi : Nat) : GOp → TimingRF × Out
  | .acc o => t.step wi o
  | .rel => ((t.release wi).1, .done (t.release wi).2)

def GMap.execR (g : GMap) : List (Nat × GOp) → GMap × List Out
  | [] => (g, [])
  | p :: ops => ((GMap.execR (g.stepR p.1 p.2).1 ops).1, (g.stepR p.1 p.2).2 :: (GMap.execR (g.stepR p.1 p.2).1 ops).2)

def TimingRF.execR (t : TimingRF) : List (Nat × GOp) → TimingRF × List Out
  | [] => (t, [])
  | p :: ops => ((TimingRF.execR (t.stepR p.1 p.2).1 ops).1, (t.stepR p.1 p.2).2 :: (TimingRF.execR (t.stepR p.1 p.2).1 ops).2)

def GOp.Ok (ns nv : Nat) : GOp → Prop
  | .acc o => o.Ok ns nv
  | .rel => True

def GOkR (t : TimingRF) (ops : List (Nat × GOp)) : Prop :=
  ∀ p ∈ ops, p.1 < t.wfs.size ∧ p.2.Ok (t.wf p.1).ns (t.wf p.1).nv

/-- a state change that leaves wavefront `wj`'s record alone and changes only bytes of wavefront
    `wi`'s windows does not change the cells of `wj` when the windows share no byte -/
theorem absT_unchanged_of_bytes (t t' : TimingRF) (wi wj : Nat) (hwf : t'.wf wj = t.wf wj)
    (f1 : ∀ p, ¬ ownS (t.wf wi) p → get t'.sfile p = get t.sfile p)
    (f2 : ∀ (x : TWf) p, ¬ (x.simd = (t.wf wi).simd ∧ ownV (t.wf wi) p) → get (t'.vfileOf x) p = get (t.vfileOf x) p)
    (hdis : WindowsDisjoint (t.wf wi) (t.wf wj)) :
    absT t' (t'.wf wj) = absT t (t.wf wj) := by
  rw [hwf]
  have hS : winCells t'.sfile (t.wf wj).soff (t.wf wj).ns = winCells t.sfile (t.wf wj).soff (t.wf wj).ns :=
    winCells_congr _ _ _ _ (fun p h1 h2 => f1 p (fun ho => hdis.1 p ⟨ho, h1, h2⟩))
  have hV : laneCells (t'.vfileOf (t.wf wj)) (t.wf wj).voff (t.wf wj).nv =
      laneCells (t.vfileOf (t.wf wj)) (t.wf wj).voff (t.wf wj).nv := by
    funext l
    simp only [laneCells]
    split
    · rename_i hl
      apply winCells_congr
      intro p h1 h2
      apply f2
      rintro ⟨hsimd, ho⟩
      rcases hdis.2 with e | e
      · exact e hsimd.symm
      · exact e p ⟨ho, l, by omega, by omega, h1, h2⟩
    · rfl
  simp only [absT, hS, hV]

/-- `resetRegisterValue` is the abstract release step -/
theorem tim_release_refines (t : TimingRF) (wi : Nat) (hA : Alloc t) (hwi : wi < t.wfs.size) :
    (t.release wi).2 = none ∧
    absG (t.release wi).1 = (fun j => if j = wi then clearRegs (absG t wi) else absG t j) ∧
    SameLayout t (t.release wi).1 := by
  have hf := hA.fits wi hwi
  obtain ⟨r1, r2, r3, r4, r5, r6, r7, _⟩ := release_clears_only_own t wi hf
  have hwf : ∀ wj, (t.release wi).1.wf wj = t.wf wj := fun wj => by simp only [TimingRF.wf, r2]
  refine ⟨r1, ?_, r3⟩
  funext j
  by_cases hj : j = wi
  · subst hj
    simp only [absG, r3.nwf, hwi, if_true]
    funext id
    rw [hwf]
    cases id with
    | s i => exact r4 i
    | v l i => exact r5 l i
    | _ => rfl
  · simp only [hj, if_false, absG, r3.nwf]
    by_cases hjs : j < t.wfs.size
    · simp only [hjs, if_true]
      rw [absT_unchanged_of_bytes t (t.release wi).1 wi j (hwf j) r6 r7 (hA.disj wi j hwi hjs (Ne.symm hj))]
    · simp only [hjs, if_false]

theorem GOkR.layout {t t' : TimingRF} {ops : List (Nat × GOp)} (h : SameLayout t t') (hok : GOkR t ops) : GOkR t' ops := by
  intro p hp
  obtain ⟨a, b⟩ := hok p hp
  obtain ⟨_, _, _, l4, l5⟩ := h.lay p.1
  exact ⟨by rw [h.nwf]; exact a, by rw [l4, l5]; exact b⟩

theorem tim_stepR_refines (t : TimingRF) (wi : Nat) (o : GOp) (hA : Alloc t) (hwi : wi < t.wfs.size)
    (ho : o.Ok (t.wf wi).ns (t.wf wi).nv) :
    (t.stepR wi o).2 = ((absG t).stepR wi o).2 ∧ absG (t.stepR wi o).1 = ((absG t).stepR wi o).1 ∧
    SameLayout t (t.stepR wi o).1 := by
  cases o with
  | acc o => exact tim_step_refines t wi o hA hwi ho
  | rel =>
    obtain ⟨a, b, c⟩ := tim_release_refines t wi hA hwi
    exact ⟨by simp only [TimingRF.stepR, GMap.stepR, a], by simp only [TimingRF.stepR, GMap.stepR, b], c⟩

theorem timing_execR_refines (ops : List (Nat × GOp)) : ∀ (t : TimingRF), Alloc t → GOkR t ops →
    (t.execR ops).2 = ((absG t).execR ops).2 ∧ absG (t.execR ops).1 = ((absG t).execR ops).1 ∧
    SameLayout t (t.execR ops).1 ∧ Alloc (t.execR ops).1 := by
  induction ops with
  | nil => intro t hA _; exact ⟨rfl, rfl, SameLayout.refl t, hA⟩
  | cons p ops ih =>
    intro t hA hok
    obtain ⟨hwi, ho⟩ := hok p (by simp)
    obtain ⟨s1, s2, s3⟩ := tim_stepR_refines t p.1 p.2 hA hwi ho
    have hok' : GOkR (t.stepR p.1 p.2).1 ops := GOkR.layout s3 (fun q hq => hok q (by simp [hq]))
    obtain ⟨i1, i2, i3, i4⟩ := ih (t.stepR p.1 p.2).1 (s3.alloc hA) hok'
    simp only [TimingRF.execR, GMap.execR]
    rw [← s2]
    exact ⟨by rw [s1, i1], i2, s3.trans i3, i4⟩

end C07
