import MgpuModel.C08
import MgpuProofs.C08Cover
/-! # C08 — helper lemmas for the fixed-width (uint32/uint16/int64) model of the launch path -/
namespace C08

theorem wgDist_getLast (per : Nat) (cus : List Nat) : ∀ acc, (wgDist per cus acc).getLast! = acc + cus.sum * per := by
  induction cus with
  | nil => intro acc; simp [wgDist]
  | cons c cs ih =>
    intro acc
    have hne : wgDist per cs (acc + c * per) ≠ [] := by
      cases cs <;> simp [wgDist]
    have := ih (acc + c * per)
    simp only [wgDist, List.sum_cons, Nat.add_mul]
    rw [List.getLast!_eq_getLast?_getD] at this ⊢
    rw [List.getLast?_cons_of_ne_nil hne] at *
    omega

/-- `ceil(g/w)` in the repaired form equals the specification's `(g-1)/w+1` off the empty axis -/
theorem nwgI_eq (g w : Nat) (h1 : 1 ≤ g) (hw : 1 ≤ w) : nwgI g w = nwg g w := by
  unfold nwgI nwg
  have e : g + w - 1 = g - 1 + w := by omega
  rw [e, Nat.add_div_right _ (by omega)]

theorem nwgI_zero (w : Nat) (hw : 1 ≤ w) : nwgI 0 w = 0 := by
  unfold nwgI
  rw [Nat.zero_add]
  exact Nat.div_eq_of_lt (by omega)

theorem totalI_eq (g : Geo) (h : g.NoWrap) : g.totalI = g.total := by
  obtain ⟨⟨a1, _⟩, ⟨b1, _⟩, ⟨c1, _⟩, ⟨d1, _⟩, ⟨e1, _⟩, ⟨f1, _⟩, ht⟩ := h
  unfold Geo.totalI Geo.total
  rw [nwgI_eq _ _ a1 d1, nwgI_eq _ _ b1 e1, nwgI_eq _ _ c1 f1]
  show (g.nx * g.ny % 18446744073709551616) * g.nz % 18446744073709551616 = g.nx * g.ny * g.nz
  have hz : 0 < g.nz := g.nz_pos
  have : g.nx * g.ny ≤ g.nx * g.ny * g.nz := Nat.le_mul_of_pos_right _ hz
  have e1 : g.nx * g.ny % 18446744073709551616 = g.nx * g.ny := Nat.mod_eq_of_lt (by omega)
  rw [e1, Nat.mod_eq_of_lt (by omega)]

theorem wgPerCUI_eq (total s : Nat) (ht : 0 < total) (hs : 0 < s) : wgPerCUI total s = wgPerCU total s := by
  unfold wgPerCUI wgPerCU
  have e : total + s - 1 = total - 1 + s := by omega
  rw [e, Nat.add_div_right _ hs]

theorem wgPerCUI_zero (s : Nat) (hs : 0 < s) : wgPerCUI 0 s = 0 := by
  unfold wgPerCUI
  rw [Nat.zero_add]
  exact Nat.div_eq_of_lt (by omega)

theorem gpuFilterI_eq (g : Geo) (h : g.NoWrap) (d : List Nat) (i : Nat) (c : Coord) :
    gpuFilterI g d i c = gpuFilter g d i c := by
  obtain ⟨⟨a1, _⟩, ⟨b1, _⟩, _, ⟨d1, _⟩, ⟨e1, _⟩, _⟩ := h
  unfold gpuFilterI gpuFilter
  simp only [nwgI_eq _ _ a1 d1, nwgI_eq _ _ b1 e1]
  rfl

theorem total_pos (g : Geo) : 0 < g.total := by
  unfold Geo.total
  exact Nat.mul_pos (Nat.mul_pos g.nx_pos g.ny_pos) g.nz_pos

/-- the ranges end at `Σcu · per ≥ total`: the `not all wg allocated` branch is dead -/
theorem wgDist_reaches (total : Nat) (cus : List Nat) (hs : 0 < cus.sum) (ht : 0 < total) :
    ¬ (wgDist (wgPerCU total cus.sum) cus 0).getLast! < total := by
  rw [wgDist_getLast, Nat.zero_add]
  have := wg_all_allocated total cus.sum hs ht
  omega

/-- an empty axis makes the `int` total 0 -/
theorem totalI_empty (g : Geo) (hw : 1 ≤ g.wx ∧ 1 ≤ g.wy ∧ 1 ≤ g.wz) (h0 : g.gx = 0 ∨ g.gy = 0 ∨ g.gz = 0) :
    g.totalI = 0 ∧ nwgI g.gx g.wx * nwgI g.gy g.wy * nwgI g.gz g.wz = 0 := by
  unfold Geo.totalI
  rcases h0 with h | h | h <;> rw [h] <;> simp [nwgI_zero, hw.1, hw.2.1, hw.2.2]

/-- with `per = 0` every range is empty -/
theorem wgDist_zero (cus : List Nat) : ∀ acc, wgDist 0 cus acc = List.replicate (cus.length + 1) acc := by
  induction cus with
  | nil => intro acc; rfl
  | cons c cs ih => intro acc; simp [wgDist, ih, List.replicate_succ]

theorem launched_zero (cus : List Nat) : launched (wgDist 0 cus 0) cus.length = [] := by
  unfold launched
  rw [List.filter_eq_nil_iff]
  intro i hi
  rw [List.mem_range] at hi
  simp [wgDist_zero, List.getD_eq_getElem?_getD, hi, Nat.lt_succ_of_lt hi]

/-- with an empty axis `NextWG` produces nothing -/
theorem enum_empty (g : Geo) (h0 : g.gx = 0 ∨ g.gy = 0 ∨ g.gz = 0) (p : Coord → Bool) (k : Nat) :
    (enumFrom g p k ⟨0, 0, 0⟩).1 = [] := by
  have hn : nextWG g ⟨0, 0, 0⟩ = none := by
    unfold nextWG
    rw [if_pos (by simp; omega)]
  cases k with
  | zero => rfl
  | succ k =>
    unfold enumFrom
    have : nextWGf g p (g.total + 1) ⟨0, 0, 0⟩ = none := by
      unfold nextWGf
      rw [hn]
    rw [this]

end C08
