import MgpuModel.C08
import MgpuProofs.C08Cover
/-! # C08 — helper lemmas for the fixed-width (uint32/uint16/int64) model of the launch path -/
namespace C08

theorem wgDist_getLast (per : Nat) (cus : List Nat) : ∀ acc, (wgDist per cus acc).getLast! = acc + cus.sum * per := by
  induction cus with
  | nil => intro acc; simp [wgDist]
  | cons c cs ih =>
    intro acc
    have hne : wgDist per cs (acc + c * per) ≠ [] := by
      cases cs <;> simp [wgDist]
    have := ih (acc + c * per)
    simp only [wgDist, List.sum_cons, Nat.add_mul]
    rw [List.getLast!_eq_getLast?_getD] at this ⊢
    rw [List.getLast?_cons_of_ne_nil hne] at *
    omega

theorem nwg32_eq (g w : Nat) (h1 : 1 ≤ g) (h2 : g < 4294967296) : nwg32 g w = nwg g w := by
  unfold nwg32 nwg
  rw [if_neg (by omega)]
  have := Nat.div_le_self (g - 1) w
  exact Nat.mod_eq_of_lt (by omega)

theorem nwg64_eq (g w : Nat) (h1 : 1 ≤ g) : nwg64 g w = nwg g w := by
  unfold nwg64 nwg
  rw [if_neg (by omega)]

theorem total32_eq (g : Geo) (h : g.NoWrap) : g.total32 = g.total := by
  obtain ⟨⟨a1, a2⟩, ⟨b1, b2⟩, ⟨c1, c2⟩, ⟨d1, _⟩, ⟨e1, _⟩, ⟨f1, _⟩, ht⟩ := h
  unfold Geo.total32 Geo.total
  rw [nwg32_eq _ _ a1 a2, nwg32_eq _ _ b1 b2, nwg32_eq _ _ c1 c2]
  show (g.nx * g.ny % 4294967296) * g.nz % 4294967296 = g.nx * g.ny * g.nz
  have hz : 0 < g.nz := g.nz_pos
  have : g.nx * g.ny ≤ g.nx * g.ny * g.nz := Nat.le_mul_of_pos_right _ hz
  have e1 : g.nx * g.ny % 4294967296 = g.nx * g.ny := Nat.mod_eq_of_lt (by omega)
  rw [e1, Nat.mod_eq_of_lt ht]

theorem wgPerCU64_eq (total s : Nat) (ht : 0 < total) : wgPerCU64 total s = wgPerCU total s := by
  unfold wgPerCU64 wgPerCU
  rw [if_neg (by omega)]

theorem gpuFilter32_eq (g : Geo) (h : g.NoWrap) (d : List Nat) (i : Nat) (c : Coord) :
    gpuFilter32 g d i c = gpuFilter g d i c := by
  obtain ⟨⟨a1, a2⟩, ⟨b1, b2⟩, _⟩ := h
  unfold gpuFilter32 gpuFilter
  simp only [nwg32_eq _ _ a1 a2, nwg32_eq _ _ b1 b2]
  rfl

theorem total_pos (g : Geo) : 0 < g.total := by
  unfold Geo.total
  exact Nat.mul_pos (Nat.mul_pos g.nx_pos g.ny_pos) g.nz_pos

/-- the ranges end at `Σcu · per ≥ total`: the `not all wg allocated` branch is dead -/
theorem wgDist_reaches (total : Nat) (cus : List Nat) (hs : 0 < cus.sum) (ht : 0 < total) :
    ¬ (wgDist (wgPerCU total cus.sum) cus 0).getLast! < total := by
  rw [wgDist_getLast, Nat.zero_add]
  have := wg_all_allocated total cus.sum hs ht
  omega

end C08
