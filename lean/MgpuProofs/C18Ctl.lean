import MgpuProofs.C18Inv
/-! Helper lemmas for C18: the control part of the RDMA engine (drain / restart). -/
namespace C18

/-- control fields of `s` equal those of `s0` -/
def CtlSame (s0 s : St) : Prop :=
  s.acks = s0.acks ∧ s.pause = s0.pause ∧ s.nRestart = s0.nRestart ∧ s.draining = s0.draining ∧
  s.cur = s0.cur ∧ s.ctOut = s0.ctOut ∧ s.ctIn = s0.ctIn

theorem ctlSame_fromL1 (c : Cfg) (s0 s : St) (h : CtlSame s0 s) : CtlSame s0 (fromL1 c s).1 := by
  unfold fromL1
  split
  · exact h
  · exact h

theorem ctlSame_onIO (f : Chan → Chan × Bool) (s0 s : St) (h : CtlSame s0 s) : CtlSame s0 (onIO f s).1 := h

theorem ctlSame_onOI (f : Chan → Chan × Bool) (s0 s : St) (h : CtlSame s0 s) : CtlSame s0 (onOI f s).1 := h

theorem dataPhase_ctl (c : Cfg) (s : St) : CtlSame s (dataPhase c s).1 := by
  unfold dataPhase
  simp only
  apply pres_iter (CtlSame s) _ (pres_guard (CtlSame s) _ (ctlSame_onIO _ s))
  apply pres_iter (CtlSame s) _ (pres_guard (CtlSame s) _ (ctlSame_onOI _ s))
  apply pres_iter (CtlSame s) _ (pres_guard (CtlSame s) _ (ctlSame_onOI _ s))
  apply pres_iter (CtlSame s) _ (pres_guard (CtlSame s) _ (ctlSame_fromL1 c s))
  exact ⟨rfl, rfl, rfl, rfl, rfl, rfl, rfl⟩

theorem rspStep_frame (cap : Nat) (c : Chan) :
    (rspStep cap c).1.reqIn = c.reqIn ∧ (rspStep cap c).1.fwd = c.fwd := by
  unfold rspStep
  split
  · exact ⟨rfl, rfl⟩
  · split
    · exact ⟨rfl, rfl⟩
    · split
      · exact ⟨rfl, rfl⟩
      · split <;> exact ⟨rfl, rfl⟩

/-- while paused the data phase takes nothing from the inside request port -/
def PausedKeep (X : List Req) (Y : List FwdRec) (s : St) : Prop :=
  s.pause = true ∧ s.io.reqIn = X ∧ s.io.fwd = Y

theorem dataPhase_paused (c : Cfg) (s : St) (hp : s.pause = true) :
    (dataPhase c s).1.io.reqIn = s.io.reqIn ∧ (dataPhase c s).1.io.fwd = s.io.fwd := by
  have key : PausedKeep s.io.reqIn s.io.fwd (dataPhase c s).1 := by
    unfold dataPhase
    simp only
    apply pres_iter (PausedKeep _ _) _ (pres_guard (PausedKeep _ _) _ ?_)
    · apply pres_iter (PausedKeep _ _) _ (pres_guard (PausedKeep _ _) _ ?_)
      · apply pres_iter (PausedKeep _ _) _ (pres_guard (PausedKeep _ _) _ ?_)
        · apply pres_iter (PausedKeep _ _) _ (pres_guard (PausedKeep _ _) _ ?_)
          · exact ⟨hp, rfl, rfl⟩
          · intro t ht
            unfold fromL1
            rw [ht.1]
            exact ht
        · intro t ht; exact ht
      · intro t ht; exact ht
    · intro t ht
      have := rspStep_frame c.cap t.io
      exact ⟨ht.1, this.1.trans ht.2.1, this.2.trans ht.2.2⟩
  exact ⟨key.2.1, key.2.2⟩

/-- what the control phase can do to the drain bookkeeping -/
theorem ctrlPhase_acks (c : Cfg) (s : St) :
    (ctrlPhase c s).1.acks = s.acks ∨
    ((ctrlPhase c s).1.acks = (0, 0) :: s.acks ∧ s.io.tx = [] ∧ s.oi.tx = []) := by
  unfold ctrlPhase
  simp only
  have hio := ctrlStep_io c.cap s
  have hacks : (ctrlStep c.cap s).1.acks = s.acks := by
    unfold ctrlStep
    split
    · rfl
    · rfl
    · split
      · rfl
      · split <;> rfl
    · rfl
  split
  · unfold guard
    split
    · exact Or.inl hacks
    · unfold drainStep
      split
      · next he =>
        simp only [Bool.and_eq_true, List.isEmpty_iff] at he
        split
        · exact Or.inl hacks
        · split
          · right
            refine ⟨?_, ?_, ?_⟩
            · simp only [he.1, he.2, List.length_nil, hacks]
            · rw [← hio.1]; exact he.1
            · rw [← hio.2]; exact he.2
          · exact Or.inl hacks
      · exact Or.inl hacks
  · exact Or.inl hacks

theorem drainStep_pause (cap : Nat) (s : St) :
    (drainStep cap s).1.pause = s.pause ∧ (drainStep cap s).1.nRestart = s.nRestart := by
  unfold drainStep
  split
  · split
    · exact ⟨rfl, rfl⟩
    · split <;> exact ⟨rfl, rfl⟩
  · exact ⟨rfl, rfl⟩

theorem ctrlPhase_pause (c : Cfg) (s : St) :
    (ctrlPhase c s).1.pause = (ctrlStep c.cap s).1.pause ∧
    (ctrlPhase c s).1.nRestart = (ctrlStep c.cap s).1.nRestart := by
  unfold ctrlPhase
  simp only
  split
  · unfold guard
    split
    · exact ⟨rfl, rfl⟩
    · exact drainStep_pause _ _
  · exact ⟨rfl, rfl⟩

theorem ctrlStep_drain (cap : Nat) (s : St) (src : Nat) (rest : List Ctl)
    (h : s.ctIn = .drain src :: rest) : (ctrlStep cap s).1.pause = true := by
  unfold ctrlStep
  rw [h]

theorem ctrlStep_unpause (cap : Nat) (s : St) (hp : s.pause = true)
    (hq : (ctrlStep cap s).1.pause = false) :
    (ctrlStep cap s).1.nRestart = s.nRestart + 1 ∧ ∃ src rest, s.ctIn = .restart src :: rest := by
  unfold ctrlStep at hq ⊢
  split at hq
  · rw [hp] at hq; cases hq
  · simp at hq
  · next src rest hin =>
    split at hq
    · simp only at hq; rw [hp] at hq; cases hq
    · split at hq
      · next d hcur hlt =>
        simp only [hin, hcur, hlt, if_true]
        exact ⟨trivial, src, rest, rfl⟩
      · simp only at hq; rw [hp] at hq; cases hq
  · simp only at hq; rw [hp] at hq; cases hq

/-! ### Arithmetic of the work-group distribution and of the owner maps -/

theorem wgDist_cons (w : Nat) (cus : List Nat) (acc : Nat) :
    ∃ tl, wgDist w cus acc = acc :: tl := by
  cases cus with
  | nil => exact ⟨[], rfl⟩
  | cons c cs => exact ⟨_, rfl⟩

theorem wgDist_length (w : Nat) : ∀ (cus : List Nat) (acc : Nat),
    (wgDist w cus acc).length = cus.length + 1 := by
  intro cus
  induction cus with
  | nil => intro acc; rfl
  | cons c cs ih => intro acc; simp [wgDist, ih]

theorem wgDist_last (w : Nat) : ∀ (cus : List Nat) (acc d : Nat),
    lastD (wgDist w cus acc) d = acc + cus.sum * w := by
  intro cus
  induction cus with
  | nil => intro acc d; simp [wgDist, lastD]
  | cons c cs ih =>
    intro acc d
    simp only [wgDist, lastD, ih, List.sum_cons, Nat.add_mul]
    omega

theorem countOwners_below (w id : Nat) : ∀ (cus : List Nat) (acc : Nat), id < acc →
    countOwners id (wgDist w cus acc) = 0 := by
  intro cus
  induction cus with
  | nil => intro acc _; rfl
  | cons c cs ih =>
    intro acc h
    obtain ⟨tl, htl⟩ := wgDist_cons w cs (acc + c * w)
    have := ih (acc + c * w) (by omega)
    simp only [wgDist]
    rw [htl] at this ⊢
    simp only [countOwners, this]
    have : ¬ (acc ≤ id ∧ id < acc + c * w) := by omega
    simp [this]

theorem countOwners_in (w id : Nat) : ∀ (cus : List Nat) (acc : Nat), acc ≤ id →
    id < acc + cus.sum * w → countOwners id (wgDist w cus acc) = 1 := by
  intro cus
  induction cus with
  | nil => intro acc h1 h2; simp at h2; omega
  | cons c cs ih =>
    intro acc h1 h2
    simp only [List.sum_cons, Nat.add_mul] at h2
    obtain ⟨tl, htl⟩ := wgDist_cons w cs (acc + c * w)
    simp only [wgDist]
    by_cases hlt : id < acc + c * w
    · have h0 := countOwners_below w id cs (acc + c * w) hlt
      rw [htl] at h0 ⊢
      simp only [countOwners, h0]
      simp [h1, hlt]
    · have h1' := ih (acc + c * w) (by omega) (by omega)
      rw [htl] at h1' ⊢
      simp only [countOwners, h1']
      have : ¬ (acc ≤ id ∧ id < acc + c * w) := by omega
      simp [this]

/-- the ranges cover every work-group id: `total ≤ Σcu · ceil(total / Σcu)` -/
theorem wg_all_allocated (total sumCU : Nat) (hc : 0 < sumCU) (ht : 0 < total) :
    total ≤ sumCU * wgPerCU total sumCU := by
  unfold wgPerCU
  have := Nat.div_add_mod (total + sumCU - 1) sumCU
  have hm := Nat.mod_lt (total + sumCU - 1) hc
  omega

end C18
