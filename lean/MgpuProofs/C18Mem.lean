import MgpuModel.C18_Mem
/-! Helper lemmas for C18 (memory part): routing agrees with the owner bank, translation is injective
under an injective page table, and the multi-GPU memories simulate the flat virtual memory. -/
namespace C18

/-- the hypotheses on a placement: distinct virtual pages get distinct frames (the allocator's
    no-overlap property, C10) and every byte of every mapped frame lies in a GPU bank -/
structure GoodPlacement (c : MemCfg) (pt : PageTable) : Prop where
  inj : ∀ vp1 vp2 pp, pt.lookup vp1 = some pp → pt.lookup vp2 = some pp → vp1 = vp2
  inBank : ∀ vp pp, pt.lookup vp = some pp → ∀ off, off < c.P →
    1 ≤ bank c.S (pp * c.P + off) ∧ bank c.S (pp * c.P + off) ≤ c.n

/-- every byte the access touches lies in a mapped virtual page -/
def accMapped (c : MemCfg) (pt : PageTable) : Acc → Prop
  | .store _ v bs => ∀ i, i < bs.length → (pt.lookup ((v + i) / c.P)).isSome = true
  | .load _ v len => ∀ i, i < len → (pt.lookup ((v + i) / c.P)).isSome = true

instance (c : MemCfg) (pt : PageTable) (a : Acc) : Decidable (accMapped c pt a) := by
  cases a <;> unfold accMapped <;> infer_instance

/-- the multi-GPU memories represent the flat memory `m` on every mapped address -/
def Sim (c : MemCfg) (pt : PageTable) (d : DRAM) (m : Nat → Nat) : Prop :=
  ∀ v pa, translate c pt v = some pa → d (bank c.S pa) pa = m v

theorem isLocal_iff_bank (S g pa : Nat) (hS : 0 < S) : isLocal S g pa = true ↔ g = bank S pa := by
  unfold isLocal bank
  simp only [Bool.and_eq_true, decide_eq_true_eq]
  constructor
  · intro ⟨h1, h2⟩
    have : pa / S = g := Nat.div_eq_of_lt_le h1 (by rw [Nat.add_mul]; omega)
    omega
  · intro hg
    subst hg
    have h1 := Nat.div_mul_le_self pa S
    have h2 := Nat.lt_div_mul_add (a := pa) hS
    omega

theorem target_of_bank (c : MemCfg) (g pa : Nat) (hS : 0 < c.S)
    (h1 : 1 ≤ bank c.S pa) (h2 : bank c.S pa ≤ c.n) : target c g pa = .ok (bank c.S pa) := by
  unfold target
  by_cases hl : isLocal c.S g pa = true
  · have := (isLocal_iff_bank c.S g pa hS).1 hl
    simp only [hl, if_true]
    rw [this]
  · simp only [hl]
    have hS' : ¬ c.S = 0 := by omega
    have hb : pa / c.S < c.n + 1 := by unfold bank at h2; omega
    simp only [routeOut, rdmaCfg, hS', if_false, hb, if_true]
    obtain ⟨k, hk⟩ : ∃ k, pa / c.S = k + 1 := ⟨pa / c.S - 1, by unfold bank at h1; omega⟩
    have hloc : isLocal c.S (k + 1) pa = true := (isLocal_iff_bank c.S (k + 1) pa hS).2 (by unfold bank; omega)
    simp only [hk, hloc, if_true, Bool.false_eq_true, if_false]
    unfold bank
    rw [hk]

/-- the destination GPU always keeps the address it was chosen for: no request bounces -/
theorem target_ne_loop (c : MemCfg) (g pa : Nat) (hS : 0 < c.S) : target c g pa ≠ .error .loop := by
  unfold target
  split
  · intro h; cases h
  · split
    · intro h; cases h
    · intro h; cases h
    · rename_i d hr
      have hd : pa / c.S = d + 1 := by
        have hS' : ¬ c.S = 0 := by omega
        simp only [routeOut, rdmaCfg, hS', if_false] at hr
        by_cases hb : pa / c.S < c.n + 1
        · simp only [hb, if_true] at hr
          injection hr
        · simp only [hb, if_false] at hr
          cases hr
      have hloc : isLocal c.S (d + 1) pa = true := (isLocal_iff_bank c.S (d + 1) pa hS).2 (by unfold bank; omega)
      simp only [hloc, if_true]
      intro h; cases h

theorem mul_add_div_lt (pp P r : Nat) (hr : r < P) : (pp * P + r) / P = pp := by
  apply Nat.div_eq_of_lt_le
  · omega
  · rw [Nat.add_mul]; omega

theorem translate_some (c : MemCfg) (pt : PageTable) (v pa : Nat) (h : translate c pt v = some pa) :
    ∃ pp, pt.lookup (v / c.P) = some pp ∧ pa = pp * c.P + v % c.P := by
  unfold translate at h
  split at h
  · cases h
  · rename_i pp hpp
    injection h with h
    exact ⟨pp, hpp, h.symm⟩

theorem translate_inj (c : MemCfg) (pt : PageTable) (hP : 0 < c.P) (hg : GoodPlacement c pt)
    (v1 v2 pa : Nat) (h1 : translate c pt v1 = some pa) (h2 : translate c pt v2 = some pa) : v1 = v2 := by
  obtain ⟨p1, hl1, e1⟩ := translate_some c pt v1 pa h1
  obtain ⟨p2, hl2, e2⟩ := translate_some c pt v2 pa h2
  have hm1 : v1 % c.P < c.P := Nat.mod_lt _ hP
  have hm2 : v2 % c.P < c.P := Nat.mod_lt _ hP
  have hp1 : pa / c.P = p1 := by rw [e1]; exact mul_add_div_lt p1 c.P _ hm1
  have hp2 : pa / c.P = p2 := by rw [e2]; exact mul_add_div_lt p2 c.P _ hm2
  have hpp : p1 = p2 := by omega
  subst hpp
  have hv : v1 / c.P = v2 / c.P := hg.inj _ _ _ hl1 hl2
  have hr : v1 % c.P = v2 % c.P := by omega
  have d1 := Nat.div_add_mod v1 c.P
  have d2 := Nat.div_add_mod v2 c.P
  rw [hv, hr] at d1
  omega

theorem translate_bank (c : MemCfg) (pt : PageTable) (hP : 0 < c.P) (hg : GoodPlacement c pt)
    (v pa : Nat) (h : translate c pt v = some pa) : 1 ≤ bank c.S pa ∧ bank c.S pa ≤ c.n := by
  obtain ⟨pp, hl, e⟩ := translate_some c pt v pa h
  rw [e]
  exact hg.inBank _ _ hl _ (Nat.mod_lt _ hP)

theorem translate_of_mapped (c : MemCfg) (pt : PageTable) (v : Nat)
    (h : (pt.lookup (v / c.P)).isSome = true) : ∃ pa, translate c pt v = some pa := by
  unfold translate
  cases hl : pt.lookup (v / c.P) with
  | none => rw [hl] at h; cases h
  | some pp => exact ⟨_, rfl⟩

theorem locate_good (c : MemCfg) (pt : PageTable) (hP : 0 < c.P) (hS : 0 < c.S) (hg : GoodPlacement c pt)
    (g v : Nat) (h : (pt.lookup (v / c.P)).isSome = true) :
    ∃ pa, translate c pt v = some pa ∧ locate c pt g v = .ok (bank c.S pa, pa) := by
  obtain ⟨pa, hpa⟩ := translate_of_mapped c pt v h
  obtain ⟨b1, b2⟩ := translate_bank c pt hP hg v pa hpa
  refine ⟨pa, hpa, ?_⟩
  unfold locate
  simp only [hpa, target_of_bank c g pa hS b1 b2]

theorem sim_write (c : MemCfg) (pt : PageTable) (hP : 0 < c.P) (hg : GoodPlacement c pt)
    (d : DRAM) (m : Nat → Nat) (hs : Sim c pt d m) (v pa b : Nat) (hv : translate c pt v = some pa) :
    Sim c pt (d.write (bank c.S pa) pa b) (fun a => if a = v then b else m a) := by
  intro v' pa' hv'
  unfold DRAM.write
  by_cases e : v' = v
  · subst e
    have : pa' = pa := by rw [hv] at hv'; injection hv' with h; exact h.symm
    subst this
    simp
  · have hne : pa' ≠ pa := by
      intro h
      subst h
      exact e (translate_inj c pt hP hg v' v pa' hv' hv)
    simp only [hne, and_false, if_false, e]
    exact hs v' pa' hv'

theorem storeBytes_sim (c : MemCfg) (pt : PageTable) (hP : 0 < c.P) (hS : 0 < c.S) (hg : GoodPlacement c pt)
    (g : Nat) (bs : List Nat) : ∀ (d : DRAM) (m : Nat → Nat) (v : Nat), Sim c pt d m →
    (∀ i, i < bs.length → (pt.lookup ((v + i) / c.P)).isSome = true) →
    ∃ d', storeBytes c pt g d v bs = .ok d' ∧ Sim c pt d' (flatStore m v bs) := by
  induction bs with
  | nil => intro d m v hs _; exact ⟨d, rfl, hs⟩
  | cons b bs ih =>
    intro d m v hs hm
    obtain ⟨pa, hpa, hloc⟩ := locate_good c pt hP hS hg g v (by simpa using hm 0 (by simp))
    have hs' := sim_write c pt hP hg d m hs v pa b hpa
    obtain ⟨d', hd', hsim⟩ := ih _ _ (v + 1) hs' (by
      intro i hi
      have := hm (i + 1) (by simp; omega)
      rwa [show v + (i + 1) = v + 1 + i by omega] at this)
    refine ⟨d', ?_, hsim⟩
    simp only [storeBytes, hloc]
    exact hd'

theorem loadBytes_sim (c : MemCfg) (pt : PageTable) (hP : 0 < c.P) (hS : 0 < c.S) (hg : GoodPlacement c pt)
    (g : Nat) (d : DRAM) (m : Nat → Nat) (hs : Sim c pt d m) (len : Nat) : ∀ (v : Nat),
    (∀ i, i < len → (pt.lookup ((v + i) / c.P)).isSome = true) →
    loadBytes c pt g d v len = .ok (flatLoad m v len) := by
  induction len with
  | zero => intro v _; rfl
  | succ len ih =>
    intro v hm
    obtain ⟨pa, hpa, hloc⟩ := locate_good c pt hP hS hg g v (by simpa using hm 0 (by omega))
    have hrest := ih (v + 1) (by
      intro i hi
      have := hm (i + 1) (by omega)
      rwa [show v + (i + 1) = v + 1 + i by omega] at this)
    simp only [loadBytes, hloc, hrest, flatLoad, hs v pa hpa]

/-- one access keeps the simulation -/
theorem memStep_sim (c : MemCfg) (pt : PageTable) (hP : 0 < c.P) (hS : 0 < c.S) (hg : GoodPlacement c pt)
    (s : MSt) (f : FSt) (a : Acc) (hm : accMapped c pt a)
    (h : s.fault = none ∧ s.loads = f.loads ∧ Sim c pt s.dram f.mem) :
    (memStep c pt s a).fault = none ∧ (memStep c pt s a).loads = (flatStep f a).loads ∧
      Sim c pt (memStep c pt s a).dram (flatStep f a).mem := by
  obtain ⟨hf, hl, hs⟩ := h
  unfold memStep
  simp only [hf, Option.isSome_none, Bool.false_eq_true, if_false]
  cases a with
  | store g v bs =>
    obtain ⟨d', hd', hsim⟩ := storeBytes_sim c pt hP hS hg g bs s.dram f.mem v hs hm
    simp only [hd', flatStep]
    exact ⟨by first | trivial | exact hf, hl, hsim⟩
  | load g v len =>
    have := loadBytes_sim c pt hP hS hg g s.dram f.mem hs len v hm
    simp only [this, flatStep, hl]
    exact ⟨by first | trivial | exact hf, trivial, hs⟩

theorem run_sim (c : MemCfg) (pt : PageTable) (hP : 0 < c.P) (hS : 0 < c.S) (hg : GoodPlacement c pt)
    (accs : List Acc) : ∀ (s : MSt) (f : FSt), (∀ a ∈ accs, accMapped c pt a) →
    (s.fault = none ∧ s.loads = f.loads ∧ Sim c pt s.dram f.mem) →
    (accs.foldl (memStep c pt) s).fault = none ∧
      (accs.foldl (memStep c pt) s).loads = (accs.foldl flatStep f).loads ∧
      Sim c pt (accs.foldl (memStep c pt) s).dram (accs.foldl flatStep f).mem := by
  induction accs with
  | nil => intro s f _ h; exact h
  | cons a accs ih =>
    intro s f hm h
    simp only [List.foldl_cons]
    exact ih _ _ (fun a' ha' => hm a' (List.mem_cons_of_mem _ ha'))
      (memStep_sim c pt hP hS hg s f a (hm a List.mem_cons_self) h)

theorem lookup_isSome_of_mem (pt : PageTable) (vp pp : Nat) (h : (vp, pp) ∈ pt) :
    (pt.lookup vp).isSome = true := by
  induction pt with
  | nil => cases h
  | cons e pt ih =>
    obtain ⟨k, x⟩ := e
    by_cases hk : vp = k
    · subst hk; simp [List.lookup]
    · have hb : (vp == k) = false := by simpa using hk
      simp only [List.lookup, hb]
      apply ih
      cases h with
      | head => exact absurd rfl hk
      | tail _ h => exact h

/-- under the simulation the printed image is the flat memory on the mapped pages -/
theorem virtImage_sim (c : MemCfg) (pt : PageTable) (d : DRAM) (m : Nat → Nat)
    (hs : Sim c pt d m) : virtImage c pt d = flatImage c pt m := by
  unfold virtImage flatImage
  congr 1
  apply List.map_congr_left
  intro e he
  apply List.map_congr_left
  intro off hoff
  have hoff : off < c.P := List.mem_range.1 hoff
  have hdiv : (e.1 * c.P + off) / c.P = e.1 := mul_add_div_lt e.1 c.P off hoff
  have hmap : (pt.lookup ((e.1 * c.P + off) / c.P)).isSome = true := by
    rw [hdiv]; exact lookup_isSome_of_mem pt e.1 e.2 he
  obtain ⟨pa, hpa⟩ := translate_of_mapped c pt _ hmap
  simp only [vread, hpa, Option.getD_some]
  exact hs _ pa hpa

/-- the flat reference does not look at the issuing GPU -/
theorem flatStep_noGpu (f : FSt) (a : Acc) : flatStep f a.noGpu = flatStep f a := by
  cases a <;> rfl

theorem flatRun_noGpu (accs : List Acc) : flatRun (accs.map Acc.noGpu) = flatRun accs := by
  unfold flatRun
  generalize ({} : FSt) = f
  induction accs generalizing f with
  | nil => rfl
  | cons a accs ih => simp only [List.map_cons, List.foldl_cons, flatStep_noGpu, ih]

theorem accMapped_noGpu (c : MemCfg) (pt : PageTable) (a : Acc) : accMapped c pt a.noGpu ↔ accMapped c pt a := by
  cases a <;> exact Iff.rfl

theorem mem_of_lookup (pt : PageTable) (vp pp : Nat) (h : pt.lookup vp = some pp) : (vp, pp) ∈ pt := by
  induction pt with
  | nil => cases h
  | cons e pt ih =>
    obtain ⟨k, x⟩ := e
    by_cases hk : vp = k
    · subst hk
      have : x = pp := by simpa [List.lookup] using h
      subst this
      exact List.mem_cons_self
    · have hb : (vp == k) = false := by simpa using hk
      simp only [List.lookup, hb] at h
      exact List.mem_cons_of_mem _ (ih h)

theorem fst_eq_of_nodup_snd (pt : PageTable) (hn : (pt.map (·.2)).Nodup) (v1 v2 pp : Nat)
    (h1 : (v1, pp) ∈ pt) (h2 : (v2, pp) ∈ pt) : v1 = v2 := by
  induction pt with
  | nil => cases h1
  | cons e pt ih =>
    simp only [List.map_cons, List.nodup_cons, List.mem_map, not_exists, not_and] at hn
    obtain ⟨hne, hn'⟩ := hn
    cases h1 with
    | head =>
      cases h2 with
      | head => rfl
      | tail _ h2 => exact absurd rfl (hne (v2, pp) h2)
    | tail _ h1 =>
      cases h2 with
      | head => exact absurd rfl (hne (v1, pp) h1)
      | tail _ h2 => exact ih hn' h1 h2

/-- the list form of the placement hypotheses (decidable; what the harness checks before it applies
    the flat oracle): pairwise distinct frames, every byte of every frame in a GPU bank -/
theorem goodPlacement_of_list (c : MemCfg) (pt : PageTable) (hn : (pt.map (·.2)).Nodup)
    (hb : ∀ e ∈ pt, ∀ off, off < c.P → 1 ≤ bank c.S (e.2 * c.P + off) ∧ bank c.S (e.2 * c.P + off) ≤ c.n) :
    GoodPlacement c pt where
  inj := fun v1 v2 pp h1 h2 =>
    fst_eq_of_nodup_snd pt hn v1 v2 pp (mem_of_lookup pt v1 pp h1) (mem_of_lookup pt v2 pp h2)
  inBank := fun vp pp h off hoff => hb (vp, pp) (mem_of_lookup pt vp pp h) off hoff

/-- every frame lies inside the allocator range `[P + d·S, P + (d+1)·S)` of some GPU `d`, not in the
    range's last page -/
def AllocPlacement (c : MemCfg) (pt : PageTable) : Prop :=
  ∀ vp pp, pt.lookup vp = some pp →
    ∃ d, 1 ≤ d ∧ d ≤ c.n ∧ c.P + d * c.S ≤ pp * c.P ∧ pp * c.P + c.P ≤ d * c.S + c.S

theorem flatImage_congr (c1 c2 : MemCfg) (pt1 pt2 : PageTable) (m : Nat → Nat) (hP : c1.P = c2.P)
    (hv : pt1.map (·.1) = pt2.map (·.1)) : flatImage c1 pt1 m = flatImage c2 pt2 m := by
  have h : ∀ (c : MemCfg) (pt : PageTable), flatImage c pt m =
      ((pt.map (·.1)).map fun vp => (List.range c.P).map fun off => m (vp * c.P + off)).flatten := by
    intro c pt
    unfold flatImage
    rw [List.map_map]
    rfl
  rw [h, h, hv, hP]

end C18
