import MgpuProofs.C15LastDefs
import MgpuProofs.C15Inv
/-! # C15 — "the last answer wins": helper lemmas

`LInv s` extends the reorder-buffer invariant `Inv c s` by what is needed to say WHICH of several
lower-level answers for one ticket a response carries: tickets in `fwd` ascend strictly (each
accepted request gets `s.nextBot`), logged answers name tickets below `nextBot`, a pending
transaction holds `lastAns` of its ticket, and a delivered response carries `lastAns` of the
ticket of its request (its ticket left the table at retirement, so `parseBottom` never logs
another answer for it). Core Lean only. -/
namespace C15

/-! ### `lastAns` -/

theorem lastAns_snoc (k b : Nat) (p : Rsp) (l : List (Nat × Rsp)) :
    lastAns k (l ++ [(b, p)]) = if b = k then some p else lastAns k l := by
  induction l with
  | nil => simp [lastAns]
  | cons a l ih =>
    obtain ⟨k', q⟩ := a
    simp only [List.cons_append, lastAns, ih]
    by_cases h : b = k <;> simp [h]

theorem lastAns_mem {k : Nat} {q : Rsp} :
    ∀ {l : List (Nat × Rsp)}, lastAns k l = some q → (k, q) ∈ l
  | [], h => by simp [lastAns] at h
  | (k', p) :: l, h => by
    simp only [lastAns] at h
    split at h
    · rename_i q' hq'
      cases h
      exact List.mem_cons_of_mem _ (lastAns_mem hq')
    · split at h
      · rename_i hk
        cases h
        subst hk
        exact List.mem_cons_self
      · cases h

theorem lastAns_none {k : Nat} :
    ∀ {l : List (Nat × Rsp)}, k ∉ l.map (·.1) → lastAns k l = none
  | [], _ => rfl
  | (k', p) :: l, h => by
    simp only [List.map_cons, List.mem_cons, not_or] at h
    simp only [lastAns, lastAns_none h.2]
    simp [Ne.symm h.1]

theorem lastAns_some_of_mem {k : Nat} {p : Rsp} :
    ∀ {l : List (Nat × Rsp)}, (k, p) ∈ l → ∃ q, lastAns k l = some q
  | [], h => by cases h
  | (k', p') :: l, h => by
    simp only [lastAns]
    cases hl : lastAns k l with
    | some q => exact ⟨q, rfl⟩
    | none =>
      rcases List.mem_cons.1 h with h | h
      · cases h
        exact ⟨p, by simp⟩
      · obtain ⟨q, hq⟩ := lastAns_some_of_mem h
        rw [hq] at hl
        cases hl

/-- a ticket with exactly one logged payload: that payload is the last one -/
theorem lastAns_unique {k : Nat} {p : Rsp} {l : List (Nat × Rsp)} (hm : (k, p) ∈ l)
    (hu : ∀ p', (k, p') ∈ l → p' = p) : lastAns k l = some p := by
  obtain ⟨q, hq⟩ := lastAns_some_of_mem hm
  rw [hq, hu q (lastAns_mem hq)]

/-- keys without repetition: the entries for key `k` are exactly the one entry -/
theorem filter_key_of_nodup {k : Nat} {p : Rsp} :
    ∀ {l : List (Nat × Rsp)}, (l.map (·.1)).Nodup → (k, p) ∈ l →
      l.filter (fun e => decide (e.1 = k)) = [(k, p)]
  | [], _, hm => by cases hm
  | (k', p') :: l, hn, hm => by
    simp only [List.map_cons, List.nodup_cons] at hn
    rcases List.mem_cons.1 hm with hm | hm
    · cases hm
      have : l.filter (fun e => decide (e.1 = k)) = [] :=
        List.filter_eq_nil_iff.2 (by
          intro e he
          simp only [decide_eq_true_eq]
          intro hk
          exact hn.1 (hk ▸ List.mem_map.2 ⟨e, he, rfl⟩))
      simp [this]
    · have hne : k' ≠ k := by
        intro hk
        subst hk
        exact hn.1 (List.mem_map.2 ⟨(k', p), hm, rfl⟩)
      simp [hne, filter_key_of_nodup hn.2 hm]

/-! ### list facts -/

theorem eq_of_nodup_map {α β} (f : α → β) :
    ∀ {l : List α}, (l.map f).Nodup → ∀ {a b : α}, a ∈ l → b ∈ l → f a = f b → a = b
  | [], _, _, _, ha, _, _ => by cases ha
  | x :: l, hn, a, b, ha, hb, e => by
    simp only [List.map_cons, List.nodup_cons] at hn
    rcases List.mem_cons.1 ha with ha | ha <;> rcases List.mem_cons.1 hb with hb | hb
    · rw [ha, hb]
    · exfalso
      apply hn.1
      rw [← ha, e]
      exact List.mem_map.2 ⟨b, hb, rfl⟩
    · exfalso
      apply hn.1
      rw [← hb, ← e]
      exact List.mem_map.2 ⟨a, ha, rfl⟩
    · exact eq_of_nodup_map f hn.2 ha hb e

/-- with pairwise distinct tickets `setRsp b p` changes exactly the transaction with ticket `b` -/
theorem mem_setRsp_nodup {b : Nat} {p : Rsp} :
    ∀ {l : List Tx} {t' : Tx}, (l.map (·.botId)).Nodup → t' ∈ setRsp b p l →
      ∃ t ∈ l, t'.botId = t.botId ∧ t'.rsp = if t.botId = b then some p else t.rsp
  | [], _, _, h => by simp [setRsp] at h
  | t :: ts, t', hn, h => by
    simp only [List.map_cons, List.nodup_cons] at hn
    simp only [setRsp] at h
    split at h
    · rename_i hb
      rcases List.mem_cons.1 h with h | h
      · exact ⟨t, List.mem_cons_self, by simp [h], by simp [h, hb]⟩
      · refine ⟨t', List.mem_cons_of_mem _ h, rfl, ?_⟩
        have : t'.botId ≠ b := by
          intro e
          apply hn.1
          rw [hb, ← e]
          exact List.mem_map.2 ⟨t', h, rfl⟩
        simp [this]
    · rename_i hb
      rcases List.mem_cons.1 h with h | h
      · exact ⟨t, List.mem_cons_self, by simp [h], by simp [h, hb]⟩
      · obtain ⟨t0, h0, h1⟩ := mem_setRsp_nodup hn.2 h
        exact ⟨t0, List.mem_cons_of_mem _ h0, h1⟩

/-! ### the extra invariant -/

structure LInv (s : St) : Prop where
  /-- tickets of forwarded copies ascend strictly (hence are pairwise distinct) -/
  tickets : (s.fwd.map (·.2.id)).Pairwise (· < ·)
  ticketsFresh : ∀ k ∈ s.fwd.map (·.2.id), k < s.nextBot
  /-- only tickets already handed out are ever logged as answered -/
  ansFresh : ∀ e ∈ s.answered, e.1 < s.nextBot
  /-- a pending transaction holds the last answer consumed for its ticket (`none`: no answer) -/
  txLast : ∀ t ∈ s.txs, t.rsp = lastAns t.botId s.answered
  /-- a response sent up carries the last answer consumed for the forwarded copy of its request -/
  delLast : ∀ d ∈ s.delivered, ∀ rb ∈ s.fwd, rb.1.id = d.rspTo →
    lastAns rb.2.id s.answered = some d.payload

theorem linv_init : LInv {} := by
  constructor <;> simp

theorem Inv.outNodup {c : Cfg} {s : St} (h : Inv c s) :
    (s.delivered.map (·.rspTo) ++ s.txs.map (·.req.id)).Nodup := by
  rw [h.order]; exact h.acceptedNodup.filter _

theorem Inv.delivered_accepted {c : Cfg} {s : St} (h : Inv c s) :
    ∀ d ∈ s.delivered, d.rspTo ∈ s.accepted := by
  intro d hd
  have : d.rspTo ∈ s.live := by
    rw [← h.order]; exact List.mem_append_left _ (List.mem_map.2 ⟨d, hd, rfl⟩)
  exact (List.mem_filter.1 this).1

theorem bottomUp_linv (c : Cfg) (s : St) (h : Inv c s) (l : LInv s) : LInv (bottomUp c s).1 := by
  unfold bottomUp
  split
  · exact l
  split
  · exact l
  · rename_i t rest hs
    split
    · exact l
    · rename_i p hp
      split
      · exact { l with }
      split
      · have ht : t ∈ s.txs := by rw [hs]; exact List.mem_cons_self
        refine { l with txLast := ?_, delLast := ?_ }
        · intro t' ht'
          exact l.txLast t' (by rw [hs]; exact List.mem_cons_of_mem _ ht')
        · intro d hd rb hrb e
          rcases List.mem_append.1 hd with hd | hd
          · exact l.delLast d hd rb hrb e
          · simp only [List.mem_singleton] at hd
            subst hd
            have e' : rb.1.id = t.req.id := e
            have hn : (s.fwd.map (·.1.id)).Nodup := h.acceptedNodup
            have := eq_of_nodup_map (·.1.id) hn hrb (h.txFwd t ht) e'
            subst this
            show lastAns (dupReq t.botId t.req).id s.answered = some p
            rw [dupReq_id, ← l.txLast t ht]
            exact hp
      · exact l

theorem parseBottom_linv (c : Cfg) (s : St) (h : Inv c s) (l : LInv s) : LInv (parseBottom s).1 := by
  unfold parseBottom
  split
  · exact l
  split
  · exact l
  · rename_i b p rest hs
    split
    · rename_i hb
      refine { l with ansFresh := ?_, txLast := ?_, delLast := ?_ }
      · intro e he
        rcases List.mem_append.1 he with he | he
        · exact l.ansFresh e he
        · simp only [List.mem_singleton] at he
          subst he
          exact h.botFresh b hb
      · intro t' ht'
        show t'.rsp = lastAns t'.botId (s.answered ++ [(b, p)])
        have hnd : (s.txs.map (·.botId)).Nodup := by
          rw [← h.table]; exact pairwise_lt_nodup h.botSorted
        obtain ⟨t, ht, h1, h2⟩ := mem_setRsp_nodup hnd ht'
        rw [lastAns_snoc, h2, h1]
        by_cases hk : t.botId = b
        · simp [hk]
        · have hk' : ¬ b = t.botId := fun e => hk e.symm
          simp only [hk, hk', if_false]
          exact l.txLast t ht
      · intro d hd rb hrb e
        show lastAns rb.2.id (s.answered ++ [(b, p)]) = some d.payload
        have hne : ¬ b = rb.2.id := by
          intro hbe
          rw [h.table] at hb
          obtain ⟨t, ht, htb⟩ := List.mem_map.1 hb
          have hk : rb.2.id = (dupReq t.botId t.req).id := by rw [dupReq_id, htb, hbe]
          have := eq_of_nodup_map (·.2.id) (pairwise_lt_nodup l.tickets) hrb (h.txFwd t ht) hk
          have e2 : d.rspTo = t.req.id := by rw [← e, this]
          exact (List.nodup_append.1 h.outNodup).2.2 d.rspTo (List.mem_map.2 ⟨d, hd, rfl⟩)
            t.req.id (List.mem_map.2 ⟨t, ht, rfl⟩) e2
        rw [lastAns_snoc, if_neg hne]
        exact l.delLast d hd rb hrb e
    · exact { l with }

theorem topDown_linv (c : Cfg) (s : St) (h : Inv c s) (l : LInv s) : LInv (topDown c s).1 := by
  unfold topDown
  split
  · exact l
  split
  · exact l
  · rename_i r rest hs
    have m1 : ∀ k ∈ s.fwd.map (·.2.id), k < s.nextBot + 1 :=
      fun k hk => Nat.lt_succ_of_lt (l.ticketsFresh k hk)
    have m2 : ∀ e ∈ s.answered, e.1 < s.nextBot + 1 :=
      fun e he => Nat.lt_succ_of_lt (l.ansFresh e he)
    split
    · exact l
    split
    · exact { l with ticketsFresh := m1, ansFresh := m2 }
    split
    · exact { l with ticketsFresh := m1, ansFresh := m2 }
    · refine { tickets := ?_, ticketsFresh := ?_, ansFresh := m2, txLast := ?_, delLast := ?_ }
      · show ((s.fwd ++ [(r, dupReq s.nextBot r)]).map (·.2.id)).Pairwise (· < ·)
        rw [List.map_append]
        simp only [List.map_cons, List.map_nil, dupReq_id]
        exact pairwise_snoc l.tickets l.ticketsFresh
      · show ∀ k ∈ (s.fwd ++ [(r, dupReq s.nextBot r)]).map (·.2.id), k < s.nextBot + 1
        intro k hk
        rw [List.map_append] at hk
        rcases List.mem_append.1 hk with hk | hk
        · exact m1 k hk
        · simp [dupReq_id] at hk; omega
      · show ∀ t ∈ s.txs ++ [⟨r, s.nextBot, none⟩], t.rsp = lastAns t.botId s.answered
        intro t ht
        rcases List.mem_append.1 ht with ht | ht
        · exact l.txLast t ht
        · simp only [List.mem_singleton] at ht
          subst ht
          show none = lastAns s.nextBot s.answered
          rw [lastAns_none]
          intro hm
          obtain ⟨e, he, hk⟩ := List.mem_map.1 hm
          have := l.ansFresh e he
          omega
      · show ∀ d ∈ s.delivered, ∀ rb ∈ s.fwd ++ [(r, dupReq s.nextBot r)], rb.1.id = d.rspTo →
          lastAns rb.2.id s.answered = some d.payload
        intro d hd rb hrb e
        rcases List.mem_append.1 hrb with hrb | hrb
        · exact l.delLast d hd rb hrb e
        · exfalso
          simp only [List.mem_singleton] at hrb
          subst hrb
          have e' : r.id = d.rspTo := e
          have hacc := h.delivered_accepted d hd
          have hfresh := h.fresh
          rw [hs] at hfresh
          have := (List.pairwise_append.1 hfresh).2.2 d.rspTo hacc r.id (by simp)
          omega

/-- both invariants together -/
def Both (c : Cfg) (s : St) : Prop := Inv c s ∧ LInv s

theorem runPipeline_both (c : Cfg) (s : St) (h : Both c s) : Both c (runPipeline c s).1 := by
  unfold runPipeline
  have hb : ∀ x, Both c x → Both c (bottomUp c x).1 :=
    fun x hx => ⟨bottomUp_inv c x hx.1, bottomUp_linv c x hx.1 hx.2⟩
  have hp : ∀ x, Both c x → Both c (parseBottom x).1 :=
    fun x hx => ⟨parseBottom_inv c x hx.1, parseBottom_linv c x hx.1 hx.2⟩
  have ht : ∀ x, Both c x → Both c (topDown c x).1 :=
    fun x hx => ⟨topDown_inv c x hx.1, topDown_linv c x hx.1 hx.2⟩
  exact iterP_pres (P := Both c) ht _ _ (iterP_pres (P := Both c) hp _ _
    (iterP_pres (P := Both c) hb _ _ h))

theorem processCtl_linv (c : Cfg) (s : St) (l : LInv s) : LInv (processCtl c s).1 := by
  unfold processCtl
  split
  · exact l
  · split
    · split
      · exact l
      · exact { l with txLast := by intro t ht; cases ht }
    · split
      · split
        · exact l
        · exact { l with txLast := by intro t ht; cases ht }
      · exact { l with }

theorem tick_both (c : Cfg) (s : St) (h : Both c s) : Both c (tick c s).1 := by
  have hp : Both c (processCtl c s).1 := ⟨processCtl_inv c s h.1, processCtl_linv c s h.2⟩
  unfold tick
  split
  · exact h
  · simp only
    split
    · exact hp
    · split
      · exact ⟨dropOut_inv c _ hp.1, by unfold dropOut; exact { hp.2 with }⟩
      · exact runPipeline_both c _ hp

theorem step_both (c : Cfg) (s : St) (o : Op) (h : Both c s) : Both c (step c s o) := by
  refine ⟨step_inv c s o h.1, ?_⟩
  have l := h.2
  cases o with
  | tick => exact (tick_both c s h).2
  | top q => simp only [step]; split; exact { l with }; exact l
  | bot b p => simp only [step]; split; exact { l with }; exact l
  | ctl m => simp only [step]; split; exact { l with }; exact l
  | drainTop => exact { l with }
  | drainBot => exact { l with }
  | drainCtl => exact { l with }

theorem foldl_both (c : Cfg) (ops : List Op) (s : St) (h : Both c s) :
    Both c (ops.foldl (step c) s) := by
  induction ops generalizing s with
  | nil => exact h
  | cons o os ih => exact ih _ (step_both c s o h)

theorem run_both (c : Cfg) (ops : List Op) : Both c (run c ops) :=
  foldl_both c ops {} ⟨inv_init c, linv_init⟩

theorem run_linv (c : Cfg) (ops : List Op) : LInv (run c ops) := (run_both c ops).2

/-! ### the `delivered` and `fwd` logs only grow -/

/-- `s'` is a later state as far as the delivered / forwarded logs are concerned -/
def Keeps (s s' : St) : Prop :=
  (∀ d ∈ s.delivered, d ∈ s'.delivered) ∧ (∀ rb ∈ s.fwd, rb ∈ s'.fwd)

theorem Keeps.refl (s : St) : Keeps s s := ⟨fun _ h => h, fun _ h => h⟩

theorem Keeps.trans {a b c : St} (h1 : Keeps a b) (h2 : Keeps b c) : Keeps a c :=
  ⟨fun x hx => h2.1 x (h1.1 x hx), fun x hx => h2.2 x (h1.2 x hx)⟩

theorem Keeps.of_eq {s s' : St} (h1 : s'.delivered = s.delivered) (h2 : s'.fwd = s.fwd) :
    Keeps s s' := ⟨fun _ h => h1 ▸ h, fun _ h => h2 ▸ h⟩

theorem bottomUp_keeps (c : Cfg) (s : St) : Keeps s (bottomUp c s).1 := by
  unfold bottomUp
  repeat' split
  all_goals first
    | exact Keeps.of_eq rfl rfl
    | exact ⟨fun _ h => List.mem_append_left _ h, fun _ h => h⟩

theorem parseBottom_keeps (s : St) : Keeps s (parseBottom s).1 := by
  unfold parseBottom
  repeat' split
  all_goals exact Keeps.of_eq rfl rfl

theorem topDown_keeps (c : Cfg) (s : St) : Keeps s (topDown c s).1 := by
  unfold topDown
  repeat' split
  all_goals first
    | exact Keeps.of_eq rfl rfl
    | exact ⟨fun _ h => h, fun _ h => List.mem_append_left _ h⟩

theorem processCtl_keeps (c : Cfg) (s : St) : Keeps s (processCtl c s).1 := by
  unfold processCtl
  repeat' split
  all_goals exact Keeps.of_eq rfl rfl

theorem tick_keeps (c : Cfg) (s : St) : Keeps s (tick c s).1 := by
  have hp : Keeps (processCtl c s).1 (runPipeline c (processCtl c s).1).1 := by
    unfold runPipeline
    have h1 := iterP_rel Keeps.refl (fun _ _ _ => Keeps.trans) (bottomUp_keeps c) c.width
      ((processCtl c s).1, false)
    have h2 := iterP_rel Keeps.refl (fun _ _ _ => Keeps.trans) parseBottom_keeps c.width
      (iterP (bottomUp c) c.width ((processCtl c s).1, false))
    have h3 := iterP_rel Keeps.refl (fun _ _ _ => Keeps.trans) (topDown_keeps c) c.width
      (iterP parseBottom c.width (iterP (bottomUp c) c.width ((processCtl c s).1, false)))
    exact Keeps.trans (Keeps.trans h1 h2) h3
  unfold tick
  split
  · exact Keeps.refl _
  · simp only
    split
    · exact processCtl_keeps c s
    · split
      · exact Keeps.trans (processCtl_keeps c s) (Keeps.of_eq rfl rfl)
      · exact Keeps.trans (processCtl_keeps c s) hp

theorem step_keeps (c : Cfg) (s : St) (o : Op) : Keeps s (step c s o) := by
  cases o with
  | tick => exact tick_keeps c s
  | top q => simp only [step]; split <;> exact Keeps.of_eq rfl rfl
  | bot b p => simp only [step]; split <;> exact Keeps.of_eq rfl rfl
  | ctl m => simp only [step]; split <;> exact Keeps.of_eq rfl rfl
  | drainTop => exact Keeps.of_eq rfl rfl
  | drainBot => exact Keeps.of_eq rfl rfl
  | drainCtl => exact Keeps.of_eq rfl rfl

theorem foldl_keeps (c : Cfg) (ops : List Op) (s : St) : Keeps s (ops.foldl (step c) s) := by
  induction ops generalizing s with
  | nil => exact Keeps.refl _
  | cons o os ih => exact Keeps.trans (step_keeps c s o) (ih _)

/-- the answer a retired response carries stays the last logged one in every continuation -/
theorem final_core (c : Cfg) (s : St) (more : List Op) (h : Both c s) :
    ∀ d ∈ s.delivered, ∀ rb ∈ s.fwd, rb.1.id = d.rspTo →
      lastAns rb.2.id (more.foldl (step c) s).answered = some d.payload := by
  intro d hd rb hrb e
  have k := foldl_keeps c more s
  exact (foldl_both c more s h).2.delLast d (k.1 d hd) rb (k.2 rb hrb) e

/-! ### the closed system with a memory that answers more than once -/

/-- what one event of `sysStepMulti` does to the ROB component and to the requester's log -/
theorem sysStepMulti_cases (c : Cfg) (σ : Sys) (e : Ev) :
    ((sysStepMulti c σ e).rob = σ.rob ∨ ∃ op, (sysStepMulti c σ e).rob = step c σ.rob op) ∧
    ((sysStepMulti c σ e).out = σ.out ∨
      ∃ r, r ∈ σ.rob.topOut ∧ (sysStepMulti c σ e).out = σ.out ++ [r]) := by
  cases e with
  | tick => exact ⟨Or.inr ⟨.tick, rfl⟩, Or.inl rfl⟩
  | arrive q => exact ⟨Or.inr ⟨.top q, rfl⟩, Or.inl rfl⟩
  | memTake =>
    have e : sysStepMulti c σ .memTake = sysStep c σ .memTake := rfl
    rw [e]
    simp only [sysStep]
    split
    · exact ⟨Or.inl rfl, Or.inl rfl⟩
    · exact ⟨Or.inr ⟨.drainBot, rfl⟩, Or.inl rfl⟩
  | memAnswer j p =>
    simp only [sysStepMulti]
    split
    · exact ⟨Or.inl rfl, Or.inl rfl⟩
    · rename_i b _
      split
      · exact ⟨Or.inr ⟨.bot b.id p, rfl⟩, Or.inl rfl⟩
      · exact ⟨Or.inl rfl, Or.inl rfl⟩
  | ctl m => exact ⟨Or.inr ⟨.ctl m, rfl⟩, Or.inl rfl⟩
  | takeRsp =>
    have e : sysStepMulti c σ .takeRsp = sysStep c σ .takeRsp := rfl
    rw [e]
    simp only [sysStep]
    split
    · exact ⟨Or.inl rfl, Or.inl rfl⟩
    · rename_i r rest heq
      exact ⟨Or.inr ⟨.drainTop, rfl⟩, Or.inr ⟨r, by rw [heq]; exact List.mem_cons_self, rfl⟩⟩
  | takeAck => exact ⟨Or.inr ⟨.drainCtl, rfl⟩, Or.inl rfl⟩

/-- the ROB component is a `run`, and what the requester took was logged as delivered -/
structure MOk (c : Cfg) (σ : Sys) : Prop where
  isRun : ∃ ops, σ.rob = run c ops
  outDel : ∀ d ∈ σ.out, d ∈ σ.rob.delivered

theorem Inv.topOut_delivered {c : Cfg} {s : St} (h : Inv c s) : ∀ d ∈ s.topOut, d ∈ s.delivered := by
  intro d hd
  obtain ⟨pre, hpre⟩ := h.topOutDel
  rw [hpre]
  exact List.mem_append_right _ hd

theorem sysStepMulti_ok (c : Cfg) (σ : Sys) (e : Ev) (h : MOk c σ) : MOk c (sysStepMulti c σ e) := by
  obtain ⟨ops, ho⟩ := h.isRun
  have hi : Inv c σ.rob := ho ▸ run_inv c ops
  obtain ⟨hr, hout⟩ := sysStepMulti_cases c σ e
  have hk : Keeps σ.rob (sysStepMulti c σ e).rob := by
    rcases hr with hr | ⟨op, hr⟩
    · rw [hr]; exact Keeps.refl _
    · rw [hr]; exact step_keeps c _ op
  constructor
  · rcases hr with hr | ⟨op, hr⟩
    · exact ⟨ops, hr.trans ho⟩
    · exact ⟨ops ++ [op], by rw [hr, ho, run_append]; rfl⟩
  · intro d hd
    rcases hout with hout | ⟨r, hr1, hout⟩
    · rw [hout] at hd
      exact hk.1 d (h.outDel d hd)
    · rw [hout] at hd
      rcases List.mem_append.1 hd with hd | hd
      · exact hk.1 d (h.outDel d hd)
      · simp only [List.mem_singleton] at hd
        subst hd
        exact hk.1 d (hi.topOut_delivered d hr1)

theorem sysRunMulti_ok (c : Cfg) (evs : List Ev) : MOk c (sysRunMulti c evs) := by
  unfold sysRunMulti
  have key : ∀ (evs : List Ev) (σ : Sys), MOk c σ → MOk c (evs.foldl (sysStepMulti c) σ) := by
    intro evs
    induction evs with
    | nil => intro σ h; exact h
    | cons e es ih => intro σ h; exact ih _ (sysStepMulti_ok c σ e h)
  exact key evs {} ⟨⟨[], rfl⟩, by intro d hd; cases hd⟩

end C15
