import MgpuProofs.C09Pool1
/-! # C09 — dispatcher accounting invariant (`DC`), part 1: definitions and the effect of
    `algorithm.Next` / `dispatchNextWG` on one dispatcher. -/
namespace C09

/-- `disp` only looks at the dispatcher list -/
theorem disp_congr {cp cp' : CP} (h : cp'.disps = cp.disps) (j : Nat) : cp'.disp j = cp.disp j := by
  simp [CP.disp, h]

/-- accounting invariant of one dispatcher (`n` = the command processor's `nextReq`) -/
structure DC (n : Nat) (d : Disp) : Prop where
  /-- an idle dispatcher holds nothing and has nothing left to dispatch -/
  idle : d.kern = none → d.currWG = none ∧ d.inflight = [] ∧ d.alg.currWG = none ∧ d.alg.hasNext = false
  /-- the algorithm works on the dispatcher's kernel -/
  algK : ∀ k, d.kern = some k → d.alg.kern = some k
  /-- mapped + placed-but-unsent = placed -/
  cnt : ∀ k, d.kern = some k → d.nd + (if d.currWG.isSome then 1 else 0) = d.alg.numDispatched
  /-- never more placed than the grid has -/
  le : ∀ k, d.kern = some k → d.alg.numDispatched ≤ k.numWG
  /-- completed + in flight = mapped -/
  fl : ∀ k, d.kern = some k → d.nc + d.inflight.length = d.nd
  /-- the placed-but-unsent work-group is the next one of this kernel -/
  cur : ∀ k dl, d.kern = some k → d.currWG = some dl → dl.launch = k.id ∧ dl.idx = d.nd
  /-- the fetched-but-unplaced work-group is the next one and inside the grid -/
  acur : ∀ k key idx, d.kern = some k → d.alg.currWG = some (key, idx) →
    idx = d.alg.numDispatched ∧ d.alg.pos = idx + 1 ∧ idx < k.numWG
  /-- without a fetched work-group the grid cursor equals the number placed -/
  apos : ∀ k, d.kern = some k → d.alg.currWG = none → d.alg.pos = d.alg.numDispatched
  /-- request ids in flight are distinct -/
  ids : (d.inflight.map (·.1)).Nodup
  /-- request ids in flight were issued -/
  idlt : ∀ e ∈ d.inflight, e.1 < n

theorem DC.mono {n n' : Nat} {d : Disp} (h : DC n d) (hn : n ≤ n') : DC n' d :=
  { h with idlt := fun e he => Nat.lt_of_lt_of_le (h.idlt e he) hn }

theorem DC_default (n : Nat) : DC n default := by
  constructor <;> simp [default, Alg.hasNext, Alg.numWG]

/-- every dispatcher of the command processor satisfies `DC` -/
def DCI (cp : CP) : Prop := ∀ i, DC cp.nextReq (cp.disp i)

theorem disp_oob (cp : CP) (j : Nat) (h : ¬ j < cp.disps.length) : cp.disp j = default := by
  simp only [CP.disp, List.getD_eq_getElem?_getD]
  rw [List.getElem?_eq_none (by omega)]; rfl

/-- frame rule: a step that rewrites dispatcher `i` only (to `d'`) and does not lower `nextReq` -/
theorem DCI_frame {cp cp' : CP} (i : Nat) (d' : Disp) (h : DCI cp) (hn : cp.nextReq ≤ cp'.nextReq)
    (hd : ∀ j, cp'.disp j = if i = j ∧ i < cp.disps.length then d' else cp.disp j)
    (hi : DC cp'.nextReq d') : DCI cp' := by
  intro j
  rw [hd j]
  split
  · exact hi
  · exact (h j).mono hn

/-- relation between the algorithm state before / after `Next` and its result -/
def AlgStep (a a' : Alg) (res : Option DLoc) : Prop :=
  a'.kern = a.kern ∧
  ∀ k, a.kern = some k →
    (∀ dl, res = some dl → dl.launch = k.id ∧ a'.currWG = none ∧ a'.numDispatched = a.numDispatched + 1 ∧
      (a.currWG = none → dl.idx = a.pos ∧ a'.pos = a.pos + 1) ∧
      (∀ key idx, a.currWG = some (key, idx) → dl.idx = idx ∧ a'.pos = a.pos)) ∧
    (res = none → a'.numDispatched = a.numDispatched ∧
      (a.currWG = none → (∃ key, a'.currWG = some (key, a.pos)) ∧ a'.pos = a.pos + 1) ∧
      (∀ w, a.currWG = some w → a'.currWG = some w ∧ a'.pos = a.pos))

theorem algNext_kern_none (cp : CP) (i : Nat) (h : (cp.disp i).alg.kern = none) :
    algNext cp i = (cp, none) := by
  unfold algNext; simp only [h]

/-- `algorithm.Next` of dispatcher `i` rewrites only that dispatcher's algorithm state -/
theorem algNext_shape (cp : CP) (i : Nat) :
    ∃ a', (∀ j, (algNext cp i).1.disp j
        = if i = j ∧ i < cp.disps.length then { cp.disp i with alg := a' } else cp.disp j) ∧
      (algNext cp i).1.nextReq = cp.nextReq ∧ (algNext cp i).1.log = cp.log ∧
      (algNext cp i).1.disps.length = cp.disps.length ∧
      AlgStep (cp.disp i).alg a' (algNext cp i).2 := by
  cases hak : (cp.disp i).alg.kern with
  | none =>
    rw [algNext_kern_none cp i hak]
    refine ⟨(cp.disp i).alg, ?_, rfl, rfl, rfl, rfl, ?_⟩
    · intro j; split
      · rename_i h; obtain ⟨rfl, _⟩ := h; rfl
      · rfl
    · intro k hk; rw [hak] at hk; cases hk
  | some k =>
    unfold algNext
    simp only [hak]
    cases hc : (cp.disp i).alg.currWG with
    | none =>
      simp only []
      rcases ht : tryCUs cp.nextKey (k.dem (cp.disp i).alg.pos)
        (cuOrder cp.cfg.greedy cp.pool.length (cp.disp i).alg.nextCU) cp.pool with ⟨r, pool'⟩
      cases r with
      | placed c locs =>
        refine ⟨_, fun j => disp_setDisp _ i j _, rfl, rfl, by simp [CP.setDisp], ?_⟩
        simp [AlgStep, hak, hc]
      | none =>
        refine ⟨_, fun j => disp_setDisp _ i j _, rfl, rfl, by simp [CP.setDisp], ?_⟩
        simp [AlgStep, hak, hc]
      | fault =>
        refine ⟨_, fun j => disp_setDisp _ i j _, rfl, rfl, by simp [CP.setDisp], ?_⟩
        simp [AlgStep, hak, hc]
    | some w =>
      simp only []
      rcases ht : tryCUs w.1 (k.dem w.2)
        (cuOrder cp.cfg.greedy cp.pool.length (cp.disp i).alg.nextCU) cp.pool with ⟨r, pool'⟩
      cases r with
      | placed c locs =>
        refine ⟨_, fun j => disp_setDisp _ i j _, rfl, rfl, by simp [CP.setDisp], ?_⟩
        simp [AlgStep, hak, hc]
        intro key idx h; subst h; rfl
      | none =>
        refine ⟨_, fun j => disp_setDisp _ i j _, rfl, rfl, by simp [CP.setDisp], ?_⟩
        simp [AlgStep, hak, hc]
      | fault =>
        refine ⟨_, fun j => disp_setDisp _ i j _, rfl, rfl, by simp [CP.setDisp], ?_⟩
        simp [AlgStep, hak, hc]

end C09
