import MgpuProofs.C15Fair
/-! # C15 — liveness from the moment a request ARRIVES in the Top port's incoming buffer

Definitions only (the proofs are in `C15Arr.lean`). `muAll` measures the work left in and below the
ROB for **all** pending transactions; a request `a` still waiting in the Top port's incoming buffer
adds `kAcc` units for itself and for every request in front of it (`posIn`): accepting one request
costs less than `kAcc`. No event other than a control message increases `muIn`; the events of
`helpfulIn` decrease it. -/
namespace C15

/-- tickets of all pending transactions -/
def allIds (s : St) : List Nat := s.txs.map (·.botId)

/-- work left for all pending transactions: two units per transaction (retirement + a slot of the
    Top port), the occupancy of the Top port's and of the Bottom port's outgoing buffer, the
    copies the memory still has to answer (weighted by the Bottom port's incoming capacity + 1),
    the position of the last of their answers in the Bottom port's incoming buffer -/
def muAll (c : Cfg) (s : St) (m : List BReq) : Nat :=
  2 * s.txs.length + s.topOut.length + s.botOut.length
    + (c.botInCap + 1) * (cnt (allIds s) (s.botOut.map (·.id)) + cnt (allIds s) (m.map (·.id)))
    + lastPos (allIds s) (s.botIn.map (·.1))

/-- what accepting one request adds to `muAll`, plus one -/
def kAcc (c : Cfg) : Nat := c.botInCap + 5

/-- number of requests in the Top port's incoming buffer up to and including request `a` -/
def posIn (a : Nat) (l : List Req) : Nat := lastPos [a] (l.map (·.id))

def muIn (c : Cfg) (a : Nat) (s : St) (m : List BReq) : Nat := kAcc c * posIn a s.topIn + muAll c s m

/-- the window for a request `a` that waits in the Top port's incoming buffer -/
structure WinIn (c : Cfg) (a : Nat) (s : St) : Prop where
  nofault : s.fault = none
  noflush : s.flushing = false
  noctl : s.ctlIn = []
  waits : a ∈ s.topIn.map (·.id)
  srcs : ∀ t ∈ s.txs, t.req.src ≠ 0
  srcsIn : ∀ r ∈ s.topIn.take (posIn a s.topIn), r.src ≠ 0
  bu : c.bottomUnit = true

def canAccept (c : Cfg) (s : St) : Bool :=
  !s.topIn.isEmpty && decide (s.txs.length < c.cap) && decide (s.botOut.length < c.botOutCap)

/-- events that pay for a waiting request: a tick that can retire the head, consume an answer to a
    pending transaction or accept the head request of the Top port; the memory taking a forwarded
    copy; the memory's answer to a pending transaction's copy entering the Bottom port; the
    requester taking a response -/
def helpfulIn (c : Cfg) (σ : Sys) : Ev → Bool
  | .tick => readyB c σ.rob || decide (0 < lastPos (allIds σ.rob) (σ.rob.botIn.map (·.1))) || canAccept c σ.rob
  | .memTake => !σ.rob.botOut.isEmpty
  | .memAnswer j _ =>
    match σ.mem[j]? with
    | some b => decide (b.id ∈ allIds σ.rob) && decide (σ.rob.botIn.length < c.botInCap)
    | none => false
  | .takeRsp => !σ.rob.topOut.isEmpty
  | _ => false

def Sys.muIn (c : Cfg) (a : Nat) (σ : Sys) : Nat := C15.muIn c a σ.rob σ.mem

def helpfulInCount (c : Cfg) : Sys → List Ev → Nat
  | _, [] => 0
  | σ, e :: es => (if helpfulIn c σ e then 1 else 0) + helpfulInCount c (sysStep c σ e) es

instance (c : Cfg) (a : Nat) (s : St) : Decidable (WinIn c a s) := by
  refine decidable_of_iff
    (s.fault = none ∧ s.flushing = false ∧ s.ctlIn = [] ∧ a ∈ s.topIn.map (·.id) ∧
      (∀ t ∈ s.txs, t.req.src ≠ 0) ∧ (∀ r ∈ s.topIn.take (posIn a s.topIn), r.src ≠ 0) ∧ c.bottomUnit = true) ?_
  constructor
  · rintro ⟨a, b, c, d, e, f, g⟩; exact ⟨a, b, c, d, e, f, g⟩
  · rintro ⟨a, b, c, d, e, f, g⟩; exact ⟨a, b, c, d, e, f, g⟩

end C15
