import MgpuProofs.C10BuddyFull4
/-!
Buddy allocator, histories with frees — part 5: `levelOf`, `freeLoop`, `freeBlock`, `addSingle` preserve `FInv`.
-/
namespace C10.Buddy

/-- `levelOfBlock` finds the level of an existing, non-split block -/
theorem levelOf_eq {F : Nat} {s : State} (h : FInv F s) {l k : Nat} (hl : l ≤ F) (hk : k < 2 ^ l)
    (hex : Ex (SplitN F s) l k) (hns : ¬ SplitN F s l k) :
    ∀ n r, l ≤ n → n ≤ F → levelOf s (addr s.base F l k) n = .ok r → r = l := by
  intro n
  induction n with
  | zero =>
    intro r hln _ hr
    simp only [levelOf] at hr
    injection hr with hr
    omega
  | succ n ih =>
    intro r hln hnF hr
    simp only [levelOf] at hr
    rcases Nat.lt_or_ge n l with hlt | hge
    · have e : l = n + 1 := by omega
      subst e
      have ei : indexOfBlock s.base s.size (addr s.base F (n + 1) k) n = ix n (k / 2) := by
        rw [h.hsize]; exact index_parent hl
      rw [ei] at hr
      have hsp : ix n (k / 2) ∈ s.split := (hex n rfl).2
      by_cases hb : ix n (k / 2) < s.nbits
      · rw [if_pos hb, if_pos hsp] at hr
        injection hr with hr
        exact hr.symm
      · rw [if_neg hb] at hr
        cases hr
    · obtain ⟨d, rfl⟩ : ∃ d, n = l + d := ⟨n - l, by omega⟩
      have ea := addr_desc (base := s.base) (F := F) (l := l) (k := k) d (by omega)
      have ei : indexOfBlock s.base s.size (addr s.base F l k) (l + d) = ix (l + d) (k * 2 ^ d) := by
        rw [h.hsize, ← ea]; exact index_self (by omega)
      rw [ei] at hr
      have hkk : k * 2 ^ d < 2 ^ (l + d) := by
        rw [Nat.pow_add]
        exact Nat.mul_lt_mul_of_pos_right hk (Nat.pow_pos (by decide))
      have hnsp : ix (l + d) (k * 2 ^ d) ∉ s.split := by
        intro hin
        have hs : SplitN F s (l + d) (k * 2 ^ d) := ⟨by omega, hin⟩
        cases d with
        | zero => simp at hs; exact hns hs
        | succ d =>
          have hex' := h.tree.B _ _ (by omega) hkk hs
          have := h.tree.anc d l _ (by omega) hkk hex'
          rw [Nat.mul_div_cancel _ (Nat.pow_pos (by decide))] at this
          exact hns this
      by_cases hb : ix (l + d) (k * 2 ^ d) < s.nbits
      · rw [if_pos hb, if_neg hnsp] at hr
        exact ih r (by omega) (by omega) hr
      · rw [if_neg hb] at hr
        cases hr

theorem freeLoop_succ {lv a : Nat} {s s' : State} (h : freeLoop (lv + 1) a s = .ok s') :
    (indexOfBlock s.base s.size a lv ∈ toggle s.merge (indexOfBlock s.base s.size a lv) ∧
      s' = push { s with merge := toggle s.merge (indexOfBlock s.base s.size a lv) } (lv + 1) a) ∨
    (indexOfBlock s.base s.size a lv ∉ toggle s.merge (indexOfBlock s.base s.size a lv) ∧
      freeLoop lv (if buddyOf s.base s.size a (lv + 1) < a then buddyOf s.base s.size a (lv + 1) else a)
        { s with merge := toggle s.merge (indexOfBlock s.base s.size a lv),
                 split := toggle s.split (indexOfBlock s.base s.size a lv),
                 free := setLvl s.free (lv + 1) ((lvl s.free (lv + 1)).erase (buddyOf s.base s.size a (lv + 1))) }
        = .ok s') := by
  simp only [freeLoop, flipMerge, flipSplit] at h
  by_cases hc : indexOfBlock s.base s.size a lv < s.nbits
  · simp only [hc, if_true] at h
    by_cases hm : indexOfBlock s.base s.size a lv ∈ toggle s.merge (indexOfBlock s.base s.size a lv)
    · left
      simp only [hm, if_true] at h
      injection h with h
      exact ⟨hm, h.symm⟩
    · right
      simp only [hm, if_false] at h
      exact ⟨hm, h⟩
  · simp only [hc, if_false] at h
    cases h

theorem finv_freeLoop {F : Nat} : ∀ (L k : Nat) (s s' : State), FInv F s → L ≤ F → k < 2 ^ L →
    UsedN F s L k → NoTrk F s L k → freeLoop L (addr s.base F L k) s = .ok s' →
    FInv F s' ∧ s'.base = s.base ∧ s'.track = s.track ∧ s'.trk = s.trk := by
  intro L
  induction L with
  | zero =>
    intro k s s' h _ hk hu hnt hs
    have e : k = 0 := by simpa using hk
    subst e
    simp only [freeLoop] at hs
    injection hs with hs
    subst hs
    exact ⟨finv_free_root (s' := push s 0 (addr s.base F 0 0)) h hu hnt rfl rfl rfl rfl rfl rfl rfl, rfl, rfl, rfl⟩
  | succ lv ih =>
    intro k s s' h hl hk hu hnt hs
    have pl := pow_succ2 lv
    have ei : indexOfBlock s.base s.size (addr s.base F (lv + 1) k) lv = ix lv (k / 2) := by
      rw [h.hsize]; exact index_parent hl
    have eb : buddyOf s.base s.size (addr s.base F (lv + 1) k) (lv + 1) = addr s.base F (lv + 1) (bud k) := by
      rw [h.hsize]; exact buddy_addr hl
    have hmt : ix lv (k / 2) ∈ toggle s.merge (ix lv (k / 2)) ↔ ¬ MergeN s lv (k / 2) := by
      rw [mem_toggle h.mnodup, if_pos rfl]
      rfl
    rcases freeLoop_succ hs with ⟨hm, rfl⟩ | ⟨hm, hs⟩
    · rw [ei] at hm ⊢
      exact ⟨finv_free_stop h hl hk hu hnt (hmt.mp hm) rfl rfl rfl rfl rfl rfl rfl, rfl, rfl, rfl⟩
    · rw [ei, eb, min_buddy_addr hl] at hs
      rw [ei] at hm
      have hmg : MergeN s lv (k / 2) := Classical.not_not.mp (fun hn => hm (hmt.mpr hn))
      obtain ⟨h1, u1, n1⟩ := finv_free_merge
        (s' := { s with merge := toggle s.merge (ix lv (k / 2)), split := toggle s.split (ix lv (k / 2)),
                        free := setLvl s.free (lv + 1) ((lvl s.free (lv + 1)).erase (addr s.base F (lv + 1) (bud k))) })
        h hl hk hu hnt hmg rfl rfl rfl rfl rfl rfl rfl
      have := ih (k / 2) _ s' h1 (by omega) (by omega) u1 n1 hs
      exact this

theorem finv_freeBlock {F : Nat} {s s' : State} {l k : Nat} (h : FInv F s) (hl : l ≤ F) (hk : k < 2 ^ l)
    (hu : UsedN F s l k) (hnt : NoTrk F s l k) (hs : freeBlock s (addr s.base F l k) = .ok s') :
    FInv F s' ∧ s'.base = s.base ∧ s'.track = s.track ∧ s'.trk = s.trk := by
  unfold freeBlock at hs
  split at hs
  · cases hs
  · rename_i level hlev
    have := levelOf_eq h hl hk hu.1 hu.2.1 (s.free.length - 1) level (by rw [h.hlen]; omega) (by rw [h.hlen]; omega) hlev
    subst this
    exact finv_freeLoop _ k s s' h hl hk hu hnt hs

/-! ## addSinglePAddr -/

theorem filter_remove_count (p id : Nat) : ∀ (t : List (Nat × Nat)), (p, id) ∈ t →
    ((t.filter (fun e => e.1 != p)).filter (fun e => e.2 == id)).length + 1 ≤ (t.filter (fun e => e.2 == id)).length := by
  intro t
  induction t with
  | nil => intro h; cases h
  | cons e t ih =>
    intro h
    have hsub : ((t.filter (fun e => e.1 != p)).filter (fun e => e.2 == id)).length ≤
        (t.filter (fun e => e.2 == id)).length :=
      (List.filter_sublist.filter _).length_le
    rcases List.mem_cons.mp h with h | h
    · subst h
      simp only [List.filter_cons, bne_self_eq_false, Bool.false_eq_true, if_false, beq_self_eq_true, if_true,
        List.length_cons]
      omega
    · have := ih h
      obtain ⟨q, j⟩ := e
      simp only [List.filter_cons]
      by_cases c1 : (q != p) = true <;> by_cases c2 : (j == id) = true <;>
        simp only [c1, c2, if_true, if_false, List.filter_cons, List.length_cons, Bool.false_eq_true] <;> omega

/-- a tracked page is taken out of the map and the page count of its tracker decremented -/
theorem finv_untrack {F : Nat} {s : State} (h : FInv F s) {p id ia num : Nat} (hp : (p, id) ∈ s.track)
    (he : s.trk[id]? = some (ia, num)) :
    FInv F { s with track := s.track.filter (fun e => e.1 != p), trk := s.trk.set id (ia, num - 1) } ∧
    (num = 1 → ∀ q, (q, id) ∉ s.track.filter (fun e => e.1 != p)) := by
  have hid : id < s.trk.length := by
    rcases Nat.lt_or_ge id s.trk.length with hh | hh
    · exact hh
    · rw [List.getElem?_eq_none hh] at he
      cases he
  have hfwd : ∀ (j a n : Nat), s.trk[j]? = some (a, n) → ∃ n', (s.trk.set id (ia, num - 1))[j]? = some (a, n') := by
    intro j a n e
    rw [List.getElem?_set]
    by_cases c : id = j
    · subst c
      rw [he] at e
      injection e with e
      injection e with e1 e2
      subst e1
      rw [if_pos rfl, if_pos hid]
      exact ⟨_, rfl⟩
    · rw [if_neg c]
      exact ⟨n, e⟩
  have hbwd : ∀ (j a n : Nat), (s.trk.set id (ia, num - 1))[j]? = some (a, n) → ∃ n', s.trk[j]? = some (a, n') := by
    intro j a n e
    rw [List.getElem?_set] at e
    by_cases c : id = j
    · subst c
      rw [if_pos rfl, if_pos hid] at e
      injection e with e
      injection e with e1 e2
      subst e1
      exact ⟨num, he⟩
    · rw [if_neg c] at e
      exact ⟨n, e⟩
  have hcnt : ∀ (j a n : Nat), (s.trk.set id (ia, num - 1))[j]? = some (a, n) →
      ((s.track.filter (fun e => e.1 != p)).filter (fun e => e.2 == j)).length ≤ n := by
    intro j a n e
    rw [List.getElem?_set] at e
    by_cases c : id = j
    · subst c
      rw [if_pos rfl, if_pos hid] at e
      injection e with e
      injection e with e1 e2
      have c1 := filter_remove_count p id s.track hp
      have c2 := h.Dcnt id ia num he
      omega
    · rw [if_neg c] at e
      have c2 := h.Dcnt j a n e
      have c1 : ((s.track.filter (fun e => e.1 != p)).filter (fun e => e.2 == j)).length ≤
          (s.track.filter (fun e => e.2 == j)).length := (List.filter_sublist.filter _).length_le
      omega
  refine ⟨⟨h.hsize, h.hlen, h.fnode, h.fnodup, h.snodup, h.mnodup, h.tree, ?_, ?_, ?_⟩, ?_⟩
  · intro q j hq
    have hq' : (q, j) ∈ s.track := (List.mem_filter.mp hq).1
    obtain ⟨l, k, n, hl, hk, e, hu, g1, g2⟩ := h.D q j hq'
    obtain ⟨n', e'⟩ := hfwd j _ _ e
    exact ⟨l, k, n', hl, hk, e', hu, g1, g2⟩
  · intro p1 id1 p2 id2 a n1 n2 h1 h2 e1 e2
    obtain ⟨n1', e1'⟩ := hbwd _ _ _ e1
    obtain ⟨n2', e2'⟩ := hbwd _ _ _ e2
    exact h.Dinj p1 id1 p2 id2 a n1' n2' (List.mem_filter.mp h1).1 (List.mem_filter.mp h2).1 e1' e2'
  · exact hcnt
  · intro hn q hq
    have e : (s.trk.set id (ia, num - 1))[id]? = some (ia, num - 1) := by
      rw [List.getElem?_set, if_pos rfl, if_pos hid]
    have c := hcnt id ia (num - 1) e
    have hq' : (q, id) ∈ (s.track.filter (fun e => e.1 != p)).filter (fun e => e.2 == id) :=
      List.mem_filter.mpr ⟨hq, by simp⟩
    have : 0 < ((s.track.filter (fun e => e.1 != p)).filter (fun e => e.2 == id)).length :=
      List.length_pos_of_mem hq'
    omega

theorem finv_addSingle {F : Nat} {s s' : State} {p : Nat} (h : FInv F s) (ha : addSingle s p = .ok s') :
    FInv F s' ∧ s'.base = s.base ∧
      ∀ q, q ≠ p → (∃ id, (q, id) ∈ s.track) → ∃ id, (q, id) ∈ s'.track := by
  unfold addSingle at ha
  split at ha
  · injection ha with ha
    subst ha
    exact ⟨h, rfl, fun q _ hq => hq⟩
  · rename_i p0 id hfind
    have hp0 : p0 = p := by simpa using List.find?_some hfind
    subst hp0
    have hp : (p0, id) ∈ s.track := List.mem_of_find?_eq_some hfind
    obtain ⟨l, k, num, hl, hk, e, hu, g1, g2⟩ := h.D p0 id hp
    simp only [e] at ha
    obtain ⟨f2, hzero⟩ := finv_untrack h hp e
    have hkeep : ∀ q, q ≠ p0 → (∃ id, (q, id) ∈ s.track) →
        ∃ id, (q, id) ∈ s.track.filter (fun e => e.1 != p0) := by
      intro q hq ⟨j, hj⟩
      exact ⟨j, List.mem_filter.mpr ⟨hj, by simpa using hq⟩⟩
    split at ha
    · rename_i hnum
      have hnt : NoTrk F
          { s with track := s.track.filter (fun e => e.1 != p0), trk := s.trk.set id (addr s.base F l k, num - 1) }
          l k := by
        intro q j hq hin
        have hq' : (q, j) ∈ s.track := (List.mem_filter.mp hq).1
        obtain ⟨l', k', num', hl', hk', e', hu', g1', g2'⟩ := h.D q j hq'
        obtain ⟨q1, q2⟩ := leaf_overlap h.tree hl hk hl' hk' hu.1 hu.2.1 hu'.1 hu'.2.1 hin.1 hin.2 g1' g2'
        subst q1; subst q2
        have := h.Dinj p0 id q j _ _ _ hp hq' e e'
        subst this
        exact hzero hnum q hq
      obtain ⟨f3, b3, t3, k3⟩ := finv_freeBlock (l := l) (k := k) f2 hl hk hu hnt ha
      refine ⟨f3, b3, ?_⟩
      intro q hq hex
      rw [t3]
      exact hkeep q hq hex
    · injection ha with ha
      subst ha
      exact ⟨f2, rfl, hkeep⟩

end C10.Buddy
