import MgpuModel.C05
/-! Helper lemmas for C05: order-independence of "first match" and "last insertion wins". -/
namespace C05

/-- first match is the same in every order when at most one element matches -/
theorem find?_perm_of_unique {α : Type} (p : α → Bool) (l₁ l₂ : List α) (hp : l₁.Perm l₂)
    (hu : ∀ a ∈ l₁, ∀ b ∈ l₁, p a = true → p b = true → a = b) : l₁.find? p = l₂.find? p := by
  cases h1 : l₁.find? p with
  | none =>
    cases h2 : l₂.find? p with
    | none => rfl
    | some g =>
      have hg := List.mem_of_find?_eq_some h2
      have hpg : p g = true := List.find?_some h2
      rw [List.find?_eq_none] at h1
      exact absurd hpg (by simpa using h1 g (hp.symm.subset hg))
  | some f =>
    have hf := List.mem_of_find?_eq_some h1
    have hpf : p f = true := List.find?_some h1
    cases h2 : l₂.find? p with
    | none =>
      rw [List.find?_eq_none] at h2
      exact absurd hpf (by simpa using h2 f (hp.subset hf))
    | some g =>
      have hg := List.mem_of_find?_eq_some h2
      have hpg : p g = true := List.find?_some h2
      rw [hu f hf g (hp.symm.subset hg) hpf hpg]

/-- all devices produced by `register` start at or after `total` -/
theorem register_base_ge (szs : List Nat) (id total : Nat) :
    ∀ d ∈ register szs id total, total ≤ d.base := by
  induction szs generalizing id total with
  | nil => simp [register]
  | cons s rest ih =>
    intro d hd
    simp only [register, List.mem_cons] at hd
    rcases hd with rfl | hd
    · exact Nat.le_refl _
    · exact Nat.le_trans (Nat.le_add_right _ _) (ih _ _ d hd)

/-- device ranges registered by `RegisterDevice` never overlap: an address lies on at most one -/
theorem register_unique (szs : List Nat) (id total p : Nat) :
    ∀ a ∈ register szs id total, ∀ b ∈ register szs id total,
      onDevice p a = true → onDevice p b = true → a = b := by
  induction szs generalizing id total with
  | nil => simp [register]
  | cons s rest ih =>
    intro a ha b hb pa pb
    simp only [register, List.mem_cons] at ha hb
    simp only [onDevice, Bool.and_eq_true, decide_eq_true_eq] at pa pb
    rcases ha with rfl | ha <;> rcases hb with rfl | hb
    · rfl
    · have := register_base_ge rest (id + 1) (total + s) b hb
      simp only at pa
      omega
    · have := register_base_ge rest (id + 1) (total + s) a ha
      simp only at pb
      omega
    · exact ih _ _ a ha b hb (by simp [onDevice, pa]) (by simp [onDevice, pb])

/-- `lookupLast` finds a pair iff it is present, when keys are pairwise distinct -/
theorem lookupLast_of_mem (m : List (Nat × Nat)) (hk : (m.map (·.1)).Nodup) (kv : Nat × Nat)
    (h : kv ∈ m) : lookupLast m kv.1 = some kv.2 := by
  unfold lookupLast
  suffices H : ∀ (l : List (Nat × Nat)) (acc : Option Nat), (l.map (·.1)).Nodup →
      (kv ∈ l ∨ (acc = some kv.2 ∧ ∀ x ∈ l, x.1 ≠ kv.1)) →
      l.foldl (fun acc x => if x.1 == kv.1 then some x.2 else acc) acc = some kv.2 from
    H m none hk (Or.inl h)
  intro l
  induction l with
  | nil =>
    intro acc _ h
    rcases h with h | h
    · simp at h
    · simpa using h.1
  | cons a as ih =>
    intro acc hnd h
    simp only [List.map_cons, List.nodup_cons] at hnd
    simp only [List.foldl]
    rcases h with h | h
    · rcases List.mem_cons.mp h with rfl | h
      · simp only [BEq.rfl, if_true]
        apply ih _ hnd.2
        right
        refine ⟨rfl, ?_⟩
        intro x hx he
        exact hnd.1 (by rw [← he]; exact List.mem_map_of_mem hx)
      · have hne : ¬ (a.1 == kv.1) = true := by
          intro hc
          have : a.1 = kv.1 := by simpa using hc
          exact hnd.1 (by rw [this]; exact List.mem_map_of_mem h)
        simp only [hne]
        exact ih _ hnd.2 (Or.inl h)
    · have hne : ¬ (a.1 == kv.1) = true := by
        intro hc
        exact h.2 a List.mem_cons_self (by simpa using hc)
      simp only [hne]
      exact ih _ hnd.2 (Or.inr ⟨h.1, fun x hx => h.2 x (List.mem_cons_of_mem _ hx)⟩)

theorem lookupLast_none (m : List (Nat × Nat)) (k : Nat) (h : ∀ x ∈ m, x.1 ≠ k) :
    lookupLast m k = none := by
  unfold lookupLast
  suffices H : ∀ (l : List (Nat × Nat)), (∀ x ∈ l, x.1 ≠ k) →
      l.foldl (fun acc x => if x.1 == k then some x.2 else acc) none = none from H m h
  intro l
  induction l with
  | nil => intro _; rfl
  | cons a as ih =>
    intro h
    simp only [List.foldl]
    have : ¬ (a.1 == k) = true := by
      intro hc; exact h a List.mem_cons_self (by simpa using hc)
    simp only [this]
    exact ih (fun x hx => h x (List.mem_cons_of_mem _ hx))

/-- a map built by inserting entries with pairwise distinct keys does not depend on the order -/
theorem lookupLast_perm (m₁ m₂ : List (Nat × Nat)) (hp : m₁.Perm m₂) (hk : (m₁.map (·.1)).Nodup)
    (k : Nat) : lookupLast m₁ k = lookupLast m₂ k := by
  have hk2 : (m₂.map (·.1)).Nodup := (hp.map _).nodup_iff.mp hk
  by_cases h : ∃ kv ∈ m₁, kv.1 = k
  · obtain ⟨kv, hm, rfl⟩ := h
    rw [lookupLast_of_mem m₁ hk kv hm, lookupLast_of_mem m₂ hk2 kv (hp.subset hm)]
  · have h1 : ∀ x ∈ m₁, x.1 ≠ k := fun x hx he => h ⟨x, hx, he⟩
    have h2 : ∀ x ∈ m₂, x.1 ≠ k := fun x hx => h1 x (hp.symm.subset hx)
    rw [lookupLast_none m₁ k h1, lookupLast_none m₂ k h2]

end C05
