import MgpuModel.C05
/-! Helper lemmas for C05: order-independence of "first match" and "last insertion wins". -/
namespace C05

/-- first match is the same in every order when at most one element matches -/
theorem find?_perm_of_unique {α : Type} (p : α → Bool) (l₁ l₂ : List α) (hp : l₁.Perm l₂)
    (hu : ∀ a ∈ l₁, ∀ b ∈ l₁, p a = true → p b = true → a = b) : l₁.find? p = l₂.find? p := by
  cases h1 : l₁.find? p with
  | none =>
    cases h2 : l₂.find? p with
    | none => rfl
    | some g =>
      have hg := List.mem_of_find?_eq_some h2
      have hpg : p g = true := List.find?_some h2
      rw [List.find?_eq_none] at h1
      exact absurd hpg (by simpa using h1 g (hp.symm.subset hg))
  | some f =>
    have hf := List.mem_of_find?_eq_some h1
    have hpf : p f = true := List.find?_some h1
    cases h2 : l₂.find? p with
    | none =>
      rw [List.find?_eq_none] at h2
      exact absurd hpf (by simpa using h2 f (hp.subset hf))
    | some g =>
      have hg := List.mem_of_find?_eq_some h2
      have hpg : p g = true := List.find?_some h2
      rw [hu f hf g (hp.symm.subset hg) hpf hpg]

/-- all devices produced by `register` start at or after `total` -/
theorem register_base_ge (szs : List Nat) (id total : Nat) :
    ∀ d ∈ register szs id total, total ≤ d.base := by
  induction szs generalizing id total with
  | nil => simp [register]
  | cons s rest ih =>
    intro d hd
    simp only [register, List.mem_cons] at hd
    rcases hd with rfl | hd
    · exact Nat.le_refl _
    · exact Nat.le_trans (Nat.le_add_right _ _) (ih _ _ d hd)

/-- device ranges registered by `RegisterDevice` never overlap: an address lies on at most one -/
theorem register_unique (szs : List Nat) (id total p : Nat) :
    ∀ a ∈ register szs id total, ∀ b ∈ register szs id total,
      onDevice p a = true → onDevice p b = true → a = b := by
  induction szs generalizing id total with
  | nil => simp [register]
  | cons s rest ih =>
    intro a ha b hb pa pb
    simp only [register, List.mem_cons] at ha hb
    simp only [onDevice, Bool.and_eq_true, decide_eq_true_eq] at pa pb
    rcases ha with rfl | ha <;> rcases hb with rfl | hb
    · rfl
    · have := register_base_ge rest (id + 1) (total + s) b hb
      simp only at pa
      omega
    · have := register_base_ge rest (id + 1) (total + s) a ha
      simp only at pb
      omega
    · exact ih _ _ a ha b hb (by simp [onDevice, pa]) (by simp [onDevice, pb])

/-- `lookupLast` finds a pair iff it is present, when keys are pairwise distinct -/
theorem lookupLast_of_mem (m : List (Nat × Nat)) (hk : (m.map (·.1)).Nodup) (kv : Nat × Nat)
    (h : kv ∈ m) : lookupLast m kv.1 = some kv.2 := by
  unfold lookupLast
  suffices H : ∀ (l : List (Nat × Nat)) (acc : Option Nat), (l.map (·.1)).Nodup →
      (kv ∈ l ∨ (acc = some kv.2 ∧ ∀ x ∈ l, x.1 ≠ kv.1)) →
      l.foldl (fun acc x => if x.1 == kv.1 then some x.2 else acc) acc = some kv.2 from
    H m none hk (Or.inl h)
  intro l
  induction l with
  | nil =>
    intro acc _ h
    rcases h with h | h
    · simp at h
    · simpa using h.1
  | cons a as ih =>
    intro acc hnd h
    simp only [List.map_cons, List.nodup_cons] at hnd
    simp only [List.foldl]
    rcases h with h | h
    · rcases List.mem_cons.mp h with rfl | h
      · simp only [BEq.rfl, if_true]
        apply ih _ hnd.2
        right
        refine ⟨rfl, ?_⟩
        intro x hx he
        exact hnd.1 (by rw [← he]; exact List.mem_map_of_mem hx)
      · have hne : ¬ (a.1 == kv.1) = true := by
          intro hc
          have : a.1 = kv.1 := by simpa using hc
          exact hnd.1 (by rw [this]; exact List.mem_map_of_mem h)
        simp only [hne]
        exact ih _ hnd.2 (Or.inl h)
    · have hne : ¬ (a.1 == kv.1) = true := by
        intro hc
        exact h.2 a List.mem_cons_self (by simpa using hc)
      simp only [hne]
      exact ih _ hnd.2 (Or.inr ⟨h.1, fun x hx => h.2 x (List.mem_cons_of_mem _ hx)⟩)

theorem lookupLast_none (m : List (Nat × Nat)) (k : Nat) (h : ∀ x ∈ m, x.1 ≠ k) :
    lookupLast m k = none := by
  unfold lookupLast
  suffices H : ∀ (l : List (Nat × Nat)), (∀ x ∈ l, x.1 ≠ k) →
      l.foldl (fun acc x => if x.1 == k then some x.2 else acc) none = none from H m h
  intro l
  induction l with
  | nil => intro _; rfl
  | cons a as ih =>
    intro h
    simp only [List.foldl]
    have : ¬ (a.1 == k) = true := by
      intro hc; exact h a List.mem_cons_self (by simpa using hc)
    simp only [this]
    exact ih (fun x hx => h x (List.mem_cons_of_mem _ hx))

/-- a map built by inserting entries with pairwise distinct keys does not depend on the order -/
theorem lookupLast_perm (m₁ m₂ : List (Nat × Nat)) (hp : m₁.Perm m₂) (hk : (m₁.map (·.1)).Nodup)
    (k : Nat) : lookupLast m₁ k = lookupLast m₂ k := by
  have hk2 : (m₂.map (·.1)).Nodup := (hp.map _).nodup_iff.mp hk
  by_cases h : ∃ kv ∈ m₁, kv.1 = k
  · obtain ⟨kv, hm, rfl⟩ := h
    rw [lookupLast_of_mem m₁ hk kv hm, lookupLast_of_mem m₂ hk2 kv (hp.subset hm)]
  · have h1 : ∀ x ∈ m₁, x.1 ≠ k := fun x hx he => h ⟨x, hx, he⟩
    have h2 : ∀ x ∈ m₂, x.1 ≠ k := fun x hx => h1 x (hp.symm.subset hx)
    rw [lookupLast_none m₁ k h1, lookupLast_none m₂ k h2]

/-! ## generic "last insertion wins" (any key / value types), with an initial prefix -/

/-- the fold of `lookupLastG` started from any accumulator -/
theorem lookupG_foldl {κ ν : Type} [DecidableEq κ] (l : List (κ × ν)) (k : κ) (acc : Option ν) :
    l.foldl (fun acc kv => if kv.1 = k then some kv.2 else acc) acc = (lookupLastG l k).or acc := by
  unfold lookupLastG
  induction l generalizing acc with
  | nil => simp
  | cons a as ih =>
    simp only [List.foldl]
    rw [ih, ih (if a.1 = k then some a.2 else none)]
    cases h : List.foldl (fun acc kv => if kv.1 = k then some kv.2 else acc) none as with
    | some v => simp
    | none => by_cases hk : a.1 = k <;> simp [hk]

theorem lookupLastG_append {κ ν : Type} [DecidableEq κ] (p l : List (κ × ν)) (k : κ) :
    lookupLastG (p ++ l) k = (lookupLastG l k).or (lookupLastG p k) := by
  show List.foldl _ none (p ++ l) = _
  rw [List.foldl_append, lookupG_foldl]
  rfl

theorem lookupLastG_of_mem {κ ν : Type} [DecidableEq κ] (m : List (κ × ν)) (hk : (m.map (·.1)).Nodup)
    (kv : κ × ν) (h : kv ∈ m) : lookupLastG m kv.1 = some kv.2 := by
  induction m with
  | nil => simp at h
  | cons a as ih =>
    simp only [List.map_cons, List.nodup_cons] at hk
    have hsplit : lookupLastG (a :: as) kv.1 = (lookupLastG as kv.1).or (lookupLastG [a] kv.1) :=
      lookupLastG_append [a] as kv.1
    rw [hsplit]
    rcases List.mem_cons.mp h with rfl | h
    · -- no later entry has this key
      have hnone : lookupLastG as kv.1 = none := by
        unfold lookupLastG
        suffices H : ∀ (l : List (κ × ν)), (∀ x ∈ l, x.1 ≠ kv.1) →
            l.foldl (fun acc x => if x.1 = kv.1 then some x.2 else acc) none = none from
          H as (fun x hx he => hk.1 (by rw [← he]; exact List.mem_map_of_mem hx))
        intro l
        induction l with
        | nil => intro _; rfl
        | cons b bs ihb =>
          intro hb
          simp only [List.foldl]
          have : ¬ b.1 = kv.1 := hb b List.mem_cons_self
          simp only [this, if_false]
          exact ihb (fun x hx => hb x (List.mem_cons_of_mem _ hx))
      rw [hnone]
      simp [lookupLastG]
    · rw [ih hk.2 h]; simp

theorem lookupLastG_none {κ ν : Type} [DecidableEq κ] (m : List (κ × ν)) (k : κ)
    (h : ∀ x ∈ m, x.1 ≠ k) : lookupLastG m k = none := by
  unfold lookupLastG
  induction m with
  | nil => rfl
  | cons a as ih =>
    simp only [List.foldl]
    have : ¬ a.1 = k := h a List.mem_cons_self
    simp only [this, if_false]
    exact ih (fun x hx => h x (List.mem_cons_of_mem _ hx))

/-- a map built by inserting entries with pairwise distinct keys does not depend on the order -/
theorem lookupLastG_perm {κ ν : Type} [DecidableEq κ] (m₁ m₂ : List (κ × ν)) (hp : m₁.Perm m₂)
    (hk : (m₁.map (·.1)).Nodup) (k : κ) : lookupLastG m₁ k = lookupLastG m₂ k := by
  have hk2 : (m₂.map (·.1)).Nodup := (hp.map _).nodup_iff.mp hk
  by_cases h : ∃ kv ∈ m₁, kv.1 = k
  · obtain ⟨kv, hm, rfl⟩ := h
    rw [lookupLastG_of_mem m₁ hk kv hm, lookupLastG_of_mem m₂ hk2 kv (hp.subset hm)]
  · have h1 : ∀ x ∈ m₁, x.1 ≠ k := fun x hx he => h ⟨x, hx, he⟩
    have h2 : ∀ x ∈ m₂, x.1 ≠ k := fun x hx => h1 x (hp.symm.subset hx)
    rw [lookupLastG_none m₁ k h1, lookupLastG_none m₂ k h2]

/-- … also after a fixed prefix of earlier insertions (`stack["total"] = …` before the loop) -/
theorem lookupLastG_prefix_perm {κ ν : Type} [DecidableEq κ] (p m₁ m₂ : List (κ × ν)) (hp : m₁.Perm m₂)
    (hk : (m₁.map (·.1)).Nodup) (k : κ) : lookupLastG (p ++ m₁) k = lookupLastG (p ++ m₂) k := by
  rw [lookupLastG_append, lookupLastG_append, lookupLastG_perm m₁ m₂ hp hk k]

/-! ## insertion sort of strings -/

theorem insertStr_perm (x : String) (l : List String) : (insertStr x l).Perm (x :: l) := by
  induction l with
  | nil => exact List.Perm.refl _
  | cons y ys ih =>
    simp only [insertStr]
    split
    · exact List.Perm.refl _
    · exact (List.Perm.cons y ih).trans (List.Perm.swap x y ys)

theorem sortStr_perm (l : List String) : (sortStr l).Perm l := by
  induction l with
  | nil => exact List.Perm.refl _
  | cons x xs ih =>
    show (insertStr x (sortStr xs)).Perm (x :: xs)
    exact (insertStr_perm x _).trans (List.Perm.cons x ih)

theorem str_le_total (a b : String) : a ≤ b ∨ b ≤ a := by
  by_cases h : b < a
  · exact Or.inr (fun h2 => String.lt_asymm h h2)
  · exact Or.inl h

theorem insertStr_sorted (x : String) (l : List String) (h : l.Pairwise (· ≤ ·)) :
    (insertStr x l).Pairwise (· ≤ ·) := by
  induction l with
  | nil => simp [insertStr]
  | cons y ys ih =>
    simp only [insertStr]
    rw [List.pairwise_cons] at h
    split
    · rename_i hxy
      refine List.pairwise_cons.mpr ⟨?_, List.pairwise_cons.mpr h⟩
      intro z hz
      rcases List.mem_cons.mp hz with rfl | hz
      · exact hxy
      · exact String.le_trans hxy (h.1 z hz)
    · rename_i hxy
      have hyx : y ≤ x := (str_le_total x y).resolve_left hxy
      refine List.pairwise_cons.mpr ⟨?_, ih h.2⟩
      intro z hz
      have := (insertStr_perm x ys).subset hz
      rcases List.mem_cons.mp this with rfl | hz'
      · exact hyx
      · exact h.1 z hz'

theorem sortStr_sorted (l : List String) : (sortStr l).Pairwise (· ≤ ·) := by
  induction l with
  | nil => simp [sortStr]
  | cons x xs ih => exact insertStr_sorted x _ ih

/-- two sorted duplicate-free lists of strings with the same elements are the same list -/
theorem sorted_perm_eq (l₁ l₂ : List String) (hp : l₁.Perm l₂)
    (s₁ : l₁.Pairwise (· ≤ ·)) (s₂ : l₂.Pairwise (· ≤ ·)) : l₁ = l₂ :=
  List.Perm.eq_of_pairwise (le := (· ≤ ·)) (fun _ _ _ _ h1 h2 => String.le_antisymm h1 h2) s₁ s₂ hp

end C05
