import MgpuModel.C11
/-! # C11 helper: environment wrapper around the tick-exact `Dma` and basic step lemmas -/
namespace C11

theorem Env.run_append (e : Env) (ops : List EnvOp) (op : EnvOp) :
    e.run (ops ++ [op]) = (e.run ops).step op := by
  simp [Env.run, List.foldl_append]

/-! ## `decAll` -/

def decOne (id : Nat) (c : Coll) : Coll :=
  if c.subs.contains id then { c with count := c.count - 1 } else c

theorem decOne_sup (id : Nat) (c : Coll) : (decOne id c).sup = c.sup := by
  unfold decOne; split <;> rfl
theorem decOne_subs (id : Nat) (c : Coll) : (decOne id c).subs = c.subs := by
  unfold decOne; split <;> rfl

private theorem decAll_aux (id : Nat) (cs : List Coll) : ∀ (acc : List Coll) (o : Option Coll),
    let r := cs.foldl (fun (acc : List Coll × Option Coll) c =>
      if c.subs.contains id then
        let c' := { c with count := c.count - 1 }
        (acc.1 ++ [c'], some c')
      else (acc.1 ++ [c], acc.2)) (acc, o)
    r.1 = acc ++ cs.map (decOne id) ∧
    (r.2 = none → o = none ∧ ∀ c ∈ cs, id ∉ c.subs) ∧
    (∀ c', r.2 = some c' → o = some c' ∨ ∃ c ∈ cs, id ∈ c.subs ∧ c' = { c with count := c.count - 1 }) := by
  induction cs with
  | nil => intro acc o; simp
  | cons c cs ih =>
    intro acc o
    simp only [List.foldl_cons]
    by_cases hc : c.subs.contains id = true
    · simp only [hc, if_true]
      have ⟨h1, h2, h3⟩ := ih (acc ++ [{ c with count := c.count - 1 }]) (some { c with count := c.count - 1 })
      refine ⟨?_, ?_, ?_⟩
      · have hc' : id ∈ c.subs := by simpa using hc
        rw [h1]; simp [decOne, hc']
      · intro h; have := (h2 h).1; cases this
      · intro c' h
        rcases h3 c' h with e | ⟨c0, hm, hid, e⟩
        · right; exact ⟨c, by simp, by simpa using hc, by cases e; rfl⟩
        · right; exact ⟨c0, by simp [hm], hid, e⟩
    · simp only [hc]
      have ⟨h1, h2, h3⟩ := ih (acc ++ [c]) o
      refine ⟨?_, ?_, ?_⟩
      · have hc' : id ∉ c.subs := by simpa using hc
        simp only [Bool.false_eq_true, if_false]; rw [h1]; simp [decOne, hc']
      · simp only [Bool.false_eq_true, if_false]
        intro h; have ⟨a, b⟩ := h2 h
        refine ⟨a, ?_⟩
        intro c0 hc0
        rcases List.mem_cons.1 hc0 with rfl | hm
        · simpa using hc
        · exact b c0 hm
      · simp only [Bool.false_eq_true, if_false]
        intro c' h
        rcases h3 c' h with e | ⟨c0, hm, hid, e⟩
        · left; exact e
        · right; exact ⟨c0, by simp [hm], hid, e⟩

theorem decAll_spec (cs : List Coll) (id : Nat) :
    (decAll cs id).1 = cs.map (decOne id) ∧
    ((decAll cs id).2 = none → ∀ c ∈ cs, id ∉ c.subs) ∧
    (∀ c', (decAll cs id).2 = some c' → ∃ c ∈ cs, id ∈ c.subs ∧ c' = { c with count := c.count - 1 }) := by
  have ⟨h1, h2, h3⟩ := decAll_aux id cs [] none
  refine ⟨by simpa [decAll] using h1, fun h => (h2 h).2, fun c' h => ?_⟩
  rcases h3 c' h with e | e
  · cases e
  · exact e

/-! ## characterisation of the four phases of `Dma.tick` -/

def pendIds (s : Dma) : List Nat := s.pending.map (·.id)
def procIds (s : Dma) : List Nat := s.processing.map (·.sup.id)

/-- the sub-requests `parseFromCP` creates for copy request `r` -/
def subReqs (s : Dma) (r : CpReq) : List MemReq :=
  (splitBy (2 ^ s.log2) (Nat.pow_pos (by decide)) r.addr r.len).zipIdx.map fun (p, i) =>
    { id := s.nextId + i, write := r.kind == Kind.h2d, addr := p.1, len := p.2, base := r.addr,
      owner := r.id }

theorem subReqs_ids (s : Dma) (r : CpReq) :
    (subReqs s r).map (·.id) = List.range' s.nextId (subReqs s r).length := by
  unfold subReqs
  rw [List.map_map, List.length_map, List.length_zipIdx]
  have : ((fun (q : MemReq) => q.id) ∘ fun (x : (Nat × Nat) × Nat) => match x with
      | (p, i) => ({ id := s.nextId + i, write := r.kind == Kind.h2d, addr := p.1, len := p.2,
                     base := r.addr, owner := r.id } : MemReq)) = (fun i => s.nextId + i) ∘ Prod.snd := by
    funext ⟨p, i⟩; rfl
  rw [this, ← List.map_map, List.zipIdx_map_snd]
  simp [List.range'_eq_map_range]

theorem subReqs_ranges (s : Dma) (r : CpReq) :
    (subReqs s r).map (fun q => (q.addr, q.len)) =
      splitBy (2 ^ s.log2) (Nat.pow_pos (by decide)) r.addr r.len := by
  unfold subReqs
  rw [List.map_map]
  have : ((fun (q : MemReq) => (q.addr, q.len)) ∘ fun (x : (Nat × Nat) × Nat) => match x with
      | (p, i) => ({ id := s.nextId + i, write := r.kind == Kind.h2d, addr := p.1, len := p.2,
                     base := r.addr, owner := r.id } : MemReq)) = Prod.fst := by
    funext ⟨p, i⟩; rfl
  rw [this, List.zipIdx_map_fst]

theorem subReqs_mem (s : Dma) (r : CpReq) : ∀ q ∈ subReqs s r,
    q.owner = r.id ∧ q.write = (r.kind == Kind.h2d) ∧ q.base = r.addr ∧ s.nextId ≤ q.id ∧
    q.id < s.nextId + (subReqs s r).length := by
  intro q hq
  have hid : q.id ∈ (subReqs s r).map (·.id) := List.mem_map_of_mem hq
  rw [subReqs_ids, List.mem_range'_1] at hid
  unfold subReqs at hq
  simp only [List.mem_map] at hq
  obtain ⟨⟨p, i⟩, _, rfl⟩ := hq
  exact ⟨rfl, rfl, rfl, hid.1, hid.2⟩

theorem parseFromCP_cases (s : Dma) :
    (s.parseFromCP = (s, false) ∧ (s.maxReq ≤ s.processing.length ∨ s.cpIn = [])) ∨
    ∃ r rest, s.cpIn = r :: rest ∧ s.processing.length < s.maxReq ∧
      s.parseFromCP = ({ s with
        cpIn := rest, nextId := s.nextId + (subReqs s r).length,
        toMem := s.toMem ++ subReqs s r, pending := s.pending ++ subReqs s r,
        processing := s.processing ++
          [{ sup := r, subs := (subReqs s r).map (·.id), count := (subReqs s r).length }] }, true) := by
  unfold Dma.parseFromCP
  by_cases h : s.processing.length ≥ s.maxReq
  · left; simp [h]
  · cases hc : s.cpIn with
    | nil => left; simp [h]
    | cons r rest =>
      right
      refine ⟨r, rest, rfl, by omega, ?_⟩
      simp only [h, if_false]
      rfl

theorem parseFromMem_cases (s : Dma) :
    (s.memIn = [] ∧ s.parseFromMem = (s, false)) ∨
    ∃ id rest, s.memIn = id :: rest ∧
      ((id ∉ pendIds s ∧ s.parseFromMem = ({ s with memIn := rest, fault := some "not_found" }, true)) ∨
       (id ∈ pendIds s ∧ (decAll s.processing id).2 = none ∧
          s.parseFromMem = ({ s with
            memIn := rest, pending := s.pending.filter (·.id != id),
            fault := some "no_collection" }, true)) ∨
       (id ∈ pendIds s ∧ ∃ c', (decAll s.processing id).2 = some c' ∧ c'.count ≠ 0 ∧
          s.parseFromMem = ({ s with
            memIn := rest, pending := s.pending.filter (·.id != id),
            processing := s.processing.map (decOne id) }, true)) ∨
       (id ∈ pendIds s ∧ ∃ c', (decAll s.processing id).2 = some c' ∧ c'.count = 0 ∧
          s.parseFromMem = ({ s with
              memIn := rest, pending := s.pending.filter (·.id != id),
              processing := (s.processing.map (decOne id)).filter (·.sup.id != c'.sup.id),
              toCP := s.toCP ++ [c'.sup.id], completed := s.completed ++ [c'.sup.id] }, true))) := by
  cases hm : s.memIn with
  | nil => left; simp [Dma.parseFromMem, hm]
  | cons id rest =>
    right
    refine ⟨id, rest, rfl, ?_⟩
    by_cases hp : id ∈ pendIds s
    · right
      have hany : (s.pending.any (·.id == id)) = true := by
        simp only [pendIds, List.mem_map] at hp
        obtain ⟨q, hq, rfl⟩ := hp
        simp only [List.any_eq_true, beq_iff_eq]; exact ⟨q, hq, rfl⟩
      have h1 := (decAll_spec s.processing id).1
      cases hd : decAll s.processing id with
      | mk cs o =>
        rw [hd] at h1; simp only at h1
        cases o with
        | none =>
          left
          refine ⟨hp, by simp, ?_⟩
          simp [Dma.parseFromMem, hm, hany, hd]
        | some c' =>
          right
          by_cases hc : c'.count = 0
          · right
            refine ⟨hp, c', rfl, hc, ?_⟩
            simp [Dma.parseFromMem, hm, hany, hd, hc, h1]
          · left
            refine ⟨hp, c', rfl, hc, ?_⟩
            simp [Dma.parseFromMem, hm, hany, hd, hc, h1]
    · left
      have hany : (s.pending.any (·.id == id)) = false := by
        simp only [pendIds, List.mem_map, not_exists, not_and] at hp
        simp only [List.any_eq_false, beq_iff_eq]; exact fun q hq he => hp q hq he
      refine ⟨hp, ?_⟩
      simp [Dma.parseFromMem, hm, hany]

end C11
