import MgpuProofs.C17WLive9
/-! C17, liveness for every width, part 10: every request in flight — position in the bank's chain × `chainBound` +
`chainPot`, run level. -/
namespace C17
namespace WLive
open WBnd

theorem chainPot_pos (c : Cfg) (s : WState) (k : Nat) (b : WBank) (hb : s.banks[k]? = some b)
    (hne : chainW c s k ≠ []) : 1 ≤ chainPot c s k := by
  unfold chainPot
  rw [hb]
  dsimp only
  cases ho : b.order with
  | cons o os => dsimp only; exact headPot_pos c b o os ho
  | nil =>
    dsimp only
    cases hd : b.dq with
    | cons p q => dsimp only; omega
    | nil =>
      dsimp only
      split
      · omega
      · rename_i hpf
        split
        · omega
        · rename_i htf
          exfalso
          apply hne
          have hpf' : s.pending.filter (inB c k) = [] := by
            cases hx : s.pending.filter (inB c k) with
            | nil => rfl
            | cons _ _ => exact absurd (by rw [hx]; simp) hpf
          have htf' : s.topIn.filter (inB c k) = [] := by
            cases hx : s.topIn.filter (inB c k) with
            | nil => rfl
            | cons _ _ => exact absurd (by rw [hx]; simp) htf
          simp [chainW, wBankChain, hb, wBankReqs, ho, hd, List.filter_append, hpf', htf']

/-- invariants of every reachable state used by the chain measure -/
structure LiveInv (c : Cfg) (s : WState) : Prop where
  inv : InvW c s
  good : AllGood c s.banks
  cyc : AllCyc c s.banks
  dq : ∀ b ∈ s.banks, DqOk c b

theorem stepW_dqOk (c : Cfg) (s : WState) (op : Op) (h : ∀ b ∈ s.banks, DqOk c b) : ∀ b ∈ (stepW c s op).banks, DqOk c b := by
  cases op with
  | deliver k a l d m => simp only [stepW, deliverW_banks]; exact h
  | tick => exact tickW_dqOk c s h
  | out k => exact h

theorem stepW_liveInv (c : Cfg) (s : WState) (op : Op) (h : LiveInv c s) : LiveInv c (stepW c s op) :=
  ⟨step_invW c s op h.inv, stepW_good c s op h.good, stepW_cyc c s op h.cyc, stepW_dqOk c s op h.dq⟩

theorem run_liveInv (c : Cfg) (ops : List Op) : LiveInv c (runW c ops) :=
  ⟨run_invW c ops, run_good c ops, run_cyc c ops, run_dqOk c ops⟩

/-- one tick, seen from a request `x` in bank `k`'s chain -/
theorem tick_inchain (c : Cfg) (hw : 0 < c.width) (hd0 : 0 < c.depth) (hp0 : 0 < c.post) (s : WState)
    (h : LiveInv c s) (k : Nat) (b : WBank) (hb : s.banks[k]? = some b) (x : Req) (pre suf : List Req)
    (hx : chainW c s k = pre ++ x :: suf) (hnf : (tickFlagsW c s).2 = none) :
    x ∈ (tickW c s).resp.map (·.req) ∨
    ∃ pre' suf', chainW c (tickW c s) k = pre' ++ x :: suf' ∧
      pre'.length * chainBound c + chainPot c (tickW c s) k + (if acceptsW c s k = true then 1 else 0)
        ≤ pre.length * chainBound c + chainPot c s k := by
  obtain ⟨done, e1, hdone⟩ := tick_chain_split c s h.inv k
  have h' := stepW_liveInv c s .tick h
  have hB : chainPot c (tickW c s) k ≤ chainBound c := chainPot_le c _ k h'.good h'.cyc h'.dq
  have hne : chainW c s k ≠ [] := by rw [hx]; simp
  have hpos := chainPot_pos c s k b hb hne
  have hacc1 : (if acceptsW c s k = true then 1 else 0) ≤ 1 := by split <;> omega
  have hsame : done = [] → chainPot c (tickW c s) k + (if acceptsW c s k = true then 1 else 0) ≤ chainPot c s k := by
    intro hdn
    rw [hdn, List.nil_append] at e1
    exact tick_chainPot c hw hd0 hp0 s h.inv h.good h.cyc k b hb hnf e1.symm hne
  rw [hx] at e1
  rcases List.append_eq_append_iff.1 e1 with ⟨a', ha1, ha2⟩ | ⟨c', hc1, hc2⟩
  · cases a' with
    | nil =>
      simp only [List.append_nil, List.nil_append] at ha1 ha2
      right
      refine ⟨[], suf, ha2.symm, ?_⟩
      simp only [List.length_nil, Nat.zero_mul, Nat.zero_add]
      cases hpre : pre with
      | nil =>
        have := hsame (by rw [ha1, hpre])
        simpa using this
      | cons p ps =>
        simp only [List.length_cons, Nat.succ_mul]
        omega
    | cons y ys =>
      left
      simp only [List.cons_append, List.cons.injEq] at ha2
      apply hdone
      rw [ha1, ha2.1]
      simp
  · right
    refine ⟨c', suf, hc2, ?_⟩
    cases hdn : done with
    | nil =>
      have := hsame hdn
      rw [hc1, hdn]
      simp only [List.nil_append]
      omega
    | cons d ds =>
      rw [hc1, hdn]
      simp only [List.length_append, List.length_cons, Nat.add_mul, Nat.succ_mul]
      omega

theorem chainW_deliver (c : Cfg) (s : WState) (k : Nat) (kd : Kind) (a l : Nat) (d : List Nat) (m : Option (List Bool)) :
    ∃ t, chainW c (deliverW c s kd a l d m) k = chainW c s k ++ t := by
  unfold deliverW
  split
  · refine ⟨[(⟨s.arrived.length, kd, a, l, d, m⟩ : Req)].filter (inB c k), ?_⟩
    simp only [chainW, List.filter_append, List.append_assoc]
  · exact ⟨[], by simp⟩

theorem chainPot_deliver (c : Cfg) (s : WState) (k : Nat) (kd : Kind) (a l : Nat) (d : List Nat) (m : Option (List Bool))
    (hne : chainW c s k ≠ []) : chainPot c (deliverW c s kd a l d m) k = chainPot c s k := by
  unfold deliverW
  split
  · unfold chainPot
    dsimp only
    cases hb : s.banks[k]? with
    | none => rfl
    | some b =>
      dsimp only
      cases ho : b.order with
      | cons o os => rfl
      | nil =>
        dsimp only
        cases hd : b.dq with
        | cons p q => rfl
        | nil =>
          dsimp only
          by_cases hpf : s.pending.filter (inB c k) ≠ []
          · rw [if_pos hpf, if_pos hpf]
          · rw [if_neg hpf, if_neg hpf]
            have hpf' : s.pending.filter (inB c k) = [] := by
              cases hx : s.pending.filter (inB c k) with
              | nil => rfl
              | cons _ _ => exact absurd (by rw [hx]; simp) hpf
            have htf : s.topIn.filter (inB c k) ≠ [] := by
              intro htf
              apply hne
              simp [chainW, wBankChain, hb, wBankReqs, ho, hd, List.filter_append, hpf', htf]
            have htf2 : (s.topIn ++ [(⟨s.arrived.length, kd, a, l, d, m⟩ : Req)]).filter (inB c k) ≠ [] := by
              rw [List.filter_append]
              intro hx
              exact htf (List.append_eq_nil_iff.1 hx).1
            rw [if_pos htf, if_pos htf2]
  · rfl

theorem chain_fold (c : Cfg) (hw : 0 < c.width) (hd0 : 0 < c.depth) (hp0 : 0 < c.post) (k : Nat) (x : Req) :
    ∀ (ops : List Op) (s : WState), LiveInv c s → k < s.banks.length → noPanicW c s ops = true →
    (x ∈ s.resp.map (·.req) ∨
      ∃ pre suf, chainW c s k = pre ++ x :: suf ∧
        pre.length * chainBound c + chainPot c s k ≤ acceptingTicksW c k s ops) →
    x ∈ (ops.foldl (stepW c) s).resp.map (·.req) := by
  intro ops
  induction ops with
  | nil =>
    intro s _ hk _ h
    rcases h with h | ⟨pre, suf, hx, h2⟩
    · exact h
    · exfalso
      have hb : s.banks[k]? = some s.banks[k] := List.getElem?_eq_getElem hk
      have := chainPot_pos c s k _ hb (by rw [hx]; simp)
      simp only [acceptingTicksW] at h2
      omega
  | cons op ops ih =>
    intro s hi hk hnp h
    simp only [List.foldl_cons]
    have hi' := stepW_liveInv c s op hi
    have hk' : k < (stepW c s op).banks.length := by rw [WQuiet.stepW_len]; exact hk
    have hb : s.banks[k]? = some s.banks[k] := List.getElem?_eq_getElem hk
    cases op with
    | tick =>
      simp only [noPanicW, Bool.and_eq_true, Option.isNone_iff_eq_none] at hnp
      apply ih _ hi' hk' hnp.2
      rcases h with h | ⟨pre, suf, hx, h2⟩
      · left; exact stepW_resp_mono c s .tick hi.inv x h
      · rcases tick_inchain c hw hd0 hp0 s hi k _ hb x pre suf hx hnp.1 with ht | ⟨pre', suf', t1, t2⟩
        · left; exact ht
        · right
          refine ⟨pre', suf', t1, ?_⟩
          simp only [acceptingTicksW] at h2
          show pre'.length * chainBound c + chainPot c (tickW c s) k ≤ acceptingTicksW c k (tickW c s) ops
          omega
    | deliver kd a l d m =>
      simp only [noPanicW] at hnp
      apply ih _ hi' hk' hnp
      rcases h with h | ⟨pre, suf, hx, h2⟩
      · left; exact stepW_resp_mono c s _ hi.inv x h
      · right
        obtain ⟨t, ht⟩ := chainW_deliver c s k kd a l d m
        simp only [acceptingTicksW] at h2
        refine ⟨pre, suf ++ t, by show chainW c (deliverW c s kd a l d m) k = _; rw [ht, hx]; simp, ?_⟩
        show pre.length * chainBound c + chainPot c (deliverW c s kd a l d m) k ≤ _
        rw [chainPot_deliver c s k kd a l d m (by rw [hx]; simp)]
        exact h2
    | out n =>
      simp only [noPanicW] at hnp
      apply ih _ hi' hk' hnp
      rcases h with h | ⟨pre, suf, hx, h2⟩
      · left; exact stepW_resp_mono c s _ hi.inv x h
      · right
        simp only [acceptingTicksW] at h2
        exact ⟨pre, suf, hx, h2⟩

end WLive
end C17
