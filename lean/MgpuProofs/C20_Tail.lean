import MgpuProofs.C20_Inv1
/-! # C20 — nothing lives outside the shape (`Tail`)

`pendingInsts`, `pendingWarps`, `receivedInsts` sum over whole lists, `finished` looks at the indices
of the shape.  `Tail` says that the two agree: along every in-range run no list entry and no child
buffer outside the shape is ever written. -/
namespace C20

variable {α : Type}

/-- no unit in an incoming buffer of a child that does not exist -/
def TailL (n : Nat) (l : Level α) : Prop := ∀ j, n ≤ j → get l.cIn j = []

theorem TailL.of_cIn {n : Nat} {l l' : Level α} (h : l'.cIn = l.cIn) (t : TailL n l) : TailL n l' := by
  intro j hj; rw [h]; exact t j hj

theorem TailL.default (n : Nat) : TailL n (default : Level α) := by
  intro j _
  show get ([] : List (List α)) j = []
  exact get_nil j

theorem send_cIn {l l' : Level α} {j : Nat} {u : α} (h : l.send j u = some l') : l'.cIn = l.cIn := by
  unfold Level.send at h
  split at h
  · cases h
  · cases h; rfl

theorem dispatch_cIn (l : Level α) : l.dispatch.1.cIn = l.cIn := by
  unfold Level.dispatch
  split
  · split
    · rename_i h; simp only; exact send_cIn h
    · rfl
  · rfl

theorem procUp_cIn (l : Level α) : l.procUp.1.cIn = l.cIn := by
  unfold Level.procUp
  split <;> rfl

theorem TailL.dispatch {n : Nat} {l : Level α} (t : TailL n l) : TailL n l.dispatch.1 :=
  t.of_cIn (dispatch_cIn l)

theorem TailL.procUp {n : Nat} {l : Level α} (t : TailL n l) : TailL n l.procUp.1 :=
  t.of_cIn (procUp_cIn l)

theorem TailL.childSend {n i : Nat} {l l' : Level α} (h : l.childSend i = some l') (t : TailL n l) :
    TailL n l' := t.of_cIn (childSend_cIn h)

/-- taking from a buffer never writes outside the shape: an outside buffer is empty, so nothing is taken -/
theorem TailL.childTake {n i : Nat} {l l' : Level α} {u : α} {wf : Bool}
    (h : l.childTake i = some (u, l', wf)) (t : TailL n l) : TailL n l' := by
  unfold Level.childTake at h
  split at h
  · cases h
  · rename_i u' rest hg
    simp only [Option.some.injEq, Prod.mk.injEq] at h
    obtain ⟨_, hl, _⟩ := h
    subst hl
    intro j hj
    show get (upd l.cIn i rest) j = []
    rw [get_upd]
    split
    · rename_i e
      subst e
      have := t j hj
      rw [this] at hg
      cases hg
    · exact t j hj

theorem fwdDown_tail (n : Nat) (pOut : List (Nat × α)) (cIn : List (List α))
    (hp : ∀ p ∈ pOut, p.1 < n) (t : ∀ j, n ≤ j → get cIn j = []) :
    ∀ j, n ≤ j → get (Level.fwdDown pOut cIn).2.1 j = [] := by
  induction pOut generalizing cIn with
  | nil => exact t
  | cons p rest ih =>
    obtain ⟨d, u⟩ := p
    unfold Level.fwdDown
    simp only
    split
    · exact t
    · simp only
      apply ih
      · intro p hp'; exact hp p (List.mem_cons_of_mem _ hp')
      · intro j hj
        have hd : d < n := hp (d, u) (List.mem_cons_self ..)
        rw [get_upd_ne _ _ _ _ (by omega)]
        exact t j hj

theorem TailL.fwdPort {n : Nat} (o : Level.ConnOut α) (p : Nat) (hp : ∀ q ∈ o.l.pOut, q.1 < n)
    (t : TailL n o.l) : TailL n (Level.fwdPort o p).l := by
  unfold Level.fwdPort
  cases p with
  | zero => exact fwdDown_tail n o.l.pOut o.l.cIn hp t
  | succ j => exact t

theorem TailL.connTick {n : Nat} {l : Level α} (hp : ∀ q ∈ l.pOut, q.1 < n) (t : TailL n l) :
    TailL n l.connTick.l := by
  have key : TailL n (connFold l).l ∧ ∀ q ∈ (connFold l).l.pOut, q.1 < n := by
    refine connFold_induct' l (fun o => TailL n o.l ∧ ∀ q ∈ o.l.pOut, q.1 < n) ⟨t, hp⟩ ?_
    intro o p _ ⟨ht, hq⟩
    refine ⟨ht.fwdPort o p hq, ?_⟩
    intro q hq'
    unfold Level.fwdPort at hq'
    cases p with
    | zero => exact hq q (fwdDown_subset _ _ q hq')
    | succ j => exact hq q hq'
  rw [connTick_eq]
  exact key.1

/-- the part of a system outside its shape is untouched -/
structure Tail (s : Sys) : Prop where
  c0 : TailL s.G s.l0
  c1 : ∀ g, TailL s.S (get s.l1 g)
  c2 : ∀ m, TailL s.C (get s.l2 m)
  t1 : ∀ g, s.G ≤ g → get s.l1 g = default
  t2 : ∀ m, s.G * s.S ≤ m → get s.l2 m = default
  t3 : ∀ u, s.G * s.S * s.C ≤ u → (get s.subs u).core = (0, 0, 0)

theorem Tail.frame {a b : Sys} (f : Frame1 a b) (h : Tail a) : Tail b := by
  refine ⟨?_, ?_, ?_, ?_, ?_, ?_⟩
  · rw [f.l0, f.G]; exact h.c0
  · intro g; rw [f.l1, f.S]; exact h.c1 g
  · intro m; rw [f.l2, f.C]; exact h.c2 m
  · intro g hg; rw [f.G] at hg; rw [f.l1]; exact h.t1 g hg
  · intro m hm; rw [f.G, f.S] at hm; rw [f.l2]; exact h.t2 m hm
  · intro u hu; rw [f.G, f.S, f.C] at hu; rw [f.core]; exact h.t3 u hu

end C20

namespace C20

/-! ## every in-range tick preserves `Tail` -/

theorem tail_tickDriver (s : Sys) (h : Tail s) : Tail (tickDriver s) := by
  unfold tickDriver
  extract_lets d p s1
  have h1 : Tail s1 := ⟨h.c0.dispatch.procUp, h.c1, h.c2, h.t1, h.t2, h.t3⟩
  refine Tail.frame ?_ h1
  apply Frame1.ite
  · apply Frame1.wakeManyGpu
    exact Frame1.refl _
  · exact Frame1.refl _

theorem tail_tickConn0 (s : Sys) (i : Inv1 s) (h : Tail s) : Tail (tickConn0 s) := by
  unfold tickConn0
  extract_lets o s1
  have h1 : Tail s1 := ⟨h.c0.connTick i.lv0.outLt, h.c1, h.c2, h.t1, h.t2, h.t3⟩
  refine Tail.frame ?_ h1
  apply Frame1.wakeManyGpu
  exact Frame1.refl _

theorem tail_upd1 (s : Sys) (g : Nat) (hg : g < s.G) (l' : Level Block) (hl : TailL s.S l') (h : Tail s) :
    (∀ g', TailL s.S (get (upd s.l1 g l') g')) ∧ (∀ g', s.G ≤ g' → get (upd s.l1 g l') g' = default) := by
  refine ⟨?_, ?_⟩
  · intro g'
    rw [get_upd]
    split
    · exact hl
    · exact h.c1 g'
  · intro g' hg'
    rw [get_upd_ne _ _ _ _ (by omega)]
    exact h.t1 g' hg'

theorem tail_upd2 (s : Sys) (m : Nat) (hm : m < s.G * s.S) (l' : Level Warp) (hl : TailL s.C l') (h : Tail s) :
    (∀ m', TailL s.C (get (upd s.l2 m l') m')) ∧ (∀ m', s.G * s.S ≤ m' → get (upd s.l2 m l') m' = default) := by
  refine ⟨?_, ?_⟩
  · intro m'
    rw [get_upd]
    split
    · exact hl
    · exact h.c2 m'
  · intro m' hm'
    rw [get_upd_ne _ _ _ _ (by omega)]
    exact h.t2 m' hm'

theorem tail_tickConn1 (s : Sys) (g : Nat) (hg : g < s.G) (i : Inv1 s) (h : Tail s) : Tail (tickConn1 s g) := by
  unfold tickConn1
  extract_lets o s1 s2
  have hu := tail_upd1 s g hg o.l ((h.c1 g).connTick (i.lv1 g hg).outLt) h
  have h1 : Tail s1 := ⟨h.c0, hu.1, h.c2, hu.2, h.t2, h.t3⟩
  refine Tail.frame ?_ h1
  apply Frame1.wakeManySm
  apply Frame1.ite
  · exact (Frame1.refl s1).wakeGpu _
  · exact Frame1.refl _

theorem tail_tickConn2 (s : Sys) (m : Nat) (hm : m < s.G * s.S) (i : Inv1 s) (h : Tail s) :
    Tail (tickConn2 s m) := by
  unfold tickConn2
  extract_lets o s1 s2
  have hu := tail_upd2 s m hm o.l ((h.c2 m).connTick (i.lv2 m hm).outLt) h
  have h1 : Tail s1 := ⟨h.c0, h.c1, hu.1, h.t1, hu.2, h.t3⟩
  refine Tail.frame ?_ h1
  apply Frame1.wakeManySub
  apply Frame1.ite
  · exact (Frame1.refl s1).wakeSm _
  · exact Frame1.refl _

theorem tail_tickGpu (s : Sys) (g : Nat) (hg : g < s.G) (h : Tail s) : Tail (tickGpu s g) := by
  unfold tickGpu
  extract_lets gp r d p2 d1 t p fin s1 s2
  have hr : TailL s.G r.1 := by
    simp only [r]
    split
    · exact h.c0
    · split
      · exact h.c0
      · rename_i _ _ l' hs
        exact h.c0.childSend hs
  have ht : TailL s.G t.1 ∧ TailL s.S t.2.1 := by
    have hd : TailL s.S d.1 := (h.c1 g).dispatch
    simp only [t]
    split
    · exact ⟨hr, hd⟩
    · rename_i k l0' wf hk
      exact ⟨hr.childTake hk, hd.of_cIn rfl⟩
  have hu := tail_upd1 s g hg p.1 ht.2.procUp h
  have h1 : Tail s1 := ⟨ht.1, hu.1, h.c2, hu.2, h.t2, h.t3⟩
  refine Tail.frame ?_ h1
  apply Frame1.ite
  · apply Frame1.wakeManySm
    apply Frame1.ite
    · apply Frame1.wakeManyGpu
      exact (Frame1.refl s1).dAwake true
    · exact Frame1.refl _
  · apply Frame1.ite
    · apply Frame1.wakeManyGpu
      exact (Frame1.refl s1).dAwake true
    · exact Frame1.refl _

theorem tail_tickSm (s : Sys) (m : Nat) (hm : m < s.G * s.S) (h : Tail s) : Tail (tickSm s m) := by
  have hS : 0 < s.S := by
    rcases Nat.eq_zero_or_pos s.S with h0 | h0
    · rw [h0] at hm; omega
    · exact h0
  have hgG : m / s.S < s.G := (Nat.div_lt_iff_lt_mul hS).2 hm
  unfold tickSm
  extract_lets g j sm lg r d p2 d1 t p fin s1 s2
  have hr : TailL s.S r.1 := by
    simp only [r]
    split
    · exact h.c1 g
    · split
      · exact h.c1 g
      · rename_i _ _ l' hs
        exact (h.c1 g).childSend hs
  have ht : TailL s.S t.1 ∧ TailL s.C t.2.1 := by
    have hd : TailL s.C d.1 := (h.c2 m).dispatch
    simp only [t]
    split
    · exact ⟨hr, hd⟩
    · rename_i k l0' wf hk
      exact ⟨hr.childTake hk, hd.of_cIn rfl⟩
  have hu1 := tail_upd1 s g hgG t.1 ht.1 h
  have hu2 := tail_upd2 s m hm p.1 ht.2.procUp h
  have h1 : Tail s1 := ⟨h.c0, hu1.1, hu2.1, hu1.2, hu2.2, h.t3⟩
  refine Tail.frame ?_ h1
  apply Frame1.ite
  · apply Frame1.wakeManySub
    apply Frame1.ite
    · apply Frame1.wakeManySm
      exact (Frame1.refl s1).wakeGpu _
    · exact Frame1.refl _
  · apply Frame1.ite
    · apply Frame1.wakeManySm
      exact (Frame1.refl s1).wakeGpu _
    · exact Frame1.refl _

theorem tail_updSub (s : Sys) (m u : Nat) (lm' : Level Warp) (c : Sub) (hm : m < s.G * s.S)
    (hu : u < s.G * s.S * s.C) (hl : TailL s.C lm') (h : Tail s) :
    Tail { s with l2 := upd s.l2 m lm', subs := upd s.subs u c } := by
  have hu2 := tail_upd2 s m hm lm' hl h
  refine ⟨h.c0, h.c1, hu2.1, h.t1, hu2.2, ?_⟩
  intro u' hu'
  show (get (upd s.subs u c) u').core = (0, 0, 0)
  have hu'' : s.G * s.S * s.C ≤ u' := hu'
  rw [get_upd_ne _ _ _ _ (by omega)]
  exact h.t3 u' hu'

theorem tail_tickSub (s : Sys) (u : Nat) (hu : u < s.G * s.S * s.C) (h : Tail s) : Tail (tickSub s u) := by
  have hC : 0 < s.C := by
    rcases Nat.eq_zero_or_pos s.C with h0 | h0
    · rw [h0] at hu; omega
    · exact h0
  have hmM : u / s.C < s.G * s.S := (Nat.div_lt_iff_lt_mul hC).2 hu
  unfold tickSub
  extract_lets m j sc lm r q
  have hr : TailL s.C r.1 := by
    simp only [r]
    split
    · exact h.c2 m
    · split
      · exact h.c2 m
      · rename_i l' hs
        exact (h.c2 m).childSend hs
  split
  · exact tail_updSub s m u r.1 _ hmM hu hr h
  · rename_i n lm' wf ht
    dsimp only
    refine Tail.frame ?FR1 (tail_updSub s m u lm'
      { awake := true, rem := n, fin := (if !s.legacy && n = 0 then q.2.1 + 1 else q.2.1), insts := sc.insts + n }
      hmM hu (hr.childTake ht) h)
    case FR1 =>
      apply Frame1.ite
      · apply Frame1.wakeManySub
        exact (Frame1.refl _).wakeSm _
      · exact Frame1.refl _

theorem tail_step (s : Sys) (e : Ev) (he : e.InRange s.G s.S s.C) (i : Inv1 s) (h : Tail s) : Tail (step s e) := by
  cases e with
  | drv => exact tail_tickDriver s h
  | gpu g => exact tail_tickGpu s g he h
  | sm m => exact tail_tickSm s m he h
  | sub u => exact tail_tickSub s u he h
  | c0 => exact tail_tickConn0 s i h
  | c1 g => exact tail_tickConn1 s g he i h
  | c2 m => exact tail_tickConn2 s m he i h

theorem get_replicate_ge {β} [Inhabited β] (n : Nat) (x : β) (k : Nat) (h : n ≤ k) :
    get (List.replicate n x) k = default := by
  induction n generalizing k with
  | zero => exact get_nil k
  | succ n ih =>
    cases k with
    | zero => omega
    | succ k => exact ih k (by omega)

theorem tail_init (G S C : Nat) (trace : List Kernel) : Tail (init false G S C trace) := by
  refine ⟨?_, ?_, ?_, ?_, ?_, ?_⟩
  · intro j _; exact get_nil j
  · intro g j _
    show get (get (List.replicate G (mkLevel S)) g).cIn j = []
    by_cases hg : g < G
    · rw [get_replicate _ _ _ hg]; exact get_nil j
    · rw [get_replicate_ge _ _ _ (by omega)]; exact get_nil j
  · intro m j _
    show get (get (List.replicate (G * S) (mkLevel C)) m).cIn j = []
    by_cases hm : m < G * S
    · rw [get_replicate _ _ _ hm]; exact get_nil j
    · rw [get_replicate_ge _ _ _ (by omega)]; exact get_nil j
  · intro g hg
    exact get_replicate_ge _ _ _ hg
  · intro m hm
    exact get_replicate_ge _ _ _ hm
  · intro u hu
    show (get (List.replicate (G * S * C) ({} : Sub)) u).core = (0, 0, 0)
    have hu' : G * S * C ≤ u := hu
    rw [get_replicate_ge _ _ _ hu']; rfl

theorem tail_run_gen (s : Sys) (evs : List Ev) (hl : s.legacy = false)
    (hr : ∀ e ∈ evs, e.InRange s.G s.S s.C) (i : Inv1 s) (h : Tail s) : Tail (run s evs) := by
  induction evs generalizing s with
  | nil => exact h
  | cons e evs ih =>
    have hsh := shape_step s e
    refine ih (step s e) (hsh.legacy.trans hl) ?_ (inv1_step' s e hl i)
      (tail_step s e (hr e (List.mem_cons_self ..)) i h)
    intro e' he'
    rw [hsh.G, hsh.S, hsh.C]
    exact hr e' (List.mem_cons_of_mem _ he')

/-- `Tail` holds along every in-range run of the repaired code -/
theorem tail_run (G S C : Nat) (trace : List Kernel) (evs : List Ev) (hr : ∀ e ∈ evs, e.InRange G S C) :
    Tail (run (init false G S C trace) evs) :=
  tail_run_gen _ evs rfl hr (inv1_init G S C trace) (tail_init G S C trace)

end C20
