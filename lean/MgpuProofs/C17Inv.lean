import MgpuProofs.C17Lemmas
/-! C17: the per-bank FIFO invariant of the width-1 model and its preservation by every step. -/
namespace C17

def inB (c : Cfg) (k : Nat) (r : Req) : Bool := bankOf c r.addr == k

def bankChain (bs : List Bank) (k : Nat) : List Item := match bs[k]? with
  | some b => bItems b
  | none => []

/-- everything in flight for bank `k`, oldest first: post buffer, pipeline, delay queue, pending, port -/
def chain (c : Cfg) (s : State) (k : Nat) : List Item :=
  bankChain s.banks k ++ ((s.pending ++ s.topIn).filter (inB c k)).map fresh

def WF (c : Cfg) (bs : List Bank) : Prop := ∀ b ∈ bs, W1 b ∧ (¬ rowMode c → b.dq = [])

/-- requests of the not yet committed items -/
def unc (l : List Item) : List Req := (l.filter (fun it => !it.committed)).map (·.req)

@[simp] theorem unc_append (a b : List Item) : unc (a ++ b) = unc a ++ unc b := by simp [unc]
@[simp] theorem unc_fresh (l : List Req) : unc (l.map fresh) = l := by
  induction l with
  | nil => rfl
  | cons a l ih => simp_all [unc, fresh]
@[simp] theorem map_req_fresh (l : List Req) : (l.map fresh).map (·.req) = l := by
  induction l with
  | nil => rfl
  | cons a l ih => simp_all [fresh]

theorem req_comp_fresh : ((fun x : Item => x.req) ∘ fresh) = id := rfl

theorem bankChain_map (f : Bank → Bank) (bs : List Bank) (k : Nat) (h : ∀ b ∈ bs, bItems (f b) = bItems b) :
    bankChain (bs.map f) k = bankChain bs k := by
  unfold bankChain
  rw [List.getElem?_map]
  cases hb : bs[k]? with
  | none => simp
  | some b => simp [h b (List.mem_of_getElem? hb)]

theorem WF_pipes (c : Cfg) (bs : List Bank) (h : WF c bs) : WF c (bs.map (tickBankPipe c)) := by
  intro b' hb'
  obtain ⟨b, hb, rfl⟩ := List.mem_map.1 hb'
  exact ⟨(pipe_items c b (h b hb).1).2, fun hr => by simpa [tickBankPipe] using (h b hb).2 hr⟩

theorem WF_delays (c : Cfg) (bs : List Bank) (h : WF c bs) : WF c (bs.map (tickBankDelay c)) := by
  intro b' hb'
  obtain ⟨b, hb, rfl⟩ := List.mem_map.1 hb'
  exact ⟨(delay_items c b (h b hb).1).2, fun hr => delay_dq_nil c b ((h b hb).2 hr)⟩

/-! ### dispatchPending -/

def Nrem (c : Cfg) (st : List Bank × List Req) : Prop :=
  ∀ r' ∈ st.2, ∀ b, st.1[bankOf c r'.addr]? = some b → ∀ r, dispatchBank c r b = none

theorem dispatchOne_step (c : Cfg) (k : Nat) (st : List Bank × List Req) (r : Req) (hw : WF c st.1) (hn : Nrem c st) :
    WF c (dispatchOne c st r).1 ∧ Nrem c (dispatchOne c st r) ∧
    ∀ X, bankChain (dispatchOne c st r).1 k ++ (((dispatchOne c st r).2 ++ X).filter (inB c k)).map fresh
       = bankChain st.1 k ++ ((st.2 ++ r :: X).filter (inB c k)).map fresh := by
  cases hlook : st.1[bankOf c r.addr]? with
  | none =>
    have e : dispatchOne c st r = (st.1, st.2 ++ [r]) := by simp [dispatchOne, hlook]
    rw [e]
    refine ⟨hw, ?_, ?_⟩
    · intro r' hr' b hb
      simp only [List.mem_append, List.mem_singleton] at hr'
      rcases hr' with hr' | rfl
      · exact hn r' hr' b hb
      · simp only at hb; rw [hlook] at hb; cases hb
    · intro X; simp
  | some b =>
    have hbm := List.mem_of_getElem? hlook
    obtain ⟨hw1, hdq⟩ := hw b hbm
    cases hd : dispatchBank c r b with
    | none =>
      have e : dispatchOne c st r = (st.1, st.2 ++ [r]) := by simp [dispatchOne, hlook, hd]
      rw [e]
      refine ⟨hw, ?_, ?_⟩
      · intro r' hr' b2 hb2
        simp only [List.mem_append, List.mem_singleton] at hr'
        rcases hr' with hr' | rfl
        · exact hn r' hr' b2 hb2
        · simp only at hb2; rw [hlook] at hb2; cases hb2
          intro r2; exact (dispatchBank_none c _ r2 b hw1 hd).2
      · intro X; simp
    | some b' =>
      have e : dispatchOne c st r = (st.1.set (bankOf c r.addr) b', st.2) := by simp [dispatchOne, hlook, hd]
      rw [e]
      obtain ⟨hi, hw1', hdq'⟩ := dispatchBank_items c r b b' hw1 hdq hd
      have hne : ∀ r' ∈ st.2, bankOf c r'.addr ≠ bankOf c r.addr := by
        intro r' hr' he
        have := hn r' hr' b (by rw [he]; exact hlook) r
        rw [hd] at this; cases this
      refine ⟨?_, ?_, ?_⟩
      · intro x hx
        rcases List.mem_or_eq_of_mem_set hx with hx | rfl
        · exact hw x hx
        · exact ⟨hw1', hdq'⟩
      · intro r' hr' b2 hb2
        simp only at hb2 hr'
        rw [List.getElem?_set_ne (Ne.symm (hne r' hr'))] at hb2
        exact hn r' hr' b2 hb2
      · intro X
        simp only
        by_cases hk : bankOf c r.addr = k
        · subst hk
          have hlt : bankOf c r.addr < st.1.length := (List.getElem?_eq_some_iff.1 hlook).1
          have hf : st.2.filter (inB c (bankOf c r.addr)) = [] := by
            rw [List.filter_eq_nil_iff]; intro r' hr'; simpa [inB] using hne r' hr'
          simp [bankChain, List.getElem?_set_self hlt, hlook, hi, List.filter_append, hf, inB]
        · have : inB c k r = false := by simp [inB, hk]
          simp [bankChain, List.getElem?_set_ne hk, List.filter_append, List.filter_cons, this]

theorem dispatch_fold (c : Cfg) (k : Nat) (tail : List Req) : ∀ (todo : List Req) (st : List Bank × List Req),
    WF c st.1 → Nrem c st →
    WF c (todo.foldl (dispatchOne c) st).1 ∧
    bankChain (todo.foldl (dispatchOne c) st).1 k ++ (((todo.foldl (dispatchOne c) st).2 ++ tail).filter (inB c k)).map fresh
      = bankChain st.1 k ++ ((st.2 ++ (todo ++ tail)).filter (inB c k)).map fresh := by
  intro todo
  induction todo with
  | nil => intro st hw _; exact ⟨hw, by simp⟩
  | cons r rest ih =>
    intro st hw hn
    obtain ⟨hw', hn', hc⟩ := dispatchOne_step c k st r hw hn
    obtain ⟨hw'', hc''⟩ := ih _ hw' hn'
    refine ⟨hw'', ?_⟩
    simp only [List.foldl_cons]
    rw [hc'', hc (rest ++ tail)]; simp

theorem dispatch_chain (c : Cfg) (s : State) (k : Nat) (hw : WF c s.banks) :
    WF c (dispatch c s).banks ∧ chain c (dispatch c s) k = chain c s k := by
  obtain ⟨h1, h2⟩ := dispatch_fold c k s.topIn s.pending (s.banks, []) hw (by intro r' hr'; simp at hr')
  exact ⟨h1, by simpa [chain, dispatch] using h2⟩

/-! ### finalizeBanks -/

theorem commit_spec (it it' : Item) (log log' : List Req) (h : commit it log = some (it', log')) :
    it'.req = it.req ∧ it'.committed = true ∧ (log' = if it.committed then log else it.req :: log) := by
  unfold commit at h
  by_cases hc : it.committed = true
  · simp [hc] at h; obtain ⟨rfl, rfl⟩ := h; simp [hc]
  · simp [hc] at h
    cases hk : it.req.kind with
    | rd => simp [hk] at h; obtain ⟨rfl, rfl⟩ := h; simp [hc]
    | wr => simp [hk] at h; obtain ⟨_, rfl, rfl⟩ := h; simp [hc]

theorem finalizePost_true (c : Cfg) (q : Req → Bool) : ∀ (post : List Item) (log : List Req) (out resp : List Rsp),
    (∀ it ∈ post, q it.req = true) →
    (((finalizePost c post log out resp).log.filter q).reverse ++ unc (finalizePost c post log out resp).post
        = (log.filter q).reverse ++ unc post) ∧
    (((finalizePost c post log out resp).resp.map (·.req)).filter q ++ (finalizePost c post log out resp).post.map (·.req)
        = (resp.map (·.req)).filter q ++ post.map (·.req)) := by
  intro post
  induction post with
  | nil => intro log out resp _; simp [finalizePost]
  | cons it rest ih =>
    intro log out resp hq
    have hqi : q it.req = true := hq it (by simp)
    simp only [finalizePost]
    split
    · simp
    cases hcm : commit it log with
    | none => simp
    | some p =>
      obtain ⟨it', log'⟩ := p
      obtain ⟨h1, h2, h3⟩ := commit_spec it it' log log' hcm
      have hu : (log'.filter q).reverse ++ unc rest = (log.filter q).reverse ++ unc (it :: rest) := by
        by_cases hc : it.committed = true
        · simp [h3, hc, unc]
        · simp [h3, hc, unc, hqi]
      simp only
      by_cases ho : out.length < c.top
      · rw [if_pos ho]
        obtain ⟨a, b⟩ := ih log' (out ++ [rspOf it']) (resp ++ [rspOf it']) (fun x hx => hq x (by simp [hx]))
        refine ⟨by rw [a, hu], ?_⟩
        rw [b]; simp [rspOf, h1, hqi]
      · rw [if_neg ho]
        refine ⟨?_, by simp [h1]⟩
        simp only
        have : unc (it' :: rest) = unc rest := by simp [unc, h2]
        rw [this, hu]

theorem finalizePost_false (c : Cfg) (q : Req → Bool) : ∀ (post : List Item) (log : List Req) (out resp : List Rsp),
    (∀ it ∈ post, q it.req = false) →
    ((finalizePost c post log out resp).log.filter q = log.filter q) ∧
    (((finalizePost c post log out resp).resp.map (·.req)).filter q = (resp.map (·.req)).filter q) := by
  intro post
  induction post with
  | nil => intro log out resp _; simp [finalizePost]
  | cons it rest ih =>
    intro log out resp hq
    have hqi : q it.req = false := hq it (by simp)
    simp only [finalizePost]
    split
    · simp
    cases hcm : commit it log with
    | none => simp
    | some p =>
      obtain ⟨it', log'⟩ := p
      obtain ⟨h1, h2, h3⟩ := commit_spec it it' log log' hcm
      have hu : log'.filter q = log.filter q := by
        by_cases hc : it.committed = true
        · simp [h3, hc]
        · simp [h3, hc, hqi]
      simp only
      by_cases ho : out.length < c.top
      · rw [if_pos ho]
        obtain ⟨a, b⟩ := ih log' (out ++ [rspOf it']) (resp ++ [rspOf it']) (fun x hx => hq x (by simp [hx]))
        refine ⟨by rw [a, hu], ?_⟩
        rw [b]; simp [rspOf, h1, hqi]
      · rw [if_neg ho]
        exact ⟨hu, rfl⟩

/-- commits of bank `k` are a prefix, in arrival order, of the arrivals for bank `k` -/
def I (c : Cfg) (s : State) (k : Nat) : Prop :=
  (s.log.filter (inB c k)).reverse ++ unc (chain c s k) = s.arrived.filter (inB c k)

/-- responses for bank `k` followed by what is still in flight = arrivals for bank `k` -/
def R (c : Cfg) (s : State) (k : Nat) : Prop :=
  (s.resp.map (·.req)).filter (inB c k) ++ (chain c s k).map (·.req) = s.arrived.filter (inB c k)

structure Inv (c : Cfg) (s : State) : Prop where
  wf : WF c s.banks
  i : ∀ k, I c s k
  r : ∀ k, R c s k
  ids : s.arrived.map (·.id) = List.range s.arrived.length

theorem allIn (c : Cfg) (s : State) (k : Nat) (b : Bank) (hr : R c s k) (hb : s.banks[k]? = some b) :
    ∀ it ∈ bItems b, inB c k it.req = true := by
  intro it hit
  have : it.req ∈ s.arrived.filter (inB c k) := by
    rw [← hr]
    simp only [chain, bankChain, hb, List.mem_append, List.mem_map]
    exact Or.inr ⟨it, Or.inl hit, rfl⟩
  exact (List.mem_filter.1 this).2

theorem finalizeAt_inv (c : Cfg) (s : State) (k : Nat) (h : Inv c s) : Inv c (finalizeAt c s k).1 := by
  unfold finalizeAt
  cases hb : s.banks[k]? with
  | none => exact h
  | some b =>
    have hall := allIn c s k b (h.r k) hb
    have hpost : ∀ it ∈ b.post, inB c k it.req = true := fun it hit => hall it (by simp [bItems, hit])
    have hlt : k < s.banks.length := (List.getElem?_eq_some_iff.1 hb).1
    obtain ⟨ft1, ft2⟩ := finalizePost_true c (inB c k) b.post s.log s.outBuf s.resp hpost
    refine ⟨?_, ?_, ?_, h.ids⟩
    · intro x hx
      rcases List.mem_or_eq_of_mem_set hx with hx | rfl
      · exact h.wf x hx
      · have := h.wf b (List.mem_of_getElem? hb)
        exact ⟨this.1, this.2⟩
    · intro j
      by_cases hj : k = j
      · subst hj
        have hi := h.i k
        simp only [I, chain, bankChain, hb, bItems, unc_append, List.append_assoc] at hi
        simp only [I, chain, bankChain, List.getElem?_set_self hlt, bItems, unc_append, List.append_assoc]
        rw [← List.append_assoc, ft1, List.append_assoc]; exact hi
      · have hf : ∀ it ∈ b.post, inB c j it.req = false := by
          intro it hit
          have := hpost it hit
          simp only [inB, beq_iff_eq] at this
          simp [inB, this, hj]
        obtain ⟨ff1, _⟩ := finalizePost_false c (inB c j) b.post s.log s.outBuf s.resp hf
        have hi := h.i j
        simp only [I, chain, bankChain] at hi
        simp only [I, chain, bankChain, List.getElem?_set_ne hj, ff1]
        exact hi
    · intro j
      by_cases hj : k = j
      · subst hj
        have hi := h.r k
        simp only [R, chain, bankChain, hb, bItems, List.map_append, List.append_assoc] at hi
        simp only [R, chain, bankChain, List.getElem?_set_self hlt, bItems, List.map_append, List.append_assoc]
        rw [← List.append_assoc, ft2, List.append_assoc]; exact hi
      · have hf : ∀ it ∈ b.post, inB c j it.req = false := by
          intro it hit
          have := hpost it hit
          simp only [inB, beq_iff_eq] at this
          simp [inB, this, hj]
        obtain ⟨_, ff2⟩ := finalizePost_false c (inB c j) b.post s.log s.outBuf s.resp hf
        have hi := h.r j
        simp only [R, chain, bankChain] at hi
        simp only [R, chain, bankChain, List.getElem?_set_ne hj, ff2]
        exact hi

theorem finalizeFrom_inv (c : Cfg) : ∀ (ks : List Nat) (s : State), Inv c s → Inv c (finalizeFrom c ks s).1 := by
  intro ks
  induction ks with
  | nil => intro s h; exact h
  | cons k ks ih =>
    intro s h
    simp only [finalizeFrom]
    split
    · exact finalizeAt_inv c s k h
    · exact ih _ (finalizeAt_inv c s k h)

theorem tickPipes_chain (c : Cfg) (s1 : State) (hw : WF c s1.banks) (k : Nat) :
    chain c (tickPipes c s1) k = chain c s1 k := by
  simp only [chain, tickPipes]
  rw [bankChain_map _ _ _ (fun b hb => (pipe_items c b (hw b hb).1).1)]

theorem tickDelays_chain (c : Cfg) (s2 : State) (hw : WF c s2.banks) (k : Nat) :
    chain c (tickDelays c s2) k = chain c s2 k := by
  simp only [chain, tickDelays]
  rw [bankChain_map _ _ _ (fun b hb => (delay_items c b (hw b hb).1).1)]

theorem drainTop_chain (c : Cfg) (s4 : State) (k : Nat) : chain c (drainTop s4) k = chain c s4 k := by
  simp [chain, drainTop]

theorem tickPipes_inv (c : Cfg) (s1 : State) (h1 : Inv c s1) : Inv c (tickPipes c s1) := by
  have hc2 := tickPipes_chain c s1 h1.wf
  exact ⟨WF_pipes c _ h1.wf, fun k => by have := h1.i k; unfold I at this ⊢; rw [hc2 k]; exact this,
     fun k => by have := h1.r k; unfold R at this ⊢; rw [hc2 k]; exact this, h1.ids⟩

theorem tickDelays_inv (c : Cfg) (s2 : State) (h2 : Inv c s2) : Inv c (tickDelays c s2) := by
  have hc3 := tickDelays_chain c s2 h2.wf
  exact ⟨WF_delays c _ h2.wf, fun k => by have := h2.i k; unfold I at this ⊢; rw [hc3 k]; exact this,
     fun k => by have := h2.r k; unfold R at this ⊢; rw [hc3 k]; exact this, h2.ids⟩

theorem dispatch_inv (c : Cfg) (s3 : State) (h3 : Inv c s3) : Inv c (dispatch c s3) :=
  ⟨(dispatch_chain c s3 0 h3.wf).1,
   fun k => by have := h3.i k; unfold I at this ⊢; rw [(dispatch_chain c s3 k h3.wf).2]; exact this,
   fun k => by have := h3.r k; unfold R at this ⊢; rw [(dispatch_chain c s3 k h3.wf).2]; exact this, h3.ids⟩

theorem drainTop_inv (c : Cfg) (s4 : State) (h4 : Inv c s4) : Inv c (drainTop s4) :=
  ⟨h4.wf, fun k => by have := h4.i k; simpa [I, chain, drainTop] using this,
    fun k => by have := h4.r k; simpa [R, chain, drainTop] using this, h4.ids⟩

theorem finalize_inv (c : Cfg) (s : State) (h : Inv c s) : Inv c (finalize c s).1 := finalizeFrom_inv c _ s h

theorem tick_inv (c : Cfg) (s : State) (h : Inv c s) : Inv c (tick c s) := by
  unfold tick
  have h1 : Inv c (finalize c s).1 := finalize_inv c s h
  simp only
  split
  · exact h1
  · split
    · exact tickDelays_inv c _ (tickPipes_inv c _ h1)
    · exact drainTop_inv c _ (dispatch_inv c _ (tickDelays_inv c _ (tickPipes_inv c _ h1)))

theorem deliver_inv (c : Cfg) (s : State) (kind : Kind) (addr len : Nat) (data : List Nat) (mask : Option (List Bool))
    (h : Inv c s) : Inv c (deliver c s kind addr len data mask) := by
  unfold deliver
  split
  · refine ⟨h.wf, ?_, ?_, ?_⟩
    · intro k
      have := h.i k
      simp only [I, chain] at this ⊢
      simp only [← List.append_assoc, List.filter_append, List.map_append, unc_append]
      rw [← this]; simp [List.filter_append]
    · intro k
      have := h.r k
      simp only [R, chain] at this ⊢
      simp only [← List.append_assoc, List.filter_append, List.map_append]
      rw [← this]; simp [List.filter_append, req_comp_fresh]
    · simp [h.ids, List.range_succ]
  · exact h

theorem step_inv (c : Cfg) (s : State) (op : Op) (h : Inv c s) : Inv c (step c s op) := by
  cases op with
  | deliver k a l d m => exact deliver_inv c s k a l d m h
  | tick => exact tick_inv c s h
  | out k =>
    exact ⟨h.wf, fun j => by have := h.i j; simpa [I, chain, step] using this,
      fun j => by have := h.r j; simpa [R, chain, step] using this, h.ids⟩

theorem laneItems_replicate (d : Nat) : laneItems (List.replicate d none) = [] := by
  induction d with
  | zero => rfl
  | succ d ih => simp [List.replicate_succ, ih]

theorem init_inv (c : Cfg) (hw : c.width = 1) : Inv c (init c) := by
  have hb : bItems (emptyBank c) = [] := by simp [bItems, emptyBank, hw, laneItems_replicate]
  have hc : ∀ k, chain c (init c) k = [] := by
    intro k
    simp only [chain, init, bankChain]
    cases hg : (List.replicate c.banks (emptyBank c))[k]? with
    | none => simp
    | some b =>
      have := List.mem_of_getElem? hg
      rw [List.mem_replicate] at this
      simp [this.2, hb]
  refine ⟨?_, fun k => by unfold I; rw [hc k]; simp [init, unc], fun k => by unfold R; rw [hc k]; simp [init], by simp [init]⟩
  intro b hbm
  have := (List.mem_replicate.1 hbm).2
  subst this
  exact ⟨⟨List.replicate c.depth none, by simp [emptyBank, hw]⟩, fun _ => rfl⟩

theorem run_inv (c : Cfg) (hw : c.width = 1) (ops : List Op) : Inv c (run c ops) := by
  unfold run
  have : ∀ (ops : List Op) (s : State), Inv c s → Inv c (ops.foldl (step c) s) := by
    intro ops
    induction ops with
    | nil => intro s h; exact h
    | cons o os ih => intro s h; exact ih _ (step_inv c s o h)
  exact this ops _ (init_inv c hw)

end C17
