import MgpuProofs.C09Sys1
/-! # C09, closed loop — the cross-component invariant `SI`

What ties the two ends of every wire together in every state of every closed run:
* each compute unit is in a state its open model reaches by legal moves, the command processor
  keeps its accounting invariant;
* every work-group a CU holds was delivered to it, once, and is a `MapWGReq` of the command
  processor's trace naming *this* CU, with the SIMD placement the request carries (`link`);
* every completion handed to the command processor was sent by some CU (`taken`), at most once
  (`takenNodup`);
* every request id in an unread completion message or in the ghost list `done` was handed over by
  a connection (`src`): the command processor never counts a completion no CU has sent. -/
namespace C09

theorem mem_reqsOf (log : List Ev) (r c l i : Nat) (locs : List Loc) (h : Ev.map r c l i locs ∈ log) :
    r ∈ reqsOf log := by
  unfold reqsOf
  rw [List.mem_filterMap]
  exact ⟨_, List.mem_reverse.2 h, rfl⟩

theorem nodup_snoc {l : List Nat} {a : Nat} (h : (l ++ [a]).Nodup) : l.Nodup ∧ a ∉ l := by
  induction l with
  | nil => exact ⟨List.nodup_nil, fun h => by cases h⟩
  | cons b l ih =>
    have h' : (b :: (l ++ [a])).Nodup := h
    obtain ⟨h1, h2⟩ := List.nodup_cons.1 h'
    obtain ⟨i1, i2⟩ := ih h2
    refine ⟨List.nodup_cons.2 ⟨fun hb => h1 (List.mem_append_left _ hb), i1⟩, ?_⟩
    intro ha
    rcases List.mem_cons.1 ha with e | e
    · exact h1 (by rw [e]; exact List.mem_append_right _ List.mem_cons_self)
    · exact i2 e

/-- request ids are issued once: a request id names one `MapWGReq` of the trace -/
theorem map_unique : ∀ (log : List Ev), (reqsOf log).Nodup →
    ∀ (r c l i : Nat) (locs : List Loc) (c' l' i' : Nat) (locs' : List Loc),
    Ev.map r c l i locs ∈ log → Ev.map r c' l' i' locs' ∈ log → c = c' ∧ l = l' ∧ i = i' ∧ locs = locs'
  | [], _, _, _, _, _, _, _, _, _, _, h, _ => by cases h
  | e :: log, hnd, r, c, l, i, locs, c', l', i', locs', h1, h2 => by
    cases e with
    | rsp x =>
      rw [reqsOf_cons_rsp] at hnd
      rcases List.mem_cons.1 h1 with e1 | e1
      · cases e1
      rcases List.mem_cons.1 h2 with e2 | e2
      · cases e2
      exact map_unique log hnd r c l i locs c' l' i' locs' e1 e2
    | map r0 c0 l0 i0 locs0 =>
      rw [reqsOf_cons_map] at hnd
      obtain ⟨hn, hnot⟩ := nodup_snoc hnd
      rcases List.mem_cons.1 h1 with e1 | e1 <;> rcases List.mem_cons.1 h2 with e2 | e2
      · cases e1; cases e2; exact ⟨rfl, rfl, rfl, rfl⟩
      · cases e1; exact absurd (mem_reqsOf log _ _ _ _ _ e2) hnot
      · cases e2; exact absurd (mem_reqsOf log _ _ _ _ _ e1) hnot
      · exact map_unique log hn r c l i locs c' l' i' locs' e1 e2

namespace Sys
open CUSide

/-! ## compute-unit moves: the trace of completions only grows, shapes change only by `handleMapWGReq` -/

theorem onWG_shapes (s : TState) (id : Nat) (f : WG → WG) (hid : ∀ g, (f g).id = g.id)
    (hs : ∀ g, (f g).wfs.map (·.simd) = g.wfs.map (·.simd)) : shapes (onWG s id f) = shapes s :=
  shapes_map s.wgs (fun g => if g.id = id then f g else g)
    (fun g => by
      show (if g.id = id then f g else g).id = g.id
      split
      · exact hid g
      · rfl)
    (fun g => by
      show (if g.id = id then f g else g).wfs.map (·.simd) = g.wfs.map (·.simd)
      split
      · exact hs g
      · rfl)

theorem endPgm_facts (s : TState) (id w : Nat) :
    shapes (endPgm s id w).1 = shapes s ∧ ∀ p ∈ s.sent, p ∈ (endPgm s id w).1.sent := by
  unfold endPgm
  cases findWG s id with
  | none => (refine ⟨?_, fun p hp => hp⟩; first | rfl | trivial)
  | some g =>
    simp only []
    by_cases hw : g.wfs.length ≤ w
    · simp only [hw, if_true]; (refine ⟨?_, fun p hp => hp⟩; first | rfl | trivial)
    · simp only [hw, if_false]
      cases endBranch g w s.room with
      | sent =>
        exact ⟨onWG_shapes s id _ (fun _ => rfl) (fun g => map_simd_setSt _ _ _),
          fun p hp => List.mem_append_left _ hp⟩
      | retry => (refine ⟨?_, fun p hp => hp⟩; first | rfl | trivial)
      | pass =>
        exact ⟨onWG_shapes s id _ (fun _ => rfl)
          (fun g => by simp only; rw [map_simd_setSt, map_simd_release]), fun p hp => hp⟩
      | completed =>
        exact ⟨onWG_shapes s id _ (fun _ => rfl) (fun g => map_simd_setSt _ _ _), fun p hp => hp⟩
      | never => (refine ⟨?_, fun p hp => hp⟩; first | rfl | trivial)
      | bad => (refine ⟨?_, fun p hp => hp⟩; first | rfl | trivial)

theorem barrier_shapes (s : TState) (id w : Nat) : shapes (barrier s id w) = shapes s := by
  unfold barrier
  exact onWG_shapes s id _ (fun g => by simp only; split <;> rfl)
    (fun g => by
      simp only; split
      · simp only; rw [map_simd_release, map_simd_setSt]
      · exact map_simd_setSt _ _ _)

/-- a move that is not a `MapWGReq` keeps the mapped work-groups and their placement; no move
    removes a completion from the trace -/
theorem tstep_facts (s : TState) (o : TOp) :
    (∀ p ∈ s.sent, p ∈ (tstep s o).sent) ∧
    ((∀ id src simds, o ≠ .map id src simds) → shapes (tstep s o) = shapes s) := by
  unfold tstep
  by_cases hf : s.fault.isSome = true
  · simp only [hf, if_true]; refine ⟨fun p hp => hp, fun _ => ?_⟩; first | rfl | trivial
  · simp only [hf]
    cases o with
    | map id src simds =>
      refine ⟨?_, fun h => absurd rfl (h id src simds)⟩
      intro p hp
      by_cases hb : (simds.any fun x => decide (s.pools.length ≤ x)) = true
      · simp only [mapWG, hb, if_true]; exact hp
      · simp only [mapWG, hb]; exact hp
    | issue id w =>
      exact ⟨fun p hp => hp, fun _ => onWG_shapes s id _ (fun _ => rfl) (fun g => map_simd_setSt _ _ _)⟩
    | nop id w =>
      exact ⟨fun p hp => hp, fun _ => onWG_shapes s id _ (fun _ => rfl) (fun g => map_simd_setSt _ _ _)⟩
    | endp id w => exact ⟨(endPgm_facts s id w).2, fun _ => (endPgm_facts s id w).1⟩
    | bar id w => exact ⟨fun p hp => hp, fun _ => barrier_shapes s id w⟩
    | room n => exact ⟨fun p hp => hp, fun _ => rfl⟩

theorem tstep_map_shapes (s : TState) (id src : Nat) (simds : List Nat) (hf : s.fault = none)
    (hL : TLegal s (.map id src simds)) :
    shapes (tstep s (.map id src simds)) = shapes s ++ [(id, simds)] := by
  have hany : (simds.any fun x => decide (s.pools.length ≤ x)) = false := by
    rw [List.any_eq_false]
    intro x hx
    have := hL.2.2 x hx
    simp only [decide_eq_true_eq]; omega
  unfold tstep mapWG
  simp only [hf, Option.isSome_none, Bool.false_eq_true, if_false, hany]
  simp [shapes, List.map_map, Function.comp_def]

theorem applyCU_sent (t : TState) (o : Option TOp) (p : Nat × Nat) (hp : p ∈ t.sent) :
    p ∈ (applyCU t o).sent := by
  cases o with
  | none => exact hp
  | some o => exact (tstep_facts t o).1 p hp

/-! ## which system move a component move comes from -/

theorem cuOp_map {s : Sys} {c : Nat} {o : SOp} {id src : Nat} {simds : List Nat}
    (h : cuOp s c o = some (.map id src simds)) :
    o = .deliverMap id ∧ mapMove s id = some (c, .map id src simds) := by
  cases o with
  | launch k => cases h
  | tick => cases h
  | takeRsp => cases h
  | deliverMap r =>
    simp only [cuOp] at h
    cases hm : mapMove s r with
    | none => rw [hm] at h; cases h
    | some p =>
      obtain ⟨c', t'⟩ := p
      rw [hm] at h
      simp only at h
      split at h
      · rename_i hcc
        cases h
        obtain ⟨_, _, simds', _, ht, _⟩ := mapMove_some hm
        cases ht
        exact ⟨rfl, by rw [← hcc]; exact hm⟩
      · cases h
  | cu c' t' =>
    simp only [cuOp] at h
    split at h
    · rename_i hcc
      cases h
      obtain ⟨_, hmv⟩ := hcc
      simp [cuMove, internal] at hmv
    · cases h
  | deliverCmp c' r =>
    simp only [cuOp] at h
    split at h <;> cases h

theorem cpOp_complete {s : Sys} {o : SOp} {ids : List Nat} (h : cpOp s o = .complete ids) :
    ∃ c r, o = .deliverCmp c r ∧ cmpMove s c r = true ∧ ids = [r] := by
  cases o with
  | launch k => cases h
  | tick => cases h
  | cu c t => cases h
  | deliverMap r => simp only [cpOp] at h; split at h <;> cases h
  | takeRsp => simp only [cpOp] at h; split at h <;> cases h
  | deliverCmp c r =>
    simp only [cpOp] at h
    split at h
    · rename_i hc; cases h; exact ⟨c, r, rfl, hc, rfl⟩
    · cases h

theorem sstep_delivered_sub (s : Sys) (o : SOp) (r : Nat) (h : r ∈ s.delivered) : r ∈ (sstep s o).delivered := by
  cases o with
  | deliverMap r' =>
    show r ∈ (if (mapMove s r').isSome then r' :: s.delivered else s.delivered)
    split
    · exact List.mem_cons_of_mem _ h
    · exact h
  | _ => exact h

theorem sstep_taken_cases (s : Sys) (o : SOp) (r : Nat) (h : r ∈ (sstep s o).taken) :
    r ∈ s.taken ∨ ∃ c, o = .deliverCmp c r ∧ cmpMove s c r = true := by
  cases o with
  | deliverCmp c r' =>
    have h' : r ∈ (if cmpMove s c r' then r' :: s.taken else s.taken) := h
    split at h'
    · rename_i hc
      rcases List.mem_cons.1 h' with e | e
      · right; exact ⟨c, by rw [e], by rw [e]; exact hc⟩
      · exact Or.inl e
    · exact Or.inl h'
  | _ => exact Or.inl h

theorem sstep_taken_sub (s : Sys) (o : SOp) (r : Nat) (h : r ∈ s.taken) : r ∈ (sstep s o).taken := by
  cases o with
  | deliverCmp c r' =>
    show r ∈ (if cmpMove s c r' then r' :: s.taken else s.taken)
    split
    · exact List.mem_cons_of_mem _ h
    · exact h
  | _ => exact h

theorem findMap_some : ∀ (log : List Ev) (r c : Nat) (simds : List Nat), findMap log r = some (c, simds) →
    ∃ launch idx locs, Ev.map r c launch idx locs ∈ log ∧ simds = locs.map (·.simd)
  | [], _, _, _, h => by cases h
  | e :: log, r, c, simds, h => by
    unfold findMap at h
    rw [List.findSome?_cons] at h
    cases e with
    | rsp x =>
      simp only at h
      obtain ⟨a, b, d, h1, h2⟩ := findMap_some log r c simds h
      exact ⟨a, b, d, List.mem_cons_of_mem _ h1, h2⟩
    | map r' c' l' i' locs' =>
      simp only at h
      by_cases hr : r' = r
      · simp only [hr, if_true] at h
        cases h
        exact ⟨l', i', locs', by rw [hr]; exact List.mem_cons_self, rfl⟩
      · simp only [hr, if_false] at h
        obtain ⟨a, b, d, h1, h2⟩ := findMap_some log r c simds h
        exact ⟨a, b, d, List.mem_cons_of_mem _ h1, h2⟩

/-! ## the invariant -/

structure SI (s : Sys) : Prop where
  reach : ∀ c, c < s.cus.length → TReach (s.cu c)
  dci : DCI s.cp
  link : ∀ c, c < s.cus.length → ∀ sh ∈ shapes (s.cu c), sh.1 ∈ s.delivered ∧
    ∃ launch idx locs, Ev.map sh.1 c launch idx locs ∈ s.cp.log ∧ sh.2 = locs.map (·.simd)
  fresh : ∀ r ∈ s.delivered, ∃ c launch idx locs, Ev.map r c launch idx locs ∈ s.cp.log
  dnodup : s.delivered.Nodup
  taken : ∀ r ∈ s.taken, ∃ c, c < s.cus.length ∧ r ∈ sentIds (s.cu c)
  tnodup : s.taken.Nodup
  src : Src (· ∈ s.taken) s.cp

theorem SI_step {s : Sys} (h : SI s) (o : SOp) : SI (sstep s o) := by
  have hlog : ∀ e, e ∈ s.cp.log → e ∈ (sstep s o).cp.log := fun e he => step_log_mono s.cp _ h.dci e he
  have hlen := sstep_len s o
  refine ⟨?_, step_DCI _ _ h.dci, ?_, ?_, ?_, ?_, ?_, ?_⟩
  · intro c hc
    rw [hlen] at hc
    exact sstep_reach s o c hc (h.reach c hc)
  · intro c hc sh hsh
    rw [hlen] at hc
    rw [sstep_cu s o c hc] at hsh
    have hold : sh ∈ shapes (s.cu c) → sh.1 ∈ (sstep s o).delivered ∧
        ∃ launch idx locs, Ev.map sh.1 c launch idx locs ∈ (sstep s o).cp.log ∧ sh.2 = locs.map (·.simd) := by
      intro hin
      obtain ⟨h1, a, b, d, h2, h3⟩ := h.link c hc sh hin
      exact ⟨sstep_delivered_sub s o _ h1, a, b, d, hlog _ h2, h3⟩
    cases hco : cuOp s c o with
    | none => rw [hco] at hsh; exact hold hsh
    | some t =>
      rw [hco] at hsh
      cases t with
      | map id src simds =>
        obtain ⟨ho, hm⟩ := cuOp_map hco
        obtain ⟨_, _, simds', hfm, ht, hL⟩ := mapMove_some hm
        cases ht
        have hsh' : sh ∈ shapes (tstep (s.cu c) (.map id 0 simds)) := hsh
        rw [tstep_map_shapes _ _ _ _ (treach_inv (h.reach c hc)).noFault hL] at hsh'
        rcases List.mem_append.1 hsh' with e | e
        · exact hold e
        · rw [List.mem_singleton.1 e]
          obtain ⟨a, b, d, h1, h2⟩ := findMap_some _ _ _ _ hfm
          refine ⟨?_, a, b, d, hlog _ h1, h2⟩
          subst ho
          show id ∈ (if (mapMove s id).isSome then id :: s.delivered else s.delivered)
          rw [hm]; exact List.mem_cons_self
      | issue id w =>
        have hsh' : sh ∈ shapes (tstep (s.cu c) (.issue id w)) := hsh
        rw [(tstep_facts _ _).2 (fun _ _ _ e => by cases e)] at hsh'; exact hold hsh'
      | nop id w =>
        have hsh' : sh ∈ shapes (tstep (s.cu c) (.nop id w)) := hsh
        rw [(tstep_facts _ _).2 (fun _ _ _ e => by cases e)] at hsh'; exact hold hsh'
      | endp id w =>
        have hsh' : sh ∈ shapes (tstep (s.cu c) (.endp id w)) := hsh
        rw [(tstep_facts _ _).2 (fun _ _ _ e => by cases e)] at hsh'; exact hold hsh'
      | bar id w =>
        have hsh' : sh ∈ shapes (tstep (s.cu c) (.bar id w)) := hsh
        rw [(tstep_facts _ _).2 (fun _ _ _ e => by cases e)] at hsh'; exact hold hsh'
      | room n =>
        have hsh' : sh ∈ shapes (tstep (s.cu c) (.room n)) := hsh
        rw [(tstep_facts _ _).2 (fun _ _ _ e => by cases e)] at hsh'; exact hold hsh'
  · intro r hr
    have hold : r ∈ s.delivered → ∃ c launch idx locs, Ev.map r c launch idx locs ∈ (sstep s o).cp.log := by
      intro hin
      obtain ⟨c, a, b, d, h1⟩ := h.fresh r hin
      exact ⟨c, a, b, d, hlog _ h1⟩
    cases o with
    | deliverMap r' =>
      have hr' : r ∈ (if (mapMove s r').isSome then r' :: s.delivered else s.delivered) := hr
      cases hm : mapMove s r' with
      | none => rw [hm] at hr'; exact hold hr'
      | some p =>
        rw [hm] at hr'
        rcases List.mem_cons.1 hr' with e | e
        · obtain ⟨c, t⟩ := p
          obtain ⟨_, _, simds', hfm, _, _⟩ := mapMove_some hm
          obtain ⟨a, b, d, h1, _⟩ := findMap_some _ _ _ _ hfm
          rw [e]
          exact ⟨c, a, b, d, hlog _ h1⟩
        · exact hold e
    | _ => exact hold hr
  · cases o with
    | deliverMap r' =>
      show (if (mapMove s r').isSome then r' :: s.delivered else s.delivered).Nodup
      cases hm : mapMove s r' with
      | none => exact h.dnodup
      | some p =>
        obtain ⟨c, t⟩ := p
        exact List.nodup_cons.2 ⟨(mapMove_some hm).1, h.dnodup⟩
    | _ => exact h.dnodup
  · intro r hr
    rcases sstep_taken_cases s o r hr with e | ⟨c, _, hc⟩
    · obtain ⟨c, hc, hs⟩ := h.taken r e
      refine ⟨c, by rw [hlen]; exact hc, ?_⟩
      rw [sstep_cu s o c hc]
      obtain ⟨p, hp, hpr⟩ := List.mem_map.1 hs
      exact List.mem_map.2 ⟨p, applyCU_sent _ _ p hp, hpr⟩
    · simp only [cmpMove, Bool.and_eq_true, decide_eq_true_eq] at hc
      refine ⟨c, by rw [hlen]; exact hc.1.1, ?_⟩
      rw [sstep_cu s o c hc.1.1]
      obtain ⟨p, hp, hpr⟩ := List.mem_map.1 hc.1.2
      exact List.mem_map.2 ⟨p, applyCU_sent _ _ p hp, hpr⟩
  · cases o with
    | deliverCmp c r' =>
      show (if cmpMove s c r' then r' :: s.taken else s.taken).Nodup
      cases hm : cmpMove s c r' with
      | false => exact h.tnodup
      | true =>
        simp only [cmpMove, Bool.and_eq_true, decide_eq_true_eq, Bool.not_eq_true', decide_eq_false_iff_not] at hm
        exact List.nodup_cons.2 ⟨hm.2, h.tnodup⟩
    | _ => exact h.tnodup
  · apply step_src _ _ (Src_mono h.src (fun r hr => sstep_taken_sub s o r hr))
    intro ids hids r hr
    obtain ⟨c, r', ho, hc, hi⟩ := cpOp_complete hids
    subst ho
    rw [hi] at hr
    rw [List.mem_singleton.1 hr]
    show r' ∈ (if cmpMove s c r' then r' :: s.taken else s.taken)
    rw [hc]; exact List.mem_cons_self

theorem SI_run {s : Sys} (h : SI s) (ops : List SOp) : SI (srun s ops) := by
  induction ops generalizing s with
  | nil => exact h
  | cons o os ih => rw [srun_cons]; exact ih (SI_step h o)

theorem SI_init (cfg : Cfg) (nd : Nat) (pool : List CU) (caps : Nat → List Nat) (room capM capD : Nat) :
    SI (sinit cfg nd pool caps room capM capD) := by
  refine ⟨?_, ?_, ?_, (fun r hr => by cases hr), List.nodup_nil, (fun r hr => by cases hr), List.nodup_nil,
    ⟨(fun m hm => by cases hm), (fun r hr => by cases hr)⟩⟩
  · intro c hc
    rw [sinit_len] at hc
    rw [sinit_cu _ _ _ _ _ _ _ _ hc]
    exact TReach.init _ _
  · rw [sinit_cp]; exact run_DCI _ _ (mkCP_DCI cfg nd pool)
  · intro c hc sh hsh
    rw [sinit_len] at hc
    rw [sinit_cu _ _ _ _ _ _ _ _ hc] at hsh
    cases hsh

/-! ## the projected trace from the initial state -/

/-- the command processor's open-model moves of a closed run from the initial state -/
def cpTrace (cfg : Cfg) (nd : Nat) (pool : List CU) (caps : Nat → List Nat) (room capM capD : Nat)
    (ops : List SOp) : List Op :=
  [.cuRoom capM, .drvRoom capD] ++ cpOps (sinit cfg nd pool caps room capM capD) ops

theorem cpTrace_run (cfg : Cfg) (nd : Nat) (pool : List CU) (caps : Nat → List Nat) (room capM capD : Nat)
    (ops : List SOp) :
    (srun (sinit cfg nd pool caps room capM capD) ops).cp =
      run (mkCP cfg nd pool) (cpTrace cfg nd pool caps room capM capD ops) := by
  rw [srun_cp, sinit_cp, cpTrace]; rfl

theorem cpTrace_launchIds (cfg : Cfg) (nd : Nat) (pool : List CU) (caps : Nat → List Nat) (room capM capD : Nat)
    (ops : List SOp) : launchIds (cpTrace cfg nd pool caps room capM capD ops) = sLaunchIds ops := by
  rw [← launchIds_cpOps (sinit cfg nd pool caps room capM capD) ops]
  rfl

theorem cpTrace_launch (cfg : Cfg) (nd : Nat) (pool : List CU) (caps : Nat → List Nat) (room capM capD : Nat)
    (ops : List SOp) (k : Kern) (hk : SOp.launch k ∈ ops) :
    Op.launch k ∈ cpTrace cfg nd pool caps room capM capD ops :=
  List.mem_append_right _ ((mem_cpOps_launch _ ops k).2 hk)

end Sys
end C09
