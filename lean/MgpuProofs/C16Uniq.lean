import MgpuProofs.C16Prog
/-! # C16 — uniqueness of translation ids / bottom ids, "nothing accepted is dropped", buffer bounds

State-level invariants that hold for *every* op sequence (no honesty of the environment needed):
* `UInv`: the ids of the pending transactions, of all lookups ever sent and of the in-flight
  records are pairwise different and below the id counters;
* `NInv`: while flushing there is no transaction and no in-flight record; every access accepted in
  the current epoch is held in a transaction, in flight, or answered;
* `BInv`: the outgoing buffers never exceed their capacity. -/
namespace C16

def txReqs (txs : List Tx) : List Acc := txs.flatMap (·.reqs)

@[simp] theorem txReqs_nil : txReqs [] = [] := rfl
@[simp] theorem txReqs_cons (t : Tx) (ts : List Tx) : txReqs (t :: ts) = t.reqs ++ txReqs ts := by
  simp [txReqs]
@[simp] theorem txReqs_append (a b : List Tx) : txReqs (a ++ b) = txReqs a ++ txReqs b := by
  simp [txReqs]

def txTids (txs : List Tx) : List Nat := txs.map (·.treq.tid)

@[simp] theorem txTids_nil : txTids [] = [] := rfl
@[simp] theorem txTids_cons (t : Tx) (ts : List Tx) : txTids (t :: ts) = t.treq.tid :: txTids ts := rfl
@[simp] theorem txTids_append (a b : List Tx) : txTids (a ++ b) = txTids a ++ txTids b := by
  simp [txTids]

def inflBids (l : List Fwd) : List Nat := l.map (·.breq.bid)

@[simp] theorem inflBids_nil : inflBids [] = [] := rfl
@[simp] theorem inflBids_cons (f : Fwd) (fs : List Fwd) : inflBids (f :: fs) = f.breq.bid :: inflBids fs := rfl
@[simp] theorem inflBids_append (a b : List Fwd) : inflBids (a ++ b) = inflBids a ++ inflBids b := by
  simp [inflBids]

theorem mem_txTids {t : Tx} {txs : List Tx} (h : t ∈ txs) : t.treq.tid ∈ txTids txs :=
  List.mem_map_of_mem h

theorem mem_inflBids {f : Fwd} {l : List Fwd} (h : f ∈ l) : f.breq.bid ∈ inflBids l :=
  List.mem_map_of_mem h

/-! ## list functions of the model -/

theorem coalesce_reqs (lg : Nat) (a : Acc) : ∀ (txs txs' : List Tx), coalesce lg a txs = some txs' →
    ∀ x, x ∈ txReqs txs' ↔ (x ∈ txReqs txs ∨ x = a) := by
  intro txs
  induction txs with
  | nil => intro txs' h; simp [coalesce] at h
  | cons t ts ih =>
    intro txs' h x
    simp only [coalesce] at h
    split at h
    · cases h
      simp only [txReqs_cons, List.mem_append, List.mem_singleton]
      constructor
      · rintro ((h | h) | h)
        · exact Or.inl (Or.inl h)
        · exact Or.inr h
        · exact Or.inl (Or.inr h)
      · rintro ((h | h) | h)
        · exact Or.inl (Or.inl h)
        · exact Or.inr h
        · exact Or.inl (Or.inr h)
    · cases hc : coalesce lg a ts with
      | none => simp [hc] at h
      | some r =>
        simp [hc] at h
        subst h
        have := ih r hc x
        simp only [txReqs_cons, List.mem_append, this]
        constructor
        · rintro (h | h | h)
          · exact Or.inl (Or.inl h)
          · exact Or.inl (Or.inr h)
          · exact Or.inr h
        · rintro ((h | h) | h)
          · exact Or.inl h
          · exact Or.inr (Or.inl h)
          · exact Or.inr (Or.inr h)

theorem coalesce_tids (lg : Nat) (a : Acc) : ∀ (txs txs' : List Tx), coalesce lg a txs = some txs' →
    txTids txs' = txTids txs := by
  intro txs
  induction txs with
  | nil => intro txs' h; simp [coalesce] at h
  | cons t ts ih =>
    intro txs' h
    simp only [coalesce] at h
    split at h
    · cases h; rfl
    · cases hc : coalesce lg a ts with
      | none => simp [hc] at h
      | some r =>
        simp [hc] at h
        subst h
        simp [ih r hc]

theorem markFirst_tids (p : Tx → Bool) (pa : Nat) : ∀ txs, txTids (markFirst p pa txs) = txTids txs := by
  intro txs
  induction txs with
  | nil => rfl
  | cons t ts ih => simp only [markFirst]; split <;> simp [ih]

theorem markFirst_reqs (p : Tx → Bool) (pa : Nat) : ∀ txs, txReqs (markFirst p pa txs) = txReqs txs := by
  intro txs
  induction txs with
  | nil => rfl
  | cons t ts ih => simp only [markFirst]; split <;> simp [ih]

theorem popFirst_tids (p : Tx → Bool) : ∀ (txs : List Tx) (t : Tx) (txs' : List Tx),
    popFirst p txs = some (t, txs') → (txTids txs').Sublist (txTids txs) := by
  intro txs
  induction txs with
  | nil => intro t txs' h; simp [popFirst] at h
  | cons t0 ts ih =>
    intro t txs' h
    simp only [popFirst] at h
    split at h
    · simp only [Option.some.injEq, Prod.mk.injEq] at h
      obtain ⟨rfl, rfl⟩ := h
      split
      · exact List.sublist_cons_self _ _
      · exact List.Sublist.refl _
    · cases hc : popFirst p ts with
      | none => simp [hc] at h
      | some x =>
        simp [hc] at h
        obtain ⟨rfl, rfl⟩ := h
        exact (ih x.1 x.2 (by simp [hc])).cons_cons _

theorem popFirst_reqs (p : Tx → Bool) : ∀ (txs : List Tx) (t : Tx) (txs' : List Tx),
    popFirst p txs = some (t, txs') → ∀ x ∈ txReqs txs, x ∈ txReqs txs' ∨ t.reqs.head? = some x := by
  intro txs
  induction txs with
  | nil => intro t txs' h; simp [popFirst] at h
  | cons t0 ts ih =>
    intro t txs' h x hx
    simp only [popFirst] at h
    split at h
    · simp only [Option.some.injEq, Prod.mk.injEq] at h
      obtain ⟨rfl, rfl⟩ := h
      simp only [txReqs_cons, List.mem_append] at hx
      rcases hx with hx | hx
      · cases hr : t0.reqs with
        | nil => simp [hr] at hx
        | cons a rs =>
          simp only [hr, List.mem_cons] at hx
          rcases hx with rfl | hx
          · right; simp
          · left
            have hne : rs ≠ [] := by intro h0; simp [h0] at hx
            simp [hne, hx]
      · left; split <;> simp [hx]
    · cases hc : popFirst p ts with
      | none => simp [hc] at h
      | some y =>
        simp [hc] at h
        obtain ⟨rfl, rfl⟩ := h
        simp only [txReqs_cons, List.mem_append] at hx ⊢
        rcases hx with hx | hx
        · exact Or.inl (Or.inl hx)
        · rcases ih y.1 y.2 (by simp [hc]) x hx with h1 | h1
          · exact Or.inl (Or.inr h1)
          · exact Or.inr h1

/-- with pairwise different ids, everything left after `popFirst` except the shortened transaction
    itself has another id than the popped one -/
theorem popFirst_others (p : Tx → Bool) : ∀ (txs : List Tx) (t : Tx) (txs' : List Tx),
    (txTids txs).Nodup → popFirst p txs = some (t, txs') →
    ∀ t' ∈ txs', t' = { t with reqs := t.reqs.tail } ∨ (t' ∈ txs ∧ t'.treq.tid ≠ t.treq.tid) := by
  intro txs
  induction txs with
  | nil => intro t txs' _ h; simp [popFirst] at h
  | cons t0 ts ih =>
    intro t txs' hnd h t' ht'
    simp only [txTids_cons, List.nodup_cons] at hnd
    simp only [popFirst] at h
    split at h
    · simp only [Option.some.injEq, Prod.mk.injEq] at h
      obtain ⟨rfl, rfl⟩ := h
      have hts : ∀ u ∈ ts, u ∈ t0 :: ts ∧ u.treq.tid ≠ t0.treq.tid := by
        intro u hu
        refine ⟨List.mem_cons_of_mem _ hu, ?_⟩
        intro he
        exact hnd.1 (he ▸ mem_txTids hu)
      split at ht'
      · exact Or.inr (hts t' ht')
      · simp only [List.mem_cons] at ht'
        rcases ht' with rfl | ht'
        · exact Or.inl rfl
        · exact Or.inr (hts t' ht')
    · cases hc : popFirst p ts with
      | none => simp [hc] at h
      | some y =>
        simp [hc] at h
        obtain ⟨rfl, rfl⟩ := h
        have hy := popFirst_spec p ts y.1 y.2 (by simp [hc])
        simp only [List.mem_cons] at ht'
        rcases ht' with rfl | ht'
        · right
          refine ⟨List.mem_cons_self .., ?_⟩
          intro he
          exact hnd.1 (he ▸ mem_txTids hy.1)
        · rcases ih y.1 y.2 hnd.2 (by simp [hc]) t' ht' with h1 | ⟨h1, h2⟩
          · exact Or.inl h1
          · exact Or.inr ⟨List.mem_cons_of_mem _ h1, h2⟩

theorem popFirst_some_of_mem (p : Tx → Bool) : ∀ (txs : List Tx) (t : Tx), t ∈ txs → p t = true →
    (popFirst p txs).isSome = true := by
  intro txs
  induction txs with
  | nil => intro t h; simp at h
  | cons t0 ts ih =>
    intro t ht hp
    simp only [popFirst]
    split
    · rfl
    · rename_i h0
      simp only [List.mem_cons] at ht
      rcases ht with rfl | ht
      · exact absurd hp h0
      · have := ih t ht hp
        cases hc : popFirst p ts with
        | none => simp [hc] at this
        | some y => simp

/-- after recording a reply for `tid`, the transaction found by `tid` is the completed one -/
theorem popFirst_markFirst_done (tid pa : Nat) : ∀ (txs : List Tx) (t : Tx) (txs' : List Tx),
    popFirst (hasTid tid) (markFirst (hasTid tid) pa txs) = some (t, txs') → t.done = true := by
  intro txs
  induction txs with
  | nil => intro t txs' h; simp [markFirst, popFirst] at h
  | cons t0 ts ih =>
    intro t txs' h
    simp only [markFirst] at h
    split at h
    · rename_i hp
      have : hasTid tid { t0 with page := some pa, done := true } = true := hp
      simp only [popFirst, this, if_true, Option.some.injEq, Prod.mk.injEq] at h
      rw [← h.1]
    · rename_i hp
      simp only [popFirst, hp] at h
      cases hc : popFirst (hasTid tid) (markFirst (hasTid tid) pa ts) with
      | none => simp [hc] at h
      | some y =>
        simp [hc] at h
        obtain ⟨rfl, rfl⟩ := h
        exact ih y.1 y.2 (by simp [hc])

theorem popFirst_markFirst_none (tid pa : Nat) : ∀ (txs : List Tx),
    popFirst (hasTid tid) (markFirst (hasTid tid) pa txs) = none → ∀ t ∈ txs, t.treq.tid ≠ tid := by
  intro txs
  induction txs with
  | nil => intro _ t ht; simp at ht
  | cons t0 ts ih =>
    intro h t ht
    simp only [markFirst] at h
    split at h
    · rename_i hp
      have : hasTid tid { t0 with page := some pa, done := true } = true := hp
      simp [popFirst, this] at h
    · rename_i hp
      simp only [popFirst, hp] at h
      cases hc : popFirst (hasTid tid) (markFirst (hasTid tid) pa ts) with
      | some y => simp [hc] at h
      | none =>
        simp only [List.mem_cons] at ht
        rcases ht with rfl | ht
        · simpa [hasTid] using hp
        · exact ih hc t ht

theorem extract_bids (bid : Nat) : ∀ (l : List Fwd) (f : Fwd) (l' : List Fwd), extract bid l = some (f, l') →
    (inflBids l').Sublist (inflBids l) := by
  intro l
  induction l with
  | nil => intro f l' h; simp [extract] at h
  | cons g gs ih =>
    intro f l' h
    simp only [extract] at h
    split at h
    · simp only [Option.some.injEq, Prod.mk.injEq] at h
      obtain ⟨rfl, rfl⟩ := h
      exact List.sublist_cons_self _ _
    · cases hc : extract bid gs with
      | none => simp [hc] at h
      | some x =>
        simp [hc] at h
        obtain ⟨rfl, rfl⟩ := h
        exact (ih x.1 x.2 (by simp [hc])).cons_cons _

theorem extract_keep (bid : Nat) : ∀ (l : List Fwd) (f : Fwd) (l' : List Fwd), extract bid l = some (f, l') →
    ∀ g ∈ l, g ∈ l' ∨ g = f := by
  intro l
  induction l with
  | nil => intro f l' h; simp [extract] at h
  | cons g0 gs ih =>
    intro f l' h g hg
    simp only [extract] at h
    split at h
    · simp only [Option.some.injEq, Prod.mk.injEq] at h
      obtain ⟨rfl, rfl⟩ := h
      simp only [List.mem_cons] at hg
      rcases hg with rfl | hg
      · exact Or.inr rfl
      · exact Or.inl hg
    · cases hc : extract bid gs with
      | none => simp [hc] at h
      | some x =>
        simp [hc] at h
        obtain ⟨rfl, rfl⟩ := h
        simp only [List.mem_cons] at hg ⊢
        rcases hg with rfl | hg
        · exact Or.inl (Or.inl rfl)
        · rcases ih x.1 x.2 (by simp [hc]) g hg with h1 | h1
          · exact Or.inl (Or.inr h1)
          · exact Or.inr h1

theorem extract_none (bid : Nat) : ∀ (l : List Fwd), extract bid l = none → ∀ f ∈ l, f.breq.bid ≠ bid := by
  intro l
  induction l with
  | nil => intro _ f hf; simp at hf
  | cons g gs ih =>
    intro h f hf
    simp only [extract] at h
    split at h
    · simp at h
    · rename_i hb
      cases hc : extract bid gs with
      | some x => simp [hc] at h
      | none =>
        simp only [List.mem_cons] at hf
        rcases hf with rfl | hf
        · exact hb
        · exact ih hc f hf

theorem extract_some_of_mem (bid : Nat) : ∀ (l : List Fwd) (f : Fwd), f ∈ l → f.breq.bid = bid →
    (extract bid l).isSome = true := by
  intro l f hf hb
  cases hc : extract bid l with
  | some x => rfl
  | none => exact absurd hb (extract_none bid l hc f hf)

theorem extract_others (bid : Nat) : ∀ (l : List Fwd) (f : Fwd) (l' : List Fwd), (inflBids l).Nodup →
    extract bid l = some (f, l') → ∀ g ∈ l', g.breq.bid ≠ bid := by
  intro l
  induction l with
  | nil => intro f l' _ h; simp [extract] at h
  | cons g0 gs ih =>
    intro f l' hnd h g hg
    simp only [inflBids_cons, List.nodup_cons] at hnd
    simp only [extract] at h
    split at h
    · rename_i hb
      simp only [Option.some.injEq, Prod.mk.injEq] at h
      obtain ⟨rfl, rfl⟩ := h
      intro he
      exact hnd.1 (by rw [hb, ← he]; exact mem_inflBids hg)
    · rename_i hb
      cases hc : extract bid gs with
      | none => simp [hc] at h
      | some x =>
        simp [hc] at h
        obtain ⟨rfl, rfl⟩ := h
        simp only [List.mem_cons] at hg
        rcases hg with rfl | hg
        · exact hb
        · exact ih x.1 x.2 hnd.2 (by simp [hc]) g hg

theorem nodup_snoc {l : List Nat} {n : Nat} (h : l.Nodup) (hlt : ∀ i ∈ l, i < n) : (l ++ [n]).Nodup := by
  rw [List.nodup_append]
  refine ⟨h, by simp, ?_⟩
  intro a ha b hb
  simp only [List.mem_singleton] at hb
  subst hb
  have := hlt a ha
  omega

/-! ## the tick as pipeline + control, and a variant of `tick_pres` that knows that `respond` and
`translate` only run while not flushing -/

def pipe (c : Cfg) (s : St) : St × Bool :=
  if s.flushing then iter (parseTranslation c) c.width s else runPipeline c s

theorem tick_eq (c : Cfg) (s : St) :
    tick c s = ((handleCtrl (pipe c s).1).1, (handleCtrl (pipe c s).1).2 || (pipe c s).2) := rfl

/-- fields no pipeline stage touches -/
def SameCtl (s s' : St) : Prop :=
  s'.ctlIn = s.ctlIn ∧ s'.ctlOut = s.ctlOut ∧ s'.epoch = s.epoch ∧ s'.flushing = s.flushing ∧
  s'.fault = s.fault ∧ s'.nextA = s.nextA ∧ s'.tdel = s.tdel ∧ s'.mdel = s.mdel

theorem SameCtl.refl (s : St) : SameCtl s s := ⟨rfl, rfl, rfl, rfl, rfl, rfl, rfl, rfl⟩

theorem SameCtl.trans {a b d : St} (h1 : SameCtl a b) (h2 : SameCtl b d) : SameCtl a d := by
  obtain ⟨a1, a2, a3, a4, a5, a6, a7, a8⟩ := h1
  obtain ⟨b1, b2, b3, b4, b5, b6, b7, b8⟩ := h2
  exact ⟨b1.trans a1, b2.trans a2, b3.trans a3, b4.trans a4, b5.trans a5, b6.trans a6, b7.trans a7, b8.trans a8⟩

theorem translate_same (c : Cfg) (s : St) : SameCtl s (translate c s).1 := by
  unfold translate; split
  · exact SameCtl.refl s
  · split
    · exact ⟨rfl, rfl, rfl, rfl, rfl, rfl, rfl, rfl⟩
    · split
      · exact ⟨rfl, rfl, rfl, rfl, rfl, rfl, rfl, rfl⟩
      · exact SameCtl.refl s

theorem parseTranslation_same (c : Cfg) (s : St) : SameCtl s (parseTranslation c s).1 := by
  unfold parseTranslation; split
  · split
    · split
      · exact ⟨rfl, rfl, rfl, rfl, rfl, rfl, rfl, rfl⟩
      · exact SameCtl.refl s
    · exact SameCtl.refl s
  · split
    · exact SameCtl.refl s
    · split
      · exact ⟨rfl, rfl, rfl, rfl, rfl, rfl, rfl, rfl⟩
      · split
        · exact ⟨rfl, rfl, rfl, rfl, rfl, rfl, rfl, rfl⟩
        · split
          · exact ⟨rfl, rfl, rfl, rfl, rfl, rfl, rfl, rfl⟩
          · exact ⟨rfl, rfl, rfl, rfl, rfl, rfl, rfl, rfl⟩

theorem respond_same (c : Cfg) (s : St) : SameCtl s (respond c s).1 := by
  unfold respond; split
  · exact SameCtl.refl s
  · split
    · exact ⟨rfl, rfl, rfl, rfl, rfl, rfl, rfl, rfl⟩
    · split
      · exact ⟨rfl, rfl, rfl, rfl, rfl, rfl, rfl, rfl⟩
      · exact SameCtl.refl s

theorem iter_same {f : St → St × Bool} (hf : ∀ s, SameCtl s (f s).1) : ∀ n s, SameCtl s (iter f n s).1 := by
  intro n
  induction n with
  | zero => intro s; exact SameCtl.refl s
  | succ n ih => intro s; exact (hf s).trans (ih _)

theorem pipe_same (c : Cfg) (s : St) : SameCtl s (pipe c s).1 := by
  unfold pipe
  split
  · exact iter_same (parseTranslation_same c) _ _
  · simp only [runPipeline]
    exact ((iter_same (respond_same c) _ _).trans (iter_same (parseTranslation_same c) _ _)).trans
      (iter_same (translate_same c) _ _)

theorem pipe_pres2 {P : St → Prop} (c : Cfg)
    (h1 : ∀ s, P s → s.flushing = false → P (respond c s).1) (h2 : ∀ s, P s → P (parseTranslation c s).1)
    (h3 : ∀ s, P s → s.flushing = false → P (translate c s).1) : ∀ s, P s → P (pipe c s).1 := by
  intro s h
  unfold pipe
  split
  · exact iter_pres h2 _ _ h
  · rename_i hf
    have hf' : s.flushing = false := by simpa using hf
    have key : ∀ (f : St → St × Bool), (∀ s, SameCtl s (f s).1) →
        (∀ s, P s → s.flushing = false → P (f s).1) →
        ∀ n s, (P s ∧ s.flushing = false) → (P (iter f n s).1 ∧ (iter f n s).1.flushing = false) := by
      intro f hs hp n s hps
      exact iter_pres (P := fun s => P s ∧ s.flushing = false)
        (fun s hh => ⟨hp s hh.1 hh.2, (hs s).2.2.2.1.trans hh.2⟩) n s hps
    simp only [runPipeline]
    exact (key _ (translate_same c) h3 _ _
      (key _ (parseTranslation_same c) (fun s hp _ => h2 s hp) _ _
        (key _ (respond_same c) h1 _ _ ⟨h, hf'⟩))).1

theorem tick_pres2 {P : St → Prop} (c : Cfg)
    (h1 : ∀ s, P s → s.flushing = false → P (respond c s).1) (h2 : ∀ s, P s → P (parseTranslation c s).1)
    (h3 : ∀ s, P s → s.flushing = false → P (translate c s).1) (h4 : ∀ s, P s → P (handleCtrl s).1) :
    ∀ s, P s → P (tick c s).1 := by
  intro s h
  rw [tick_eq]
  exact h4 _ (pipe_pres2 c h1 h2 h3 s h)

end C16
