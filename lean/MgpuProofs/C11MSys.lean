import MgpuProofs.C11SysTx
import MgpuProofs.C11CpLink
import MgpuModel.C11MSys
/-! # C11 helper: the several-GPU closed system — every lane keeps the invariants of the one-GPU system -/
namespace C11

/-- everything known about a lane (a GPU's command processor + DMA engine + memory as a `Sys` whose `mq`
    is the ghost record of what was routed to this GPU): the inductive invariants of the one-GPU closed
    system, and the two components are in reachable states of their own models -/
structure Sys.LaneInv (c : SysCfg) (s : Sys) : Prop where
  mem : s.MemInv
  link : s.LinkInv
  data : s.DataInv
  cmd : s.CmdInv
  wf : s.CmdWF
  hist : s.HistInv
  host : s.HostInv
  pt : s.pt = c.pt
  cp : ∃ co, s.cp = reachCp c.nCaches c.cin c.cdrv c.cdma c.ccache co
  dma : ∃ dops, s.dma = reach c.log2 c.maxReq c.memCap dops ∧ ∀ o ∈ dops, o.isInject = false

theorem Sys.LaneInv.init (c : SysCfg) : (Sys.init c).LaneInv c :=
  ⟨Sys.MemInv.init c, Sys.LinkInv.init c, Sys.DataInv.init c, Sys.CmdInv.init c, Sys.CmdWF.init c,
   Sys.HistInv.init c, Sys.HostInv.init c, rfl, ⟨[], rfl⟩, ⟨[], rfl, fun o h => by cases h⟩⟩

theorem Sys.LaneInv.step {c : SysCfg} {s : Sys} (h : s.LaneInv c) (op : SysOp) : (s.step op).1.LaneInv c := by
  obtain ⟨co, h2⟩ := h.cp
  obtain ⟨dops, h3, h4⟩ := h.dma
  obtain ⟨l2, e2⟩ := s.step_cp op
  obtain ⟨l3, e3, e4⟩ := s.step_dma op
  refine ⟨h.mem.step op, h.link.step op, h.data.step op, h.cmd.step op, h.wf.step op, h.hist.step op,
    h.host.step op, (s.step_pt op).trans h.pt, ⟨co ++ l2, ?_⟩, ⟨dops ++ l3, ?_, ?_⟩⟩
  · rw [e2, h2]; unfold reachCp; rw [CpEnv.run_append]
  · rw [e3, h3]; unfold reach; rw [Env.run_app]
  · intro o ho
    rcases List.mem_append.1 ho with ho | ho
    · exact h4 o ho
    · exact e4 o ho

/-- loading the ghost port changes nothing the invariants speak about -/
theorem Sys.LaneInv.load {c : SysCfg} {s : Sys} (h : s.LaneInv c) (r : MqReq) : (s.load r).LaneInv c :=
  ⟨⟨h.mem.perm, h.mem.cont, h.mem.outs⟩, ⟨h.link.len, h.link.next, h.link.pay, h.link.wire⟩, ⟨h.data.data⟩,
   ⟨h.cmd.len, h.cmd.sent, h.cmd.fed⟩, ⟨h.wf.pcs, h.wf.data, h.wf.kind, h.wf.enq⟩,
   ⟨h.hist.mem, h.hist.log, h.hist.reads⟩, ⟨h.host.src⟩, h.pt, h.cp, h.dma⟩

/-- the lane as a state of the one-GPU system: its DMA engine satisfies the engine invariants -/
theorem Sys.LaneInv.dmaInv {c : SysCfg} {s : Sys} (h : s.LaneInv c) : s.dma.Inv ∧ s.dma.TxInv := by
  obtain ⟨dops, hd, _⟩ := h.dma
  rw [hd]
  exact ⟨dma_inv c.log2 c.maxReq c.memCap dops, Env.run_tx (Env.init_tx c.log2 c.maxReq c.memCap) dops⟩

/-- the context of a transaction a lane's memory performed (`Sys.AllInv.tx_ctx` for a lane) -/
theorem Sys.LaneInv.tx_ctx {c : SysCfg} {s : Sys} (h : s.LaneInv c) (hinj : PtInj c.pt) {t : MemTx} (ht : t ∈ s.mlog) :
    ∃ (rq : MqReq) (p : Piece), TxCtx s t rq p := by
  obtain ⟨rq, p, a1, a2, _, _⟩ := h.data.data t ht
  obtain ⟨q, hq, g1, g2, g3, g4, _, g6⟩ := h.mem.cont t ht
  obtain ⟨hdi, hdt⟩ := h.dmaInv
  have hiss : q ∈ s.dma.issued := by unfold Env.issued; simp [hq]
  obtain ⟨r, hr, hrid, hsp, hw⟩ := hdt.issued_in_range q hiss
  have hrd : s.dma.cps[r.id]? = some r := getElem?_of_ids_range hdi.cps_ids hr
  obtain ⟨cl, rq', p', b1, b2, b3, b4⟩ := h.link.pay r.id r hrd
  have hreq' : s.reqOfDma t.owner = some rq' := by
    unfold Sys.reqOfDma Sys.reqOfCp
    rw [← g4, ← hrid, b1]; exact b2
  have hrq : rq' = rq := Option.some.inj (hreq'.symm.trans a1)
  subst hrq
  have hp : p' = p := Option.some.inj (b3.symm.trans a2)
  subst hp
  obtain ⟨c1, c2, c3, c4, c5, c6⟩ := Sys.pieceOf_spec a2
  have hpm : (p'.pa, p'.off, p'.len) ∈ p'.cmd.pcs := List.mem_of_getElem? c5
  have hpcs := h.wf.pcs p'.cmd c1
  rw [h.pt] at hpcs
  obtain ⟨d1, d2, d3⟩ := pieces_piece c.pt hinj p'.cmd.addr p'.cmd.len p'.cmd.pcs hpcs _ hpm
  have hra : r.addr = p'.pa := by rw [b4]
  have hrl : r.len = p'.len := by rw [b4]
  have hrk : r.kind = mqKindToDma p'.cmd.kind := by rw [b4]
  obtain ⟨e1, e2, e3⟩ := splitBy_mem_range _ _ _ _ _ hsp
  simp only at e1 e2 e3
  rw [hra] at e1
  rw [hra, hrl] at e2
  refine ⟨rq', p', a1, a2, c1, by rw [← g2]; exact e1, by rw [← g2, ← g6]; exact e2, by rw [← g6]; exact e3,
    by rw [← g3, hw, hrk], d1, ?_⟩
  intro j hj
  rw [h.pt]; exact d3 j hj

/-! ## the whole system -/

structure MSys.Inv (c : MCfg) (s : MSys) : Prop where
  lanes : ∀ l ∈ s.lanes, l.LaneInv c.sys
  /-- the ONE driver is in a reachable state of the driver model with `nGpus = N` -/
  mq : ∃ mo, s.mq = reachMq c.nGpus c.sys.cycH2D c.sys.cycD2H c.sys.nQueues c.sys.warm mo
  n : s.lanes.length = c.nGpus

theorem MSys.Inv.init (c : MCfg) : (MSys.init c).Inv c :=
  ⟨fun l hl => by
      have := List.eq_of_mem_replicate hl
      rw [this]; exact Sys.LaneInv.init c.sys,
   ⟨[], rfl⟩, by simp [MSys.init]⟩

theorem MSys.Inv.mqStep {c : MCfg} {s : MSys} (h : s.Inv c) (op : MqOp) :
    ∃ mo, (s.mq.step op).1 = reachMq c.nGpus c.sys.cycH2D c.sys.cycD2H c.sys.nQueues c.sys.warm mo := by
  obtain ⟨mo, hm⟩ := h.mq
  refine ⟨mo ++ [op], ?_⟩
  rw [hm]; unfold reachMq; rw [MqEnv.run_app]; rfl

theorem MSys.Inv.setLane {c : MCfg} {s : MSys} (h : s.Inv c) (g : Nat) (l' : Sys) (hl : l'.LaneInv c.sys) :
    ∀ l ∈ s.lanes.set g l', l.LaneInv c.sys := by
  intro l hm
  rcases List.mem_or_eq_of_mem_set hm with hm | hm
  · exact h.lanes l hm
  · rw [hm]; exact hl

theorem MSys.Inv.step {c : MCfg} {s : MSys} (h : s.Inv c) (op : MOp) : (s.step op).1.Inv c := by
  cases op with
  | enq q h2d addr len salt =>
    simp only [MSys.step]
    split
    · exact h
    · split
      · refine ⟨?_, h.mqStep _, by simp [h.n]⟩
        intro l hl
        obtain ⟨l0, hl0, rfl⟩ := List.mem_map.1 hl
        exact (h.lanes l0 hl0).step _
      · exact h
  | drvTick => exact ⟨h.lanes, h.mqStep _, h.n⟩
  | toCp =>
    simp only [MSys.step]
    split
    · exact h
    · split
      · exact h
      · rename_i l hl
        split
        · exact ⟨h.setLane _ _ (((h.lanes l (List.mem_of_getElem? hl)).load _).step _), h.mqStep _, by simp [h.n]⟩
        · exact h
  | gpu g op =>
    simp only [MSys.step]
    split
    · split
      · exact h
      · rename_i l hl
        exact ⟨h.setLane _ _ ((h.lanes l (List.mem_of_getElem? hl)).step _), h.mq, by simp [h.n]⟩
    · exact h
  | toDrv g =>
    simp only [MSys.step]
    split
    · exact h
    · rename_i l hl
      split
      · exact h
      · split
        · exact h
        · split
          · exact ⟨h.setLane _ _ ((h.lanes l (List.mem_of_getElem? hl)).step _), h.mqStep _, by simp [h.n]⟩
          · exact h

theorem MSys.Inv.run {c : MCfg} : ∀ (ops : List MOp) {s : MSys}, s.Inv c → (s.run ops).Inv c
  | [], _, h => h
  | op :: rest, _, h => MSys.Inv.run rest (h.step op)

theorem reachMSys_inv (c : MCfg) (ops : List MOp) : (reachMSys c ops).Inv c :=
  MSys.Inv.run ops (MSys.Inv.init c)

end C11
