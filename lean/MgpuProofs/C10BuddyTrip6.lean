import MgpuProofs.C10BuddyFull
/-!
Buddy allocator — the bit fields only ever hold indices of real tree nodes above the finest level:
every set bit of `bfBlockSplit` / `bfMergeList` is `ix l k` for some `l < F`, `k < 2^l`, i.e. lies in
`0 … 2^F - 2` (`BV`). Preserved by every operation and by whole histories (`bv_runLive`); consequently a
state without split (merged) nodes has an empty split (merge) bit field (`bv_split_nil`, `bv_merge_nil`).
-/
namespace C10.Buddy

/-- every set bit of the two bit fields is the index of a node above the finest level -/
def BV (F : Nat) (s : State) : Prop := (∀ i ∈ s.split, i + 1 < 2 ^ F) ∧ (∀ i ∈ s.merge, i + 1 < 2 ^ F)

theorem ix_valid {F l k : Nat} (hl : l < F) (hk : k < 2 ^ l) : ix l k + 1 < 2 ^ F := by
  unfold ix
  have p := Nat.pow_le_pow_right (show 0 < 2 by decide) (show l + 1 ≤ F from hl)
  rw [pow_succ2] at p
  have := Nat.pow_pos (n := l) (show 0 < 2 by decide)
  omega

theorem mem_toggle_sub {bits : List Nat} {i j : Nat} (h : j ∈ toggle bits i) : j = i ∨ j ∈ bits := by
  unfold toggle at h
  split at h
  · exact Or.inr (List.mem_of_mem_erase h)
  · exact List.mem_cons.mp h

/-- the bit fields are untouched -/
theorem bv_same {F : Nat} {s s' : State} (hb : BV F s) (hsp : s'.split = s.split) (hmg : s'.merge = s.merge) :
    BV F s' := by
  unfold BV
  rw [hsp, hmg]
  exact hb

/-- each bit field is untouched or toggled at a valid index -/
theorem bv_tog {F : Nat} {s s' : State} {i : Nat} (hb : BV F s) (hi : i + 1 < 2 ^ F)
    (hsp : s'.split = s.split ∨ s'.split = toggle s.split i)
    (hmg : s'.merge = s.merge ∨ s'.merge = toggle s.merge i) : BV F s' := by
  constructor
  · intro j hj
    rcases hsp with e | e
    · rw [e] at hj
      exact hb.1 j hj
    · rw [e] at hj
      rcases mem_toggle_sub hj with e2 | h
      · rw [e2]; exact hi
      · exact hb.1 j h
  · intro j hj
    rcases hmg with e | e
    · rw [e] at hj
      exact hb.2 j hj
    · rw [e] at hj
      rcases mem_toggle_sub hj with e2 | h
      · rw [e2]; exact hi
      · exact hb.2 j h

theorem bv_init (F base : Nat) : BV F (init base (4096 * 2 ^ F)) := by
  constructor
  · intro i hi
    simp [init] at hi
  · intro i hi
    simp [init] at hi

/-! ## allocateMultiplePages -/

theorem bv_splitLoop {F : Nat} : ∀ (cnt l k : Nat) (s s' : State), FInv F s → BV F s → l + cnt ≤ F → k < 2 ^ l →
    UsedN F s l k → NoTrk F s l k → splitLoop (addr s.base F l k) cnt l s = .ok s' → BV F s' := by
  intro cnt
  induction cnt with
  | zero =>
    intro l k s s' _ hbv _ _ _ _ hs
    simp only [splitLoop] at hs
    injection hs with hs
    subst hs
    exact hbv
  | succ cnt ih =>
    intro l k s s' h hbv hl hk hu hnt hs
    have hs := splitLoop_succ hs
    have hsz := h.hsize
    have e1 : addr s.base F l k = addr s.base F (l + 1) (2 * k) := (addr_child (by omega)).symm
    have ei : indexOfBlock s.base s.size (addr s.base F l k) l = ix l k := by
      rw [hsz]; exact index_self (by omega)
    have eb : buddyOf s.base s.size (addr s.base F l k) (l + 1) = addr s.base F (l + 1) (2 * k + 1) := by
      rw [hsz, e1, buddy_addr (by omega), bud_even]
    rw [ei, eb, e1] at hs
    obtain ⟨h1, u1, n1⟩ := finv_split
      (s' := push { s with split := toggle s.split (ix l k), merge := toggle s.merge (ix l k) } (l + 1)
        (addr s.base F (l + 1) (2 * k + 1)))
      h (by omega) hk hu hnt rfl rfl rfl rfl rfl rfl rfl
    have pl := pow_succ2 l
    have hb1 : BV F (push { s with split := toggle s.split (ix l k), merge := toggle s.merge (ix l k) } (l + 1)
        (addr s.base F (l + 1) (2 * k + 1))) :=
      bv_tog hbv (ix_valid (by omega) hk) (Or.inr rfl) (Or.inr rfl)
    exact ih (l + 1) (2 * k) _ s' h1 hb1 (by omega) (by omega) u1 n1 hs

theorem bv_allocMulti {F : Nat} {s s' : State} {n : Nat} {ps : List Nat} (h : FInv F s) (hb : BV F s)
    (ha : allocMultiPos s n = .ok (ps, s')) : BV F s' := by
  have hlen := h.hlen
  have hsz := h.hsize
  unfold allocMultiPos at ha
  simp only at ha
  split at ha
  · cases ha
  · rename_i hord
    split at ha
    · cases ha
    · rename_i i hfind
      obtain ⟨hile, hne⟩ := findLevel_some hfind
      split at ha
      · cases ha
      · rename_i s1 h1
        split at ha
        · cases ha
        · rename_i s2 h2
          injection ha with ha
          injection ha with hp hs
          obtain ⟨blk, rest, hbr⟩ := List.exists_cons_of_ne_nil hne
          have hmem : blk ∈ lvl s.free i := by rw [hbr]; exact List.mem_cons_self
          obtain ⟨k, hk, hblk⟩ := h.fnode i blk hmem
          have hiF : i ≤ F := by omega
          have hfree : FreeN F s i k := by unfold FreeN; rw [← hblk]; exact hmem
          rw [hbr] at h1 h2 hp hs
          simp only [List.headD_cons, List.tail_cons] at h1 h2 hp hs
          have herase : rest = (lvl s.free i).erase (addr s.base F i k) := by
            rw [hbr, ← hblk, List.erase_cons_head]
          -- the state after the block left its free list
          have hs1 : FInv F s1 ∧ UsedN F s1 i k ∧ NoTrk F s1 i k ∧ s1.base = s.base ∧ BV F s1 := by
            cases i with
            | zero =>
              simp only [Nat.lt_irrefl, if_false] at h1
              injection h1 with h1
              subst h1
              obtain ⟨a, b, c⟩ := finv_take (s' := { s with free := setLvl s.free 0 rest }) h hiF hk hfree rfl rfl rfl rfl rfl
                (by rw [herase]) h.mnodup (fun l' k' _ _ => by rw [if_neg (by omega)]; rfl)
              exact ⟨a, b, c, rfl, bv_same hb rfl rfl⟩
            | succ i0 =>
              simp only [Nat.zero_lt_succ, if_true, Nat.add_sub_cancel] at h1
              have ei : indexOfBlock s.base s.size blk i0 = ix i0 (k / 2) := by
                rw [hblk, hsz]; exact index_parent (by omega)
              rw [ei] at h1
              unfold flipMerge at h1
              split at h1
              · injection h1 with h1
                subst h1
                have pl := pow_succ2 i0
                obtain ⟨a, b, c⟩ := finv_take
                  (s' := { s with free := setLvl s.free (i0 + 1) rest, merge := toggle s.merge (ix i0 (k / 2)) })
                  h hiF hk hfree rfl rfl rfl rfl rfl
                  (by rw [herase]) (toggle_nodup h.mnodup _) (fun l' k' _ hk' => by
                    rw [mergeN_toggle (s := s) rfl h.mnodup (show k / 2 < 2 ^ i0 by omega) hk']
                    by_cases hc : l' = i0 ∧ k' = k / 2
                    · rw [if_pos hc, if_pos ⟨by omega, by omega⟩]
                    · rw [if_neg hc, if_neg (by omega)])
                exact ⟨a, b, c, rfl,
                  bv_tog hb (ix_valid (show i0 < F by omega) (show k / 2 < 2 ^ i0 by omega)) (Or.inl rfl) (Or.inr rfl)⟩
              · cases h1
          obtain ⟨f1, u1, n1, b1, v1⟩ := hs1
          rw [hblk, ← b1] at h2
          have v2 : BV F s2 := bv_splitLoop _ i k s1 s2 f1 v1 (by omega) hk u1 n1 h2
          rw [← hs]
          exact bv_same v2 rfl rfl

/-! ## addSinglePAddr / freeBlock -/

theorem bv_freeLoop {F : Nat} : ∀ (L k : Nat) (s s' : State), FInv F s → BV F s → L ≤ F → k < 2 ^ L →
    UsedN F s L k → NoTrk F s L k → freeLoop L (addr s.base F L k) s = .ok s' → BV F s' := by
  intro L
  induction L with
  | zero =>
    intro k s s' _ hbv _ _ _ _ hs
    simp only [freeLoop] at hs
    injection hs with hs
    subst hs
    exact bv_same hbv rfl rfl
  | succ lv ih =>
    intro k s s' h hbv hl hk hu hnt hs
    have pl := pow_succ2 lv
    have ei : indexOfBlock s.base s.size (addr s.base F (lv + 1) k) lv = ix lv (k / 2) := by
      rw [h.hsize]; exact index_parent hl
    have eb : buddyOf s.base s.size (addr s.base F (lv + 1) k) (lv + 1) = addr s.base F (lv + 1) (bud k) := by
      rw [h.hsize]; exact buddy_addr hl
    have hmt : ix lv (k / 2) ∈ toggle s.merge (ix lv (k / 2)) ↔ ¬ MergeN s lv (k / 2) := by
      rw [mem_toggle h.mnodup, if_pos rfl]
      rfl
    have hv : ix lv (k / 2) + 1 < 2 ^ F := ix_valid (show lv < F by omega) (show k / 2 < 2 ^ lv by omega)
    rcases freeLoop_succ hs with ⟨hm, rfl⟩ | ⟨hm, hs⟩
    · rw [ei]
      exact bv_tog hbv hv (Or.inl rfl) (Or.inr rfl)
    · rw [ei, eb, min_buddy_addr hl] at hs
      rw [ei] at hm
      have hmg : MergeN s lv (k / 2) := Classical.not_not.mp (fun hn => hm (hmt.mpr hn))
      obtain ⟨h1, u1, n1⟩ := finv_free_merge
        (s' := { s with merge := toggle s.merge (ix lv (k / 2)), split := toggle s.split (ix lv (k / 2)),
                        free := setLvl s.free (lv + 1) ((lvl s.free (lv + 1)).erase (addr s.base F (lv + 1) (bud k))) })
        h hl hk hu hnt hmg rfl rfl rfl rfl rfl rfl rfl
      exact ih (k / 2) _ s' h1 (bv_tog hbv hv (Or.inr rfl) (Or.inr rfl)) (by omega) (by omega) u1 n1 hs

theorem bv_freeBlock {F : Nat} {s s' : State} {l k : Nat} (h : FInv F s) (hb : BV F s) (hl : l ≤ F) (hk : k < 2 ^ l)
    (hu : UsedN F s l k) (hnt : NoTrk F s l k) (hs : freeBlock s (addr s.base F l k) = .ok s') : BV F s' := by
  unfold freeBlock at hs
  split at hs
  · cases hs
  · rename_i level hlev
    have := levelOf_eq h hl hk hu.1 hu.2.1 (s.free.length - 1) level (by rw [h.hlen]; omega) (by rw [h.hlen]; omega) hlev
    subst this
    exact bv_freeLoop _ k s s' h hb hl hk hu hnt hs

theorem bv_addSingle {F : Nat} {s s' : State} {p : Nat} (h : FInv F s) (hb : BV F s)
    (ha : addSingle s p = .ok s') : BV F s' := by
  unfold addSingle at ha
  split at ha
  · injection ha with ha
    subst ha
    exact hb
  · rename_i p0 id hfind
    have hp0 : p0 = p := by simpa using List.find?_some hfind
    subst hp0
    have hp : (p0, id) ∈ s.track := List.mem_of_find?_eq_some hfind
    obtain ⟨l, k, num, hl, hk, e, hu, g1, g2⟩ := h.D p0 id hp
    simp only [e] at ha
    obtain ⟨f2, hzero⟩ := finv_untrack h hp e
    split at ha
    · rename_i hnum
      have hnt : NoTrk F
          { s with track := s.track.filter (fun e => e.1 != p0), trk := s.trk.set id (addr s.base F l k, num - 1) }
          l k := by
        intro q j hq hin
        have hq' : (q, j) ∈ s.track := (List.mem_filter.mp hq).1
        obtain ⟨l', k', num', hl', hk', e', hu', g1', g2'⟩ := h.D q j hq'
        obtain ⟨q1, q2⟩ := leaf_overlap h.tree hl hk hl' hk' hu.1 hu.2.1 hu'.1 hu'.2.1 hin.1 hin.2 g1' g2'
        subst q1; subst q2
        have := h.Dinj p0 id q j _ _ _ hp hq' e e'
        subst this
        exact hzero hnum q hq
      have hb2 : BV F
          { s with track := s.track.filter (fun e => e.1 != p0), trk := s.trk.set id (addr s.base F l k, num - 1) } :=
        bv_same hb rfl rfl
      exact bv_freeBlock (l := l) (k := k) f2 hb2 hl hk hu hnt ha
    · injection ha with ha
      subst ha
      exact bv_same hb rfl rfl

/-! ## device-level operations and whole histories -/

theorem bv_popOne {F : Nat} {s s' : State} {p : Nat} (h : FInv F s) (hb : BV F s) (hp : popOne s = .ok (p, s')) :
    BV F s' := by
  unfold popOne at hp
  rw [allocMulti_pos s (by decide)] at hp
  split at hp
  · cases hp
  · split at hp
    · cases hp
    · rename_i ps s1 ha
      simp only [] at hp
      split at hp
      · injection hp with hp
        injection hp with h1 h2
        subst h2
        exact bv_allocMulti h hb ha
      · cases hp

theorem bv_popN {F : Nat} : ∀ (k : Nat) (s s' : State) (ps : List Nat), FInv F s → BV F s →
    popN k s = .ok (ps, s') → BV F s' := by
  intro k
  induction k with
  | zero =>
    intro s s' ps _ hb hp
    simp only [popN] at hp
    injection hp with hp
    injection hp with h1 h2
    subst h2
    exact hb
  | succ k ih =>
    intro s s' ps h hb hp
    simp only [popN] at hp
    split at hp
    · cases hp
    · rename_i p s1 h1
      split at hp
      · cases hp
      · rename_i ps' s2 h2
        injection hp with hp
        injection hp with e1 e2
        subst e2
        exact ih _ _ _ (finv_popOne h h1).1 (bv_popOne h hb h1) h2

theorem bv_amOp {F : Nat} {s s' : State} {ps : List Nat} {n : Nat} (h : FInv F s) (hb : BV F s)
    (hp : amOp s n = .ok (ps, s')) : BV F s' := by
  by_cases hn0 : n = 0
  · subst hn0
    obtain ⟨rfl, rfl⟩ := amOp_zero_ok hp
    exact hb
  unfold amOp at hp
  rw [allocMulti_pos s hn0] at hp
  split at hp
  · cases hp
  · split at hp
    · cases hp
    · rename_i ps1 s1 ha
      split at hp
      · injection hp with hp
        injection hp with h1 h2
        subst h2
        exact bv_allocMulti h hb ha
      · cases hp

theorem bv_addAll {F : Nat} : ∀ (ps : List Nat) (s s' : State), FInv F s → BV F s → addAll ps s = .ok s' →
    BV F s' := by
  intro ps
  induction ps with
  | nil =>
    intro s s' _ hb ha
    simp only [addAll] at ha
    injection ha with ha
    subst ha
    exact hb
  | cons p ps ih =>
    intro s s' h hb ha
    simp only [addAll] at ha
    split at ha
    · cases ha
    · rename_i s1 h1
      exact ih s1 s' (finv_addSingle h h1).1 (bv_addSingle h hb h1) ha

theorem bv_step {F : Nat} {s s' : State} {op : Op} {ps : List Nat} (h : FInv F s) (hb : BV F s)
    (hs : step s op = .ok (ps, s')) : BV F s' := by
  cases op with
  | pop k => exact bv_popN k s s' ps h hb hs
  | am n => exact bv_amOp h hb hs
  | add l =>
    simp only [step] at hs
    split at hs
    · cases hs
    · rename_i s2 hadd
      injection hs with hs
      injection hs with _ e
      subst e
      exact bv_addAll l s s2 h hb hadd

theorem bv_runLive {F : Nat} : ∀ (ops : List Op) (s : State) (live : List Nat), FInv F s → BV F s →
    BV F (runLive s live ops).st := by
  intro ops
  induction ops with
  | nil =>
    intro s live _ hb
    exact hb
  | cons op ops ih =>
    intro s live h hb
    cases op with
    | add ps =>
      simp only [runLive]
      split
      · split
        · exact hb
        · rename_i out s1 hstep
          have hb1 := bv_step h hb hstep
          simp only [step] at hstep
          split at hstep
          · cases hstep
          · rename_i s2 hadd
            injection hstep with hstep
            injection hstep with _ e
            subst e
            exact ih s2 _ (finv_addAll ps s s2 h hadd).1 hb1
      · exact hb
    | pop k =>
      simp only [runLive]
      split
      · exact hb
      · rename_i out s1 hstep
        have hb1 := bv_step h hb hstep
        simp only [step] at hstep
        exact ih s1 _ (finv_popN k s s1 out h hstep).1 hb1
    | am n =>
      simp only [runLive]
      split
      · exact hb
      · rename_i out s1 hstep
        have hb1 := bv_step h hb hstep
        simp only [step] at hstep
        exact ih s1 _ (finv_amOp h hstep).1 hb1

/-! ## every valid index is the index of a node -/

/-- private copy (another file proves the same under the name exists_ix; keep this name) -/
theorem exists_ix_bv {F i : Nat} (h : i + 1 < 2 ^ F) : ∃ l k, l < F ∧ k < 2 ^ l ∧ i = ix l k := by
  induction F with
  | zero => simp at h
  | succ F ih =>
    rcases Nat.lt_or_ge (i + 1) (2 ^ F) with hlt | hge
    · obtain ⟨l, k, hl, hk, e⟩ := ih hlt
      exact ⟨l, k, by omega, hk, e⟩
    · rw [pow_succ2] at h
      refine ⟨F, i + 1 - 2 ^ F, by omega, by omega, ?_⟩
      unfold ix
      omega

theorem bv_split_nil {F : Nat} {s : State} (hb : BV F s) (hn : ∀ l k, l < F → k < 2 ^ l → ¬ SplitN F s l k) :
    s.split = [] := by
  rw [List.eq_nil_iff_forall_not_mem]
  intro i hi
  obtain ⟨l, k, hl, hk, e⟩ := exists_ix_bv (hb.1 i hi)
  exact hn l k hl hk ⟨hl, e ▸ hi⟩

theorem bv_merge_nil {F : Nat} {s : State} (hb : BV F s) (hn : ∀ l k, l < F → k < 2 ^ l → ¬ MergeN s l k) :
    s.merge = [] := by
  rw [List.eq_nil_iff_forall_not_mem]
  intro i hi
  obtain ⟨l, k, hl, hk, e⟩ := exists_ix_bv (hb.2 i hi)
  exact hn l k hl hk (show ix l k ∈ s.merge from e ▸ hi)

end C10.Buddy
