import MgpuProofs.C16Pend
/-! # C16 — the closed-world invariant `WInv` and the sleep invariant -/
namespace C16

variable {envT : List TReq} {envM : List BReq} {sT : List TReq} {sM : List FwdLog}

theorem TInv.of_eq {s s' : St} (h : TInv envT envM sT sM s) (e1 : s'.txs = s.txs) (e2 : s'.infl = s.infl)
    (e3 : s'.trOut = s.trOut) (e4 : s'.trIn = s.trIn) (e5 : s'.botOut = s.botOut) (e6 : s'.botIn = s.botIn)
    (e7 : s'.nextT = s.nextT) (e8 : s'.nextB = s.nextB) : TInv envT envM sT sM s' := by
  refine ⟨?_, ?_, ?_, ?_, ?_, ?_⟩
  · rw [e1, e3, e4]; exact h.pt_
  · rw [e2, e5, e6]; exact h.pm
  · rw [e1]; exact h.fT
  · rw [e2]; exact h.fM
  · rw [e7]; exact h.sT
  · rw [e8]; exact h.sM

/-- a state without transactions and in-flight records satisfies `TInv` for any stale sets below
    the id counters -/
theorem TInv.of_empty {s : St} (h1 : s.txs = []) (h2 : s.infl = [])
    (h3 : ∀ q ∈ sT, q.tid < s.nextT) (h4 : ∀ l ∈ sM, l.breq.bid < s.nextB) : TInv envT envM sT sM s := by
  refine ⟨?_, ?_, ?_, ?_, h3, h4⟩
  · rw [h1]; intro t ht; simp at ht
  · rw [h2]; intro t ht; simp at ht
  · rw [h1]; intro t ht; simp at ht
  · rw [h2]; intro t ht; simp at ht

theorem pipe_ninv (c : Cfg) (s : St) (h : NInv s) : NInv (pipe c s).1 :=
  pipe_pres2 c (fun s h _ => respond_ninv c s h) (parseTranslation_ninv c) (translate_ninv c) s h

/-- what `handleCtrlRequest` can do -/
theorem handleCtrl_cases (s : St) :
    ((handleCtrl s).1.epoch = s.epoch ∧ (handleCtrl s).1.txs = s.txs ∧ (handleCtrl s).1.infl = s.infl ∧
      (handleCtrl s).1.trOut = s.trOut ∧ (handleCtrl s).1.botOut = s.botOut ∧
      (handleCtrl s).1.nextT = s.nextT ∧ (handleCtrl s).1.nextB = s.nextB ∧
      (((handleCtrl s).1.trIn = s.trIn ∧ (handleCtrl s).1.botIn = s.botIn ∧
          (handleCtrl s).1.ctlIn = s.ctlIn ∧ (handleCtrl s).1.flushing = s.flushing) ∨
       (∃ rest, s.ctlIn = .restart :: rest ∧ (handleCtrl s).1.ctlIn = rest ∧
          (handleCtrl s).1.flushing = false ∧ (handleCtrl s).1.trIn = [] ∧ (handleCtrl s).1.botIn = []))) ∨
    ((handleCtrl s).1.epoch = s.epoch + 1 ∧ (handleCtrl s).1.txs = [] ∧ (handleCtrl s).1.infl = [] ∧
      (handleCtrl s).1.nextT = s.nextT ∧ (handleCtrl s).1.nextB = s.nextB ∧
      (handleCtrl s).1.asked = s.asked ∧ (handleCtrl s).1.forwarded = s.forwarded ∧
      (handleCtrl s).1.flushing = true ∧ ∃ rest, s.ctlIn = .flush :: rest ∧ (handleCtrl s).1.ctlIn = rest) := by
  unfold handleCtrl
  split
  · exact Or.inl ⟨rfl, rfl, rfl, rfl, rfl, rfl, rfl, Or.inl ⟨rfl, rfl, rfl, rfl⟩⟩
  · rename_i rest hc
    split
    · exact Or.inr ⟨rfl, rfl, rfl, rfl, rfl, rfl, rfl, rfl, rest, hc, rfl⟩
    · exact Or.inl ⟨rfl, rfl, rfl, rfl, rfl, rfl, rfl, Or.inl ⟨rfl, rfl, rfl, rfl⟩⟩
  · rename_i rest hc
    split
    · exact Or.inl ⟨rfl, rfl, rfl, rfl, rfl, rfl, rfl, Or.inr ⟨rest, hc, rfl, rfl, rfl, rfl⟩⟩
    · exact Or.inl ⟨rfl, rfl, rfl, rfl, rfl, rfl, rfl, Or.inl ⟨rfl, rfl, rfl, rfl⟩⟩
  · exact Or.inl ⟨rfl, rfl, rfl, rfl, rfl, rfl, rfl, Or.inl ⟨rfl, rfl, rfl, rfl⟩⟩

/-- The invariant of the closed world: `TInv` for the current contents of the two honest
    neighbours and the current stale sets; the neighbours hold only what the translator really sent
    and have delivered only truthful replies; a restart command is only ever pending while the
    translator is flushing. -/
structure WInv (c : Cfg) (e : Env) (w : CW) : Prop where
  t : TInv w.envT w.envM w.staleT w.staleM w.s
  eT : ∀ q ∈ w.envT, q ∈ w.s.asked
  eM : ∀ b ∈ w.envM, ∃ l ∈ w.s.forwarded, l.breq = b
  tT : ∀ r ∈ w.s.tdel, ∃ q ∈ w.s.asked, r = ⟨q.tid, e.pt q.pid q.vpage⟩
  tM : ∀ m ∈ w.s.mdel, ∃ l ∈ w.s.forwarded, m = ⟨l.breq.bid, e.md l.breq⟩
  ctl : ∀ k ∈ w.s.ctlIn, k = .flush ∨ (k = .restart ∧ w.s.flushing = true)

theorem WInv.noBad {c : Cfg} {e : Env} {w : CW} (h : WInv c e w) : NoBad w.s := by
  intro k hk
  rcases h.ctl k hk with rfl | ⟨rfl, _⟩ <;> simp

theorem winv_init (c : Cfg) (e : Env) : WInv c e {} :=
  ⟨⟨by simp, by simp, by simp, by simp, by simp, by simp⟩, by simp, by simp, by simp, by simp, by simp⟩

theorem winv_tick (c : Cfg) (e : Env) (w : CW) (hw : WInv c e w) (hu : UInv w.s) (hn : NInv w.s)
    (hb : BInv c w.s) : WInv c e (hstep c e w .tick) := by
  simp only [hstep]
  split
  · obtain ⟨ht1, hu1⟩ := pipe_tinv c w.s hw.t hu
    have hn1 := pipe_ninv c w.s hn
    have hs := pipe_same c w.s
    have hg := tick_grow c w.s
    have hd := tick_del c w.s
    have hrest : ∀ rest k, w.s.ctlIn = k :: rest → rest = [] := by
      intro rest k hc
      have := hb.ctlI
      rw [hc] at this
      simp only [List.length_cons] at this
      exact List.eq_nil_of_length_eq_zero (by omega)
    have hlog : (∀ q ∈ w.envT, q ∈ (tick c w.s).1.asked) ∧
        (∀ b ∈ w.envM, ∃ l ∈ (tick c w.s).1.forwarded, l.breq = b) ∧
        (∀ r ∈ (tick c w.s).1.tdel, ∃ q ∈ (tick c w.s).1.asked, r = ⟨q.tid, e.pt q.pid q.vpage⟩) ∧
        (∀ m ∈ (tick c w.s).1.mdel, ∃ l ∈ (tick c w.s).1.forwarded, m = ⟨l.breq.bid, e.md l.breq⟩) := by
      refine ⟨fun q hq => hg.asked _ (hw.eT q hq), ?_, ?_, ?_⟩
      · intro b hb'
        obtain ⟨l, hl, he⟩ := hw.eM b hb'
        exact ⟨l, hg.fwd _ hl, he⟩
      · intro r hr
        rw [hd.1] at hr
        obtain ⟨q, hq, he⟩ := hw.tT r hr
        exact ⟨q, hg.asked _ hq, he⟩
      · intro m hm
        rw [hd.2] at hm
        obtain ⟨l, hl, he⟩ := hw.tM m hm
        exact ⟨l, hg.fwd _ hl, he⟩
    have hte : (tick c w.s).1 = (handleCtrl (pipe c w.s).1).1 := rfl
    rcases handleCtrl_cases (pipe c w.s).1 with
      ⟨k1, k2, k3, k4, k5, k6, k7, k8⟩ | ⟨k1, k2, k3, k4, k5, k6, k7, k8, rest, k9, k10⟩
    · have hep : (tick c w.s).1.epoch = w.s.epoch := by rw [hte, k1, hs.2.2.1]
      have hfl : decide ((tick c w.s).1.epoch ≠ w.s.epoch) = false := by simp [hep]
      simp only [hfl, Bool.false_eq_true, if_false]
      rcases k8 with ⟨m1, m2, m3, m4⟩ | ⟨rest, m1, m2, m3, m4, m5⟩
      · refine ⟨?_, hlog.1, hlog.2.1, hlog.2.2.1, hlog.2.2.2, ?_⟩
        · rw [hte]; exact ht1.of_eq k2 k3 k4 m1 k5 m2 k6 k7
        · intro k hk
          rw [hte, m3, hs.1] at hk
          rw [hte, m4, hs.2.2.2.1]
          exact hw.ctl k hk
      · -- restart: the translator is flushing, so it holds nothing that could wait for a reply
        have hfl' : (pipe c w.s).1.flushing = true := by
          rw [hs.2.2.2.1]
          rw [hs.1] at m1
          rcases hw.ctl .restart (by rw [m1]; exact List.mem_cons_self ..) with h0 | ⟨_, h0⟩
          · simp at h0
          · exact h0
        obtain ⟨e1, e2⟩ := hn1.fl hfl'
        refine ⟨?_, hlog.1, hlog.2.1, hlog.2.2.1, hlog.2.2.2, ?_⟩
        · rw [hte]
          exact TInv.of_empty (k2.trans e1) (k3.trans e2) (by rw [k6]; exact ht1.sT) (by rw [k7]; exact ht1.sM)
        · intro k hk
          rw [hs.1] at m1
          rw [hte, m2, hrest _ _ m1] at hk
          simp at hk
    · have hep : (tick c w.s).1.epoch = w.s.epoch + 1 := by rw [hte, k1, hs.2.2.1]
      have hfl : decide ((tick c w.s).1.epoch ≠ w.s.epoch) = true := by simp [hep]
      simp only [hfl, if_true]
      refine ⟨?_, hlog.1, hlog.2.1, hlog.2.2.1, hlog.2.2.2, ?_⟩
      · rw [hte]
        refine TInv.of_empty k2 k3 ?_ ?_
        · rw [k4, k6]; exact hu1.alt
        · rw [k5, k7]; exact hu1.glt
      · intro k hk
        rw [hs.1] at k9
        rw [hte, k10, hrest _ _ k9] at hk
        simp at hk
  · exact hw

theorem winv_step (c : Cfg) (e : Env) (w : CW) (o : HOp) (hw : WInv c e w) (hm : MInv c w.s)
    (hu : UInv w.s) (hn : NInv w.s) (hb : BInv c w.s) : WInv c e (hstep c e w o) := by
  have keep : ∀ s', s'.txs = w.s.txs → s'.infl = w.s.infl → s'.trOut = w.s.trOut → s'.trIn = w.s.trIn →
      s'.botOut = w.s.botOut → s'.botIn = w.s.botIn → s'.nextT = w.s.nextT → s'.nextB = w.s.nextB →
      s'.asked = w.s.asked → s'.forwarded = w.s.forwarded → s'.tdel = w.s.tdel → s'.mdel = w.s.mdel →
      (∀ k ∈ s'.ctlIn, k = .flush ∨ (k = .restart ∧ s'.flushing = true)) →
      ∀ aw sc ak, WInv c e { w with s := s', awake := aw, sentCtl := sc, ackSeen := ak } := by
    intro s' e1 e2 e3 e4 e5 e6 e7 e8 e9 e10 e11 e12 hc aw sc ak
    refine ⟨hw.t.of_eq e1 e2 e3 e4 e5 e6 e7 e8, ?_, ?_, ?_, ?_, hc⟩
    · show ∀ q ∈ w.envT, q ∈ s'.asked
      rw [e9]; exact hw.eT
    · show ∀ b ∈ w.envM, ∃ l ∈ s'.forwarded, l.breq = b
      rw [e10]; exact hw.eM
    · show ∀ r ∈ s'.tdel, ∃ q ∈ s'.asked, r = ⟨q.tid, e.pt q.pid q.vpage⟩
      rw [e9, e11]; exact hw.tT
    · show ∀ m ∈ s'.mdel, ∃ l ∈ s'.forwarded, m = ⟨l.breq.bid, e.md l.breq⟩
      rw [e10, e12]; exact hw.tM
  cases o with
  | tick => exact winv_tick c e w hw hu hn hb
  | access pid va pl =>
    simp only [hstep, step]
    split <;> (apply keep <;> first | rfl | exact hw.ctl)
  | drainTop =>
    simp only [hstep]
    split
    · exact hw
    · (apply keep <;> first | rfl | exact hw.ctl)
  | drainCtl =>
    simp only [hstep]
    split
    · (apply keep <;> first | rfl | exact hw.ctl)
    · exact hw
  | flush =>
    simp only [hstep, step]
    split
    · apply keep
      all_goals first | rfl | skip
      intro k hk
      simp only [List.mem_append, List.mem_singleton] at hk
      rcases hk with hk | rfl
      · exact hw.ctl k hk
      · exact Or.inl rfl
    · (apply keep <;> first | rfl | exact hw.ctl)
  | restart =>
    simp only [hstep]
    split
    · rename_i hfl
      simp only [step]
      split
      · apply keep
        all_goals first | rfl | skip
        intro k hk
        simp only [List.mem_append, List.mem_singleton] at hk
        rcases hk with hk | rfl
        · exact hw.ctl k hk
        · exact Or.inr ⟨rfl, hfl⟩
      · (apply keep <;> first | rfl | exact hw.ctl)
    · exact hw
  | drainTr =>
    simp only [hstep]
    split
    · exact hw
    · rename_i q qs hq
      refine ⟨⟨?_, hw.t.pm, hw.t.fT, hw.t.fM, hw.t.sT, hw.t.sM⟩, ?_, hw.eM, hw.tT, hw.tM, hw.ctl⟩
      · intro t ht hd
        rcases hw.t.pt_ t ht hd with h2 | h2 | h2
        · rw [hq] at h2
          simp only [List.mem_cons] at h2
          rcases h2 with h2 | h2
          · exact Or.inr (Or.inl (by simp [h2]))
          · exact Or.inl (by show t.treq ∈ w.s.trOut.tail; rw [hq]; exact h2)
        · exact Or.inr (Or.inl (List.mem_append_left _ h2))
        · exact Or.inr (Or.inr h2)
      · intro q' hq'
        simp only [List.mem_append, List.mem_singleton] at hq'
        rcases hq' with h1 | rfl
        · exact hw.eT q' h1
        · exact hm.trOut q' (by rw [hq]; exact List.mem_cons_self ..)
  | drainBot =>
    simp only [hstep]
    split
    · exact hw
    · rename_i b bs hq
      refine ⟨⟨hw.t.pt_, ?_, hw.t.fT, hw.t.fM, hw.t.sT, hw.t.sM⟩, hw.eT, ?_, hw.tT, hw.tM, hw.ctl⟩
      · intro f hf
        rcases hw.t.pm f hf with h2 | h2 | h2
        · rw [hq] at h2
          simp only [List.mem_cons] at h2
          rcases h2 with h2 | h2
          · exact Or.inr (Or.inl (by simp [h2]))
          · exact Or.inl (by show f.breq ∈ w.s.botOut.tail; rw [hq]; exact h2)
        · exact Or.inr (Or.inl (List.mem_append_left _ h2))
        · exact Or.inr (Or.inr h2)
      · intro b' hb'
        simp only [List.mem_append, List.mem_singleton] at hb'
        rcases hb' with h1 | rfl
        · exact hw.eM b' h1
        · exact hm.botOut b' (by rw [hq]; exact List.mem_cons_self ..)
  | ansT j =>
    simp only [hstep]
    split
    · exact hw
    · rename_i q0 qs hq
      split
      · rename_i hlt
        have hne : 0 < w.envT.length := by rw [hq]; simp
        have hi : j % w.envT.length < w.envT.length := Nat.mod_lt _ hne
        have hmem := getD_mem w.envT (j % w.envT.length) q0 hi
        simp only [step, hlt, if_true]
        refine ⟨⟨?_, hw.t.pm, hw.t.fT, hw.t.fM, hw.t.sT, hw.t.sM⟩, ?_, hw.eM, ?_, hw.tM, hw.ctl⟩
        · intro t ht hd
          rcases hw.t.pt_ t ht hd with h2 | h2 | ⟨r', hr', he⟩
          · exact Or.inl h2
          · rcases mem_removeNth w.envT _ q0 hi _ h2 with h3 | h3
            · exact Or.inr (Or.inr ⟨_, List.mem_append_right _ (List.mem_singleton.mpr rfl), by rw [← h3]⟩)
            · exact Or.inr (Or.inl h3)
          · exact Or.inr (Or.inr ⟨r', List.mem_append_left _ hr', he⟩)
        · intro q hq'
          exact hw.eT q (removeNth_subset _ _ q hq')
        · intro r hr
          simp only [List.mem_cons] at hr
          rcases hr with rfl | hr
          · exact ⟨_, hw.eT _ hmem, rfl⟩
          · exact hw.tT r hr
      · exact hw
  | ansM j =>
    simp only [hstep]
    split
    · exact hw
    · rename_i b0 bs hq
      split
      · rename_i hlt
        have hne : 0 < w.envM.length := by rw [hq]; simp
        have hi : j % w.envM.length < w.envM.length := Nat.mod_lt _ hne
        have hmem := getD_mem w.envM (j % w.envM.length) b0 hi
        simp only [step, hlt, if_true]
        refine ⟨⟨hw.t.pt_, ?_, hw.t.fT, hw.t.fM, hw.t.sT, hw.t.sM⟩, hw.eT, ?_, hw.tT, ?_, hw.ctl⟩
        · intro f hf
          rcases hw.t.pm f hf with h2 | h2 | ⟨r', hr', he⟩
          · exact Or.inl h2
          · rcases mem_removeNth w.envM _ b0 hi _ h2 with h3 | h3
            · exact Or.inr (Or.inr ⟨_, List.mem_append_right _ (List.mem_singleton.mpr rfl), by rw [← h3]⟩)
            · exact Or.inr (Or.inl h3)
          · exact Or.inr (Or.inr ⟨r', List.mem_append_left _ hr', he⟩)
        · intro b hb'
          exact hw.eM b (removeNth_subset _ _ b hb')
        · intro m hm'
          simp only [List.mem_cons] at hm'
          rcases hm' with rfl | hm'
          · obtain ⟨l, hl, he⟩ := hw.eM _ hmem
            exact ⟨l, hl, by rw [he]⟩
          · exact hw.tM m hm'
      · exact hw

end C16
