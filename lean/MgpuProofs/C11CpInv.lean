import MgpuModel.C11Cp
import MgpuProofs.C11CpSpec
/-! Shapes of the command processor's micro-steps and pure facts about logs accepted by the flush
acceptor (helper lemmas for `Props/C11Cp.lean`). -/
namespace C11

/-! ## Shapes of the micro-steps -/

theorem Cp.foldl_flushCache_of_fault (l : List Nat) {s : Cp} (h : s.fault.isSome = true) :
    l.foldl Cp.flushCache s = s := by
  induction l with
  | nil => rfl
  | cons i l ih =>
    have : s.flushCache i = s := by unfold Cp.flushCache; rw [if_pos h]
    rw [List.foldl_cons, this, ih]

/-- the flush loop: `k` caches were asked; either all of them, or ToCaches was full at the `k`-th -/
theorem Cp.foldl_flushCache_shape (l : List Nat) (s : Cp) (h : s.fault = none) :
    ∃ k flt, k ≤ l.length ∧ l.foldl Cp.flushCache s =
      { s with cacheOut := s.cacheOut ++ l.take k, numAck := s.numAck + k,
               log := s.log ++ (l.take k).map CpEv.cacheReq, fault := flt } ∧
      ((flt = none ∧ k = l.length) ∨
       (flt = some "cache_send" ∧ k < l.length ∧ s.capCache ≤ s.cacheOut.length + k)) := by
  induction l generalizing s with
  | nil => exact ⟨0, none, Nat.le_refl _, by simp [← h], .inl ⟨rfl, rfl⟩⟩
  | cons i l ih =>
    rw [List.foldl_cons]
    by_cases hc : s.cacheOut.length < s.capCache
    · have e1 : s.flushCache i =
          { s with cacheOut := s.cacheOut ++ [i], numAck := s.numAck + 1, log := s.log ++ [.cacheReq i] } := by
        unfold Cp.flushCache; rw [if_neg (by simp [h]), if_pos hc]
      obtain ⟨k, flt, hk, he, hd⟩ := ih (s.flushCache i) (by rw [e1]; exact h)
      refine ⟨k + 1, flt, by simp; omega, ?_, ?_⟩
      · rw [he, e1]
        simp [Nat.add_assoc, Nat.add_comm 1 k]
      · rcases hd with ⟨h1, h2⟩ | ⟨h1, h2, h3⟩
        · exact .inl ⟨h1, by simp [h2]⟩
        · refine .inr ⟨h1, by simp; omega, ?_⟩
          rw [e1] at h3; simp at h3 ⊢; omega
    · have e1 : s.flushCache i = { s with fault := some "cache_send" } := by
        unfold Cp.flushCache; rw [if_neg (by simp [h]), if_neg hc]
      rw [e1, Cp.foldl_flushCache_of_fault _ (by simp)]
      exact ⟨0, some "cache_send", by simp, by simp, .inr ⟨rfl, by simp, by simp; omega⟩⟩

/-- result of accepting a flush request when `k` caches could be asked -/
def Cp.flushAsk (s : Cp) (f k : Nat) : Cp :=
  { s with cacheOut := s.cacheOut ++ List.range k, numAck := k,
           log := s.log ++ .flushStart f :: (List.range k).map CpEv.cacheReq }

/-- result of `processMemCopyReq` -/
def Cp.copyFwd (s : Cp) (m : CpMsg) (rest : List CpMsg) (b : Bool) : Cp :=
  { s with nextCid := s.nextCid + 1,
           mapH := if m.kind = .h2d then s.mapH ++ [(s.nextCid, m.id)] else s.mapH,
           mapD := if m.kind = .h2d then s.mapD else s.mapD ++ [(s.nextCid, m.id)],
           dmaOut := if b then s.dmaOut ++ [⟨s.nextCid, m.id, m.kind⟩] else s.dmaOut,
           drvIn := rest,
           log := s.log ++ [.fwd m.id s.nextCid m.kind b] }

theorem Cp.handle_cases (s : Cp) :
    s.handle = (s, false) ∨
    (∃ m rest, s.fault = none ∧ s.drvIn = m :: rest ∧ s.numAck = 0 ∧ m.kind = .flush ∧
      ((∃ k, k < s.nCaches ∧ s.capCache ≤ s.cacheOut.length + k ∧
          s.handle = ({ s.flushAsk m.id k with fault := some "cache_send" }, true)) ∨
       (0 < s.nCaches ∧
          s.handle = ({ s.flushAsk m.id s.nCaches with curFlush := some m.id, drvIn := rest }, true)) ∨
       (s.nCaches = 0 ∧ s.drvOut.length < s.capDrv ∧
          s.handle = ({ s with log := s.log ++ [.flushStart m.id, .flushDone m.id true],
                               curFlush := some m.id, drvIn := rest,
                               drvOut := s.drvOut ++ [m] }, true)))) ∨
    (∃ m rest, s.fault = none ∧ s.drvIn = m :: rest ∧ s.numAck = 0 ∧ m.kind ≠ .flush ∧
      s.dmaOut.length < s.capDma ∧ s.handle = (s.copyFwd m rest true, true)) := by
  rcases s with ⟨nC, cIn, cDrv, cDma, cCache, drvIn, drvOut, dmaOut, dmaIn, cacheOut, cacheIn, numAck,
    curFlush, mapH, mapD, nextCid, fault, log⟩
  unfold Cp.handle
  cases fault with
  | some x => left; simp
  | none =>
    cases drvIn with
    | nil => left; simp
    | cons m rest =>
      rcases m with ⟨mid, mk⟩
      by_cases hn : numAck > 0
      · left; simp [hn]
      · have hn0 : numAck = 0 := by omega
        subst hn0
        cases mk with
        | flush =>
          obtain ⟨k, flt, hkl, he, hd'⟩ := Cp.foldl_flushCache_shape (List.range nC)
            (Cp.mk nC cIn cDrv cDma cCache (⟨mid, .flush⟩ :: rest) drvOut dmaOut dmaIn cacheOut cacheIn 0
              curFlush mapH mapD nextCid none (log ++ [.flushStart mid])) rfl
          simp only [List.length_range] at hkl hd'
          simp only [] at he
          simp only [Option.isSome_none, Bool.false_eq_true, if_false, Nat.lt_irrefl, gt_iff_lt]
          rw [he]
          rcases hd' with ⟨h1, h2⟩ | ⟨h1, h2, h3⟩
          · subst h1; cases h2
            by_cases hz : nC = 0
            · subst hz
              by_cases hr : drvOut.length < cDrv
              · right; left
                refine ⟨⟨mid, .flush⟩, rest, by simp, by simp, by simp, by simp, ?_⟩
                right; right
                refine ⟨rfl, hr, ?_⟩
                simp [Cp.pushDrv, hr]
              · left
                simp [hr]
            · right; left
              refine ⟨⟨mid, .flush⟩, rest, by simp, by simp, by simp, by simp, ?_⟩
              right; left
              refine ⟨by omega, ?_⟩
              simp [Cp.flushAsk, hz]
          · subst h1
            right; left
            refine ⟨⟨mid, .flush⟩, rest, by simp, by simp, by simp, by simp, ?_⟩
            left
            refine ⟨k, h2, h3, ?_⟩
            simp [Cp.flushAsk, Nat.min_eq_left (Nat.le_of_lt h2)]
        | h2d =>
          by_cases hr : dmaOut.length < cDma
          · right; right
            refine ⟨_, rest, rfl, rfl, rfl, by simp, hr, ?_⟩
            simp [Cp.copyFwd, hr]
          · left; simp [hr]
        | d2h =>
          by_cases hr : dmaOut.length < cDma
          · right; right
            refine ⟨_, rest, rfl, rfl, rfl, by simp, hr, ?_⟩
            simp [Cp.copyFwd, hr]
          · left; simp [hr]

/-- result of `processMemCopyRsp` -/
def Cp.copyDone (s : Cp) (c o : Nat) (k : CpKind) (rest : List Nat) (b : Bool) : Cp :=
  { s with mapH := if k = .h2d then s.mapH.filter (fun e => e.1 != c) else s.mapH,
           mapD := if k = .h2d then s.mapD else s.mapD.filter (fun e => e.1 != c),
           drvOut := if b then s.drvOut ++ [⟨o, k⟩] else s.drvOut,
           dmaIn := rest,
           log := s.log ++ [.done o c k b] }

theorem Cp.dmaRsp_cases (s : Cp) :
    s.dmaRsp = (s, false) ∨
    (∃ c rest, s.fault = none ∧ s.dmaIn = c :: rest ∧ s.drvOut.length < s.capDrv ∧
      ((∃ o k, (k = .h2d ∧ s.mapH.lookup c = some o ∨
                  k = .d2h ∧ s.mapH.lookup c = none ∧ s.mapD.lookup c = some o) ∧
          s.dmaRsp = (s.copyDone c o k rest true, true)) ∨
       (s.mapH.lookup c = none ∧ s.mapD.lookup c = none ∧
          s.dmaRsp = ({ s with fault := some "never" }, true)))) := by
  rcases s with ⟨nC, cIn, cDrv, cDma, cCache, drvIn, drvOut, dmaOut, dmaIn, cacheOut, cacheIn, numAck,
    curFlush, mapH, mapD, nextCid, fault, log⟩
  unfold Cp.dmaRsp
  cases fault with
  | some x => left; simp
  | none =>
    cases dmaIn with
    | nil => left; simp
    | cons c rest =>
      by_cases hr : drvOut.length < cDrv
      · right
        refine ⟨c, rest, rfl, rfl, hr, ?_⟩
        cases hH : mapH.lookup c with
        | some o =>
          left
          refine ⟨o, .h2d, .inl ⟨rfl, rfl⟩, ?_⟩
          simp [Cp.copyDone, Cp.pushDrv, hr, hH]
        | none =>
          cases hD : mapD.lookup c with
          | some o =>
            left
            refine ⟨o, .d2h, .inr ⟨rfl, rfl, rfl⟩, ?_⟩
            simp [Cp.copyDone, Cp.pushDrv, hr, hH, hD]
          | none =>
            right
            simp [hr, hH, hD]
      · left; simp [hr]

theorem Cp.cacheRsp_cases (s : Cp) :
    s.cacheRsp = (s, false) ∨
    (∃ x rest n', s.fault = none ∧ s.cacheIn = x :: rest ∧ (0 < s.numAck → n' = s.numAck - 1) ∧
      ((n' ≠ 0 ∧ s.cacheRsp = ({ s with numAck := n', cacheIn := rest, log := s.log ++ [.ack] }, true)) ∨
       (n' = 0 ∧ s.curFlush = none ∧
          s.cacheRsp = ({ s with numAck := n', cacheIn := rest, log := s.log ++ [.ack],
                                 fault := some "nilderef" }, true)) ∨
       (n' = 0 ∧ ∃ f, s.curFlush = some f ∧ s.drvOut.length < s.capDrv ∧
          s.cacheRsp = ({ s with numAck := 0, cacheIn := rest, curFlush := none,
                                 drvOut := s.drvOut ++ [⟨f, .flush⟩],
                                 log := s.log ++ [.ack, .flushDone f true] }, true)))) := by
  rcases s with ⟨nC, cIn, cDrv, cDma, cCache, drvIn, drvOut, dmaOut, dmaIn, cacheOut, cacheIn, numAck,
    curFlush, mapH, mapD, nextCid, fault, log⟩
  unfold Cp.cacheRsp
  cases fault with
  | some x => left; simp
  | none =>
    cases cacheIn with
    | nil => left; simp
    | cons x rest =>
      by_cases hg : numAck = 1 ∧ ¬ drvOut.length < cDrv
      · left; simp [hg]
      · right
        simp only [Option.isSome_none, Bool.false_eq_true, if_false, hg]
        generalize hn : (if numAck = 0 then 18446744073709551615 else numAck - 1) = n'
        refine ⟨x, rest, n', by simp, by simp, ?_, ?_⟩
        · intro h; rw [if_neg (Nat.ne_of_gt h)] at hn; exact hn.symm
        · by_cases hz : n' = 0
          · subst hz
            have h1 : numAck = 1 := by
              by_cases h0 : numAck = 0
              · rw [if_pos h0] at hn; cases hn
              · rw [if_neg h0] at hn; omega
            have hr : drvOut.length < cDrv := by
              by_cases hr : drvOut.length < cDrv
              · exact hr
              · exact absurd ⟨h1, hr⟩ hg
            cases curFlush with
            | none => right; left; simp
            | some f =>
              right; right
              refine ⟨rfl, f, rfl, hr, ?_⟩
              simp [Cp.pushDrv]
          · left; simp [hz]

/-! ## Pure facts about logs accepted by the flush acceptor -/

theorem filterMap_single {α β} (f : α → Option β) (a : α) : List.filterMap f [a] = (f a).toList := by
  cases h : f a <;> simp [h]

attribute [local simp] filterMap_single CpEv.isFwd CpEv.isAck CpEv.cacheIdx? CpEv.flushStart? CpEv.flushDone?
  CpEv.popped? CpEv.clone? CpEv.fwdCid? CpEv.rsp? CpEv.doneOrig? CpEv.dropped

theorem specRun_append (n : Nat) (q : FlushSpec) (l1 l2 : List CpEv) :
    specRun n q (l1 ++ l2) = (specRun n q l1).bind (fun q' => specRun n q' l2) := by
  induction l1 generalizing q with
  | nil => simp [specRun]
  | cons ev l ih =>
    simp only [List.cons_append, specRun]
    cases specStep n q ev with
    | none => simp
    | some q' => simp [ih]

theorem specRun_snoc {n : Nat} {q q1 : FlushSpec} {l : List CpEv} (h : specRun n q l = some q1) (ev : CpEv) :
    specRun n q (l ++ [ev]) = specStep n q1 ev := by
  rw [specRun_append, h]
  simp only [Option.bind_some, specRun]
  cases specStep n q1 ev <;> simp

/-- an accepted log splits at every position into an accepted prefix, an accepted step, and the rest -/
theorem specRun_split {n : Nat} {q qf : FlushSpec} {pre post : List CpEv} {ev : CpEv}
    (h : specRun n q (pre ++ ev :: post) = some qf) :
    ∃ q1 q2, specRun n q pre = some q1 ∧ specStep n q1 ev = some q2 ∧ specRun n q2 post = some qf := by
  rw [specRun_append] at h
  cases h1 : specRun n q pre with
  | none => simp [h1] at h
  | some q1 =>
    simp only [h1, Option.bind_some, specRun] at h
    cases h2 : specStep n q1 ev with
    | none => simp [h2] at h
    | some q2 => exact ⟨q1, q2, rfl, h2, by simpa [h2] using h⟩

/-- what the acceptor's state says about the log it has read -/
structure SpecInv (log : List CpEv) (q : FlushSpec) : Prop where
  starts : log.filterMap CpEv.flushStart? = log.filterMap CpEv.flushDone? ++ q.cur.toList
  count : (log.filterMap CpEv.cacheIdx?).length = log.countP CpEv.isAck + q.waiting
  idle : q.cur = none → q.waiting = 0
  opened : ∀ f, q.cur = some f → ∃ p1 p2, log = p1 ++ .flushStart f :: p2 ∧
    p2.filterMap CpEv.cacheIdx? = q.asked ∧ q.asked = List.range q.asked.length ∧
    p2.countP CpEv.isAck + q.waiting = q.asked.length ∧ ∀ ev ∈ p2, ev.isFwd = false

theorem SpecInv.init : SpecInv [] {} := ⟨rfl, rfl, fun _ => rfl, fun f h => by cases h⟩

theorem SpecInv.step {n : Nat} {log : List CpEv} {q q' : FlushSpec} {ev : CpEv} (h : SpecInv log q)
    (hs : specStep n q ev = some q') : SpecInv (log ++ [ev]) q' := by
  obtain ⟨h1, h2, h3, h4⟩ := h
  cases ev with
  | flushStart f =>
    simp only [specStep] at hs
    split at hs
    · rename_i hc
      cases hs
      refine ⟨?_, ?_, ?_, ?_⟩
      · simp [List.filterMap_append, h1, hc.1]
      · simp [List.filterMap_append, List.countP_append, h2, hc.2]
      · intro h; cases h
      · intro f' hf'
        cases hf'
        exact ⟨log, [], rfl, rfl, rfl, rfl, by simp⟩
    · cases hs
  | cacheReq i =>
    simp only [specStep] at hs
    split at hs
    · rename_i hc
      cases hs
      refine ⟨?_, ?_, ?_, ?_⟩
      · simp [List.filterMap_append, h1]
      · simp [List.filterMap_append, List.countP_append, h2]; omega
      · intro h; have h' : q.cur = none := h; simp [h'] at hc
      · intro f hf
        obtain ⟨p1, p2, e1, e2, e3, e4, e5⟩ := h4 f hf
        refine ⟨p1, p2 ++ [.cacheReq i], by simp [e1], by simp [List.filterMap_append, e2], ?_, ?_, ?_⟩
        · simp only [List.length_append, List.length_singleton, List.range_succ]
          rw [← e3, hc.2.1]
        · simp [List.countP_append]; omega
        · intro ev hev
          rcases List.mem_append.1 hev with h | h
          · exact e5 ev h
          · simp at h; subst h; rfl
    · cases hs
  | ack =>
    simp only [specStep] at hs
    split at hs
    · rename_i hc
      cases hs
      refine ⟨?_, ?_, ?_, ?_⟩
      · simp [List.filterMap_append, h1]
      · simp [List.filterMap_append, List.countP_append, h2]; omega
      · intro h; have := h3 h; omega
      · intro f hf
        obtain ⟨p1, p2, e1, e2, e3, e4, e5⟩ := h4 f hf
        refine ⟨p1, p2 ++ [.ack], by simp [e1], by simp [List.filterMap_append, e2], e3, ?_, ?_⟩
        · simp [List.countP_append]; omega
        · intro ev hev
          rcases List.mem_append.1 hev with h | h
          · exact e5 ev h
          · simp at h; subst h; rfl
    · cases hs
  | flushDone f b =>
    simp only [specStep] at hs
    split at hs
    · rename_i hc
      cases hs
      refine ⟨?_, ?_, ?_, ?_⟩
      · simp [List.filterMap_append, h1, hc.1]
      · simp [List.filterMap_append, List.countP_append, h2, hc.2.1]
      · intro _; rfl
      · intro f' hf'; cases hf'
    · cases hs
  | fwd o c k b =>
    simp only [specStep] at hs
    split at hs
    · rename_i hc
      cases hs
      refine ⟨?_, ?_, h3, ?_⟩
      · simp [List.filterMap_append, h1]
      · simp [List.filterMap_append, List.countP_append, h2]
      · intro f hf; rw [hc.1] at hf; cases hf
    · cases hs
  | done o c k b =>
    simp only [specStep] at hs
    cases hs
    refine ⟨?_, ?_, h3, ?_⟩
    · simp [List.filterMap_append, h1]
    · simp [List.filterMap_append, List.countP_append, h2]
    · intro f hf
      obtain ⟨p1, p2, e1, e2, e3, e4, e5⟩ := h4 f hf
      refine ⟨p1, p2 ++ [.done o c k b], by simp [e1], by simp [List.filterMap_append, e2], e3, ?_, ?_⟩
      · simp [List.countP_append]; omega
      · intro ev hev
        rcases List.mem_append.1 hev with h | h
        · exact e5 ev h
        · simp at h; subst h; rfl

theorem SpecInv.run {n : Nat} {l0 l : List CpEv} {q0 q : FlushSpec} (h : SpecInv l0 q0)
    (hr : specRun n q0 l = some q) : SpecInv (l0 ++ l) q := by
  induction l generalizing l0 q0 with
  | nil => simp only [specRun] at hr; cases hr; simpa using h
  | cons ev l ih =>
    simp only [specRun] at hr
    cases hs : specStep n q0 ev with
    | none => simp [hs] at hr
    | some q1 =>
      simp only [hs, Option.bind_some] at hr
      have := ih (h.step hs) hr
      simpa using this

theorem specInv_of_run {n : Nat} {l : List CpEv} {q : FlushSpec} (hr : specRun n {} l = some q) :
    SpecInv l q := by
  simpa using SpecInv.init.run hr

/-- asking caches `a, a+1, …, a+k-1` is accepted while `a + k ≤ n` -/
theorem specRun_cacheReqs (n f : Nat) (k a w : Nat) (h : a + k ≤ n) :
    specRun n { cur := some f, waiting := w, asked := List.range a } ((List.range' a k).map CpEv.cacheReq) =
      some { cur := some f, waiting := w + k, asked := List.range (a + k) } := by
  induction k generalizing a w with
  | zero => simp [specRun]
  | succ k ih =>
    have ha : a < n := by omega
    simp only [List.range'_succ, List.map_cons, specRun, specStep, Option.isSome_some, List.length_range,
      true_and, ha, if_true, Option.bind_some]
    rw [← List.range_succ, ih (a + 1) (w + 1) (by omega)]
    simp [Nat.add_assoc, Nat.add_comm 1 k]

end C11
