import MgpuProofs.C04Norm
/-! `norm_X` / `desc_X` for the memory formats DS, FLAT, SMEM -/
namespace C04
open Gen
set_option linter.unusedSimpArgs false
set_option linter.unusedVariables false

/-! ### DS -/
theorem ds_c1 (w : Nat) : extractBits (clr w 8 15) 0 7 = extractBits w 0 7 := by ebclr
theorem ds_c2 (w : Nat) : extractBits (clr w 8 15) 16 23 = extractBits w 16 23 := by ebclr
theorem ds_c3 (w : Nat) : extractBits (clr w 8 15) 24 31 = extractBits w 24 31 := by ebclr
theorem ds_c4 (w : Nat) : extractBits (clr w 16 23) 0 7 = extractBits w 0 7 := by ebclr
theorem ds_c5 (w : Nat) : extractBits (clr w 16 23) 8 15 = extractBits w 8 15 := by ebclr
theorem ds_c6 (w : Nat) : extractBits (clr w 16 23) 24 31 = extractBits w 24 31 := by ebclr
theorem ds_c7 (w : Nat) : extractBits (clr w 24 31) 0 7 = extractBits w 0 7 := by ebclr
theorem ds_c8 (w : Nat) : extractBits (clr w 24 31) 8 15 = extractBits w 8 15 := by ebclr
theorem ds_c9 (w : Nat) : extractBits (clr w 24 31) 16 23 = extractBits w 16 23 := by ebclr

theorem norm_ds (c : Bool) (f : Format) (row : Row) (w0 : Nat) (w1? : Option Nat)
    (hf : f.ft = FT_DS) (hsz : f.size = 8) (hw0 : w0 < 2 ^ 32) (hw1 : ∀ w1, w1? = some w1 → w1 < 2 ^ 32) :
    decodeRow c f row (normRow c f.ft row w0 w1?).1 (normRow c f.ft row w0 w1?).2 = decodeRow c f row w0 w1? := by
  cases w1? with
  | none => simp [decodeRow, hsz, normRow, hf, FT_SMEM, FT_VOP3a, FT_VOP3b, FT_DS, FT_FLAT, FT_VOP2]
  | some w1 =>
    have a0 : extractBits (clr w0 25 25) 0 7 = extractBits w0 0 7 := by ebclr
    have a1 : extractBits (clr w0 25 25) 8 15 = extractBits w0 8 15 := by ebclr
    have a2 : extractBits (clr w0 25 25) 16 16 = extractBits w0 16 16 := by ebclr
    unfold decodeRow
    simp only [hsz, normRow, hf, FT_SMEM, FT_VOP3a, FT_VOP3b, FT_DS, FT_FLAT, FT_VOP2, FT_SOP2, Nat.reduceBEq, Bool.false_eq_true,
      if_false, BEq.rfl, if_true, Option.map_some, dec8, decodeDS, a0, a1, a2, Option.getD_some]
    by_cases s0 : row.src0W > 0 <;> by_cases s1 : row.src1W > 0 <;> by_cases sd : row.dstW > 0 <;>
      simp only [s0, s1, sd, if_true, if_false, ds_c1, ds_c2, ds_c3, ds_c4, ds_c5, ds_c6, ds_c7, ds_c8, ds_c9]

theorem desc_ds (c : Bool) (f : Format) (row : Row) (w0 : Nat) (w1? : Option Nat) (i : Inst)
    (hf : f.ft = FT_DS) (hsz : f.size = 8) (hw0 : w0 < 2 ^ 32) (hw1 : ∀ w1, w1? = some w1 → w1 < 2 ^ 32)
    (henc : w0 / 2 ^ 26 = 54) (hop : extractBits w0 17 24 = row.opcode)
    (h : decodeRow c f row w0 w1? = .ok i) :
    encWord (descOf c i) = (normRow c f.ft row w0 w1?).1 ∧ encSecond (descOf c i) = (normRow c f.ft row w0 w1?).2 := by
  cases w1? with
  | none => simp [decodeRow, hsz] at h
  | some w1 =>
    have h1 := hw1 w1 rfl
    unfold decodeRow at h
    simp only [hsz, hf, FT_SMEM, FT_VOP3a, FT_VOP3b, FT_DS, FT_FLAT, FT_VOP2, FT_SOP2, Nat.reduceBEq, Bool.false_eq_true,
      if_false, BEq.rfl, if_true, dec8, decodeDS, Option.getD_some, Outcome.setSize, Outcome.ok.injEq] at h
    subst h
    have hmod : (extractBits w0 0 7 + extractBits w0 8 15 * 256) % 2 ^ 32 % 256 = extractBits w0 0 7 := by
      have := extractBits_lt w0 0 7
      have := extractBits_lt w0 8 15
      omega
    constructor
    · simp only [descOf, encWord, normRow, hf, FT_SOP2, FT_SOPK, FT_SOP1, FT_SOPC, FT_SOPP, FT_SMEM, FT_VOP2, FT_VOP1, FT_VOPC,
        FT_VOP3a, FT_VOP3b, FT_FLAT, FT_DS, Nat.reduceBEq, Bool.false_eq_true, if_false, BEq.rfl, if_true, b2n]
      by_cases hs : dsSeparateOffsets row.opcode = true
      · simp only [hs, if_true]
        by_cases hg : extractBits w0 16 16 = 0
        · simp only [hg]; simp; rw [← hop]; unfold clr extractBits at *; omega
        · have : extractBits w0 16 16 = 1 := by have := extractBits_lt w0 16 16; omega
          simp only [this]; simp; rw [← hop]; unfold clr extractBits at *; omega
      · simp only [hs, hmod]
        by_cases hg : extractBits w0 16 16 = 0
        · simp only [hg]; simp; rw [← hop]; unfold clr extractBits at *; omega
        · have : extractBits w0 16 16 = 1 := by have := extractBits_lt w0 16 16; omega
          simp only [this]; simp; rw [← hop]; unfold clr extractBits at *; omega
    · simp only [descOf, encSecond, hiWord, normRow, hf, FT_SOP2, FT_SOPK, FT_SOP1, FT_SOPC, FT_SOPP, FT_SMEM, FT_VOP2, FT_VOP1, FT_VOPC,
        FT_VOP3a, FT_VOP3b, FT_FLAT, FT_DS, Nat.reduceBEq, Bool.false_eq_true, if_false, BEq.rfl, if_true, Bool.or_false, Bool.or_true,
        Bool.false_or, Option.map_some, Option.some.injEq]
      by_cases s0 : row.src0W > 0 <;> by_cases s1 : row.src1W > 0 <;> by_cases sd : row.dstW > 0 <;>
        simp only [s0, s1, sd, if_true, if_false, ocode, vreg_code] <;> (simp only [clr, extractBits]; omega)

/-! ### FLAT -/
theorem flat_a0 (w : Nat) : extractBits (clr (clr (clr w 13 13) 14 15) 25 25) 0 12 = extractBits w 0 12 := by ebclr
theorem flat_a1 (w : Nat) : extractBits (clr (clr (clr w 13 13) 14 15) 25 25) 14 15 = 0 := by ebclr
theorem flat_a2 (w : Nat) : extractBits (clr (clr (clr w 13 13) 14 15) 25 25) 16 16 = extractBits w 16 16 := by ebclr
theorem flat_a3 (w : Nat) : extractBits (clr (clr (clr w 13 13) 14 15) 25 25) 17 17 = extractBits w 17 17 := by ebclr
theorem flat_b0 (w : Nat) : extractBits (clr (clr (clr w 13 13) 14 15) 25 25 + 2 ^ 14) 0 12 = extractBits w 0 12 := by ebclr
theorem flat_b1 (w : Nat) : extractBits (clr (clr (clr w 13 13) 14 15) 25 25 + 2 ^ 14) 14 15 = 1 := by ebclr
theorem flat_b2 (w : Nat) : extractBits (clr (clr (clr w 13 13) 14 15) 25 25 + 2 ^ 14) 16 16 = extractBits w 16 16 := by ebclr
theorem flat_b3 (w : Nat) : extractBits (clr (clr (clr w 13 13) 14 15) 25 25 + 2 ^ 14) 17 17 = extractBits w 17 17 := by ebclr
theorem flat_sext (raw : Nat) (h : raw < 2 ^ (12 - 0 + 1)) :
    (if (raw &&& 1 <<< 12 != 0) = true then raw ||| 0xFFFFE000 else raw) % 8192 = raw := by
  split
  · have : (8192:Nat) = 2 ^ 13 := by decide
    rw [this, Nat.or_mod_two_pow]
    have : 0xFFFFE000 % 2 ^ 13 = 0 := by decide
    rw [this, Nat.or_zero]
    exact Nat.mod_eq_of_lt (by omega)
  · exact Nat.mod_eq_of_lt (by omega)
theorem mem_b2n (x : Nat) (h : x < 2) : b2n (x != 0) = x := by
  have : x = 0 ∨ x = 1 := by omega
  rcases this with h | h <;> subst h <;> rfl
theorem flat_clr3 (w : Nat) : clr (clr (clr w 13 13) 14 15) 25 25 =
    w - extractBits w 13 13 * 2 ^ 13 - extractBits w 14 15 * 2 ^ 14 - extractBits w 25 25 * 2 ^ 25 := by
  have e1 : extractBits (clr w 13 13) 14 15 = extractBits w 14 15 := by ebclr
  have e2 : extractBits (clr (clr w 13 13) 14 15) 25 25 = extractBits w 25 25 := by ebclr
  rw [← e2, ← e1]; rfl
theorem flat_word (w0 : Nat) (hw0 : w0 < 2 ^ 32) (henc : w0 / 2 ^ 26 = 55) :
    3690987520 + extractBits w0 18 24 * 2 ^ 18 + extractBits w0 17 17 * 2 ^ 17 + extractBits w0 16 16 * 2 ^ 16 +
      extractBits w0 0 12 = clr (clr (clr w0 13 13) 14 15) 25 25 := by
  have hd : w0 = 55 * 2 ^ 26 + extractBits w0 25 25 * 2 ^ 25 + extractBits w0 18 24 * 2 ^ 18 + extractBits w0 17 17 * 2 ^ 17
     + extractBits w0 16 16 * 2 ^ 16 + extractBits w0 14 15 * 2 ^ 14 + extractBits w0 13 13 * 2 ^ 13 + extractBits w0 0 12 := by
    unfold extractBits; omega
  rw [flat_clr3]
  omega
theorem flat_ocount (a b n : Nat) : ocount (some (vreg a b n)) = n := rfl

theorem norm_flat (c : Bool) (f : Format) (row : Row) (w0 : Nat) (w1? : Option Nat)
    (hf : f.ft = FT_FLAT) (hsz : f.size = 8) (hw0 : w0 < 2 ^ 32) (hw1 : ∀ w1, w1? = some w1 → w1 < 2 ^ 32) :
    decodeRow c f row (normRow c f.ft row w0 w1?).1 (normRow c f.ft row w0 w1?).2 = decodeRow c f row w0 w1? := by
  cases w1? with
  | none => simp [decodeRow, hsz, normRow, hf, FT_SMEM, FT_VOP3a, FT_VOP3b, FT_DS, FT_FLAT, FT_VOP2]
  | some w1 =>
    unfold decodeRow
    simp only [hsz, normRow, hf, FT_SMEM, FT_VOP3a, FT_VOP3b, FT_DS, FT_FLAT, FT_VOP2, FT_SOP2, Nat.reduceBEq, Bool.false_eq_true,
      if_false, BEq.rfl, if_true, Option.map_some, dec8, decodeFLAT, Option.getD_some]
    by_cases hc : (c && extractBits w1 16 22 != 0x7F && extractBits w0 14 15 != 0) = true
    · simp only [hc, if_true, flat_b0, flat_b1, flat_b2, flat_b3]
      simp only [Bool.and_eq_true] at hc
      obtain ⟨⟨h1, h2⟩, h3⟩ := hc
      subst h1
      simp only [h2, h3, if_true, Bool.and_self, Nat.reduceBNe]
    · simp only [hc, Bool.false_eq_true, if_false, flat_a0, flat_a1, flat_a2, flat_a3]
      cases c
      · simp only [Bool.false_eq_true, if_false]
      · simp only [Bool.true_and] at hc
        simp only [if_true]
        by_cases h2 : (extractBits w1 16 22 != 0x7F) = true
        · simp only [h2, Bool.true_and] at hc
          simp only [hc, h2, Bool.true_and, Bool.and_false, BEq.rfl, bne_self_eq_false]
        · simp only [h2, Bool.false_and]

theorem desc_flat (c : Bool) (f : Format) (row : Row) (w0 : Nat) (w1? : Option Nat) (i : Inst)
    (hf : f.ft = FT_FLAT) (hsz : f.size = 8) (hw0 : w0 < 2 ^ 32) (hw1 : ∀ w1, w1? = some w1 → w1 < 2 ^ 32)
    (henc : w0 / 2 ^ 26 = 55) (hop : extractBits w0 18 24 = row.opcode)
    (h : decodeRow c f row w0 w1? = .ok i) :
    encWord (descOf c i) = (normRow c f.ft row w0 w1?).1 ∧ encSecond (descOf c i) = (normRow c f.ft row w0 w1?).2 := by
  cases w1? with
  | none => simp [decodeRow, hsz] at h
  | some w1 =>
    have h1 := hw1 w1 rfl
    unfold decodeRow at h
    simp only [hsz, hf, FT_SMEM, FT_VOP3a, FT_VOP3b, FT_DS, FT_FLAT, FT_VOP2, FT_SOP2, Nat.reduceBEq, Bool.false_eq_true,
      if_false, BEq.rfl, if_true, dec8, decodeFLAT, Option.getD_some, Outcome.setSize, Outcome.ok.injEq] at h
    subst h
    have hoff := flat_sext (extractBits w0 0 12) (extractBits_lt w0 0 12)
    constructor
    · simp only [descOf, encWord, normRow, hf, FT_SOP2, FT_SOPK, FT_SOP1, FT_SOPC, FT_SOPP, FT_SMEM, FT_VOP2, FT_VOP1, FT_VOPC,
        FT_VOP3a, FT_VOP3b, FT_FLAT, FT_DS, Nat.reduceBEq, Bool.false_eq_true, if_false, BEq.rfl, if_true, hoff, flat_ocount]
      rw [← hop, mem_b2n _ (extractBits_lt w0 16 16), mem_b2n _ (extractBits_lt w0 17 17)]
      by_cases hc : (c && extractBits w1 16 22 != 0x7F && extractBits w0 14 15 != 0) = true
      · simp only [hc, if_true]
        simp only [Bool.and_eq_true] at hc
        obtain ⟨⟨c1, c2⟩, c3⟩ := hc
        subst c1
        simp only [c2, c3, Bool.and_self, if_true, BEq.rfl, Bool.true_and]
        rw [← flat_word w0 hw0 henc]; omega
      · simp only [hc, Bool.false_eq_true, if_false]
        have : (c && (if c = true then if (extractBits w1 16 22 != 127 && extractBits w0 14 15 != 0) = true then 1 else 2
                    else if (extractBits w1 16 22 != 127 && extractBits w1 16 22 != 0) = true then 1 else 2) == 1) = false := by
          cases c
          · rfl
          · simp only [Bool.true_and] at hc
            simp only [hc, if_true, Bool.false_eq_true, if_false, Bool.true_and, Nat.reduceBEq]
        simp only [this, Bool.false_eq_true, if_false]
        rw [← flat_word w0 hw0 henc]; omega
    · simp only [descOf, encSecond, hiWord, normRow, hf, FT_SOP2, FT_SOPK, FT_SOP1, FT_SOPC, FT_SOPP, FT_SMEM, FT_VOP2, FT_VOP1, FT_VOPC,
        FT_VOP3a, FT_VOP3b, FT_FLAT, FT_DS, Nat.reduceBEq, Bool.false_eq_true, if_false, BEq.rfl, if_true, Bool.or_false, Bool.or_true,
        Bool.false_or, Option.map_some, Option.some.injEq, ocode, vreg_code, oint, Int.toNat_natCast]
      rw [mem_b2n _ (extractBits_lt w1 23 23)]
      clear hoff hw1 hop henc hw0
      unfold extractBits; omega

/-! ### SMEM -/
theorem smem_a0 (w : Nat) : extractBits (clr w 13 15) 0 5 = extractBits w 0 5 := by ebclr
theorem smem_a1 (w : Nat) : extractBits (clr w 13 15) 6 12 = extractBits w 6 12 := by ebclr
theorem smem_a2 (w : Nat) : extractBits (clr w 13 15) 16 16 = extractBits w 16 16 := by ebclr
theorem smem_a3 (w : Nat) : extractBits (clr w 13 15) 17 17 = extractBits w 17 17 := by ebclr
theorem smem_h0 (w : Nat) : extractBits (extractBits w 0 20) 0 20 = extractBits w 0 20 := by unfold extractBits; omega
theorem smem_h1 (w : Nat) : extractBits (extractBits w 0 19) 0 19 = extractBits w 0 19 := by unfold extractBits; omega
theorem smem_dt_code (op : Nat) (dt : Opnd) :
    (if (op == 0) = true then dt.setCount 1
      else if (op == 1 || op == 9 || op == 17 || op == 25) = true then dt.setCount 2
      else if (op == 2 || op == 10 || op == 18 || op == 26) = true then dt.setCount 4
      else if (op == 3 || op == 11 || op == 19 || op == 27) = true then dt.setCount 8
      else if (op == 4 || op == 12 || op == 20 || op == 28) = true then dt.setCount 16
      else dt).code = dt.code := by
  repeat' split
  all_goals first | rfl | exact setCount_code _ _
theorem smem_word (w0 : Nat) (hw0 : w0 < 2 ^ 32) (henc : w0 / 2 ^ 26 = 48) :
    3221225472 + extractBits w0 18 25 * 2 ^ 18 + extractBits w0 17 17 * 2 ^ 17 + extractBits w0 16 16 * 2 ^ 16 +
      extractBits w0 6 12 * 2 ^ 6 + extractBits w0 0 5 * 2 / 2 = clr w0 13 15 := by
  have hd : w0 = 48 * 2 ^ 26 + extractBits w0 18 25 * 2 ^ 18 + extractBits w0 17 17 * 2 ^ 17
     + extractBits w0 16 16 * 2 ^ 16 + extractBits w0 13 15 * 2 ^ 13 + extractBits w0 6 12 * 2 ^ 6 + extractBits w0 0 5 := by
    unfold extractBits; omega
  unfold clr
  omega

theorem norm_smem (c : Bool) (f : Format) (row : Row) (w0 : Nat) (w1? : Option Nat)
    (hf : f.ft = FT_SMEM) (hsz : f.size = 8) (hw0 : w0 < 2 ^ 32) (hw1 : ∀ w1, w1? = some w1 → w1 < 2 ^ 32) :
    decodeRow c f row (normRow c f.ft row w0 w1?).1 (normRow c f.ft row w0 w1?).2 = decodeRow c f row w0 w1? := by
  cases w1? with
  | none => simp [decodeRow, hsz, normRow, hf, FT_SMEM, FT_VOP3a, FT_VOP3b, FT_DS, FT_FLAT, FT_VOP2]
  | some w1 =>
    unfold decodeRow
    simp only [hsz, normRow, hf, FT_SMEM, FT_VOP3a, FT_VOP3b, FT_DS, FT_FLAT, FT_VOP2, FT_SOP2, Nat.reduceBEq, Bool.false_eq_true,
      if_false, BEq.rfl, if_true, Option.map_some, dec8, decodeSMEM, Option.getD_some, smem_a0, smem_a1, smem_a2, smem_a3]
    cases hg : getOperand (extractBits w0 6 12) with
    | none => rfl
    | some dt =>
      simp only []
      by_cases hi : (extractBits w0 17 17 != 0) = true
      · simp only [hi, if_true, Bool.and_true]
        cases c
        · simp only [Bool.false_eq_true, if_false, smemImm, smem_h1]
        · simp only [if_true, smemImm, smem_h0]
      · simp only [hi, Bool.false_eq_true, if_false, Bool.and_false, smem_h1]

theorem desc_smem (c : Bool) (f : Format) (row : Row) (w0 : Nat) (w1? : Option Nat) (i : Inst)
    (hf : f.ft = FT_SMEM) (hsz : f.size = 8) (hw0 : w0 < 2 ^ 32) (hw1 : ∀ w1, w1? = some w1 → w1 < 2 ^ 32)
    (henc : w0 / 2 ^ 26 = 48) (hop : extractBits w0 18 25 = row.opcode)
    (h : decodeRow c f row w0 w1? = .ok i) :
    encWord (descOf c i) = (normRow c f.ft row w0 w1?).1 ∧ encSecond (descOf c i) = (normRow c f.ft row w0 w1?).2 := by
  cases w1? with
  | none => simp [decodeRow, hsz] at h
  | some w1 =>
    have h1 := hw1 w1 rfl
    unfold decodeRow at h
    simp only [hsz, hf, FT_SMEM, FT_VOP3a, FT_VOP3b, FT_DS, FT_FLAT, FT_VOP2, FT_SOP2, Nat.reduceBEq, Bool.false_eq_true,
      if_false, BEq.rfl, if_true, dec8, decodeSMEM, Option.getD_some] at h
    cases hg : getOperand (extractBits w0 6 12) with
    | none => rw [hg] at h; simp [Outcome.setSize] at h
    | some dt =>
      rw [hg] at h
      simp only [Outcome.setSize, Outcome.ok.injEq] at h
      subst h
      have hcode : dt.code = extractBits w0 6 12 := getOperand_code (by have := extractBits_lt w0 6 12; omega) hg
      constructor
      · simp only [descOf, encWord, normRow, hf, FT_SOP2, FT_SOPK, FT_SOP1, FT_SOPC, FT_SOPP, FT_SMEM, FT_VOP2, FT_VOP1, FT_VOPC,
          FT_VOP3a, FT_VOP3b, FT_FLAT, FT_DS, Nat.reduceBEq, Bool.false_eq_true, if_false, BEq.rfl, if_true, ocode, sreg_code]
        rw [smem_dt_code, hcode, ← hop, mem_b2n _ (extractBits_lt w0 16 16), mem_b2n _ (extractBits_lt w0 17 17)]
        exact smem_word w0 hw0 henc
      · simp only [descOf, encSecond, hiWord, normRow, hf, FT_SOP2, FT_SOPK, FT_SOP1, FT_SOPC, FT_SOPP, FT_SMEM, FT_VOP2, FT_VOP1, FT_VOPC,
          FT_VOP3a, FT_VOP3b, FT_FLAT, FT_DS, Nat.reduceBEq, Bool.false_eq_true, if_false, BEq.rfl, if_true, Bool.or_false, Bool.or_true,
          Bool.false_or, Option.map_some, Option.some.injEq]
        by_cases hi : (extractBits w0 17 17 != 0) = true
        · simp only [hi, if_true, Bool.and_true, oint]
          have l20 := extractBits_lt w1 0 20
          have l19 := extractBits_lt w1 0 19
          cases c
          · simp only [smemImm, Bool.false_eq_true, if_false]
            generalize extractBits w1 0 19 = x at *
            omega
          · simp only [smemImm, if_true]
            generalize extractBits w1 0 20 = x at *
            split <;> omega
        · simp only [hi, Bool.false_eq_true, if_false, Bool.and_false, ocode, sreg_code]

end C04
