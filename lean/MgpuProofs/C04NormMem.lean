import MgpuProofs.C04Norm
/-! `norm_X` / `desc_X` for the memory formats DS, FLAT, SMEM -/
namespace C04
open Gen
set_option linter.unusedSimpArgs false
set_option linter.unusedVariables false

/-! ### DS -/
theorem ds_c1 (w : Nat) : extractBits (clr w 8 15) 0 7 = extractBits w 0 7 := by ebclr
theorem ds_c2 (w : Nat) : extractBits (clr w 8 15) 16 23 = extractBits w 16 23 := by ebclr
theorem ds_c3 (w : Nat) : extractBits (clr w 8 15) 24 31 = extractBits w 24 31 := by ebclr
theorem ds_c4 (w : Nat) : extractBits (clr w 16 23) 0 7 = extractBits w 0 7 := by ebclr
theorem ds_c5 (w : Nat) : extractBits (clr w 16 23) 8 15 = extractBits w 8 15 := by ebclr
theorem ds_c6 (w : Nat) : extractBits (clr w 16 23) 24 31 = extractBits w 24 31 := by ebclr
theorem ds_c7 (w : Nat) : extractBits (clr w 24 31) 0 7 = extractBits w 0 7 := by ebclr
theorem ds_c8 (w : Nat) : extractBits (clr w 24 31) 8 15 = extractBits w 8 15 := by ebclr
theorem ds_c9 (w : Nat) : extractBits (clr w 24 31) 16 23 = extractBits w 16 23 := by ebclr

theorem norm_ds (c : Bool) (f : Format) (row : Row) (w0 : Nat) (w1? : Option Nat)
    (hf : f.ft = FT_DS) (hsz : f.size = 8) (hw0 : w0 < 2 ^ 32) (hw1 : ∀ w1, w1? = some w1 → w1 < 2 ^ 32) :
    decodeRow c f row (normRow c f.ft row w0 w1?).1 (normRow c f.ft row w0 w1?).2 = decodeRow c f row w0 w1? := by
  cases w1? with
  | none => simp [decodeRow, hsz, normRow, hf, FT_SMEM, FT_VOP3a, FT_VOP3b, FT_DS, FT_FLAT, FT_VOP2]
  | some w1 =>
    have a0 : extractBits (clr w0 25 25) 0 7 = extractBits w0 0 7 := by ebclr
    have a1 : extractBits (clr w0 25 25) 8 15 = extractBits w0 8 15 := by ebclr
    have a2 : extractBits (clr w0 25 25) 16 16 = extractBits w0 16 16 := by ebclr
    unfold decodeRow
    simp only [hsz, normRow, hf, FT_SMEM, FT_VOP3a, FT_VOP3b, FT_DS, FT_FLAT, FT_VOP2, FT_SOP2, Nat.reduceBEq, Bool.false_eq_true,
      if_false, BEq.rfl, if_true, Option.map_some, dec8, decodeDS, a0, a1, a2, Option.getD_some]
    by_cases s0 : row.src0W > 0 <;> by_cases s1 : row.src1W > 0 <;> by_cases sd : row.dstW > 0 <;>
      simp only [s0, s1, sd, if_true, if_false, ds_c1, ds_c2, ds_c3, ds_c4, ds_c5, ds_c6, ds_c7, ds_c8, ds_c9]

theorem desc_ds (c : Bool) (f : Format) (row : Row) (w0 : Nat) (w1? : Option Nat) (i : Inst)
    (hf : f.ft = FT_DS) (hsz : f.size = 8) (hw0 : w0 < 2 ^ 32) (hw1 : ∀ w1, w1? = some w1 → w1 < 2 ^ 32)
    (henc : w0 / 2 ^ 26 = 54) (hop : extractBits w0 17 24 = row.opcode)
    (h : decodeRow c f row w0 w1? = .ok i) :
    encWord (descOf c i) = (normRow c f.ft row w0 w1?).1 ∧ encSecond (descOf c i) = (normRow c f.ft row w0 w1?).2 := by
  cases w1? with
  | none => simp [decodeRow, hsz] at h
  | some w1 =>
    have h1 := hw1 w1 rfl
    unfold decodeRow at h
    simp only [hsz, hf, FT_SMEM, FT_VOP3a, FT_VOP3b, FT_DS, FT_FLAT, FT_VOP2, FT_SOP2, Nat.reduceBEq, Bool.false_eq_true,
      if_false, BEq.rfl, if_true, dec8, decodeDS, Option.getD_some, Outcome.setSize, Outcome.ok.injEq] at h
    subst h
    have hmod : (extractBits w0 0 7 + extractBits w0 8 15 * 256) % 2 ^ 32 % 256 = extractBits w0 0 7 := by
      have := extractBits_lt w0 0 7
      have := extractBits_lt w0 8 15
      omega
    constructor
    · simp only [descOf, encWord, normRow, hf, FT_SOP2, FT_SOPK, FT_SOP1, FT_SOPC, FT_SOPP, FT_SMEM, FT_VOP2, FT_VOP1, FT_VOPC,
        FT_VOP3a, FT_VOP3b, FT_FLAT, FT_DS, Nat.reduceBEq, Bool.false_eq_true, if_false, BEq.rfl, if_true, b2n]
      by_cases hs : dsSeparateOffsets row.opcode = true
      · simp only [hs, if_true]
        by_cases hg : extractBits w0 16 16 = 0
        · simp only [hg]; simp; rw [← hop]; unfold clr extractBits at *; omega
        · have : extractBits w0 16 16 = 1 := by have := extractBits_lt w0 16 16; omega
          simp only [this]; simp; rw [← hop]; unfold clr extractBits at *; omega
      · simp only [hs, hmod]
        by_cases hg : extractBits w0 16 16 = 0
        · simp only [hg]; simp; rw [← hop]; unfold clr extractBits at *; omega
        · have : extractBits w0 16 16 = 1 := by have := extractBits_lt w0 16 16; omega
          simp only [this]; simp; rw [← hop]; unfold clr extractBits at *; omega
    · simp only [descOf, encSecond, hiWord, normRow, hf, FT_SOP2, FT_SOPK, FT_SOP1, FT_SOPC, FT_SOPP, FT_SMEM, FT_VOP2, FT_VOP1, FT_VOPC,
        FT_VOP3a, FT_VOP3b, FT_FLAT, FT_DS, Nat.reduceBEq, Bool.false_eq_true, if_false, BEq.rfl, if_true, Bool.or_false, Bool.or_true,
        Bool.false_or, Option.map_some, Option.some.injEq]
      by_cases s0 : row.src0W > 0 <;> by_cases s1 : row.src1W > 0 <;> by_cases sd : row.dstW > 0 <;>
        simp only [s0, s1, sd, if_true, if_false, ocode, vreg_code] <;> (simp only [clr, extractBits]; omega)

/-! ### FLAT -/
theorem norm_flat (c : Bool) (f : Format) (row : Row) (w0 : Nat) (w1? : Option Nat)
    (hf : f.ft = FT_FLAT) (hsz : f.size = 8) (hw0 : w0 < 2 ^ 32) (hw1 : ∀ w1, w1? = some w1 → w1 < 2 ^ 32) :
    decodeRow c f row (normRow c f.ft row w0 w1?).1 (normRow c f.ft row w0 w1?).2 = decodeRow c f row w0 w1? := by
  sorry

theorem desc_flat (c : Bool) (f : Format) (row : Row) (w0 : Nat) (w1? : Option Nat) (i : Inst)
    (hf : f.ft = FT_FLAT) (hsz : f.size = 8) (hw0 : w0 < 2 ^ 32) (hw1 : ∀ w1, w1? = some w1 → w1 < 2 ^ 32)
    (henc : w0 / 2 ^ 26 = 55) (hop : extractBits w0 18 24 = row.opcode)
    (h : decodeRow c f row w0 w1? = .ok i) :
    encWord (descOf c i) = (normRow c f.ft row w0 w1?).1 ∧ encSecond (descOf c i) = (normRow c f.ft row w0 w1?).2 := by
  sorry

/-! ### SMEM -/
theorem norm_smem (c : Bool) (f : Format) (row : Row) (w0 : Nat) (w1? : Option Nat)
    (hf : f.ft = FT_SMEM) (hsz : f.size = 8) (hw0 : w0 < 2 ^ 32) (hw1 : ∀ w1, w1? = some w1 → w1 < 2 ^ 32) :
    decodeRow c f row (normRow c f.ft row w0 w1?).1 (normRow c f.ft row w0 w1?).2 = decodeRow c f row w0 w1? := by
  sorry

theorem desc_smem (c : Bool) (f : Format) (row : Row) (w0 : Nat) (w1? : Option Nat) (i : Inst)
    (hf : f.ft = FT_SMEM) (hsz : f.size = 8) (hw0 : w0 < 2 ^ 32) (hw1 : ∀ w1, w1? = some w1 → w1 < 2 ^ 32)
    (henc : w0 / 2 ^ 26 = 48) (hop : extractBits w0 18 25 = row.opcode)
    (h : decodeRow c f row w0 w1? = .ok i) :
    encWord (descOf c i) = (normRow c f.ft row w0 w1?).1 ∧ encSecond (descOf c i) = (normRow c f.ft row w0 w1?).2 := by
  sorry

end C04
