import MgpuProofs.C20_Inv1
/-! # C20 — a termination measure: every strict run (only awake components tick) is finite

`Phi` is a potential that every tick with progress lowers and every tick without progress leaves
unchanged; a tick without progress puts the ticking component to sleep and wakes nobody, so
`M = Phi * (N + 1) + awakeCount` strictly decreases along strict runs. -/
namespace C20

/-- no completion message in a parent's incoming buffer without an unfinished unit (consequence of `Inv1`) -/
def NoGhost (s : Sys) : Prop :=
  (s.l0.pIn ≠ [] → 0 < s.l0.unfin) ∧
  (∀ g, g < s.G → (get s.l1 g).pIn ≠ [] → 0 < (get s.l1 g).unfin) ∧
  (∀ m, m < s.G * s.S → (get s.l2 m).pIn ≠ [] → 0 < (get s.l2 m).unfin)

namespace Meas

/-! ## sums (re-proved here: `C20_Cons` and `C20_TermLemmas` cannot be imported together) -/

@[simp] theorem sum_nil : sum [] = 0 := rfl
@[simp] theorem sum_cons (a : Nat) (l : List Nat) : sum (a :: l) = a + sum l := rfl
@[simp] theorem sum_append (a b : List Nat) : sum (a ++ b) = sum a + sum b := by
  induction a with
  | nil => simp
  | cons x xs ih => simp [ih]; omega

theorem sum_upd {α} [Inhabited α] (f : α → Nat) (h0 : f default = 0) (l : List α) (i : Nat) (v : α) :
    sum ((upd l i v).map f) + f (get l i) = sum (l.map f) + f v := by
  induction l generalizing i with
  | nil =>
    induction i with
    | zero => simp [upd, get, h0]
    | succ i ih => simp [upd, get, h0] at ih ⊢; omega
  | cons x xs ih =>
    cases i with
    | zero => simp [upd, get]; omega
    | succ i => have := ih i; simp [upd, get] at this ⊢; omega

theorem sum_upd_nat (l : List Nat) (i v : Nat) : sum (upd l i v) + get l i = sum l + v := by
  have := sum_upd (fun x : Nat => x) rfl l i v
  simpa using this

theorem sum_replicate_zero (k : Nat) : sum (List.replicate k 0) = 0 := by
  induction k with
  | zero => rfl
  | succ k ih => simp [List.replicate, ih]

/-- Boolean as a number -/
def bn (b : Bool) : Nat := if b then 1 else 0
@[simp] theorem bn_true : bn true = 1 := rfl
@[simp] theorem bn_false : bn false = 0 := rfl
theorem bn_le (b : Bool) : bn b ≤ 1 := by cases b <;> simp

/-! ## weights -/
def wW (n : Warp) : Nat := n + 6
def wB (b : Block) : Nat := sum (b.map wW) + 6
def wK (k : Kernel) : Nat := sum (k.map wB) + 6

theorem wW_ge (n : Warp) : 2 ≤ wW n := by unfold wW; omega
theorem wB_ge (b : Block) : 2 ≤ wB b := by unfold wB; omega
theorem wK_ge (k : Kernel) : 2 ≤ wK k := by unfold wK; omega

/-- the "shell" of a parent: it still has unfinished units -/
def shell (n : Nat) : Nat := if n = 0 then 0 else 3

/-- potential of one layer (including the "shell" `[unfin > 0]·3` of its parent) -/
def LPhi {α : Type} (w : α → Nat) (l : Level α) : Nat :=
  sum (l.undisp.map w) + sum (l.pOut.map (fun p => w p.2 - 1))
    + sum (l.cIn.map (fun b => sum (b.map (fun u => w u - 2)))) + 2 * sum l.cOut + l.pIn.length
    + shell l.unfin

theorem LPhi_default {α : Type} (w : α → Nat) : LPhi w (default : Level α) = 0 := rfl

section level
variable {α : Type} (w : α → Nat)

theorem LPhi_dispatch (hw : ∀ u, 2 ≤ w u) (l : Level α) :
    LPhi w l.dispatch.1 + bn l.dispatch.2 = LPhi w l ∧ l.dispatch.1.pIn = l.pIn ∧
      l.dispatch.1.unfin = l.unfin := by
  unfold Level.dispatch
  split
  · rename_i f fs u us hf hu
    split
    · rename_i l' hs
      unfold Level.send at hs
      split at hs
      · cases hs
      · cases hs
        have := hw u
        simp [LPhi, hu]
        omega
    · simp
  · simp

theorem LPhi_procUp (l : Level α) (h : l.pIn ≠ [] → 0 < l.unfin) :
    LPhi w l.procUp.1 + bn l.procUp.2.1 + (if (l.procUp.2.1 && l.procUp.2.2.1) = true then 3 else 0)
      = LPhi w l := by
  unfold Level.procUp
  split
  · simp
  · rename_i j rest hp
    have h1 := h (by simp [hp])
    simp only [LPhi, shell, hp, bn_true, Bool.true_and, beq_iff_eq, List.length_cons]
    split <;> split <;> omega

theorem LPhi_childSend (l l' : Level α) (j : Nat) (h : l.childSend j = some l') :
    LPhi w l' = LPhi w l + 2 ∧ l'.pIn = l.pIn ∧ l'.unfin = l.unfin := by
  unfold Level.childSend at h
  simp only at h
  split at h
  · cases h
  · cases h
    have := sum_upd_nat l.cOut j (get l.cOut j + 1)
    refine ⟨?_, rfl, rfl⟩
    simp only [LPhi]
    omega

theorem LPhi_childTake (l l' : Level α) (j : Nat) (u : α) (wf : Bool)
    (h : l.childTake j = some (u, l', wf)) :
    LPhi w l' + (w u - 2) = LPhi w l ∧ l'.pIn = l.pIn ∧ l'.unfin = l.unfin := by
  unfold Level.childTake at h
  split at h
  · cases h
  · rename_i u' rest hg
    simp only [Option.some.injEq, Prod.mk.injEq] at h
    obtain ⟨rfl, rfl, _⟩ := h
    have := sum_upd (fun b : List α => sum (b.map (fun u => w u - 2))) rfl l.cIn j rest
    rw [hg] at this
    refine ⟨?_, rfl, rfl⟩
    simp only [LPhi]
    simp at this ⊢
    omega

theorem LPhi_accept (l : Level α) (k : List α) :
    LPhi w { l with undisp := l.undisp ++ k, unfin := l.unfin + k.length }
      + (if k.isEmpty = true then 3 else 0) ≤ LPhi w l + sum (k.map w) + 3 := by
  cases k with
  | nil => simp [LPhi]
  | cons x xs =>
    simp [LPhi, shell]
    split <;> omega

theorem fwdDown_phi (hw : ∀ u, 2 ≤ w u) (pOut : List (Nat × α)) (cIn : List (List α)) :
    sum ((Level.fwdDown pOut cIn).1.map (fun p => w p.2 - 1))
      + sum ((Level.fwdDown pOut cIn).2.1.map (fun b => sum (b.map (fun u => w u - 2))))
      + (Level.fwdDown pOut cIn).2.2.2
      = sum (pOut.map (fun p => w p.2 - 1)) + sum (cIn.map (fun b => sum (b.map (fun u => w u - 2)))) := by
  induction pOut generalizing cIn with
  | nil => simp [Level.fwdDown]
  | cons p rest ih =>
    obtain ⟨j, u⟩ := p
    unfold Level.fwdDown
    simp only
    split
    · simp
    · have h1 := ih (upd cIn j (get cIn j ++ [u]))
      have h2 := sum_upd (fun b : List α => sum (b.map (fun u => w u - 2))) rfl cIn j (get cIn j ++ [u])
      have := hw u
      simp at h1 h2 ⊢
      omega

theorem sum_replicate (k j : Nat) : (List.replicate k j).length = k := by simp

theorem bn_or_ne (b : Bool) (k : Nat) : bn (b || k != 0) ≤ bn b + k := by
  cases b
  · by_cases hk : k = 0
    · simp [hk]
    · have := bn_le (k != 0); simp; omega
  · simp

theorem LPhi_fwdPort (hw : ∀ u, 2 ≤ w u) (o : Level.ConnOut α) (p : Nat) :
    LPhi w (Level.fwdPort o p).l + bn (Level.fwdPort o p).progress ≤ LPhi w o.l + bn o.progress := by
  cases p with
  | zero =>
    have := fwdDown_phi w hw o.l.pOut o.l.cIn
    have h2 := bn_or_ne o.progress (Level.fwdDown o.l.pOut o.l.cIn).2.2.2
    simp only [Level.fwdPort, LPhi]
    omega
  | succ j =>
    have h1 := sum_upd_nat o.l.cOut j (get o.l.cOut j - min (get o.l.cOut j) (cap - o.l.pIn.length))
    have h2 := bn_or_ne o.progress (min (get o.l.cOut j) (cap - o.l.pIn.length))
    simp only [Level.fwdPort, LPhi, List.length_append, List.length_replicate]
    omega

theorem LPhi_connTick (hw : ∀ u, 2 ≤ w u) (l : Level α) :
    LPhi w l.connTick.l + bn l.connTick.l.connAwake ≤ LPhi w l := by
  rw [connTick_eq]
  have : LPhi w (connFold l).l + bn (connFold l).progress ≤ LPhi w l := by
    refine connFold_induct l (fun o => LPhi w o.l + bn o.progress ≤ LPhi w l) (by simp) ?_
    intro o p ih
    exact Nat.le_trans (LPhi_fwdPort w hw o p) ih
  simpa [LPhi] using this

end level

/-- potential of a sub-core -/
def subPhi (c : Sub) : Nat := (if c.rem = 0 then 0 else c.rem + 3) + 3 * c.fin

end Meas

open Meas in
/-- the potential: every tick with progress lowers it, every tick without progress keeps it -/
def Phi (s : Sys) : Nat :=
  LPhi wK s.l0 + sum (s.l1.map (LPhi wB)) + sum (s.l2.map (LPhi wW))
    + sum (s.gpus.map (fun g => 3 * g.fin)) + sum (s.sms.map (fun m => 3 * m.fin))
    + sum (s.subs.map subPhi)

namespace Meas

/-- potential plus the flag of the component that handles `e` -/
def PA (s : Sys) (e : Ev) : Nat := Phi s + bn (awakeOf s e)

theorem Phi_wakeGpu (s : Sys) (g : Nat) : Phi (wakeGpu s g) = Phi s := by
  have := sum_upd (fun c : Gpu => 3 * c.fin) rfl s.gpus g { get s.gpus g with awake := true }
  simp only [Phi, wakeGpu] at this ⊢
  omega
theorem Phi_wakeSm (s : Sys) (m : Nat) : Phi (wakeSm s m) = Phi s := by
  have := sum_upd (fun c : Smx => 3 * c.fin) rfl s.sms m { get s.sms m with awake := true }
  simp only [Phi, wakeSm] at this ⊢
  omega
theorem Phi_wakeSub (s : Sys) (u : Nat) : Phi (wakeSub s u) = Phi s := by
  have := sum_upd subPhi rfl s.subs u { get s.subs u with awake := true }
  simp only [Phi, wakeSub, subPhi] at this ⊢
  omega

theorem PA_wakeGpu (s : Sys) (k : Nat) (e : Ev) (h : e ≠ .gpu k) : PA (wakeGpu s k) e = PA s e := by
  unfold PA
  rw [Phi_wakeGpu]
  cases e with
  | gpu g =>
    have : g ≠ k := fun e => h (by rw [e])
    simp only [awakeOf, wakeGpu_awake, this, decide_false, Bool.or_false]
  | _ => rfl

theorem PA_wakeSm (s : Sys) (k : Nat) (e : Ev) (h : e ≠ .sm k) : PA (wakeSm s k) e = PA s e := by
  unfold PA
  rw [Phi_wakeSm]
  cases e with
  | sm g =>
    have : g ≠ k := fun e => h (by rw [e])
    simp only [awakeOf, wakeSm_awake, this, decide_false, Bool.or_false]
  | _ => rfl

theorem PA_wakeSub (s : Sys) (k : Nat) (e : Ev) (h : e ≠ .sub k) : PA (wakeSub s k) e = PA s e := by
  unfold PA
  rw [Phi_wakeSub]
  cases e with
  | sub g =>
    have : g ≠ k := fun e => h (by rw [e])
    simp only [awakeOf, wakeSub_awake, this, decide_false, Bool.or_false]
  | _ => rfl

theorem PA_wakeMany (wake : Sys → Nat → Sys) (e : Ev) (f : Nat → Nat) (ks : List Nat)
    (h : ∀ s, ∀ k ∈ ks, PA (wake s (f k)) e = PA s e) (s : Sys) :
    PA (wakeMany wake f s ks) e = PA s e := by
  unfold wakeMany
  induction ks generalizing s with
  | nil => rfl
  | cons k ks ih =>
    simp only [List.foldl_cons]
    rw [ih (fun s k' hk' => h s k' (List.mem_cons_of_mem _ hk')), h s k (List.mem_cons_self)]

theorem PA_wmGpu (f : Nat → Nat) (s : Sys) (ks : List Nat) (e : Ev) (h : ∀ k, e ≠ .gpu k) :
    PA (wakeMany wakeGpu f s ks) e = PA s e :=
  PA_wakeMany _ _ _ _ (fun s _ _ => PA_wakeGpu s _ e (h _)) s
theorem PA_wmSm (f : Nat → Nat) (s : Sys) (ks : List Nat) (e : Ev) (h : ∀ k, e ≠ .sm k) :
    PA (wakeMany wakeSm f s ks) e = PA s e :=
  PA_wakeMany _ _ _ _ (fun s _ _ => PA_wakeSm s _ e (h _)) s
theorem PA_wmSub (f : Nat → Nat) (s : Sys) (ks : List Nat) (e : Ev) (h : ∀ k, e ≠ .sub k) :
    PA (wakeMany wakeSub f s ks) e = PA s e :=
  PA_wakeMany _ _ _ _ (fun s _ _ => PA_wakeSub s _ e (h _)) s

theorem mem_others {n j k : Nat} (h : k ∈ others n j) : k < n ∧ k ≠ j := by
  simpa [others] using h

theorem PA_wmGpu_others (s : Sys) (n g : Nat) :
    PA (wakeMany wakeGpu id s (others n g)) (.gpu g) = PA s (.gpu g) := by
  apply PA_wakeMany
  intro s k hk
  apply PA_wakeGpu
  intro e
  cases e
  exact (mem_others hk).2 rfl

/-- `m = m / S * S + k` forces `k = m % S` -/
theorem PA_wmSm_others (s : Sys) (S m : Nat) :
    PA (wakeMany wakeSm (fun k => m / S * S + k) s (others S (m % S))) (.sm m) = PA s (.sm m) := by
  apply PA_wakeMany
  intro s k hk
  apply PA_wakeSm
  intro e
  obtain ⟨h1, h2⟩ := mem_others hk
  have := (sub_index (m := m / S) (u := m) h1).1 (Ev.sm.inj e).symm
  exact h2 this.2

theorem PA_wmSub_others (s : Sys) (C u : Nat) :
    PA (wakeMany wakeSub (fun k => u / C * C + k) s (others C (u % C))) (.sub u) = PA s (.sub u) := by
  apply PA_wakeMany
  intro s k hk
  apply PA_wakeSub
  intro e
  obtain ⟨h1, h2⟩ := mem_others hk
  have := (sub_index (m := u / C) (u := u) h1).1 (Ev.sub.inj e).symm
  exact h2 this.2

theorem PA_ite (c : Bool) (a b : Sys) (e : Ev) (x : Nat) (ha : PA a e ≤ x) (hb : PA b e ≤ x) :
    PA (if c = true then a else b) e ≤ x := by
  split <;> assumption

theorem bn_or (a b : Bool) : bn (a || b) ≤ bn a + bn b := by
  cases a <;> cases b <;> simp
theorem bn_or4 (a b c d : Bool) : bn (a || b || c || d) ≤ bn a + bn b + bn c + bn d := by
  cases a <;> cases b <;> cases c <;> cases d <;> simp

/-! ## driver and connections -/

theorem PA_drv (s : Sys) (l0 : Level Kernel) (b : Bool) (h : LPhi wK l0 + bn b ≤ LPhi wK s.l0) :
    PA { s with l0 := l0, dAwake := b } .drv ≤ Phi s := by
  simp only [PA, Phi, awakeOf]
  omega

theorem PA_tickDriver (s : Sys) (hn : s.l0.pIn ≠ [] → 0 < s.l0.unfin) :
    PA (tickDriver s) .drv ≤ Phi s := by
  unfold tickDriver
  simp only
  obtain ⟨hd1, hd2, hd3⟩ := LPhi_dispatch wK wK_ge s.l0
  have hp := LPhi_procUp wK s.l0.dispatch.1 (by rw [hd2, hd3]; exact hn)
  generalize s.l0.dispatch = d at *
  generalize d.1.procUp = p at *
  have := bn_or d.2 p.2.1
  apply PA_ite
  · rw [PA_wmGpu _ _ _ _ (by intro _ h; cases h)]
    apply PA_drv; omega
  · apply PA_drv; omega

theorem PA_c0 (s : Sys) (l0 : Level Kernel) (b : Bool) (h : LPhi wK l0 + bn l0.connAwake ≤ LPhi wK s.l0) :
    PA { s with l0 := l0, dAwake := b } .c0 ≤ Phi s := by
  simp only [PA, Phi, awakeOf]
  omega

theorem PA_tickConn0 (s : Sys) : PA (tickConn0 s) .c0 ≤ Phi s := by
  unfold tickConn0
  simp only
  rw [PA_wmGpu _ _ _ _ (by intro _ h; cases h)]
  exact PA_c0 _ _ _ (LPhi_connTick wK wK_ge s.l0)

theorem PA_c1 (s : Sys) (g : Nat) (l : Level Block) (h : LPhi wB l + bn l.connAwake ≤ LPhi wB (get s.l1 g)) :
    PA { s with l1 := upd s.l1 g l } (.c1 g) ≤ Phi s := by
  have h1 := sum_upd (LPhi wB) rfl s.l1 g l
  simp only [PA, Phi, awakeOf, get_upd_self] at h1 ⊢
  omega

theorem PA_tickConn1 (s : Sys) (g : Nat) : PA (tickConn1 s g) (.c1 g) ≤ Phi s := by
  unfold tickConn1
  simp only
  rw [PA_wmSm _ _ _ _ (by intro _ h; cases h)]
  have := PA_c1 s g _ (LPhi_connTick wB wB_ge (get s.l1 g))
  split
  · rw [PA_wakeGpu _ _ _ (by intro h; cases h)]; exact this
  · exact this

theorem PA_c2 (s : Sys) (m : Nat) (l : Level Warp) (h : LPhi wW l + bn l.connAwake ≤ LPhi wW (get s.l2 m)) :
    PA { s with l2 := upd s.l2 m l } (.c2 m) ≤ Phi s := by
  have h1 := sum_upd (LPhi wW) rfl s.l2 m l
  simp only [PA, Phi, awakeOf, get_upd_self] at h1 ⊢
  omega

theorem PA_tickConn2 (s : Sys) (m : Nat) : PA (tickConn2 s m) (.c2 m) ≤ Phi s := by
  unfold tickConn2
  simp only
  rw [PA_wmSub _ _ _ _ (by intro _ h; cases h)]
  have := PA_c2 s m _ (LPhi_connTick wW wW_ge (get s.l2 m))
  split
  · rw [PA_wakeSm _ _ _ (by intro h; cases h)]; exact this
  · exact this

/-! ## sub-core -/

theorem PA_sub (s : Sys) (m u : Nat) (lm l : Level Warp) (sc c : Sub) (hlm : lm = get s.l2 m)
    (hsc : sc = get s.subs u) (h : LPhi wW l + subPhi c + bn c.awake ≤ LPhi wW lm + subPhi sc) :
    PA { s with l2 := upd s.l2 m l, subs := upd s.subs u c } (.sub u) ≤ Phi s := by
  subst hlm hsc
  have h1 := sum_upd (LPhi wW) rfl s.l2 m l
  have h2 := sum_upd subPhi rfl s.subs u c
  simp only [PA, Phi, awakeOf, get_upd_self] at h1 h2 ⊢
  omega

theorem PA_tickSub (s : Sys) (u : Nat) (hl : s.legacy = false) : PA (tickSub s u) (.sub u) ≤ Phi s := by
  unfold tickSub
  extract_lets m j sc lm r q
  have hr : LPhi wW r.1 + 3 * r.2.1 + bn r.2.2 = LPhi wW lm + 3 * sc.fin := by
    simp only [r]
    split
    · rfl
    · split
      · rfl
      · rename_i hfin _ l' hs
        have := (LPhi_childSend wW _ _ _ hs).1
        simp only [bn_true]
        omega
  have hq : (if q.1 = 0 then 0 else q.1 + 3) + 3 * q.2.1 + bn q.2.2
      = (if sc.rem = 0 then 0 else sc.rem + 3) + 3 * r.2.1 := by
    simp only [q]
    split
    · simp only [bn_false]; omega
    · simp only [bn_true]
      by_cases h1 : sc.rem - 1 = 0 <;> simp only [h1, ↓reduceIte] <;> omega
  split
  · rename_i ht
    refine PA_sub s m u lm _ sc _ rfl rfl ?_
    have := bn_or r.2.2 q.2.2
    simp only [subPhi]
    omega
  · rename_i n lm' wf ht
    have hw := (LPhi_childTake wW _ _ _ _ _ ht).1
    simp only [wW] at hw
    dsimp only
    have key : PA ({ s with
          l2 := upd s.l2 m lm',
          subs := upd s.subs u { awake := true, rem := n,
                                 fin := (if !s.legacy && n = 0 then q.2.1 + 1 else q.2.1),
                                 insts := sc.insts + n } } : Sys) (.sub u) ≤ Phi s := by
      refine PA_sub s m u lm _ sc _ rfl rfl ?_
      simp only [subPhi, hl, Bool.not_false, Bool.true_and, decide_eq_true_eq, bn_true]
      by_cases hn : n = 0
      · simp only [hn, if_true] at hw ⊢; omega
      · simp only [hn, if_false] at hw ⊢; omega
    apply PA_ite
    · rw [PA_wmSub_others, PA_wakeSm _ _ _ (by intro h; cases h)]; exact key
    · exact key

/-! ## GPU -/

theorem PA_gpu (s : Sys) (g : Nat) (l0 l0' : Level Kernel) (lg lg' : Level Block) (gp gp' : Gpu) (b : Bool)
    (h0 : l0 = s.l0) (h1 : lg = get s.l1 g) (h2 : gp = get s.gpus g)
    (h : LPhi wK l0' + LPhi wB lg' + 3 * gp'.fin + bn gp'.awake ≤ LPhi wK l0 + LPhi wB lg + 3 * gp.fin) :
    PA { s with l0 := l0', l1 := upd s.l1 g lg', gpus := upd s.gpus g gp', dAwake := b } (.gpu g) ≤ Phi s := by
  subst h0 h1 h2
  have e1 := sum_upd (LPhi wB) rfl s.l1 g lg'
  have e2 := sum_upd (fun c : Gpu => 3 * c.fin) rfl s.gpus g gp'
  simp only [PA, Phi, awakeOf, get_upd_self] at e1 e2 ⊢
  omega

theorem PA_tickGpu (s : Sys) (g : Nat) (hl : s.legacy = false)
    (hn : (get s.l1 g).pIn ≠ [] → 0 < (get s.l1 g).unfin) : PA (tickGpu s g) (.gpu g) ≤ Phi s := by
  unfold tickGpu
  extract_lets gp r d p2 d1 t p fin s1 s2
  have hr : LPhi wK r.1 + 3 * r.2.1 + bn r.2.2 = LPhi wK s.l0 + 3 * gp.fin := by
    simp only [r]
    split
    · rfl
    · split
      · rfl
      · rename_i hfin _ l' hs
        have := (LPhi_childSend wK _ _ _ hs).1
        simp only [bn_true]
        omega
  have hd : LPhi wB d.1 + bn d.2 = LPhi wB (get s.l1 g) ∧ d.1.pIn = (get s.l1 g).pIn ∧
      d.1.unfin = (get s.l1 g).unfin := LPhi_dispatch wB wB_ge (get s.l1 g)
  have hp2 : p2 = d.2 := by simp only [p2, hl]; rfl
  have ht : LPhi wK t.1 + LPhi wB t.2.1 + 3 * t.2.2.1 + bn t.2.2.2.1 ≤ LPhi wK r.1 + LPhi wB d.1 + 3 * r.2.1
      ∧ (t.2.1.pIn ≠ [] → 0 < t.2.1.unfin) := by
    simp only [t, d1]
    split
    · refine ⟨by simp only [bn_false]; omega, ?_⟩
      show d.1.pIn ≠ [] → 0 < d.1.unfin
      rw [hd.2.1, hd.2.2]; exact hn
    · rename_i k l0' wf hct
      have hw := (LPhi_childTake wK _ _ _ _ _ hct).1
      have hacc := LPhi_accept wB d.1 k
      simp only [wK] at hw
      dsimp only
      refine ⟨?_, ?_⟩
      · simp only [hl, Bool.not_false, Bool.true_and, bn_true]
        by_cases hk : k.isEmpty = true <;> simp only [hk, Bool.false_eq_true, ↓reduceIte] at hacc ⊢ <;> omega
      · intro h
        have := hn (by rw [← hd.2.1]; exact h)
        rw [← hd.2.2] at this
        omega
  have hp : LPhi wB p.1 + bn p.2.1 + (if (p.2.1 && p.2.2.1) = true then 3 else 0) = LPhi wB t.2.1 :=
    LPhi_procUp wB t.2.1 ht.2
  have hfin : 3 * fin = 3 * t.2.2.1 + (if (p.2.1 && p.2.2.1) = true then 3 else 0) := by
    simp only [fin]
    split <;> omega
  have hb := bn_or4 r.2.2 p2 t.2.2.2.1 p.2.1
  have hbp : bn p2 = bn d.2 := by rw [hp2]
  have key1 : ∀ b, PA { s1 with dAwake := b } (.gpu g) ≤ Phi s := by
    intro b
    refine PA_gpu s g s.l0 _ (get s.l1 g) _ gp _ b rfl rfl rfl ?_
    show LPhi wK t.1 + LPhi wB p.1 + 3 * fin + bn (r.2.2 || p2 || t.2.2.2.1 || p.2.1)
      ≤ LPhi wK s.l0 + LPhi wB (get s.l1 g) + 3 * gp.fin
    omega
  have key2 : PA s2 (.gpu g) ≤ Phi s := by
    simp only [s2]
    apply PA_ite
    · rw [PA_wmGpu_others]; exact key1 true
    · exact key1 s.dAwake
  apply PA_ite
  · rw [PA_wmSm _ _ _ _ (by intro _ h; cases h)]; exact key2
  · exact key2

/-! ## SM -/

theorem PA_sm (s : Sys) (g m : Nat) (lg lg' : Level Block) (lm lm' : Level Warp) (c c' : Smx)
    (h1 : lg = get s.l1 g) (h2 : lm = get s.l2 m) (h3 : c = get s.sms m)
    (h : LPhi wB lg' + LPhi wW lm' + 3 * c'.fin + bn c'.awake ≤ LPhi wB lg + LPhi wW lm + 3 * c.fin) :
    PA { s with l1 := upd s.l1 g lg', l2 := upd s.l2 m lm', sms := upd s.sms m c' } (.sm m) ≤ Phi s := by
  subst h1 h2 h3
  have e1 := sum_upd (LPhi wB) rfl s.l1 g lg'
  have e2 := sum_upd (LPhi wW) rfl s.l2 m lm'
  have e3 := sum_upd (fun c : Smx => 3 * c.fin) rfl s.sms m c'
  simp only [PA, Phi, awakeOf, get_upd_self] at e1 e2 e3 ⊢
  omega

theorem PA_tickSm (s : Sys) (m : Nat) (hl : s.legacy = false)
    (hn : (get s.l2 m).pIn ≠ [] → 0 < (get s.l2 m).unfin) : PA (tickSm s m) (.sm m) ≤ Phi s := by
  unfold tickSm
  extract_lets g j sm lg r d p2 d1 t p fin s1 s2
  have hr : LPhi wB r.1 + 3 * r.2.1 + bn r.2.2 = LPhi wB lg + 3 * sm.fin := by
    simp only [r]
    split
    · rfl
    · split
      · rfl
      · rename_i hfin _ l' hs
        have := (LPhi_childSend wB _ _ _ hs).1
        simp only [bn_true]
        omega
  have hd : LPhi wW d.1 + bn d.2 = LPhi wW (get s.l2 m) ∧ d.1.pIn = (get s.l2 m).pIn ∧
      d.1.unfin = (get s.l2 m).unfin := LPhi_dispatch wW wW_ge (get s.l2 m)
  have hp2 : p2 = d.2 := by simp only [p2, hl]; rfl
  have ht : LPhi wB t.1 + LPhi wW t.2.1 + 3 * t.2.2.1 + bn t.2.2.2.2.1 ≤ LPhi wB r.1 + LPhi wW d.1 + 3 * r.2.1
      ∧ (t.2.1.pIn ≠ [] → 0 < t.2.1.unfin) := by
    simp only [t, d1]
    split
    · refine ⟨by simp only [bn_false]; omega, ?_⟩
      show d.1.pIn ≠ [] → 0 < d.1.unfin
      rw [hd.2.1, hd.2.2]; exact hn
    · rename_i k lg' wf hct
      have hw := (LPhi_childTake wB _ _ _ _ _ hct).1
      have hacc := LPhi_accept wW d.1 k
      simp only [wB] at hw
      dsimp only
      refine ⟨?_, ?_⟩
      · simp only [hl, Bool.not_false, Bool.true_and, bn_true]
        by_cases hk : k.isEmpty = true <;> simp only [hk, Bool.false_eq_true, ↓reduceIte] at hacc ⊢ <;> omega
      · intro h
        have := hn (by rw [← hd.2.1]; exact h)
        rw [← hd.2.2] at this
        omega
  have hp : LPhi wW p.1 + bn p.2.1 + (if (p.2.1 && p.2.2.1) = true then 3 else 0) = LPhi wW t.2.1 :=
    LPhi_procUp wW t.2.1 ht.2
  have hfin : 3 * fin = 3 * t.2.2.1 + (if (p.2.1 && p.2.2.1) = true then 3 else 0) := by
    simp only [fin]
    split <;> omega
  have hb := bn_or4 r.2.2 p2 t.2.2.2.2.1 p.2.1
  have hbp : bn p2 = bn d.2 := by rw [hp2]
  have key1 : PA s1 (.sm m) ≤ Phi s := by
    refine PA_sm s g m lg _ (get s.l2 m) _ sm _ rfl rfl rfl ?_
    show LPhi wB t.1 + LPhi wW p.1 + 3 * fin + bn (r.2.2 || p2 || t.2.2.2.2.1 || p.2.1)
      ≤ LPhi wB lg + LPhi wW (get s.l2 m) + 3 * sm.fin
    omega
  have key2 : PA s2 (.sm m) ≤ Phi s := by
    simp only [s2]
    apply PA_ite
    · rw [PA_wmSm_others, PA_wakeGpu _ _ _ (by intro h; cases h)]; exact key1
    · exact key1
  apply PA_ite
  · rw [PA_wmSub _ _ _ _ (by intro _ h; cases h)]; exact key2
  · exact key2

/-! ## a tick without progress wakes nobody -/

theorem AW_wakeGpu (s : Sys) (k : Nat) (e : Ev) (h : e ≠ .gpu k) : awakeOf (wakeGpu s k) e = awakeOf s e := by
  cases e with
  | gpu g =>
    have : g ≠ k := fun e => h (by rw [e])
    simp only [awakeOf, wakeGpu_awake, this, decide_false, Bool.or_false]
  | _ => rfl

theorem AW_wakeSm (s : Sys) (k : Nat) (e : Ev) (h : e ≠ .sm k) : awakeOf (wakeSm s k) e = awakeOf s e := by
  cases e with
  | sm g =>
    have : g ≠ k := fun e => h (by rw [e])
    simp only [awakeOf, wakeSm_awake, this, decide_false, Bool.or_false]
  | _ => rfl

theorem AW_wakeSub (s : Sys) (k : Nat) (e : Ev) (h : e ≠ .sub k) : awakeOf (wakeSub s k) e = awakeOf s e := by
  cases e with
  | sub g =>
    have : g ≠ k := fun e => h (by rw [e])
    simp only [awakeOf, wakeSub_awake, this, decide_false, Bool.or_false]
  | _ => rfl

theorem AW_wakeMany (wake : Sys → Nat → Sys) (e : Ev) (f : Nat → Nat) (ks : List Nat)
    (h : ∀ s, ∀ k ∈ ks, awakeOf (wake s (f k)) e = awakeOf s e) (s : Sys) :
    awakeOf (wakeMany wake f s ks) e = awakeOf s e := by
  unfold wakeMany
  induction ks generalizing s with
  | nil => rfl
  | cons k ks ih =>
    simp only [List.foldl_cons]
    rw [ih (fun s k' hk' => h s k' (List.mem_cons_of_mem _ hk')), h s k (List.mem_cons_self)]

theorem AW_wmGpu (f : Nat → Nat) (s : Sys) (ks : List Nat) (e : Ev) (h : ∀ k, e ≠ .gpu k) :
    awakeOf (wakeMany wakeGpu f s ks) e = awakeOf s e :=
  AW_wakeMany _ _ _ _ (fun s _ _ => AW_wakeGpu s _ e (h _)) s
theorem AW_wmSm (f : Nat → Nat) (s : Sys) (ks : List Nat) (e : Ev) (h : ∀ k, e ≠ .sm k) :
    awakeOf (wakeMany wakeSm f s ks) e = awakeOf s e :=
  AW_wakeMany _ _ _ _ (fun s _ _ => AW_wakeSm s _ e (h _)) s
theorem AW_wmSub (f : Nat → Nat) (s : Sys) (ks : List Nat) (e : Ev) (h : ∀ k, e ≠ .sub k) :
    awakeOf (wakeMany wakeSub f s ks) e = awakeOf s e :=
  AW_wakeMany _ _ _ _ (fun s _ _ => AW_wakeSub s _ e (h _)) s

theorem AW_wmGpu_others (s : Sys) (n g : Nat) :
    awakeOf (wakeMany wakeGpu id s (others n g)) (.gpu g) = awakeOf s (.gpu g) := by
  apply AW_wakeMany
  intro s k hk
  apply AW_wakeGpu
  intro e
  cases e
  exact (mem_others hk).2 rfl

theorem AW_wmSm_others (s : Sys) (S m : Nat) :
    awakeOf (wakeMany wakeSm (fun k => m / S * S + k) s (others S (m % S))) (.sm m) = awakeOf s (.sm m) := by
  apply AW_wakeMany
  intro s k hk
  apply AW_wakeSm
  intro e
  obtain ⟨h1, h2⟩ := mem_others hk
  have := (sub_index (m := m / S) (u := m) h1).1 (Ev.sm.inj e).symm
  exact h2 this.2

theorem AW_wmSub_others (s : Sys) (C u : Nat) :
    awakeOf (wakeMany wakeSub (fun k => u / C * C + k) s (others C (u % C))) (.sub u) = awakeOf s (.sub u) := by
  apply AW_wakeMany
  intro s k hk
  apply AW_wakeSub
  intro e
  obtain ⟨h1, h2⟩ := mem_others hk
  have := (sub_index (m := u / C) (u := u) h1).1 (Ev.sub.inj e).symm
  exact h2 this.2

theorem dispatch_false {α : Type} (l : Level α) (h : l.dispatch.2 = false) : l.dispatch.1 = l := by
  revert h
  unfold Level.dispatch
  split
  · split
    · intro h; simp at h
    · intro _; rfl
  · intro _; rfl

theorem procUp_false {α : Type} (l : Level α) (h : l.procUp.2.1 = false) :
    l.procUp = (l, false, false, false) := by
  revert h
  unfold Level.procUp
  split
  · intro _; rfl
  · intro h; simp at h

theorem noprog_tickDriver (s : Sys) :
    awakeOf (tickDriver s) .drv = false → ∀ e', e' ≠ .drv → awakeOf (tickDriver s) e' = awakeOf s e' := by
  unfold tickDriver
  extract_lets d p s1
  intro h
  have h1 : awakeOf s1 .drv = false := by
    rw [← h]; symm
    split
    · rw [AW_wmGpu _ _ _ _ (by intro _ h; cases h)]
    · rfl
  have h2 : (d.2 || p.2.1) = false := h1
  simp only [Bool.or_eq_false_iff] at h2
  have hd : d.1 = s.l0 := dispatch_false _ h2.1
  have hp : p = (d.1, false, false, false) := procUp_false _ h2.2
  have hpw : p.2.2.2 = false := by rw [hp]
  intro e' hne
  rw [if_neg (by rw [hpw]; simp)]
  cases e' with
  | drv => exact absurd rfl hne
  | c0 => show p.1.connAwake = s.l0.connAwake; rw [hp, hd]
  | _ => rfl

theorem noprog_tickGpu (s : Sys) (g : Nat) (hl : s.legacy = false) :
    awakeOf (tickGpu s g) (.gpu g) = false →
      ∀ e', e' ≠ .gpu g → awakeOf (tickGpu s g) e' = awakeOf s e' := by
  unfold tickGpu
  extract_lets gp r d p2 d1 t p fin s1 s2
  intro h
  have hs2 : awakeOf s2 (.gpu g) = awakeOf s1 (.gpu g) := by
    simp only [s2]; split
    · rw [AW_wmGpu_others]; rfl
    · rfl
  have h1 : awakeOf s1 (.gpu g) = false := by
    rw [← h, ← hs2]; symm
    split
    · rw [AW_wmSm _ _ _ _ (by intro _ h; cases h)]
    · rfl
  have h2 : (r.2.2 || p2 || t.2.2.2.1 || p.2.1) = false := by
    rw [← h1]; show _ = (get (upd s.gpus g _) g).awake; rw [get_upd_self]
  simp only [Bool.or_eq_false_iff] at h2
  obtain ⟨⟨⟨hr, hp2⟩, ht⟩, hp⟩ := h2
  have hd2 : d.2 = false := by simpa [p2, hl] using hp2
  have hrE : r.1 = s.l0 := by
    revert hr; simp only [r]; split
    · intro _; rfl
    · split
      · intro _; rfl
      · intro h; simp at h
  have htE : t = (r.1, d.1, r.2.1, false, false) := by
    revert ht; simp only [t]; split
    · intro _; rfl
    · intro h; simp at h
  have hdE : d.1 = get s.l1 g := dispatch_false _ hd2
  have hpE : p = (t.2.1, false, false, false) := procUp_false _ hp
  intro e' hne
  have c1 : p.2.2.2 = false := by rw [hpE]
  have c2 : t.2.2.2.2 = false := by rw [htE]
  rw [if_neg (by rw [c1]; simp)]
  simp only [s2]; rw [if_neg (by rw [c2]; simp)]
  cases e' with
  | gpu g' =>
    have : g' ≠ g := fun e => hne (by rw [e])
    show (get (upd s.gpus g _) g').awake = _
    rw [get_upd_ne _ _ _ _ this]; rfl
  | c0 => show t.1.connAwake = s.l0.connAwake; rw [htE, hrE]
  | c1 g' =>
    show (get (upd s.l1 g p.1) g').connAwake = (get s.l1 g').connAwake
    rw [get_upd]; split
    · rename_i e; rw [e, hpE, htE, hdE]
    · rfl
  | _ => rfl

theorem noprog_tickSm (s : Sys) (m : Nat) (hl : s.legacy = false) :
    awakeOf (tickSm s m) (.sm m) = false →
      ∀ e', e' ≠ .sm m → awakeOf (tickSm s m) e' = awakeOf s e' := by
  unfold tickSm
  extract_lets g j sm lg r d p2 d1 t p fin s1 s2
  intro h
  have hs2 : awakeOf s2 (.sm m) = awakeOf s1 (.sm m) := by
    simp only [s2]; split
    · rw [AW_wmSm_others, AW_wakeGpu _ _ _ (by intro h; cases h)]
    · rfl
  have h1 : awakeOf s1 (.sm m) = false := by
    rw [← h, ← hs2]; symm
    split
    · rw [AW_wmSub _ _ _ _ (by intro _ h; cases h)]
    · rfl
  have h2 : (r.2.2 || p2 || t.2.2.2.2.1 || p.2.1) = false := by
    rw [← h1]; show _ = (get (upd s.sms m _) m).awake; rw [get_upd_self]
  simp only [Bool.or_eq_false_iff] at h2
  obtain ⟨⟨⟨hr, hp2⟩, ht⟩, hp⟩ := h2
  have hd2 : d.2 = false := by simpa [p2, hl] using hp2
  have hrE : r.1 = lg := by
    revert hr; simp only [r]; split
    · intro _; rfl
    · split
      · intro _; rfl
      · intro h; simp at h
  have htE : t = (r.1, d.1, r.2.1, sm.warps, false, false) := by
    revert ht; simp only [t]; split
    · intro _; rfl
    · intro h; simp at h
  have hdE : d.1 = get s.l2 m := dispatch_false _ hd2
  have hpE : p = (t.2.1, false, false, false) := procUp_false _ hp
  intro e' hne
  have c1 : p.2.2.2 = false := by rw [hpE]
  have c2 : t.2.2.2.2.2 = false := by rw [htE]
  rw [if_neg (by rw [c1]; simp)]
  simp only [s2]; rw [if_neg (by rw [c2]; simp)]
  cases e' with
  | sm m' =>
    have : m' ≠ m := fun e => hne (by rw [e])
    show (get (upd s.sms m _) m').awake = _
    rw [get_upd_ne _ _ _ _ this]; rfl
  | c1 g' =>
    show (get (upd s.l1 g t.1) g').connAwake = (get s.l1 g').connAwake
    rw [get_upd]; split
    · rename_i e; rw [e, htE, hrE]
    · rfl
  | c2 m' =>
    show (get (upd s.l2 m p.1) m').connAwake = (get s.l2 m').connAwake
    rw [get_upd]; split
    · rename_i e; rw [e, hpE, htE, hdE]
    · rfl
  | _ => rfl

theorem noprog_tickSub (s : Sys) (u : Nat) :
    awakeOf (tickSub s u) (.sub u) = false →
      ∀ e', e' ≠ .sub u → awakeOf (tickSub s u) e' = awakeOf s e' := by
  unfold tickSub
  extract_lets m j sc lm r q
  split
  · intro h
    have h2 : (r.2.2 || q.2.2) = false := by
      rw [← h]; show _ = (get (upd s.subs u _) u).awake; rw [get_upd_self]
    simp only [Bool.or_eq_false_iff] at h2
    have hrE : r.1 = lm := by
      have hr := h2.1
      revert hr; simp only [r]; split
      · intro _; rfl
      · split
        · intro _; rfl
        · intro h; simp at h
    intro e' hne
    cases e' with
    | sub u' =>
      have : u' ≠ u := fun e => hne (by rw [e])
      show (get (upd s.subs u _) u').awake = _
      rw [get_upd_ne _ _ _ _ this]; rfl
    | c2 m' =>
      show (get (upd s.l2 m r.1) m').connAwake = (get s.l2 m').connAwake
      rw [get_upd]; split
      · rename_i e; rw [e, hrE]
      · rfl
    | _ => rfl
  · intro h
    exfalso
    dsimp only at h
    split at h
    · rw [AW_wmSub_others, AW_wakeSm _ _ _ (by intro h; cases h)] at h
      simp [awakeOf, get_upd_self] at h
    · simp [awakeOf, get_upd_self] at h

theorem fwdDown_zero_wake {α : Type} (pOut : List (Nat × α)) (cIn : List (List α))
    (h : (Level.fwdDown pOut cIn).2.2.2 = 0) : (Level.fwdDown pOut cIn).2.2.1 = [] := by
  cases pOut with
  | nil => rfl
  | cons p rest =>
    obtain ⟨i, u⟩ := p
    unfold Level.fwdDown at h ⊢
    simp only at h ⊢
    split
    · rfl
    · rename_i hf
      rw [if_neg hf] at h
      simp at h

theorem fwdPort_noprog_wakes {α : Type} (o : Level.ConnOut α) (p : Nat)
    (h : (Level.fwdPort o p).progress = false) :
    (Level.fwdPort o p).wakePar = o.wakePar ∧ (Level.fwdPort o p).wakeChi = o.wakeChi := by
  cases p with
  | zero =>
    simp only [Level.fwdPort, Bool.or_eq_false_iff, bne_eq_false_iff_eq] at h
    have := fwdDown_zero_wake _ _ h.2
    simp [Level.fwdPort, h.2, this]
  | succ k =>
    simp only [Level.fwdPort, Bool.or_eq_false_iff, bne_eq_false_iff_eq] at h
    simp [Level.fwdPort, h.2]

theorem foldl_noprog_wakes {α : Type} (ps : List Nat) (o : Level.ConnOut α)
    (h : (ps.foldl (fun o p => Level.fwdPort o p) o).progress = false) :
    (ps.foldl (fun o p => Level.fwdPort o p) o).wakePar = o.wakePar ∧
    (ps.foldl (fun o p => Level.fwdPort o p) o).wakeChi = o.wakeChi := by
  induction ps generalizing o with
  | nil => exact ⟨rfl, rfl⟩
  | cons q ps ih =>
    simp only [List.foldl_cons] at h ⊢
    obtain ⟨a1, a2⟩ := ih _ h
    obtain ⟨b1, b2⟩ := fwdPort_noprog_wakes o q (foldl_noprogress ps _ h).1
    exact ⟨a1.trans b1, a2.trans b2⟩

/-- a connection tick without progress wakes nobody -/
theorem connTick_noprog_wakes {α : Type} (l : Level α) (h : l.connTick.l.connAwake = false) :
    l.connTick.wakePar = false ∧ l.connTick.wakeChi = [] := by
  have hf : connFold l = ((List.range (l.n + 1)).map (fun i => (i + l.rr) % (l.n + 1))).foldl
      (fun o p => Level.fwdPort o p) { l := l } := by
    rw [List.foldl_map]; rfl
  have h' : (connFold l).progress = false := h
  rw [hf] at h'
  have := foldl_noprog_wakes _ _ h'
  rw [← hf] at this
  exact this

theorem noprog_tickConn0 (s : Sys) :
    awakeOf (tickConn0 s) .c0 = false → ∀ e', e' ≠ .c0 → awakeOf (tickConn0 s) e' = awakeOf s e' := by
  unfold tickConn0
  extract_lets o s1
  intro h
  rw [AW_wmGpu _ _ _ _ (by intro _ h; cases h)] at h
  obtain ⟨w1, w2⟩ := connTick_noprog_wakes s.l0 h
  intro e' hne
  have : wakeMany wakeGpu id s1 o.wakeChi = s1 := by
    show wakeMany wakeGpu id s1 s.l0.connTick.wakeChi = s1
    rw [w2]; rfl
  rw [this]
  cases e' with
  | c0 => exact absurd rfl hne
  | drv =>
    show (s.dAwake || s.l0.connTick.wakePar) = s.dAwake
    rw [w1, Bool.or_false]
  | _ => rfl

theorem noprog_tickConn1 (s : Sys) (g : Nat) :
    awakeOf (tickConn1 s g) (.c1 g) = false →
      ∀ e', e' ≠ .c1 g → awakeOf (tickConn1 s g) e' = awakeOf s e' := by
  unfold tickConn1
  extract_lets o s1 s2
  intro h
  rw [AW_wmSm _ _ _ _ (by intro _ h; cases h)] at h
  have h1 : awakeOf s1 (.c1 g) = false := by
    rw [← h]; symm
    simp only [s2]; split
    · rw [AW_wakeGpu _ _ _ (by intro h; cases h)]
    · rfl
  have h2 : (get s.l1 g).connTick.l.connAwake = false := by
    rw [← h1]; show _ = (get (upd s.l1 g _) g).connAwake; rw [get_upd_self]
  obtain ⟨w1, w2⟩ := connTick_noprog_wakes _ h2
  intro e' hne
  have e2 : s2 = s1 := by
    show (if (get s.l1 g).connTick.wakePar = true then wakeGpu s1 g else s1) = s1
    rw [w1]; rfl
  have : wakeMany wakeSm (fun k => g * s.S + k) s2 o.wakeChi = s1 := by
    show wakeMany wakeSm (fun k => g * s.S + k) s2 (get s.l1 g).connTick.wakeChi = s1
    rw [w2, e2]; rfl
  rw [this]
  cases e' with
  | c1 g' =>
    have : g' ≠ g := fun e => hne (by rw [e])
    show (get (upd s.l1 g _) g').connAwake = _
    rw [get_upd_ne _ _ _ _ this]; rfl
  | _ => rfl

theorem noprog_tickConn2 (s : Sys) (m : Nat) :
    awakeOf (tickConn2 s m) (.c2 m) = false →
      ∀ e', e' ≠ .c2 m → awakeOf (tickConn2 s m) e' = awakeOf s e' := by
  unfold tickConn2
  extract_lets o s1 s2
  intro h
  rw [AW_wmSub _ _ _ _ (by intro _ h; cases h)] at h
  have h1 : awakeOf s1 (.c2 m) = false := by
    rw [← h]; symm
    simp only [s2]; split
    · rw [AW_wakeSm _ _ _ (by intro h; cases h)]
    · rfl
  have h2 : (get s.l2 m).connTick.l.connAwake = false := by
    rw [← h1]; show _ = (get (upd s.l2 m _) m).connAwake; rw [get_upd_self]
  obtain ⟨w1, w2⟩ := connTick_noprog_wakes _ h2
  intro e' hne
  have e2 : s2 = s1 := by
    show (if (get s.l2 m).connTick.wakePar = true then wakeSm s1 m else s1) = s1
    rw [w1]; rfl
  have : wakeMany wakeSub (fun k => m * s.C + k) s2 o.wakeChi = s1 := by
    show wakeMany wakeSub (fun k => m * s.C + k) s2 (get s.l2 m).connTick.wakeChi = s1
    rw [w2, e2]; rfl
  rw [this]
  cases e' with
  | c2 m' =>
    have : m' ≠ m := fun e => hne (by rw [e])
    show (get (upd s.l2 m _) m').connAwake = _
    rw [get_upd_ne _ _ _ _ this]; rfl
  | _ => rfl

/-- a tick that reports no progress changes no flag but its own -/
theorem noprog_step (s : Sys) (e : Ev) (hl : s.legacy = false) (h : awakeOf (step s e) e = false)
    (e' : Ev) (hne : e' ≠ e) : awakeOf (step s e) e' = awakeOf s e' := by
  cases e with
  | drv => exact noprog_tickDriver s h e' hne
  | gpu g => exact noprog_tickGpu s g hl h e' hne
  | sm m => exact noprog_tickSm s m hl h e' hne
  | sub u => exact noprog_tickSub s u h e' hne
  | c0 => exact noprog_tickConn0 s h e' hne
  | c1 g => exact noprog_tickConn1 s g h e' hne
  | c2 m => exact noprog_tickConn2 s m h e' hne

/-- every tick: new potential + (1 if the ticking component reported progress) ≤ old potential -/
theorem PA_step (s : Sys) (e : Ev) (hl : s.legacy = false) (hn : NoGhost s)
    (he : e.InRange s.G s.S s.C) : PA (step s e) e ≤ Phi s := by
  cases e with
  | drv => exact PA_tickDriver s hn.1
  | gpu g => exact PA_tickGpu s g hl (hn.2.1 g he)
  | sm m => exact PA_tickSm s m hl (hn.2.2 m he)
  | sub u => exact PA_tickSub s u hl
  | c0 => exact PA_tickConn0 s
  | c1 g => exact PA_tickConn1 s g
  | c2 m => exact PA_tickConn2 s m

end Meas

open Meas in
/-- no tick raises the potential -/
theorem phi_step_le (s : Sys) (e : Ev) (hl : s.legacy = false) (hn : NoGhost s)
    (he : e.InRange s.G s.S s.C) : Phi (step s e) ≤ Phi s := by
  have := PA_step s e hl hn he
  unfold PA at this
  omega

open Meas in
/-- a tick that reports progress (the ticking component is awake afterwards; for a connection:
    `connAwake` afterwards) strictly lowers the potential -/
theorem phi_step_lt (s : Sys) (e : Ev) (hl : s.legacy = false) (hn : NoGhost s)
    (he : e.InRange s.G s.S s.C) (hp : awakeOf (step s e) e = true) : Phi (step s e) < Phi s := by
  have := PA_step s e hl hn he
  unfold PA at this
  rw [hp] at this
  simp only [bn_true] at this
  omega

/-! ## counting awake components -/

/-- number of components and connections -/
def N (s : Sys) : Nat := (allEvs s).length
/-- number of awake components and connections (= pending tick events) -/
def awakeCount (s : Sys) : Nat := ((allEvs s).filter (awakeOf s)).length
/-- the termination measure -/
def M (s : Sys) : Nat := Phi s * (N s + 1) + awakeCount s

/-- a strict run: every event ticks a component that is awake at that moment -/
def Strict : Sys → List Ev → Prop
  | _, [] => True
  | s, e :: es => awakeOf s e = true ∧ Strict (step s e) es

namespace Meas

theorem allEvs_shape {a b : Sys} (h : Shape a b) : allEvs b = allEvs a := by
  unfold allEvs
  rw [h.G, h.S, h.C]

theorem count_map_inj (f : Nat → Ev) (hf : ∀ a b, f a = f b → a = b) (l : List Nat) (a : Nat) :
    (l.map f).count (f a) = l.count a := by
  induction l with
  | nil => rfl
  | cons x xs ih =>
    simp only [List.map_cons, List.count_cons, ih]
    by_cases hx : x = a
    · subst hx; simp
    · have : f x ≠ f a := fun e => hx (hf _ _ e)
      simp [hx, this]

theorem count_map_ne (f : Nat → Ev) (e : Ev) (h : ∀ a, f a ≠ e) (l : List Nat) :
    (l.map f).count e = 0 := by
  induction l with
  | nil => rfl
  | cons x xs ih => simp [ih, h x]

theorem count_allEvs (s : Sys) (e : Ev) (he : e.InRange s.G s.S s.C) : (allEvs s).count e = 1 := by
  have i1 := count_map_inj Ev.gpu (fun _ _ h => Ev.gpu.inj h)
  have i2 := count_map_inj Ev.c1 (fun _ _ h => Ev.c1.inj h)
  have i3 := count_map_inj Ev.sm (fun _ _ h => Ev.sm.inj h)
  have i4 := count_map_inj Ev.c2 (fun _ _ h => Ev.c2.inj h)
  have i5 := count_map_inj Ev.sub (fun _ _ h => Ev.sub.inj h)
  have n1 := fun e h => count_map_ne Ev.gpu e h
  have n2 := fun e h => count_map_ne Ev.c1 e h
  have n3 := fun e h => count_map_ne Ev.sm e h
  have n4 := fun e h => count_map_ne Ev.c2 e h
  have n5 := fun e h => count_map_ne Ev.sub e h
  unfold allEvs
  simp only [List.count_append]
  cases e with
  | drv =>
    rw [n1 _ (by intro _ h; cases h), n2 _ (by intro _ h; cases h), n3 _ (by intro _ h; cases h),
      n4 _ (by intro _ h; cases h), n5 _ (by intro _ h; cases h)]
    decide
  | c0 =>
    rw [n1 _ (by intro _ h; cases h), n2 _ (by intro _ h; cases h), n3 _ (by intro _ h; cases h),
      n4 _ (by intro _ h; cases h), n5 _ (by intro _ h; cases h)]
    decide
  | gpu g =>
    have he' : g < s.G := he
    rw [i1, n2 _ (by intro _ h; cases h), n3 _ (by intro _ h; cases h),
      n4 _ (by intro _ h; cases h), n5 _ (by intro _ h; cases h), count_range, if_pos he']
    simp
  | c1 g =>
    have he' : g < s.G := he
    rw [i2, n1 _ (by intro _ h; cases h), n3 _ (by intro _ h; cases h),
      n4 _ (by intro _ h; cases h), n5 _ (by intro _ h; cases h), count_range, if_pos he']
    simp
  | sm m =>
    have he' : m < s.G * s.S := he
    rw [i3, n1 _ (by intro _ h; cases h), n2 _ (by intro _ h; cases h),
      n4 _ (by intro _ h; cases h), n5 _ (by intro _ h; cases h), count_range, if_pos he']
    simp
  | c2 m =>
    have he' : m < s.G * s.S := he
    rw [i4, n1 _ (by intro _ h; cases h), n2 _ (by intro _ h; cases h),
      n3 _ (by intro _ h; cases h), n5 _ (by intro _ h; cases h), count_range, if_pos he']
    simp
  | sub u =>
    have he' : u < s.G * s.S * s.C := he
    rw [i5, n1 _ (by intro _ h; cases h), n2 _ (by intro _ h; cases h),
      n3 _ (by intro _ h; cases h), n4 _ (by intro _ h; cases h), count_range, if_pos he']
    simp

theorem filter_length_add_count (l : List Ev) (p q : Ev → Bool) (x : Ev) (hx : q x = true)
    (hpx : p x = false) (h : ∀ y, y ≠ x → p y = q y) :
    (l.filter p).length + l.count x = (l.filter q).length := by
  induction l with
  | nil => rfl
  | cons y ys ih =>
    by_cases hy : y = x
    · subst hy
      simp only [List.filter_cons, hx, hpx, List.count_cons_self, if_true, List.length_cons]
      simp
      omega
    · have := h y hy
      rw [List.count_cons_of_ne (fun e => hy e)]
      simp only [List.filter_cons, this]
      cases q y <;> simp <;> omega

end Meas

theorem N_step (s : Sys) (e : Ev) : N (step s e) = N s := by
  unfold N
  rw [Meas.allEvs_shape (shape_step s e)]

theorem awakeCount_le (s : Sys) : awakeCount s ≤ N s := List.length_filter_le _ _

/-- a tick without progress of an in-range awake component puts exactly that component to sleep -/
theorem awakeCount_noprog (s : Sys) (e : Ev) (hl : s.legacy = false) (he : e.InRange s.G s.S s.C)
    (ha : awakeOf s e = true) (hp : awakeOf (step s e) e = false) :
    awakeCount (step s e) + 1 = awakeCount s := by
  unfold awakeCount
  rw [Meas.allEvs_shape (shape_step s e)]
  have := Meas.filter_length_add_count (allEvs s) (awakeOf (step s e)) (awakeOf s) e ha hp
    (fun y hy => Meas.noprog_step s e hl hp y hy)
  rw [Meas.count_allEvs s e he] at this
  exact this

/-- the measure strictly decreases on every tick of an in-range awake component -/
theorem M_step_lt (s : Sys) (e : Ev) (hl : s.legacy = false) (hn : NoGhost s)
    (he : e.InRange s.G s.S s.C) (ha : awakeOf s e = true) : M (step s e) < M s := by
  unfold M
  rw [N_step]
  cases hp : awakeOf (step s e) e with
  | false =>
    have h1 := phi_step_le s e hl hn he
    have h2 := awakeCount_noprog s e hl he ha hp
    have h3 := Nat.mul_le_mul_right (N s + 1) h1
    omega
  | true =>
    have h1 := phi_step_lt s e hl hn he hp
    have h2 := awakeCount_le (step s e)
    rw [N_step] at h2
    have h3 := Nat.mul_le_mul_right (N s + 1) (Nat.succ_le_of_lt h1)
    rw [Nat.succ_mul] at h3
    omega

theorem strict_run_bounded_gen (s : Sys) (evs : List Ev) (hl : s.legacy = false)
    (hr : ∀ e ∈ evs, e.InRange s.G s.S s.C) (hinv : ∀ k, NoGhost (run s (evs.take k)))
    (hs : Strict s evs) : evs.length ≤ M s := by
  induction evs generalizing s with
  | nil => exact Nat.zero_le _
  | cons e es ih =>
    have hsh := shape_step s e
    have h0 : NoGhost s := hinv 0
    have hlt := M_step_lt s e hl h0 (hr e (List.mem_cons_self ..)) hs.1
    have := ih (step s e) (hsh.legacy.trans hl)
      (by intro e' he'; rw [hsh.G, hsh.S, hsh.C]; exact hr e' (List.mem_cons_of_mem _ he'))
      (fun k => hinv (k + 1)) hs.2
    simp only [List.length_cons]
    omega

/-- **Finiteness of strict runs** (repaired code): a run in which every event ticks an in-range
    component that is awake at that moment has at most `M init` events. -/
theorem strict_run_bounded (G S C : Nat) (trace : List Kernel) (evs : List Ev)
    (hr : ∀ e ∈ evs, e.InRange G S C)
    (hinv : ∀ k, NoGhost (run (init false G S C trace) (evs.take k)))
    (hs : Strict (init false G S C trace) evs) : evs.length ≤ M (init false G S C trace) :=
  strict_run_bounded_gen _ evs rfl hr hinv hs

/-- the accounting invariant excludes ghost completions -/
theorem Inv1.noGhost {s : Sys} (h : Inv1 s) : NoGhost s :=
  ⟨fun hp => h.lv0.unfin_pos hp, fun g hg hp => (h.lv1 g hg).unfin_pos hp,
   fun m hm hp => (h.lv2 m hm).unfin_pos hp⟩

/-- **Finiteness of strict runs**, with the invariant discharged (`inv1_run'`): from the initial
    state of the repaired code, every strict run of in-range events has at most `M init` events. -/
theorem strict_run_bounded' (G S C : Nat) (trace : List Kernel) (evs : List Ev)
    (hr : ∀ e ∈ evs, e.InRange G S C) (hs : Strict (init false G S C trace) evs) :
    evs.length ≤ M (init false G S C trace) :=
  strict_run_bounded G S C trace evs hr (fun k => (inv1_run' G S C trace (evs.take k)).noGhost) hs

end C20
