import MgpuProofs.C19SysInv
import MgpuProofs.C19SysCp
import MgpuProofs.C19SysComp
import MgpuProofs.C19SysDrv1
import MgpuProofs.C19SysDrv2
import MgpuProofs.C19SysDrv3
import MgpuProofs.C19SysDrv4
import MgpuProofs.C19SysWorld
/-! # C19 — the closed system: every move preserves the invariant -/
namespace C19
namespace SY
open CP (Cp Cls K Sub Cmd Ans)
open DR (Drv MmuReq MigCmd)

theorem upd_same {α : Type} (f : Nat → α) (g : Nat) (v : α) : upd f g v g = v := by simp [upd]
theorem upd_other {α : Type} (f : Nat → α) (g g' : Nat) (v : α) (h : g' ≠ g) : upd f g v g' = f g' := by
  simp [upd, h]
theorem upd_upd {α : Type} (f : Nat → α) (g : Nat) (v v' : α) : upd (upd f g v) g v' = upd f g v' := by
  funext x; simp only [upd]; split <;> rfl
theorem upd_id {α : Type} (f : Nat → α) (g : Nat) : upd f g (f g) = f := by
  funext x; simp only [upd]; split
  · rename_i h; rw [h]
  · rfl

/-! ## targets -/

theorem targets_nodup {s : Sys} {r : MmuReq} (hr : ReqOK s r) (p : PK) : (targets p s.drv.ngpu r).Nodup := by
  cases p <;> simp only [targets]
  · exact List.nodup_range
  · exact hr.accNd
  · exact List.nodup_nil
  · exact hr.accNd
  · exact List.nodup_range

theorem accT_lt {s : Sys} {r : MmuReq} (hr : ReqOK s r) {g : Nat} (hg : g ∈ accT r) : g < s.drv.ngpu := by
  simp only [accT, List.mem_map] at hg
  obtain ⟨a, ha, rfl⟩ := hg
  have := hr.accIn a ha
  omega

theorem pre_of_target {s : Sys} {r : MmuReq} (hr : ReqOK s r) {p : PK} (hp : p ≠ .mig) {g : Nat}
    (hg : g ∈ targets p s.drv.ngpu r) :
    Pre (cmdOf p r) (flagsBefore (some p) s.drv.ngpu (accT r) g).1 (flagsBefore (some p) s.drv.ngpu (accT r) g).2 := by
  cases p
  · simp [Pre, cmdOf, flagsBefore]
  · simp [Pre, cmdOf, flagsBefore]
  · exact absurd rfl hp
  · simp only [targets] at hg
    simp [Pre, cmdOf, flagsBefore, hg]
  · simp only [targets, List.mem_range] at hg
    simp [Pre, cmdOf, flagsBefore, hg]

/-- the parts of a split of duplicate-free targets are disjoint -/
theorem split_nodup {σ : Split} {T : List Nat} (hp : σ.all.Perm T) (hn : T.Nodup) : σ.all.Nodup :=
  hp.nodup_iff.mpr hn

/-! ## a move that only touches GPU `g` (its command processor and components) -/

/-- `Bcast` after GPU `g`, which is at the GPU (`g ∈ atG`), got a new state of the same command -/
theorem bcast_busy_update {s : Sys} {p : PK} {r : MmuReq} {σ : Split} {loc : Nat → BLoc} (hb : Bcast s p r σ loc)
    (g : Nat) (hg : g ∈ σ.atG) (c' : Cp) (m' : Comps) (loc' : BLoc)
    (hgs : GS (cmdOf p r) loc' (flagsBefore (some p) s.drv.ngpu (accT r) g).1
      (flagsBefore (some p) s.drv.ngpu (accT r) g).2 c' m') :
    Bcast { s with cp := upd s.cp g c', cm := upd s.cm g m' } p r σ (upd loc g loc') := by
  refine ⟨hb.perm, hb.toSend, hb.gpuOut, hb.gpuIn, hb.pos, ?_, ?_⟩
  · intro g' hg'
    by_cases e : g' = g
    · subst e; simp only [upd_same]; exact hgs
    · simp only [upd_other _ _ _ _ e]; exact hb.busy g' hg'
  · intro g' hg'
    by_cases e : g' = g
    · subst e; exact absurd hg hg'
    · simp only [upd_other _ _ _ _ e]; exact hb.idle g' hg'

/-! ## the predicates that do not look at the GPUs: they read only a few fields -/

theorem ReqOK.fr {s s' : Sys} {r : MmuReq} (h1 : s'.drv.pids = s.drv.pids) (h2 : s'.drv.ngpu = s.drv.ngpu)
    (h3 : s'.drv.alloc.lg = s.drv.alloc.lg) (a : ReqOK s r) : ReqOK s' r := by
  obtain ⟨a1, a2, a3, a4, a5, a6, a7, a8, a9, a10, a11⟩ := a
  constructor <;> (try rw [h1]) <;> (try rw [h2]) <;> (try rw [h3]) <;> assumption

theorem PagesOK.fr {s s' : Sys} {r : MmuReq} (h2 : s'.drv.ngpu = s.drv.ngpu)
    (h3 : s'.drv.alloc = s.drv.alloc) (a : PagesOK s r) : PagesOK s' r := by
  obtain ⟨a1, a2⟩ := a
  constructor <;> (try rw [h2]) <;> (try rw [h3]) <;> assumption

theorem Rehomed.fr {s s' : Sys} {r : MmuReq} (h1 : s'.drv.migLog = s.drv.migLog) (h2 : s'.drv.ngpu = s.drv.ngpu)
    (h3 : s'.drv.alloc = s.drv.alloc) (a : Rehomed s r) : Rehomed s' r := by
  obtain ⟨a1⟩ := a
  constructor; rw [h1, h2, h3]; assumption

theorem MigOK.fr {s s' : Sys} {r : MmuReq} {m : MigCmd} (h : s'.drv.migLog = s.drv.migLog) (hw : s'.w = s.w)
    (a : MigOK s r m) : MigOK s' r m := by
  obtain ⟨a1, a2, a3, a4, a5, a6⟩ := a
  constructor <;> (try rw [h]) <;> (try rw [hw]) <;> assumption

theorem WorldInv.congr {s s' : Sys} {ws : WSt} (hw : s'.w = s.w) (hb : s'.back = s.back) (a : WorldInv s ws) :
    WorldInv s' ws := by
  obtain ⟨a1, a2, a3⟩ := a
  refine ⟨by rw [hw]; exact a1, ?_, by rw [hb]; exact a3⟩
  cases ws <;> simp only [liveOK] at a2 ⊢ <;> rw [hw] <;> exact a2

theorem MmuInv.fr {s s' : Sys} {pc : List Nat} (h1 : s'.drv.lost = s.drv.lost) (h2 : s'.drv.taken = s.drv.taken)
    (h3 : s'.drv.mmuIn = s.drv.mmuIn) (h4 : s'.drv.mmuOut = s.drv.mmuOut) (h5 : s'.drv.answered = s.drv.answered)
    (h6 : s'.drv.toMMU = s.drv.toMMU) (h7 : s'.mmuSent = s.mmuSent) (h8 : s'.mmuGot = s.mmuGot)
    (a : MmuInv s pc) : MmuInv s' pc := by
  obtain ⟨a1, a2, a3, a4, a5, a6, a7, a8⟩ := a
  constructor <;> (try rw [h1]) <;> (try rw [h2]) <;> (try rw [h3]) <;> (try rw [h4]) <;> (try rw [h5]) <;>
    (try rw [h6]) <;> (try rw [h7]) <;> (try rw [h8]) <;> assumption

theorem ReqOK.congr {s s' : Sys} {r : MmuReq} (h : s'.drv = s.drv) (a : ReqOK s r) : ReqOK s' r :=
  a.fr (by rw [h]) (by rw [h]) (by rw [h])
theorem PagesOK.congr {s s' : Sys} {r : MmuReq} (h : s'.drv = s.drv) (a : PagesOK s r) : PagesOK s' r :=
  a.fr (by rw [h]) (by rw [h])
theorem Rehomed.congr {s s' : Sys} {r : MmuReq} (h : s'.drv = s.drv) (a : Rehomed s r) : Rehomed s' r :=
  a.fr (by rw [h]) (by rw [h]) (by rw [h])
theorem MigOK.congr {s s' : Sys} {r : MmuReq} {m : MigCmd} (h : s'.drv = s.drv) (hw : s'.w = s.w) (a : MigOK s r m) :
    MigOK s' r m := a.fr (by rw [h]) hw
theorem MmuInv.congr {s s' : Sys} {pc : List Nat} (h : s'.drv = s.drv) (h1 : s'.mmuSent = s.mmuSent)
    (h2 : s'.mmuGot = s.mmuGot) (a : MmuInv s pc) : MmuInv s' pc :=
  a.fr (by rw [h]) (by rw [h]) (by rw [h]) (by rw [h]) (by rw [h]) (by rw [h]) h1 h2

/-! ## a move local to one GPU -/

/-- what a move that only touches the command processor and the components of one GPU must satisfy -/
structure LocalOK (c : Cp) (m : Comps) (c' : Cp) (m' : Comps) : Prop where
  cfg : SameCfg c c'
  idle : ∀ rq gq, GIdle rq gq c m → c' = c ∧ m' = m
  busy : CfgOK c → ∀ x loc rq gq, GS x loc rq gq c m →
    ∃ loc', GS x loc' rq gq c' m' ∧ (loc' = .pmcWait ↔ loc = .pmcWait)

theorem flWs_atG {m : MigCmd} {loc loc' : BLoc} {ws : WSt} (hi : loc' = .pmcWait ↔ loc = .pmcWait)
    (h : flWs (some (m, .atG loc)) ws) : flWs (some (m, .atG loc')) ws := by
  by_cases e : loc = .pmcWait
  · have e' := hi.mpr e
    subst e; subst e'; exact h
  · have e' : loc' ≠ .pmcWait := fun x => e (hi.mp x)
    cases loc <;> cases loc' <;> simp_all [flWs]

theorem inv_local {s : Sys} (h : Inv s) (g : Nat) (c' : Cp) (m' : Comps)
    (hl : LocalOK (s.cp g) (s.cm g) c' m') :
    Inv { s with cp := upd s.cp g c', cm := upd s.cm g m' } := by
  obtain ⟨cfg, ng, caps, nf, frames, lg, logIds, pending, ph, rel⟩ := h
  have hcfg : ∀ g', CfgOK (upd s.cp g c' g') := by
    intro g'
    by_cases e : g' = g
    · subst e; rw [upd_same]; exact cfgOK_of_same hl.cfg (cfg g')
    · rw [upd_other _ _ _ _ e]; exact cfg g'
  have noop : c' = s.cp g → m' = s.cm g →
      ({ s with cp := upd s.cp g c', cm := upd s.cm g m' } : Sys) = s := by
    intro e1 e2; rw [e1, e2, upd_id, upd_id]
  refine ⟨hcfg, ng, caps, nf, frames, lg, logIds, ?_, ?_, ⟨rel.ranges, rel.queued, rel.flying⟩⟩
  · intro r hr
    obtain ⟨a, b, c⟩ := pending r hr
    exact ⟨a.congr (by rfl), b.congr (by rfl), c⟩
  · cases ph with
    | idle hd hg hw hm =>
      obtain ⟨e1, e2⟩ := hl.idle _ _ (hg g)
      rw [noop e1 e2]
      exact Phase.idle hd hg hw hm
    | bcast p r σ loc hp hh hc hr hct htc hone hb hw hm hpg hrh =>
      by_cases hg : g ∈ σ.atG
      · obtain ⟨loc', hgs, _⟩ := hl.busy (cfg g) _ _ _ _ (hb.busy g hg)
        exact Phase.bcast p r σ (upd loc g loc') hp hh hc (hr.congr (by rfl)) hct htc hone
          (bcast_busy_update hb g hg c' m' loc' hgs) (hw.congr (by rfl) (by rfl)) (hm.congr (by rfl) (by rfl) (by rfl))
          (fun x => (hpg x).congr (by rfl)) (fun x => (hrh x).congr (by rfl))
      · obtain ⟨e1, e2⟩ := hl.idle _ _ (hb.idle g hg)
        rw [noop e1 e2]
        exact Phase.bcast p r σ loc hp hh hc hr hct htc hone hb hw hm hpg hrh
    | mig r fl ws hh hc hr hct hmp hw hm hrh =>
      by_cases hfl : ∃ m loc, fl = some (m, .atG loc) ∧ g = m.gpu
      · obtain ⟨m, loc, rfl, rfl⟩ := hfl
        obtain ⟨loc', hgs, hi⟩ := hl.busy (cfg _) _ _ _ _ (hmp.busy m loc rfl)
        refine Phase.mig r (some (m, .atG loc')) ws hh hc (hr.congr (by rfl)) hct ?_ (hw.congr (by rfl) (by rfl))
          (hm.congr (by rfl) (by rfl) (by rfl)) (hrh.congr (by rfl))
        refine ⟨hmp.toSend, fun x hx => (hmp.queue x hx).congr (by rfl) (by rfl), ?_, hmp.one, hmp.ctr, hmp.pos,
          hmp.gpuOut, hmp.gpuIn, ?_, ?_, flWs_atG hi hmp.ws⟩
        · intro x a hx
          simp only [Option.some.injEq, Prod.mk.injEq] at hx
          obtain ⟨rfl, _⟩ := hx
          exact (hmp.fly _ _ rfl).congr (by rfl) (by rfl)
        · intro x l hx
          simp only [Option.some.injEq, Prod.mk.injEq, MigAt.atG.injEq] at hx
          obtain ⟨rfl, rfl⟩ := hx
          simp only [upd_same]; exact hgs
        · intro g' hg'
          have e : g' ≠ m.gpu := hg' m loc' rfl
          simp only [upd_other _ _ _ _ e]
          exact hmp.idle g' (fun x l hx => by
            simp only [Option.some.injEq, Prod.mk.injEq] at hx
            obtain ⟨rfl, _⟩ := hx; exact e)
      · have hid := hmp.idle g (fun m loc hx e => hfl ⟨m, loc, hx, e⟩)
        obtain ⟨e1, e2⟩ := hl.idle _ _ hid
        rw [noop e1 e2]
        exact Phase.mig r fl ws hh hc hr hct hmp hw hm hrh

theorem SameCfg.refl (c : Cp) : SameCfg c c := ⟨rfl, rfl, rfl, rfl, rfl, rfl, rfl, rfl, rfl, rfl, rfl, rfl, rfl, rfl, rfl⟩

theorem SameCfg.trans {a b c : Cp} (h1 : SameCfg a b) (h2 : SameCfg b c) : SameCfg a c := by
  obtain ⟨a1, a2, a3, a4, a5, a6, a7, a8, a9, a10, a11, a12, a13, a14, a15⟩ := h1
  obtain ⟨b1, b2, b3, b4, b5, b6, b7, b8, b9, b10, b11, b12, b13, b14, b15⟩ := h2
  exact ⟨b1.trans a1, b2.trans a2, b3.trans a3, b4.trans a4, b5.trans a5, b6.trans a6, b7.trans a7, b8.trans a8,
    b9.trans a9, b10.trans a10, b11.trans a11, b12.trans a12, b13.trans a13, b14.trans a14, b15.trans a15⟩

theorem LocalOK.refl (c : Cp) (m : Comps) : LocalOK c m c m :=
  ⟨SameCfg.refl c, fun _ _ _ => ⟨rfl, rfl⟩, fun _ _ loc _ _ h => ⟨loc, h, Iff.rfl⟩⟩

theorem LocalOK.trans {c c' c'' : Cp} {m m' m'' : Comps} (h1 : LocalOK c m c' m') (h2 : LocalOK c' m' c'' m'') :
    LocalOK c m c'' m'' := by
  refine ⟨h1.cfg.trans h2.cfg, ?_, ?_⟩
  · intro rq gq hi
    obtain ⟨e1, e2⟩ := h1.idle rq gq hi
    subst e1; subst e2
    exact h2.idle rq gq hi
  · intro hc x loc rq gq hg
    obtain ⟨l1, g1, i1⟩ := h1.busy hc x loc rq gq hg
    obtain ⟨l2, g2, i2⟩ := h2.busy (cfgOK_of_same h1.cfg hc) x l1 rq gq g1
    exact ⟨l2, g2, i2.trans i1⟩

theorem localOK_cstage (k : Nat) (c : Cp) (m : Comps) : LocalOK c m (cstageFn k c).1 m := by
  refine ⟨sameCfg_cstage k c, ?_, ?_⟩
  · intro rq gq hi
    rw [idle_cstage k hi]; exact ⟨rfl, rfl⟩
  · intro hc x loc rq gq hg
    exact (busy_cstage k (fun _ => 0) hc hg).1

theorem localOK_takeG (c : Cp) (m : Comps) (cl : Cls) : LocalOK c m (takeG c m cl).1 (takeG c m cl).2 := by
  refine ⟨sameCfg_takeG c m cl, ?_, ?_⟩
  · intro rq gq hi
    rw [idle_takeG hi]; exact ⟨rfl, rfl⟩
  · intro hc x loc rq gq hg
    exact ⟨loc, (busy_takeG (fun _ => 0) cl hc hg).1, Iff.rfl⟩

theorem localOK_ackG (c : Cp) (m : Comps) (cl : Cls) (j : Nat) : LocalOK c m (ackG c m cl j).1 (ackG c m cl j).2 := by
  refine ⟨sameCfg_ackG c m cl j, ?_, ?_⟩
  · intro rq gq hi
    rw [idle_ackG hi]; exact ⟨rfl, rfl⟩
  · intro hc x loc rq gq hg
    exact ⟨loc, (busy_ackG (fun _ => 0) cl j hc hg).1, Iff.rfl⟩

/-- stages `ks` of a pass, one after the other -/
def runK (ks : List Nat) (c : Cp) : Cp := ks.foldl (fun c k => (cstageFn k c).1) c

theorem localOK_runK (ks : List Nat) (c : Cp) (m : Comps) : LocalOK c m (runK ks c) m := by
  induction ks generalizing c with
  | nil => exact LocalOK.refl c m
  | cons k ks ih =>
    simp only [runK, List.foldl_cons]
    exact (localOK_cstage k c m).trans (ih _)

theorem pass_eq_runK (c : Cp) : c.pass.1 = runK [0, 1, 2, 3, 4, 5, 6, 7] c := by
  simp [Cp.pass, CP.runStages, CP.stages, runK, cstageFn]

theorem localOK_tick (c : Cp) (m : Comps) : LocalOK c m c.tick.1 m := by
  unfold Cp.tick
  split
  · exact LocalOK.refl c m
  · simp only
    split
    · rw [pass_eq_runK]; exact localOK_runK _ _ _
    · rw [pass_eq_runK, pass_eq_runK]
      exact (localOK_runK _ _ _).trans (localOK_runK _ _ _)

theorem inv_cstage {s : Sys} (h : Inv s) (g k : Nat) : Inv (step s (.cstage g k)) := by
  have := inv_local h g (cstageFn k (s.cp g)).1 (s.cm g) (localOK_cstage k _ _)
  rw [upd_id] at this
  exact this

theorem inv_ctick {s : Sys} (h : Inv s) (g : Nat) : Inv (step s (.ctick g)) := by
  have := inv_local h g (s.cp g).tick.1 (s.cm g) (localOK_tick _ _)
  rw [upd_id] at this
  exact this

theorem inv_take {s : Sys} (h : Inv s) (g : Nat) (cl : Cls) : Inv (step s (.take g cl)) :=
  inv_local h g _ _ (localOK_takeG _ _ cl)

theorem inv_ack {s : Sys} (h : Inv s) (g : Nat) (cl : Cls) (j : Nat) : Inv (step s (.ack g cl j)) :=
  inv_local h g _ _ (localOK_ackG _ _ cl j)

/-! ## connections between the driver and the command processors -/

theorem perm_of_count {l l' : List Nat} (h : ∀ a, l.count a = l'.count a) : l.Perm l' := List.perm_iff_count.mpr h

theorem not_mem_of_count {l : List Nat} {a : Nat} (h : l.count a = 0) : a ∉ l := List.count_eq_zero.mp h

theorem flagsAt_congr (p : PK) (r : MmuReq) (n : Nat) (σ σ' : Split) (g : Nat)
    (h : g ∈ σ'.bk ++ σ'.dn ↔ g ∈ σ.bk ++ σ.dn) : flagsAt p r n σ' g = flagsAt p r n σ g := by
  unfold flagsAt
  by_cases e : g ∈ σ.bk ++ σ.dn
  · rw [if_pos e, if_pos (h.mpr e)]
  · rw [if_neg e, if_neg (fun x => e (h.mp x))]

theorem inv_toCp {s : Sys} (h : Inv s) : Inv (step s .toCp) := by
  obtain ⟨cfg, ng, caps, nf, frames, lg, logIds, pending, ph, rel⟩ := h
  simp only [step]
  split
  · exact ⟨cfg, ng, caps, nf, frames, lg, logIds, pending, ph, rel⟩
  · rename_i g0 c rest hout
    by_cases hroom : (s.cp g0).drvIn.length < (s.cp g0).capIn
    rotate_left
    · rw [if_neg hroom]; exact ⟨cfg, ng, caps, nf, frames, lg, logIds, pending, ph, rel⟩
    · rw [if_pos hroom]
      have hcfg : ∀ g', CfgOK (upd s.cp g0 { s.cp g0 with drvIn := (s.cp g0).drvIn ++ [c] } g') := by
        intro g'
        by_cases e : g' = g0
        · subst e; rw [upd_same]
          have := cfg g'
          exact ⟨this.hCU, this.hAT, this.hTLB, this.hCache, this.capIn, this.capDrv, this.capRdma, this.capPMC,
            this.capCU, this.capAT, this.capTLB, this.capCache, this.small⟩
        · rw [upd_other _ _ _ _ e]; exact cfg g'
      refine ⟨hcfg, ng, caps, nf, frames, lg, logIds, ?_, ?_, ⟨rel.ranges, rel.queued, rel.flying⟩⟩
      · intro r hr
        obtain ⟨a, b, c⟩ := pending r hr
        exact ⟨a.fr (by rfl) (by rfl) (by rfl), b.fr (by rfl) (by rfl), c⟩
      · cases ph with
        | idle hd hg hw hm => rw [hd.gpuOut] at hout; cases hout
        | bcast p r σ loc hp hh hc hr hct htc hone hb hw hm hpg hrh =>
          have hso := hb.gpuOut
          rw [hout] at hso
          cases hse : σ.sent with
          | nil => rw [hse] at hso; cases hso
          | cons g1 s' =>
            rw [hse, List.map_cons] at hso
            injection hso with e1 e2
            injection e1 with e3 e4
            subst e3; subst e4
            have hnd := split_nodup hb.perm (targets_nodup hr p)
            have hcnt := (List.nodup_iff_count.mp hnd) g0
            simp only [Split.all, hse, List.count_append, List.count_cons_self] at hcnt
            have n1 : g0 ∉ σ.atG := not_mem_of_count (by omega)
            have n2 : g0 ∉ σ.bk := not_mem_of_count (by omega)
            have n3 : g0 ∉ σ.dn := not_mem_of_count (by omega)
            have hmem : g0 ∈ targets p s.drv.ngpu r := by
              apply hb.perm.subset
              simp [Split.all, hse]
            have hid := hb.idle g0 n1
            have hfl : flagsAt p r s.drv.ngpu σ g0 = flagsBefore (some p) s.drv.ngpu (accT r) g0 := by
              unfold flagsAt
              rw [if_neg (by simp [n2, n3])]
            rw [hfl] at hid
            obtain ⟨_, hgs⟩ := idle_recv (x := cmdOf p r) (cfg g0) hid (pre_of_target hr hp hmem)
            let σ' : Split := { σ with sent := s', atG := g0 :: σ.atG }
            refine Phase.bcast p r σ' (upd loc g0 .cmd) hp hh hc (hr.fr (by rfl) (by rfl) (by rfl)) ?_ htc hone ?_ (hw.congr (by rfl) (by rfl))
              (hm.fr (by rfl) (by rfl) (by rfl) (by rfl) (by rfl) (by rfl) (by rfl) (by rfl)) (fun x => (hpg x).fr (by rfl) (by rfl)) (fun x => (hrh x).fr (by rfl) (by rfl) (by rfl))
            · have : σ'.open_ = σ.open_ := by
                simp only [σ', Split.open_, hse, List.length_cons]; omega
              rw [this]; exact hct
            · refine ⟨?_, hb.toSend, ?_, hb.gpuIn, ?_, ?_, ?_⟩
              · refine (perm_of_count ?_).trans hb.perm
                intro a
                simp only [σ', Split.all, hse, List.count_append, List.count_cons]
                omega
              · exact e2
              · have : σ'.open_ = σ.open_ := by
                  simp only [σ', Split.open_, hse, List.length_cons]; omega
                rw [this]; exact hb.pos
              · intro g' hg'
                by_cases e : g' = g0
                · subst e; simp only [upd_same]; exact hgs
                · simp only [upd_other _ _ _ _ e]
                  have : g' ∈ σ.atG := by
                    simp only [σ', List.mem_cons] at hg'
                    rcases hg' with x | x
                    · exact absurd x e
                    · exact x
                  exact hb.busy g' this
              · intro g' hg'
                have e : g' ≠ g0 := fun x => hg' (by simp [σ', x])
                have e' : g' ∉ σ.atG := fun x => hg' (by simp [σ', x])
                simp only [upd_other _ _ _ _ e]
                have := hb.idle g' e'
                rw [flagsAt_congr p r s.drv.ngpu σ σ' g' Iff.rfl]
                exact this
        | mig r fl ws hh hc hr hct hmp hw hm hrh =>
          have hso := hmp.gpuOut
          rw [hout] at hso
          match fl, hso with
          | some (m, .sent), hso =>
            simp only [flOut, List.cons.injEq, Prod.mk.injEq, and_true] at hso
            obtain ⟨⟨e1, e2⟩, e3⟩ := hso
            subst e1; subst e2; subst e3
            have hid := hmp.idle m.gpu (fun x l hx => by simp at hx)
            obtain ⟨_, hgs⟩ := idle_recv (x := Cmd.mig m.id) (cfg m.gpu) hid trivial
            refine Phase.mig r (some (m, .atG .cmd)) ws hh hc (hr.fr (by rfl) (by rfl) (by rfl)) hct ?_ (hw.congr (by rfl) (by rfl))
              (hm.fr (by rfl) (by rfl) (by rfl) (by rfl) (by rfl) (by rfl) (by rfl) (by rfl)) (hrh.fr (by rfl) (by rfl) (by rfl))
            refine ⟨hmp.toSend, fun x hx => (hmp.queue x hx).fr (by rfl) (by rfl), ?_, hmp.one, hmp.ctr, hmp.pos,
              by simp [flOut], hmp.gpuIn, ?_, ?_, ?_⟩
            · intro x a hx
              simp only [Option.some.injEq, Prod.mk.injEq] at hx
              obtain ⟨rfl, _⟩ := hx
              exact (hmp.fly _ _ rfl).fr (by rfl) (by rfl)
            · intro x l hx
              simp only [Option.some.injEq, Prod.mk.injEq, MigAt.atG.injEq] at hx
              obtain ⟨rfl, rfl⟩ := hx
              simp only [upd_same]; exact hgs
            · intro g' hg'
              have e : g' ≠ m.gpu := hg' m .cmd rfl
              simp only [upd_other _ _ _ _ e]
              exact hmp.idle g' (fun x l hx => by simp at hx)
            · have := hmp.ws
              simp only [flWs] at this ⊢
              exact this
          | some (m, .atG l), hso => simp [flOut] at hso
          | some (m, .bk), hso => simp [flOut] at hso
          | none, hso => simp [flOut] at hso

theorem cfgOK_drvOut {c : Cp} (h : CfgOK c) (l : List Ans) : CfgOK { c with drvOut := l } :=
  ⟨h.hCU, h.hAT, h.hTLB, h.hCache, h.capIn, h.capDrv, h.capRdma, h.capPMC, h.capCU, h.capAT, h.capTLB, h.capCache, h.small⟩

theorem inv_toDrv {s : Sys} (h : Inv s) (g : Nat) : Inv (step s (.toDrv g)) := by
  obtain ⟨cfg, ng, caps, nf, frames, lg, logIds, pending, ph, rel⟩ := h
  simp only [step]
  split
  · exact ⟨cfg, ng, caps, nf, frames, lg, logIds, pending, ph, rel⟩
  · rename_i a rest hout
    by_cases hroom : s.drv.gpuIn.length < s.drv.capGpuIn
    rotate_left
    · rw [if_neg hroom]; exact ⟨cfg, ng, caps, nf, frames, lg, logIds, pending, ph, rel⟩
    · rw [if_pos hroom]
      have hcfg : ∀ g', CfgOK (upd s.cp g { s.cp g with drvOut := rest } g') := by
        intro g'
        by_cases e : g' = g
        · subst e; rw [upd_same]; exact cfgOK_drvOut (cfg g') rest
        · rw [upd_other _ _ _ _ e]; exact cfg g'
      refine ⟨hcfg, ng, caps, nf, frames, lg, logIds, ?_, ?_, ⟨rel.ranges, rel.queued, rel.flying⟩⟩
      · intro r hr
        obtain ⟨a, b, c⟩ := pending r hr
        exact ⟨a.fr (by rfl) (by rfl) (by rfl), b.fr (by rfl) (by rfl), c⟩
      · cases ph with
        | idle hd hg hw hm =>
          have := (idle_drvOut (hg g)).1
          rw [hout] at this; cases this
        | bcast p r σ loc hp hh hc hr hct htc hone hb hw hm hpg hrh =>
          by_cases hg : g ∈ σ.atG
          rotate_left
          · have := (idle_drvOut (hb.idle g hg)).1
            rw [hout] at this; cases this
          · rcases busy_drvOut (hb.busy g hg) with ⟨e, _⟩ | ⟨hloc, hdo, hid⟩
            · rw [hout] at e; cases e
            · rw [hout] at hdo
              injection hdo with e1 e2
              subst e1; subst e2
              have hnd := split_nodup hb.perm (targets_nodup hr p)
              have hcnt := (List.nodup_iff_count.mp hnd) g
              have hg1 : 0 < σ.atG.count g := List.count_pos_iff.mpr hg
              simp only [Split.all, List.count_append] at hcnt
              have n2 : g ∉ σ.bk := not_mem_of_count (by omega)
              have n3 : g ∉ σ.dn := not_mem_of_count (by omega)
              have hndA : σ.atG.Nodup := by
                have := hnd
                simp only [Split.all] at this
                exact ((List.nodup_append.mp ((List.nodup_append.mp ((List.nodup_append.mp this).1)).1)).2.1)
              let σ' : Split := { σ with atG := σ.atG.erase g, bk := g :: σ.bk }
              have hop : σ'.open_ = σ.open_ := by
                simp only [σ', Split.open_, List.length_cons, List.length_erase_of_mem hg]
                have : 0 < σ.atG.length := List.length_pos_of_mem hg
                omega
              refine Phase.bcast p r σ' loc hp hh hc (hr.fr (by rfl) (by rfl) (by rfl)) (by rw [hop]; exact hct) htc hone ?_
                (hw.congr (by rfl) (by rfl)) (hm.fr (by rfl) (by rfl) (by rfl) (by rfl) (by rfl) (by rfl) (by rfl) (by rfl))
                (fun x => (hpg x).fr (by rfl) (by rfl)) (fun x => (hrh x).fr (by rfl) (by rfl) (by rfl))
              refine ⟨?_, hb.toSend, hb.gpuOut, ?_, by rw [hop]; exact hb.pos, ?_, ?_⟩
              · refine (perm_of_count ?_).trans hb.perm
                intro a
                simp only [σ', Split.all, List.count_append, List.count_cons, List.count_erase]
                by_cases e : g = a
                · subst e; simp only [beq_self_eq_true, if_true]; omega
                · have : (g == a) = false := by simpa using e
                  simp only [this]; simp
              · show s.drv.gpuIn ++ [ansOf (cmdOf p r)] = _
                rw [hb.gpuIn]
                simp only [σ', List.length_cons, List.replicate_succ']
              · intro g' hg'
                have hm' : g' ∈ σ.atG ∧ g' ≠ g := by
                  have := (hndA.mem_erase_iff).mp hg'
                  exact ⟨this.2, this.1⟩
                simp only [upd_other _ _ _ _ hm'.2]
                exact hb.busy g' hm'.1
              · intro g' hg'
                by_cases e : g' = g
                · subst e
                  simp only [upd_same]
                  have : flagsAt p r s.drv.ngpu σ' g' = after (cmdOf p r)
                      (flagsBefore (some p) s.drv.ngpu (accT r) g').1 (flagsBefore (some p) s.drv.ngpu (accT r) g').2 := by
                    unfold flagsAt
                    rw [if_pos (by simp [σ'])]
                  rw [this]; exact hid
                · simp only [upd_other _ _ _ _ e]
                  have e' : g' ∉ σ.atG := fun x => hg' ((hndA.mem_erase_iff).mpr ⟨e, x⟩)
                  have := hb.idle g' e'
                  rw [flagsAt_congr p r s.drv.ngpu σ σ' g' (by simp [σ', e])]
                  exact this
        | mig r fl ws hh hc hr hct hmp hw hm hrh =>
          by_cases hfl : ∃ m loc, fl = some (m, .atG loc) ∧ g = m.gpu
          rotate_left
          · have hid := hmp.idle g (fun m loc hx e => hfl ⟨m, loc, hx, e⟩)
            have := (idle_drvOut hid).1
            rw [hout] at this; cases this
          · obtain ⟨m, loc, rfl, rfl⟩ := hfl
            rcases busy_drvOut (hmp.busy m loc rfl) with ⟨e, _⟩ | ⟨hloc, hdo, hid⟩
            · rw [hout] at e; cases e
            · rw [hout] at hdo
              injection hdo with e1 e2
              subst e1; subst e2; subst hloc
              refine Phase.mig r (some (m, .bk)) ws hh hc (hr.fr (by rfl) (by rfl) (by rfl)) hct ?_ (hw.congr (by rfl) (by rfl))
                (hm.fr (by rfl) (by rfl) (by rfl) (by rfl) (by rfl) (by rfl) (by rfl) (by rfl)) (hrh.fr (by rfl) (by rfl) (by rfl))
              refine ⟨hmp.toSend, fun x hx => (hmp.queue x hx).fr (by rfl) (by rfl), ?_, hmp.one, hmp.ctr, hmp.pos,
                ?_, ?_, ?_, ?_, ?_⟩
              · intro x a hx
                simp only [Option.some.injEq, Prod.mk.injEq] at hx
                obtain ⟨rfl, _⟩ := hx
                exact (hmp.fly _ _ rfl).fr (by rfl) (by rfl)
              · have := hmp.gpuOut
                simp only [flOut] at this ⊢
                exact this
              · have := hmp.gpuIn
                simp only [flIn] at this
                show s.drv.gpuIn ++ [ansOf (Cmd.mig m.id)] = _
                rw [this]; rfl
              · intro x l hx; simp at hx
              · intro g' _
                by_cases e : g' = m.gpu
                · subst e; simp only [upd_same]
                  have h2 : after (Cmd.mig m.id) (flagsBefore (some .mig) s.drv.ngpu (accT r) m.gpu).1
                      (flagsBefore (some .mig) s.drv.ngpu (accT r) m.gpu).2 =
                      (flagsBefore (some .mig) s.drv.ngpu (accT r) m.gpu) := rfl
                  rw [h2] at hid; exact hid
                · simp only [upd_other _ _ _ _ e]
                  exact hmp.idle g' (fun x l hx => by
                    simp only [Option.some.injEq, Prod.mk.injEq] at hx
                    obtain ⟨rfl, _⟩ := hx; exact e)
              · have := hmp.ws
                simp only [flWs] at this ⊢
                exact this

/-! ## the MMU -/

theorem nodup_pred {l : List Nat} (hn : l.Nodup) (h1 : ∀ a ∈ l, 1 ≤ a) : (l.map (· - 1)).Nodup := by
  induction l with
  | nil => exact List.nodup_nil
  | cons a l ih =>
    rw [List.map_cons, List.nodup_cons]
    have hn' := List.nodup_cons.mp hn
    refine ⟨?_, ih hn'.2 (fun b hb => h1 b (List.mem_cons_of_mem _ hb))⟩
    intro hm
    obtain ⟨b, hb, e⟩ := List.mem_map.mp hm
    have := h1 b (List.mem_cons_of_mem _ hb)
    have := h1 a (List.mem_cons_self ..)
    have : a = b := by omega
    subst this
    exact hn'.1 hb

theorem prefix_eq_of_length {α : Type} {a rest t : List α} (h : a ++ rest = t) (hl : a.length = t.length) : a = t := by
  have : rest = [] := by
    have := congrArg List.length h
    rw [List.length_append] at this
    exact List.eq_nil_of_length_eq_zero (by omega)
  rw [this, List.append_nil] at h; exact h

theorem mmuInv_send {s : Sys} {pc : List Nat} (r : MmuReq) (hm : MmuInv s pc) (hin : s.drv.mmuIn = [])
    (hg : s.mmuGot.length = s.mmuSent.length) (hid : r.id = s.mmuSent.length) :
    MmuInv { s with drv := { s.drv with mmuIn := s.drv.mmuIn ++ [r] }, mmuSent := s.mmuSent ++ [r.id] } pc := by
  have hsent := hm.sent
  rw [hin, List.map_nil, List.append_nil] at hsent
  refine ⟨hm.lost, ?_, ?_, hm.got, hm.ans, ?_, hm.fresh, ⟨?_, hm.cap.2⟩⟩
  · show s.mmuSent ++ [r.id] = s.drv.taken ++ (s.drv.mmuIn ++ [r]).map (·.id)
    rw [hin, hsent]; rfl
  · show s.mmuSent ++ [r.id] = List.range (s.mmuSent ++ [r.id]).length
    rw [List.length_append, List.length_singleton, List.range_succ, ← hm.ids, hid]
  · intro _
    show s.mmuGot = s.drv.taken
    have h1 := hm.got
    have h2 := hm.ans
    apply prefix_eq_of_length (rest := s.drv.mmuOut.map (·.1) ++ ((match s.drv.toMMU with
      | some a => [a.1]
      | none => []) ++ pc))
    · rw [← h2, ← h1]; simp only [List.append_assoc]; rfl
    · rw [hg, hsent]
  · show (s.drv.mmuIn ++ [r]).length ≤ 1
    rw [hin]; simp

theorem inv_mmuSend {s : Sys} (h : Inv s) (r : MmuReq) (hok : MmuOK s r) : Inv (step s (.mmuSend r)) := by
  simp only [step]
  split
  rotate_left
  · exact h
  · rename_i hlen
    have hin : s.drv.mmuIn = [] := List.eq_nil_of_length_eq_zero (by omega)
    obtain ⟨k1, k2, k3, k4, k5, k6, k7, k8, k9, k10, k11, k12, k13, k14, k15⟩ := hok
    have hrq : ReqOK s r :=
      ⟨k3, k4, k11, nodup_pred k12 (fun a ha => (k13 a ha).1), k15, k13, k8, k7, k6, k14,
        fun x hx => ⟨(k5 x hx).1, (k5 x hx).2.1⟩⟩
    have hpg : PagesOK s r := ⟨fun x hx => ⟨(k5 x hx).2.2.1, (k5 x hx).2.2.2⟩, k10⟩
    have hsent := h.ph
    have htaken : r.id = s.drv.taken.length := by
      have : s.mmuSent = s.drv.taken := by
        cases h.ph with
        | idle _ _ _ hm => have := hm.sent; rw [hin] at this; simpa using this
        | bcast _ _ _ _ _ _ _ _ _ _ _ _ _ hm _ _ => have := hm.sent; rw [hin] at this; simpa using this
        | mig _ _ _ _ _ _ _ _ _ hm _ => have := hm.sent; rw [hin] at this; simpa using this
      rw [k2, this]
    refine c1_inv_mk h ?_ ?_
    · intro r' hr'
      have : r' = r := by
        have : r' ∈ s.drv.mmuIn ++ [r] := hr'
        rw [hin] at this; simpa using this
      subst this
      exact ⟨c1_reqOK hrq, c1_pagesOK hpg, htaken⟩
    · cases h.ph with
      | idle hd hg hw hm =>
        exact Phase.idle (c1_drvIdle hd) hg (WorldInv.congr (by rfl) (by rfl) hw) (mmuInv_send r hm hin k1 k2)
      | bcast p r0 σ loc hp hh hc hr hct htc hone hb hw hm hpg hrh =>
        exact Phase.bcast p r0 σ loc hp hh hc (c1_reqOK hr) (c1_ctrs hct) htc hone (c1_bcast hb)
          (WorldInv.congr (by rfl) (by rfl) hw) (mmuInv_send r hm hin k1 k2) (fun x => c1_pagesOK (hpg x))
          (fun x => c1_rehomed (hrh x))
      | mig r0 fl ws hh hc hr hct hmp hw hm hrh =>
        exact Phase.mig r0 fl ws hh hc (c1_reqOK hr) (c1_ctrs hct) (c1_migPh hmp)
          (WorldInv.congr (by rfl) (by rfl) hw) (mmuInv_send r hm hin k1 k2) (c1_rehomed hrh)

theorem mmuInv_take {s : Sys} {pc : List Nat} (a : Nat × List Nat) (rest : List (Nat × List Nat))
    (hm : MmuInv s pc) (hout : s.drv.mmuOut = a :: rest) :
    MmuInv { s with drv := { s.drv with mmuOut := rest }, mmuGot := s.mmuGot ++ [a.1] } pc := by
  have hgot := hm.got
  rw [hout] at hgot
  refine ⟨hm.lost, hm.sent, hm.ids, ?_, hm.ans, ?_, ?_, ⟨hm.cap.1, ?_⟩⟩
  · show (s.mmuGot ++ [a.1]) ++ rest.map (·.1) = s.drv.answered
    rw [← hgot]; simp
  · intro hne
    have h1 := hm.one hne
    -- mmuGot = taken but mmuGot ++ a.1 :: … = answered, a prefix of taken
    have h2 := hm.ans
    have := congrArg List.length hgot
    have h3 := congrArg List.length h2
    simp only [List.length_append, List.length_cons, List.length_map] at this h3
    rw [h1] at this
    omega
  · intro hpc
    have := (hm.fresh hpc).2
    rw [hout] at this; cases this
  · show rest.length ≤ 1
    have := hm.cap.2
    rw [hout] at this
    simp only [List.length_cons] at this; omega

theorem inv_mmuTake {s : Sys} (h : Inv s) : Inv (step s .mmuTake) := by
  simp only [step]
  split
  · exact h
  · rename_i a rest hout
    refine c1_inv_mk h (c1_pending h) ?_
    cases h.ph with
    | idle hd hg hw hm =>
      exact Phase.idle (c1_drvIdle hd) hg (WorldInv.congr (by rfl) (by rfl) hw) (mmuInv_take a rest hm hout)
    | bcast p r0 σ loc hp hh hc hr hct htc hone hb hw hm hpg hrh =>
      exact Phase.bcast p r0 σ loc hp hh hc (c1_reqOK hr) (c1_ctrs hct) htc hone (c1_bcast hb)
        (WorldInv.congr (by rfl) (by rfl) hw) (mmuInv_take a rest hm hout) (fun x => c1_pagesOK (hpg x))
        (fun x => c1_rehomed (hrh x))
    | mig r0 fl ws hh hc hr hct hmp hw hm hrh =>
      exact Phase.mig r0 fl ws hh hc (c1_reqOK hr) (c1_ctrs hct) (c1_migPh hmp)
        (WorldInv.congr (by rfl) (by rfl) hw) (mmuInv_take a rest hm hout) (c1_rehomed hrh)

/-! ## the driver -/

theorem inv_ret {s : Sys} (h : Inv s) : Inv { s with drv := s.drv.ret.1 } := by
  cases hin : s.drv.gpuIn with
  | nil => exact inv_ret_nil h hin
  | cons a rest =>
    cases a with
    | drain => exact inv_ret_drain h rest hin
    | rdmaRestart => exact inv_ret_rdma h rest hin
    | shoot => exact inv_ret_shoot h rest hin
    | restart => exact inv_ret_restart h rest hin
    | mig => exact inv_ret_mig h rest hin
    | flush f => exact inv_ret_flush h f rest hin

theorem inv_dstage {s : Sys} (h : Inv s) (k : Nat) : Inv (step s (.dstage k)) := by
  simp only [step]
  match k with
  | 0 => exact inv_sGpu h
  | 1 => exact inv_sMmu h
  | 2 => exact inv_sMig h
  | 3 => exact inv_ret h
  | 4 => exact inv_parse h
  | k + 5 =>
    have : dstageFn (k + 5) s.drv = (s.drv, false) := by
      simp [dstageFn, DR.stages]
    rw [this]; exact h

theorem tick_eq (d : Drv) : d.tick.1 = ((((d.sGpu.1).sMmu.1).sMig.1).ret.1).parse.1 := by
  simp [Drv.tick, DR.runStages, DR.stages]

theorem inv_dtick {s : Sys} (h : Inv s) : Inv (step s .dtick) := by
  simp only [step]
  rw [tick_eq]
  exact inv_parse (inv_ret (inv_sMig (inv_sMmu (inv_sGpu h))))

/-! ## every move -/

theorem inv_step {s : Sys} (h : Inv s) (m : Mv) (hm : m.ok s) : Inv (step s m) := by
  cases m with
  | dstage k => exact inv_dstage h k
  | dtick => exact inv_dtick h
  | cstage g k => exact inv_cstage h g k
  | ctick g => exact inv_ctick h g
  | toCp => exact inv_toCp h
  | toDrv g => exact inv_toDrv h g
  | take g c => exact inv_take h g c
  | ack g c j => exact inv_ack h g c j
  | pmcTake g => exact inv_pmcTake h g
  | pmcColl g => exact inv_pmcColl h g
  | pmcBack g => exact inv_pmcBack h g
  | world o => exact inv_world h o hm.1 hm.2.1 hm.2.2
  | mmuSend r => exact inv_mmuSend h r hm
  | mmuTake => exact inv_mmuTake h

theorem inv_init {s : Sys} (h : Init s) : Inv s := by
  obtain ⟨m0, m1, hw⟩ := h.w
  refine ⟨h.cfg, h.ngpu, h.caps, by rw [h.drv], h.frames, h.lg, by rw [h.drv]; rfl, ?_, ?_, ?_⟩
  rotate_left 2
  · refine ⟨h.ranges, ?_, ?_⟩
    · intro m hm
      rw [h.drv] at hm; cases hm
    · intro ho
      rw [h.drv] at ho; cases ho
  · intro r hr
    rw [h.drv] at hr; cases hr
  · refine Phase.idle ?_ ?_ ?_ ?_
    · rw [h.drv]
      exact ⟨rfl, rfl, ⟨rfl, rfl, rfl, rfl, rfl⟩, rfl, rfl, rfl, rfl, rfl⟩
    · intro g
      refine ⟨?_, ?_, ?_⟩
      · have := h.cp g
        generalize s.cp g = c at this ⊢
        rw [this]; rfl
      · rw [h.cm g]; exact ⟨rfl, rfl, rfl, rfl, rfl⟩
      · intro cl i
        rw [h.cm g]
        cases cl <;> simp [Comps.quiet, qFull]
    · refine ⟨?_, ?_, ?_⟩
      · rw [hw]; exact WReach.init m0 m1
      · show s.w.live = []
        rw [hw]
      · intro g; rw [h.back g]; rfl
    · have := h.drv
      refine ⟨by rw [this], ?_, ?_, ?_, ?_, ?_, ?_, ?_⟩
      · rw [h.mmu.1, this]; rfl
      · rw [h.mmu.1]; rfl
      · rw [h.mmu.2, this]; rfl
      · rw [this]; rfl
      · intro hne; rw [this] at hne; exact absurd rfl hne
      · intro hne; exact absurd rfl hne
      · rw [this]; exact ⟨Nat.zero_le _, Nat.zero_le _⟩

/-- **the invariant holds in every reachable state of the closed system** -/
theorem reach_inv {s : Sys} (h : Reach s) : Inv s := by
  induction h with
  | init hi => exact inv_init hi
  | step m _ hm ih => exact inv_step ih m hm

end SY
end C19
