import MgpuProofs.C09Tie4
/-! # C09 — the fit check of `StartDispatching` (repair 91eb1bb3)

* `launchFits_iff`: on a pool that satisfies the resource invariant the Bool computed by the model
  (`launchFits`: pool sizes = free entries + resident wavefronts, mask shapes) is the predicate
  `FitsPool` of the liveness proofs, evaluated for the first work-group — whatever is resident.
* `Fits` is monotone in the number of wavefronts, the first work-group of a grid is the largest:
  a kernel that passes the check has `KernFits` (every work-group fits some CU).
* the dispatchers' ticks never touch the launch queue, hence take no launch (`tickDispatchers_KD`). -/
namespace C09

/-! ## the Bool of the model is `FitsPool` -/

theorem poolSizes_of_inv (cap : List Nat) (cu : CU) (h : Inv cap cu) : cu.poolSizes = cap := by
  unfold CU.poolSizes
  apply List.ext_getElem
  · simp [h.wfLen]
  · intro k h1 h2
    simp only [List.getElem_map, List.getElem_range]
    have := h.wfOK k h2
    rw [this]
    simp [List.getD_eq_getElem?_getD, h2]

theorem fitsEmpty_iff (cap : List Nat) (cu : CU) (d : Dem) (h : Inv cap cu) :
    fitsEmpty cu d = true ↔ Fits cap cu.shapes d := by
  unfold fitsEmpty
  rw [poolSizes_of_inv cap cu h]
  exact decide_eq_true_iff

theorem pool_any_fits_iff (caps : List (List Nat)) (S : List (Option Nat × List (Option Nat) × Option Nat))
    (pool : List CU) (d : Dem) (hp : PoolInv caps pool) (hs : pool.map CU.shapes = S) :
    pool.any (fun cu => fitsEmpty cu d) = true ↔ FitsPool caps S d := by
  rw [List.any_eq_true]
  constructor
  · rintro ⟨cu, hmem, hf⟩
    obtain ⟨c, hc, rfl⟩ := List.getElem_of_mem hmem
    refine ⟨c, by rw [← hp.1]; exact hc, ?_⟩
    have := (fitsEmpty_iff _ _ d (hp.2 c hc)).1 hf
    have hg : pool.getD c default = pool[c] := by simp [List.getD_eq_getElem?_getD, hc]
    rw [← hs, ← shapes_getD pool c hc, hg]
    exact this
  · rintro ⟨c, hc, hf⟩
    have hc' : c < pool.length := by rw [hp.1]; exact hc
    refine ⟨pool[c], List.getElem_mem hc', ?_⟩
    apply (fitsEmpty_iff _ _ d (hp.2 c hc')).2
    have hg : pool.getD c default = pool[c] := by simp [List.getD_eq_getElem?_getD, hc']
    rw [← hs, ← shapes_getD pool c hc', hg] at hf
    exact hf

/-- **the check computed by the model is the fit predicate of the proofs**, in every state whose pool
    satisfies the resource invariant and has the registered mask shapes -/
theorem launchFits_iff (caps : List (List Nat)) (S : List (Option Nat × List (Option Nat) × Option Nat))
    (pool : List CU) (k : Kern) (hp : PoolInv caps pool) (hs : pool.map CU.shapes = S) (hk : 1 ≤ k.gx) :
    launchFits pool k = true ↔ FitsPool caps S (k.dem 0) := by
  unfold launchFits
  have : (k.gx == 0) = false := by
    cases h : k.gx == 0 with
    | false => rfl
    | true => have := beq_iff_eq.1 h; omega
  rw [this, Bool.false_or]
  exact pool_any_fits_iff caps S pool _ hp hs

/-! ## the first work-group is the largest -/

theorem fitsUnits_mono (sh : Option Nat) (a b : Nat) (hab : a ≤ b) (h : fitsUnits sh b) : fitsUnits sh a := by
  cases sh with
  | none => trivial
  | some n => exact Nat.le_trans hab h

/-- **`Fits` is monotone in the number of wavefronts** (same register / LDS demand) -/
theorem Fits_mono (cap : List Nat) (sh : Option Nat × List (Option Nat) × Option Nat) (d d' : Dem)
    (hn : d'.nwf ≤ d.nwf) (hs : d'.s = d.s) (hv : d'.v = d.v) (hl : d'.l = d.l) (h : Fits cap sh d) :
    Fits cap sh d' := by
  obtain ⟨h1, h2, h3⟩ := h
  refine ⟨?_, ?_, ?_⟩
  · rw [hs]; exact fitsUnits_mono _ _ _ (Nat.mul_le_mul_right _ hn) h1
  · rw [hl]; exact h2
  · rw [hv]; exact Nat.le_trans hn h3

theorem nwfOf_le_first (k : Kern) (i : Nat) : k.nwfOf i ≤ k.nwfOf 0 := by
  unfold Kern.nwfOf
  apply Nat.div_le_div_right
  simp only [Nat.zero_mul, Nat.sub_zero]
  have : k.gx - i * k.wx ≤ k.gx := Nat.sub_le _ _
  omega

/-- a kernel whose first work-group fits some CU has `KernFits`: every work-group fits some CU -/
theorem kernFits_of_first (caps : List (List Nat)) (S : List (Option Nat × List (Option Nat) × Option Nat))
    (k : Kern) (h : FitsPool caps S (k.dem 0)) : KernFits caps S k := by
  intro idx _
  obtain ⟨c, hc, hf⟩ := h
  exact ⟨c, hc, Fits_mono _ _ (k.dem 0) (k.dem idx) (nwfOf_le_first k idx) rfl rfl rfl hf⟩

theorem first_of_kernFits (caps : List (List Nat)) (S : List (Option Nat × List (Option Nat) × Option Nat))
    (k : Kern) (h : KernFits caps S k) : FitsPool caps S (k.dem 0) :=
  h 0 (Nat.succ_pos _)

/-- a launch whose work-groups fit passes the check: `handleLaunch` behaves as before the repair -/
theorem handleLaunch_of_kernFits (caps : List (List Nat)) (S : List (Option Nat × List (Option Nat) × Option Nat))
    (cp : CP) (hp : PoolInv caps cp.pool) (hs : cp.pool.map CU.shapes = S)
    (hq : ∀ k ∈ cp.drvIn, KernOK k ∧ KernFits caps S k) : handleLaunch cp = handleLaunchOld cp := by
  apply handleLaunch_of_fits
  intro k rest hd
  obtain ⟨hok, hf⟩ := hq k (by rw [hd]; exact List.mem_cons_self)
  exact (launchFits_iff caps S cp.pool k hp hs hok.1).2 (first_of_kernFits caps S k hf)

/-! ## the dispatchers' ticks do not touch the launch queue -/

theorem completeKernel_drvIn (cp : CP) (i : Nat) : (completeKernel cp i).1.drvIn = cp.drvIn := by
  unfold completeKernel
  cases hk : (cp.disp i).kern with
  | none => simp only [hk]
  | some k =>
    simp only [hk]
    by_cases hr : cp.drvRoom = 0
    · simp [hr]
    · simp only [hr, if_false]; rfl

theorem pre_drvIn (cp : CP) (i : Nat) : (pre cp i).1.drvIn = cp.drvIn := by
  cases hcw : (cp.disp i).currWG with
  | some dl => rw [pre_some cp i dl hcw]
  | none =>
    by_cases hn : (cp.disp i).alg.hasNext = true
    · rw [pre_none_yes cp i hcw hn]
      exact algNext_drvIn cp i
    · rw [pre_none_no cp i hcw hn]

theorem dispatchNextWG_drvIn (cp : CP) (i : Nat) : (dispatchNextWG cp i).1.drvIn = cp.drvIn := by
  rw [dispatchNextWG_eq, tail_drvIn, pre_drvIn]

theorem dispatchLoop_drvIn (i : Nat) : ∀ (n : Nat) (cp : CP), (dispatchLoop i n cp).1.drvIn = cp.drvIn := by
  intro n
  induction n with
  | zero => intro cp; rfl
  | succ n ih =>
    intro cp
    simp only [dispatchLoop]
    split
    · exact dispatchNextWG_drvIn cp i
    · show (dispatchLoop i n (dispatchNextWG cp i).1).1.drvIn = cp.drvIn
      rw [ih, dispatchNextWG_drvIn]

theorem completeOne_drvIn (cp : CP) (i id : Nat) : (completeOne cp i id).drvIn = cp.drvIn := by
  unfold completeOne
  cases hf : (cp.disp i).inflight.find? (·.1 = id) with
  | none => simp only [hf]
  | some e =>
    obtain ⟨r, dl⟩ := e
    simp only [hf]
    cases free (cp.pool.getD dl.cu default) dl.key <;> rfl

theorem consume_drvIn (i : Nat) : ∀ (ids : List Nat) (cp : CP), (consume i ids cp).1.drvIn = cp.drvIn := by
  intro ids
  induction ids with
  | nil => intro cp; rfl
  | cons id ids ih =>
    intro cp
    simp only [consume]
    split
    · rw [ih, completeOne_drvIn]
    · exact ih cp

theorem procMsgs_drvIn (i : Nat) : ∀ (n : Nat) (cp : CP), (procMsgs i n cp).1.drvIn = cp.drvIn := by
  intro n
  induction n with
  | zero => intro cp; rfl
  | succ n ih =>
    intro cp
    simp only [procMsgs]
    cases hcu : cp.cuIn with
    | nil => rfl
    | cons ids rest =>
      simp only []
      split
      · rfl
      · split
        · exact consume_drvIn i ids cp
        · split
          · show (procMsgs i n _).1.drvIn = cp.drvIn
            rw [ih]; exact consume_drvIn i ids cp
          · exact consume_drvIn i ids cp

theorem dispTick_drvIn (cp : CP) (i : Nat) : (dispTick cp i).1.drvIn = cp.drvIn := by
  have key : ∀ r1 : CP × Bool, r1.1.drvIn = cp.drvIn →
      (if r1.1.fault.isSome then r1 else
        let r2 := procMsgs i 8 r1.1
        (r2.1, r1.2 || r2.2)).1.drvIn = cp.drvIn := by
    intro r1 h1
    split
    · exact h1
    · show (procMsgs i 8 r1.1).1.drvIn = cp.drvIn
      rw [procMsgs_drvIn]; exact h1
  unfold dispTick
  by_cases hc : (cp.disp i).cycleLeft > 0
  · simp only [hc, if_true]; rfl
  · simp only [hc, if_false]
    by_cases hks : (cp.disp i).kern.isSome = true
    · simp only [hks, if_true]
      by_cases hkc : kernelCompleted (cp.disp i) = true
      · simp only [hkc, if_true]; exact key _ (completeKernel_drvIn cp i)
      · simp only [hkc]; exact key _ (dispatchLoop_drvIn i 8 cp)
    · simp only [hks]; exact key (cp, false) rfl

theorem tickDispatchers_drvIn : ∀ (is : List Nat) (cp : CP), (tickDispatchers is cp).1.drvIn = cp.drvIn := by
  intro is
  induction is with
  | nil => intro cp; rfl
  | cons i is ih =>
    intro cp
    simp only [tickDispatchers]
    split
    · rfl
    · show (tickDispatchers is (dispTick cp i).1).1.drvIn = cp.drvIn
      rw [ih, dispTick_drvIn]

/-! ## a sequence of atomic steps that keeps the launch queue takes no launch -/

theorem VStep_drvIn_le {v v' : V} (s : VStep v v') : v'.drvIn.length ≤ v.drvIn.length := by
  cases s with
  | cyc i c hi hc => exact Nat.le_refl _
  | map i k c locs hi hk hlt hr => exact Nat.le_refl _
  | done i r cyc' hi hr => exact Nat.le_refl _
  | rsp i k hi hk hnd hnc hfl hr => exact Nat.le_refl _
  | start i k rest cyc' hi hd hk =>
    show rest.length ≤ v.drvIn.length
    rw [hd]; simp

theorem Steps_drvIn_le {b : Bool} {v v' : V} (s : Steps b v v') : v'.drvIn.length ≤ v.drvIn.length := by
  induction s with
  | refl v => exact Nat.le_refl _
  | cons s _ ih => exact Nat.le_trans ih (VStep_drvIn_le s)

theorem KD_step {Q : Kern → Prop} {v v' : V} (h : KD Q v) (s : VStep v v')
    (hlen : v'.drvIn.length = v.drvIn.length) : KD Q v' := by
  cases s with
  | cyc i c hi hc =>
    intro j k hk
    by_cases hj : j = i
    · subst hj; simp only [V.upd, if_true] at hk; exact h j k hk
    · simp only [V.upd, hj, if_false] at hk; exact h j k hk
  | map i k c locs hi hk' hlt hr =>
    intro j k0 hk
    by_cases hj : j = i
    · subst hj; simp only [V.upd, if_true] at hk; exact h j k0 hk
    · simp only [V.upd, hj, if_false] at hk; exact h j k0 hk
  | done i r cyc' hi hr =>
    intro j k hk
    by_cases hj : j = i
    · subst hj; simp only [V.upd, if_true] at hk; exact h j k hk
    · simp only [V.upd, hj, if_false] at hk; exact h j k hk
  | rsp i k hi hk' hnd hnc hfl hr =>
    intro j k0 hk
    by_cases hj : j = i
    · subst hj; simp only [V.upd, if_true] at hk; cases hk
    · simp only [V.upd, hj, if_false] at hk; exact h j k0 hk
  | start i k rest cyc' hi hd hk' =>
    exfalso
    have : rest.length = v.drvIn.length := hlen
    rw [hd] at this; simp at this

theorem KD_steps {Q : Kern → Prop} {b : Bool} {v v' : V} (s : Steps b v v') :
    v'.drvIn.length = v.drvIn.length → KD Q v → KD Q v' := by
  induction s with
  | refl v => exact fun _ h => h
  | cons s rest ih =>
    intro hlen h
    have h1 := VStep_drvIn_le s
    have h2 := Steps_drvIn_le rest
    exact ih (by omega) (KD_step h s (by omega))

/-- the dispatchers' ticks keep "every dispatching kernel satisfies `Q`" -/
theorem tickDispatchers_KD {Q : Kern → Prop} (is : List Nat) (cp : CP) (hdc : DCI cp) (h : KD Q cp.view) :
    KD Q (tickDispatchers is cp).1.view := by
  refine KD_steps (tickDispatchers_steps is cp hdc) ?_ h
  show (tickDispatchers is cp).1.drvIn.length = cp.drvIn.length
  rw [tickDispatchers_drvIn]

/-- taking a launch keeps "every dispatching kernel has `KernFits`": the launch passed the check -/
theorem handleLaunch_KD (caps : List (List Nat)) (S : List (Option Nat × List (Option Nat) × Option Nat))
    (cp : CP) (hp : PoolInv caps cp.pool) (hs : cp.pool.map CU.shapes = S) (hko : ∀ k ∈ cp.drvIn, KernOK k)
    (h : KD (KernFits caps S) cp.view) : KD (KernFits caps S) (handleLaunch cp).1.view := by
  unfold handleLaunch
  cases hdr : cp.drvIn with
  | nil => exact h
  | cons k rest =>
    simp only []
    cases hfa : findAvailable cp.disps with
    | none => exact h
    | some i =>
      simp only []
      cases hl : launchFits cp.pool k with
      | false => exact h
      | true =>
        have hfit : KernFits caps S k :=
          kernFits_of_first caps S k ((launchFits_iff caps S cp.pool k hp hs
            (hko k (by rw [hdr]; exact List.mem_cons_self)).1).1 hl)
        intro j k0 hk
        have hk : (((CP.setDisp { cp with drvIn := rest } i (startDispatching cp.cfg (cp.disp i) k)).disp j)).kern
            = some k0 := hk
        rw [disp_setDisp] at hk
        split at hk
        · have : k = k0 := by simpa [startDispatching] using hk
          rw [← this]; exact hfit
        · exact h j k0 hk

end C09
