import MgpuModel.C09_CU
/-! # C09, compute-unit side — list lemmas shared by the timing and the emulation proofs -/
namespace C09.CUSide

theorem length_updAt {α : Type} (l : List α) (i : Nat) (f : α → α) : (updAt l i f).length = l.length := by
  induction l generalizing i with
  | nil => rfl
  | cons a l ih => cases i <;> simp [updAt, ih]

theorem getElem?_updAt {α : Type} (l : List α) (i j : Nat) (f : α → α) :
    (updAt l i f)[j]? = if i = j then l[j]?.map f else l[j]? := by
  induction l generalizing i j with
  | nil => simp [updAt]
  | cons a l ih =>
    cases i with
    | zero => cases j <;> simp [updAt]
    | succ i => cases j <;> simp [updAt, ih]

/-- a duplicate-free list inside another one is not longer -/
theorem length_le_of_nodup_subset {α : Type} [BEq α] [LawfulBEq α] :
    ∀ (l m : List α), l.Nodup → (∀ a ∈ l, a ∈ m) → l.length ≤ m.length
  | [], _, _, _ => Nat.zero_le _
  | a :: l, m, hd, hs => by
    have ham : a ∈ m := hs a (List.mem_cons_self)
    have hd' := List.nodup_cons.mp hd
    have := length_le_of_nodup_subset l (m.erase a) hd'.2 (fun b hb => by
      have hne : b ≠ a := fun h => hd'.1 (h ▸ hb)
      exact (List.mem_erase_of_ne hne).mpr (hs b (List.mem_cons_of_mem _ hb)))
    have hl := List.length_erase_of_mem ham
    have hpos : 0 < m.length := List.length_pos_of_mem ham
    simp only [List.length_cons]
    omega

theorem uniq_of_nodup_map {α β : Type} (f : α → β) :
    ∀ (l : List α), (l.map f).Nodup → ∀ a ∈ l, ∀ b ∈ l, f a = f b → a = b
  | [], _, _, ha, _, _, _ => by cases ha
  | x :: l, hd, a, ha, b, hb, hab => by
    simp only [List.map_cons, List.nodup_cons, List.mem_map, not_exists, not_and] at hd
    rcases List.mem_cons.mp ha with rfl | ha' <;> rcases List.mem_cons.mp hb with rfl | hb'
    · rfl
    · exact absurd hab.symm (hd.1 b hb')
    · exact absurd hab (hd.1 a ha')
    · exact uniq_of_nodup_map f l hd.2 a ha' b hb' hab

theorem mem_foldl_erase {α : Type} [BEq α] [LawfulBEq α] :
    ∀ (rs l : List α), l.Nodup → ∀ p, (p ∈ rs.foldl List.erase l ↔ p ∈ l ∧ p ∉ rs)
  | [], l, _, p => by simp
  | r :: rs, l, hd, p => by
    rw [List.foldl_cons, mem_foldl_erase rs (l.erase r) (hd.erase r) p, hd.mem_erase_iff]
    simp only [List.mem_cons, not_or]
    constructor
    · rintro ⟨⟨h1, h2⟩, h3⟩; exact ⟨h2, h1, h3⟩
    · rintro ⟨h2, h1, h3⟩; exact ⟨⟨h1, h2⟩, h3⟩

theorem nodup_foldl_erase {α : Type} [BEq α] [LawfulBEq α] :
    ∀ (rs l : List α), l.Nodup → (rs.foldl List.erase l).Nodup
  | [], _, hd => hd
  | r :: rs, l, hd => by rw [List.foldl_cons]; exact nodup_foldl_erase rs _ (hd.erase r)

theorem nodup_of_nodup_map {α β : Type} (f : α → β) : ∀ (l : List α), (l.map f).Nodup → l.Nodup
  | [], _ => List.nodup_nil
  | a :: l, h => by
    simp only [List.map_cons, List.nodup_cons] at h ⊢
    exact ⟨fun hc => h.1 (List.mem_map.mpr ⟨a, hc, rfl⟩), nodup_of_nodup_map f l h.2⟩

end C09.CUSide
