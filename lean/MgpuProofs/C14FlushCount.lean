import MgpuProofs.C14FlushInv
/-! # C14 flush / restart — the wavefront counters against the record lists for EVERY event sequence

After the repair of `flushPipeline` / `reInsertShadowBufferReqsToOriginalBuffers` (records move
between the in-flight list and the shadow list, none is copied or dropped) the counting part of the
invariant needs no hypothesis about the environment at all: not the command processor's protocol,
not "the units run only while not paused", not "the memory answers only what it received", not a
capacity. `Counts` is preserved by every `step`. -/
namespace C14.Flush

/-- each counter = number of records flagged "last transaction" in the in-flight + shadow lists -/
def Counts (s : St) : Prop :=
  (∀ w, s.vm w = (cnt (s.v.inf ++ s.v.sh) w : Int)) ∧
  (∀ w, s.lgkm w = (cnt (s.v.inf ++ s.v.sh) w : Int) + (cnt (s.s.inf ++ s.s.sh) w : Int))

theorem Counts_init : Counts St.init := by
  constructor <;> intro w <;> simp [St.init, Chan.empty, cnt]

/-- a state that differs only outside the two record lists and the counters -/
theorem Counts.congr {s s' : St} (h : Counts s) (hv : s'.v.inf ++ s'.v.sh = s.v.inf ++ s.v.sh)
    (hs : s'.s.inf ++ s'.s.sh = s.s.inf ++ s.s.sh) (hvm : s'.vm = s.vm) (hl : s'.lgkm = s.lgkm) : Counts s' := by
  constructor
  · intro w; rw [hvm, hv]; exact h.1 w
  · intro w; rw [hl, hv, hs]; exact h.2 w

/-- the same with the counts instead of the lists (records moved between the two lists) -/
theorem Counts.congr_cnt {s s' : St} (h : Counts s)
    (hv : ∀ w, cnt (s'.v.inf ++ s'.v.sh) w = cnt (s.v.inf ++ s.v.sh) w)
    (hs : ∀ w, cnt (s'.s.inf ++ s'.s.sh) w = cnt (s.s.inf ++ s.s.sh) w)
    (hvm : s'.vm = s.vm) (hl : s'.lgkm = s.lgkm) : Counts s' := by
  constructor
  · intro w; rw [hvm, hv]; exact h.1 w
  · intro w; rw [hl, hv, hs]; exact h.2 w

theorem cnt_issueQ (c : Chan) (base w n w' : Nat) (hn : 0 < n) :
    (cnt ((c.issueQ (mkEntries base w n)).inf ++ (c.issueQ (mkEntries base w n)).sh) w' : Int) =
      (cnt (c.inf ++ c.sh) w' : Int) + (if w = w' then 1 else 0) := by
  simp only [Chan.issueQ]
  rw [cnt_append, cnt_append, cnt_append, cnt_mkEntries _ _ _ _ hn]
  split <;> simp <;> omega

theorem issS_Counts (c : Cfg) {s : St} (h : Counts s) (w n : Nat) : Counts (issS c s w n).1 := by
  unfold issS
  split
  · exact h
  · rename_i hcond
    have hn : 0 < n := by
      rcases Nat.eq_zero_or_pos n with h0 | h0
      · exact absurd (Or.inr h0) hcond
      · exact h0
    refine ⟨h.1, ?_⟩
    intro w'
    show upd s.lgkm w 1 w' = (cnt (s.v.inf ++ s.v.sh) w' : Int) + _
    rw [cnt_issueQ _ _ _ _ _ hn, upd_pos, h.2 w']; omega

theorem issV_Counts (c : Cfg) {s : St} (h : Counts s) (w n : Nat) : Counts (issV c s w n).1 := by
  unfold issV
  split
  · exact h
  · rename_i hcond
    have hn : 0 < n := by
      rcases Nat.eq_zero_or_pos n with h0 | h0
      · exact absurd (Or.inl h0) hcond
      · exact h0
    constructor
    · intro w'
      show upd s.vm w 1 w' = _
      rw [cnt_issueQ _ _ _ _ _ hn, upd_pos, h.1 w']
    · intro w'
      show upd s.lgkm w 1 w' = _ + (cnt (s.s.inf ++ s.s.sh) w' : Int)
      rw [cnt_issueQ _ _ _ _ _ hn, upd_pos, h.2 w']; omega

theorem fetch_Counts (c : Cfg) {s : St} (h : Counts s) (w : Nat) : Counts (fetch c s w).1 := by
  unfold fetch
  split
  · exact h.congr rfl rfl rfl rfl
  · exact h

theorem procF_Counts {s : St} (h : Counts s) : Counts (procF s) := by
  unfold procF
  split
  · exact h
  · exact h.congr rfl rfl rfl rfl

theorem procS_Counts {s : St} (h : Counts s) : Counts (procS s) := by
  unfold procS
  rcases hinp : s.s.inp with _ | ⟨r, rest⟩
  · exact h
  · simp only
    rcases hres : ({ s.s with inp := rest } : Chan).respond r with ⟨ch, _ | e⟩
    · have := respond_none hres
      subst this
      exact h.congr rfl rfl rfl rfl
    · obtain ⟨l1, l2, hinf, _, rfl⟩ := respond_some hres
      simp only at hinf ⊢
      refine ⟨h.1, ?_⟩
      intro w
      have := h.2 w
      rw [hinf, List.append_assoc, List.cons_append, cnt_middle_int] at this
      simp only [List.append_assoc]
      exact dec_counter s.lgkm e w _ _ this

theorem procV1_Counts {s : St} (h : Counts s) : Counts (procV1 s) := by
  unfold procV1
  rcases hinp : s.v.inp with _ | ⟨r, rest⟩
  · exact h
  · simp only
    rcases hres : ({ s.v with inp := rest } : Chan).respond r with ⟨ch, _ | e⟩
    · have := respond_none hres
      subst this
      exact h.congr rfl rfl rfl rfl
    · obtain ⟨l1, l2, hinf, _, rfl⟩ := respond_some hres
      simp only at hinf ⊢
      have key : ∀ w, (cnt (s.v.inf ++ s.v.sh) w : Int) =
          (if e.wf = w ∧ e.last = true then (1 : Int) else 0) + (cnt (l1 ++ l2 ++ s.v.sh) w : Int) := by
        intro w
        rw [hinf, List.append_assoc, List.cons_append, cnt_middle_int, List.append_assoc]
      constructor
      · intro w
        have := h.1 w
        rw [key w] at this
        have h2 : s.vm w = 0 + ((if e.wf = w ∧ e.last = true then (1 : Int) else 0) +
            (cnt (l1 ++ l2 ++ s.v.sh) w : Int)) := by omega
        have := dec_counter s.vm e w _ _ h2
        simpa using this
      · intro w
        have := h.2 w
        rw [key w] at this
        have h2 : s.lgkm w = (cnt (s.s.inf ++ s.s.sh) w : Int) + ((if e.wf = w ∧ e.last = true then (1 : Int) else 0) +
            (cnt (l1 ++ l2 ++ s.v.sh) w : Int)) := by omega
        have := dec_counter s.lgkm e w _ _ h2
        show (if e.last = true then upd s.lgkm e.wf (-1) else s.lgkm) w = _
        rw [this]; simp only [List.append_assoc]; omega

theorem procV_Counts (n : Nat) {s : St} (h : Counts s) : Counts (procV n s) := by
  induction n generalizing s with
  | zero => exact h
  | succ n ih => exact ih (procV1_Counts h)

theorem procCP_Counts (c : Cfg) {s : St} (h : Counts s) : Counts (procCP c s) := by
  unfold procCP
  split
  · exact h
  · exact h.congr rfl rfl rfl rfl
  · split <;> exact h.congr rfl rfl rfl rfl

theorem processInput_Counts (c : Cfg) {s : St} (h : Counts s) : Counts (processInput c s) := by
  unfold processInput
  apply procCP_Counts
  split
  · exact procV_Counts 16 (procS_Counts (procF_Counts h))
  · exact h

theorem sendToCP_Counts (c : Cfg) {s : St} (h : Counts s) : Counts (sendToCP c s) := by
  unfold sendToCP
  split
  · exact h.congr rfl rfl rfl rfl
  · exact h

theorem reinsert_Counts {s : St} (h : Counts s) : Counts (reinsert s) :=
  h.congr_cnt (fun w => cnt_reinsert s.v w) (fun w => cnt_reinsert s.s w) rfl rfl

/-- the repaired `flushPipeline` only moves records from the in-flight lists to the shadow lists -/
theorem flushPipeline_Counts {s : St} (h : Counts s) : Counts (flushPipeline s) := by
  unfold flushPipeline
  split
  · exact h
  · split
    · exact h
    · exact h.congr_cnt (fun w => cnt_flush s.v w) (fun w => cnt_flush s.s w) rfl rfl

theorem checkShadow_Counts (c : Cfg) {s : St} (h : Counts s) : Counts (checkShadow c s) := by
  unfold checkShadow
  split
  · exact h.congr rfl rfl rfl rfl
  · exact h.congr_cnt (fun w => cnt_drain s.v c.capV w) (fun w => cnt_drain s.s c.capS w) rfl rfl

theorem doFlush_Counts (c : Cfg) {s : St} (h : Counts s) : Counts (doFlush c s) := by
  unfold doFlush
  have h1 : Counts (if s.isFlushing then flushPipeline (if s.isSending then reinsert s else s) else s) := by
    split
    · apply flushPipeline_Counts
      split
      · exact reinsert_Counts h
      · exact h
    · exact h
  simp only
  generalize (if s.isFlushing then flushPipeline (if s.isSending then reinsert s else s) else s) = t at h1
  split
  · exact checkShadow_Counts c h1
  · exact h1

theorem tick_Counts (c : Cfg) {s : St} (h : Counts s) : Counts (tick c s) :=
  doFlush_Counts c (processInput_Counts c (sendToCP_Counts c h))

theorem deliver_lists (c : Chan) (cap : Nat) (r : Req) :
    (c.deliver cap r).1.inf ++ (c.deliver cap r).1.sh = c.inf ++ c.sh := by
  rw [deliver_inf, deliver_sh]

/-- **every** event preserves the counting invariant — no legality hypothesis -/
theorem step_Counts (c : Cfg) {s : St} (h : Counts s) (o : Op) : Counts (step c s o) := by
  unfold step
  split
  · exact h
  · cases o with
    | issS w n => exact issS_Counts c h w n
    | issV w n => exact issV_Counts c h w n
    | fetch w => exact fetch_Counts c h w
    | usendS => exact h.congr rfl rfl rfl rfl
    | usendV n => exact h.congr rfl rfl rfl rfl
    | deliver k i g =>
      cases k with
      | f => exact h.congr rfl rfl rfl rfl
      | s => exact h.congr rfl (deliver_lists _ _ _) rfl rfl
      | v => exact h.congr (deliver_lists _ _ _) rfl rfl rfl
      | c => exact h
    | cpFlush =>
      simp only
      split
      · exact h.congr rfl rfl rfl rfl
      · exact h
    | cpRestart =>
      simp only
      split
      · exact h.congr rfl rfl rfl rfl
      · exact h
    | take k n =>
      cases k with
      | f => exact h.congr rfl rfl rfl rfl
      | s => exact h.congr rfl rfl rfl rfl
      | v => exact h.congr rfl rfl rfl rfl
      | c => exact h.congr rfl rfl rfl rfl
    | foreign k n =>
      cases k with
      | f => exact h.congr rfl rfl rfl rfl
      | s => exact h.congr rfl rfl rfl rfl
      | v => exact h.congr rfl rfl rfl rfl
      | c => exact h
    | tick => exact tick_Counts c h

theorem run_Counts (c : Cfg) (ops : List Op) {s : St} (h : Counts s) : Counts (run c s ops) := by
  induction ops generalizing s with
  | nil => exact h
  | cons o os ih => exact ih (step_Counts c h o)

end C14.Flush
