import MgpuProofs.C19SysInv
import MgpuProofs.Props.C19
/-! # C19 — the closed system: `processReturnReq` consuming a shootdown acknowledgement keeps `Inv`

(a) `c3_prepare_ok` / `c3_frames_step`: one `preparePageForMigration` under the hypotheses of a valid request,
(b) `c3_mkMigs`: the two nested loops of `processShootdownCompleteRsp` (induction over the page list),
(c) `c3_ret_more` / `c3_ret_last`: what `Drv.ret` is, (d) `c3_case1` / `c3_case2`: the new phase; `inv_ret_shoot`. -/
namespace C19
namespace SY
open CP (Cp Cls K Sub Cmd Ans)
open DR (Drv MmuReq MigCmd)

private theorem c3_update_ok (a : Alloc) (pg : Page) (h : (a.find pg.pid pg.vaddr).isSome = true) :
    ∃ a', a.update pg = some a' ∧ a'.lg = a.lg ∧ a'.free = a.free ∧
      (∀ pid v, a'.find pid v = if pid = pg.pid ∧ v = pg.vaddr then some pg else a.find pid v) ∧
      (∀ q ∈ a'.table, q = pg ∨ (q ∈ a.table ∧ ¬ (q.pid = pg.pid ∧ q.vaddr = pg.vaddr))) ∧ a'.range = a.range := by
  have hu : a.update pg = some { a with table := a.table.map fun p => if p.pid == pg.pid && p.vaddr == pg.vaddr then pg else p } := by
    unfold Alloc.update; rw [if_pos h]
  have hs := update_spec _ _ _ hu
  refine ⟨_, hu, rfl, rfl, hs.2.2.2.2, ?_, rfl⟩
  intro q hq
  simp only [List.mem_map] at hq
  obtain ⟨p, hp, rfl⟩ := hq
  split
  · exact Or.inl rfl
  · rename_i hk
    refine Or.inr ⟨hp, ?_⟩
    simpa using hk

/-- one `prepare` under the hypotheses of the request: it succeeds, and what the new allocator is -/
theorem c3_prepare_ok (a : Alloc) (pid v g : Nat) (o : Page) (f0 : Nat) (fr : List Nat)
    (hal : v = (v >>> a.lg) <<< a.lg) (hf : a.find pid v = some o) (hfree : a.free[g + 1]? = some (f0 :: fr)) :
    ∃ a', prepare a pid v g = .ok (⟨pid, v, f0, g + 1, true, true⟩, o.paddr, a') ∧ a'.lg = a.lg ∧
      a'.free = a.free.set (g + 1) fr ∧
      (∀ pid' v', a'.find pid' v' = if pid' = pid ∧ v' = v then some ⟨pid, v, f0, g + 1, true, true⟩ else a.find pid' v') ∧
      (∀ q ∈ a'.table, q ∈ a.table ∨ q = ⟨pid, v, f0, g + 1, true, true⟩) ∧ a'.range = a.range := by
  have hpop : a.pop (g + 1) = .ok (f0, { a with free := setNth a.free (g + 1) fr }) := by
    unfold Alloc.pop; rw [hfree]
  obtain ⟨a3, hu1, l1, f1, g1, t1, r1⟩ := c3_update_ok
    { a with free := setNth a.free (g + 1) fr, mirror := (v, ⟨pid, v, f0, g + 1, true, false⟩) :: a.mirror.filter (fun e => e.1 != v) }
    ⟨pid, v, f0, g + 1, true, false⟩ (by show (a.find pid v).isSome = true; rw [hf]; rfl)
  obtain ⟨a4, hu2, l2, f2, g2, t2, r2⟩ := c3_update_ok a3 ⟨pid, v, f0, g + 1, true, true⟩ (by rw [g1]; simp)
  refine ⟨a4, ?_, ?_, ?_, ?_, ?_, r2.trans r1⟩
  · unfold prepare
    simp only []
    rw [← hal, hf]
    simp only []
    unfold Alloc.allocGiven
    rw [hpop]
    simp only []
    rw [hu1]
    simp only []
    rw [hu2]
  · rw [l2, l1]
  · rw [f2, f1]; rfl
  · intro pid' v'
    rw [g2, g1]
    by_cases hk : pid' = pid ∧ v' = v
    · simp [hk]
    · simp [hk]
      rfl
  · intro q hq
    rcases t2 q hq with hq | ⟨hq, hk⟩
    · exact Or.inr hq
    · rcases t1 q hq with hq | ⟨hq, _⟩
      · subst hq; exact absurd ⟨rfl, rfl⟩ hk
      · exact Or.inl hq

private theorem c3_getD_set (L : List (List Nat)) (i j : Nat) (x : List Nat) (hi : i < L.length) :
    (L.set i x).getD j [] = if j = i then x else L.getD j [] := by
  simp only [List.getD_eq_getElem?_getD, List.getElem?_set]
  by_cases h : i = j
  · subst h; simp [hi]
  · have h' : ¬ j = i := fun e => h e.symm
    simp [h, h']

private theorem c3_getD_of_getElem? (L : List (List Nat)) (i : Nat) (x : List Nat) (h : L[i]? = some x) :
    L.getD i [] = x := by
  simp [List.getD_eq_getElem?_getD, h]

private theorem c3_lt_of_getElem? {α : Type} (L : List α) (i : Nat) (x : α) (h : L[i]? = some x) : i < L.length := by
  rcases Nat.lt_or_ge i L.length with h1 | h1
  · exact h1
  · rw [List.getElem?_eq_none h1] at h; cases h

/-- one `prepare` keeps the frames inside the memories -/
theorem c3_frames_step (a a' : Alloc) (w : C19.Sys) (g f0 : Nat) (fr : List Nat) (pg' : Page)
    (hF : FramesIn a w) (hg : g < 2) (hfree : a.free[g + 1]? = some (f0 :: fr)) (hlg : a'.lg = a.lg)
    (hfr : a'.free = a.free.set (g + 1) fr) (ht : ∀ q ∈ a'.table, q ∈ a.table ∨ q = pg')
    (hdev : pg'.dev = g + 1) (hpa : pg'.paddr = f0) : FramesIn a' w := by
  have hlen := c3_lt_of_getElem? _ _ _ hfree
  have hgd := c3_getD_of_getElem? _ _ _ hfree
  have hg1 : g + 1 = 1 ∨ g + 1 = 2 := by omega
  intro d hd
  rw [hlg, hfr, c3_getD_set _ _ _ _ hlen]
  refine ⟨?_, ?_⟩
  · intro f hf
    by_cases hdg : d = g + 1
    · rw [if_pos hdg] at hf
      subst hdg
      exact (hF _ hd).1 f (by rw [hgd]; exact List.mem_cons_of_mem _ hf)
    · rw [if_neg hdg] at hf
      exact (hF _ hd).1 f hf
  · intro q hq hqd
    rcases ht q hq with hq | hq
    · exact (hF _ hd).2 q hq hqd
    · subst hq
      rw [hdev] at hqd
      subst hqd
      rw [hpa]
      exact (hF _ hd).1 f0 (by rw [hgd]; exact List.mem_cons_self ..)

theorem c3_deviceOf_congr {a a' : Alloc} (h : a'.range = a.range) (p : Nat) : a'.deviceOf p = a.deviceOf p := by
  unfold Alloc.deviceOf; rw [h]

/-- one `prepare` keeps the frames inside the address ranges of their devices -/
theorem c3_ranges_step (a a' : Alloc) (g f0 : Nat) (fr : List Nat) (pg' : Page)
    (hR : RangeOK a) (hfree : a.free[g + 1]? = some (f0 :: fr)) (hrg : a'.range = a.range)
    (hfr : a'.free = a.free.set (g + 1) fr) (ht : ∀ q ∈ a'.table, q ∈ a.table ∨ q = pg')
    (hdev : pg'.dev = g + 1) (hpa : pg'.paddr = f0) : RangeOK a' := by
  have hlen := c3_lt_of_getElem? _ _ _ hfree
  have hgd := c3_getD_of_getElem? _ _ _ hfree
  obtain ⟨r1, r2, r3⟩ := hR
  have hf0 : a.deviceOf f0 = some (g + 1) := r2 (g + 1) hlen f0 (by rw [hgd]; exact List.mem_cons_self ..)
  refine ⟨by rw [hrg, hfr, List.length_set]; exact r1, ?_, ?_⟩
  · intro d hd f hf
    rw [hfr, List.length_set] at hd
    rw [hfr, c3_getD_set _ _ _ _ hlen] at hf
    rw [c3_deviceOf_congr hrg]
    by_cases hdg : d = g + 1
    · rw [if_pos hdg] at hf
      subst hdg
      exact r2 _ hd f (by rw [hgd]; exact List.mem_cons_of_mem _ hf)
    · rw [if_neg hdg] at hf
      exact r2 d hd f hf
  · intro q hq
    rw [c3_deviceOf_congr hrg]
    rcases ht q hq with hq | hq
    · exact r3 q hq
    · subst hq; rw [hdev, hpa]; exact hf0

/-- what the page list must satisfy with respect to the allocator -/
structure c3_LOK (a : Alloc) (pid host : Nat) (l : List (Nat × Nat)) : Prop where
  req : ∀ x ∈ l, x.1 < 2 ∧ x.1 + 1 ≠ host ∧ x.2 = (x.2 >>> a.lg) <<< a.lg ∧
    ∃ pg, a.find pid x.2 = some pg ∧ pg.dev = host
  nd : (l.map (·.2)).Nodup
  free : ∀ g, g < 2 → (l.filter (·.1 = g)).length ≤ (a.free.getD (g + 1) []).length

/-- what the loop produces -/
structure c3_New (a a' : Alloc) (w : C19.Sys) (pid size host n0 : Nat) (l : List (Nat × Nat)) (new : List MigCmd) : Prop where
  key : new.map (fun m => (m.gpu, m.vaddr)) = l
  ids : new.map (·.id) = List.range' n0 l.length
  each : ∀ m ∈ new, m.size = size ∧ m.peer = host - 1 ∧ m.rd + (1 <<< a.lg) ≤ (w.mem (host - 1)).size ∧
    m.wr + (1 <<< a.lg) ≤ (w.mem m.gpu).size ∧
    ∃ pg, a'.find pid m.vaddr = some pg ∧ pg.paddr = m.wr ∧ pg.dev = m.gpu + 1 ∧ pg.migrating = true
  frames : FramesIn a' w
  lg : a'.lg = a.lg
  other : ∀ pid' v', ¬ (pid' = pid ∧ v' ∈ l.map (·.2)) → a'.find pid' v' = a.find pid' v'
  range : a'.range = a.range
  ranges : RangeOK a'
  dev : ∀ m ∈ new, a.deviceOf m.rd = some host

private theorem c3_inc (n k : Nat) (h : n + (k + 1) < CP.w64) : CP.inc n = n + 1 := by
  unfold CP.inc
  exact Nat.mod_eq_of_lt (by omega)

theorem c3_mkMigs (w : C19.Sys) (pid size host : Nat) (hh : host = 1 ∨ host = 2) :
    ∀ (l : List (Nat × Nat)) (d : Drv), d.fault = none → c3_LOK d.alloc pid host l → FramesIn d.alloc w →
      RangeOK d.alloc → d.mig + l.length < CP.w64 →
      ∃ a' new, d.mkMigs pid size (host - 1) l =
          { d with alloc := a', toCP := d.toCP ++ new, mig := d.mig + l.length, nMig := d.nMig + l.length,
                   migLog := d.migLog ++ new } ∧
        c3_New d.alloc a' w pid size host d.nMig l new := by
  intro l
  induction l with
  | nil =>
    intro d hf hl hF hR hm
    refine ⟨d.alloc, [], ?_, ?_⟩
    · simp [Drv.mkMigs]
    · exact ⟨rfl, rfl, by simp, hF, rfl, fun _ _ _ => rfl, rfl, hR, by simp⟩
  | cons x rest ih =>
    obtain ⟨g, v⟩ := x
    intro d hf hl hF hR hm
    obtain ⟨hg, hgh, hal, o, hfind, hdev⟩ := hl.req (g, v) (List.mem_cons_self ..)
    simp only at hg hgh hal hfind
    have hfl := hl.free g hg
    have hfl' : (rest.filter (·.1 = g)).length + 1 ≤ (d.alloc.free.getD (g + 1) []).length := by
      simpa [List.filter_cons] using hfl
    obtain ⟨f0, fr, hfree⟩ : ∃ f0 fr, d.alloc.free[g + 1]? = some (f0 :: fr) := by
      rw [List.getD_eq_getElem?_getD] at hfl'
      cases hx : d.alloc.free[g + 1]? with
      | none => rw [hx] at hfl'; simp at hfl'
      | some L =>
        cases L with
        | nil => rw [hx] at hfl'; simp at hfl'
        | cons f0 fr => exact ⟨f0, fr, rfl⟩
    have hlen := c3_lt_of_getElem? _ _ _ hfree
    have hgd := c3_getD_of_getElem? _ _ _ hfree
    obtain ⟨a1, hprep, hlg1, hfr1, hfind1, htab1, hrg1⟩ := c3_prepare_ok d.alloc pid v g o f0 fr hal hfind hfree
    have hF1 : FramesIn a1 w := c3_frames_step d.alloc a1 w g f0 fr _ hF hg hfree hlg1 hfr1 htab1 rfl rfl
    have hR1 : RangeOK a1 := c3_ranges_step d.alloc a1 g f0 fr _ hR hfree hrg1 hfr1 htab1 rfl rfl
    have hnd : v ∉ rest.map (·.2) ∧ (rest.map (·.2)).Nodup := by
      have := hl.nd
      simpa [List.nodup_cons] using this
    have hinc : CP.inc d.mig = d.mig + 1 := c3_inc d.mig rest.length (by simpa using hm)
    have hstep : d.mkMigs pid size (host - 1) ((g, v) :: rest) =
        Drv.mkMigs { d with alloc := a1, toCP := d.toCP ++ [⟨d.nMig, g, v, o.paddr, f0, size, host - 1⟩],
                            mig := d.mig + 1, nMig := d.nMig + 1,
                            migLog := d.migLog ++ [⟨d.nMig, g, v, o.paddr, f0, size, host - 1⟩] } pid size (host - 1) rest := by
      rw [Drv.mkMigs]
      simp only [hf, hprep, hinc]
      rfl
    have hl1 : c3_LOK a1 pid host rest := by
      refine ⟨?_, hnd.2, ?_⟩
      · intro x hx
        obtain ⟨h1, h2, h3, pg, h4, h5⟩ := hl.req x (List.mem_cons_of_mem _ hx)
        refine ⟨h1, h2, by rw [hlg1]; exact h3, pg, ?_, h5⟩
        rw [hfind1, if_neg]
        · exact h4
        · rintro ⟨_, h6⟩
          exact hnd.1 (h6 ▸ List.mem_map_of_mem hx)
      · intro g' hg'
        rw [hfr1, c3_getD_set _ _ _ _ hlen]
        by_cases hgg : g' = g
        · subst hgg
          simp only [if_true]
          rw [hgd] at hfl'
          simp only [List.length_cons] at hfl'
          omega
        · have : ¬ g' + 1 = g + 1 := by omega
          rw [if_neg this]
          have h7 := hl.free g' hg'
          have : ¬ g = g' := fun e => hgg e.symm
          simpa [List.filter_cons, this] using h7
    obtain ⟨a', new', heq, hN⟩ := ih
      { d with alloc := a1, toCP := d.toCP ++ [⟨d.nMig, g, v, o.paddr, f0, size, host - 1⟩],
               mig := d.mig + 1, nMig := d.nMig + 1,
               migLog := d.migLog ++ [⟨d.nMig, g, v, o.paddr, f0, size, host - 1⟩] } hf hl1 hF1 hR1
      (by simp only [List.length_cons] at hm; show d.mig + 1 + rest.length < _; omega)
    refine ⟨a', ⟨d.nMig, g, v, o.paddr, f0, size, host - 1⟩ :: new', ?_, ?_⟩
    · rw [hstep, heq]
      simp only [List.append_assoc, List.singleton_append, List.length_cons]
      congr 1 <;> omega
    · have ho : o ∈ d.alloc.table := List.mem_of_find?_eq_some hfind
      refine ⟨?_, ?_, ?_, hN.frames, hN.lg.trans hlg1, ?_, hN.range.trans hrg1, hN.ranges, ?_⟩
      rotate_left 4
      · intro m hm'
        rcases List.mem_cons.mp hm' with rfl | hm'
        · show d.alloc.deviceOf o.paddr = some host
          rw [← hdev]; exact hR.2.2 o ho
        · rw [← c3_deviceOf_congr hrg1]; exact hN.dev m hm'
      · simp only [List.map_cons, hN.key]
      · simp only [List.map_cons, hN.ids, List.length_cons, List.range'_succ]
      · intro m hm'
        rcases List.mem_cons.mp hm' with rfl | hm'
        · refine ⟨rfl, rfl, ?_, ?_, ?_⟩
          · have := (hF host hh).2 o ho hdev
            exact this
          · have := (hF (g + 1) (by omega)).1 f0 (by rw [hgd]; exact List.mem_cons_self ..)
            simpa using this
          · refine ⟨⟨pid, v, f0, g + 1, true, true⟩, ?_, rfl, rfl, rfl⟩
            show a'.find pid v = _
            rw [hN.other pid v (fun h => hnd.1 h.2), hfind1, if_pos ⟨rfl, rfl⟩]
        · obtain ⟨h1, h2, h3, h4, h5⟩ := hN.each m hm'
          rw [hlg1] at h3 h4
          exact ⟨h1, h2, h3, h4, h5⟩
      · intro pid' v' hne
        have hne1 : ¬ (pid' = pid ∧ v' ∈ rest.map (·.2)) := fun h => hne ⟨h.1, by simp only [List.map_cons]; exact List.mem_cons_of_mem _ h.2⟩
        have hne2 : ¬ (pid' = pid ∧ v' = v) := fun h => hne ⟨h.1, by simp only [List.map_cons]; rw [h.2]; exact List.mem_cons_self ..⟩
        rw [hN.other pid' v' hne1, hfind1, if_neg hne2]

/-! ## what `processReturnReq` does with a shootdown acknowledgement -/

theorem c3_ret_more (d : Drv) (rest : List Ans) (hf : d.fault = none) (hin : d.gpuIn = .shoot :: rest)
    (hs : 2 ≤ d.shoot) : d.ret.1 = { d with shoot := d.shoot - 1, gpuIn := rest } := by
  have hdec : CP.dec d.shoot = d.shoot - 1 := by
    unfold CP.dec; rw [if_neg (by omega)]
  have hne : ¬ d.shoot - 1 = 0 := by omega
  unfold Drv.ret
  simp only [hf, hin, hdec, hne]
  rfl

theorem c3_ret_last (d : Drv) (rest : List Ans) (r : MmuReq) (hf : d.fault = none) (hin : d.gpuIn = .shoot :: rest)
    (hs : d.shoot = 1) (hc : d.cur = some r) (hh : r.host = 1 ∨ r.host = 2) (hp : 2 ≤ d.nPmc)
    (hpid : r.pid ∈ d.pids) :
    d.ret.1 = Drv.mkMigs { d with shoot := 0, gpuIn := rest } r.pid r.pageSize (r.host - 1) (migOrder d.ngpu r.map) := by
  have hdec : CP.dec d.shoot = 0 := by
    unfold CP.dec; rw [hs]; rfl
  have hidx : ¬ (r.host = 0 ∨ r.host - 1 ≥ d.nPmc) := by omega
  have hct : d.pids.contains r.pid = true := by simpa using hpid
  unfold Drv.ret
  simp only [hf, hin, hdec, hc, hidx, hct]
  rfl

/-! ## the phase in which a shootdown acknowledgement can be at the head of the GPU port -/

private theorem c3_replicate_cons {α : Type} {n : Nat} {x y : α} {rest : List α}
    (h : List.replicate n x = y :: rest) : x = y ∧ ∃ k, n = k + 1 ∧ rest = List.replicate k x := by
  cases n with
  | zero => simp at h
  | succ k =>
    rw [List.replicate_succ] at h
    injection h with h1 h2
    exact ⟨h1, k, rfl, h2.symm⟩

theorem c3_phase {s : Sys} (h : Inv s) (rest : List Ans) (hin : s.drv.gpuIn = .shoot :: rest) :
    ∃ r σ loc b0 bk', σ.bk = b0 :: bk' ∧ rest = List.replicate bk'.length .shoot ∧
      s.drv.handling = true ∧ s.drv.cur = some r ∧ ReqOK s r ∧ Ctrs s.drv (some .shoot) σ.open_ ∧
      s.drv.toCP = [] ∧ s.drv.one = false ∧ Bcast s .shoot r σ loc ∧ WorldInv s .none ∧ MmuInv s [r.id] ∧
      PagesOK s r := by
  cases h.ph with
  | idle hd _ _ _ => rw [hd.gpuIn] at hin; cases hin
  | mig r fl ws _ _ _ _ hm _ _ _ =>
    have := hm.gpuIn
    rw [hin] at this
    unfold flIn at this
    split at this <;> cases this
  | bcast p r σ loc hp hh hc hr hct htc hone hb hw hmm hpg _ =>
    have hgi := hb.gpuIn
    rw [hin] at hgi
    obtain ⟨hx, k, hk, hrest⟩ := c3_replicate_cons hgi.symm
    cases p <;> simp [cmdOf, ansOf] at hx
    cases hbk : σ.bk with
    | nil => rw [hbk] at hk; simp at hk
    | cons b0 bk' =>
      rw [hbk] at hk
      simp only [List.length_cons, Nat.add_right_cancel_iff] at hk
      refine ⟨r, σ, loc, b0, bk', hbk, ?_, hh, hc, hr, hct, htc, hone, hb, hw, ?_, hpg (Or.inr rfl)⟩
      · rw [hrest, hk]; rfl
      · simpa using hmm

/-! ## not the last acknowledgement -/

private theorem c3_perm_move (X bk' dn : List Nat) (b0 : Nat) :
    (X ++ bk' ++ (b0 :: dn)).Perm (X ++ (b0 :: bk') ++ dn) := by
  have h1 : (X ++ bk' ++ (b0 :: dn)).Perm (b0 :: (X ++ bk' ++ dn)) := List.perm_middle
  have h2 : (X ++ (b0 :: bk') ++ dn).Perm (b0 :: (X ++ bk' ++ dn)) := by
    have : X ++ (b0 :: bk') ++ dn = X ++ b0 :: (bk' ++ dn) := by simp
    rw [this]
    have h3 : (X ++ b0 :: (bk' ++ dn)).Perm (b0 :: (X ++ (bk' ++ dn))) := List.perm_middle
    simp only [List.append_assoc] at h3 ⊢
    exact h3
  exact h1.trans h2.symm

private theorem c3_mem_move (g : Nat) (bk' dn : List Nat) (b0 : Nat) :
    g ∈ bk' ++ (b0 :: dn) ↔ g ∈ (b0 :: bk') ++ dn := by
  simp only [List.mem_append, List.mem_cons]
  constructor
  · rintro (h | h | h)
    · exact Or.inl (Or.inr h)
    · exact Or.inl (Or.inl h)
    · exact Or.inr h
  · rintro ((h | h) | h)
    · exact Or.inr (Or.inl h)
    · exact Or.inl h
    · exact Or.inr (Or.inr h)

theorem c3_case1 {s : Sys} (h : Inv s) (rest : List Ans) (r : MmuReq) (σ : Split) (loc : Nat → BLoc) (b0 : Nat)
    (bk' : List Nat) (hbk : σ.bk = b0 :: bk') (hrest : rest = List.replicate bk'.length .shoot)
    (hh : s.drv.handling = true) (hc : s.drv.cur = some r) (hr : ReqOK s r)
    (hct : Ctrs s.drv (some .shoot) σ.open_) (htc : s.drv.toCP = []) (hone : s.drv.one = false)
    (hb : Bcast s .shoot r σ loc) (hw : WorldInv s .none) (hm : MmuInv s [r.id]) (hpg : PagesOK s r)
    (h2 : 2 ≤ σ.open_) :
    Inv { s with drv := { s.drv with shoot := s.drv.shoot - 1, gpuIn := rest } } := by
  have hop : ({ σ with bk := bk', dn := b0 :: σ.dn } : Split).open_ = σ.open_ - 1 := by
    simp only [Split.open_, hbk, List.length_cons]; omega
  refine ⟨h.cfg, h.ng, h.caps, h.nf, h.frames, h.lg, h.logIds, ?_, ?_, ⟨h.rel.ranges, h.rel.queued, h.rel.flying⟩⟩
  · intro r' hr'
    obtain ⟨a, b, c⟩ := h.pending r' hr'
    exact ⟨⟨a.pid, a.host, a.accNe, a.accNd, a.accLt, a.accIn, a.size, a.pagesNe, a.pagesNd, a.pagesLt, a.req⟩,
      ⟨b.found, b.free⟩, c⟩
  · refine Phase.bcast .shoot r { σ with bk := bk', dn := b0 :: σ.dn } loc (by decide) hh hc
      ⟨hr.pid, hr.host, hr.accNe, hr.accNd, hr.accLt, hr.accIn, hr.size, hr.pagesNe, hr.pagesNd, hr.pagesLt, hr.req⟩
      ?_ htc hone ?_ ⟨hw.reach, hw.live, hw.back⟩ ?_ (fun _ => ⟨hpg.found, hpg.free⟩) (fun h => by simp at h)
    · rw [hop]
      simp only [Ctrs] at hct ⊢
      simp at hct ⊢
      obtain ⟨c1, c2, c3, c4, c5⟩ := hct
      exact ⟨c1, by rw [c2], c3, c4, c5⟩
    · refine ⟨?_, hb.toSend, hb.gpuOut, ?_, ?_, hb.busy, ?_⟩
      · refine List.Perm.trans ?_ hb.perm
        simp only [Split.all, hbk]
        exact c3_perm_move _ _ _ _
      · show rest = _
        rw [hrest]
        rfl
      · rw [hop]; omega
      · intro g hg
        have := hb.idle g hg
        simp only [flagsAt, hbk] at this ⊢
        simp only [c3_mem_move]
        exact this
    · rw [if_pos (Or.inr rfl)]
      exact ⟨hm.lost, hm.sent, hm.ids, hm.got, hm.ans, hm.one, hm.fresh, hm.cap⟩

/-! ## the last acknowledgement -/

private theorem c3_find_nodup (new : List MigCmd) (hnd : (new.map (·.id)).Nodup) (m : MigCmd) (hm : m ∈ new) :
    new.find? (·.id == m.id) = some m := by
  induction new with
  | nil => cases hm
  | cons x xs ih =>
    simp only [List.map_cons, List.nodup_cons] at hnd
    rcases List.mem_cons.mp hm with rfl | hm
    · simp
    · have hne : ¬ x.id = m.id := fun e => hnd.1 (e ▸ List.mem_map_of_mem hm)
      rw [List.find?_cons_of_neg (by simpa using hne)]
      exact ih hnd.2 hm

theorem c3_find_new (old new : List MigCmd) (n0 k : Nat) (ho : old.map (·.id) = List.range n0)
    (hn : new.map (·.id) = List.range' n0 k) (m : MigCmd) (hm : m ∈ new) :
    (old ++ new).find? (·.id == m.id) = some m := by
  have hge : n0 ≤ m.id := by
    have : m.id ∈ new.map (·.id) := List.mem_map_of_mem hm
    rw [hn, List.mem_range'_1] at this
    exact this.1
  have hnone : old.find? (·.id == m.id) = none := by
    rw [List.find?_eq_none]
    intro x hx
    have : x.id ∈ old.map (·.id) := List.mem_map_of_mem hx
    rw [ho, List.mem_range] at this
    simp only [beq_iff_eq]
    omega
  rw [List.find?_append, hnone]
  simp only [Option.none_or]
  exact c3_find_nodup new (by rw [hn]; exact List.nodup_range') m hm

theorem c3_mmuIn_nil {s : Sys} {x : Nat} (hm : MmuInv s [x]) : s.drv.mmuIn = [] := by
  cases hmi : s.drv.mmuIn with
  | nil => rfl
  | cons a l =>
    exfalso
    have h1 := hm.one (by rw [hmi]; simp)
    have h2 := congrArg List.length hm.got
    have h3 := congrArg List.length hm.ans
    rw [h1] at h2
    simp only [List.length_append, List.length_cons, List.length_nil] at h2 h3
    omega

theorem c3_flags_end (r : MmuReq) (ngpu : Nat) (σ : Split) (g : Nat) (hmem : g ∈ σ.bk ++ σ.dn ↔ g ∈ accT r) :
    flagsAt .shoot r ngpu σ g = flagsBefore (some .mig) ngpu (accT r) g := by
  simp only [flagsAt, flagsBefore, cmdOf, after]
  by_cases hg : g ∈ accT r
  · rw [if_pos (hmem.mpr hg)]; simp [hg]
  · rw [if_neg (fun h => hg (hmem.mp h))]; simp [hg]

private theorem c3_range_app (n k : Nat) : List.range n ++ List.range' n k = List.range (n + k) := by
  rw [List.range_eq_range', List.range_eq_range']
  have := List.range'_append_1 (s := 0) (m := n) (n := k)
  simpa using this

theorem c3_case2 {s : Sys} (h : Inv s) (r : MmuReq) (σ : Split) (loc : Nat → BLoc)
    (hwait : σ.wait = []) (hsent : σ.sent = []) (hatg : σ.atG = [])
    (hh : s.drv.handling = true) (hc : s.drv.cur = some r) (hr : ReqOK s r)
    (hct : Ctrs s.drv (some .shoot) σ.open_) (htc : s.drv.toCP = []) (hone : s.drv.one = false)
    (hb : Bcast s .shoot r σ loc) (hw : WorldInv s .none) (hm : MmuInv s [r.id])
    (a' : Alloc) (new : List MigCmd)
    (hN : c3_New s.drv.alloc a' s.w.sys r.pid r.pageSize r.host s.drv.nMig (migOrder s.drv.ngpu r.map) new) :
    Inv { s with drv := { s.drv with shoot := 0, gpuIn := [], alloc := a', toCP := s.drv.toCP ++ new,
                                     mig := s.drv.mig + (migOrder s.drv.ngpu r.map).length,
                                     nMig := s.drv.nMig + (migOrder s.drv.ngpu r.map).length,
                                     migLog := s.drv.migLog ++ new } } := by
  have hl0 : new.length = (migOrder s.drv.ngpu r.map).length := by
    have := congrArg List.length hN.key
    simpa using this
  simp only [Ctrs] at hct
  simp at hct
  obtain ⟨c1, c2, c3, c4, c5⟩ := hct
  have hmi := c3_mmuIn_nil hm
  have hkey : ∀ m ∈ new, (m.gpu, m.vaddr) ∈ migOrder s.drv.ngpu r.map := by
    intro m hm'
    rw [← hN.key]
    exact List.mem_map_of_mem (f := fun m : MigCmd => (m.gpu, m.vaddr)) hm'
  have hq : ∀ m ∈ new, (s.drv.migLog ++ new).find? (·.id == m.id) = some m ∧ m.gpu < 2 ∧
      (m.peer = 1 - m.gpu ∧ m.peer + 1 = r.host) ∧ m.size = r.pageSize ∧
      m.rd + m.size ≤ (s.w.sys.mem m.peer).size ∧ m.wr + m.size ≤ (s.w.sys.mem m.gpu).size := by
    intro m hm'
    obtain ⟨e1, e2, e3, e4, _⟩ := hN.each m hm'
    obtain ⟨k1, k2⟩ := hr.req _ (hkey m hm')
    simp only at k1 k2
    have hhost := hr.host
    refine ⟨c3_find_new _ _ _ _ h.logIds hN.ids m hm', k1, ⟨by omega, by omega⟩, e1, ?_, ?_⟩
    · rw [e1, e2, hr.size]; exact e3
    · rw [e1, hr.size]; exact e4
  have hmemσ : ∀ g, g ∈ σ.bk ++ σ.dn ↔ g ∈ accT r := by
    intro g
    have := hb.perm.mem_iff (a := g)
    simp only [Split.all, hwait, hsent, hatg, List.nil_append, targets] at this
    exact this
  refine ⟨h.cfg, h.ng, h.caps, h.nf, hN.frames, ?_, ?_, ?_, ?_, ?_⟩
  rotate_left 4
  · refine ⟨hN.ranges, ?_, ?_⟩
    · intro m hm'
      have hm2 : m ∈ s.drv.toCP ++ new := hm'
      rw [htc, List.nil_append] at hm2
      obtain ⟨e1, e2, e3, _, _⟩ := hN.each m hm2
      refine ⟨r.host, hr.host, ?_, ?_⟩
      · show a'.deviceOf m.rd = some r.host
        rw [c3_deviceOf_congr hN.range]; exact hN.dev m hm2
      · show m.rd + (1 <<< a'.lg) ≤ _
        rw [hN.lg]; exact e3
    · intro ho
      have : s.drv.one = true := ho
      rw [hone] at this; cases this
  · show (1 <<< a'.lg) % unit = 0 ∧ 0 < (1 <<< a'.lg)
    rw [hN.lg]; exact h.lg
  · show (s.drv.migLog ++ new).map (·.id) = List.range (s.drv.nMig + (migOrder s.drv.ngpu r.map).length)
    rw [List.map_append, h.logIds, hN.ids, c3_range_app]
  · intro r' hr'
    have : r' ∈ s.drv.mmuIn := hr'
    rw [hmi] at this
    cases this
  · refine Phase.mig r none .none hh hc
      ⟨hr.pid, hr.host, hr.accNe, hr.accNd, hr.accLt, hr.accIn, ?_, hr.pagesNe, hr.pagesNd, hr.pagesLt, hr.req⟩
      ?_ ?_ ⟨hw.reach, hw.live, hw.back⟩
      ⟨hm.lost, hm.sent, hm.ids, hm.got, hm.ans, hm.one, hm.fresh, hm.cap⟩ ?_
    · show r.pageSize = 1 <<< a'.lg
      rw [hN.lg]; exact hr.size
    · simp only [Ctrs]
      simp
      exact ⟨c1, c4, c5⟩
    · refine ⟨?_, ?_, ?_, hone, ?_, ?_, ?_, rfl, ?_, ?_, rfl⟩
      · show s.drv.toSend = []
        rw [hb.toSend, hwait]; rfl
      · intro m hm'
        have hm2 : m ∈ s.drv.toCP ++ new := hm'
        rw [htc, List.nil_append] at hm2
        obtain ⟨q1, q2, q3, q4, q5, q6⟩ := hq m hm2
        exact ⟨q1, q2, q3, q4, q5, q6⟩
      · intro m a hfl; cases hfl
      · show s.drv.mig + (migOrder s.drv.ngpu r.map).length = (s.drv.toCP ++ new).length + _
        rw [htc, c3, List.nil_append, hl0]
        simp
      · show 0 < s.drv.mig + (migOrder s.drv.ngpu r.map).length
        have := hr.pagesNe
        have : 0 < (migOrder s.drv.ngpu r.map).length := List.length_pos_iff.mpr this
        omega
      · show s.drv.gpuOut = flOut none
        rw [hb.gpuOut, hsent]; rfl
      · intro m loc' hfl; cases hfl
      · intro g _
        have := hb.idle g (by rw [hatg]; simp)
        rw [c3_flags_end r s.drv.ngpu σ g (hmemσ g)] at this
        exact this
    · exact ⟨s.drv.migLog, new, rfl, hN.key, fun m hm' => (hN.each m hm').2.2.2.2⟩

/-- `processReturnReq` consuming a shootdown acknowledgement keeps the invariant -/
theorem inv_ret_shoot {s : Sys} (h : Inv s) (rest : List Ans) (hin : s.drv.gpuIn = .shoot :: rest) :
    Inv { s with drv := s.drv.ret.1 } := by
  obtain ⟨r, σ, loc, b0, bk', hbk, hrest, hh, hc, hr, hct, htc, hone, hb, hw, hm, hpg⟩ := c3_phase h rest hin
  have hshoot : s.drv.shoot = σ.open_ := by
    have := hct.2.1
    simpa using this
  have hmig : s.drv.mig = 0 := by
    have := hct.2.2.1
    simpa using this
  by_cases h2 : 2 ≤ σ.open_
  · rw [c3_ret_more s.drv rest h.nf hin (by omega)]
    exact c3_case1 h rest r σ loc b0 bk' hbk hrest hh hc hr hct htc hone hb hw hm hpg h2
  · have hpos := hb.pos
    have h1 : σ.open_ = 1 := by omega
    have hl : σ.wait = [] ∧ σ.sent = [] ∧ σ.atG = [] ∧ bk' = [] := by
      simp only [Split.open_, hbk, List.length_cons] at h1
      exact ⟨List.eq_nil_of_length_eq_zero (by omega), List.eq_nil_of_length_eq_zero (by omega),
        List.eq_nil_of_length_eq_zero (by omega), List.eq_nil_of_length_eq_zero (by omega)⟩
    obtain ⟨hwait, hsent, hatg, hbk'⟩ := hl
    subst hbk'
    have hrest' : rest = [] := hrest
    subst hrest'
    have hng := h.ng
    rw [c3_ret_last s.drv [] r h.nf hin (by omega) hc hr.host (by omega) hr.pid]
    have hLOK : c3_LOK s.drv.alloc r.pid r.host (migOrder s.drv.ngpu r.map) :=
      ⟨fun x hx => ⟨(hr.req x hx).1, (hr.req x hx).2, (hpg.found x hx).1, (hpg.found x hx).2⟩, hr.pagesNd, hpg.free⟩
    obtain ⟨a', new, heq, hN⟩ := c3_mkMigs s.w.sys r.pid r.pageSize r.host hr.host (migOrder s.drv.ngpu r.map)
      { s.drv with shoot := 0, gpuIn := [] } h.nf hLOK h.frames h.rel.ranges
      (by show s.drv.mig + _ < _; rw [hmig]; have := hr.pagesLt; omega)
    rw [heq]
    exact c3_case2 h r σ loc hwait hsent hatg hh hc hr hct htc hone hb hw hm a' new hN

end SY
end C19
