import MgpuProofs.C09PCP6
/-! # C09 — partition algorithm inside the command processor, part 7: the run-level wrapper `pinv_run`
    and the demo data used by the examples of `Props/C09PCP.lean`. -/
namespace C09

/-- one SIMD with two wavefront slots, 64 SGPRs (4 units), 512 VGPRs (2 units), 1 KiB LDS -/
def pdemoCU : CU := (mkCU [2] (some 64) [some 512] (some 1024)).getD default
/-- the same without wavefront slots: it refuses every work-group -/
def pdemoCU0 : CU := (mkCU [0] (some 64) [some 512] (some 1024)).getD default
def pdemoPool : List CU := [pdemoCU, pdemoCU]
def pdemoCfg : Cfg := ⟨false, 0, 1, 0, 0⟩
/-- launch 7 with 5 one-wavefront work-groups on 2 CUs (partitions {0,1,2} and {3,4}), completions out of
    order and batched -/
def pdemoOps : List Op :=
  [.launch ⟨7, 320, 64, 16, 4, 256⟩, .tick, .tick, .complete [1], .complete [0], .tick, .tick,
   .complete [2, 3], .complete [4], .tick, .tick, .tick]
/-- launch 3 with 4 work-groups on a pool whose second CU refuses everything: partition 1's work-groups
    are stolen by CU 0 once partition 0 is used up -/
def pstealOps : List Op :=
  [.launch ⟨3, 256, 64, 16, 4, 256⟩, .tick, .tick, .complete [0, 1], .tick, .tick, .complete [2], .tick,
   .tick, .complete [3], .tick, .tick, .tick]

def pshowEv : Ev → Nat × Nat × Nat × Nat
  | .map r c l i _ => (r, c, l, i)
  | .rsp l => (99, 99, l, 99)

theorem pdemoPool_ok : PoolInv [[2], [2]] pdemoPool ∧ ∀ cu ∈ pdemoPool, cu.resident = [] := by
  have hcu : mkCU [2] (some 64) [some 512] (some 1024) = some pdemoCU := by decide
  have hinv : Inv [2] pdemoCU := mkCU_inv _ _ _ _ pdemoCU hcu rfl (by decide)
  refine ⟨⟨rfl, ?_⟩, ?_⟩
  · intro c hc
    have hc' : c < 2 := hc
    have : c = 0 ∨ c = 1 := by omega
    rcases this with rfl | rfl <;> exact hinv
  · intro cu hcu'
    simp only [pdemoPool, List.mem_cons, List.not_mem_nil, or_false, or_self] at hcu'
    subst hcu'
    decide

theorem p_mem_launchKerns (ops : List Op) (k : Kern) (h : Op.launch k ∈ ops) : k ∈ pLaunchKerns ops :=
  List.mem_filterMap.2 ⟨.launch k, h, rfl⟩

/-- the invariant of every run (without / with the trace part) -/
theorem pinv_run (b : Bool) (caps : List (List Nat)) (cfg : Cfg) (nd : Nat) (pool : List CU) (ops : List Op)
    (hempty : ∀ cu ∈ pool, cu.resident = []) (hp : PoolInv caps pool)
    (hops : ∀ k, .launch k ∈ ops → KernOK k) (hids : b = true → (launchIds ops).Nodup) :
    PInv b caps (pLaunchKerns ops) [] (prun (mkPCP cfg nd pool) ops) :=
  prun_inv ops _
    (mkPCP_inv b caps (pLaunchKerns ops) (launchIds ops) cfg nd pool hp hempty
      (fun hb => by rw [← p_launchIds_eq]; exact hids hb) hids)
    (fun k hk => ⟨fun _ => p_mem_launchKerns ops k hk, hops k hk⟩)

theorem pdemoOps_ok : (launchIds pdemoOps).Nodup ∧ ∀ k, Op.launch k ∈ pdemoOps → KernOK k := by
  refine ⟨by decide, ?_⟩
  intro k hk
  simp only [pdemoOps, List.mem_cons, List.not_mem_nil, or_false, reduceCtorEq, Op.launch.injEq] at hk
  subst hk
  exact ⟨by decide, by decide⟩

/-- back-pressure: after three MapWGReqs the port is full, a fourth work-group is placed and waits -/
def paccOps : List Op := [.launch ⟨7, 320, 64, 16, 4, 256⟩, .tick, .cuRoom 3, .tick, .complete [1]]

end C09
