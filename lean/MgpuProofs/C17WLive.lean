import MgpuProofs.C17Live
import MgpuProofs.C17WBnd
/-! C17, liveness for every pipeline width — the bank-level argument.

With several lanes the *position* of an item says nothing about its age, so the one-lane measure (`C17Live`: sum of the
weights of the requests ahead in the FIFO chain, head strictly lighter in every accepting tick) does not work: the oldest
request can sit exit-ready in lane 1 while lane 0 fills the post-pipeline buffer with younger requests.  What the repair
gives instead:

* the oldest request (`inOrder[0]`) is never refused by the port while it is still in the pipeline — `finalizeSingle` then
  only moves the (younger) post-buffer items to the set-aside list, the post buffer is **empty** afterwards;
* once something is set aside the `canAccept` gate is closed, so the *total* work left in the lanes (`laneWork`) strictly
  decreases with every tick (`tickLanes` with an empty post buffer always moves somebody);
* while the gate is still open (`early = []`, `post = []`) either nothing leaves the lanes — the total work plus the work
  the free slots can still take in decreases — or something leaves and the gate is closed from the next tick on.

`headPot` puts this into one number (remaining pipeline work, set-aside flag, post-buffer position). -/
namespace C17
namespace WLive
open WBnd

def wsum (l : WL) : Nat := (l.map (·.2)).sum

theorem wsum_nil : wsum [] = 0 := rfl
theorem wsum_append (a b : WL) : wsum (a ++ b) = wsum a + wsum b := by simp [wsum]
theorem wsum_wPost (p : List Item) : wsum (wPost p) = p.length := by
  induction p with
  | nil => rfl
  | cons a t ih => simp only [wsum, wPost, List.map_cons, List.sum_cons, List.length_cons] at *; omega

theorem dom_wsum_le {a b : WL} (h : Dom a b) : wsum b ≤ wsum a := by
  induction h with
  | nil => exact Nat.le_refl _
  | cons hw _ ih => simp only [wsum, List.map_cons, List.sum_cons] at *; omega

theorem dom_wsum_lt {a b : WL} (h : Dom a b) (hs : Strict a b) (hne : a ≠ []) : wsum b < wsum a := by
  cases h with
  | nil => exact absurd rfl hne
  | cons hw ht =>
    have h1 := hs hne
    have h2 := dom_wsum_le ht
    simp only [hd] at h1
    simp only [wsum, List.map_cons, List.sum_cons] at *
    omega

/-- total work left in the lanes of a bank: every item counted with the ticks it needs when nothing is in its way -/
def laneWork (c : Cfg) (lanes : List Lane) : Nat := wsum (lanes.flatMap (wLane c 0))

theorem laneWork_nil (c : Cfg) : laneWork c [] = 0 := rfl
theorem laneWork_cons (c : Cfg) (l : Lane) (ls : List Lane) : laneWork c (l :: ls) = wsum (wLane c 0 l) + laneWork c ls := by
  simp [laneWork, wsum_append]

theorem tickLanes_cons (c : Cfg) (post : List Item) (l : Lane) (ls : List Lane) :
    tickLanes c post (l :: ls) = ((tickLanes c (tickLane c post l).1 ls).1,
      (tickLane c post l).2 :: (tickLanes c (tickLane c post l).1 ls).2) := rfl

theorem tickLane_work (c : Cfg) (post : List Item) (l : Lane) :
    (tickLane c post l).1.length + wsum (wLane c 0 (tickLane c post l).2) ≤ post.length + wsum (wLane c 0 l) := by
  have := dom_wsum_le (tickLane_dom c post l)
  rwa [wsum_append, wsum_append, wsum_wPost, wsum_wPost] at this

/-- no phase of the pipeline tick adds work: what reaches the post buffer counts 1 -/
theorem tickLanes_work (c : Cfg) : ∀ (ls : List Lane) (post : List Item),
    (tickLanes c post ls).1.length + laneWork c (tickLanes c post ls).2 ≤ post.length + laneWork c ls
  | [], post => Nat.le_refl _
  | l :: ls, post => by
    have h1 := tickLane_work c post l
    have h2 := tickLanes_work c ls (tickLane c post l).1
    rw [tickLanes_cons, laneWork_cons, laneWork_cons]
    dsimp only
    omega

/-- with an empty post buffer (capacity ≥ 1) the pipeline tick strictly reduces the work, if there is any -/
theorem tickLanes_work_lt (c : Cfg) (hp : 0 < c.post) : ∀ (ls : List Lane), 0 < laneWork c ls →
    (tickLanes c [] ls).1.length + laneWork c (tickLanes c [] ls).2 < laneWork c ls
  | [], h => by simp [laneWork_nil] at h
  | l :: ls, h => by
    rw [tickLanes_cons, laneWork_cons, laneWork_cons]
    dsimp only
    by_cases he : wLane c 0 l = []
    · have hd := tickLane_dom c [] l
      have hn := Dom.nil_right hd (by simp [wPost, he])
      have hn1 : (tickLane c [] l).1 = [] := by
        have := (List.append_eq_nil_iff.1 hn).1
        simpa [wPost] using this
      have hn2 : wLane c 0 (tickLane c [] l).2 = [] := (List.append_eq_nil_iff.1 hn).2
      rw [laneWork_cons, he, wsum_nil] at h
      have ih := tickLanes_work_lt c hp ls (by omega)
      rw [hn1, hn2, he, wsum_nil]
      omega
    · have hd := tickLane_dom c [] l
      have hs := tickLane_strict c hp l
      have hlt := dom_wsum_lt hd hs (by simpa [wPost] using he)
      rw [wsum_append, wsum_append, wsum_wPost, wsum_wPost] at hlt
      have h2 := tickLanes_work c ls (tickLane c [] l).1
      simp only [List.length_nil] at hlt
      omega

/-! ### accepting a request -/

theorem acceptLanes_work (c : Cfg) (hd0 : 0 < c.depth) (x : Item) : ∀ (ls ls' : List Lane),
    acceptLanes (x, c.lat - 1) ls = some ls' → (∀ l ∈ ls, l.length = c.depth) →
    laneWork c ls' = laneWork c ls + wEntry c := by
  intro ls
  induction ls with
  | nil => intro ls' h; simp [acceptLanes] at h
  | cons l ls ih =>
    intro ls' h hl
    simp only [acceptLanes] at h
    cases ha : acceptLane (x, c.lat - 1) l with
    | some l' =>
      rw [ha] at h
      cases h
      have := (acceptLane_w c (x, c.lat - 1) l l' 0 ha).1
      rw [laneWork_cons, laneWork_cons, this, wsum_append]
      have hlen := hl l (by simp)
      have e : (0 + l.length - 1) * stageCost c + stageCost c = c.depth * stageCost c := by
        rw [← Nat.succ_mul]; congr 1; omega
      simp only [wsum, List.map_cons, List.map_nil, List.sum_cons, List.sum_nil, wEntry]
      simp only [stageCost] at *
      omega
    | none =>
      rw [ha] at h
      simp only [Option.map_eq_some_iff] at h
      obtain ⟨l2, h2, rfl⟩ := h
      have := ih l2 h2 (fun y hy => hl y (by simp [hy]))
      rw [laneWork_cons, laneWork_cons, this]
      omega

/-! ### the potential of the oldest request of a bank -/

def gateOpen (b : WBank) : Bool := b.early.isEmpty && b.post.isEmpty

/-- free pipeline stages -/
def freeSlots (c : Cfg) (b : WBank) : Nat := c.width * c.depth - laneCount b.lanes

/-- has the oldest request `o` left the pipeline (it waits in the post buffer or is set aside)? -/
def outOfPipe (b : WBank) (o : Req) : Prop := o ∈ b.post.map (·.req) ∨ o ∈ b.early.map (·.req)

instance (b : WBank) (o : Req) : Decidable (outOfPipe b o) := by unfold outOfPipe; exact inferInstance

/-- **The measure**: number of ticks (in which the port takes the bank's responses) until `inOrder[0]` is answered.
Out of the pipeline: the next accepting `finalizeSingle` loop reaches it (1).  In the pipeline: the work left in the lanes;
while the `canAccept` gate is open (`nothing set aside, post buffer empty`) the work the free stages can still take in and
one full pipeline of requests that may leave before the gate closes are added. -/
def headPot (c : Cfg) (b : WBank) : Nat := match b.order with
  | [] => 0
  | o :: _ =>
    if outOfPipe b o then 1
    else 2 + laneWork c b.lanes +
      (if gateOpen b then (freeSlots c b + c.width * c.depth) * wEntry c + 1 else 0)

/-- a request enters the bank (from the delay queue or from `dispatchPending`), any number of times -/
inductive AccStar (c : Cfg) : WBank → WBank → Prop
  | refl (b : WBank) : AccStar c b b
  | step {b b1 b2 : WBank} (it : Item) : accW c it b = some b1 → AccStar c b1 b2 → AccStar c b b2
  /-- bookkeeping outside the pipeline (delay queue, open row) -/
  | other {b b1 b2 : WBank} : b1.lanes = b.lanes → b1.post = b.post → b1.early = b.early → b1.order = b.order →
      AccStar c b1 b2 → AccStar c b b2

theorem accW_spec (c : Cfg) (hd0 : 0 < c.depth) (it : Item) (b b' : WBank) (hg : Good c b) (h : accW c it b = some b') :
    b.early = [] ∧ b'.early = [] ∧ b'.post = b.post ∧ b'.order = b.order ++ [it.req] ∧
    laneWork c b'.lanes = laneWork c b.lanes + wEntry c ∧ laneCount b'.lanes = laneCount b.lanes + 1 := by
  unfold accW at h
  split at h
  · rename_i he
    have he' : b.early = [] := by simpa using he
    cases ha : acceptLanes (it, c.lat - 1) b.lanes with
    | none => rw [ha] at h; simp at h
    | some ls' =>
      rw [ha] at h
      cases h
      exact ⟨he', he', rfl, rfl, acceptLanes_work c hd0 it _ _ ha hg.bnd.ll,
        (acceptLanes_bnd _ c.depth _ _ ha hg.bnd.ll).2.2⟩
  · simp at h

/-- what a sequence of accepts does: only possible with nothing set aside; the head of `order` stays -/
theorem accStar_spec (c : Cfg) (hd0 : 0 < c.depth) {b b' : WBank} (h : AccStar c b b') : Good c b →
    Good c b' ∧ b'.post = b.post ∧ b'.early = b.early ∧ (∃ t, b'.order = b.order ++ t) ∧
    (b.early ≠ [] → b'.lanes = b.lanes) ∧
    laneWork c b'.lanes + freeSlots c b' * wEntry c = laneWork c b.lanes + freeSlots c b * wEntry c := by
  induction h with
  | refl b => intro hg; exact ⟨hg, rfl, rfl, ⟨[], by simp⟩, fun _ => rfl, rfl⟩
  | @step b0 b1 b2 it ha _ ih =>
    intro hg
    obtain ⟨e0, e1, p1, o1, w1, c1⟩ := accW_spec c hd0 it _ _ hg ha
    have hg1 := accW_good c it _ _ hg ha
    obtain ⟨g2, p2, e2, ⟨t, o2⟩, _, w2⟩ := ih hg1
    refine ⟨g2, by rw [p2, p1], by rw [e2, e1, e0], ⟨it.req :: t, by rw [o2, o1]; simp⟩,
      fun hne => absurd e0 hne, ?_⟩
    rw [w2, w1]
    have hcap := laneCount_le c.depth b1.lanes hg1.bnd.ll
    rw [hg1.bnd.nl] at hcap
    have : freeSlots c b0 = freeSlots c b1 + 1 := by unfold freeSlots; omega
    rw [this, Nat.add_mul]
    omega
  | @other b0 b1 b2 hl hp he hord _ ih =>
    intro hg
    have hg1 := good_congr c b0 b1 hg hl hp he hord
    obtain ⟨g2, p2, e2, ⟨t, o2⟩, l2, w2⟩ := ih hg1
    refine ⟨g2, by rw [p2, hp], by rw [e2, he], ⟨t, by rw [o2, hord]⟩, fun hne => ?_, ?_⟩
    · rw [l2 (by rw [he]; exact hne), hl]
    · rw [w2]; unfold freeSlots; rw [hl]

/-! ### `finalizeSingle` while the oldest request is still in the pipeline -/

theorem find_none_of_not_mem (o : Req) : ∀ (l : List Item), o ∉ l.map (·.req) →
    l.find? (fun it => decide (it.req = o)) = none := by
  intro l h
  rw [List.find?_eq_none]
  intro x hx
  simp only [decide_eq_true_eq]
  intro he
  exact h (List.mem_map.2 ⟨x, hx, he⟩)

/-- the oldest request is not in the post buffer and not set aside: the loop of `finalizeSingle` moves the whole post
buffer to the set-aside list, touches nothing else and never looks at the port -/
theorem fin_in_pipe (c : Cfg) : ∀ (fuel : Nat) (b : WBank) (log : List Req) (out resp : List Rsp) (pg : Bool)
    (o : Req) (os : List Req), b.order = o :: os → o ∉ b.early.map (·.req) → o ∉ b.post.map (·.req) →
    b.post.length ≤ fuel →
    (finalizeBankW c fuel b log out resp pg).bank = { b with post := [], early := b.early ++ b.post } ∧
    (finalizeBankW c fuel b log out resp pg).fault = none ∧ (finalizeBankW c fuel b log out resp pg).log = log ∧
    (finalizeBankW c fuel b log out resp pg).out = out ∧ (finalizeBankW c fuel b log out resp pg).resp = resp := by
  intro fuel
  induction fuel with
  | zero =>
    intro b log out resp pg o os _ _ _ hl
    have hp : b.post = [] := List.eq_nil_of_length_eq_zero (by omega)
    refine ⟨?_, rfl, rfl, rfl, rfl⟩
    show b = _
    cases b
    simp only at hp
    subst hp
    simp
  | succ fuel ih =>
    intro b log out resp pg o os ho he hp hl
    simp only [finalizeBankW, ho]
    rw [find_none_of_not_mem o b.early he]
    dsimp only
    cases hpo : b.post with
    | nil =>
      refine ⟨?_, rfl, rfl, rfl, rfl⟩
      show b = _
      cases b
      simp only at hpo ho
      subst hpo
      simp [ho]
    | cons h t =>
      dsimp only
      rw [hpo] at hp hl
      have hne : ¬ h.req = o := by
        intro e; apply hp; simp [e]
      rw [if_neg hne]
      have := ih ⟨b.lanes, t, b.lastRow, b.dq, o :: os, b.early ++ [h]⟩ log out resp true o os rfl
        (by
          show o ∉ (b.early ++ [h]).map (·.req)
          rw [List.map_append, List.mem_append]
          rintro (x | x)
          · exact he x
          · simp at x; exact hne x.symm)
        (by
          show o ∉ t.map (·.req)
          intro x; apply hp; simp only [List.map_cons, List.mem_cons]; exact Or.inr x)
        (by show t.length ≤ fuel; simp only [List.length_cons] at hl; omega)
      obtain ⟨a1, a2, a3, a4, a5⟩ := this
      refine ⟨?_, a2, a3, a4, a5⟩
      rw [a1]
      simp [List.append_assoc]

/-! ### `finalizeSingle` once the oldest request has left the pipeline -/

/-- the loop never makes `inOrder` longer -/
theorem fin_order_le (c : Cfg) : ∀ (fuel : Nat) (b : WBank) (log : List Req) (out resp : List Rsp) (pg : Bool),
    (finalizeBankW c fuel b log out resp pg).bank.order.length ≤ b.order.length := by
  intro fuel
  induction fuel with
  | zero => intro b log out resp pg; exact Nat.le_refl _
  | succ fuel ih =>
    intro b log out resp pg
    cases ho : b.order with
    | nil => simp only [finalizeBankW, ho]; exact Nat.le_refl _
    | cons o os =>
      simp only [finalizeBankW, ho]
      cases hf : b.early.find? (fun it => decide (it.req = o)) with
      | some it =>
        dsimp only
        split
        · (first | exact Nat.le_refl _ | exact Nat.le_of_eq (congrArg List.length ho))
        · cases hc : commit it log with
          | none => dsimp only; (first | exact Nat.le_refl _ | exact Nat.le_of_eq (congrArg List.length ho))
          | some p =>
            obtain ⟨it', log'⟩ := p
            dsimp only
            split
            · refine Nat.le_trans (ih _ _ _ _ _) ?_
              show os.length ≤ _
              simp
            · (first | exact Nat.le_refl _ | exact Nat.le_of_eq (congrArg List.length ho))
      | none =>
        dsimp only
        cases hp : b.post with
        | nil => dsimp only; (first | exact Nat.le_refl _ | exact Nat.le_of_eq (congrArg List.length ho))
        | cons hd t =>
          dsimp only
          split
          · split
            · (first | exact Nat.le_refl _ | exact Nat.le_of_eq (congrArg List.length ho))
            · cases hc : commit hd log with
              | none => dsimp only; (first | exact Nat.le_refl _ | exact Nat.le_of_eq (congrArg List.length ho))
              | some p =>
                obtain ⟨h', log'⟩ := p
                dsimp only
                split
                · refine Nat.le_trans (ih _ _ _ _ _) ?_
                  show os.length ≤ _
                  simp
                · (first | exact Nat.le_refl _ | exact Nat.le_of_eq (congrArg List.length ho))
          · exact Nat.le_trans (ih _ _ _ _ _) (Nat.le_refl _)

theorem hasC_of_mem (b : WBank) (it : Item) (h : it ∈ wItems b) (hc : it.committed = true) : hasC b = true :=
  (hasC_iff b).2 ⟨it, h, hc⟩

/-- the oldest request waits in the post buffer or is set aside, the loop does not panic and is not stopped by a full
port (no committed item is left behind): the oldest request is answered — `inOrder` loses its head -/
theorem fin_out_of_pipe (c : Cfg) : ∀ (fuel : Nat) (b : WBank) (log : List Req) (out resp : List Rsp) (pg : Bool)
    (o : Req) (os : List Req), b.order = o :: os → outOfPipe b o → b.post.length + 1 ≤ fuel →
    (finalizeBankW c fuel b log out resp pg).fault = none →
    hasC (finalizeBankW c fuel b log out resp pg).bank = false →
    (finalizeBankW c fuel b log out resp pg).bank.order.length ≤ os.length := by
  intro fuel
  induction fuel with
  | zero => intro b log out resp pg o os _ _ hl; omega
  | succ fuel ih =>
    intro b log out resp pg o os ho hout hl
    simp only [finalizeBankW, ho]
    cases hf : b.early.find? (fun it => decide (it.req = o)) with
    | some it =>
      have hmem := List.mem_of_find?_eq_some hf
      have hreq : it.req = o := by have := List.find?_some hf; simpa using this
      dsimp only
      split
      · intro h; cases h
      · cases hc : commit it log with
        | none => dsimp only; intro h; cases h
        | some p =>
          obtain ⟨it', log'⟩ := p
          dsimp only
          split
          · intro _ _
            refine Nat.le_trans (fin_order_le c _ _ _ _ _ _) ?_
            exact Nat.le_refl _
          · intro _ hh
            exfalso
            have hc' := (commit_spec it it' log log' hc).2.1
            have : hasC ⟨b.lanes, b.post, b.lastRow, b.dq, o :: os, b.early.map (fun e => if e.req = o then it' else e)⟩ = true := by
              apply hasC_of_mem _ it' _ hc'
              unfold wItems
              apply List.mem_append_right
              exact List.mem_map.2 ⟨it, hmem, by simp [hreq]⟩
            rw [this] at hh
            cases hh
    | none =>
      have hne : ∀ x ∈ b.early, ¬ x.req = o := by
        intro x hx
        have := (List.find?_eq_none.1 hf) x hx
        simpa using this
      have hpost : o ∈ b.post.map (·.req) := by
        rcases hout with h | h
        · exact h
        · obtain ⟨x, hx, hxo⟩ := List.mem_map.1 h
          exact absurd hxo (hne x hx)
      dsimp only
      cases hp : b.post with
      | nil => rw [hp] at hpost; simp at hpost
      | cons hd t =>
        dsimp only
        rw [hp] at hpost hl
        split
        · rename_i hdo
          split
          · intro h; cases h
          · cases hc : commit hd log with
            | none => dsimp only; intro h; cases h
            | some p =>
              obtain ⟨h', log'⟩ := p
              dsimp only
              split
              · intro _ _
                refine Nat.le_trans (fin_order_le c _ _ _ _ _ _) ?_
                exact Nat.le_refl _
              · intro _ hh
                exfalso
                have hc' := (commit_spec hd h' log log' hc).2.1
                have : hasC ⟨b.lanes, h' :: t, b.lastRow, b.dq, o :: os, b.early⟩ = true := by
                  apply hasC_of_mem _ h' _ hc'
                  unfold wItems
                  apply List.mem_append_left
                  apply List.mem_append_left
                  exact List.mem_cons_self
                rw [this] at hh
                cases hh
        · rename_i hdo
          apply ih ⟨b.lanes, t, b.lastRow, b.dq, o :: os, b.early ++ [hd]⟩ log out resp true o os rfl
          · left
            show o ∈ t.map (·.req)
            simp only [List.map_cons, List.mem_cons] at hpost
            rcases hpost with h | h
            · exact absurd h.symm hdo
            · exact h
          · show t.length + 1 ≤ fuel
            simp only [List.length_cons] at hl; omega

/-! ### one tick of a bank while its oldest request is in the pipeline -/

theorem mem_le_wsum : ∀ (l : WL) (a : Req × Nat), a ∈ l → a.2 ≤ wsum l := by
  intro l
  induction l with
  | nil => intro a h; cases h
  | cons x t ih =>
    intro a h
    simp only [wsum, List.map_cons, List.sum_cons]
    rcases List.mem_cons.1 h with rfl | h
    · omega
    · have := ih a h; simp only [wsum] at this; omega

/-- an item in the lanes means work -/
theorem laneWork_pos (c : Cfg) (lanes : List Lane) (it : Item) (h : it ∈ lanes.flatMap laneItems) :
    0 < laneWork c lanes := by
  obtain ⟨l, hl, hit⟩ := List.mem_flatMap.1 h
  have h1 : it.req ∈ (wLane c 0 l).map (·.1) := by
    rw [wLane_reqs]; exact List.mem_map.2 ⟨it, hit, rfl⟩
  obtain ⟨a, ha, _⟩ := List.mem_map.1 h1
  have h2 := wLane_pos c l 0 a ha
  have h3 : a ∈ lanes.flatMap (wLane c 0) := List.mem_flatMap.2 ⟨l, hl, ha⟩
  have h4 := mem_le_wsum _ a h3
  unfold laneWork
  omega

/-- **The measure decreases** (bank level, every width and depth). The oldest request `o` of the bank is still in the
pipeline. One tick — the `finalizeSingle` loop (whatever the port does), `tickPipelines`, then any number of new
requests entering the bank (delay queue, `dispatchPending`) — strictly reduces `headPot`. -/
theorem headPot_step (c : Cfg) (hd0 : 0 < c.depth) (hp0 : 0 < c.post) (b b3 : WBank) (log : List Req)
    (out resp : List Rsp) (pg : Bool) (fuel : Nat) (o : Req) (os : List Req) (hg : Good c b)
    (ho : b.order = o :: os) (hin : ¬ outOfPipe b o) (hwork : 0 < laneWork c b.lanes) (hf : b.post.length ≤ fuel)
    (hacc : AccStar c (tickBankPipeW c (finalizeBankW c fuel b log out resp pg).bank) b3) :
    headPot c b3 < headPot c b := by
  have hin1 : o ∉ b.early.map (·.req) := fun h => hin (Or.inr h)
  have hin2 : o ∉ b.post.map (·.req) := fun h => hin (Or.inl h)
  obtain ⟨e1, _, _, _, _⟩ := fin_in_pipe c fuel b log out resp pg o os ho hin1 hin2 hf
  have hg1 := finalizeBankW_good c fuel b log out resp pg hg
  have hg2 := tickBankPipeW_good c _ hg1
  obtain ⟨hg3, p3, e3, ⟨t, o3⟩, l3, w3⟩ := accStar_spec c hd0 hacc hg2
  rw [e1] at p3 e3 o3 l3 w3
  simp only [tickBankPipeW] at p3 e3 o3 l3 w3
  have hlt := tickLanes_work_lt c hp0 b.lanes hwork
  have hb := tickLanes_bnd c c.depth b.lanes [] (Nat.zero_le _) hg.bnd.ll
  obtain ⟨_, _, _, hcnt⟩ := hb
  simp only [List.length_nil, Nat.zero_add] at hcnt
  have hcap := laneCount_le c.depth b.lanes hg.bnd.ll
  rw [hg.bnd.nl] at hcap
  have old : headPot c b = 2 + laneWork c b.lanes +
      (if gateOpen b then (freeSlots c b + c.width * c.depth) * wEntry c + 1 else 0) := by
    unfold headPot; rw [ho]; simp only [if_neg hin]
  have new : headPot c b3 ≤ 2 + laneWork c b3.lanes +
      (if gateOpen b3 then (freeSlots c b3 + c.width * c.depth) * wEntry c + 1 else 0) := by
    unfold headPot; rw [o3, ho]; simp only [List.cons_append]
    split
    · omega
    · exact Nat.le_refl _
  rw [old]
  refine Nat.lt_of_le_of_lt new ?_
  cases hgo : gateOpen b with
  | false =>
    have hne : b.early ++ b.post ≠ [] := by
      intro h
      have := List.append_eq_nil_iff.1 h
      simp [gateOpen, this.1, this.2] at hgo
    have hl3 := l3 hne
    have hg3' : gateOpen b3 = false := by
      unfold gateOpen; rw [e3]
      cases hh : b.early ++ b.post with
      | nil => exact absurd hh hne
      | cons _ _ => rfl
    rw [hg3', hl3]
    simp only [Bool.false_eq_true, if_false]
    omega
  | true =>
    have he : b.early = [] := by
      unfold gateOpen at hgo; simp only [Bool.and_eq_true, List.isEmpty_iff] at hgo; exact hgo.1
    have hpo : b.post = [] := by
      unfold gateOpen at hgo; simp only [Bool.and_eq_true, List.isEmpty_iff] at hgo; exact hgo.2
    simp only [if_true]
    have hF2 : freeSlots c ⟨(tickLanes c [] b.lanes).2, (tickLanes c [] b.lanes).1, b.lastRow, b.dq, b.order,
        b.early ++ b.post⟩ = c.width * c.depth - laneCount (tickLanes c [] b.lanes).2 := rfl
    have hF0 : freeSlots c b = c.width * c.depth - laneCount b.lanes := rfl
    by_cases hex : (tickLanes c [] b.lanes).1 = []
    · -- nothing left the lanes: the gate may stay open
      have hc2 : laneCount (tickLanes c [] b.lanes).2 = laneCount b.lanes := by
        rw [hex] at hcnt; simpa using hcnt
      rw [hex] at hlt
      simp only [List.length_nil, Nat.zero_add] at hlt
      have hb : (if gateOpen b3 then (freeSlots c b3 + c.width * c.depth) * wEntry c + 1 else 0)
          ≤ (freeSlots c b3 + c.width * c.depth) * wEntry c + 1 := by split <;> omega
      rw [hF2, hc2, ← hF0] at w3
      rw [Nat.add_mul] at hb ⊢
      rw [Nat.add_mul]
      omega
    · -- something left the lanes: the gate is closed from now on
      have hg3' : gateOpen b3 = false := by
        unfold gateOpen; rw [p3]
        cases hh : (tickLanes c [] b.lanes).1 with
        | nil => exact absurd hh hex
        | cons _ _ => simp
      rw [hg3']
      simp only [Bool.false_eq_true, if_false]
      have hle : (c.width * c.depth - laneCount (tickLanes c [] b.lanes).2) * wEntry c
          ≤ (freeSlots c b + c.width * c.depth) * wEntry c :=
        Nat.mul_le_mul_right _ (by omega)
      rw [hF2] at w3
      omega

/-! ### a refused tick keeps the oldest request where it is -/

/-- if the loop leaves `inOrder` as it was, a request that had left the pipeline is still in the post buffer / set aside -/
theorem fin_stays_out (c : Cfg) : ∀ (fuel : Nat) (b : WBank) (log : List Req) (out resp : List Rsp) (pg : Bool)
    (o : Req) (os : List Req), b.order = o :: os → outOfPipe b o →
    (finalizeBankW c fuel b log out resp pg).bank.order = o :: os →
    outOfPipe (finalizeBankW c fuel b log out resp pg).bank o := by
  intro fuel
  induction fuel with
  | zero => intro b log out resp pg o os _ hout _; exact hout
  | succ fuel ih =>
    intro b log out resp pg o os ho hout
    simp only [finalizeBankW, ho]
    cases hf : b.early.find? (fun it => decide (it.req = o)) with
    | some it =>
      have hmem := List.mem_of_find?_eq_some hf
      have hreq : it.req = o := by have := List.find?_some hf; simpa using this
      dsimp only
      split
      · intro _; exact hout
      · cases hc : commit it log with
        | none => dsimp only; intro _; exact hout
        | some p =>
          obtain ⟨it', log'⟩ := p
          dsimp only
          split
          · intro hh
            exfalso
            have := fin_order_le c fuel { b with order := os, early := b.early.filter (fun e => !decide (e.req = o)) }
              log' (out ++ [rspOf it']) (resp ++ [rspOf it']) true
            rw [hh] at this
            simp only [List.length_cons] at this
            omega
          · intro _
            right
            show o ∈ (b.early.map (fun e => if e.req = o then it' else e)).map (·.req)
            have hr' := (commit_spec it it' log log' hc).1
            exact List.mem_map.2 ⟨it', List.mem_map.2 ⟨it, hmem, by simp [hreq]⟩, by rw [hr', hreq]⟩
    | none =>
      have hne : ∀ x ∈ b.early, ¬ x.req = o := by
        intro x hx
        have := (List.find?_eq_none.1 hf) x hx
        simpa using this
      have hpost : o ∈ b.post.map (·.req) := by
        rcases hout with h | h
        · exact h
        · obtain ⟨x, hx, hxo⟩ := List.mem_map.1 h
          exact absurd hxo (hne x hx)
      dsimp only
      cases hp : b.post with
      | nil => rw [hp] at hpost; simp at hpost
      | cons hd t =>
        dsimp only
        rw [hp] at hpost
        split
        · rename_i hdo
          split
          · intro _; exact hout
          · cases hc : commit hd log with
            | none => dsimp only; intro _; exact hout
            | some p =>
              obtain ⟨h', log'⟩ := p
              dsimp only
              split
              · intro hh
                exfalso
                have := fin_order_le c fuel { b with order := os, post := t } log' (out ++ [rspOf h'])
                  (resp ++ [rspOf h']) true
                rw [hh] at this
                simp only [List.length_cons] at this
                omega
              · intro _
                left
                show o ∈ (h' :: t).map (·.req)
                have hr' := (commit_spec hd h' log log' hc).1
                simp [hr', hdo]
        · rename_i hdo
          apply ih ⟨b.lanes, t, b.lastRow, b.dq, o :: os, b.early ++ [hd]⟩ log out resp true o os rfl
          left
          show o ∈ t.map (·.req)
          simp only [List.map_cons, List.mem_cons] at hpost
          rcases hpost with h | h
          · exact absurd h.symm hdo
          · exact h

theorem tickLane_post_prefix (c : Cfg) (post : List Item) (l : Lane) : ∃ t, (tickLane c post l).1 = post ++ t := by
  cases l with
  | nil => exact ⟨[], by simp [tickLane]⟩
  | cons e rest =>
    cases e with
    | none => exact ⟨[], by simp [tickLane]⟩
    | some p =>
      obtain ⟨it, left⟩ := p
      simp only [tickLane]
      split
      · exact ⟨[], by simp⟩
      · split
        · exact ⟨[it], rfl⟩
        · exact ⟨[], by simp⟩

theorem tickLanes_post_prefix (c : Cfg) : ∀ (ls : List Lane) (post : List Item), ∃ t, (tickLanes c post ls).1 = post ++ t
  | [], post => ⟨[], by simp [tickLanes]⟩
  | l :: ls, post => by
    obtain ⟨t1, h1⟩ := tickLane_post_prefix c post l
    obtain ⟨t2, h2⟩ := tickLanes_post_prefix c ls (tickLane c post l).1
    rw [tickLanes_cons]
    exact ⟨t1 ++ t2, by dsimp only; rw [h2, h1, List.append_assoc]⟩

/-- after the `finalizeSingle` loop left `o` at the head of `inOrder` outside the pipeline, the rest of the tick keeps
it there: the measure stays 1 -/
theorem headPot_stays (c : Cfg) (hd0 : 0 < c.depth) (b1 b3 : WBank) (o : Req) (os : List Req) (hg : Good c b1)
    (ho : b1.order = o :: os) (hout : outOfPipe b1 o) (hacc : AccStar c (tickBankPipeW c b1) b3) :
    b3.order.head? = some o ∧ outOfPipe b3 o ∧ headPot c b3 = 1 := by
  have hg2 := tickBankPipeW_good c _ hg
  obtain ⟨_, p3, e3, ⟨t, o3⟩, _, _⟩ := accStar_spec c hd0 hacc hg2
  simp only [tickBankPipeW] at p3 e3 o3
  obtain ⟨t2, h2⟩ := tickLanes_post_prefix c b1.lanes b1.post
  have hout3 : outOfPipe b3 o := by
    rcases hout with h | h
    · left; rw [p3, h2, List.map_append]; exact List.mem_append_left _ h
    · right; rw [e3]; exact h
  refine ⟨by rw [o3, ho]; rfl, hout3, ?_⟩
  unfold headPot
  rw [o3, ho]
  simp only [List.cons_append, if_pos hout3]

end WLive
end C17
