import MgpuModel.C20_Engine
import MgpuProofs.C20_Terminates
/-! # C20 — lemmas about the abstract Akita engine (`MgpuModel/C20_Engine.lean`)

`q.length + Φ(s) · N` strictly decreases on every engine step (also on spurious ticks of
model-asleep components); the wake-up coverage `awake ⊆ q` is an invariant of engine runs. -/
namespace C20
namespace Eng

/-! ## events of a shape -/

theorem mem_allEvs_iff (s : Sys) (x : Ev) : x ∈ allEvs s ↔ x.InRange s.G s.S s.C := by
  unfold allEvs
  cases x <;> simp [Ev.InRange]

theorem allEvs_step (s : Sys) (e : Ev) : allEvs (step s e) = allEvs s :=
  Meas.allEvs_shape (shape_step s e)

theorem allEvs_nodup (s : Sys) : (allEvs s).Nodup := by
  rw [List.nodup_iff_count]
  intro a
  by_cases h : a ∈ allEvs s
  · rw [Meas.count_allEvs s a ((mem_allEvs_iff s a).1 h)]; exact Nat.le_refl 1
  · rw [List.count_eq_zero_of_not_mem h]; exact Nat.zero_le 1

/-- a duplicate-free list inside `m` is no longer than `m` -/
theorem nodup_length_le (l m : List Ev) (hn : l.Nodup) (hs : ∀ x ∈ l, x ∈ m) : l.length ≤ m.length := by
  induction l generalizing m with
  | nil => exact Nat.zero_le _
  | cons x xs ih =>
    have hx : x ∈ m := hs x (List.mem_cons_self ..)
    have hn' := List.nodup_cons.1 hn
    have := ih (m.erase x) hn'.2 (fun y hy =>
      (List.mem_erase_of_ne (fun (e : y = x) => hn'.1 (by rw [← e]; exact hy))).2 (hs y (List.mem_cons_of_mem _ hy)))
    rw [List.length_erase_of_mem hx] at this
    have hp : 0 < m.length := List.length_pos_of_mem hx
    simp only [List.length_cons]
    omega

/-! ## the configuration reached -/

theorem engEnd_fst (s : Sys) (q : List Ev) (steps : List EStep) :
    (engEnd s q steps).1 = run s (steps.map Prod.fst) := by
  induction steps generalizing s q with
  | nil => rfl
  | cons st rest ih =>
    obtain ⟨e, new⟩ := st
    simp only [engEnd, List.map_cons, run, List.foldl_cons]
    exact ih (step s e) _

theorem run_append_one (s : Sys) (evs : List Ev) (e : Ev) : run s (evs ++ [e]) = step (run s evs) e := by
  simp [run, List.foldl_append]

/-! ## the scheduled events stay in range; handled events are in range -/

theorem queue_inRange_step (s : Sys) (q : List Ev) (e : Ev) (new : List Ev) (h : EngStep s q e new)
    (hq : ∀ x ∈ q, x ∈ allEvs s) : ∀ x ∈ q.erase e ++ new, x ∈ allEvs (step s e) := by
  intro x hx
  rw [allEvs_step]
  rcases List.mem_append.1 hx with h1 | h1
  · exact hq x (List.mem_of_mem_erase h1)
  · exact h.inRange x h1

theorem queue_inRange_run (s : Sys) (q : List Ev) (steps : List EStep) (hq : ∀ x ∈ q, x ∈ allEvs s)
    (h : EngRun s q steps) : ∀ x ∈ (engEnd s q steps).2, x ∈ allEvs (engEnd s q steps).1 := by
  induction steps generalizing s q with
  | nil => exact hq
  | cons st rest ih =>
    obtain ⟨e, new⟩ := st
    exact ih _ _ (queue_inRange_step s q e new h.1 hq) h.2

theorem handled_inRange (s : Sys) (q : List Ev) (steps : List EStep) (hq : ∀ x ∈ q, x ∈ allEvs s)
    (h : EngRun s q steps) : ∀ e ∈ steps.map Prod.fst, e ∈ allEvs s := by
  induction steps generalizing s q with
  | nil => intro e he; cases he
  | cons st rest ih =>
    obtain ⟨e, new⟩ := st
    obtain ⟨h1, h2⟩ := h
    intro x hx
    simp only [List.map_cons, List.mem_cons] at hx
    rcases hx with hx | hx
    · rw [hx]; exact hq _ h1.pending
    · have := ih (step s e) _ (queue_inRange_step s q e new h1 hq) h2 x hx
      rwa [allEvs_step] at this

/-! ## the decreasing potential `q.length + Φ · N` -/

/-- one engine step from a reachable state: the new queue length plus `Φ' · N` is smaller -/
theorem potential_step (s : Sys) (q : List Ev) (e : Ev) (new : List Ev) (hl : s.legacy = false)
    (hn : NoGhost s) (hq : ∀ x ∈ q, x ∈ allEvs s) (h : EngStep s q e new) :
    (q.erase e ++ new).length + Phi (step s e) * N s + 1 ≤ q.length + Phi s * N s := by
  have he : e.InRange s.G s.S s.C := (mem_allEvs_iff s e).1 (hq e h.pending)
  have hlen : (q.erase e ++ new).length + 1 = q.length + new.length := by
    rw [List.length_append, List.length_erase_of_mem h.pending]
    have := List.length_pos_of_mem h.pending
    omega
  cases hp : awakeOf (step s e) e with
  | false =>
    have h0 := h.quiet hp
    have h1 := Nat.mul_le_mul_right (N s) (phi_step_le s e hl hn he)
    subst h0
    simp only [List.length_nil] at hlen
    omega
  | true =>
    have h1 := Nat.mul_le_mul_right (N s) (Nat.succ_le_of_lt (phi_step_lt s e hl hn he hp))
    rw [Nat.succ_mul] at h1
    have h2 : new.length ≤ N s := nodup_length_le new (allEvs s) h.nodup h.inRange
    omega

theorem bounded_gen (G S C : Nat) (trace : List Kernel) (evs0 : List Ev) (q : List Ev) (steps : List EStep)
    (hq : ∀ x ∈ q, x ∈ allEvs (run (init false G S C trace) evs0))
    (h : EngRun (run (init false G S C trace) evs0) q steps) :
    steps.length ≤ q.length + Phi (run (init false G S C trace) evs0) * N (run (init false G S C trace) evs0) := by
  induction steps generalizing evs0 q with
  | nil => exact Nat.zero_le _
  | cons st rest ih =>
    obtain ⟨e, new⟩ := st
    obtain ⟨h1, h2⟩ := h
    have hl : (run (init false G S C trace) evs0).legacy = false := (shape_run _ evs0).legacy
    have hn := (inv1_run' G S C trace evs0).noGhost
    have hp := potential_step _ q e new hl hn hq h1
    have hq' := queue_inRange_step _ q e new h1 hq
    rw [← run_append_one] at h2 hq' hp
    have := ih (evs0 ++ [e]) _ hq' h2
    rw [run_append_one, N_step] at this
    rw [run_append_one] at hp
    simp only [List.length_cons]
    omega

/-! ## wake-up coverage is an invariant -/

/-- every component the model considers awake has an event in the queue -/
def Covered (s : Sys) (q : List Ev) : Prop := ∀ x ∈ allEvs s, awakeOf s x = true → x ∈ q

theorem covered_step (s : Sys) (q : List Ev) (e : Ev) (new : List Ev) (h : EngStep s q e new)
    (hc : Covered s q) : Covered (step s e) (q.erase e ++ new) := by
  intro x hx ha
  rw [allEvs_step] at hx
  by_cases hxe : x = e
  · exact h.wake x hx ha (Or.inl hxe)
  · cases hb : awakeOf s x with
    | false => exact h.wake x hx ha (Or.inr hb)
    | true => exact List.mem_append_left _ ((List.mem_erase_of_ne hxe).2 (hc x hx hb))

theorem covered_run (s : Sys) (q : List Ev) (steps : List EStep) (h : EngRun s q steps)
    (hc : Covered s q) : Covered (engEnd s q steps).1 (engEnd s q steps).2 := by
  induction steps generalizing s q with
  | nil => exact hc
  | cons st rest ih =>
    obtain ⟨e, new⟩ := st
    exact ih _ _ h.2 (covered_step s q e new h.1 hc)

/-- in the initial state only the driver is awake (`Runner.Run` calls `Driver.TickLater` once) -/
theorem awake_init (G S C : Nat) (trace : List Kernel) (x : Ev) (hx : x.InRange G S C)
    (h : awakeOf (init false G S C trace) x = true) : x = .drv := by
  cases x with
  | drv => rfl
  | c0 => simp [awakeOf, init, mkLevel] at h
  | gpu g =>
    have hg : g < G := hx
    simp only [awakeOf, init] at h
    rw [get_replicate _ _ _ hg] at h; cases h
  | sm m =>
    have hm : m < G * S := hx
    simp only [awakeOf, init] at h
    rw [get_replicate _ _ _ hm] at h; cases h
  | sub u =>
    have hu : u < G * S * C := hx
    simp only [awakeOf, init] at h
    rw [get_replicate _ _ _ hu] at h; cases h
  | c1 g =>
    have hg : g < G := hx
    simp only [awakeOf, init] at h
    rw [get_replicate _ _ _ hg] at h; cases h
  | c2 m =>
    have hm : m < G * S := hx
    simp only [awakeOf, init] at h
    rw [get_replicate _ _ _ hm] at h; cases h

theorem covered_init (G S C : Nat) (trace : List Kernel) : Covered (init false G S C trace) [Ev.drv] := by
  intro x hx ha
  rw [awake_init G S C trace x ((mem_allEvs_iff _ x).1 hx) ha]
  exact List.mem_singleton.2 rfl

/-! ## empty queue ⇒ everything asleep ⇒ finished -/

theorem covered_empty_asleep (s : Sys) (h : Covered s []) : allAsleep s = true := by
  unfold allAsleep
  rw [List.all_eq_true]
  intro x hx
  cases ha : awakeOf s x with
  | false => rfl
  | true => exact absurd (h x hx ha) (List.not_mem_nil)

/-! ## the executable checker decides `EngStep` / `EngRun` -/

theorem nodupB_iff (l : List Ev) : nodupB l = true ↔ l.Nodup := by
  induction l with
  | nil => simp [nodupB]
  | cons x xs ih => simp [nodupB, ih, List.nodup_cons]

theorem engStepBad_none (s : Sys) (q : List Ev) (e : Ev) (new : List Ev) :
    engStepBad s q e new = none ↔ EngStep s q e new := by
  have c1 : q.contains e = true ↔ e ∈ q := List.contains_iff_mem
  have c2 : (awakeOf (step s e) e || new.isEmpty) = true ↔ (awakeOf (step s e) e = false → new = []) := by
    cases awakeOf (step s e) e <;> simp
  have c3 := nodupB_iff new
  have c4 : new.all (allEvs s).contains = true ↔ ∀ x ∈ new, x ∈ allEvs s := by
    simp [List.all_eq_true]
  have c5 : (allEvs s).all (fun x => !(awakeOf (step s e) x && (x == e || !awakeOf s x)) ||
      (q.erase e ++ new).contains x) = true ↔
      ∀ x ∈ allEvs s, awakeOf (step s e) x = true → (x = e ∨ awakeOf s x = false) → x ∈ q.erase e ++ new := by
    rw [List.all_eq_true]
    refine forall_congr' fun x => forall_congr' fun _ => ?_
    cases awakeOf (step s e) x <;> cases awakeOf s x <;> by_cases hx : x = e <;> simp [hx]
  have nn : ∀ b : Bool, ¬ ((!b) = true) → b = true := by intro b; cases b <;> simp
  unfold engStepBad
  simp only []
  constructor
  · intro h
    split at h; · cases h
    split at h; · cases h
    split at h; · cases h
    split at h; · cases h
    split at h; · cases h
    rename_i h1 h2 h3 h4 h5
    exact ⟨c1.1 (nn _ h1), c2.1 (nn _ h2), c3.1 (nn _ h3), c4.1 (nn _ h4), c5.1 (nn _ h5)⟩
  · intro h
    rw [if_neg (by rw [c1.2 h.pending]; simp), if_neg (by rw [c2.2 h.quiet]; simp),
      if_neg (by rw [c3.2 h.nodup]; simp), if_neg (by rw [c4.2 h.inRange]; simp),
      if_neg (by rw [c5.2 h.wake]; simp)]

theorem replay_bad_stays (steps : List EStep) (a : EAcc) (b : Nat × Char) (h : a.bad = some b) :
    (steps.foldl engReplayStep a).bad = some b := by
  induction steps generalizing a with
  | nil => exact h
  | cons st rest ih =>
    simp only [List.foldl_cons]
    apply ih
    simp only [engReplayStep, h]

theorem replay_state (steps : List EStep) (a : EAcc) :
    (steps.foldl engReplayStep a).s = (engEnd a.s a.q steps).1 ∧
    (steps.foldl engReplayStep a).q = (engEnd a.s a.q steps).2 ∧
    (steps.foldl engReplayStep a).n = a.n + steps.length := by
  induction steps generalizing a with
  | nil => exact ⟨rfl, rfl, rfl⟩
  | cons st rest ih =>
    obtain ⟨e, new⟩ := st
    simp only [List.foldl_cons, engEnd, List.length_cons]
    obtain ⟨i2, i3, i4⟩ := ih (engReplayStep a (e, new))
    refine ⟨i2, i3, ?_⟩
    rw [i4]; show a.n + 1 + _ = _; omega

theorem replay_valid (steps : List EStep) (a : EAcc) (h : a.bad = none) :
    (steps.foldl engReplayStep a).bad = none ↔ EngRun a.s a.q steps := by
  induction steps generalizing a with
  | nil => exact ⟨fun _ => trivial, fun _ => h⟩
  | cons st rest ih =>
    obtain ⟨e, new⟩ := st
    simp only [List.foldl_cons, EngRun]
    cases hb : engStepBad a.s a.q e new with
    | none =>
      have hs := (engStepBad_none a.s a.q e new).1 hb
      have h' : (engReplayStep a (e, new)).bad = none := by simp only [engReplayStep, h, hb]
      have i1 := ih _ h'
      exact ⟨fun hh => ⟨hs, i1.1 hh⟩, fun hh => i1.2 hh.2⟩
    | some c =>
      have h' : (engReplayStep a (e, new)).bad = some (a.n, c) := by simp only [engReplayStep, h, hb]
      have hne : ¬ EngStep a.s a.q e new := fun hh => by
        rw [(engStepBad_none a.s a.q e new).2 hh] at hb; cases hb
      refine ⟨fun hh => ?_, fun hh => absurd hh.1 hne⟩
      rw [replay_bad_stays rest _ _ h'] at hh; cases hh

/-! ## the closed form of the bound -/

theorem N_init (G S C : Nat) (trace : List Kernel) :
    N (init false G S C trace) = 2 + G + G + G * S + G * S + G * S * C := by
  simp [N, allEvs, init]
  omega

theorem LPhi_mkLevel {α : Type} (w : α → Nat) (n : Nat) : Meas.LPhi w (mkLevel n : Level α) = 0 := rfl

theorem sum_map_replicate_zero {β : Type} (f : β → Nat) (x : β) (h : f x = 0) (k : Nat) :
    sum ((List.replicate k x).map f) = 0 := by
  rw [List.map_replicate, h]; exact Meas.sum_replicate_zero k

theorem Phi_init (G S C : Nat) (trace : List Kernel) :
    Phi (init false G S C trace) = traceWeight trace := by
  unfold Phi
  simp only [init]
  rw [sum_map_replicate_zero _ _ (LPhi_mkLevel Meas.wB S), sum_map_replicate_zero _ _ (LPhi_mkLevel Meas.wW C),
    sum_map_replicate_zero (fun g : Gpu => 3 * g.fin) {} rfl, sum_map_replicate_zero (fun m : Smx => 3 * m.fin) {} rfl,
    sum_map_replicate_zero Meas.subPhi {} rfl]
  rfl

theorem engBound_eq (G S C : Nat) (trace : List Kernel) :
    engBound G S C trace = 1 + Phi (init false G S C trace) * N (init false G S C trace) := by
  rw [Phi_init, N_init]; rfl

/-! ## the engine is never stuck on a non-empty queue: the FIFO engine's step obeys `EngStep` -/

theorem fifo_step (s : Sys) (q : List Ev) (e : Ev) (hl : s.legacy = false) (he : e ∈ q) :
    EngStep s q e (fifoNew s q e) := by
  refine ⟨he, ?_, (allEvs_nodup s).sublist List.filter_sublist, fun x hx => (List.mem_filter.1 hx).1, ?_⟩
  · intro hp
    unfold fifoNew
    rw [List.filter_eq_nil_iff]
    intro x _ hc
    simp only [Bool.and_eq_true, Bool.or_eq_true, beq_iff_eq, Bool.not_eq_true'] at hc
    obtain ⟨⟨h1, h2⟩, _⟩ := hc
    by_cases hxe : x = e
    · rw [hxe, hp] at h1; cases h1
    · rw [Meas.noprog_step s e hl hp x hxe] at h1
      rcases h2 with h2 | h2
      · exact hxe h2
      · rw [h2] at h1; cases h1
  · intro x hx ha hw
    by_cases hm : x ∈ q.erase e
    · exact List.mem_append_left _ hm
    · refine List.mem_append_right _ (List.mem_filter.2 ⟨hx, ?_⟩)
      simp only [Bool.and_eq_true, Bool.or_eq_true, beq_iff_eq, Bool.not_eq_true', ha, true_and]
      refine ⟨hw, ?_⟩
      cases hc : (q.erase e).contains x with
      | false => rfl
      | true => exact absurd (List.contains_iff_mem.1 hc) hm

theorem fifo_run (n : Nat) (s : Sys) (q : List Ev) (hl : s.legacy = false) : EngRun s q (engFifo n s q) := by
  induction n generalizing s q with
  | zero => exact trivial
  | succ n ih =>
    cases q with
    | nil => exact trivial
    | cons e q =>
      exact ⟨fifo_step s (e :: q) e hl (List.mem_cons_self ..),
        ih _ _ ((shape_step s e).legacy.trans hl)⟩

end Eng
end C20
