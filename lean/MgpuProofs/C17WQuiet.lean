import MgpuProofs.C17WInv
import MgpuProofs.C17WBnd
import MgpuProofs.C17WPay
/-! C17, every pipeline width: the repaired component never reports "no progress" (`Tick()` returns false, the Akita
ticking component goes to sleep) while it still holds a request. If a tick of a reachable state makes no progress and
does not panic although the outgoing port buffer has room, nothing is in flight (`quiet_means_idle`), hence every accepted
request has been answered (`quiet_means_all_answered`). Needs only a valid configuration (`width`, `depth`, `post`,
`banks` positive). -/
namespace C17
namespace WQuiet

/-! ### small list facts -/

theorem set_self {α : Type} : ∀ (l : List α) (k : Nat) (x : α), l[k]? = some x → l.set k x = l
  | [], _, _, h => by simp at h
  | a :: l, 0, x, h => by
    simp only [List.getElem?_cons_zero, Option.some.injEq] at h
    simp [h]
  | a :: l, k + 1, x, h => by
    simp only [List.getElem?_cons_succ] at h
    simp [set_self l k x h]

theorem map_fix {α : Type} (f : α → α) : ∀ l : List α, l.map f = l → ∀ x ∈ l, f x = x
  | [], _, _, hx => by cases hx
  | a :: l, h, x, hx => by
    simp only [List.map_cons, List.cons.injEq] at h
    rcases List.mem_cons.1 hx with rfl | hx
    · exact h.1
    · exact map_fix f l h.2 x hx

theorem map_self {α : Type} (f : α → α) (l : List α) (h : ∀ x ∈ l, f x = x) : l.map f = l := by
  have : l.map f = l.map id := List.map_congr_left (fun x hx => by simp [h x hx])
  rw [this, List.map_id]

/-! ### pipeline: a lane that holds an item changes when it is ticked (the buffer behind it has room) -/

theorem advance_some_head (lat : Nat) (x : Item × Nat) : ∀ rest : Lane, ∃ t, advance lat (some x) rest = some x :: t := by
  intro rest
  cases rest with
  | nil => exact ⟨[], by simp only [advance]⟩
  | cons b rest =>
    cases b with
    | none =>
      refine ⟨advance lat none rest, ?_⟩
      simp only [advance]
    | some p =>
      obtain ⟨it, left⟩ := p
      simp only [advance]
      split
      · exact ⟨_, rfl⟩
      · exact ⟨_, rfl⟩

theorem advance_none_fix (lat : Nat) : ∀ rest : Lane, advance lat none rest = none :: rest → laneItems rest = [] := by
  intro rest
  induction rest with
  | nil => intro _; rfl
  | cons b rest ih =>
    intro h
    cases b with
    | none =>
      simp only [advance, List.cons.injEq, true_and] at h
      simpa using ih h
    | some p =>
      obtain ⟨it, left⟩ := p
      simp only [advance] at h
      split at h
      · obtain ⟨t, ht⟩ := advance_some_head lat (it, left - 1) rest
        rw [ht] at h
        simp only [List.cons.injEq, true_and, Option.some.injEq, Prod.mk.injEq] at h
        omega
      · simp at h

theorem tickLane_fix (c : Cfg) (post : List Item) (l : Lane) (hp : post.length < c.post)
    (h : tickLane c post l = (post, l)) : laneItems l = [] := by
  cases l with
  | nil => rfl
  | cons e rest =>
    cases e with
    | none =>
      simp only [tickLane, Prod.mk.injEq, true_and] at h
      simpa using advance_none_fix c.lat rest h
    | some p =>
      obtain ⟨it, left⟩ := p
      simp only [tickLane] at h
      split at h
      · obtain ⟨t, ht⟩ := advance_some_head c.lat (it, left - 1) rest
        rw [ht] at h
        simp only [Prod.mk.injEq, List.cons.injEq, Option.some.injEq, true_and] at h
        omega
      · have := congrArg (fun p => p.1.length) h
        simp at this

theorem tickLanes_fix (c : Cfg) (post : List Item) (hp : post.length < c.post) : ∀ lanes : List Lane,
    tickLanes c post lanes = (post, lanes) → ∀ l ∈ lanes, laneItems l = [] := by
  intro lanes
  induction lanes with
  | nil => intro _ l hl; cases hl
  | cons l ls ih =>
    intro h
    simp only [tickLanes, Prod.mk.injEq, List.cons.injEq] at h
    obtain ⟨h1, h2, h3⟩ := h
    have hi := tickLane_items c post l
    rw [h2] at hi
    have h4 : (tickLane c post l).1 = post := List.append_cancel_right hi
    have h5 : tickLane c post l = (post, l) := Prod.ext h4 h2
    rw [h4] at h1 h3
    intro x hx
    rcases List.mem_cons.1 hx with rfl | hx
    · exact tickLane_fix c post x hp h5
    · exact ih (Prod.ext h1 h3) x hx

/-! ### finalizeBanks: `prog` is monotone; a quiet call leaves everything as it was -/

theorem finB_prog_true (c : Cfg) : ∀ (fuel : Nat) (b : WBank) (log : List Req) (out resp : List Rsp),
    (finalizeBankW c fuel b log out resp true).prog = true := by
  intro fuel
  induction fuel with
  | zero => intros; rfl
  | succ fuel ih =>
    intro b log out resp
    cases ho : b.order with
    | nil => simp only [finalizeBankW, ho]
    | cons o os =>
      simp only [finalizeBankW, ho]
      cases hf : b.early.find? (fun it => decide (it.req = o)) with
      | some it =>
        dsimp only
        split
        · rfl
        · cases hc : commit it log with
          | none => rfl
          | some p =>
            obtain ⟨it', log'⟩ := p
            dsimp only
            split
            · exact ih _ _ _ _
            · rfl
      | none =>
        dsimp only
        cases hp : b.post with
        | nil => rfl
        | cons hd t =>
          dsimp only
          split
          · split
            · rfl
            · cases hc : commit hd log with
              | none => rfl
              | some p =>
                obtain ⟨h', log'⟩ := p
                dsimp only
                split
                · exact ih _ _ _ _
                · rfl
          · exact ih _ _ _ _

/-- `finalizeSingle` has nothing to do on this bank: its oldest request (if any) is neither set aside nor in the
post-pipeline buffer, and that buffer is empty -/
def QuietB (b : WBank) : Prop :=
  ∀ o os, b.order = o :: os → b.early.find? (fun it => decide (it.req = o)) = none ∧ b.post = []

theorem finB_quiet (c : Cfg) (fuel : Nat) (b : WBank) (log : List Req) (out resp : List Rsp) (pg : Bool)
    (hroom : out.length < c.top) :
    (finalizeBankW c (fuel + 1) b log out resp pg).fault = none →
    (finalizeBankW c (fuel + 1) b log out resp pg).prog = false →
    finalizeBankW c (fuel + 1) b log out resp pg = ⟨b, log, out, resp, none, false⟩ ∧ QuietB b := by
  cases ho : b.order with
  | nil =>
    simp only [finalizeBankW, ho]
    intro _ hp
    subst hp
    exact ⟨rfl, fun o os h => by rw [ho] at h; cases h⟩
  | cons o os =>
    simp only [finalizeBankW, ho]
    cases hfind : b.early.find? (fun it => decide (it.req = o)) with
    | some it =>
      dsimp only
      split
      · intro hf; cases hf
      · cases hc : commit it log with
        | none => intro hf; cases hf
        | some p =>
          obtain ⟨it', log'⟩ := p
          dsimp only
          intro _ hp
          rw [finB_prog_true] at hp
          cases hp
    | none =>
      dsimp only
      cases hpost : b.post with
      | nil =>
        dsimp only
        intro _ hp
        subst hp
        refine ⟨rfl, ?_⟩
        intro o' os' h
        rw [ho] at h
        cases h
        exact ⟨hfind, hpost⟩
      | cons hd t =>
        dsimp only
        split
        · split
          · intro hf; cases hf
          · cases hc : commit hd log with
            | none => intro hf; cases hf
            | some p =>
              obtain ⟨h', log'⟩ := p
              dsimp only
              intro _ hp
              rw [finB_prog_true] at hp
              cases hp
        · intro _ hp
          rw [finB_prog_true] at hp
          cases hp

theorem finAt_prog_true (c : Cfg) (s : WState) (k : Nat) : (finalizeAtW c s k true).prog = true := by
  unfold finalizeAtW
  cases hb : s.banks[k]? with
  | none => rfl
  | some b =>
    dsimp only
    exact finB_prog_true c _ b _ _ _

theorem finAt_quiet (c : Cfg) (s : WState) (k : Nat) (pg : Bool) (hroom : s.outBuf.length < c.top)
    (hf : (finalizeAtW c s k pg).fault = none) (hp : (finalizeAtW c s k pg).prog = false) :
    finalizeAtW c s k pg = ⟨s, none, false⟩ ∧ ∀ b, s.banks[k]? = some b → QuietB b := by
  revert hf hp
  unfold finalizeAtW
  cases hb : s.banks[k]? with
  | none =>
    dsimp only
    intro _ hp
    subst hp
    exact ⟨rfl, fun b h => by cases h⟩
  | some b =>
    dsimp only
    intro hf hp
    obtain ⟨e, hq⟩ := finB_quiet c _ b s.log s.outBuf s.resp pg hroom hf hp
    rw [e]
    refine ⟨?_, fun b' h => by cases h; exact hq⟩
    dsimp only
    rw [set_self _ _ _ hb]

theorem finFrom_prog_true (c : Cfg) : ∀ (ks : List Nat) (s : WState), (finalizeFromW c ks s true).prog = true := by
  intro ks
  induction ks with
  | nil => intro s; rfl
  | cons k ks ih =>
    intro s
    simp only [finalizeFromW]
    split
    · exact finAt_prog_true c s k
    · rw [finAt_prog_true]; exact ih _

theorem finFrom_quiet (c : Cfg) : ∀ (ks : List Nat) (s : WState) (pg : Bool), s.outBuf.length < c.top →
    (finalizeFromW c ks s pg).fault = none → (finalizeFromW c ks s pg).prog = false →
    finalizeFromW c ks s pg = ⟨s, none, false⟩ ∧ ∀ k ∈ ks, ∀ b, s.banks[k]? = some b → QuietB b := by
  intro ks
  induction ks with
  | nil =>
    intro s pg _ _ hp
    simp only [finalizeFromW] at hp ⊢
    subst hp
    exact ⟨rfl, fun k hk => by cases hk⟩
  | cons k ks ih =>
    intro s pg hroom
    simp only [finalizeFromW]
    split
    · rename_i hs
      intro hf
      rw [hf] at hs; cases hs
    · rename_i hs
      intro hf hp
      have hf1 : (finalizeAtW c s k pg).fault = none := by
        cases h : (finalizeAtW c s k pg).fault with
        | none => rfl
        | some x => rw [h] at hs; simp at hs
      have hp1 : (finalizeAtW c s k pg).prog = false := by
        cases h : (finalizeAtW c s k pg).prog with
        | false => rfl
        | true => rw [h, finFrom_prog_true] at hp; cases hp
      obtain ⟨e, hq⟩ := finAt_quiet c s k pg hroom hf1 hp1
      rw [e] at hf hp ⊢
      dsimp only at hf hp ⊢
      obtain ⟨e2, hq2⟩ := ih s false hroom hf hp
      refine ⟨e2, ?_⟩
      intro j hj b hb
      rcases List.mem_cons.1 hj with rfl | hj
      · exact hq b hb
      · exact hq2 j hj b hb

theorem finW_quiet (c : Cfg) (s : WState) (hroom : s.outBuf.length < c.top)
    (hf : (finalizeW c s).fault = none) (hp : (finalizeW c s).prog = false) :
    finalizeW c s = ⟨s, none, false⟩ ∧ ∀ b ∈ s.banks, QuietB b := by
  obtain ⟨e, hq⟩ := finFrom_quiet c _ s false hroom hf hp
  refine ⟨e, ?_⟩
  intro b hb
  obtain ⟨k, hk⟩ := List.mem_iff_getElem?.1 hb
  exact hq k (List.mem_range.2 (List.getElem?_eq_some_iff.1 hk).1) b hk

/-! ### a bank on which neither finalizeBanks nor tickPipelines did anything is empty -/

structure IdleB (b : WBank) : Prop where
  order : b.order = []
  post : b.post = []
  early : b.early = []
  lanes : ∀ l ∈ b.lanes, laneItems l = []

theorem idle_of_quiet (c : Cfg) (b : WBank) (hp : 0 < c.post) (hok : BankOk c b) (hq : QuietB b)
    (hfix : tickBankPipeW c b = b) : IdleB b := by
  have hitems : b.order = [] → wItems b = [] := by
    intro ho
    have h1 := hok.perm
    rw [ho] at h1
    exact List.map_eq_nil_iff.1 h1.eq_nil
  have hord : b.order = [] := by
    cases ho : b.order with
    | nil => rfl
    | cons o os =>
      exfalso
      obtain ⟨hfind, hpost⟩ := hq o os ho
      have h1 : tickLanes c b.post b.lanes = (b.post, b.lanes) :=
        Prod.ext (congrArg WBank.post hfix) (congrArg WBank.lanes hfix)
      have hl := tickLanes_fix c b.post (by rw [hpost]; exact hp) b.lanes h1
      have hmem : o ∈ (wItems b).map (·.req) := hok.perm.mem_iff.2 (by rw [ho]; simp)
      obtain ⟨it, hit, hreq⟩ := List.mem_map.1 hmem
      simp only [wItems, hpost, List.nil_append, List.mem_append, List.mem_flatMap] at hit
      rcases hit with ⟨l, hl1, hl2⟩ | hit
      · rw [hl l hl1] at hl2; cases hl2
      · have := List.find?_eq_none.1 hfind it hit
        simp [hreq] at this
  have hw := hitems hord
  simp only [wItems, List.append_eq_nil_iff, List.flatMap_eq_nil_iff] at hw
  exact ⟨hord, hw.1.1, hw.2, hw.1.2⟩

/-! ### an empty bank takes the request offered to it -/

theorem acceptLanes_free (x : Item × Nat) (lanes : List Lane) (hne : lanes ≠ [])
    (h : ∀ l ∈ lanes, laneItems l = [] ∧ l ≠ []) : ∃ ls, acceptLanes x lanes = some ls := by
  cases lanes with
  | nil => exact absurd rfl hne
  | cons l ls =>
    obtain ⟨h1, h2⟩ := h l (by simp)
    obtain ⟨l', hl'⟩ := acceptLane_free x l h1 h2
    exact ⟨l' :: ls, by simp [acceptLanes, hl']⟩

theorem accW_idle (c : Cfg) (it : Item) (b : WBank) (hw : 0 < c.width) (hd : 0 < c.depth) (hb : BndW c b)
    (hi : IdleB b) : ∃ b', accW c it b = some b' := by
  have hne : b.lanes ≠ [] := by
    intro h
    have := hb.nl
    rw [h] at this
    simp at this
    omega
  obtain ⟨ls, hls⟩ := acceptLanes_free (it, c.lat - 1) b.lanes hne (fun l hl => ⟨hi.lanes l hl, by
    intro h
    have := hb.ll l hl
    rw [h] at this
    simp at this
    omega⟩)
  simp only [accW, hi.early, List.isEmpty_nil, if_true, hls]
  exact ⟨_, rfl⟩

theorem dispatchBankW_idle (c : Cfg) (r : Req) (b : WBank) (hw : 0 < c.width) (hd : 0 < c.depth) (hb : BndW c b)
    (hi : IdleB b) : ∃ b', dispatchBankW c r b = some b' := by
  obtain ⟨b1, h1⟩ := accW_idle c (fresh r) b hw hd hb hi
  unfold dispatchBankW
  by_cases hrm : c.row > 0 ∧ c.miss > 0
  · rw [if_pos hrm]
    dsimp only
    split
    · split
      · rw [h1]; exact ⟨_, rfl⟩
      · exact ⟨_, rfl⟩
    · exact ⟨_, rfl⟩
  · rw [if_neg hrm]; exact ⟨b1, h1⟩

theorem dispatchOneW_len (c : Cfg) (st : List WBank × List Req) (r : Req) :
    (dispatchOneW c st r).2.length ≤ st.2.length + 1 := by
  unfold dispatchOneW
  split
  · simp
  · split
    · dsimp only; omega
    · simp

theorem fold_len (c : Cfg) : ∀ (todo : List Req) (st : List WBank × List Req),
    (todo.foldl (dispatchOneW c) st).2.length ≤ st.2.length + todo.length
  | [], st => by simp
  | r :: rest, st => by
    have h1 := dispatchOneW_len c st r
    have h2 := fold_len c rest (dispatchOneW c st r)
    simp only [List.foldl_cons, List.length_cons]
    omega

theorem dispatchW_lt (c : Cfg) (s : WState) (hw : 0 < c.width) (hd : 0 < c.depth) (hb : 0 < c.banks)
    (hlen : s.banks.length = c.banks) (hbnd : ∀ b ∈ s.banks, BndW c b) (hi : ∀ b ∈ s.banks, IdleB b)
    (hne : s.pending ≠ []) : (dispatchW c s).pending.length < s.pending.length := by
  cases hp : s.pending with
  | nil => exact absurd hp hne
  | cons r rest =>
    have hlt : bankOf c r.addr < s.banks.length := by rw [hlen]; exact Nat.mod_lt _ hb
    have hget : s.banks[bankOf c r.addr]? = some s.banks[bankOf c r.addr] := List.getElem?_eq_getElem hlt
    have hmem := List.getElem_mem hlt
    obtain ⟨b', hb'⟩ := dispatchBankW_idle c r _ hw hd (hbnd _ hmem) (hi _ hmem)
    have e : dispatchOneW c (s.banks, []) r = (s.banks.set (bankOf c r.addr) b', []) := by
      unfold dispatchOneW
      dsimp only
      rw [hget]
      dsimp only
      rw [hb']
    have := fold_len c rest (s.banks.set (bankOf c r.addr) b', [])
    simp only [dispatchW, hp, List.foldl_cons, e, List.length_cons]
    simp only [List.length_nil] at this
    omega

/-! ### the number of banks never changes -/

theorem finAt_len (c : Cfg) (s : WState) (k : Nat) (pg : Bool) :
    (finalizeAtW c s k pg).st.banks.length = s.banks.length := by
  unfold finalizeAtW
  split
  · rfl
  · simp

theorem finFrom_len (c : Cfg) : ∀ (ks : List Nat) (s : WState) (pg : Bool),
    (finalizeFromW c ks s pg).st.banks.length = s.banks.length := by
  intro ks
  induction ks with
  | nil => intro s pg; rfl
  | cons k ks ih =>
    intro s pg
    simp only [finalizeFromW]
    split
    · exact finAt_len c s k pg
    · rw [ih, finAt_len]

theorem dispatchOneW_banks_len (c : Cfg) (st : List WBank × List Req) (r : Req) :
    (dispatchOneW c st r).1.length = st.1.length := by
  unfold dispatchOneW
  split
  · rfl
  · split
    · simp
    · rfl

theorem fold_banks_len (c : Cfg) : ∀ (todo : List Req) (st : List WBank × List Req),
    (todo.foldl (dispatchOneW c) st).1.length = st.1.length
  | [], _ => rfl
  | r :: rest, st => by
    simp only [List.foldl_cons]
    rw [fold_banks_len c rest, dispatchOneW_banks_len]

theorem tickW_len (c : Cfg) (s : WState) : (tickW c s).banks.length = s.banks.length := by
  have h1 : (finalizeW c s).st.banks.length = s.banks.length := finFrom_len c _ s false
  unfold tickW
  dsimp only
  split
  · exact h1
  · split
    · simp [tickDelaysW, tickPipesW, h1]
    · simp [drainTopW, dispatchW, fold_banks_len, tickDelaysW, tickPipesW, h1]

theorem stepW_len (c : Cfg) (s : WState) (op : Op) : (stepW c s op).banks.length = s.banks.length := by
  cases op with
  | deliver k a l d m => simp only [stepW, WBnd.deliverW_banks]
  | tick => exact tickW_len c s
  | out k => rfl

theorem run_len (c : Cfg) (ops : List Op) : (runW c ops).banks.length = c.banks := by
  unfold runW
  have : ∀ (ops : List Op) (s : WState), (ops.foldl (stepW c) s).banks.length = s.banks.length := by
    intro ops
    induction ops with
    | nil => intro s; rfl
    | cons o os ih => intro s; simp only [List.foldl_cons]; rw [ih, stepW_len]
  rw [this]
  simp [initW]

theorem delay_idle (c : Cfg) (b : WBank) (h : b.dq = []) : tickBankDelayW c b = b := by
  cases b with
  | mk lanes post lastRow dq order early =>
    simp only at h
    subst h
    rfl

/-! ### the tick -/

theorem quiet_idle_of (c : Cfg) (s : WState) (hw : 0 < c.width) (hd : 0 < c.depth) (hp : 0 < c.post)
    (hb : 0 < c.banks) (hinv : InvW c s) (hbnd : ∀ b ∈ s.banks, BndW c b) (hlen : s.banks.length = c.banks)
    (hq : tickFlagsW c s = (false, none)) (hroom : s.outBuf.length < c.top) : ∀ k, chainW c s k = [] := by
  simp only [tickFlagsW] at hq
  split at hq
  · rename_i hs
    simp only [Prod.mk.injEq, true_and] at hq
    rw [hq] at hs; cases hs
  · rename_i hs
    split at hq
    · simp at hq
    · simp only [Prod.mk.injEq, and_true, Bool.or_eq_false_iff] at hq
      obtain ⟨⟨⟨⟨hprog, h2⟩, h3⟩, h4⟩, h5⟩ := hq
      have hfault : (finalizeW c s).fault = none := by
        cases h : (finalizeW c s).fault with
        | none => rfl
        | some x => rw [h] at hs; simp at hs
      obtain ⟨e, hquiet⟩ := finW_quiet c s hroom hfault hprog
      rw [e] at h2 h3 h4 h5
      dsimp only at h2 h3 h4 h5
      have hmap : s.banks.map (tickBankPipeW c) = s.banks := by
        have := of_decide_eq_false h2
        exact Classical.not_not.1 this
      have hfixall : ∀ b ∈ s.banks, tickBankPipeW c b = b := map_fix _ _ hmap
      have hidle : ∀ b ∈ s.banks, IdleB b := fun b hb =>
        idle_of_quiet c b hp (hinv.ok b hb) (hquiet b hb) (hfixall b hb)
      have hdq : ∀ b ∈ s.banks, b.dq = [] := by
        intro b hb
        have h3' : (s.banks.any fun b => !b.dq.isEmpty) = false := by
          have : (tickPipesW c s).banks = s.banks := hmap
          rw [this] at h3; exact h3
        rw [List.any_eq_false] at h3'
        simpa using h3' b hb
      have hs3b : (tickDelaysW c (tickPipesW c s)).banks = s.banks := by
        show (s.banks.map (tickBankPipeW c)).map (tickBankDelayW c) = s.banks
        rw [hmap]
        exact map_self _ _ (fun b hb => delay_idle c b (hdq b hb))
      have hpend : s.pending = [] := by
        apply Classical.byContradiction
        intro hne
        have hlt := dispatchW_lt c (tickDelaysW c (tickPipesW c s)) hw hd hb (by rw [hs3b]; exact hlen)
          (by rw [hs3b]; exact hbnd) (by rw [hs3b]; exact hidle) hne
        exact of_decide_eq_false h4 hlt
      have htop : s.topIn = [] := by
        have h5' : (!s.topIn.isEmpty) = false := h5
        simpa using h5'
      intro k
      simp only [chainW, hpend, htop, List.append_nil, List.filter_nil]
      unfold wBankChain
      cases hbk : s.banks[k]? with
      | none => rfl
      | some b =>
        have hm := List.mem_of_getElem? hbk
        simp [wBankReqs, (hidle b hm).order, hdq b hm]

end WQuiet

/-- If a tick of a reachable state makes no progress and does not panic although the outgoing port buffer has room,
nothing is in flight: no request in the port buffer, the pending list, a delay queue, a pipeline lane, a post-pipeline
buffer or set aside. -/
theorem quiet_means_idle (c : Cfg) (hw : 0 < c.width) (hd : 0 < c.depth) (hp : 0 < c.post) (hb : 0 < c.banks)
    (ops : List Op) (hq : tickFlagsW c (runW c ops) = (false, none))
    (hroom : (runW c ops).outBuf.length < c.top) : ∀ k, chainW c (runW c ops) k = [] :=
  WQuiet.quiet_idle_of c (runW c ops) hw hd hp hb (run_invW c ops) (run_bndW c ops) (WQuiet.run_len c ops) hq hroom

/-- … hence every accepted request has been answered -/
theorem quiet_means_all_answered (c : Cfg) (hw : 0 < c.width) (hd : 0 < c.depth) (hp : 0 < c.post) (hb : 0 < c.banks)
    (ops : List Op) (hq : tickFlagsW c (runW c ops) = (false, none))
    (hroom : (runW c ops).outBuf.length < c.top) :
    ∀ r ∈ (runW c ops).arrived, r ∈ (runW c ops).resp.map (·.req) :=
  (one_response_each_W c _ (run_invW c ops)).2.2 (quiet_means_idle c hw hd hp hb ops hq hroom)

end C17
