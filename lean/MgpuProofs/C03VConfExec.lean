import MgpuProofs.C03VConf
/-! # C03 (vector half) — `specLane` is what `C03V.execVALU` computes for one lane

`execVALU` folds a local closure over the 64 lanes.  `execVALU_lanes` shows, for an integer opcode without SDWA, that
this closure (a) skips a lane whose EXEC bit is clear and (b) for an active lane hands `op.f` exactly
`laneIn op s0 s1 s2 cin` — the fetched operands truncated to the operand widths and the lane's bit of the mask
source —, appends `(op.f …).d` at the destination width to the register writes and adds `2^lane` to the lane mask
exactly when `(op.f …).co`.  So the `specLane` the conformance theorems compare the translated Go bodies with IS the
lane semantics of the executable specification the differential correspondence runs. -/
namespace C03V.Conf
open C03V C03V.I

/-- the kinds of the integer opcodes the conformance theorems treat -/
def IntKind (k : Kind) : Prop := k = .plain ∨ k = .carryOut ∨ k = .carryIO ∨ k = .cmp ∨ k = .cndmask

theorem tr_ofNat (w x : Nat) : tr w (BitVec.ofNat 64 x) = if w == 64 then x % 2 ^ 64 else lo32 x := by
  unfold tr
  split
  · simp
  · simp only [lo32, BitVec.toNat_ofNat]; omega

theorem applyMod_int (w : Nat) (a n : Bool) (x : Nat) : applyMod .int w a n x = x := rfl

/-- the specification's lane result for lane `lane` of instruction `e` in state `st` -/
def specLaneOf (st : St) (e : VEnc) (lane : Nat) : C03V.LaneOut :=
  e.op.f (laneIn e.op
    (BitVec.ofNat 64 (st.src e.src0 lane e.op.w0 e.lit false))
    (BitVec.ofNat 64 (st.src e.src1 lane e.op.w1 e.lit false))
    (BitVec.ofNat 64 (st.src e.src2 lane e.op.w2 e.lit false))
    ((st.sreg64 e.msrc).testBit lane))

/-- the per-lane step an integer instruction performs in `execVALU` -/
def IsLaneStep (st : St) (e : VEnc) (step : List Wr × Nat → Nat → List Wr × Nat) : Prop :=
  (∀ acc lane, st.exec.testBit lane = false → step acc lane = acc) ∧
  (∀ acc lane, st.exec.testBit lane = true →
    step acc lane =
      (acc.1 ++ (if e.op.kind == .cmp then [] else wrV e.vdst lane e.op.wd (specLaneOf st e lane).d),
       if (specLaneOf st e lane).co then acc.2 + 2 ^ lane else acc.2))

theorem ty_int_f64 : (Ty.int == Ty.f64) = false := rfl
theorem k1 : (Kind.plain == Kind.cmp) = false := rfl
theorem k2 : (Kind.plain == Kind.movrel) = false := rfl
theorem k3 : (Kind.plain == Kind.fmas) = false := rfl
theorem k4 : (Kind.carryOut == Kind.cmp) = false := rfl
theorem k5 : (Kind.carryOut == Kind.movrel) = false := rfl
theorem k6 : (Kind.carryOut == Kind.fmas) = false := rfl
theorem k7 : (Kind.carryIO == Kind.cmp) = false := rfl
theorem k8 : (Kind.carryIO == Kind.movrel) = false := rfl
theorem k9 : (Kind.carryIO == Kind.fmas) = false := rfl
theorem k10 : (Kind.cmp == Kind.cmp) = true := rfl
theorem k11 : (Kind.cmp == Kind.fmas) = false := rfl
theorem k12 : (Kind.cndmask == Kind.cmp) = false := rfl
theorem k13 : (Kind.cndmask == Kind.movrel) = false := rfl
theorem k14 : (Kind.cndmask == Kind.fmas) = false := rfl

/-- `execVALU` on an integer instruction without SDWA is the fold, over the 64 lanes, of a step that skips inactive
    lanes and performs `specLaneOf` on active ones; the lane mask goes to SDST / VCC for compares and carries. -/
theorem execVALU_lanes (st : St) (e : VEnc)
    (hty : e.op.ty = .int) (hsd : e.sdwa = false) (har : e.op.arith = false) (hk : IntKind e.op.kind) :
    ∃ step, IsLaneStep st e step ∧
      execVALU st e =
        (match (List.range 64).foldl step ([], 0) with
         | (ws, mask) => if writesMask e.op.kind then ws ++ wrMask e.sdst mask else ws) := by
  rcases hk with h | h | h | h | h <;>
  · unfold execVALU
    simp only [h]
    refine ⟨_, ⟨?_, ?_⟩, rfl⟩
    · intro acc lane hl
      simp only [hl, Bool.not_false, if_true]
    · intro acc lane hl
      simp only [hl, Bool.not_true, Bool.false_eq_true, if_false, if_true, hsd, hty, applyMod_int, har, Bool.and_false,
        Bool.false_and, specLaneOf, laneIn, tr_ofNat, h, ty_int_f64, k1, k2, k3, k4, k5, k6, k7, k8, k9, k10, k11, k12,
        k13, k14]

/-! ## from the loop iteration to the lane-local body of property C06's skeleton instance -/

open C06 (Uni RawIn RawOut LaneHandler setBit BodyIn)

/-- the lane's bit of the mask source as the lane-local body sees it -/
def maskBit (h : LaneHandler) (b : BodyIn) : Bool :=
  match h.msrc with
  | .none => false
  | .acc => b.abit
  | _ => b.mbit

/-- **Conformance carries over to the lane-local body** `LaneHandler.body` — the function property C06 proves the Go
    loop to be the `vexec` skeleton of (`handler_is_vexec`): given the lane's operand values and its bit of the mask
    source, with the lane's accumulator bit still clear, the body's destination value and result bit are the
    specification's `d` and `co`. -/
theorem conforms_body {h : LaneHandler} {op : VOp} (c : Conforms h op) (u : Uni) (b : BodyIn)
    (hok : h.ok u = true) (hab : b.abit = false) :
    (if op.kind == .cmp then (h.body u b).dst = none
     else (h.body u b).dst.map (tr op.wd)
        = some (op.f (laneIn op b.src0 b.src1 (h.embed b).src2 (maskBit h b))).d) ∧
    (writesMask op.kind = true →
      (h.body u b).bit = (op.f (laneIn op b.src0 b.src1 (h.embed b).src2 (maskBit h b))).co) := by
  have hc := c u (h.embed b) (by simp [LaneHandler.embed]) hok trivial
  have hm : (maskOf h (h.embed b)).getLsbD (h.embed b).i = maskBit h b := by
    simp only [maskOf, maskBit, LaneHandler.embed]
    cases h.msrc <;> simp only [C06.b2bv_getLsbD_zero] <;> simp
  have hs : specLane op h (h.embed b) = op.f (laneIn op b.src0 b.src1 (h.embed b).src2 (maskBit h b)) := by
    simp only [specLane, hm]; rfl
  rw [hs] at hc
  refine ⟨hc.1, fun hw => ?_⟩
  have h2 := hc.2
  simp only [hw, if_true] at h2
  have h3 := h2 (by simp [LaneHandler.embed, hab, C06.b2bv])
  simp only [LaneHandler.body, h3]
  simp only [LaneHandler.embed, hab]
  exact C06.setBit_b2bv_zero false _

end C03V.Conf
