import MgpuProofs.C19SysDefs
/-! # C19 — the closed system: the invariant (definitions only)

`Inv s` says in which phase of the handshake the driver is and pins down, for that phase, where the
command of every GPU is (`Split`: still queued in the driver, in the driver's outgoing buffer, at the GPU,
answer in the driver's incoming buffer, counted), the shape of every GPU (`GS` / `GIdle` with the quiet
flags the phase implies), the state of the two-controller world and the MMU bookkeeping. -/
namespace C19
namespace SY
open CP (Cp Cls K Sub Cmd Ans)
open DR (Drv MmuReq MigCmd)

/-- facts about a request that hold from the moment the MMU sends it -/
structure ReqOK (s : Sys) (r : MmuReq) : Prop where
  pid : r.pid ∈ s.drv.pids
  host : r.host = 1 ∨ r.host = 2
  accNe : r.acc ≠ []
  accNd : (accT r).Nodup
  accLt : r.acc.length < CP.w64
  accIn : ∀ a ∈ r.acc, 1 ≤ a ∧ a ≤ s.drv.ngpu
  size : r.pageSize = 1 <<< s.drv.alloc.lg
  pagesNe : migOrder s.drv.ngpu r.map ≠ []
  pagesNd : ((migOrder s.drv.ngpu r.map).map (·.2)).Nodup
  pagesLt : (migOrder s.drv.ngpu r.map).length < CP.w64
  req : ∀ x ∈ migOrder s.drv.ngpu r.map, x.1 < 2 ∧ x.1 + 1 ≠ r.host

/-- facts about its pages that hold until they are re-homed -/
structure PagesOK (s : Sys) (r : MmuReq) : Prop where
  found : ∀ x ∈ migOrder s.drv.ngpu r.map, x.2 = (x.2 >>> s.drv.alloc.lg) <<< s.drv.alloc.lg ∧
      ∃ pg, s.drv.alloc.find r.pid x.2 = some pg ∧ pg.dev = r.host
  free : ∀ g, g < 2 → wants s.drv.ngpu r g ≤ (s.drv.alloc.free.getD (g + 1) []).length

/-- after the last shootdown acknowledgement: every page of the request was re-homed exactly once —
    one entry of the migrate-command log per page, in the order of the request, and the table maps the
    page to the frame the command writes to, on the requester's device, flagged as migrating -/
structure Rehomed (s : Sys) (r : MmuReq) : Prop where
  log : ∃ old new, s.drv.migLog = old ++ new ∧
      new.map (fun m => (m.gpu, m.vaddr)) = migOrder s.drv.ngpu r.map ∧
      ∀ m ∈ new, ∃ pg, s.drv.alloc.find r.pid m.vaddr = some pg ∧ pg.paddr = m.wr ∧ pg.dev = m.gpu + 1 ∧
        pg.migrating = true

def Ctrs (d : Drv) (p : Option PK) (n : Nat) : Prop :=
  d.drain = (if p = some .drain then n else 0) ∧ d.shoot = (if p = some .shoot then n else 0) ∧
  d.mig = (if p = some .mig then n else 0) ∧ d.restart = (if p = some .restart then n else 0) ∧
  d.rdma = (if p = some .rdma then n else 0)

/-- the quiet flags of GPU `g` in a broadcast phase, given where its command is -/
def flagsAt (p : PK) (r : MmuReq) (ngpu : Nat) (σ : Split) (g : Nat) : Bool × Bool :=
  let fb := flagsBefore (some p) ngpu (accT r) g
  if g ∈ σ.bk ++ σ.dn then after (cmdOf p r) fb.1 fb.2 else fb

/-- a broadcast phase (drain, shootdown, GPU restart, RDMA restart) -/
structure Bcast (s : Sys) (p : PK) (r : MmuReq) (σ : Split) (loc : Nat → BLoc) : Prop where
  perm : σ.all.Perm (targets p s.drv.ngpu r)
  toSend : s.drv.toSend = σ.wait.map (fun g => (g, cmdOf p r))
  gpuOut : s.drv.gpuOut = σ.sent.map (fun g => (g, cmdOf p r))
  gpuIn : s.drv.gpuIn = List.replicate σ.bk.length (ansOf (cmdOf p r))
  pos : 0 < σ.open_
  busy : ∀ g, g ∈ σ.atG → GS (cmdOf p r) (loc g) (flagsBefore (some p) s.drv.ngpu (accT r) g).1
      (flagsBefore (some p) s.drv.ngpu (accT r) g).2 (s.cp g) (s.cm g)
  idle : ∀ g, g ∉ σ.atG → GIdle (flagsAt p r s.drv.ngpu σ g).1 (flagsAt p r s.drv.ngpu σ g).2 (s.cp g) (s.cm g)

/-- where the migrate command in flight is -/
inductive MigAt
  | sent
  | atG (loc : BLoc)
  | bk
deriving DecidableEq, Repr

/-- what the driver's GPU port holds for the migrate command in flight -/
def flOut : Option (MigCmd × MigAt) → List (Nat × Cmd)
  | some (m, .sent) => [(m.gpu, Cmd.mig m.id)]
  | _ => []
def flIn : Option (MigCmd × MigAt) → List Ans
  | some (_, .bk) => [Ans.mig]
  | _ => []
/-- the world state that goes with the location of the migrate command in flight -/
def flWs : Option (MigCmd × MigAt) → WSt → Prop
  | some (m, .atG .pmcWait), ws => ws = .copying m.gpu m ∨ ws = .back m.gpu
  | _, ws => ws = .none

/-- the migration phase: the pages one at a time -/
structure MigPh (s : Sys) (r : MmuReq) (fl : Option (MigCmd × MigAt)) (ws : WSt) : Prop where
  toSend : s.drv.toSend = []
  queue : ∀ m ∈ s.drv.toCP, MigOK s r m
  fly : ∀ m a, fl = some (m, a) → MigOK s r m
  one : s.drv.one = fl.isSome
  ctr : s.drv.mig = s.drv.toCP.length + (if fl.isSome then 1 else 0)
  pos : 0 < s.drv.mig
  gpuOut : s.drv.gpuOut = flOut fl
  gpuIn : s.drv.gpuIn = flIn fl
  busy : ∀ m loc, fl = some (m, .atG loc) →
      GS (.mig m.id) loc (flagsBefore (some .mig) s.drv.ngpu (accT r) m.gpu).1
        (flagsBefore (some .mig) s.drv.ngpu (accT r) m.gpu).2 (s.cp m.gpu) (s.cm m.gpu)
  idle : ∀ g, (∀ m loc, fl = some (m, .atG loc) → g ≠ m.gpu) →
      GIdle (flagsBefore (some .mig) s.drv.ngpu (accT r) g).1 (flagsBefore (some .mig) s.drv.ngpu (accT r) g).2
        (s.cp g) (s.cm g)
  ws : flWs fl ws

/-- a frame the driver is going to give back (`ReleasePhysicalPage`): it lies in the address range of device
    `d` (GPU `d-1`, one of the two GPUs with a modelled controller) and inside that GPU's memory -/
def RelOK (s : Sys) (f : Nat) : Prop :=
  ∃ d, (d = 1 ∨ d = 2) ∧ s.drv.alloc.deviceOf f = some d ∧ f + (1 <<< s.drv.alloc.lg) ≤ (s.w.sys.mem (d - 1)).size

/-- what the release of old frames needs: the allocator's ranges are consistent, the old frame of every queued
    migrate command and the remembered old frame of the command in flight (`currentlyMigratingFromPAddr`) can be
    given back to the device they came from -/
structure RelInv (s : Sys) : Prop where
  ranges : RangeOK s.drv.alloc
  queued : ∀ m ∈ s.drv.toCP, RelOK s m.rd
  flying : s.drv.one = true → RelOK s s.drv.oldF

structure DrvIdle (d : Drv) : Prop where
  handling : d.handling = false
  cur : d.cur = none
  ctrs : Ctrs d none 0
  toSend : d.toSend = []
  toCP : d.toCP = []
  one : d.one = false
  gpuIn : d.gpuIn = []
  gpuOut : d.gpuOut = []

inductive Phase (s : Sys) : Prop
  | idle : DrvIdle s.drv → (∀ g, GIdle false false (s.cp g) (s.cm g)) → WorldInv s .none → MmuInv s [] → Phase s
  | bcast (p : PK) (r : MmuReq) (σ : Split) (loc : Nat → BLoc) :
      p ≠ .mig → s.drv.handling = true → s.drv.cur = some r → ReqOK s r →
      Ctrs s.drv (some p) σ.open_ → s.drv.toCP = [] → s.drv.one = false →
      Bcast s p r σ loc → WorldInv s .none →
      MmuInv s (if p = .drain ∨ p = .shoot then [r.id] else []) →
      (p = .drain ∨ p = .shoot → PagesOK s r) → (p = .restart ∨ p = .rdma → Rehomed s r) → Phase s
  | mig (r : MmuReq) (fl : Option (MigCmd × MigAt)) (ws : WSt) :
      s.drv.handling = true → s.drv.cur = some r → ReqOK s r →
      Ctrs s.drv (some .mig) s.drv.mig → MigPh s r fl ws → WorldInv s ws → MmuInv s [r.id] → Rehomed s r → Phase s

structure Inv (s : Sys) : Prop where
  cfg : ∀ g, CfgOK (s.cp g)
  ng : 2 ≤ s.drv.ngpu ∧ s.drv.ngpu < CP.w64 ∧ s.drv.nPmc = s.drv.ngpu
  caps : s.drv.ngpu + 1 ≤ s.drv.capGpuIn ∧ s.drv.ngpu + 1 ≤ s.drv.capGpuOut
  nf : s.drv.fault = none
  frames : FramesIn s.drv.alloc s.w.sys
  lg : (1 <<< s.drv.alloc.lg) % unit = 0 ∧ 0 < (1 <<< s.drv.alloc.lg)
  logIds : s.drv.migLog.map (·.id) = List.range s.drv.nMig
  pending : ∀ r ∈ s.drv.mmuIn, ReqOK s r ∧ PagesOK s r ∧ r.id = s.drv.taken.length
  ph : Phase s
  rel : RelInv s

end SY
end C19
