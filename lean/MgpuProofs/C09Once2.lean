import MgpuProofs.C09Once
/-! # C09 — global form of "exactly once": per launch id, the mapped work-group indices are distinct and
    at most one response is sent, for every run whose launch ids are distinct. -/
namespace C09

/-- the launch ids delivered by a sequence of environment moves -/
def launchIds (ops : List Op) : List Nat :=
  ops.filterMap (fun o => match o with | .launch k => some k.id | _ => none)

/-- work-group indices mapped for launch `l`, oldest first -/
def mapsOf (log : List Ev) (l : Nat) : List Nat :=
  log.reverse.filterMap (fun e => match e with
    | .map _ _ l' idx _ => if l' = l then some idx else none
    | _ => none)

/-- number of responses sent for launch `l` -/
def rspCount (log : List Ev) (l : Nat) : Nat := (log.filter (· = .rsp l)).length

theorem mapsOf_cons_map (log : List Ev) (r c l' idx : Nat) (locs : List Loc) (l : Nat) :
    mapsOf (.map r c l' idx locs :: log) l = mapsOf log l ++ (if l' = l then [idx] else []) := by
  simp only [mapsOf, List.reverse_cons, List.filterMap_append, List.filterMap_cons, List.filterMap_nil]
  split <;> simp_all

theorem mapsOf_cons_rsp (log : List Ev) (l' l : Nat) : mapsOf (.rsp l' :: log) l = mapsOf log l := by
  simp [mapsOf, List.filterMap_append]

theorem rspCount_cons_map (log : List Ev) (r c l' idx : Nat) (locs : List Loc) (l : Nat) :
    rspCount (.map r c l' idx locs :: log) l = rspCount log l := by
  simp [rspCount]

theorem rspCount_cons_rsp (log : List Ev) (l' l : Nat) :
    rspCount (.rsp l' :: log) l = rspCount log l + (if l' = l then 1 else 0) := by
  simp only [rspCount, List.filter_cons]
  by_cases h : l' = l
  · subst h; simp
  · have : ¬ (Ev.rsp l' = Ev.rsp l) := by intro h'; injection h' with h'; exact h h'
    simp [h, this]

/-- the global accounting invariant on the abstract view (log, launch queue, busy kernels, mapped counts,
    launch ids still to be delivered) -/
structure G (log : List Ev) (drv : List Kern) (K : Nat → Option Kern) (N : Nat → Nat)
    (pending : List Nat) : Prop where
  pnd : pending.Nodup
  dnd : (drv.map (·.id)).Nodup
  bdist : ∀ i j k k', i ≠ j → K i = some k → K j = some k' → k.id ≠ k'.id
  bdrv : ∀ i k, K i = some k → k.id ∉ drv.map (·.id)
  pdrv : ∀ l ∈ pending, l ∉ drv.map (·.id)
  pbusy : ∀ l ∈ pending, ∀ i k, K i = some k → k.id ≠ l
  pfresh : ∀ l ∈ pending, mapsOf log l = [] ∧ rspCount log l = 0
  busy : ∀ i k, K i = some k → mapsOf log k.id = List.range (N i) ∧ rspCount log k.id = 0
  wait : ∀ k ∈ drv, mapsOf log k.id = [] ∧ rspCount log k.id = 0
  all : ∀ l, (mapsOf log l).Nodup ∧ rspCount log l ≤ 1

theorem G_congr {log drv K N p} (K' : Nat → Option Kern) (N' : Nat → Nat) (h : G log drv K N p)
    (hK : ∀ j, K' j = K j) (hN : ∀ j, N' j = N j) : G log drv K' N' p := by
  have e1 : K' = K := funext hK
  have e2 : N' = N := funext hN
  rw [e1, e2]; exact h

theorem G_map {log drv K N p} (h : G log drv K N p) (i : Nat) (k : Kern) (hk : K i = some k)
    (r c : Nat) (locs : List Loc) :
    G (.map r c k.id (N i) locs :: log) drv K (fun j => if j = i then N i + 1 else N j) p := by
  have hm : ∀ l, l ≠ k.id → mapsOf (.map r c k.id (N i) locs :: log) l = mapsOf log l := by
    intro l hl; rw [mapsOf_cons_map, if_neg (fun e => hl e.symm)]; simp
  exact {
    pnd := h.pnd, dnd := h.dnd, bdist := h.bdist, bdrv := h.bdrv, pdrv := h.pdrv, pbusy := h.pbusy
    pfresh := by
      intro l hl
      have hne : l ≠ k.id := fun e => h.pbusy l hl i k hk e.symm
      rw [hm l hne, rspCount_cons_map]; exact h.pfresh l hl
    busy := by
      intro j k' hk'
      rw [rspCount_cons_map]
      by_cases hj : j = i
      · subst hj
        rw [hk] at hk'; injection hk' with hk'; subst hk'
        simp only [if_true]
        rw [mapsOf_cons_map, if_pos rfl, (h.busy j k hk).1, List.range_succ]
        exact ⟨rfl, (h.busy j k hk).2⟩
      · simp only [hj, if_false]
        have hne : k'.id ≠ k.id := h.bdist j i k' k hj hk' hk
        rw [hm _ hne]; exact h.busy j k' hk'
    wait := by
      intro k' hk'
      have hne : k'.id ≠ k.id := by
        intro e; exact h.bdrv i k hk (by rw [← e]; exact List.mem_map.2 ⟨k', hk', rfl⟩)
      rw [hm _ hne, rspCount_cons_map]; exact h.wait k' hk'
    all := by
      intro l
      rw [rspCount_cons_map]
      refine ⟨?_, (h.all l).2⟩
      by_cases hl : l = k.id
      · subst hl
        rw [mapsOf_cons_map, if_pos rfl, (h.busy i k hk).1, ← List.range_succ]
        exact List.nodup_range
      · rw [hm l hl]; exact (h.all l).1 }

theorem G_rsp {log drv K N p} (h : G log drv K N p) (i : Nat) (k : Kern) (hk : K i = some k) :
    G (.rsp k.id :: log) drv (fun j => if j = i then none else K j) N p := by
  have hr : ∀ l, l ≠ k.id → rspCount (.rsp k.id :: log) l = rspCount log l := by
    intro l hl; rw [rspCount_cons_rsp, if_neg (fun e => hl e.symm)]; rfl
  have hK : ∀ j k', (if j = i then none else K j) = some k' → j ≠ i ∧ K j = some k' := by
    intro j k' hj
    by_cases hji : j = i
    · simp [hji] at hj
    · simp only [hji, if_false] at hj; exact ⟨hji, hj⟩
  exact {
    pnd := h.pnd, dnd := h.dnd
    bdist := by
      intro a b ka kb hab ha hb
      exact h.bdist a b ka kb hab (hK a ka ha).2 (hK b kb hb).2
    bdrv := fun a ka ha => h.bdrv a ka (hK a ka ha).2
    pdrv := h.pdrv
    pbusy := fun l hl a ka ha => h.pbusy l hl a ka (hK a ka ha).2
    pfresh := by
      intro l hl
      have hne : l ≠ k.id := fun e => h.pbusy l hl i k hk e.symm
      rw [mapsOf_cons_rsp, hr l hne]; exact h.pfresh l hl
    busy := by
      intro j k' hj
      obtain ⟨hji, hj'⟩ := hK j k' hj
      have hne : k'.id ≠ k.id := h.bdist j i k' k hji hj' hk
      rw [mapsOf_cons_rsp, hr _ hne]; exact h.busy j k' hj'
    wait := by
      intro k' hk'
      have hne : k'.id ≠ k.id := by
        intro e; exact h.bdrv i k hk (by rw [← e]; exact List.mem_map.2 ⟨k', hk', rfl⟩)
      rw [mapsOf_cons_rsp, hr _ hne]; exact h.wait k' hk'
    all := by
      intro l
      rw [mapsOf_cons_rsp]
      refine ⟨(h.all l).1, ?_⟩
      by_cases hl : l = k.id
      · subst hl
        rw [rspCount_cons_rsp, if_pos rfl, (h.busy i k hk).2]; exact Nat.le_refl _
      · rw [hr l hl]; exact (h.all l).2 }

theorem G_start {log rest K N p} (k : Kern) (h : G log (k :: rest) K N p) (i : Nat) (_hk : K i = none) :
    G log rest (fun j => if j = i then some k else K j) (fun j => if j = i then 0 else N j) p := by
  have hdn := h.dnd
  rw [List.map_cons, List.nodup_cons] at hdn
  have hsub : ∀ x, x ∈ rest.map (·.id) → x ∈ (k :: rest).map (·.id) := by
    intro x hx; rw [List.map_cons]; exact List.mem_cons_of_mem _ hx
  have hkid : k.id ∈ (k :: rest).map (·.id) := by rw [List.map_cons]; exact List.mem_cons_self
  have hK : ∀ j k', (if j = i then some k else K j) = some k' → (j = i ∧ k' = k) ∨ (j ≠ i ∧ K j = some k') := by
    intro j k' hj
    by_cases hji : j = i
    · simp only [hji, if_true] at hj; injection hj with hj; exact Or.inl ⟨hji, hj.symm⟩
    · simp only [hji, if_false] at hj; exact Or.inr ⟨hji, hj⟩
  exact {
    pnd := h.pnd, dnd := hdn.2
    bdist := by
      intro a b ka kb hab ha hb
      rcases hK a ka ha with ⟨ha1, ha2⟩ | ⟨ha1, ha2⟩ <;> rcases hK b kb hb with ⟨hb1, hb2⟩ | ⟨hb1, hb2⟩
      · exact absurd (ha1.trans hb1.symm) hab
      · subst ha2; intro e; exact h.bdrv b kb hb2 (by rw [← e]; exact hkid)
      · subst hb2; intro e; exact h.bdrv a ka ha2 (by rw [e]; exact hkid)
      · exact h.bdist a b ka kb hab ha2 hb2
    bdrv := by
      intro a ka ha
      rcases hK a ka ha with ⟨_, ha2⟩ | ⟨_, ha2⟩
      · subst ha2; exact hdn.1
      · exact fun hm => h.bdrv a ka ha2 (hsub _ hm)
    pdrv := fun l hl hm => h.pdrv l hl (hsub _ hm)
    pbusy := by
      intro l hl a ka ha
      rcases hK a ka ha with ⟨_, ha2⟩ | ⟨_, ha2⟩
      · subst ha2; intro e; exact h.pdrv l hl (by rw [← e]; exact hkid)
      · exact h.pbusy l hl a ka ha2
    pfresh := h.pfresh
    busy := by
      intro j k' hj
      rcases hK j k' hj with ⟨hj1, hj2⟩ | ⟨hj1, hj2⟩
      · subst hj2; simp only [hj1, if_true]
        have := h.wait k' List.mem_cons_self
        exact ⟨by rw [this.1]; rfl, this.2⟩
      · simp only [hj1, if_false]; exact h.busy j k' hj2
    wait := fun k' hk' => h.wait k' (List.mem_cons_of_mem _ hk')
    all := h.all }

theorem G_launch {log drv K N p} (k : Kern) (h : G log drv K N (k.id :: p)) :
    G log (drv ++ [k]) K N p := by
  have hp := h.pnd
  rw [List.nodup_cons] at hp
  have hkd : k.id ∉ drv.map (·.id) := h.pdrv k.id List.mem_cons_self
  have hmem : ∀ x, x ∈ (drv ++ [k]).map (·.id) → x ∈ drv.map (·.id) ∨ x = k.id := by
    intro x hx; simpa using hx
  exact {
    pnd := hp.2
    dnd := by
      rw [List.map_append, List.nodup_append]
      refine ⟨h.dnd, by simp, ?_⟩
      intro a ha b hb
      simp only [List.map_cons, List.map_nil, List.mem_singleton] at hb
      subst hb; intro e; exact hkd (by rw [← e]; exact ha)
    bdist := h.bdist
    bdrv := by
      intro a ka ha hm
      rcases hmem _ hm with h' | h'
      · exact h.bdrv a ka ha h'
      · exact h.pbusy k.id List.mem_cons_self a ka ha h'
    pdrv := by
      intro l hl hm
      rcases hmem _ hm with h' | h'
      · exact h.pdrv l (List.mem_cons_of_mem _ hl) h'
      · subst h'; exact hp.1 hl
    pbusy := fun l hl => h.pbusy l (List.mem_cons_of_mem _ hl)
    pfresh := fun l hl => h.pfresh l (List.mem_cons_of_mem _ hl)
    busy := h.busy
    wait := by
      intro k' hk'
      rcases List.mem_append.1 hk' with h' | h'
      · exact h.wait k' h'
      · simp only [List.mem_singleton] at h'; subst h'; exact h.pfresh k'.id List.mem_cons_self
    all := h.all }

/-- `G` on the view of a command-processor state -/
def GI (cp : CP) (p : List Nat) : Prop :=
  G cp.log cp.drvIn (fun j => (cp.disp j).kern) (fun j => (cp.disp j).nd) p

/-- a step that touches neither the log, the launch queue, nor any dispatcher's kernel / mapped count -/
theorem GI_silent (cp cp' : CP) (p : List Nat) (h : GI cp p) (hlog : cp'.log = cp.log)
    (hdrv : cp'.drvIn = cp.drvIn)
    (hd : ∀ j, (cp'.disp j).kern = (cp.disp j).kern ∧ (cp'.disp j).nd = (cp.disp j).nd) : GI cp' p := by
  unfold GI; rw [hlog, hdrv]
  exact G_congr _ _ h (fun j => (hd j).1) (fun j => (hd j).2)

theorem setDisp_kn (cp : CP) (i : Nat) (d : Disp) (hk : d.kern = (cp.disp i).kern)
    (hn : d.nd = (cp.disp i).nd) :
    ∀ j, ((cp.setDisp i d).disp j).kern = (cp.disp j).kern ∧ ((cp.setDisp i d).disp j).nd = (cp.disp j).nd := by
  intro j
  rw [disp_setDisp]
  split
  · rename_i h; obtain ⟨rfl, _⟩ := h; exact ⟨hk, hn⟩
  · exact ⟨rfl, rfl⟩

theorem algNext_drvIn (cp : CP) (i : Nat) : (algNext cp i).1.drvIn = cp.drvIn := by
  cases hak : (cp.disp i).alg.kern with
  | none => rw [algNext_kern_none cp i hak]
  | some k =>
    unfold algNext
    simp only [hak]
    cases hc : (cp.disp i).alg.currWG with
    | none =>
      simp only []
      rcases ht : tryCUs cp.nextKey (k.dem (cp.disp i).alg.pos)
        (cuOrder cp.cfg.greedy cp.pool.length (cp.disp i).alg.nextCU) cp.pool with ⟨r, pool'⟩
      cases r <;> rfl
    | some w =>
      simp only []
      rcases ht : tryCUs w.1 (k.dem w.2)
        (cuOrder cp.cfg.greedy cp.pool.length (cp.disp i).alg.nextCU) cp.pool with ⟨r, pool'⟩
      cases r <;> rfl

theorem pre_GI (cp : CP) (i : Nat) (p : List Nat) (h : GI cp p) : GI (pre cp i).1 p := by
  cases hcw : (cp.disp i).currWG with
  | some dl => rw [pre_some cp i dl hcw]; exact h
  | none =>
    by_cases hn : (cp.disp i).alg.hasNext = true
    · rw [pre_none_yes cp i hcw hn]
      obtain ⟨a', hdj, _, hlog, hlen, _⟩ := algNext_shape cp i
      have h1 : GI (algNext cp i).1 p := by
        refine GI_silent cp _ p h hlog (algNext_drvIn cp i) ?_
        intro j; rw [hdj j]; split
        · rename_i hc; obtain ⟨rfl, _⟩ := hc; exact ⟨rfl, rfl⟩
        · exact ⟨rfl, rfl⟩
      exact GI_silent _ _ p h1 rfl rfl (setDisp_kn _ i _ rfl rfl)
    · rw [pre_none_no cp i hcw hn]; exact h

theorem tail_drvIn (cp1 : CP) (i : Nat) (cur : Option DLoc) : (tailF cp1 i cur).1.drvIn = cp1.drvIn := by
  unfold tailF
  cases cur with
  | none => rfl
  | some dl =>
    simp only []
    by_cases hf : cp1.fault.isSome = true
    · simp [hf]
    · by_cases hr : cp1.cuRoom = 0
      · simp [hf, hr]
      · by_cases hb : dl.locs.length > 16
        · simp only [hf, hr, hb, if_true, if_false]; rfl
        · simp only [hf, hr, hb, if_false]; rfl

theorem tail_GI (cp1 : CP) (i : Nat) (cur : Option DLoc) (p : List Nat) (hdc : DCI cp1)
    (hcur : (cp1.disp i).currWG = cur) (h : GI cp1 p) : GI (tailF cp1 i cur).1 p := by
  obtain ⟨s1, s2⟩ := tail_spec cp1 i cur
  cases hb : (tailF cp1 i cur).2 with
  | false => rw [s1 hb]; exact h
  | true =>
    obtain ⟨dl, rfl, hl, _, hdj⟩ := s2 hb
    have hd := hdc i
    have hi : i < cp1.disps.length := by
      by_cases hi : i < cp1.disps.length
      · exact hi
      · rw [disp_oob cp1 i hi] at hcur; cases hcur
    cases hk : (cp1.disp i).kern with
    | none => have := (hd.idle hk).1; rw [this] at hcur; cases hcur
    | some k =>
      obtain ⟨c1, c2⟩ := hd.cur k dl hk hcur
      have hg := G_map h i k hk cp1.nextReq dl.cu dl.locs
      unfold GI
      rw [hl, tail_drvIn, c1, c2]
      refine G_congr _ _ hg ?_ ?_
      · intro j; rw [hdj j]; split
        · rename_i hc; obtain ⟨rfl, _⟩ := hc; rfl
        · rfl
      · intro j; rw [hdj j]
        by_cases hj : j = i
        · subst hj; simp [hi]
        · have : ¬ (i = j ∧ i < cp1.disps.length) := fun hc => hj hc.1.symm
          simp [this, hj]

theorem dispatchNextWG_GI (cp : CP) (i : Nat) (p : List Nat) (hdc : DCI cp) (h : GI cp p) :
    GI (dispatchNextWG cp i).1 p := by
  rw [dispatchNextWG_eq]
  obtain ⟨h1, h2, _⟩ := pre_spec cp i hdc
  exact tail_GI _ i _ p h1 h2 (pre_GI cp i p h)

theorem dispatchLoop_GI (i : Nat) (p : List Nat) : ∀ (n : Nat) (cp : CP), DCI cp → GI cp p →
    GI (dispatchLoop i n cp).1 p := by
  intro n
  induction n with
  | zero => intro cp _ h; exact h
  | succ n ih =>
    intro cp hdc h
    have h1 := dispatchNextWG_GI cp i p hdc h
    have d1 := dispatchNextWG_DCI cp i hdc
    simp only [dispatchLoop]
    by_cases hc : (!(dispatchNextWG cp i).2 || decide (((dispatchNextWG cp i).1.disp i).cycleLeft > 0)
        || (dispatchNextWG cp i).1.fault.isSome) = true
    · simp only [hc, if_true]; exact h1
    · simp only [hc]; exact ih _ d1 h1

theorem completeOne_GI (cp : CP) (i id : Nat) (p : List Nat) (h : GI cp p) : GI (completeOne cp i id) p := by
  unfold completeOne
  cases hf : (cp.disp i).inflight.find? (·.1 = id) with
  | none => simp only [hf]; exact h
  | some e =>
    obtain ⟨x, dl⟩ := e
    simp only [hf]
    cases hfree : free (cp.pool.getD dl.cu default) dl.key with
    | none => simp only []; exact GI_silent cp _ p h rfl rfl (setDisp_kn _ i _ rfl rfl)
    | some cu' => simp only []; exact GI_silent cp _ p h rfl rfl (setDisp_kn _ i _ rfl rfl)

theorem consume_GI (i : Nat) (p : List Nat) : ∀ (ids : List Nat) (cp : CP), GI cp p → GI (consume i ids cp).1 p := by
  intro ids
  induction ids with
  | nil => intro cp h; exact h
  | cons id ids ih =>
    intro cp h
    simp only [consume]
    split
    · exact ih _ (completeOne_GI cp i id p h)
    · exact ih cp h

theorem procMsgs_GI (i : Nat) (p : List Nat) : ∀ (n : Nat) (cp : CP), GI cp p → GI (procMsgs i n cp).1 p := by
  intro n
  induction n with
  | zero => intro cp h; exact h
  | succ n ih =>
    intro cp h
    unfold procMsgs
    cases hcu : cp.cuIn with
    | nil => exact h
    | cons ids rest =>
      simp only []
      have h1 := consume_GI i p ids cp h
      split
      · exact h
      · split
        · exact h1
        · split
          · exact ih { (consume i ids cp).1 with cuIn := rest } h1
          · exact h1

theorem completeKernel_GI (cp : CP) (i : Nat) (p : List Nat) (h : GI cp p) : GI (completeKernel cp i).1 p := by
  unfold completeKernel
  cases hk : (cp.disp i).kern with
  | none => simp only [hk]; exact h
  | some k =>
    simp only [hk]
    by_cases hr : cp.drvRoom = 0
    · simp only [hr, if_true]; exact h
    · simp only [hr, if_false]
      have hg := G_rsp h i k hk
      refine G_congr _ _ hg ?_ ?_
      · intro j
        show ((CP.setDisp _ i _).disp j).kern = _
        rw [disp_setDisp]
        by_cases hj : j = i
        · subst hj
          split
          · simp
          · rename_i hc
            have hoob : ¬ j < cp.disps.length := fun hlt => hc ⟨rfl, hlt⟩
            have := disp_oob cp j hoob
            rw [this] at hk; cases hk
        · have : ¬ (i = j ∧ i < (CP.emit { cp with drvRoom := cp.drvRoom - 1 } (Ev.rsp k.id)).disps.length) :=
            fun hc => hj hc.1.symm
          simp only [this, if_false, hj]; rfl
      · intro j
        show ((CP.setDisp _ i _).disp j).nd = _
        rw [disp_setDisp]
        split
        · rename_i hc; obtain ⟨rfl, _⟩ := hc; rfl
        · rfl

theorem dispTick_GI (cp : CP) (i : Nat) (p : List Nat) (hdc : DCI cp) (h : GI cp p) :
    GI (dispTick cp i).1 p := by
  have key : ∀ r1 : CP × Bool, GI r1.1 p →
      GI (if r1.1.fault.isSome then r1 else
        let r2 := procMsgs i 8 r1.1
        (r2.1, r1.2 || r2.2)).1 p := by
    intro r1 hr1
    by_cases hf : r1.1.fault.isSome = true
    · simp only [hf, if_true]; exact hr1
    · simp only [hf]; exact procMsgs_GI i p 8 _ hr1
  unfold dispTick
  by_cases hc : (cp.disp i).cycleLeft > 0
  · simp only [hc, if_true]
    exact GI_silent cp _ p h rfl rfl (setDisp_kn _ i _ rfl rfl)
  · simp only [hc, if_false]
    refine key _ ?_
    by_cases hks : (cp.disp i).kern.isSome = true
    · simp only [hks, if_true]
      by_cases hkc : kernelCompleted (cp.disp i) = true
      · simp only [hkc, if_true]; exact completeKernel_GI cp i p h
      · simp only [hkc]; exact dispatchLoop_GI i p 8 cp hdc h
    · simp only [hks]; exact h

theorem tickDispatchers_GI (p : List Nat) : ∀ (is : List Nat) (cp : CP), DCI cp → GI cp p →
    GI (tickDispatchers is cp).1 p := by
  intro is
  induction is with
  | nil => intro cp _ h; exact h
  | cons i is ih =>
    intro cp hdc h
    simp only [tickDispatchers]
    by_cases hf : cp.fault.isSome = true
    · simp only [hf, if_true]; exact h
    · simp only [hf]; exact ih _ (dispTick_DCI cp i hdc) (dispTick_GI cp i p hdc h)

theorem handleLaunch_GI (cp : CP) (p : List Nat) (h : GI cp p) : GI (handleLaunch cp).1 p := by
  refine handleLaunch_ind (P := fun c => GI c p) cp ?_ h
  unfold handleLaunchOld
  cases hdr : cp.drvIn with
  | nil => exact h
  | cons k rest =>
    simp only []
    cases hfa : findAvailable cp.disps with
    | none => exact h
    | some i =>
      simp only []
      unfold findAvailable at hfa
      rw [List.findIdx?_eq_some_iff_getElem] at hfa
      obtain ⟨hi, hp, _⟩ := hfa
      have hdi : cp.disp i = cp.disps[i] := by simp [CP.disp, List.getD_eq_getElem?_getD, hi]
      have hkn : (cp.disp i).kern = none := by
        rw [hdi]; cases hx : cp.disps[i].kern with
        | none => rfl
        | some _ => rw [hx] at hp; simp at hp
      unfold GI at h
      rw [hdr] at h
      have hg := G_start k h i hkn
      refine G_congr _ _ hg ?_ ?_
      · intro j
        show ((CP.setDisp _ i _).disp j).kern = _
        rw [disp_setDisp]
        by_cases hj : j = i
        · subst hj
          have : j < (CP.mk cp.cfg cp.disps cp.pool rest cp.cuIn cp.cuRoom cp.drvRoom cp.nextReq cp.nextKey
              cp.fault cp.out cp.log cp.done).disps.length := hi
          simp [this, startDispatching]
        · have : ¬ (i = j ∧ i < (CP.mk cp.cfg cp.disps cp.pool rest cp.cuIn cp.cuRoom cp.drvRoom cp.nextReq
              cp.nextKey cp.fault cp.out cp.log cp.done).disps.length) := fun hc => hj hc.1.symm
          simp only [this, if_false, hj]; rfl
      · intro j
        show ((CP.setDisp _ i _).disp j).nd = _
        rw [disp_setDisp]
        by_cases hj : j = i
        · subst hj
          have : j < (CP.mk cp.cfg cp.disps cp.pool rest cp.cuIn cp.cuRoom cp.drvRoom cp.nextReq cp.nextKey
              cp.fault cp.out cp.log cp.done).disps.length := hi
          simp [this, startDispatching]
        · have : ¬ (i = j ∧ i < (CP.mk cp.cfg cp.disps cp.pool rest cp.cuIn cp.cuRoom cp.drvRoom cp.nextReq
              cp.nextKey cp.fault cp.out cp.log cp.done).disps.length) := fun hc => hj hc.1.symm
          simp only [this, if_false, hj]; rfl

theorem cpTick_GI (cp : CP) (p : List Nat) (hdc : DCI cp) (h : GI cp p) : GI (cpTick cp).1 p := by
  have h1 := tickDispatchers_GI p (List.range cp.disps.length) cp hdc h
  unfold cpTick
  by_cases hf : (tickDispatchers (List.range cp.disps.length) cp).1.fault.isSome = true
  · simp only [hf, if_true]; exact h1
  · simp only [hf]; exact handleLaunch_GI _ p (handleLaunch_GI _ p h1)

theorem run_GI : ∀ (ops : List Op) (cp : CP), DCI cp → GI cp (launchIds ops) → GI (run cp ops) [] := by
  intro ops
  induction ops with
  | nil => intro cp _ h; exact h
  | cons op ops ih =>
    intro cp hdc h
    refine ih (step cp op) (step_DCI cp op hdc) ?_
    cases op with
    | tick => exact cpTick_GI cp _ hdc h
    | launch k => exact G_launch k h
    | complete ids => exact h
    | cuRoom n => exact h
    | drvRoom n => exact h

theorem mkCP_GI (cfg : Cfg) (nd : Nat) (pool : List CU) (p : List Nat) (hp : p.Nodup) :
    GI (mkCP cfg nd pool) p := by
  have hd : ∀ j, (mkCP cfg nd pool).disp j = default := by
    intro j
    simp only [mkCP, CP.disp, List.getD_eq_getElem?_getD, List.getElem?_replicate]
    split <;> rfl
  have hK : ∀ j k, ((mkCP cfg nd pool).disp j).kern = some k → False := by
    intro j k h; rw [hd j] at h; cases h
  exact {
    pnd := hp
    dnd := List.nodup_nil
    bdist := fun i _ k _ _ hi _ => (hK i k hi).elim
    bdrv := fun i k hi => (hK i k hi).elim
    pdrv := fun _ _ hm => by cases hm
    pbusy := fun _ _ i k hi => (hK i k hi).elim
    pfresh := fun _ _ => ⟨rfl, rfl⟩
    busy := fun i k hi => (hK i k hi).elim
    wait := fun _ hk => by cases hk
    all := fun _ => ⟨List.nodup_nil, Nat.zero_le _⟩ }

/-- with distinct launch ids: per launch, every work-group index is mapped at most once -/
theorem map_exactly_once (cfg : Cfg) (nd : Nat) (pool : List CU) (ops : List Op)
    (hids : (launchIds ops).Nodup) (l : Nat) : (mapsOf (run (mkCP cfg nd pool) ops).log l).Nodup :=
  ((run_GI ops _ (mkCP_DCI cfg nd pool) (mkCP_GI cfg nd pool _ hids)).all l).1

/-- with distinct launch ids: at most one response per launch -/
theorem rsp_at_most_once (cfg : Cfg) (nd : Nat) (pool : List CU) (ops : List Op)
    (hids : (launchIds ops).Nodup) (l : Nat) : rspCount (run (mkCP cfg nd pool) ops).log l ≤ 1 :=
  ((run_GI ops _ (mkCP_DCI cfg nd pool) (mkCP_GI cfg nd pool _ hids)).all l).2

/-- concrete run: both work-groups of launch 7 mapped once, in order, and one response -/
example :
    let cp := run (mkCP ⟨false, 0, 0, 0, 0⟩ 1
        [{ wfFree := [2], smask := .lim [0, 0], vmasks := [.lim [0, 0]], lmask := .lim [0, 0],
           nextSIMD := 0, resident := [] }])
      [.launch ⟨7, 128, 64, 16, 4, 256⟩, .tick, .tick, .tick, .complete [0, 1], .tick, .tick]
    mapsOf cp.log 7 = [0, 1] ∧ rspCount cp.log 7 = 1 := by
  decide

end C09
