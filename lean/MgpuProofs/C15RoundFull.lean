import MgpuProofs.C15Round
import MgpuProofs.C15CuFree
/-! # C15 ∘ C14 — the WHOLE flush / restart round of the composition (compute unit's flush handshake,
the ROB's discard / restart handshake, the compute unit's restart handshake): helpers for the
measure `fullMu` of `Props/C15RoundFull.lean` -/
namespace C15.Cu
open C14.Flush

/-- what the compute unit still has to do for the command processor: requests waiting in its port
    (2 each: take it, act on it) and the acknowledgement it still has to put on the port -/
def cuStage (s : C14.Flush.St) : Nat := 2 * s.cpIn.length + (if s.ackPending then 1 else 0)

theorem ite_mono {a b : Bool} (h : a = true → b = true) :
    (if a then 1 else 0 : Nat) ≤ if b then 1 else 0 := by
  cases a <;> cases b <;> simp_all

theorem ite_le_one (b : Bool) : (if b then 1 else 0 : Nat) ≤ 1 := by cases b <;> simp

/-! ## the stages of a compute-unit tick on (`cpIn`, `ackPending`, `isFlushing`) -/

theorem sendToCP_stage (c : C14.Flush.Cfg) (s : C14.Flush.St) :
    (sendToCP c s).cpIn = s.cpIn ∧ (sendToCP c s).isFlushing = s.isFlushing ∧
    ((sendToCP c s).ackPending = true → s.ackPending = true) ∧
    (s.cpOut.length < c.capCP → (sendToCP c s).ackPending = false) := by
  unfold sendToCP
  split
  · exact ⟨rfl, rfl, fun h => (by cases h), fun _ => rfl⟩
  · rename_i hc
    refine ⟨rfl, rfl, fun h => h, fun hr => ?_⟩
    cases ha : s.ackPending with
    | false => rfl
    | true => exact absurd ⟨ha, hr⟩ hc

theorem procCP_stage (c : C14.Flush.Cfg) (s : C14.Flush.St) (hnf : s.isFlushing = false) :
    (procCP c s).ackPending = s.ackPending ∧
    ((s.cpIn = [] ∧ (procCP c s).cpIn = [] ∧ (procCP c s).isFlushing = false) ∨
     (∃ m rest, s.cpIn = m :: rest ∧ (procCP c s).cpIn = rest)) := by
  unfold procCP
  split
  · rename_i h; exact ⟨rfl, Or.inl ⟨h, h, hnf⟩⟩
  · rename_i rest h; exact ⟨rfl, Or.inr ⟨_, rest, h, rfl⟩⟩
  · rename_i rest h
    split
    · exact ⟨rfl, Or.inr ⟨_, rest, h, rfl⟩⟩
    · exact ⟨rfl, Or.inr ⟨_, rest, h, rfl⟩⟩

theorem flushPipeline_cpIn (s : C14.Flush.St) : (flushPipeline s).cpIn = s.cpIn := by
  unfold flushPipeline; repeat' split
  all_goals rfl

theorem doFlush_stage (c : C14.Flush.Cfg) (s : C14.Flush.St) :
    (doFlush c s).cpIn = s.cpIn ∧ (s.isFlushing = false → (doFlush c s).ackPending = s.ackPending) := by
  unfold doFlush
  have h2 : ∀ t : C14.Flush.St, (if t.isSending then checkShadow c t else t).cpIn = t.cpIn ∧
      (if t.isSending then checkShadow c t else t).ackPending = t.ackPending := by
    intro t; split
    · unfold checkShadow; split <;> exact ⟨rfl, rfl⟩
    · exact ⟨rfl, rfl⟩
  simp only
  constructor
  · rw [(h2 _).1]
    split
    · rw [flushPipeline_cpIn]; split <;> rfl
    · rfl
  · intro hnf
    rw [(h2 _).2]
    simp [hnf]

/-- a tick of the compute unit never adds to what it owes the command processor, and pays when a
    request waits in its port or the acknowledgement can be put on the port -/
theorem tick_stage (c : C14.Flush.Cfg) (s : C14.Flush.St) (hnf : s.isFlushing = false) :
    cuStage (C14.Flush.tick c s) ≤ cuStage s ∧
    (s.cpIn ≠ [] → cuStage (C14.Flush.tick c s) < cuStage s) ∧
    (s.ackPending = true → s.cpOut.length < c.capCP → cuStage (C14.Flush.tick c s) < cuStage s) := by
  have e : C14.Flush.tick c s = doFlush c (procCP c
      (if !(sendToCP c s).isPaused || (sendToCP c s).isSending then procV 16 (procS (procF (sendToCP c s)))
       else sendToCP c s)) := rfl
  obtain ⟨a1, a2, a3, a4⟩ := sendToCP_stage c s
  have hm := ctl_memIn (sendToCP c s)
  simp only [ctl, Prod.mk.injEq] at hm
  obtain ⟨m1, _, _, _, _, m6, _, m8, _⟩ := hm
  generalize (if !(sendToCP c s).isPaused || (sendToCP c s).isSending then procV 16 (procS (procF (sendToCP c s)))
       else sendToCP c s) = s2 at e m1 m6 m8
  have hnf2 : s2.isFlushing = false := by rw [m1, a2]; exact hnf
  obtain ⟨b1, b2⟩ := procCP_stage c s2 hnf2
  obtain ⟨d1, d2⟩ := doFlush_stage c (procCP c s2)
  rw [e]
  unfold cuStage
  rw [d1]
  rcases b2 with ⟨h0, h0', hfl⟩ | ⟨m, rest, hin, hin'⟩
  · have hack : (doFlush c (procCP c s2)).ackPending = (sendToCP c s).ackPending := by
      rw [d2 hfl, b1, m6]
    have hs0 : s.cpIn = [] := by rw [← a1, ← m8]; exact h0
    rw [h0', hs0, hack]
    refine ⟨?_, fun h => absurd rfl h, ?_⟩
    · have := ite_mono a3; simp only [List.length_nil]; omega
    · intro hap hroom
      rw [a4 hroom, hap]; simp
  · have hs : s.cpIn = m :: rest := by rw [← a1, ← m8]; exact hin
    rw [hin', hs]
    have h1 := ite_le_one (doFlush c (procCP c s2)).ackPending
    simp only [List.length_cons]
    refine ⟨by omega, fun _ => by omega, fun _ _ => by omega⟩

/-! ## the other events of the compute unit -/

theorem cpRecvAll_cases (cp : CPSt) (ms : List CPMsg) :
    cpRecvAll cp ms = cp ∨ (cp = .flushSent ∧ cpRecvAll cp ms = .acked) ∨
    (cp = .restartSent ∧ cpRecvAll cp ms = .idle) := by
  unfold cpRecvAll
  induction ms generalizing cp with
  | nil => exact Or.inl rfl
  | cons m ms ih =>
    simp only [List.foldl_cons]
    rcases ih (cpRecv cp m) with h | ⟨h1, h2⟩ | ⟨h1, h2⟩
    · rw [h]
      cases cp <;> cases m <;> simp [cpRecv]
    · rw [h2]
      have : cp = .flushSent := by cases cp <;> cases m <;> simp_all [cpRecv]
      right; left; exact ⟨this, rfl⟩
    · rw [h2]
      have : cp = .restartSent := by cases cp <;> cases m <;> simp_all [cpRecv]
      right; right; exact ⟨this, rfl⟩

/-- events that do not touch the control part -/
theorem step_ctl (c : C14.Flush.Cfg) (s : C14.Flush.St) (o : C14.Flush.Op) (hf : s.fault = false) (h1 : o ≠ .tick)
    (h2 : o ≠ .cpFlush) (h3 : o ≠ .cpRestart) (h4 : ∀ n, o ≠ .take .c n) :
    ctl (C14.Flush.step c s o) = ctl s := by
  unfold C14.Flush.step
  rw [if_neg (by rw [hf]; decide)]
  cases o with
  | issS w n => simp only [C14.Flush.issS]; split <;> rfl
  | issV w n => simp only [C14.Flush.issV]; split <;> rfl
  | fetch w => simp only [C14.Flush.fetch]; split <;> rfl
  | usendS => rfl
  | usendV n => rfl
  | deliver k i g => cases k <;> rfl
  | cpFlush => exact absurd rfl h2
  | cpRestart => exact absurd rfl h3
  | take k n =>
    cases k
    · rfl
    · rfl
    · rfl
    · exact absurd rfl (h4 n)
  | foreign k n => cases k <;> rfl
  | tick => exact absurd rfl h1

theorem cuStage_of_ctl {s s' : C14.Flush.St} (h : ctl s' = ctl s) : cuStage s' = cuStage s ∧ s'.cp = s.cp := by
  simp only [ctl, Prod.mk.injEq] at h
  obtain ⟨_, _, _, _, _, h6, _, h8, _, _, _, _, _, h14⟩ := h
  unfold cuStage
  rw [h6, h8]; exact ⟨rfl, h14⟩

/-- **how one legal event of the compute unit moves the command processor's state and the unit's
    debt** (`Lite` before; `LegalL`) -/
theorem step_stage_cases (c : C14.Flush.Cfg) (hcap : 0 < c.capCP) (s : C14.Flush.St) (o : C14.Flush.Op) (h : Lite s) (hl : LegalL s o) :
    let s' := C14.Flush.step c s o
    (s'.cp = s.cp ∧ cuStage s' ≤ cuStage s) ∨ s.cp = .idle ∨ (s.cp = .flushSent ∧ s'.cp = .acked) ∨
    (s.cp = .acked ∧ s'.cp = .restartSent ∧ cuStage s' ≤ 2) ∨ (s.cp = .restartSent ∧ s'.cp = .idle) := by
  intro s'
  have hf : s.fault = false := h.1.1.2.1
  have hL' : Lite s' := step_Lite c hcap h o hl
  by_cases h1 : o = .tick
  · subst h1
    left
    have e : s' = C14.Flush.tick c s := by
      show C14.Flush.step c s .tick = _
      unfold C14.Flush.step; rw [if_neg (by rw [hf]; decide)]
    rw [e]
    exact ⟨tick_cp c s, (tick_stage c s h.2).1⟩
  by_cases h2 : o = .cpFlush
  · subst h2; right; left; exact hl
  by_cases h3 : o = .cpRestart
  · subst h3
    have hcp : s.cp = .acked := hl
    by_cases hroom : s.cpIn.length < c.capCP
    · right; right; right; left
      have hcp' : s'.cp = .restartSent := by
        show (C14.Flush.step c s .cpRestart).cp = _
        unfold C14.Flush.step; rw [if_neg (by rw [hf]; decide)]
        simp [hroom, hcp]
      refine ⟨hcp, hcp', ?_⟩
      obtain ⟨_, _, _, _, p5⟩ := hL'.1.1
      unfold cuStage
      rcases p5 with h5 | h5 | h5 | h5 | h5 | h5 | h5 | h5 <;> obtain ⟨_, q2, _, q4, _⟩ := h5 <;>
        rw [q2, q4] <;> simp
    · left
      have : s' = s := by
        show C14.Flush.step c s .cpRestart = _
        unfold C14.Flush.step; rw [if_neg (by rw [hf]; decide)]
        simp [hroom]
      rw [this]; exact ⟨rfl, Nat.le_refl _⟩
  by_cases h4 : ∃ n, o = .take .c n
  · obtain ⟨n, rfl⟩ := h4
    have e : s' = { s with cpOut := s.cpOut.drop n, cp := cpRecvAll s.cp (s.cpOut.take n) } := by
      show C14.Flush.step c s (.take .c n) = _
      unfold C14.Flush.step; rw [if_neg (by rw [hf]; decide)]
    have hst : cuStage s' = cuStage s := by rw [e]; rfl
    have hcp : s'.cp = cpRecvAll s.cp (s.cpOut.take n) := by rw [e]
    rcases cpRecvAll_cases s.cp (s.cpOut.take n) with hc | ⟨hc, hc'⟩ | ⟨hc, hc'⟩
    · left; exact ⟨by rw [hcp, hc], by rw [hst]; exact Nat.le_refl _⟩
    · right; right; left; exact ⟨hc, by rw [hcp, hc']⟩
    · right; right; right; right; exact ⟨hc, by rw [hcp, hc']⟩
  · left
    have := cuStage_of_ctl (step_ctl c s o hf h1 h2 h3 (fun n hn => h4 ⟨n, hn⟩))
    exact ⟨this.2, by rw [this.1]; exact Nat.le_refl _⟩

/-- what is still to come of the command processor's round (0: no round open; at most 13) -/
def fullMu (σ : Comp) : Nat :=
  match σ.cu.cp with
  | .idle => 0
  | .flushSent => 11 + cuStage σ.cu
  | .acked => 3 + (if σ.robPh = 0 then 7 else roundMu σ)
  | .restartSent => 1 + cuStage σ.cu

/-- the event of the whole round that is due -/
def helpfulF (c : Cfg) (σ : Comp) : CEv → Bool
  | .cu .tick =>
    (σ.cu.cp == .flushSent || σ.cu.cp == .restartSent) &&
    (!σ.cu.cpIn.isEmpty || (σ.cu.ackPending && decide (σ.cu.cpOut.length < c.cu.capCP)))
  | .cu (.take .c n) =>
    (σ.cu.cp == .flushSent || σ.cu.cp == .restartSent) && decide (0 < n) && !σ.cu.cpOut.isEmpty
  | .rob (.ctl m) =>
    σ.cu.cp == .acked &&
    ((decide (σ.robPh = 0) && m.discard && !m.restart && decide (σ.sys.rob.ctlIn.length < c.rob.ctlInCap)) ||
     helpfulR c σ (.rob (.ctl m)))
  | e => σ.cu.cp == .acked && helpfulR c σ e

def helpfulCountF (c : Cfg) : Comp → List CEv → Nat
  | _, [] => 0
  | σ, e :: es => (if helpfulF c σ e then 1 else 0) + helpfulCountF c (cstep c σ e) es

/-- the compute unit's part of one composed event, classified -/
theorem cstep_stage_cases (c : Cfg) (hcap : 0 < c.cu.capCP) (σ : Comp) (e : CEv) (hl : legalB c σ e = true)
    (h : Lite σ.cu) :
    let σ' := cstep c σ e
    (σ'.cu.cp = σ.cu.cp ∧ cuStage σ'.cu ≤ cuStage σ.cu) ∨ σ.cu.cp = .idle ∨
    (σ.cu.cp = .flushSent ∧ σ'.cu.cp = .acked) ∨
    (σ.cu.cp = .acked ∧ σ'.cu.cp = .restartSent ∧ cuStage σ'.cu ≤ 2) ∨
    (σ.cu.cp = .restartSent ∧ σ'.cu.cp = .idle) := by
  intro σ'
  have hcu := cstep_cu c σ e
  rcases ho : cuOp c σ e with _ | o
  · rw [ho] at hcu; simp only at hcu
    left; show (cstep c σ e).cu.cp = _ ∧ cuStage (cstep c σ e).cu ≤ _
    rw [hcu]; exact ⟨rfl, Nat.le_refl _⟩
  · rw [ho] at hcu; simp only at hcu
    show ((cstep c σ e).cu.cp = _ ∧ cuStage (cstep c σ e).cu ≤ _) ∨ _ ∨ (_ ∧ (cstep c σ e).cu.cp = _) ∨
      (_ ∧ (cstep c σ e).cu.cp = _ ∧ cuStage (cstep c σ e).cu ≤ 2) ∨ (_ ∧ (cstep c σ e).cu.cp = _)
    rw [hcu]
    exact step_stage_cases c.cu hcap σ.cu o h (cuOp_legalL c σ e hl o ho)

theorem fullMu_zero {σ : Comp} (h : fullMu σ = 0) : σ.cu.cp = .idle := by
  unfold fullMu at h
  split at h
  · assumption
  · omega
  · omega
  · omega

end C15.Cu
