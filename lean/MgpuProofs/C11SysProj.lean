import MgpuModel.C11Sys
import MgpuProofs.C11CpLive
import MgpuProofs.C11MqFair
import MgpuProofs.C11DmaTx
import MgpuProofs.Props.C11
/-! # C11 helper: the components of the closed copy system make moves of their own environments

Every move of `Sys` changes each of the three component states (`MqEnv`, `CpEnv`, `Env`) by zero or
one move of that component's environment model — so every reachable state of the closed system
contains reachable component states, and the component theorems apply inside the system. -/
namespace C11

theorem Sys.step_mq (s : Sys) (op : SysOp) : ∃ l, (s.step op).1.mq = s.mq.run l := by
  cases op <;> simp only [Sys.step] <;>
    repeat' (first
      | exact ⟨[], rfl⟩
      | exact ⟨[_], rfl⟩
      | split)

theorem Sys.step_cp (s : Sys) (op : SysOp) : ∃ l, (s.step op).1.cp = s.cp.run l := by
  cases op <;> simp only [Sys.step] <;>
    repeat' (first
      | exact ⟨[], rfl⟩
      | exact ⟨[_], rfl⟩
      | split)

theorem Sys.step_dma (s : Sys) (op : SysOp) :
    ∃ l, (s.step op).1.dma = s.dma.run l ∧ ∀ o ∈ l, o.isInject = false := by
  cases op <;> simp only [Sys.step] <;>
    repeat' (first
      | exact ⟨[], rfl, fun o h => by cases h⟩
      | exact ⟨[.tick], rfl, fun o h => by simp at h; subst h; rfl⟩
      | exact ⟨[.drain], rfl, fun o h => by simp at h; subst h; rfl⟩
      | exact ⟨[.take _], rfl, fun o h => by simp at h; subst h; rfl⟩
      | exact ⟨[.respond _], rfl, fun o h => by simp at h; subst h; rfl⟩
      | exact ⟨[.copy _ _ _], rfl, fun o h => by simp at h; subst h; rfl⟩
      | split)

theorem MqEnv.run_app (e : MqEnv) (a b : List MqOp) : e.run (a ++ b) = (e.run a).run b := by
  induction a generalizing e with
  | nil => rfl
  | cons op a ih => exact ih _

theorem Env.run_app (e : Env) (a b : List EnvOp) : e.run (a ++ b) = (e.run a).run b := by
  simp [Env.run, List.foldl_append]

/-- the state of the closed system after the schedule `ops` -/
def reachSys (c : SysCfg) (ops : List SysOp) : Sys := (Sys.init c).run ops

/-- the three component states are reachable states of the component models -/
def Sys.Comp (c : SysCfg) (s : Sys) : Prop :=
  ∃ mo co dops, s.mq = reachMq 1 c.cycH2D c.cycD2H c.nQueues c.warm mo ∧
    s.cp = reachCp c.nCaches c.cin c.cdrv c.cdma c.ccache co ∧
    s.dma = reach c.log2 c.maxReq c.memCap dops ∧ ∀ o ∈ dops, o.isInject = false

theorem Sys.Comp.init (c : SysCfg) : (Sys.init c).Comp c :=
  ⟨[], [], [], rfl, rfl, rfl, fun o h => by cases h⟩

theorem Sys.Comp.step {c : SysCfg} {s : Sys} (h : s.Comp c) (op : SysOp) : (s.step op).1.Comp c := by
  obtain ⟨mo, co, dops, h1, h2, h3, h4⟩ := h
  obtain ⟨l1, e1⟩ := s.step_mq op
  obtain ⟨l2, e2⟩ := s.step_cp op
  obtain ⟨l3, e3, e4⟩ := s.step_dma op
  refine ⟨mo ++ l1, co ++ l2, dops ++ l3, ?_, ?_, ?_, ?_⟩
  · rw [e1, h1]; unfold reachMq; rw [MqEnv.run_app]
  · rw [e2, h2]; unfold reachCp; rw [CpEnv.run_append]
  · rw [e3, h3]; unfold reach; rw [Env.run_app]
  · intro o ho
    rcases List.mem_append.1 ho with ho | ho
    · exact h4 o ho
    · exact e4 o ho

theorem Sys.Comp.run {c : SysCfg} : ∀ (ops : List SysOp) {s : Sys}, s.Comp c → (s.run ops).Comp c
  | [], _, h => h
  | op :: rest, _, h => Sys.Comp.run rest (h.step op)

end C11
