import MgpuProofs.C11CpLink
/-! A flush that arrived after some moment and has been taken and fully acknowledged has cleaned every
cache that was dirty at that moment (`cp_flush_cleans`); requests are taken from the driver port in
arrival order (`cp_taken_below_head`, `cp_forwarded_was_head`). Pure `CpEnv` facts used by the closed
system (driver + command processor + DMA engine). -/
namespace C11

/-- one environment move on the command processor plus the set of caches holding dirty data: an accepted
    `ack j` (some request outstanding at the caches, room in the CP's port) writes the acknowledging cache back -/
def cpDirtyStep (x : CpEnv × List Nat) (op : CpOp) : CpEnv × List Nat :=
  match op with
  | .ack j =>
    match x.1.atCaches with
    | [] => x
    | _ => if x.1.s.cacheIn.length ≥ x.1.s.capIn then x else
           ((x.1.step (.ack j)).1, x.2.filter (· != x.1.atCaches.getD (j % x.1.atCaches.length) 0))
  | op => ((x.1.step op).1, x.2)

def cpDirtyRun (x : CpEnv × List Nat) (ops : List CpOp) : CpEnv × List Nat := ops.foldl cpDirtyStep x

theorem cpDirtyRun_nil (x : CpEnv × List Nat) : cpDirtyRun x [] = x := rfl

theorem cpDirtyRun_cons (x : CpEnv × List Nat) (op : CpOp) (ops : List CpOp) :
    cpDirtyRun x (op :: ops) = cpDirtyRun (cpDirtyStep x op) ops := rfl

theorem cpDirtyRun_append (x : CpEnv × List Nat) (a b : List CpOp) :
    cpDirtyRun x (a ++ b) = cpDirtyRun (cpDirtyRun x a) b := by
  unfold cpDirtyRun; rw [List.foldl_append]

theorem cpDirtyStep_of_ne_ack (x : CpEnv × List Nat) (op : CpOp) (h : ∀ j, op ≠ .ack j) :
    cpDirtyStep x op = ((x.1.step op).1, x.2) := by
  cases op with
  | ack j => exact absurd rfl (h j)
  | _ => rfl

/-- the acknowledgement move: refused (nothing changes), or cache `v = atCaches[j']` is written back -/
theorem cpDirtyStep_ack (e : CpEnv) (D : List Nat) (j : Nat) :
    (cpDirtyStep (e, D) (.ack j) = (e, D) ∧ (e.step (.ack j)).1 = e) ∨
    (∃ j' v, e.atCaches[j']? = some v ∧ e.s.cacheIn.length < e.s.capIn ∧
      (e.step (.ack j)).1 = { e with s := { e.s with cacheIn := e.s.cacheIn ++ [v] },
                                     atCaches := e.atCaches.eraseIdx j' } ∧
      cpDirtyStep (e, D) (.ack j) = ((e.step (.ack j)).1, D.filter (· != v))) := by
  cases h : e.atCaches with
  | nil => left; simp [cpDirtyStep, CpEnv.step, h]
  | cons a l =>
    by_cases hc : e.s.cacheIn.length ≥ e.s.capIn
    · left; simp [cpDirtyStep, CpEnv.step, h, hc]
    · right
      have hj : j % (a :: l).length < (a :: l).length := Nat.mod_lt _ (by simp)
      refine ⟨j % (a :: l).length, (a :: l).getD (j % (a :: l).length) 0, ?_, by omega, ?_, ?_⟩
      · rw [List.getD_eq_getElem?_getD, List.getElem?_eq_getElem hj]; rfl
      · simp only [CpEnv.step, h, hc, if_false]
      · simp only [cpDirtyStep, h, hc, if_false]

theorem cpDirtyStep_fst (x : CpEnv × List Nat) (op : CpOp) : (cpDirtyStep x op).1 = (x.1.step op).1 := by
  by_cases h : ∀ j, op ≠ .ack j
  · rw [cpDirtyStep_of_ne_ack x op h]
  · have : ∃ j, op = .ack j := by
      cases op with
      | ack j => exact ⟨j, rfl⟩
      | _ => exact absurd (fun j => by simp) h
    obtain ⟨j, rfl⟩ := this
    rcases x with ⟨e, D⟩
    rcases cpDirtyStep_ack e D j with ⟨h1, h2⟩ | ⟨_, _, _, _, _, h1⟩
    · rw [h1, h2]
    · rw [h1]

/-- the command-processor component of a run with dirty set is the plain run -/
theorem cpDirtyRun_fst (x : CpEnv × List Nat) (ops : List CpOp) : (cpDirtyRun x ops).1 = x.1.run ops := by
  induction ops generalizing x with
  | nil => rfl
  | cons op ops ih =>
    rw [cpDirtyRun_cons, ih, cpDirtyStep_fst]; rfl

/-- the dirty set never grows -/
theorem cpDirtyStep_snd_subset (x : CpEnv × List Nat) (op : CpOp) : ∀ i ∈ (cpDirtyStep x op).2, i ∈ x.2 := by
  by_cases h : ∀ j, op ≠ .ack j
  · rw [cpDirtyStep_of_ne_ack x op h]; exact fun i hi => hi
  · have : ∃ j, op = .ack j := by
      cases op with
      | ack j => exact ⟨j, rfl⟩
      | _ => exact absurd (fun j => by simp) h
    obtain ⟨j, rfl⟩ := this
    rcases x with ⟨e, D⟩
    rcases cpDirtyStep_ack e D j with ⟨h1, _⟩ | ⟨_, v, _, _, _, h1⟩
    · rw [h1]; exact fun i hi => hi
    · rw [h1]; exact fun i hi => (List.mem_filter.1 hi).1

theorem cpDirtyRun_snd_subset (x : CpEnv × List Nat) (ops : List CpOp) : ∀ i ∈ (cpDirtyRun x ops).2, i ∈ x.2 := by
  induction ops generalizing x with
  | nil => exact fun i hi => hi
  | cons op ops ih =>
    intro i hi
    rw [cpDirtyRun_cons] at hi
    exact cpDirtyStep_snd_subset x op i (ih _ i hi)

/-! ## requests are taken from the driver port in arrival order -/

/-- number of requests taken from the driver port so far (while there is no fault) -/
def cpTaken (e : CpEnv) : Nat := e.sent.length - e.s.drvIn.length

theorem map_range_getElem {α} {f : α → Nat} {l : List α} (h : l.map f = List.range l.length) (i : Nat)
    (hi : i < l.length) : f l[i] = i := by
  have h1 : (l.map f)[i]? = some (f l[i]) := by simp [hi]
  rw [h, List.getElem?_range hi] at h1
  simpa using h1.symm

theorem CpInvAll.sent_split {e : CpEnv} (h : CpInvAll e) (hf : e.s.fault = none) :
    e.sent = e.s.log.filterMap CpEv.popped? ++ e.s.drvIn := by
  obtain ⟨r, hr, hg⟩ := h.pop.popped
  rw [← hg hf]; exact hr

theorem CpInvAll.taken_eq {e : CpEnv} (h : CpInvAll e) (hf : e.s.fault = none) :
    cpTaken e = (e.s.log.filterMap CpEv.popped?).length := by
  unfold cpTaken
  rw [h.sent_split hf, List.length_append]; omega

theorem CpInvAll.taken_le {e : CpEnv} (h : CpInvAll e) (hf : e.s.fault = none) :
    cpTaken e + e.s.drvIn.length = e.sent.length := by
  rw [h.taken_eq hf, h.sent_split hf, List.length_append]

/-- the head of the driver port is the next request in arrival order -/
theorem CpInvAll.head_at_taken {e : CpEnv} (h : CpInvAll e) (hf : e.s.fault = none) {m : CpMsg} {rest : List CpMsg}
    (hd : e.s.drvIn = m :: rest) : e.sent[cpTaken e]? = some m ∧ m.id = cpTaken e := by
  have hs := h.sent_split hf
  have ht := h.taken_eq hf
  have hlt : cpTaken e < e.sent.length := by have := h.taken_le hf; rw [hd] at this; simp at this; omega
  have h1 : e.sent[cpTaken e]? = some m := by
    rw [hs, ht, List.getElem?_append_right (Nat.le_refl _), Nat.sub_self, hd]; rfl
  refine ⟨h1, ?_⟩
  have h2 := map_range_getElem h.pop.ids (cpTaken e) hlt
  rw [List.getElem?_eq_getElem hlt] at h1
  simp only [Option.some.injEq] at h1
  rw [h1] at h2; exact h2

/-- a request taken from the driver port (a `popped?` projection of the log) sits at its id, below `cpTaken` -/
theorem CpInvAll.popped_at {e : CpEnv} (h : CpInvAll e) {m : CpMsg} (hm : m ∈ e.s.log.filterMap CpEv.popped?) :
    e.sent[m.id]? = some m ∧ m.id < (e.s.log.filterMap CpEv.popped?).length := by
  obtain ⟨r, hr, _⟩ := h.pop.popped
  obtain ⟨i, hi, hx⟩ := List.getElem_of_mem hm
  have hi' : i < e.sent.length := by rw [hr, List.length_append]; omega
  have h1 : e.sent[i]? = some m := by
    rw [hr, List.getElem?_append_left hi, List.getElem?_eq_getElem hi, hx]
  have h2 := map_range_getElem h.pop.ids i hi'
  have h3 : e.sent[i] = m := by
    rw [List.getElem?_eq_getElem hi'] at h1; simpa using h1
  rw [h3] at h2
  rw [h2]; exact ⟨h1, hi⟩

/-- a clone handed to ToDMA was made from a request that has been taken from the driver port, with the
    same kind -/
theorem CpInvAll.forwarded_was_head {e : CpEnv} (h : CpInvAll e) {cl : CpClone}
    (hcl : cl ∈ e.dmaSeen ++ e.s.dmaOut) :
    e.sent[cl.orig]? = some ⟨cl.orig, cl.kind⟩ ∧ (e.s.fault = none → cl.orig < cpTaken e) := by
  rw [h.copy.clones] at hcl
  have hfw := mem_clone_fwd hcl
  have hp : (⟨cl.orig, cl.kind⟩ : CpMsg) ∈ e.s.log.filterMap CpEv.popped? :=
    List.mem_filterMap.2 ⟨_, hfw, rfl⟩
  obtain ⟨h1, h2⟩ := h.popped_at hp
  exact ⟨h1, fun hf => by rw [h.taken_eq hf]; exact h2⟩

/-! ## reachable states that cannot fault -/

structure CpOk (e : CpEnv) : Prop where
  inv : CpInvAll e
  nofault : e.s.fault = none
  cap : e.s.nCaches ≤ e.s.capCache

theorem CpOk.tr {e e' : CpEnv} (h : CpOk e) (t : CpTr e e') : CpOk e' := by
  obtain ⟨c1, c2⟩ := t.cfg
  exact ⟨h.inv.tr t, h.inv.no_fault_tr h.cap h.nofault t, by rw [c1, c2]; exact h.cap⟩

theorem CpOk.steps {e e' : CpEnv} (h : CpOk e) (t : CpSteps e e') : CpOk e' := by
  induction t with
  | refl => exact h
  | tail _ t ih => exact ih.tr t

theorem reach_ok (n cin cdrv cdma ccache : Nat) (ops : List CpOp) (h : n ≤ ccache) :
    CpOk (reachCp n cin cdrv cdma ccache ops) := by
  obtain ⟨a, b, c, d⟩ := reach_all n cin cdrv cdma ccache ops
  exact ⟨a, d h, by rw [b, c]; exact h⟩

/-! ## the invariant linking the dirty set to the flush in progress -/

/-- `B`: number of requests accepted at the start moment. `opened`: while acknowledgements are
    outstanding for a flush that arrived after the start, a real cache that is still dirty has not
    acknowledged yet. `closed`: nothing outstanding and some flush that arrived after the start has been
    taken: no real cache is dirty. `fwd`: a clone made from a request that arrived after such a flush
    was forwarded when no real cache was dirty. -/
structure DirtyInv (B : Nat) (e : CpEnv) (D : List Nat) : Prop where
  opened : 0 < e.s.numAck → B < cpTaken e → ∀ i ∈ D, i < e.s.nCaches → i ∈ e.s.cacheOut ++ e.atCaches
  closed : e.s.numAck = 0 → (∃ f, B ≤ f ∧ f < cpTaken e ∧ e.sent[f]? = some ⟨f, .flush⟩) →
    ∀ i ∈ D, e.s.nCaches ≤ i
  fwd : ∀ cl ∈ e.dmaSeen ++ e.s.dmaOut, (∃ f, B ≤ f ∧ f < cl.orig ∧ e.sent[f]? = some ⟨f, .flush⟩) →
    ∀ i ∈ D, e.s.nCaches ≤ i

theorem DirtyInv.of_eq {B : Nat} {e e' : CpEnv} {D : List Nat} (h : DirtyInv B e D)
    (h1 : e'.s.numAck = e.s.numAck) (h2 : e'.s.nCaches = e.s.nCaches)
    (h3 : ∀ i, i ∈ e.s.cacheOut ++ e.atCaches → i ∈ e'.s.cacheOut ++ e'.atCaches)
    (h4 : e'.s.drvIn = e.s.drvIn) (h5 : e'.sent = e.sent)
    (h6 : ∀ cl, cl ∈ e'.dmaSeen ++ e'.s.dmaOut → cl ∈ e.dmaSeen ++ e.s.dmaOut) : DirtyInv B e' D := by
  have ht : cpTaken e' = cpTaken e := by unfold cpTaken; rw [h4, h5]
  constructor
  · rw [h1, h2, ht]; intro a b i hi hin; exact h3 i (h.opened a b i hi hin)
  · rw [h1, h2, ht, h5]; exact h.closed
  · rw [h2, h5]; intro cl hcl; exact h.fwd cl (h6 cl hcl)

theorem DirtyInv.mono {B : Nat} {e : CpEnv} {D D' : List Nat} (h : DirtyInv B e D) (hs : ∀ i ∈ D', i ∈ D) :
    DirtyInv B e D' :=
  ⟨fun a b i hi => h.opened a b i (hs i hi), fun a b i hi => h.closed a b i (hs i hi),
   fun cl hcl hf i hi => h.fwd cl hcl hf i (hs i hi)⟩

/-! ## the three stages of a pass -/

theorem handle_dirty {B : Nat} {e : CpEnv} {D : List Nat} (hg : CpOk e) (h : DirtyInv B e D) :
    DirtyInv B (e.withS e.s.handle.1) D := by
  have hg' := (hg.steps (handle_steps e)).nofault
  rcases Cp.handle_cases e.s with h0 | ⟨m, rest, hf, hd, hn, hk, h0 | h0 | h0⟩ | ⟨m, rest, hf, hd, hn, hk, hb, h0⟩
  · rw [h0]; exact h
  · obtain ⟨k, _, _, h0⟩ := h0
    rw [h0] at hg'; cases hg'
  · obtain ⟨hpos, h0⟩ := h0
    rw [h0]
    constructor
    · intro _ _ i _ hin
      simp only [CpEnv.withS_s, CpEnv.withS_atCaches, Cp.flushAsk, List.mem_append, List.mem_range]
      exact .inl (.inr hin)
    · intro hz
      have : e.s.nCaches = 0 := hz
      omega
    · exact h.fwd
  · obtain ⟨hz, _, h0⟩ := h0
    have hz' : (e.withS e.s.handle.1).s.nCaches = 0 := by rw [h0]; exact hz
    constructor
    · intro _ _ i _ hin; rw [hz'] at hin; omega
    · intro _ _ i _; rw [hz']; exact Nat.zero_le _
    · intro _ _ _ i _; rw [hz']; exact Nat.zero_le _
  · rw [h0]
    obtain ⟨hat, hid⟩ := hg.inv.head_at_taken hf hd
    have hlen := hg.inv.taken_le hf
    have ht : cpTaken (e.withS (e.s.copyFwd m rest true)) = cpTaken e + 1 := by
      show e.sent.length - rest.length = _
      rw [hd] at hlen; simp at hlen; omega
    -- a flush taken so far is not the copy request just taken
    have hcl : (∃ f, B ≤ f ∧ f < cpTaken e + 1 ∧ e.sent[f]? = some ⟨f, .flush⟩) → ∀ i ∈ D, e.s.nCaches ≤ i := by
      rintro ⟨f, hB, hlt, hs⟩
      have hne : f ≠ cpTaken e := by
        intro heq
        rw [heq, hat] at hs
        simp only [Option.some.injEq] at hs
        rw [hs] at hk; exact hk rfl
      exact h.closed hn ⟨f, hB, by omega, hs⟩
    constructor
    · intro hpos
      have : e.s.numAck = 0 := hn
      have : 0 < e.s.numAck := hpos
      omega
    · intro _ hex
      rw [ht] at hex
      exact hcl hex
    · intro cl hcl'
      have : cl ∈ e.dmaSeen ++ e.s.dmaOut ∨ cl = ⟨e.s.nextCid, m.id, m.kind⟩ := by
        simpa [Cp.copyFwd, List.mem_append, or_assoc] using hcl'
      rcases this with hc | rfl
      · exact h.fwd cl hc
      · rintro ⟨f, hB, hlt, hs⟩
        exact hcl ⟨f, hB, by simp only at hlt; omega, hs⟩

theorem dmaRsp_dirty {B : Nat} {e : CpEnv} {D : List Nat} (hg : CpOk e) (h : DirtyInv B e D) :
    DirtyInv B (e.withS e.s.dmaRsp.1) D := by
  have hg' := (hg.steps (dmaRsp_steps e)).nofault
  rcases Cp.dmaRsp_cases e.s with h0 | ⟨c, rest, hf, hd, hb, ⟨o, k, hl, h0⟩ | ⟨hH, hD, h0⟩⟩
  · rw [h0]; exact h
  · rw [h0]
    exact h.of_eq rfl rfl (fun _ hi => hi) rfl rfl (fun _ hc => hc)
  · rw [h0] at hg'; cases hg'

theorem cacheRsp_dirty {B : Nat} {e : CpEnv} {D : List Nat} (hg : CpOk e) (h : DirtyInv B e D) :
    DirtyInv B (e.withS e.s.cacheRsp.1) D := by
  have hg' := (hg.steps (cacheRsp_steps e)).nofault
  have ha := hg.inv.flush.acks
  rcases Cp.cacheRsp_cases e.s with h0 | ⟨x, rest, n', hf, hd, hn, ⟨hz, h0⟩ | ⟨hz, hc, h0⟩ | ⟨hz, f, hc, hb, h0⟩⟩
  · rw [h0]; exact h
  · have hpos : 0 < e.s.numAck := by rw [ha, hd]; simp; omega
    rw [h0]
    constructor
    · intro _ hb; exact h.opened hpos hb
    · intro hz'; exact absurd hz' hz
    · exact h.fwd
  · rw [h0] at hg'; cases hg'
  · have hpos : 0 < e.s.numAck := by rw [ha, hd]; simp; omega
    have hn' := hn hpos
    have hempty : e.s.cacheOut ++ e.atCaches = [] := by
      rw [hd] at ha; simp at ha
      have h1 : e.s.cacheOut.length = 0 := by omega
      have h2 : e.atCaches.length = 0 := by omega
      rw [List.length_eq_zero_iff] at h1 h2
      rw [h1, h2]; rfl
    rw [h0]
    constructor
    · intro hp; exact absurd hp (Nat.lt_irrefl 0)
    · rintro _ ⟨f', hB, hlt, hs⟩ i hi
      have hlt' : f' < cpTaken e := hlt
      have := h.opened hpos (by omega) i hi
      rw [hempty] at this
      by_cases hin : i < e.s.nCaches
      · exact absurd (this hin) (by simp)
      · exact Nat.le_of_not_lt hin
    · exact h.fwd

/-! ## a pass, a tick, the environment moves -/

theorem pass_dirty {B : Nat} {e : CpEnv} {D : List Nat} (hg : CpOk e) (h : DirtyInv B e D) :
    DirtyInv B (e.withS e.s.pass.1) D := by
  have g1 := hg.steps (handle_steps e)
  have g2 := g1.steps (dmaRsp_steps _)
  have h3 := cacheRsp_dirty g2 (dmaRsp_dirty g1 (handle_dirty hg h))
  simp only [CpEnv.withS_s, CpEnv.withS_withS] at h3
  exact h3

theorem tick_dirty {B : Nat} {e : CpEnv} {D : List Nat} (hg : CpOk e) (h : DirtyInv B e D) :
    DirtyInv B (e.withS e.s.tick.1) D := by
  unfold Cp.tick
  split
  · exact h
  · split
    · exact pass_dirty hg h
    · have h2 := pass_dirty (hg.steps (pass_steps e)) (pass_dirty hg h)
      simpa only [CpEnv.withS_s, CpEnv.withS_withS] using h2

/-- every move except an acknowledgement keeps the invariant with the dirty set unchanged -/
theorem step_dirty {B : Nat} {e : CpEnv} {D : List Nat} (hg : CpOk e) (h : DirtyInv B e D) (op : CpOp)
    (hop : ∀ j, op ≠ .ack j) : DirtyInv B (e.step op).1 D := by
  cases op with
  | ack j => exact absurd rfl (hop j)
  | tick => exact tick_dirty hg h
  | takeDma k =>
    refine h.of_eq rfl rfl (fun _ hi => hi) rfl rfl ?_
    intro cl hcl
    have : cl ∈ (e.dmaSeen ++ e.s.dmaOut.take k) ++ e.s.dmaOut.drop k := hcl
    rwa [List.append_assoc, List.take_append_drop] at this
  | takeCache k =>
    refine h.of_eq rfl rfl ?_ rfl rfl (fun _ hc => hc)
    intro i hi
    show i ∈ e.s.cacheOut.drop k ++ (e.atCaches ++ e.s.cacheOut.take k)
    rw [← List.take_append_drop k e.s.cacheOut] at hi
    simp only [List.mem_append] at hi ⊢
    rcases hi with (hi | hi) | hi
    · exact .inr (.inr hi)
    · exact .inl hi
    · exact .inr (.inl hi)
  | takeDrv k => exact h.of_eq rfl rfl (fun _ hi => hi) rfl rfl (fun _ hc => hc)
  | rsp j =>
    simp only [CpEnv.step]
    split
    · exact h
    · split
      · exact h
      · split
        · exact h
        · exact h.of_eq rfl rfl (fun _ hi => hi) rfl rfl (fun _ hc => hc)
  | req k =>
    simp only [CpEnv.step]
    split
    · have hlen := hg.inv.taken_le hg.nofault
      have ht : cpTaken { e with s := { e.s with drvIn := e.s.drvIn ++ [⟨e.sent.length, k⟩] },
                                 sent := e.sent ++ [⟨e.sent.length, k⟩] } = cpTaken e := by
        simp only [cpTaken, List.length_append, List.length_singleton]; omega
      have hsent : ∀ (f : Nat) (y : CpMsg), f < e.sent.length →
          (e.sent ++ [(⟨e.sent.length, k⟩ : CpMsg)])[f]? = some y → e.sent[f]? = some y := by
        intro f y hlt hy
        rwa [List.getElem?_append_left hlt] at hy
      constructor
      · rw [ht]; exact h.opened
      · rw [ht]
        rintro hn ⟨f, hB, hlt, hs⟩
        exact h.closed hn ⟨f, hB, hlt, hsent f _ (by omega) hs⟩
      · rintro cl hcl ⟨f, hB, hlt, hs⟩
        have hcl' : cl ∈ e.dmaSeen ++ e.s.dmaOut := hcl
        have := (hg.inv.forwarded_was_head hcl').2 hg.nofault
        exact h.fwd cl hcl' ⟨f, hB, hlt, hsent f _ (by omega) hs⟩
    · exact h

theorem mem_eraseIdx_of_ne {α} {l : List α} {j : Nat} {v x : α} (hv : l[j]? = some v) (hx : x ∈ l) (hne : x ≠ v) :
    x ∈ l.eraseIdx j := by
  have := (perm_cons_eraseIdx hv).mem_iff.1 hx
  rcases List.mem_cons.1 this with h | h
  · exact absurd h hne
  · exact h

/-- one move on the command processor and the dirty set -/
theorem cpDirtyStep_inv {B : Nat} {x : CpEnv × List Nat} (hg : CpOk x.1) (h : DirtyInv B x.1 x.2) (op : CpOp) :
    CpOk (cpDirtyStep x op).1 ∧ DirtyInv B (cpDirtyStep x op).1 (cpDirtyStep x op).2 := by
  refine ⟨by rw [cpDirtyStep_fst]; exact hg.steps (step_steps _ op), ?_⟩
  by_cases hop : ∀ j, op ≠ .ack j
  · rw [cpDirtyStep_of_ne_ack x op hop]
    exact step_dirty hg h op hop
  · have : ∃ j, op = .ack j := by
      cases op with
      | ack j => exact ⟨j, rfl⟩
      | _ => exact absurd (fun j => by simp) hop
    obtain ⟨j, rfl⟩ := this
    rcases x with ⟨e, D⟩
    rcases cpDirtyStep_ack e D j with ⟨h1, _⟩ | ⟨j', v, hv, _, hst, h1⟩
    · rw [h1]; exact h
    · rw [h1, hst]
      constructor
      · intro hpos hB i hi hin
        obtain ⟨hiD, hne⟩ := List.mem_filter.1 hi
        have hne' : i ≠ v := by simpa using hne
        have := h.opened hpos hB i hiD hin
        simp only [List.mem_append] at this ⊢
        rcases this with hm | hm
        · exact .inl hm
        · exact .inr (mem_eraseIdx_of_ne hv hm hne')
      · intro hn hex i hi
        exact h.closed hn hex i (List.mem_filter.1 hi).1
      · intro cl hcl hex i hi
        exact h.fwd cl hcl hex i (List.mem_filter.1 hi).1

theorem cpDirtyRun_inv {B : Nat} (ops : List CpOp) {x : CpEnv × List Nat} (hg : CpOk x.1) (h : DirtyInv B x.1 x.2) :
    CpOk (cpDirtyRun x ops).1 ∧ DirtyInv B (cpDirtyRun x ops).1 (cpDirtyRun x ops).2 := by
  induction ops generalizing x with
  | nil => exact ⟨hg, h⟩
  | cons op ops ih =>
    rw [cpDirtyRun_cons]
    obtain ⟨g, d⟩ := cpDirtyStep_inv hg h op
    exact ih g d

/-- at the start moment the invariant holds for every dirty set: no request that arrives later has been
    taken, and every clone was made from a request that arrived earlier -/
theorem DirtyInv.start {e : CpEnv} (hg : CpOk e) (D : List Nat) : DirtyInv e.sent.length e D := by
  have hlen := hg.inv.taken_le hg.nofault
  constructor
  · intro _ hB; omega
  · rintro _ ⟨f, hB, hlt, _⟩; omega
  · rintro cl hcl ⟨f, hB, hlt, _⟩
    have := (hg.inv.forwarded_was_head hcl).2 hg.nofault
    omega

/-! ## the statements for reachable states -/

theorem steps_nCaches {e e' : CpEnv} (t : CpSteps e e') : e'.s.nCaches = e.s.nCaches := by
  induction t with
  | refl => rfl
  | tail _ t ih => exact t.cfg.1.trans ih

/-- the invariant after any run from a reachable start state, any initial dirty set -/
theorem reach_dirty (n cin cdrv cdma ccache : Nat) (ops0 : List CpOp) (hcap : n ≤ ccache) (D0 : List Nat)
    (ops : List CpOp) :
    let e0 := reachCp n cin cdrv cdma ccache ops0
    let x := cpDirtyRun (e0, D0) ops
    CpOk x.1 ∧ DirtyInv e0.sent.length x.1 x.2 ∧ x.1.s.nCaches = n := by
  intro e0 x
  have hg := reach_ok n cin cdrv cdma ccache ops0 hcap
  obtain ⟨g, d⟩ := cpDirtyRun_inv (x := (e0, D0)) ops hg (DirtyInv.start hg D0)
  refine ⟨g, d, ?_⟩
  show (cpDirtyRun (e0, D0) ops).1.s.nCaches = n
  rw [cpDirtyRun_fst, steps_nCaches (run_steps _ ops)]
  exact (reach_all n cin cdrv cdma ccache ops0).2.1

/-- **(A') A copy forwarded after a flush sees clean caches.** Start in any reachable state `e0` (ToCaches
    can hold one flush request per cache) with any set `D0` of caches holding dirty data, and run any
    list of environment moves. If a clone handed to ToDMA (taken by the DMA side or still waiting) was
    made from a copy request that arrived after a flush request `f` which itself arrived after the start
    moment, then no real cache (index `< n`) holds dirty data any more — it held none at the moment the
    copy was forwarded, and the dirty set never grows. -/
theorem cp_forwarded_after_flush_clean (n cin cdrv cdma ccache : Nat) (ops0 : List CpOp) (hcap : n ≤ ccache)
    (D0 : List Nat) (ops : List CpOp) :
    let e0 := reachCp n cin cdrv cdma ccache ops0
    let x := cpDirtyRun (e0, D0) ops
    ∀ cl ∈ x.1.dmaSeen ++ x.1.s.dmaOut,
      (∃ f, e0.sent.length ≤ f ∧ f < cl.orig ∧ x.1.sent[f]? = some ⟨f, .flush⟩) → ∀ i ∈ x.2, n ≤ i := by
  intro e0 x cl hcl hex i hi
  obtain ⟨_, d, hn⟩ := reach_dirty n cin cdrv cdma ccache ops0 hcap D0 ops
  have := d.fwd cl hcl hex i hi
  rwa [hn] at this

/-- **(A) A flush that has been taken and fully acknowledged has cleaned the caches.** As above; if some
    flush request `f` that arrived after the start moment has been taken from the driver port and no
    cache acknowledgement is outstanding, then no real cache holds dirty data. -/
theorem cp_flush_cleans (n cin cdrv cdma ccache : Nat) (ops0 : List CpOp) (hcap : n ≤ ccache)
    (D0 : List Nat) (ops : List CpOp) :
    let e0 := reachCp n cin cdrv cdma ccache ops0
    let x := cpDirtyRun (e0, D0) ops
    (∃ f, e0.sent.length ≤ f ∧ x.1.sent[f]? = some ⟨f, .flush⟩ ∧ f < x.1.sent.length - x.1.s.drvIn.length) →
    x.1.s.numAck = 0 → ∀ i ∈ x.2, n ≤ i := by
  rintro e0 x ⟨f, hB, hs, hlt⟩ hnum i hi
  obtain ⟨_, d, hn⟩ := reach_dirty n cin cdrv cdma ccache ops0 hcap D0 ops
  have := d.closed hnum ⟨f, hB, hlt, hs⟩ i hi
  rwa [hn] at this

/-- while acknowledgements are outstanding for a flush that arrived after the start moment, a real cache
    that is still dirty has its flush request still on the way (in ToCaches or at the caches) -/
theorem cp_flush_open_dirty (n cin cdrv cdma ccache : Nat) (ops0 : List CpOp) (hcap : n ≤ ccache)
    (D0 : List Nat) (ops : List CpOp) :
    let e0 := reachCp n cin cdrv cdma ccache ops0
    let x := cpDirtyRun (e0, D0) ops
    0 < x.1.s.numAck → e0.sent.length < x.1.sent.length - x.1.s.drvIn.length →
    ∀ i ∈ x.2, i < n → i ∈ x.1.s.cacheOut ++ x.1.atCaches := by
  intro e0 x hpos hB i hi hin
  obtain ⟨_, d, hn⟩ := reach_dirty n cin cdrv cdma ccache ops0 hcap D0 ops
  exact d.opened hpos hB i hi (by rw [hn]; exact hin)

/-- **(B) Requests are taken in arrival order.** In a reachable state without fault the driver port holds
    exactly the latest requests; its head `m` is request number `sent.length - drvIn.length`, so every
    request that arrived before `m` has been taken. -/
theorem cp_taken_below_head (n cin cdrv cdma ccache : Nat) (ops : List CpOp) :
    let e := reachCp n cin cdrv cdma ccache ops
    e.s.fault = none →
    (∃ pre, e.sent = pre ++ e.s.drvIn) ∧
    ∀ m rest, e.s.drvIn = m :: rest →
      m.id = e.sent.length - e.s.drvIn.length ∧ e.sent[m.id]? = some m ∧
      ∀ f, f < m.id → f < e.sent.length - e.s.drvIn.length := by
  intro e hf
  have h := (reach_all n cin cdrv cdma ccache ops).1
  refine ⟨⟨_, h.sent_split hf⟩, fun m rest hd => ?_⟩
  obtain ⟨h1, h2⟩ := h.head_at_taken hf hd
  have h2' : m.id = e.sent.length - e.s.drvIn.length := h2
  exact ⟨h2', by rw [h2]; exact h1, fun f hlt => by omega⟩

/-- **(C) A clone was made from a request that has been taken.** For every clone handed to ToDMA: the
    request it was made from is an accepted request of the same kind, and (no fault) it has been taken
    from the driver port. -/
theorem cp_forwarded_was_head (n cin cdrv cdma ccache : Nat) (ops : List CpOp) :
    let e := reachCp n cin cdrv cdma ccache ops
    ∀ cl ∈ e.dmaSeen ++ e.s.dmaOut,
      e.sent[cl.orig]? = some ⟨cl.orig, cl.kind⟩ ∧
      (e.s.fault = none → cl.orig < e.sent.length - e.s.drvIn.length) := by
  intro e cl hcl
  exact (reach_all n cin cdrv cdma ccache ops).1.forwarded_was_head hcl

/-- non-vacuity: a kernel writes (caches 0 and 2 dirty), then flush and D2H copy arrive; after the run the
    copy's clone is at the DMA side and no cache is dirty; before the acknowledgements cache 2 still is -/
example :
    (cpDirtyRun (reachCp 3 8 8 8 8 [.req .h2d, .tick], [0, 2])
      [.req .flush, .req .d2h, .tick, .takeCache 3, .ack 0, .ack 0, .ack 0, .tick, .tick, .tick, .takeDma 9]).2 = [] ∧
    (cpDirtyRun (reachCp 3 8 8 8 8 [.req .h2d, .tick], [0, 2])
      [.req .flush, .req .d2h, .tick, .takeCache 3, .ack 0, .ack 0, .ack 0, .tick, .tick, .tick, .takeDma 9]).1.dmaSeen =
      [⟨0, 0, .h2d⟩, ⟨1, 2, .d2h⟩] ∧
    (cpDirtyRun (reachCp 3 8 8 8 8 [.req .h2d, .tick], [0, 2])
      [.req .flush, .req .d2h, .tick, .takeCache 3, .ack 0, .ack 0]).2 = [2] ∧
    (cpDirtyRun (reachCp 3 8 8 8 8 [.req .h2d, .tick], [0, 2])
      [.req .flush, .req .d2h, .tick, .takeCache 3, .ack 0, .ack 0]).1.dmaSeen = [] := by decide +kernel

end C11
