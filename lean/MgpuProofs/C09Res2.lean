import MgpuProofs.C09Res1
/-! # C09 — resource bookkeeping, part 2: mask-level predicates, the invariant, `mkCU_inv`,
    `free_all_restores_initial`, and the SGPR loop. -/
namespace C09

/-- a limited mask agrees with a list of recorded regions -/
def MaskOK (m : Mask) (rs : List (Nat × Nat)) : Prop :=
  match m with
  | .unl _ => True
  | .lim m =>
    (∀ i x, m[i]? = some x → (x = 0 ∨ x = 2) ∧ (x = 2 ↔ ∃ r ∈ rs, inR r i))
    ∧ (∀ r ∈ rs, r.1 + r.2 ≤ m.length)
    ∧ rs.Pairwise (fun a b => ∀ i, ¬ (inR a i ∧ inR b i))

/-- mask of shape `sh` with reserved regions `rs` and pending (to-reserve) regions `ps` -/
def MaskOK2 (sh : Option Nat) (M : Mask) (rs ps : List (Nat × Nat)) : Prop :=
  M.shape = sh ∧
  match M with
  | .unl _ => True
  | .lim m => LOK2 m rs ps

theorem LOK2_nil_iff (m : List Nat) (rs : List (Nat × Nat)) :
    LOK2 m rs [] ↔ MaskOK (.lim m) rs := by
  unfold LOK2 MaskOK
  simp only [List.append_nil, List.not_mem_nil, false_and, exists_false, iff_false]
  constructor
  · rintro ⟨h1, h2, h3⟩
    refine ⟨?_, h2, h3⟩
    intro i x hx
    obtain ⟨a, b, c⟩ := h1 i x hx
    exact ⟨by omega, b⟩
  · rintro ⟨h1, h2, h3⟩
    refine ⟨?_, h2, h3⟩
    intro i x hx
    obtain ⟨a, b⟩ := h1 i x hx
    exact ⟨by omega, b, by omega⟩

theorem MaskOK2_of_OK (M : Mask) (rs : List (Nat × Nat)) (h : MaskOK M rs) :
    MaskOK2 M.shape M rs [] := by
  refine ⟨rfl, ?_⟩
  cases M with
  | unl _ => trivial
  | lim m => exact (LOK2_nil_iff m rs).2 h

theorem MaskOK_of_OK2 (sh : Option Nat) (M : Mask) (rs : List (Nat × Nat)) (h : MaskOK2 sh M rs []) :
    MaskOK M rs ∧ M.shape = sh := by
  refine ⟨?_, h.1⟩
  cases M with
  | unl _ => trivial
  | lim m => exact (LOK2_nil_iff m rs).1 h.2

/-- `nextRegion` alone keeps the predicate (a limited mask is not changed, an unlimited one stays unlimited) -/
theorem MaskOK2_next (sh : Option Nat) (M M' : Mask) (rs ps : List (Nat × Nat)) (req : Nat) (r : Option Nat)
    (h : MaskOK2 sh M rs ps) (hn : M.nextRegion req stFree = (r, M')) : MaskOK2 sh M' rs ps := by
  cases M with
  | unl n => simp only [Mask.nextRegion, Prod.mk.injEq] at hn; obtain ⟨_, rfl⟩ := hn; exact h
  | lim m => simp only [Mask.nextRegion, Prod.mk.injEq] at hn; obtain ⟨_, rfl⟩ := hn; exact h

/-- `nextRegion` succeeded, then `setStatus … ToReserve`: the region becomes pending -/
theorem MaskOK2_find (sh : Option Nat) (M M' : Mask) (rs ps : List (Nat × Nat)) (req off : Nat)
    (h : MaskOK2 sh M rs ps) (hn : M.nextRegion req stFree = (some off, M')) :
    MaskOK2 sh (M'.setStatus off req stToRes) rs (ps ++ [(off, req)]) := by
  cases M with
  | unl n =>
    simp only [Mask.nextRegion, Prod.mk.injEq] at hn; obtain ⟨_, rfl⟩ := hn
    exact ⟨h.1, trivial⟩
  | lim m =>
    simp only [Mask.nextRegion, Prod.mk.injEq] at hn; obtain ⟨hn, rfl⟩ := hn
    refine ⟨?_, LOK2_find m rs ps req off h.2 hn⟩
    rw [← h.1]; simp [Mask.setStatus, Mask.shape, length_setStatusL]

theorem MaskOK2_commit (sh : Option Nat) (M : Mask) (rs ps : List (Nat × Nat)) (h : MaskOK2 sh M rs ps) :
    MaskOK2 sh (M.convert stToRes stRes) (rs ++ ps) [] := by
  cases M with
  | unl n => exact ⟨h.1, trivial⟩
  | lim m =>
    refine ⟨?_, LOK2_commit m rs ps h.2⟩
    rw [← h.1]; simp [Mask.convert, Mask.shape, length_convertL]

theorem MaskOK2_abort (sh : Option Nat) (M : Mask) (rs ps : List (Nat × Nat)) (h : MaskOK2 sh M rs ps) :
    MaskOK2 sh (M.convert stToRes stFree) rs [] := by
  cases M with
  | unl n => exact ⟨h.1, trivial⟩
  | lim m =>
    refine ⟨?_, LOK2_abort m rs ps h.2⟩
    rw [← h.1]; simp [Mask.convert, Mask.shape, length_convertL]

/-- `FreeResourcesForWG` on one mask -/
def Mask.clear (M : Mask) (E : List (Nat × Nat)) : Mask :=
  E.foldl (fun M r => M.setStatus r.1 r.2 stFree) M

theorem Mask.clear_lim (E : List (Nat × Nat)) : ∀ m, Mask.clear (.lim m) E = .lim (clearL m E) := by
  induction E with
  | nil => intro m; rfl
  | cons r E ih => intro m; simp only [Mask.clear, clearL, List.foldl_cons, Mask.setStatus] at *; rw [ih]

theorem Mask.clear_unl (E : List (Nat × Nat)) : ∀ n, Mask.clear (.unl n) E = .unl n := by
  induction E with
  | nil => intro m; rfl
  | cons r E ih => intro m; simp only [Mask.clear, List.foldl_cons, Mask.setStatus] at *; rw [ih]

theorem MaskOK_clear (M : Mask) (rs rs' E : List (Nat × Nat)) (hok : MaskOK M rs)
    (hsub : rs'.Sublist rs) (hcover : ∀ r ∈ rs, r ∈ rs' ∨ r ∈ E)
    (hdisj : ∀ a ∈ E, ∀ b ∈ rs', disj a b) : MaskOK (M.clear E) rs' := by
  cases M with
  | unl n => rw [Mask.clear_unl]; trivial
  | lim m =>
    rw [Mask.clear_lim, ← LOK2_nil_iff]
    exact LOK2_clear m rs rs' E ((LOK2_nil_iff m rs).2 hok) hsub hcover hdisj

/-- a region recorded after a call (`new`), on top of the old ones, was free before the call -/
theorem was_free (M M' : Mask) (rs new : List (Nat × Nat)) (hold : MaskOK M rs)
    (hnew : MaskOK M' (rs ++ new)) (hsh : M'.shape = M.shape) (r : Nat × Nat) (hr : r ∈ new)
    (i : Nat) (hi : inR r i) (m : List Nat) (hm : M = .lim m) : m[i]? = some 0 := by
  subst hm
  cases M' with
  | unl n => simp [Mask.shape] at hsh
  | lim m' =>
    simp only [Mask.shape, Option.some.injEq] at hsh
    obtain ⟨_, hcap, hpw⟩ := hnew
    obtain ⟨hc, _, _⟩ := hold
    have hlen := hcap r (List.mem_append_right _ hr)
    have hil : i < m.length := by have := hi.2; omega
    rw [List.getElem?_eq_getElem hil]
    obtain ⟨h0, h2⟩ := hc i m[i] (List.getElem?_eq_getElem hil)
    rcases h0 with h0 | h0
    · rw [h0]
    · obtain ⟨r', hr', hi'⟩ := h2.1 h0
      exact absurd ⟨hi', hi⟩ ((List.pairwise_append.1 hpw).2.2 r' hr' r hr i)

/-! ## the SGPR loop -/

theorem sgprLoop_ok (req : Nat) : ∀ (n : Nat) (sh : Option Nat) (M : Mask) (rs ps : List (Nat × Nat))
    (r : Option (List Nat)) (M' : Mask), MaskOK2 sh M rs ps → sgprLoop req n M = (r, M') →
    ∃ ps', MaskOK2 sh M' rs ps' ∧
      ∀ offs, r = some offs → offs.length = n ∧ ps' = ps ++ offs.map (fun o => (o, req)) := by
  intro n
  induction n with
  | zero =>
    intro sh M rs ps r M' h hs
    simp only [sgprLoop, Prod.mk.injEq] at hs
    obtain ⟨rfl, rfl⟩ := hs
    exact ⟨ps, h, by intro offs ho; injection ho with ho; subst ho; simp⟩
  | succ n ih =>
    intro sh M rs ps r M' h hs
    rcases hnr : M.nextRegion req stFree with ⟨_ | off, M1⟩
    · simp only [sgprLoop, hnr, Prod.mk.injEq] at hs
      obtain ⟨rfl, rfl⟩ := hs
      exact ⟨ps, MaskOK2_next sh M M1 rs ps req none h hnr, by intro offs ho; cases ho⟩
    · simp only [sgprLoop, hnr, Prod.mk.injEq] at hs
      obtain ⟨hr, hM⟩ := hs
      have h1 := MaskOK2_find sh M M1 rs ps req off h hnr
      obtain ⟨ps', hps', hoffs⟩ := ih sh _ rs _ _ _ h1 (Prod.ext rfl rfl)
      subst hM
      refine ⟨ps', hps', ?_⟩
      intro offs ho
      subst hr
      cases hrec : (sgprLoop req n (M1.setStatus off req stToRes)).1 with
      | none => simp [hrec] at ho
      | some offs' =>
        simp only [hrec, Option.map_some, Option.some.injEq] at ho
        obtain ⟨hl, hp⟩ := hoffs offs' hrec
        subst ho
        refine ⟨by simp [hl], ?_⟩
        rw [hp]; simp

/-! ## recorded regions and the invariant -/

/-- SGPR unit regions recorded for resident work-groups: one per wavefront location -/
def sRegions (cu : CU) : List (Nat × Nat) :=
  cu.resident.flatMap fun e => e.2.2.map fun l => (l.soff / 64, units e.2.1.s sGran)

/-- LDS unit regions: one per resident work-group (all its wavefronts share it) -/
def lRegions (cu : CU) : List (Nat × Nat) :=
  cu.resident.flatMap fun e =>
    match e.2.2 with
    | [] => []
    | l :: _ => [(l.loff / 256, units e.2.1.l lGran)]

/-- VGPR unit regions on SIMD k -/
def vRegions (cu : CU) (k : Nat) : List (Nat × Nat) :=
  cu.resident.flatMap fun e => (e.2.2.filter (·.simd = k)).map fun l => (l.voff / 16, units e.2.1.v vGran)

/-- the invariant; `cap` = the `WfPoolSizes` the CU was registered with -/
structure Inv (cap : List Nat) (cu : CU) : Prop where
  /-- the SGPR mask agrees with the recorded SGPR regions -/
  sOK : MaskOK cu.smask (sRegions cu)
  /-- the LDS mask agrees with the recorded LDS regions -/
  lOK : MaskOK cu.lmask (lRegions cu)
  /-- one VGPR mask per SIMD -/
  vLen : cu.vmasks.length = cap.length
  /-- each VGPR mask agrees with the recorded VGPR regions of its SIMD -/
  vOK : ∀ k (h : k < cu.vmasks.length), MaskOK cu.vmasks[k] (vRegions cu k)
  /-- one free-slot counter per SIMD -/
  wfLen : cu.wfFree.length = cap.length
  /-- free slots + resident wavefronts = capacity, per SIMD -/
  wfOK : ∀ k, k < cap.length → cu.wfFree.getD k 0 + residentOn cu k = cap.getD k 0
  /-- a work-group is resident at most once -/
  keys : (cu.resident.map (·.1)).Nodup
  /-- every recorded SIMD id is a SIMD of this CU -/
  simdOK : ∀ e ∈ cu.resident, ∀ l ∈ e.2.2, l.simd < cap.length
  /-- the round-robin pointer is a SIMD of this CU -/
  nextOK : cu.nextSIMD < cap.length
  /-- one location per wavefront -/
  locLen : ∀ e ∈ cu.resident, e.2.2.length = e.2.1.nwf
  /-- resident work-groups have at least one wavefront -/
  nwfPos : ∀ e ∈ cu.resident, 1 ≤ e.2.1.nwf
  /-- all wavefronts of a work-group share the LDS offset -/
  sameL : ∀ e ∈ cu.resident, ∀ l ∈ e.2.2, ∀ l' ∈ e.2.2, l.loff = l'.loff
  /-- byte offsets are exact multiples of the unit sizes -/
  aligned : ∀ e ∈ cu.resident, ∀ l ∈ e.2.2, l.soff % 64 = 0 ∧ l.voff % 16 = 0 ∧ l.loff % 256 = 0

/-! ## a freshly registered CU -/

theorem MaskOK_replicate (n : Nat) : MaskOK (.lim (List.replicate n 0)) [] := by
  refine ⟨?_, by simp, by simp⟩
  intro i x hx
  rw [List.getElem?_replicate] at hx
  split at hx
  · injection hx with hx; subst hx; simp
  · cases hx

theorem mkMask_ok (c : Option Nat) (g : Nat) (M : Mask) (h : mkMask c g = some M) : MaskOK M [] := by
  unfold mkMask at h
  split at h
  · injection h with h; subst h; trivial
  · split at h
    · injection h with h; subst h; exact MaskOK_replicate _
    · cases h

theorem vmasks_ok : ∀ (v : List (Option Nat)) (vms : List Mask),
    (v.mapM fun c => match c with
      | none => some (Mask.unl 0)
      | some c => if c % (vGran * 64) = 0 then some (Mask.lim (List.replicate (c / vGran / 64) 0)) else none)
      = some vms →
    vms.length = v.length ∧ ∀ M ∈ vms, MaskOK M [] := by
  intro v
  induction v with
  | nil => intro vms h; simp at h; subst h; simp
  | cons c v ih =>
    intro vms h
    rw [List.mapM_cons] at h
    simp only [bind, Option.bind_eq_some_iff, pure, Option.some.injEq] at h
    obtain ⟨M, hM, vms', hvms', rfl⟩ := h
    obtain ⟨hl, hok⟩ := ih vms' hvms'
    refine ⟨by simp [hl], ?_⟩
    intro M' hM'
    rcases List.mem_cons.1 hM' with h | h
    · subst h
      split at hM
      · injection hM with hM; subst hM; trivial
      · split at hM
        · injection hM with hM; subst hM; exact MaskOK_replicate _
        · cases hM
    · exact hok M' h

/-- `RegisterCU` establishes the invariant -/
theorem mkCU_inv (wf : List Nat) (s : Option Nat) (v : List (Option Nat)) (l : Option Nat) (cu : CU)
    (h : mkCU wf s v l = some cu) (hlen : wf.length = v.length) (hpos : 0 < wf.length) : Inv wf cu := by
  unfold mkCU at h
  simp only [bind, Option.bind_eq_some_iff, pure, Option.some.injEq] at h
  obtain ⟨sm, hsm, vms, hvms, lm, hlm, rfl⟩ := h
  obtain ⟨hvl, hvok⟩ := vmasks_ok v vms hvms
  exact {
    sOK := by simpa [sRegions] using mkMask_ok _ _ _ hsm
    lOK := by simpa [lRegions] using mkMask_ok _ _ _ hlm
    vLen := by simp [hvl, hlen]
    vOK := by
      intro k hk
      simpa [vRegions] using hvok _ (List.getElem_mem hk)
    wfLen := rfl
    wfOK := by intro k _; simp [residentOn]
    keys := by simp
    simdOK := by simp
    nextOK := hpos
    locLen := by simp
    nwfPos := by simp
    sameL := by simp
    aligned := by simp }

/-! ## with nothing resident the CU is back in its initial state -/

theorem MaskOK_nil_all_free (m : List Nat) (h : MaskOK (.lim m) []) : m = List.replicate m.length 0 := by
  rw [List.eq_replicate_iff]
  refine ⟨rfl, ?_⟩
  intro b hb
  obtain ⟨i, hi⟩ := List.mem_iff_getElem?.1 hb
  obtain ⟨h0, h2⟩ := h.1 i b hi
  rcases h0 with h0 | h0
  · exact h0
  · have := h2.1 h0; simp at this

/-- once every work-group has been freed, the wavefront slots and all limited masks are as registered -/
theorem free_all_restores_initial (cap : List Nat) (cu : CU) (hinv : Inv cap cu) (hres : cu.resident = []) :
    cu.wfFree = cap ∧
    (∀ m, cu.smask = .lim m → m = List.replicate m.length 0) ∧
    (∀ m, cu.lmask = .lim m → m = List.replicate m.length 0) ∧
    (∀ k (h : k < cu.vmasks.length) m, cu.vmasks[k] = .lim m → m = List.replicate m.length 0) := by
  refine ⟨?_, ?_, ?_, ?_⟩
  · apply List.ext_getElem hinv.wfLen
    intro k h1 h2
    have := hinv.wfOK k h2
    simp only [residentOn, hres, List.flatMap_nil, List.length_nil, Nat.add_zero] at this
    simpa [List.getD_eq_getElem?_getD, h1, h2] using this
  · intro m hm
    have := hinv.sOK
    simp only [sRegions, hres, List.flatMap_nil, hm] at this
    exact MaskOK_nil_all_free m this
  · intro m hm
    have := hinv.lOK
    simp only [lRegions, hres, List.flatMap_nil, hm] at this
    exact MaskOK_nil_all_free m this
  · intro k hk m hm
    have := hinv.vOK k hk
    simp only [vRegions, hres, List.flatMap_nil, hm] at this
    exact MaskOK_nil_all_free m this

end C09
