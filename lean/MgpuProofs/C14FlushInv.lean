import MgpuProofs.C14FlushChan
/-! # C14 flush / restart — the invariant of the compute unit's memory-side bookkeeping and its
preservation by every legal event (`step_Inv`, `run_Inv`). -/
namespace C14.Flush

/-- the three memory paths and the wavefront counters -/
structure Core (s : St) : Prop where
  cf : ChanOK s.f s.nextId s.isPaused s.isSending
  cs : ChanOK s.s s.nextId s.isPaused s.isSending
  cv : ChanOK s.v s.nextId s.isPaused s.isSending
  /-- `OutstandingVectorMemAccess` = vector records (in flight or saved) that carry the decrement -/
  vmEq : ∀ w, s.vm w = (cnt (s.v.inf ++ s.v.sh) w : Int)
  /-- `OutstandingScalarMemAccess` = the same for vector and scalar records together -/
  lgkmEq : ∀ w, s.lgkm w = (cnt (s.v.inf ++ s.v.sh) w : Int) + (cnt (s.s.inf ++ s.s.sh) w : Int)

/-- The command processor's protocol state against the unit's flags, the `ToCP` buffers and the
    pending acknowledgement. The third alternative only occurs inside a `tick` (request taken by
    `processInputFromCP`, `doFlush` not yet run). -/
def PM (s : St) : Prop :=
  s.handlingWfc = false ∧ s.fault = false ∧ s.flushReq = s.isFlushing ∧ (s.isSending = true → s.isPaused = true) ∧
  (  (s.cp = .idle ∧ s.cpIn = [] ∧ s.cpOut = [] ∧ s.ackPending = false ∧ s.isFlushing = false ∧
        (s.isPaused = true → s.isSending = true))
   ∨ (s.cp = .flushSent ∧ s.cpIn = [.flush] ∧ s.cpOut = [] ∧ s.ackPending = false ∧ s.isFlushing = false ∧
        (s.isPaused = true → s.isSending = true))
   ∨ (s.cp = .flushSent ∧ s.cpIn = [] ∧ s.cpOut = [] ∧ s.ackPending = false ∧ s.isFlushing = true ∧
        (s.isPaused = true → s.isSending = true))
   ∨ (s.cp = .flushSent ∧ s.cpIn = [] ∧ s.cpOut = [] ∧ s.ackPending = true ∧ s.isFlushing = false ∧
        s.isPaused = true ∧ s.isSending = false)
   ∨ (s.cp = .flushSent ∧ s.cpIn = [] ∧ s.cpOut = [.ack] ∧ s.ackPending = false ∧ s.isFlushing = false ∧
        s.isPaused = true ∧ s.isSending = false)
   ∨ (s.cp = .acked ∧ s.cpIn = [] ∧ s.cpOut = [] ∧ s.ackPending = false ∧ s.isFlushing = false ∧
        s.isPaused = true ∧ s.isSending = false)
   ∨ (s.cp = .restartSent ∧ s.cpIn = [.restart] ∧ s.cpOut = [] ∧ s.ackPending = false ∧ s.isFlushing = false ∧
        s.isPaused = true ∧ s.isSending = false)
   ∨ (s.cp = .restartSent ∧ s.cpIn = [] ∧ s.cpOut = [.rrsp] ∧ s.ackPending = false ∧ s.isFlushing = false ∧
        (s.isPaused = true → s.isSending = true)))

/-- acknowledgements: none overwritten, one per executed flush (sent or still pending), one restart
    answer per restart request -/
def Acks (s : St) : Prop :=
  s.acksLost = 0 ∧ s.ackLog.count .ack + (if s.ackPending then 1 else 0) = s.flushes ∧
  s.ackLog.count .rrsp = s.restarts

def Mid (s : St) : Prop := Core s ∧ PM s ∧ Acks s

/-- the invariant between two events -/
def Inv (s : St) : Prop := Mid s ∧ s.isFlushing = false

theorem Inv_init : Inv St.init := by
  refine ⟨⟨⟨ChanOK.empty _ _ _, ChanOK.empty _ _ _, ChanOK.empty _ _ _, ?_, ?_⟩, ?_, ?_⟩, rfl⟩
  · intro w; simp [St.init, Chan.empty, cnt]
  · intro w; simp [St.init, Chan.empty, cnt]
  · simp [PM, St.init]
  · simp [Acks, St.init]

/-! ## the control part of a state -/

def ctl (s : St) :=
  (s.isFlushing, s.isPaused, s.isSending, s.flushReq, s.handlingWfc, s.ackPending, s.cpOut, s.cpIn, s.fault,
   s.flushes, s.restarts, s.acksLost, s.ackLog, s.cp)

theorem PM_congr {s s' : St} (h : ctl s' = ctl s) (hp : PM s) : PM s' := by
  simp only [ctl, Prod.mk.injEq] at h
  obtain ⟨h1, h2, h3, h4, h5, h6, h7, h8, h9, _, _, _, _, h14⟩ := h
  unfold PM at hp ⊢
  rw [h1, h2, h3, h4, h5, h6, h7, h8, h9, h14]
  exact hp

theorem Acks_congr {s s' : St} (h : ctl s' = ctl s) (hp : Acks s) : Acks s' := by
  simp only [ctl, Prod.mk.injEq] at h
  obtain ⟨_, _, _, _, _, h6, _, _, _, h10, h11, h12, h13, _⟩ := h
  unfold Acks at hp ⊢
  rw [h6, h10, h11, h12, h13]
  exact hp

/-! ## counting under the list operations -/

theorem cnt_cons (e : Entry) (l : List Entry) (w : Nat) :
    cnt (e :: l) w = (if e.wf = w ∧ e.last = true then 1 else 0) + cnt l w := by
  unfold cnt
  rw [List.filter_cons]
  by_cases h : e.wf = w ∧ e.last = true
  · have : (e.wf == w && e.last) = true := by simp [h.1, h.2]
    rw [if_pos this, if_pos h]; simp; omega
  · have : ¬ (e.wf == w && e.last) = true := by simpa using h
    rw [if_neg this, if_neg h]; simp

theorem cnt_middle (l1 l2 : List Entry) (e : Entry) (w : Nat) :
    cnt (l1 ++ e :: l2) w = (if e.wf = w ∧ e.last = true then 1 else 0) + cnt (l1 ++ l2) w := by
  rw [cnt_append, cnt_cons, cnt_append]; omega

theorem cnt_middle_int (l1 l2 : List Entry) (e : Entry) (w : Nat) :
    (cnt (l1 ++ e :: l2) w : Int) =
      (if e.wf = w ∧ e.last = true then (1 : Int) else 0) + (cnt (l1 ++ l2) w : Int) := by
  rw [cnt_middle]; split <;> simp

/-- a return handler's decrement against the count of the remaining records -/
theorem dec_counter (g : Nat → Int) (e : Entry) (w : Nat) (x y : Int)
    (h : g w = x + ((if e.wf = w ∧ e.last = true then (1 : Int) else 0) + y)) :
    (if e.last = true then upd g e.wf (-1) else g) w = x + y := by
  by_cases hl : e.last = true
  · rw [if_pos hl]
    unfold upd
    by_cases hw : e.wf = w
    · subst hw; simp [hl] at h ⊢; omega
    · have hw' : ¬ w = e.wf := fun h => hw h.symm
      simp [hw, hw'] at h ⊢; omega
  · rw [if_neg hl]
    simp [hl] at h; omega

theorem cnt_drain (c : Chan) (cap w : Nat) :
    cnt ((c.drain cap).inf ++ (c.drain cap).sh) w = cnt (c.inf ++ c.sh) w := by
  unfold Chan.drain
  rcases hsh : c.sh with _ | ⟨e, rest⟩
  · simp [hsh]
  · simp only
    split
    · simp only [List.append_assoc, List.cons_append, List.nil_append]
      rw [cnt_middle, cnt_middle]
    · rw [cnt_middle, cnt_middle]

theorem drain_ids (c : Chan) (cap : Nat) :
    ids ((c.drain cap).inf ++ (c.drain cap).sh) = ids (c.inf ++ c.sh) := by
  unfold Chan.drain
  rcases hsh : c.sh with _ | ⟨e, rest⟩
  · simp [hsh]
  · simp only
    split <;> simp [ids]

/-! ## `sendToCP` -/

theorem sendToCP_Mid (c : Cfg) {s : St} (h : Mid s) : Mid (sendToCP c s) := by
  obtain ⟨hc, hp, ha⟩ := h
  unfold sendToCP
  split
  · rename_i hcond
    refine ⟨⟨hc.cf, hc.cs, hc.cv, hc.vmEq, hc.lgkmEq⟩, ?_, ?_⟩
    · unfold PM at hp ⊢
      obtain ⟨h1, h2, h3, h4, h5⟩ := hp
      refine ⟨h1, h2, h3, h4, ?_⟩
      simp only [hcond.1] at h5
      rcases h5 with h5 | h5 | h5 | h5 | h5 | h5 | h5 | h5 <;> simp_all
    · unfold Acks at ha ⊢
      obtain ⟨a1, a2, a3⟩ := ha
      simp only [hcond.1, if_true] at a2
      refine ⟨a1, ?_, ?_⟩
      · simp [List.count_append]; omega
      · simpa [List.count_append] using a3
  · exact ⟨hc, hp, ha⟩

/-! ## the return handlers -/

theorem ctl_procF (s : St) : ctl (procF s) = ctl s := by
  unfold procF; split <;> rfl

theorem ctl_procS (s : St) : ctl (procS s) = ctl s := by
  unfold procS; split
  · rfl
  · split <;> rfl

theorem ctl_procV1 (s : St) : ctl (procV1 s) = ctl s := by
  unfold procV1; split
  · rfl
  · split <;> rfl

theorem ctl_flags {s s' : St} (h : ctl s' = ctl s) : s'.isPaused = s.isPaused ∧ s'.isSending = s.isSending := by
  simp only [ctl, Prod.mk.injEq] at h
  exact ⟨h.2.1, h.2.2.1⟩

theorem procF_Mid {s : St} (h : Mid s) : Mid (procF s) := by
  refine ⟨?_, PM_congr (ctl_procF s) h.2.1, Acks_congr (ctl_procF s) h.2.2⟩
  obtain ⟨hc, _, _⟩ := h
  unfold procF
  rcases hinp : s.f.inp with _ | ⟨r, rest⟩
  · exact hc
  · simp only
    have hr : r ∈ s.f.sent := hc.cf.inpSent r (by rw [hinp]; simp)
    have h0 : ChanOK { s.f with inp := rest } s.nextId s.isPaused s.isSending :=
      hc.cf.setInp rest (by intro x hx; rw [hinp]; simp [hx])
    exact ⟨h0.respond r hr, hc.cs, hc.cv, hc.vmEq, hc.lgkmEq⟩

theorem upd_neg (g : Nat → Int) (w x : Nat) : upd g w (-1) x = g x - (if x = w then 1 else 0) := by
  unfold upd; split <;> omega

theorem procS_Mid {s : St} (h : Mid s) : Mid (procS s) := by
  refine ⟨?_, PM_congr (ctl_procS s) h.2.1, Acks_congr (ctl_procS s) h.2.2⟩
  obtain ⟨hc, _, _⟩ := h
  unfold procS
  rcases hinp : s.s.inp with _ | ⟨r, rest⟩
  · exact hc
  · simp only
    have hr : r ∈ s.s.sent := hc.cs.inpSent r (by rw [hinp]; simp)
    have h0 : ChanOK { s.s with inp := rest } s.nextId s.isPaused s.isSending :=
      hc.cs.setInp rest (by intro x hx; rw [hinp]; simp [hx])
    have h1 := h0.respond r hr
    rcases hres : ({ s.s with inp := rest } : Chan).respond r with ⟨ch, _ | e⟩
    · rw [hres] at h1
      have := respond_none hres
      subst this
      exact ⟨hc.cf, h1, hc.cv, hc.vmEq, hc.lgkmEq⟩
    · rw [hres] at h1
      obtain ⟨l1, l2, hinf, _, rfl⟩ := respond_some hres
      simp only at hinf h1 ⊢
      refine ⟨hc.cf, h1, hc.cv, hc.vmEq, ?_⟩
      intro w
      have := hc.lgkmEq w
      rw [hinf, List.append_assoc, List.cons_append, cnt_middle_int] at this
      simp only [List.append_assoc]
      exact dec_counter s.lgkm e w _ _ this

theorem procV1_Mid {s : St} (h : Mid s) : Mid (procV1 s) := by
  refine ⟨?_, PM_congr (ctl_procV1 s) h.2.1, Acks_congr (ctl_procV1 s) h.2.2⟩
  obtain ⟨hc, _, _⟩ := h
  unfold procV1
  rcases hinp : s.v.inp with _ | ⟨r, rest⟩
  · exact hc
  · simp only
    have hr : r ∈ s.v.sent := hc.cv.inpSent r (by rw [hinp]; simp)
    have h0 : ChanOK { s.v with inp := rest } s.nextId s.isPaused s.isSending :=
      hc.cv.setInp rest (by intro x hx; rw [hinp]; simp [hx])
    have h1 := h0.respond r hr
    rcases hres : ({ s.v with inp := rest } : Chan).respond r with ⟨ch, _ | e⟩
    · rw [hres] at h1
      have := respond_none hres
      subst this
      exact ⟨hc.cf, hc.cs, h1, hc.vmEq, hc.lgkmEq⟩
    · rw [hres] at h1
      obtain ⟨l1, l2, hinf, _, rfl⟩ := respond_some hres
      simp only at hinf h1 ⊢
      have key : ∀ w, (cnt (s.v.inf ++ s.v.sh) w : Int) =
          (if e.wf = w ∧ e.last = true then (1 : Int) else 0) + (cnt (l1 ++ l2 ++ s.v.sh) w : Int) := by
        intro w
        rw [hinf, List.append_assoc, List.cons_append, cnt_middle_int, List.append_assoc]
      refine ⟨hc.cf, hc.cs, h1, ?_, ?_⟩
      · intro w
        have := hc.vmEq w
        rw [key w] at this
        have h2 : s.vm w = 0 + ((if e.wf = w ∧ e.last = true then (1 : Int) else 0) +
            (cnt (l1 ++ l2 ++ s.v.sh) w : Int)) := by omega
        have := dec_counter s.vm e w _ _ h2
        simpa using this
      · intro w
        have := hc.lgkmEq w
        rw [key w] at this
        have h2 : s.lgkm w = (cnt (s.s.inf ++ s.s.sh) w : Int) + ((if e.wf = w ∧ e.last = true then (1 : Int) else 0) +
            (cnt (l1 ++ l2 ++ s.v.sh) w : Int)) := by omega
        have := dec_counter s.lgkm e w _ _ h2
        show (if e.last = true then upd s.lgkm e.wf (-1) else s.lgkm) w = _
        rw [this]; simp only [List.append_assoc]; omega

theorem procV_Mid (n : Nat) {s : St} (h : Mid s) : Mid (procV n s) := by
  induction n generalizing s with
  | zero => exact h
  | succ n ih => exact ih (procV1_Mid h)

theorem ctl_procV (n : Nat) (s : St) : ctl (procV n s) = ctl s := by
  induction n generalizing s with
  | zero => rfl
  | succ n ih => exact (ih (procV1 s)).trans (ctl_procV1 s)

/-! ## `processInput` -/

theorem memIn_Mid {s : St} (h : Mid s) :
    Mid (if !s.isPaused || s.isSending then procV 16 (procS (procF s)) else s) := by
  split
  · exact procV_Mid 16 (procS_Mid (procF_Mid h))
  · exact h

theorem ctl_memIn (s : St) :
    ctl (if !s.isPaused || s.isSending then procV 16 (procS (procF s)) else s) = ctl s := by
  split
  · exact (ctl_procV 16 _).trans ((ctl_procS _).trans (ctl_procF s))
  · rfl

theorem Core.startSending {s : St} (hc : Core s) {s' : St} (hf : s'.f = s.f) (hs : s'.s = s.s) (hv : s'.v = s.v)
    (hvm : s'.vm = s.vm) (hl : s'.lgkm = s.lgkm) (hn : s'.nextId = s.nextId) (hp : s'.isPaused = s.isPaused)
    (hq : s'.isSending = true) : Core s' := by
  refine ⟨?_, ?_, ?_, ?_, ?_⟩
  · rw [hf, hn, hp, hq]; exact hc.cf.startSending
  · rw [hs, hn, hp, hq]; exact hc.cs.startSending
  · rw [hv, hn, hp, hq]; exact hc.cv.startSending
  · rw [hvm, hv]; exact hc.vmEq
  · rw [hl, hv, hs]; exact hc.lgkmEq

/-- `processInputFromCP` (not while a flush request is still waiting for `doFlush`) -/
theorem procCP_Mid (c : Cfg) (hcap : 0 < c.capCP) {s : St} (h : Mid s) (hnf : s.isFlushing = false) :
    Mid (procCP c s) := by
  obtain ⟨hc, hp, ha⟩ := h
  unfold procCP
  rcases hin : s.cpIn with _ | ⟨m, rest⟩
  · exact ⟨hc, hp, ha⟩
  · obtain ⟨p1, p2, p3, p4, p5⟩ := hp
    cases m with
    | flush =>
      simp only
      have hcase : s.cp = .flushSent ∧ rest = [] ∧ s.cpOut = [] ∧ s.ackPending = false ∧
          (s.isPaused = true → s.isSending = true) := by
        rcases p5 with h5 | h5 | h5 | h5 | h5 | h5 | h5 | h5 <;> simp_all
      obtain ⟨c1, c2, c3, c4, c5⟩ := hcase
      subst c2
      refine ⟨⟨hc.cf, hc.cs, hc.cv, hc.vmEq, hc.lgkmEq⟩, ?_, ?_⟩
      · refine ⟨p1, p2, rfl, p4, ?_⟩
        exact Or.inr (Or.inr (Or.inl ⟨c1, rfl, c3, c4, rfl, c5⟩))
      · exact ha
    | restart =>
      have hcase : s.cp = .restartSent ∧ rest = [] ∧ s.cpOut = [] ∧ s.ackPending = false ∧
          s.isPaused = true ∧ s.isSending = false := by
        rcases p5 with h5 | h5 | h5 | h5 | h5 | h5 | h5 | h5 <;> simp_all
      obtain ⟨c1, c2, c3, c4, c5, c6⟩ := hcase
      subst c2
      have hroom : s.cpOut.length < c.capCP := by rw [c3]; exact hcap
      simp only [hroom, if_true]
      refine ⟨hc.startSending rfl rfl rfl rfl rfl rfl rfl rfl, ?_, ?_⟩
      · refine ⟨p1, p2, p3, fun _ => c5, ?_⟩
        refine Or.inr (Or.inr (Or.inr (Or.inr (Or.inr (Or.inr (Or.inr ⟨c1, rfl, ?_, c4, hnf, fun _ => rfl⟩))))))
        simp [c3]
      · obtain ⟨a1, a2, a3⟩ := ha
        refine ⟨a1, ?_, ?_⟩
        · simpa [List.count_append] using a2
        · simp [List.count_append]; omega

theorem processInput_Mid (c : Cfg) (hcap : 0 < c.capCP) {s : St} (h : Mid s) (hnf : s.isFlushing = false) :
    Mid (processInput c s) := by
  unfold processInput
  refine procCP_Mid c hcap (memIn_Mid h) ?_
  have := ctl_memIn s
  simp only [ctl, Prod.mk.injEq] at this
  rw [this.1]; exact hnf

/-! ## `doFlush` -/

theorem cnt_flush (c : Chan) (w : Nat) : cnt (c.flush.inf ++ c.flush.sh) w = cnt (c.inf ++ c.sh) w := by
  simp only [Chan.flush, List.nil_append, cnt_append]; omega

theorem cnt_reinsert (c : Chan) (w : Nat) :
    cnt (c.reinsert.inf ++ c.reinsert.sh) w = cnt (c.inf ++ c.sh) w := by
  simp [Chan.reinsert]

/-- `doFlush` re-establishes the invariant between events -/
theorem doFlush_Inv (c : Cfg) {s : St} (h : Mid s) : Inv (doFlush c s) := by
  obtain ⟨hc, hp, ha⟩ := h
  obtain ⟨p1, p2, p3, p4, p5⟩ := hp
  unfold doFlush
  by_cases hfl : s.isFlushing = true
  · -- a flush request is executed
    have hcase : s.cp = .flushSent ∧ s.cpIn = [] ∧ s.cpOut = [] ∧ s.ackPending = false ∧
        (s.isPaused = true → s.isSending = true) := by
      rcases p5 with h5 | h5 | h5 | h5 | h5 | h5 | h5 | h5 <;> simp_all
    obtain ⟨c1, c2, c3, c4, c5⟩ := hcase
    have hreq : s.flushReq = true := by rw [p3]; exact hfl
    simp only [hfl, if_true]
    by_cases hsd : s.isSending = true
    · -- while the shadow lists were being re-sent
      have hpa : s.isPaused = true := p4 hsd
      simp only [hsd, if_true, flushPipeline, reinsert, hreq, p1, Bool.not_true, Bool.false_eq_true, if_false, c4]
      have hf := hc.cf; have hs := hc.cs; have hv := hc.cv
      rw [hpa, hsd] at hf hs hv
      refine ⟨⟨⟨hf.reinsertFlush, hs.reinsertFlush, hv.reinsertFlush, ?_, ?_⟩, ?_, ?_⟩, rfl⟩
      · intro w; simpa [Chan.flush, Chan.reinsert] using hc.vmEq w
      · intro w; simpa [Chan.flush, Chan.reinsert] using hc.lgkmEq w
      · refine ⟨rfl, p2, rfl, by simp, ?_⟩
        exact Or.inr (Or.inr (Or.inr (Or.inl ⟨c1, c2, c3, rfl, rfl, rfl, rfl⟩)))
      · obtain ⟨a1, a2, a3⟩ := ha
        refine ⟨a1, ?_, a3⟩
        simp only [c4, Bool.false_eq_true, if_false] at a2
        simp; omega
    · -- of a running unit
      have hsd' : s.isSending = false := by simpa using hsd
      have hpa : s.isPaused = false := by
        cases hp : s.isPaused with
        | false => rfl
        | true => exact absurd (c5 hp) hsd
      simp only [hsd', Bool.false_eq_true, if_false, flushPipeline, hreq, p1, Bool.not_true, c4]
      have hf := hc.cf; have hs := hc.cs; have hv := hc.cv
      rw [hpa] at hf hs hv
      have shf : s.f.sh = [] := hf.runningSh rfl
      have shs : s.s.sh = [] := hs.runningSh rfl
      have shv : s.v.sh = [] := hv.runningSh rfl
      refine ⟨⟨⟨hf.flushRunning, hs.flushRunning, hv.flushRunning, ?_, ?_⟩, ?_, ?_⟩, rfl⟩
      · intro w; simpa [Chan.flush, shv] using hc.vmEq w
      · intro w; simpa [Chan.flush, shv, shs] using hc.lgkmEq w
      · refine ⟨rfl, p2, rfl, by simp, ?_⟩
        exact Or.inr (Or.inr (Or.inr (Or.inl ⟨c1, c2, c3, rfl, rfl, rfl, rfl⟩)))
      · obtain ⟨a1, a2, a3⟩ := ha
        refine ⟨a1, ?_, a3⟩
        simp only [c4, Bool.false_eq_true, if_false] at a2
        simp; omega
  · have hfl' : s.isFlushing = false := by simpa using hfl
    simp only [hfl', Bool.false_eq_true, if_false]
    by_cases hsd : s.isSending = true
    · have hpa : s.isPaused = true := p4 hsd
      simp only [hsd, if_true]
      have hf := hc.cf; have hs := hc.cs; have hv := hc.cv
      rw [hpa, hsd] at hf hs hv
      unfold checkShadow
      split
      · -- every shadow list is empty: resume
        rename_i hz
        have shf : s.f.sh = [] := List.eq_nil_of_length_eq_zero (by omega)
        have shs : s.s.sh = [] := List.eq_nil_of_length_eq_zero (by omega)
        have shv : s.v.sh = [] := List.eq_nil_of_length_eq_zero (by omega)
        refine ⟨⟨⟨hf.resume shf, hs.resume shs, hv.resume shv, hc.vmEq, hc.lgkmEq⟩, ?_, ?_⟩, hfl'⟩
        · refine ⟨p1, p2, p3, by simp, ?_⟩
          rcases p5 with h5 | h5 | h5 | h5 | h5 | h5 | h5 | h5 <;> simp_all
        · obtain ⟨a1, a2, a3⟩ := ha
          exact ⟨a1, a2, a3⟩
      · -- one request of every kind is re-sent
        refine ⟨⟨⟨?_, ?_, ?_, ?_, ?_⟩, ?_, ?_⟩, hfl'⟩
        · show ChanOK (s.f.drain c.capF) s.nextId s.isPaused s.isSending
          rw [hpa, hsd]; exact hf.drain _
        · show ChanOK (s.s.drain c.capS) s.nextId s.isPaused s.isSending
          rw [hpa, hsd]; exact hs.drain _
        · show ChanOK (s.v.drain c.capV) s.nextId s.isPaused s.isSending
          rw [hpa, hsd]; exact hv.drain _
        · intro w
          show s.vm w = (cnt ((s.v.drain c.capV).inf ++ (s.v.drain c.capV).sh) w : Int)
          rw [cnt_drain]; exact hc.vmEq w
        · intro w
          show s.lgkm w = (cnt ((s.v.drain c.capV).inf ++ (s.v.drain c.capV).sh) w : Int) +
            (cnt ((s.s.drain c.capS).inf ++ (s.s.drain c.capS).sh) w : Int)
          rw [cnt_drain, cnt_drain]; exact hc.lgkmEq w
        · exact ⟨p1, p2, p3, p4, p5⟩
        · exact ha
    · have hsd' : s.isSending = false := by simpa using hsd
      simp only [hsd', Bool.false_eq_true, if_false]
      exact ⟨⟨hc, ⟨p1, p2, p3, p4, p5⟩, ha⟩, hfl'⟩

theorem tick_Inv (c : Cfg) (hcap : 0 < c.capCP) {s : St} (h : Inv s) : Inv (tick c s) := by
  unfold tick
  refine doFlush_Inv c (processInput_Mid c hcap (sendToCP_Mid c h.1) ?_)
  unfold sendToCP; split <;> exact h.2

/-! ## the other events -/

/-- which events an environment may produce: the units run only while the compute unit is not
    paused (`runPipeline`), the memory side answers only requests it has received, the command
    processor follows its request / acknowledge protocol -/
def Legal (s : St) : Op → Prop
  | .issS _ _ => s.isPaused = false
  | .issV _ _ => s.isPaused = false
  | .fetch _ => s.isPaused = false
  | .usendS => s.isPaused = false
  | .usendV _ => s.isPaused = false
  | .deliver .f i g => (i, g) ∈ s.f.sent
  | .deliver .s i g => (i, g) ∈ s.s.sent
  | .deliver .v i g => (i, g) ∈ s.v.sent
  | .deliver .c _ _ => True
  | .cpFlush => s.cp = .idle
  | .cpRestart => s.cp = .acked
  | .take _ _ => True
  | .foreign _ _ => True
  | .tick => True

def LegalRun (c : Cfg) : St → List Op → Prop
  | _, [] => True
  | s, o :: os => Legal s o ∧ LegalRun c (step c s o) os

theorem upd_pos (g : Nat → Int) (w x : Nat) : upd g w 1 x = g x + (if w = x then 1 else 0) := by
  unfold upd; by_cases h : x = w
  · subst h; simp
  · have : ¬ w = x := fun h' => h h'.symm
    simp [h, this]

theorem issS_Inv (c : Cfg) {s : St} (h : Inv s) (w n : Nat) (hp : s.isPaused = false) : Inv (issS c s w n).1 := by
  unfold issS
  split
  · exact h
  · rename_i hcond
    have hn : 0 < n := by
      rcases Nat.eq_zero_or_pos n with h0 | h0
      · exact absurd (Or.inr h0) hcond
      · exact h0
    obtain ⟨⟨hc, hpm, ha⟩, hfl⟩ := h
    have hs := hc.cs
    rw [hp] at hs
    have hsh : s.s.sh = [] := hs.runningSh rfl
    refine ⟨⟨⟨?_, ?_, ?_, hc.vmEq, ?_⟩, hpm, ha⟩, hfl⟩
    · exact hc.cf.mono (Nat.le_add_right _ _)
    · show ChanOK (s.s.issueQ (mkEntries s.nextId w n)) (s.nextId + n) s.isPaused s.isSending
      rw [hp]; exact hs.issueQ w n
    · exact hc.cv.mono (Nat.le_add_right _ _)
    · intro w'
      have hcount : (cnt ((s.s.issueQ (mkEntries s.nextId w n)).inf ++ (s.s.issueQ (mkEntries s.nextId w n)).sh) w' : Int)
          = (cnt (s.s.inf ++ s.s.sh) w' : Int) + (if w = w' then 1 else 0) := by
        simp only [Chan.issueQ, hsh, List.append_nil]
        rw [cnt_append, cnt_mkEntries _ _ _ _ hn]
        split <;> simp
      show upd s.lgkm w 1 w' = (cnt (s.v.inf ++ s.v.sh) w' : Int) + _
      rw [hcount, upd_pos, hc.lgkmEq w']; omega

theorem issV_Inv (c : Cfg) {s : St} (h : Inv s) (w n : Nat) (hp : s.isPaused = false) : Inv (issV c s w n).1 := by
  unfold issV
  split
  · exact h
  · rename_i hcond
    have hn : 0 < n := by
      rcases Nat.eq_zero_or_pos n with h0 | h0
      · exact absurd (Or.inl h0) hcond
      · exact h0
    obtain ⟨⟨hc, hpm, ha⟩, hfl⟩ := h
    have hv := hc.cv
    rw [hp] at hv
    have hsh : s.v.sh = [] := hv.runningSh rfl
    have hcount : ∀ w', (cnt ((s.v.issueQ (mkEntries s.nextId w n)).inf ++ (s.v.issueQ (mkEntries s.nextId w n)).sh) w' : Int)
        = (cnt (s.v.inf ++ s.v.sh) w' : Int) + (if w = w' then 1 else 0) := by
      intro w'
      simp only [Chan.issueQ, hsh, List.append_nil]
      rw [cnt_append, cnt_mkEntries _ _ _ _ hn]
      split <;> simp
    refine ⟨⟨⟨?_, ?_, ?_, ?_, ?_⟩, hpm, ha⟩, hfl⟩
    · exact hc.cf.mono (Nat.le_add_right _ _)
    · exact hc.cs.mono (Nat.le_add_right _ _)
    · show ChanOK (s.v.issueQ (mkEntries s.nextId w n)) (s.nextId + n) s.isPaused s.isSending
      rw [hp]; exact hv.issueQ w n
    · intro w'
      show upd s.vm w 1 w' = _
      rw [hcount, upd_pos, hc.vmEq w']
    · intro w'
      show upd s.lgkm w 1 w' = _ + (cnt (s.s.inf ++ s.s.sh) w' : Int)
      rw [hcount, upd_pos, hc.lgkmEq w']; omega

theorem fetch_Inv (c : Cfg) {s : St} (h : Inv s) (w : Nat) (hp : s.isPaused = false) : Inv (fetch c s w).1 := by
  unfold fetch
  split
  · obtain ⟨⟨hc, hpm, ha⟩, hfl⟩ := h
    have hf := hc.cf
    rw [hp] at hf
    refine ⟨⟨⟨?_, ?_, ?_, hc.vmEq, hc.lgkmEq⟩, hpm, ha⟩, hfl⟩
    · show ChanOK (s.f.issueSent _) (s.nextId + 1) s.isPaused s.isSending
      rw [hp]; exact hf.issueSent w true
    · exact hc.cs.mono (Nat.le_add_right _ _)
    · exact hc.cv.mono (Nat.le_add_right _ _)
  · exact h

theorem takeCP_PM {s : St} (n : Nat) (hp : PM s) :
    PM { s with cpOut := s.cpOut.drop n, cp := cpRecvAll s.cp (s.cpOut.take n) } := by
  obtain ⟨p1, p2, p3, p4, p5⟩ := hp
  refine ⟨p1, p2, p3, p4, ?_⟩
  simp only
  cases n with
  | zero =>
    simp only [List.drop_zero, List.take_zero, cpRecvAll, List.foldl_nil]
    exact p5
  | succ n =>
    rcases p5 with h5 | h5 | h5 | h5 | h5 | h5 | h5 | h5 <;> simp_all [cpRecvAll, cpRecv]

theorem deliver_inf (c : Chan) (cap : Nat) (r : Req) : (c.deliver cap r).1.inf = c.inf := by
  unfold Chan.deliver; split <;> rfl

theorem deliver_sh (c : Chan) (cap : Nat) (r : Req) : (c.deliver cap r).1.sh = c.sh := by
  unfold Chan.deliver; split <;> rfl

theorem step_Inv (c : Cfg) (hcap : 0 < c.capCP) {s : St} (h : Inv s) (o : Op) (hl : Legal s o) :
    Inv (step c s o) := by
  have hnf : s.fault = false := h.1.2.1.2.1
  unfold step
  rw [if_neg (by rw [hnf]; decide)]
  obtain ⟨⟨hc, hpm, ha⟩, hfl⟩ := h
  cases o with
  | issS w n => exact issS_Inv c ⟨⟨hc, hpm, ha⟩, hfl⟩ w n hl
  | issV w n => exact issV_Inv c ⟨⟨hc, hpm, ha⟩, hfl⟩ w n hl
  | fetch w => exact fetch_Inv c ⟨⟨hc, hpm, ha⟩, hfl⟩ w hl
  | usendS => exact ⟨⟨⟨hc.cf, hc.cs.usend _ _, hc.cv, hc.vmEq, hc.lgkmEq⟩, hpm, ha⟩, hfl⟩
  | usendV n => exact ⟨⟨⟨hc.cf, hc.cs, hc.cv.usend _ _, hc.vmEq, hc.lgkmEq⟩, hpm, ha⟩, hfl⟩
  | deliver k i g =>
    cases k with
    | f =>
      refine ⟨⟨⟨hc.cf.deliver _ _ hl, hc.cs, hc.cv, hc.vmEq, hc.lgkmEq⟩, hpm, ha⟩, hfl⟩
    | s =>
      refine ⟨⟨⟨hc.cf, hc.cs.deliver _ _ hl, hc.cv, hc.vmEq, ?_⟩, hpm, ha⟩, hfl⟩
      intro w
      show s.lgkm w = (cnt (s.v.inf ++ s.v.sh) w : Int) +
        (cnt ((s.s.deliver c.capS (i, g)).1.inf ++ (s.s.deliver c.capS (i, g)).1.sh) w : Int)
      rw [deliver_inf, deliver_sh]; exact hc.lgkmEq w
    | v =>
      refine ⟨⟨⟨hc.cf, hc.cs, hc.cv.deliver _ _ hl, ?_, ?_⟩, hpm, ha⟩, hfl⟩
      · intro w
        show s.vm w = (cnt ((s.v.deliver c.capV (i, g)).1.inf ++ (s.v.deliver c.capV (i, g)).1.sh) w : Int)
        rw [deliver_inf, deliver_sh]; exact hc.vmEq w
      · intro w
        show s.lgkm w = (cnt ((s.v.deliver c.capV (i, g)).1.inf ++ (s.v.deliver c.capV (i, g)).1.sh) w : Int) +
          (cnt (s.s.inf ++ s.s.sh) w : Int)
        rw [deliver_inf, deliver_sh]; exact hc.lgkmEq w
    | c => exact ⟨⟨hc, hpm, ha⟩, hfl⟩
  | cpFlush =>
    obtain ⟨p1, p2, p3, p4, p5⟩ := hpm
    have hcase : s.cpIn = [] ∧ s.cpOut = [] ∧ s.ackPending = false ∧ (s.isPaused = true → s.isSending = true) := by
      have hl' : s.cp = .idle := hl
      rcases p5 with h5 | h5 | h5 | h5 | h5 | h5 | h5 | h5 <;> simp_all
    obtain ⟨c1, c2, c3, c4⟩ := hcase
    have hroom : s.cpIn.length < c.capCP := by rw [c1]; exact hcap
    have hl' : s.cp = .idle := hl
    simp only [hroom, if_true, hl']
    refine ⟨⟨⟨hc.cf, hc.cs, hc.cv, hc.vmEq, hc.lgkmEq⟩, ⟨p1, p2, p3, p4, ?_⟩, ha⟩, hfl⟩
    exact Or.inr (Or.inl ⟨rfl, by simp [c1], c2, c3, hfl, c4⟩)
  | cpRestart =>
    obtain ⟨p1, p2, p3, p4, p5⟩ := hpm
    have hl' : s.cp = .acked := hl
    have hcase : s.cpIn = [] ∧ s.cpOut = [] ∧ s.ackPending = false ∧ s.isPaused = true ∧ s.isSending = false := by
      rcases p5 with h5 | h5 | h5 | h5 | h5 | h5 | h5 | h5 <;> simp_all
    obtain ⟨c1, c2, c3, c4, c5⟩ := hcase
    have hroom : s.cpIn.length < c.capCP := by rw [c1]; exact hcap
    simp only [hroom, if_true, hl']
    refine ⟨⟨⟨hc.cf, hc.cs, hc.cv, hc.vmEq, hc.lgkmEq⟩, ⟨p1, p2, p3, p4, ?_⟩, ha⟩, hfl⟩
    exact Or.inr (Or.inr (Or.inr (Or.inr (Or.inr (Or.inr (Or.inl ⟨rfl, by simp [c1], c2, c3, hfl, c4, c5⟩))))))
  | take k n =>
    cases k with
    | f => exact ⟨⟨⟨hc.cf.take n, hc.cs, hc.cv, hc.vmEq, hc.lgkmEq⟩, hpm, ha⟩, hfl⟩
    | s => exact ⟨⟨⟨hc.cf, hc.cs.take n, hc.cv, hc.vmEq, hc.lgkmEq⟩, hpm, ha⟩, hfl⟩
    | v => exact ⟨⟨⟨hc.cf, hc.cs, hc.cv.take n, hc.vmEq, hc.lgkmEq⟩, hpm, ha⟩, hfl⟩
    | c => exact ⟨⟨⟨hc.cf, hc.cs, hc.cv, hc.vmEq, hc.lgkmEq⟩, takeCP_PM n hpm, ha⟩, hfl⟩
  | foreign k n =>
    cases k with
    | f => exact ⟨⟨⟨hc.cf.foreign _ n, hc.cs, hc.cv, hc.vmEq, hc.lgkmEq⟩, hpm, ha⟩, hfl⟩
    | s => exact ⟨⟨⟨hc.cf, hc.cs.foreign _ n, hc.cv, hc.vmEq, hc.lgkmEq⟩, hpm, ha⟩, hfl⟩
    | v => exact ⟨⟨⟨hc.cf, hc.cs, hc.cv.foreign _ n, hc.vmEq, hc.lgkmEq⟩, hpm, ha⟩, hfl⟩
    | c => exact ⟨⟨hc, hpm, ha⟩, hfl⟩
  | tick => exact tick_Inv c hcap ⟨⟨hc, hpm, ha⟩, hfl⟩

theorem run_Inv (c : Cfg) (hcap : 0 < c.capCP) (ops : List Op) {s : St} (h : Inv s) (hl : LegalRun c s ops) :
    Inv (run c s ops) := by
  induction ops generalizing s with
  | nil => exact h
  | cons o os ih => exact ih (step_Inv c hcap h o hl.1) hl.2

end C14.Flush
