import MgpuProofs.C02WfLemmas
/-! Preservation lemmas for the components of the C02 wavefront simulation invariant. -/
namespace C02.Wf

/-! ## registers -/

theorem InvR.mem_change {regs : RF} {mem mem' : Mem} {pd : List Pend} {er : RF}
    (h : InvR regs mem pd er) (hwf : ∀ p ∈ pd, p.inst.WF)
    (hag : ∀ p ∈ pd, p.inst.isLoad = true → p.served = none → ∀ a, p.inst.fp p.r0 a = true → mem a = mem' a) :
    InvR regs mem' pd er := by
  refine ⟨h.r1, ?_⟩
  intro p hp hl x hx
  rw [h.r2 p hp hl x hx]
  cases hs : p.served with
  | some m0 => rfl
  | none =>
    simp only [Option.getD_none]
    exact (hwf p hp).ld_depM p.r0 mem mem' (hag p hp hl hs) x hx

theorem InvR.remap {regs : RF} {mem : Mem} {pd pd' : List Pend} {er : RF} (h : InvR regs mem pd er)
    (hsub : ∀ q ∈ pd', ∃ p ∈ pd, q.inst = p.inst ∧ q.r0 = p.r0 ∧ q.served.getD mem = p.served.getD mem)
    (hsup : ∀ p ∈ pd, ∃ q ∈ pd', q.inst = p.inst ∧ q.r0 = p.r0) : InvR regs mem pd' er := by
  constructor
  · intro x hx
    apply h.r1
    intro p hp hl
    obtain ⟨q, hq, e1, e2⟩ := hsup p hp
    have := hx q hq (by rw [e1]; exact hl)
    rwa [e1, e2] at this
  · intro q hq hl x hx
    obtain ⟨p, hp, e1, e2, e3⟩ := hsub q hq
    rw [e1, e2, e3]
    rw [e1] at hl
    rw [e1, e2] at hx
    exact h.r2 p hp hl x hx

theorem InvR.ret {regs : RF} {mem : Mem} {pd pd' : List Pend} {er : RF} {p : Pend} {m0 : Mem}
    (h : InvR regs mem pd er) (hp : p ∈ pd) (hs : p.served = some m0)
    (hsub : ∀ q ∈ pd', q ∈ pd) (hsup : ∀ q ∈ pd, q = p ∨ q ∈ pd') :
    InvR (retRegs p m0 regs) mem pd' er := by
  constructor
  · intro x hx
    by_cases hc : p.inst.isLoad = true ∧ x ∈ p.inst.wrD p.r0
    · have := h.r2 p hp hc.1 x hc.2
      rw [hs] at this
      simp only [Option.getD_some] at this
      rw [this]
      simp [retRegs, hc.1, ovr, hc.2]
    · have e : retRegs p m0 regs x = regs x := by
        unfold retRegs
        by_cases hl : p.inst.isLoad = true
        · have : x ∉ p.inst.wrD p.r0 := fun hx' => hc ⟨hl, hx'⟩
          simp [hl, ovr, this]
        · simp [hl]
      rw [e]
      apply h.r1
      intro q hq hl
      rcases hsup q hq with rfl | hq'
      · exact fun hx' => hc ⟨hl, hx'⟩
      · exact hx q hq' hl
  · intro q hq hl x hx
    exact h.r2 q (hsub q hq) hl x hx

theorem InvR.alu {regs : RF} {mem : Mem} {pd : List Pend} {er : RF} {i : Inst} (pc pc' : Nat)
    (h : InvR regs mem pd er) (hwf : i.WF) (hpc : ∀ r, i.f pc' r = i.f pc r)
    (hdis : ∀ p ∈ pd, p.inst.isLoad = true → ∀ x ∈ i.rd ++ i.wr, x ∉ p.inst.wrD p.r0) :
    InvR (i.f pc regs) mem pd (i.f pc' er) := by
  have hag : ∀ x ∈ i.rd ++ i.wr, er x = regs x := by
    intro x hx
    apply h.r1
    intro p hp hl
    exact hdis p hp hl x hx
  constructor
  · intro x hx
    rw [hpc er]
    by_cases hw : x ∈ i.wr
    · exact hwf.f_dep pc er regs hag x hw
    · rw [hwf.f_frame pc er x hw, hwf.f_frame pc regs x hw]
      exact h.r1 x hx
  · intro p hp hl x hx
    have hw : x ∉ i.wr := by
      intro hw
      exact hdis p hp hl x (List.mem_append_right _ hw) hx
    rw [hwf.f_frame pc' er x hw]
    exact h.r2 p hp hl x hx

theorem InvR.load {regs : RF} {mem emem : Mem} {pd pd' : List Pend} {er : RF} {i : Inst}
    (h : InvR regs mem pd er) (hwf : i.WF) (hload : i.isLoad = true)
    (hdis : ∀ p ∈ pd, p.inst.isLoad = true → ∀ x ∈ i.rd ++ i.wr, x ∉ p.inst.wrD p.r0)
    (hmemeq : ∀ a, i.fp regs a = true → emem a = mem a)
    (hmem : ∀ q, q ∈ pd' ↔ q ∈ pd ∨ q = ⟨i, regs, none⟩) : InvR regs mem pd' (i.ld er emem) := by
  have hag : ∀ x ∈ i.rd, er x = regs x := by
    intro x hx
    apply h.r1
    intro p hp hl
    exact hdis p hp hl x (List.mem_append_left _ hx)
  have hst := hwf.dep_static er regs hag
  constructor
  · intro x hx
    have hn : x ∉ i.wrD er := by
      rw [hst.1]
      exact hx ⟨i, regs, none⟩ ((hmem _).mpr (Or.inr rfl)) hload
    rw [hwf.ld_frame er emem x hn]
    apply h.r1
    intro p hp hl
    exact hx p ((hmem _).mpr (Or.inl hp)) hl
  · intro q hq hl x hx
    rcases (hmem q).mp hq with hq' | rfl
    · have hn : x ∉ i.wrD er := by
        intro hx'
        exact hdis q hq' hl x (List.mem_append_right _ (hwf.wrD_sub er x hx')) hx
      rw [hwf.ld_frame er emem x hn]
      exact h.r2 q hq' hl x hx
    · simp only [Option.getD_none]
      have hx' : x ∈ i.wrD er := by rw [hst.1]; exact hx
      rw [hwf.ld_depR er regs emem hag x hx']
      exact hwf.ld_depM regs emem mem hmemeq x hx

theorem InvR.add_nonload {regs : RF} {mem : Mem} {pd pd' : List Pend} {er : RF} {pn : Pend}
    (h : InvR regs mem pd er) (hnl : pn.inst.isLoad = false)
    (hmem : ∀ q, q ∈ pd' ↔ q ∈ pd ∨ q = pn) : InvR regs mem pd' er := by
  constructor
  · intro x hx
    apply h.r1
    intro p hp hl
    exact hx p ((hmem _).mpr (Or.inl hp)) hl
  · intro q hq hl x hx
    rcases (hmem q).mp hq with hq' | rfl
    · exact h.r2 q hq' hl x hx
    · simp [hnl] at hl

/-! ## memory -/

theorem InvM.env {own : Nat → Bool} {mem : Mem} {vq : List Pend} {emem : Mem} (a v : Nat)
    (h : InvM own mem vq emem) (hwf : ∀ p ∈ vq, p.inst.WF) (ha : own a = false) :
    InvM own (setMem mem a v) vq emem := by
  constructor
  · intro b hb hall
    rw [h.m1 b hb hall]
    have : b ≠ a := by intro e; rw [e, ha] at hb; cases hb
    simp [setMem, this]
  · intro p hp hst hs b hb
    rw [h.m2 p hp hst hs b hb]
    exact (hwf p hp).st_dep hst p.r0 p.r0 mem (setMem mem a v) b (fun _ _ => rfl) hb

theorem InvM.remap {own : Nat → Bool} {mem : Mem} {vq vq' : List Pend} {emem : Mem} (h : InvM own mem vq emem)
    (hsub : ∀ q ∈ vq', q.inst.isStore = true → q.served = none →
      ∃ p ∈ vq, p.inst = q.inst ∧ p.r0 = q.r0 ∧ p.served = none)
    (hsup : ∀ p ∈ vq, p.inst.isStore = true → p.served = none →
      ∃ q ∈ vq', q.inst = p.inst ∧ q.r0 = p.r0 ∧ q.served = none) : InvM own mem vq' emem := by
  constructor
  · intro a ha hall
    apply h.m1 a ha
    intro p hp hst hs
    obtain ⟨q, hq, e1, e2, e3⟩ := hsup p hp hst hs
    have := hall q hq (by rw [e1]; exact hst) e3
    rwa [e1, e2] at this
  · intro q hq hst hs a ha
    obtain ⟨p, hp, e1, e2, e3⟩ := hsub q hq hst hs
    rw [← e1, ← e2]
    rw [← e1] at hst
    rw [← e1, ← e2] at ha
    exact h.m2 p hp hst e3 a ha

/-- the memory system performs the store `p` -/
theorem InvM.serve_store {own : Nat → Bool} {mem : Mem} {vq vq' : List Pend} {emem : Mem} {p : Pend}
    (h : InvM own mem vq emem) (hwf : ∀ q ∈ vq, q.inst.WF) (hp : p ∈ vq) (hst : p.inst.isStore = true)
    (hs : p.served = none)
    (hsub : ∀ q ∈ vq', q.served = none → q ∈ vq)
    (hsup : ∀ q ∈ vq, q = p ∨ q ∈ vq') : InvM own (p.inst.stf p.r0 mem) vq' emem := by
  constructor
  · intro a ha hall
    by_cases hf : p.inst.fp p.r0 a = true
    · exact h.m2 p hp hst hs a hf
    · have hf' : p.inst.fp p.r0 a = false := by simpa using hf
      rw [(hwf p hp).st_frame hst p.r0 mem a hf']
      apply h.m1 a ha
      intro q hq hqst hqs
      rcases hsup q hq with rfl | hq'
      · exact hf'
      · exact hall q hq' hqst hqs
  · intro q hq hqst hqs a ha
    have hq' := hsub q hq hqs
    rw [h.m2 q hq' hqst hqs a ha]
    exact (hwf q hq').st_dep hqst q.r0 q.r0 mem _ a (fun _ _ => rfl) ha

/-- the emulator executes a store that the timing side only enqueues -/
theorem InvM.store {own : Nat → Bool} {mem : Mem} {vq vq' : List Pend} {emem : Mem} {i : Inst} {regs er : RF}
    (h : InvM own mem vq emem) (hwf : i.WF) (hst : i.isStore = true)
    (hag : ∀ x ∈ i.rd, er x = regs x)
    (hdis : ∀ q ∈ vq, q.inst.isStore = true → ∀ a, ¬ (q.inst.fp q.r0 a = true ∧ i.fp regs a = true))
    (hmem : ∀ q, q ∈ vq' ↔ q ∈ vq ∨ q = ⟨i, regs, none⟩) : InvM own mem vq' (i.stf er emem) := by
  have hfp : ∀ a, i.fp er a = i.fp regs a := by
    intro a
    unfold Inst.fp
    rw [(hwf.dep_static er regs hag).2.1]
  constructor
  · intro a ha hall
    have hf : i.fp regs a = false := hall ⟨i, regs, none⟩ ((hmem _).mpr (Or.inr rfl)) hst rfl
    rw [hwf.st_frame hst er emem a (by rw [hfp]; exact hf)]
    apply h.m1 a ha
    intro q hq hqst hqs
    exact hall q ((hmem _).mpr (Or.inl hq)) hqst hqs
  · intro q hq hqst hqs a ha
    rcases (hmem q).mp hq with hq' | rfl
    · have hf : i.fp regs a = false := by
        cases hfa : i.fp regs a with
        | false => rfl
        | true => exact absurd ⟨ha, hfa⟩ (hdis q hq' hqst a)
      rw [hwf.st_frame hst er emem a (by rw [hfp]; exact hf)]
      exact h.m2 q hq' hqst hqs a ha
    · exact hwf.st_dep hst er regs emem mem a hag (by rw [hfp]; exact ha)

/-! ## counters and the hazard state -/

theorem key_mem_H {vm lgkm : Nat} {vq sq : List Pend} {H : HState} (hc : InvC vm lgkm vq sq H) (p : Pend)
    (hp : p ∈ vq ++ sq) : p.key ∈ H.pv ++ H.ps := by
  rcases List.mem_append.mp hp with h | h
  · exact List.mem_append_left _ (hc.vsuf.subset (List.mem_map_of_mem h))
  · exact List.mem_append_right _ (hc.smem p h)

theorem regOK_pend {vm lgkm : Nat} {vq sq : List Pend} {H : HState} {i : Inst}
    (hc : InvC vm lgkm vq sq H) (hwf : ∀ p ∈ vq ++ sq, p.inst.WF) (hr : regOK H i = true) :
    ∀ p ∈ vq ++ sq, p.inst.isLoad = true → ∀ x ∈ i.rd ++ i.wr, x ∉ p.inst.wrD p.r0 := by
  intro p hp hl x hx hx'
  have hk := key_mem_H hc p hp
  simp only [regOK, List.all_eq_true, Bool.or_eq_true, Bool.not_eq_true'] at hr
  rcases hr p.key hk with h | h
  · simp [Pend.key, hl] at h
  · exact disj_spec _ _ h x hx ((hwf p hp).wrD_sub p.r0 x hx')

theorem memOK_pend {vm lgkm : Nat} {vq sq : List Pend} {H : HState} {i : Inst} {fp : Ranges}
    (hc : InvC vm lgkm vq sq H) (hm : memOK false H i fp = true) :
    ∀ p ∈ vq ++ sq, (p.inst.isStore = true ∨ i.isStore = true) →
      ∀ a, ¬ (p.inst.fp p.r0 a = true ∧ inRanges fp a = true) := by
  intro p hp hor a
  have hk := key_mem_H hc p hp
  simp only [memOK, List.all_eq_true, Bool.or_eq_true, Bool.not_eq_true', Bool.false_eq_true, if_false] at hm
  rcases hm p.key hk with h | h
  · rcases hor with h' | h' <;> simp [Pend.key, h'] at h
  · exact rangesDisjoint_spec _ _ h a

theorem isLoad_isStore_excl (i : Inst) (h1 : i.isLoad = true) (h2 : i.isStore = true) : False := by
  unfold Inst.isLoad at h1
  unfold Inst.isStore at h2
  cases hk : i.kind <;> simp [hk] at h1 h2

theorem suffix_drop_of_length_le {α : Type} (s l : List α) (n : Nat) (h : s <:+ l) (hn : s.length ≤ n) :
    s <:+ l.drop (l.length - n) := by
  obtain ⟨t, rfl⟩ := h
  have hk : (t ++ s).length - n ≤ t.length := by simp; omega
  rw [List.drop_append_of_le_length hk]
  exact List.suffix_append _ _

theorem InvC.wait {vm lgkm : Nat} {vq sq : List Pend} {H : HState} (n m : Nat)
    (hc : InvC vm lgkm vq sq H) (hv : vm ≤ n) (hl : lgkm ≤ m) : InvC vm lgkm vq sq (afterWait H n m) := by
  unfold afterWait
  by_cases hm : m = 0
  · have h0 : vq.length + sq.length = 0 := by have := hc.clgkm; omega
    have hv0 : vq = [] := List.eq_nil_of_length_eq_zero (by omega)
    have hs0 : sq = [] := List.eq_nil_of_length_eq_zero (by omega)
    subst hv0 hs0
    simp only [hm, if_true]
    exact ⟨hc.cvm, hc.clgkm, by simp, by simp, by simp⟩
  · simp only [hm, if_false]
    refine ⟨hc.cvm, hc.clgkm, ?_, hc.smem, hc.pls⟩
    apply suffix_drop_of_length_le _ _ _ hc.vsuf
    simp only [List.length_map]
    have := hc.cvm
    omega

theorem InvC.clear {vm lgkm : Nat} {vq sq : List Pend} {H : HState}
    (hc : InvC vm lgkm vq sq H) (hv : vm = 0) : InvC vm lgkm vq sq { H with pv := [] } := by
  have hv0 : vq = [] := List.eq_nil_of_length_eq_zero (by have := hc.cvm; omega)
  subst hv0
  exact ⟨hc.cvm, hc.clgkm, by simp, hc.smem, hc.pls⟩

theorem InvC.done {vm lgkm : Nat} {vq sq : List Pend} {H : HState}
    (hc : InvC vm lgkm vq sq H) (_hv : vm = 0) (hl : lgkm = 0) : vq = [] ∧ sq = [] ∧ InvC vm lgkm vq sq {} := by
  have h0 : vq.length + sq.length = 0 := by have := hc.clgkm; omega
  have hv0 : vq = [] := List.eq_nil_of_length_eq_zero (by omega)
  have hs0 : sq = [] := List.eq_nil_of_length_eq_zero (by omega)
  subst hv0 hs0
  exact ⟨rfl, rfl, hc.cvm, hc.clgkm, by simp, by simp, by simp⟩

/-- a served/returned/erased entry: every entry of the new lists is an entry of the old ones with the
    same instruction and captured registers -/
theorem InvC.shrink {vm lgkm vm' lgkm' : Nat} {vq sq vq' sq' : List Pend} {H : HState}
    (hc : InvC vm lgkm vq sq H)
    (hvm : vm' = vq'.length) (hlg : lgkm' = vq'.length + sq'.length)
    (hv : vq'.map Pend.key <:+ vq.map Pend.key)
    (hs : ∀ q ∈ sq', ∃ p ∈ sq, q.key = p.key)
    (hall : ∀ q ∈ vq' ++ sq', ∃ p ∈ vq ++ sq, q.inst = p.inst ∧ q.r0 = p.r0) :
    InvC vm' lgkm' vq' sq' H := by
  refine ⟨hvm, hlg, hv.trans hc.vsuf, ?_, ?_⟩
  · intro q hq
    obtain ⟨p, hp, e⟩ := hs q hq
    rw [e]
    exact hc.smem p hp
  · intro p hp q hq hl hst a
    obtain ⟨p0, hp0, e1, e2⟩ := hall p hp
    obtain ⟨q0, hq0, f1, f2⟩ := hall q hq
    rw [e1, e2, f1, f2]
    rw [e1] at hl
    rw [f1] at hst
    exact hc.pls p0 hp0 q0 hq0 hl hst a

theorem mem_push {α : Type} (vq sq : List α) (pn q : α) :
    q ∈ (vq ++ [pn]) ++ sq ↔ q ∈ vq ++ sq ∨ q = pn := by
  simp only [List.mem_append, List.mem_singleton]
  constructor
  · rintro ((h | h) | h)
    · exact Or.inl (Or.inl h)
    · exact Or.inr h
    · exact Or.inl (Or.inr h)
  · rintro ((h | h) | h)
    · exact Or.inl (Or.inl h)
    · exact Or.inr h
    · exact Or.inl (Or.inr h)

theorem mem_push_s {α : Type} (vq sq : List α) (pn q : α) :
    q ∈ vq ++ (sq ++ [pn]) ↔ q ∈ vq ++ sq ∨ q = pn := by
  simp only [List.mem_append, List.mem_singleton]
  constructor
  · rintro (h | (h | h))
    · exact Or.inl (Or.inl h)
    · exact Or.inl (Or.inr h)
    · exact Or.inr h
  · rintro ((h | h) | h)
    · exact Or.inl h
    · exact Or.inr (Or.inl h)
    · exact Or.inr (Or.inr h)

theorem pls_push {pd pd' : List Pend} {pn : Pend}
    (hpls : ∀ p ∈ pd, ∀ q ∈ pd, p.inst.isLoad = true → q.inst.isStore = true →
      ∀ a, ¬ (p.inst.fp p.r0 a = true ∧ q.inst.fp q.r0 a = true))
    (hnew : ∀ p ∈ pd, (p.inst.isStore = true ∨ pn.inst.isStore = true) →
      ∀ a, ¬ (p.inst.fp p.r0 a = true ∧ pn.inst.fp pn.r0 a = true))
    (hmem : ∀ q, q ∈ pd' ↔ q ∈ pd ∨ q = pn) :
    ∀ p ∈ pd', ∀ q ∈ pd', p.inst.isLoad = true → q.inst.isStore = true →
      ∀ a, ¬ (p.inst.fp p.r0 a = true ∧ q.inst.fp q.r0 a = true) := by
  intro p hp q hq hl hst a
  rcases (hmem p).mp hp with hp' | rfl
  · rcases (hmem q).mp hq with hq' | rfl
    · exact hpls p hp' q hq' hl hst a
    · exact hnew p hp' (Or.inr hst) a
  · rcases (hmem q).mp hq with hq' | rfl
    · intro ⟨h1, h2⟩
      exact hnew q hq' (Or.inl hst) a ⟨h2, h1⟩
    · exact (isLoad_isStore_excl _ hl hst).elim

theorem InvC.push_v {vm lgkm : Nat} {vq sq : List Pend} {H : HState} (hc : InvC vm lgkm vq sq H) (pn : Pend)
    (hnew : ∀ p ∈ vq ++ sq, (p.inst.isStore = true ∨ pn.inst.isStore = true) →
      ∀ a, ¬ (p.inst.fp p.r0 a = true ∧ pn.inst.fp pn.r0 a = true)) :
    InvC (vm + 1) (lgkm + 1) (vq ++ [pn]) sq { H with pv := H.pv ++ [pn.key] } := by
  refine ⟨?_, ?_, ?_, hc.smem, pls_push hc.pls hnew (mem_push vq sq pn)⟩
  · have := hc.cvm; simp; omega
  · have := hc.clgkm; simp; omega
  · obtain ⟨t, ht⟩ := hc.vsuf
    refine ⟨t, ?_⟩
    show t ++ List.map Pend.key (vq ++ [pn]) = H.pv ++ [pn.key]
    rw [← ht]
    simp

theorem InvC.push_s {vm lgkm : Nat} {vq sq : List Pend} {H : HState} (hc : InvC vm lgkm vq sq H) (pn : Pend)
    (hnew : ∀ p ∈ vq ++ sq, (p.inst.isStore = true ∨ pn.inst.isStore = true) →
      ∀ a, ¬ (p.inst.fp p.r0 a = true ∧ pn.inst.fp pn.r0 a = true)) :
    InvC vm (lgkm + 1) vq (sq ++ [pn]) { H with ps := H.ps ++ [pn.key] } := by
  refine ⟨hc.cvm, ?_, hc.vsuf, ?_, pls_push hc.pls hnew (mem_push_s vq sq pn)⟩
  · have := hc.clgkm; simp; omega
  · intro p hp
    rcases List.mem_append.mp hp with h | h
    · exact List.mem_append_left _ (hc.smem p h)
    · simp only [List.mem_singleton] at h
      subst h
      exact List.mem_append_right _ (List.mem_singleton.mpr rfl)

/-! ## instruction fetch -/

theorem removeStaleLoop_ibok (P : Prog) (pc : Nat) : ∀ (n st : Nat) (ib : List Nat) (st' : Nat) (ib' : List Nat),
    (∀ k (h : k < ib.length), ib[k] = P.imem (st + k)) → removeStaleLoop pc n st ib = some (st', ib') →
    ∀ k (h : k < ib'.length), ib'[k] = P.imem (st' + k) := by
  intro n
  induction n with
  | zero => intro st ib st' ib' _ h; simp [removeStaleLoop] at h
  | succ n ih =>
    intro st ib st' ib' hib h
    simp only [removeStaleLoop] at h
    by_cases hpc : pc ≥ st + 64
    · simp only [hpc, if_true] at h
      by_cases hlen : ib.length < 64
      · simp [hlen] at h
      · simp only [hlen, if_false] at h
        apply ih (st + 64) (ib.drop 64) st' ib' _ h
        intro k hk
        rw [List.getElem_drop]
        rw [hib (64 + k) (by simp at hk; omega)]
        congr 1
        omega
    · simp only [hpc, if_false, Option.some.injEq, Prod.mk.injEq] at h
      obtain ⟨rfl, rfl⟩ := h
      exact hib

theorem removeStale_ibok (P : Prog) (pc st : Nat) (ib : List Nat) (st' : Nat) (ib' : List Nat)
    (hib : ∀ k (h : k < ib.length), ib[k] = P.imem (st + k)) (h : removeStale pc st ib = some (st', ib')) :
    ∀ k (h : k < ib'.length), ib'[k] = P.imem (st' + k) := by
  unfold removeStale at h
  by_cases he : ib = []
  · simp only [he, if_true, Option.some.injEq, Prod.mk.injEq] at h
    obtain ⟨rfl, rfl⟩ := h
    intro k hk
    simp at hk
  · simp only [he, if_false] at h
    exact removeStaleLoop_ibok P pc _ st ib st' ib' hib h

theorem decode_instAt (P : Prog) (hP : P.WF) (ibStart pc : Nat) (ib : List Nat) (i : Inst)
    (hib : ∀ k (h : k < ib.length), ib[k] = P.imem (ibStart + k)) (hle : ibStart ≤ pc)
    (hd : P.dec (ib.drop (pc - ibStart)) = some i) : P.instAt pc = some i := by
  obtain ⟨hsz, hpf⟩ := hP.pfx _ _ hd
  have h8 := (hP.inst _ _ hd).1.size_le
  unfold Prog.instAt
  apply hpf
  apply List.ext_getElem
  · simp only [List.length_take, Prog.window, List.length_map, List.length_range]
    omega
  · intro j h1 h2
    simp only [List.length_take, Prog.window, List.length_map, List.length_range] at h1
    simp only [List.getElem_take, Prog.window, List.getElem_map, List.getElem_range, List.getElem_drop]
    rw [hib]
    congr 1
    omega

end C02.Wf
