import MgpuProofs.C07DispAll
import MgpuProofs.C07Smem
import MgpuModel.C04
set_option linter.unusedVariables false
set_option linter.unusedSimpArgs false
/-! # C07 helper lemmas and concrete states for the witnesses of Props/C07Disp.lean -/
namespace C07
open Gen

/-- the dispatch of the witness below: dispatch pointer + kernarg pointer (`s[0:3]`), lane ids in `v0` -/
def dW : DispInfo :=
  { flags := 0xa, rsrc2 := 0, v5 := false, packetAddr := 0x1111222233334444, kernargAddr := 0x5555666677778888,
    gx := 64, gy := 1, gz := 1, wx := 64, wy := 1, wz := 1, idx := 0, idy := 0, idz := 0, sx := 64, sy := 1,
    first := 0, exec := 0xffffffffffffffff }


theorem absG_setWfInfo_other (t : TimingRF) (wi wj simd soff voff : Nat) (d : DispInfo) (hne : wj ≠ wi) :
    absG (t.setWfInfo wi simd soff voff d) wj = absG t wj := by
  have hsz : (t.setWfInfo wi simd soff voff d).wfs.size = t.wfs.size := by simp [TimingRF.setWfInfo, TimingRF.setWf]
  unfold absG
  rw [hsz]
  split
  · unfold TimingRF.setWfInfo
    rw [absT_setWf_other t wi wj _ hne]
  · rfl


/-- a compute unit with a wavefront that declares 0 SGPRs (its empty window points at offset 0) and a
    wavefront that owns `s0..s15` at offset 0 -/
def tW : TimingRF :=
  ⟨Array.replicate 64 0, #[Array.replicate 65536 0], #[⟨0, 0, 0, 0, 4, 0, 0, 0, 0⟩, ⟨0, 0, 16, 16, 4, 0, 0, 0, 0⟩]⟩

theorem tW_alloc : Alloc (tW.setWfInfo 0 0 0 0 dW) := by
  have hsz : (tW.setWfInfo 0 0 0 0 dW).wfs.size = 2 := rfl
  have hf : ∀ i, i < 2 → Fits (tW.setWfInfo 0 0 0 0 dW) ((tW.setWfInfo 0 0 0 0 dW).wf i) := by
    intro i hi
    have : i = 0 ∨ i = 1 := by omega
    rcases this with rfl | rfl <;>
      exact ⟨by simp [tW, TimingRF.wf, TimingRF.setWfInfo, TimingRF.setWf], by simp [tW, TimingRF.wf, TimingRF.setWfInfo, TimingRF.setWf],
        by simp [tW, TimingRF.wf, TimingRF.setWfInfo, TimingRF.setWf], by simp [tW, TimingRF.wf, TimingRF.vfileOf, TimingRF.setWfInfo, TimingRF.setWf],
        by simp [tW, TimingRF.wf, TimingRF.setWfInfo, TimingRF.setWf]⟩
  refine ⟨fun i hi => hf i (by rw [hsz] at hi; exact hi), fun i j hi hj hne => ?_⟩
  rw [hsz] at hi hj
  have hi' : i = 0 ∨ i = 1 := by omega
  have hj' : j = 0 ∨ j = 1 := by omega
  have d01 : WindowsDisjoint ((tW.setWfInfo 0 0 0 0 dW).wf 0) ((tW.setWfInfo 0 0 0 0 dW).wf 1) := by
    refine ⟨fun p ⟨a, _⟩ => ?_, Or.inr fun p ⟨⟨l, _, _, a1, a2⟩, ⟨l', _, _, b1, b2⟩⟩ => ?_⟩
    · simp [ownS, tW, TimingRF.wf, TimingRF.setWfInfo, TimingRF.setWf] at a
    · simp [tW, TimingRF.wf, TimingRF.setWfInfo, TimingRF.setWf] at a1 a2 b1 b2
      omega
  rcases hi' with rfl | rfl <;> rcases hj' with rfl | rfl
  · exact absurd rfl hne
  · exact d01
  · exact d01.symm
  · exact absurd rfl hne

theorem initRegisters_sfile (t : TimingRF) (wi : Nat) (d : DispInfo) :
    (t.initRegisters wi d).1.sfile = (SimpleRF.writeAll t.sfile S_STRIDE (t.wf wi).soff (sgprWrites d)).1 := by
  simp only [TimingRF.initRegisters, TimingRF.wf]
  split
  · rfl
  · split <;> rfl


theorem cuOkAll_append (ops : List CUOp) : ∀ (t : TimingRF) (o : CUOp), CUOkAll t (ops ++ [o]) ↔
    CUOkAll t ops ∧ o.Ok (t.cuRun ops) := by
  induction ops with
  | nil => intro t o; simp [CUOkAll, TimingRF.cuRun]
  | cons a ops ih => intro t o; simp only [List.cons_append, CUOkAll, TimingRF.cuRun, ih, and_assoc]

theorem cuRun_append (ops : List CUOp) : ∀ (t : TimingRF) (o : CUOp), t.cuRun (ops ++ [o]) = (t.cuRun ops).cuStep o := by
  induction ops with
  | nil => intro t o; rfl
  | cons a ops ih => intro t o; simp only [List.cons_append, TimingRF.cuRun, ih]


theorem t1_alloc : Alloc t1 := by
  have h2 : Fits t1 (t1.wf 0) :=
    ⟨by simp [t1, TimingRF.wf], by simp [t1, TimingRF.wf], by simp [t1, TimingRF.wf],
      by simp [t1, TimingRF.wf, TimingRF.vfileOf], by simp [t1, TimingRF.wf]⟩
  have hsz : t1.wfs.size = 1 := rfl
  refine ⟨fun i hi => ?_, fun i j hi hj hne => ?_⟩
  · rw [hsz] at hi
    have : i = 0 := by omega
    subst this; exact h2
  · rw [hsz] at hi hj; omega


/-- one SIMD with an unlimited vector register count: a kernel with 256 VGPRs, then one with 4 -/
def unlOps : List C09.ROp := [.reserve 1 ⟨1, 16, 256, 0⟩, .reserve 2 ⟨1, 16, 4, 0⟩]

theorem unl_run : ((C09.mkCU [10] (some 3200) [none] (some 65536)).bind fun cu0 => C09.runR cu0 unlOps).map
    (fun cu => (wfsOfCU cu).map TWf.layout) = some [(0, 0, 0, 16, 256), (0, 64, 1024, 16, 4)] := by decide +kernel


/-! ## a concrete life cycle (non-vacuity of the life-cycle theorems) -/

theorem retire_records (t : TimingRF) (wi : Nat) (hf : Fits t (t.wf wi)) (hwi : wi < t.wfs.size) :
    (t.retire wi).wfs.size = t.wfs.size ∧ (t.retire wi).wf wi = { t.wf wi with ns := 0, nv := 0 } ∧
    (∀ j, j ≠ wi → (t.retire wi).wf j = t.wf j) ∧ (t.retire wi).sfile.size = t.sfile.size ∧
    (t.retire wi).vfiles.size = t.vfiles.size ∧ (∀ x : TWf, ((t.retire wi).vfileOf x).size = (t.vfileOf x).size) := by
  obtain ⟨r1, r2, r3, r4, r5, _⟩ := release_bytes t wi hf
  have hwf : ∀ j, (t.release wi).1.wf j = t.wf j := fun j => by simp only [TimingRF.wf, r2]
  have hwi' : wi < (t.release wi).1.wfs.size := by rw [r2]; exact hwi
  refine ⟨by simp only [TimingRF.retire, TimingRF.setWf, Array.size_setIfInBounds, r2], ?_, fun j hj => ?_, r3, r4, r5⟩
  · unfold TimingRF.retire; rw [wf_setWf_same _ wi _ hwi', hwf]
  · unfold TimingRF.retire; rw [wf_setWf_other _ wi j _ hj, hwf]

/-- a life cycle: a wavefront is dispatched, writes `s2`, retires -/
def demoLife : List CUOp :=
  [.map 16 4 0 0 0 dW, .acc 0 (.w ⟨.s 2, 0, 0⟩ 0xdeadbeef), .retire 0]

theorem dW_fits : AbiFits dW 16 4 := by
  refine ⟨by decide, ?_⟩
  intro lane hl x hx
  simp [laneInits, dW, wiIdEnable] at hx
  subst hx; simp

/-- … and a second wavefront can be dispatched onto the same window afterwards -/
theorem demoLife_ok : CUOkAll blankCU (demoLife ++ [.map 16 4 0 0 0 dW]) := by
  have hb := blank_shipped
  have ok1 : (CUOp.map 16 4 0 0 0 dW).Ok blankCU :=
    ⟨by rw [hb.s]; decide, by decide, by rw [hb.n]; decide,
     by have := hb.v ⟨0, 0, 0, 0, 0, 0, 0, 0, 0⟩ (by decide); simp only [TimingRF.vfileOf] at this; rw [this]; decide,
     by decide, fun i hi => absurd hi (by simp [blankCU]), dW_fits⟩
  obtain ⟨hA1, hC1⟩ := cuStep_alloc_clean blankCU _ blank_alloc_clean.1 blank_alloc_clean.2 ok1
  obtain ⟨m1, m2, _, m4, m5, m6⟩ := map_records blankCU 16 4 0 0 0 dW
  obtain ⟨l1, l2, l3, l4, l5⟩ := layout_eq (w := ⟨0, 0, 0, 16, 4, 0, 0, 0, 0⟩) m2
  simp only at l1 l2 l3 l4 l5
  have hsz0 : blankCU.wfs.size = 0 := rfl
  rw [hsz0] at m1 l1 l2 l3 l4 l5
  -- name the states
  obtain ⟨t1, ht1⟩ : ∃ t1, t1 = blankCU.cuStep (.map 16 4 0 0 0 dW) := ⟨_, rfl⟩
  rw [← ht1] at hA1 hC1 m1 m4 m5 m6 l1 l2 l3 l4 l5
  have ok2 : (CUOp.acc 0 (.w ⟨.s 2, 0, 0⟩ 0xdeadbeef)).Ok t1 := by
    refine ⟨by rw [m1]; decide, ?_⟩
    rw [l4, l5]
    exact ⟨by decide, by decide⟩
  obtain ⟨hL2, hA2, hC2⟩ := step_alloc_clean t1 0 (.w ⟨.s 2, 0, 0⟩ 0xdeadbeef) hA1 hC1 ok2.1 ok2.2
  obtain ⟨t2, ht2⟩ : ∃ t2, t2 = t1.cuStep (.acc 0 (.w ⟨.s 2, 0, 0⟩ 0xdeadbeef)) := ⟨_, rfl⟩
  have e2 : t2 = (t1.step 0 (.w ⟨.s 2, 0, 0⟩ 0xdeadbeef)).1 := ht2
  rw [← e2] at hL2 hA2 hC2
  have hsz2 : t2.wfs.size = 1 := by rw [hL2.nwf, m1]
  have ok3 : (CUOp.retire 0).Ok t2 := by show 0 < t2.wfs.size; rw [hsz2]; decide
  obtain ⟨q1, q2, _, q4, q5, q6⟩ := retire_records t2 0 (hA2.fits 0 (by rw [hsz2]; decide)) (by rw [hsz2]; decide)
  obtain ⟨t3, ht3⟩ : ∃ t3, t3 = t2.cuStep (.retire 0) := ⟨_, rfl⟩
  have e3 : t3 = t2.retire 0 := ht3
  rw [← e3] at q1 q2 q4 q5 q6
  have hv : ∀ (t : TimingRF), (∀ x : TWf, (t.vfileOf x).size = (blankCU.vfileOf x).size) → 65536 ≤ (t.vfiles.getD 0 #[]).size := by
    intro t h
    have h1 := h ⟨0, 0, 0, 0, 0, 0, 0, 0, 0⟩
    have h2 := hb.v ⟨0, 0, 0, 0, 0, 0, 0, 0, 0⟩ (by decide)
    simp only [TimingRF.vfileOf] at h1 h2
    rw [h1, h2]; decide
  have ok4 : (CUOp.map 16 4 0 0 0 dW).Ok t3 := by
    refine ⟨by rw [q4, hL2.ssz, m4, hb.s]; decide, by decide, by rw [q5, hL2.nvf, m5, hb.n]; decide, ?_, by decide, ?_, dW_fits⟩
    · exact hv t3 (fun x => by rw [q6, hL2.vsz, m6])
    · intro i hi
      rw [q1, hsz2] at hi
      have : i = 0 := by omega
      subst this
      rw [q2]
      exact windowsDisjoint_empty _ _ rfl rfl
  show CUOkAll blankCU [.map 16 4 0 0 0 dW, .acc 0 (.w ⟨.s 2, 0, 0⟩ 0xdeadbeef), .retire 0, .map 16 4 0 0 0 dW]
  simp only [CUOkAll, ← ht1, ← ht2, ← ht3]
  exact ⟨ok1, ok2, ok3, ok4, trivial⟩

end C07
