import MgpuProofs.C15CuDefs
/-! # C15 ∘ C14 — record ids are unique and below the allocation counter for EVERY event sequence

`IdsOK` (each memory path: answered ++ in flight ++ saved has no repetition, every id is below
`nextId`) is preserved by every `C14.Flush.step` and therefore by every `cstep` of the composed
system — no legality hypothesis, no protocol hypothesis, no capacity hypothesis. New records get
the ids `nextId, nextId + 1, …`; `respond` moves one id from the in-flight list to `applied`;
`flush`, `reinsert`, `drain` move records between the in-flight and the shadow list (`drain`
changes `gen`, not `id`); `deliver / take / foreign / usend` touch none of the three lists.
The proof mirrors `MgpuProofs/C14FlushCount.lean`. -/
namespace C15.Cu
open C14.Flush

/-- one path: no id twice among answered / in flight / saved, all below `n` -/
def COK (ch : Chan) (n : Nat) : Prop := (chanIds ch).Nodup ∧ ∀ i ∈ chanIds ch, i < n

theorem IdsOK_iff (s : C14.Flush.St) : IdsOK s ↔ COK s.f s.nextId ∧ COK s.s s.nextId ∧ COK s.v s.nextId :=
  Iff.rfl

theorem IdsOK.of {s : C14.Flush.St} (hf : COK s.f s.nextId) (hs : COK s.s s.nextId) (hv : COK s.v s.nextId) :
    IdsOK s := (IdsOK_iff s).2 ⟨hf, hs, hv⟩

theorem IdsOK.f {s : C14.Flush.St} (h : IdsOK s) : COK s.f s.nextId := ((IdsOK_iff s).1 h).1
theorem IdsOK.s {s : C14.Flush.St} (h : IdsOK s) : COK s.s s.nextId := ((IdsOK_iff s).1 h).2.1
theorem IdsOK.v {s : C14.Flush.St} (h : IdsOK s) : COK s.v s.nextId := ((IdsOK_iff s).1 h).2.2

theorem IdsOK_init : IdsOK C14.Flush.St.init := by
  simp [IdsOK, chanIds, C14.Flush.St.init, Chan.empty, ids]

/-! ## one path -/

theorem COK.perm {ch ch' : Chan} {n : Nat} (h : COK ch n) (hp : (chanIds ch').Perm (chanIds ch)) :
    COK ch' n :=
  ⟨hp.nodup_iff.2 h.1, fun i hi => h.2 i (hp.mem_iff.1 hi)⟩

theorem COK.congr {ch ch' : Chan} {n : Nat} (h : COK ch n) (he : chanIds ch' = chanIds ch) :
    COK ch' n := h.perm (he ▸ List.Perm.refl _)

theorem COK.mono {ch : Chan} {n m : Nat} (h : COK ch n) (hnm : n ≤ m) : COK ch m :=
  ⟨h.1, fun i hi => Nat.lt_of_lt_of_le (h.2 i hi) hnm⟩

/-- fresh ids `n ≤ · < n + k` are added -/
theorem COK.fresh {ch ch' : Chan} {n k : Nat} (h : COK ch n) (new : List Nat) (hn : new.Nodup)
    (hr : ∀ i ∈ new, n ≤ i ∧ i < n + k) (hp : (chanIds ch').Perm (chanIds ch ++ new)) :
    COK ch' (n + k) := by
  constructor
  · rw [hp.nodup_iff, List.nodup_append]
    refine ⟨h.1, hn, ?_⟩
    intro a ha b hb hab
    have h1 := h.2 a ha
    have h2 := (hr b hb).1
    omega
  · intro i hi
    rcases List.mem_append.1 (hp.mem_iff.1 hi) with hi | hi
    · have := h.2 i hi; omega
    · exact (hr i hi).2

theorem perm_ins (a b c d : List Nat) : (a ++ (b ++ c ++ d)).Perm (a ++ (b ++ d) ++ c) := by
  rw [List.append_assoc b c d, List.append_assoc a (b ++ d) c, List.append_assoc b d c]
  exact (List.perm_append_comm.append_left b).append_left a

/-- records `es` with fresh ids are appended to the in-flight list -/
theorem COK.addInf {ch ch' : Chan} {n k : Nat} (h : COK ch n) (es : List Entry)
    (ha : ch'.applied = ch.applied) (hi : ch'.inf = ch.inf ++ es) (hs : ch'.sh = ch.sh)
    (hn : (ids es).Nodup) (hr : ∀ i ∈ ids es, n ≤ i ∧ i < n + k) : COK ch' (n + k) := by
  apply h.fresh (ids es) hn hr
  unfold chanIds
  rw [ha, hi, hs, ids_append, ids_append, ids_append]
  exact perm_ins _ _ _ _

theorem COK.issueQ {ch : Chan} {n : Nat} (h : COK ch n) (w k : Nat) :
    COK (ch.issueQ (mkEntries n w k)) (n + k) :=
  h.addInf (mkEntries n w k) rfl rfl rfl (ids_mkEntries_nodup n w k)
    (fun _ hi => mem_ids_mkEntries.1 hi)

theorem COK.issueSent {ch : Chan} {n : Nat} (h : COK ch n) (w g : Nat) (l : Bool) :
    COK (ch.issueSent { id := n, wf := w, last := l, gen := g }) (n + 1) := by
  refine h.addInf [{ id := n, wf := w, last := l, gen := g }] rfl rfl rfl ?_ ?_
  · simp [ids]
  · intro i hi
    simp [ids] at hi
    omega

theorem chanIds_usend (ch : Chan) (cap n : Nat) : chanIds (ch.usend cap n).1 = chanIds ch := rfl
theorem chanIds_take (ch : Chan) (n : Nat) : chanIds (ch.take n).1 = chanIds ch := rfl
theorem chanIds_foreign (ch : Chan) (cap n : Nat) : chanIds (ch.foreign cap n).1 = chanIds ch := rfl
theorem chanIds_setInp (ch : Chan) (l : List C14.Flush.Req) : chanIds { ch with inp := l } = chanIds ch := rfl

theorem chanIds_deliver (ch : Chan) (cap : Nat) (r : C14.Flush.Req) :
    chanIds (ch.deliver cap r).1 = chanIds ch := by
  unfold Chan.deliver; split <;> rfl

theorem chanIds_reinsert (ch : Chan) : chanIds ch.reinsert = chanIds ch := by
  simp [chanIds, Chan.reinsert]

theorem drain_applied (ch : Chan) (cap : Nat) : (ch.drain cap).applied = ch.applied := by
  unfold Chan.drain
  rcases hsh : ch.sh with _ | ⟨e, rest⟩
  · simp
  · simp only
    split <;> rfl

theorem chanIds_drain (ch : Chan) (cap : Nat) : chanIds (ch.drain cap) = chanIds ch := by
  unfold chanIds
  rw [drain_applied, drain_ids]

/-- `flush` permutes the ids (saved records first, then the ones that were in flight) -/
theorem chanIds_flush (ch : Chan) : (chanIds ch.flush).Perm (chanIds ch) := by
  simp only [chanIds, Chan.flush, List.nil_append, ids_append]
  exact List.perm_append_comm.append_left _

/-- **`respond` appends an id to `applied` only by removing a record with that id from the
    in-flight list**: the matched record `e` was in flight under exactly the request ID `r`, its id
    is what `applied` gains, the shadow list is untouched, and the ids in flight / saved afterwards
    are those before with ONE occurrence of `e.id` removed. -/
theorem applied_of_respond {ch ch' : Chan} {r : C14.Flush.Req} {e : Entry} (h : ch.respond r = (ch', some e)) :
    ch'.applied = ch.applied ++ [e.id] ∧ e ∈ ch.inf ∧ (e.id, e.gen) = r ∧ ch'.sh = ch.sh ∧
    (∃ l1 l2, ch.inf = l1 ++ e :: l2 ∧ ch'.inf = l1 ++ l2) ∧
    (ids (ch.inf ++ ch.sh)).Perm (e.id :: ids (ch'.inf ++ ch'.sh)) := by
  obtain ⟨l1, l2, hinf, hr, rfl⟩ := respond_some h
  refine ⟨rfl, ?_, hr, rfl, ⟨l1, l2, hinf, rfl⟩, ?_⟩
  · rw [hinf]; simp
  · simp only [hinf, List.append_assoc, List.cons_append, ids_append]
    show (ids l1 ++ e.id :: ids (l2 ++ ch.sh)).Perm _
    rw [ids_append]
    exact List.perm_middle

/-- an unmatched response changes nothing -/
theorem respond_none_eq {ch ch' : Chan} {r : C14.Flush.Req} (h : ch.respond r = (ch', none)) : ch' = ch :=
  respond_none h

/-- the ids of a path are permuted by a matched response (one moves from in flight to answered) -/
theorem chanIds_respond_some {ch ch' : Chan} {r : C14.Flush.Req} {e : Entry} (h : ch.respond r = (ch', some e)) :
    (chanIds ch').Perm (chanIds ch) := by
  obtain ⟨ha, _, _, _, _, hp⟩ := applied_of_respond h
  unfold chanIds
  rw [ha, List.append_assoc]
  exact (hp.symm).append_left _

theorem chanIds_respond (ch : Chan) (r : C14.Flush.Req) : (chanIds (ch.respond r).1).Perm (chanIds ch) := by
  rcases hres : ch.respond r with ⟨ch', _ | e⟩
  · rw [respond_none hres]
  · exact chanIds_respond_some hres

theorem COK.respond {ch : Chan} {n : Nat} (h : COK ch n) (r : C14.Flush.Req) : COK (ch.respond r).1 n :=
  h.perm (chanIds_respond ch r)

/-- with unique ids, the id a response applies was never applied before and is neither in flight
    nor saved afterwards: **no record is applied twice** -/
theorem applied_once {ch ch' : Chan} {n : Nat} {r : C14.Flush.Req} {e : Entry} (h : COK ch n)
    (hres : ch.respond r = (ch', some e)) :
    e.id ∉ ch.applied ∧ e.id ∉ ids (ch'.inf ++ ch'.sh) ∧ ch'.applied.Nodup := by
  obtain ⟨ha, _, _, _, _, hp⟩ := applied_of_respond hres
  have hnd := h.1
  unfold chanIds at hnd
  rw [List.nodup_append] at hnd
  obtain ⟨h1, h2, h3⟩ := hnd
  have h2' := hp.nodup_iff.1 h2
  rw [List.nodup_cons] at h2'
  refine ⟨?_, h2'.1, ?_⟩
  · intro hin
    exact h3 e.id hin e.id (hp.mem_iff.2 (List.mem_cons_self)) rfl
  · have := (h.perm (chanIds_respond_some hres)).1
    unfold chanIds at this
    exact (List.nodup_append.1 this).1

/-! ## the state: every function `step` goes through -/

/-- a state that differs only outside the three record lists and the allocation counter -/
theorem IdsOK.congr {s s' : C14.Flush.St} (h : IdsOK s) (hf : chanIds s'.f = chanIds s.f)
    (hs : chanIds s'.s = chanIds s.s) (hv : chanIds s'.v = chanIds s.v)
    (hn : s'.nextId = s.nextId) : IdsOK s' :=
  IdsOK.of (hn ▸ h.f.congr hf) (hn ▸ h.s.congr hs) (hn ▸ h.v.congr hv)

/-- the same up to a permutation of each path's ids -/
theorem IdsOK.perm {s s' : C14.Flush.St} (h : IdsOK s) (hf : (chanIds s'.f).Perm (chanIds s.f))
    (hs : (chanIds s'.s).Perm (chanIds s.s)) (hv : (chanIds s'.v).Perm (chanIds s.v))
    (hn : s'.nextId = s.nextId) : IdsOK s' :=
  IdsOK.of (hn ▸ h.f.perm hf) (hn ▸ h.s.perm hs) (hn ▸ h.v.perm hv)

theorem issS_IdsOK (c : C14.Flush.Cfg) {s : C14.Flush.St} (h : IdsOK s) (w n : Nat) : IdsOK (issS c s w n).1 := by
  unfold issS
  split
  · exact h
  · exact IdsOK.of (s := { s with s := s.s.issueQ (mkEntries s.nextId w n), nextId := s.nextId + n,
                                  lgkm := upd s.lgkm w 1 })
      (h.f.mono (Nat.le_add_right _ _)) (h.s.issueQ w n) (h.v.mono (Nat.le_add_right _ _))

theorem issV_IdsOK (c : C14.Flush.Cfg) {s : C14.Flush.St} (h : IdsOK s) (w n : Nat) : IdsOK (issV c s w n).1 := by
  unfold issV
  split
  · exact h
  · exact IdsOK.of (s := { s with v := s.v.issueQ (mkEntries s.nextId w n), nextId := s.nextId + n,
                                  vm := upd s.vm w 1, lgkm := upd s.lgkm w 1 })
      (h.f.mono (Nat.le_add_right _ _)) (h.s.mono (Nat.le_add_right _ _)) (h.v.issueQ w n)

theorem fetch_IdsOK (c : C14.Flush.Cfg) {s : C14.Flush.St} (h : IdsOK s) (w : Nat) : IdsOK (fetch c s w).1 := by
  unfold fetch
  split
  · exact IdsOK.of (s := { s with f := s.f.issueSent { id := s.nextId, wf := w, last := true, gen := 0 },
                                  nextId := s.nextId + 1 })
      (h.f.issueSent w 0 true) (h.s.mono (Nat.le_add_right _ _)) (h.v.mono (Nat.le_add_right _ _))
  · exact h

theorem sendToCP_IdsOK (c : C14.Flush.Cfg) {s : C14.Flush.St} (h : IdsOK s) : IdsOK (sendToCP c s) := by
  unfold sendToCP
  split
  · exact h.congr rfl rfl rfl rfl
  · exact h

theorem procF_IdsOK {s : C14.Flush.St} (h : IdsOK s) : IdsOK (procF s) := by
  unfold procF
  split
  · exact h
  · rename_i r rest _
    exact h.perm (s' := { s with f := (({ s.f with inp := rest } : Chan).respond r).1 })
      (chanIds_respond _ r) (List.Perm.refl _) (List.Perm.refl _) rfl

theorem procS_IdsOK {s : C14.Flush.St} (h : IdsOK s) : IdsOK (procS s) := by
  unfold procS
  rcases hinp : s.s.inp with _ | ⟨r, rest⟩
  · exact h
  · simp only
    have hp := chanIds_respond ({ s.s with inp := rest } : Chan) r
    rcases hres : ({ s.s with inp := rest } : Chan).respond r with ⟨ch, _ | e⟩ <;>
      rw [hres] at hp
    · exact h.perm (s' := { s with s := ch }) (List.Perm.refl _) hp (List.Perm.refl _) rfl
    · exact h.perm (s' := { s with s := ch, lgkm := if e.last then upd s.lgkm e.wf (-1) else s.lgkm })
        (List.Perm.refl _) hp (List.Perm.refl _) rfl

theorem procV1_IdsOK {s : C14.Flush.St} (h : IdsOK s) : IdsOK (procV1 s) := by
  unfold procV1
  rcases hinp : s.v.inp with _ | ⟨r, rest⟩
  · exact h
  · simp only
    have hp := chanIds_respond ({ s.v with inp := rest } : Chan) r
    rcases hres : ({ s.v with inp := rest } : Chan).respond r with ⟨ch, _ | e⟩ <;>
      rw [hres] at hp
    · exact h.perm (s' := { s with v := ch }) (List.Perm.refl _) (List.Perm.refl _) hp rfl
    · exact h.perm (s' := { s with v := ch, vm := if e.last then upd s.vm e.wf (-1) else s.vm,
                                     lgkm := if e.last then upd s.lgkm e.wf (-1) else s.lgkm })
        (List.Perm.refl _) (List.Perm.refl _) hp rfl

theorem procV_IdsOK (n : Nat) {s : C14.Flush.St} (h : IdsOK s) : IdsOK (procV n s) := by
  induction n generalizing s with
  | zero => exact h
  | succ n ih => exact ih (procV1_IdsOK h)

theorem procCP_IdsOK (c : C14.Flush.Cfg) {s : C14.Flush.St} (h : IdsOK s) : IdsOK (procCP c s) := by
  unfold procCP
  split
  · exact h
  · exact h.congr rfl rfl rfl rfl
  · split <;> exact h.congr rfl rfl rfl rfl

theorem processInput_IdsOK (c : C14.Flush.Cfg) {s : C14.Flush.St} (h : IdsOK s) : IdsOK (processInput c s) := by
  unfold processInput
  apply procCP_IdsOK
  split
  · exact procV_IdsOK 16 (procS_IdsOK (procF_IdsOK h))
  · exact h

theorem reinsert_IdsOK {s : C14.Flush.St} (h : IdsOK s) : IdsOK (C14.Flush.reinsert s) :=
  h.congr (s' := C14.Flush.reinsert s) (chanIds_reinsert s.f) (chanIds_reinsert s.s)
    (chanIds_reinsert s.v) rfl

/-- the repaired `flushPipeline` only moves records from the in-flight lists to the shadow lists -/
theorem flushPipeline_IdsOK {s : C14.Flush.St} (h : IdsOK s) : IdsOK (flushPipeline s) := by
  unfold flushPipeline
  split
  · exact h
  · split
    · exact h
    · exact IdsOK.perm h (chanIds_flush s.f) (chanIds_flush s.s) (chanIds_flush s.v) rfl

theorem checkShadow_IdsOK (c : C14.Flush.Cfg) {s : C14.Flush.St} (h : IdsOK s) : IdsOK (checkShadow c s) := by
  unfold checkShadow
  split
  · exact h.congr rfl rfl rfl rfl
  · exact h.congr (s' := { s with s := s.s.drain c.capS, v := s.v.drain c.capV, f := s.f.drain c.capF })
      (chanIds_drain s.f c.capF) (chanIds_drain s.s c.capS) (chanIds_drain s.v c.capV) rfl

theorem doFlush_IdsOK (c : C14.Flush.Cfg) {s : C14.Flush.St} (h : IdsOK s) : IdsOK (doFlush c s) := by
  unfold doFlush
  have h1 : IdsOK (if s.isFlushing then flushPipeline (if s.isSending then C14.Flush.reinsert s else s) else s) := by
    split
    · apply flushPipeline_IdsOK
      split
      · exact reinsert_IdsOK h
      · exact h
    · exact h
  simp only
  generalize (if s.isFlushing then flushPipeline (if s.isSending then C14.Flush.reinsert s else s) else s) = t at h1
  split
  · exact checkShadow_IdsOK c h1
  · exact h1

theorem tick_IdsOK (c : C14.Flush.Cfg) {s : C14.Flush.St} (h : IdsOK s) : IdsOK (C14.Flush.tick c s) :=
  doFlush_IdsOK c (processInput_IdsOK c (sendToCP_IdsOK c h))

/-- **every** event of the compute unit preserves the uniqueness of record ids — no legality
    hypothesis -/
theorem step_IdsOK (c : C14.Flush.Cfg) {s : C14.Flush.St} (h : IdsOK s) (o : C14.Flush.Op) :
    IdsOK (C14.Flush.step c s o) := by
  unfold C14.Flush.step
  split
  · exact h
  · cases o with
    | issS w n => exact issS_IdsOK c h w n
    | issV w n => exact issV_IdsOK c h w n
    | fetch w => exact fetch_IdsOK c h w
    | usendS => exact h.congr rfl rfl rfl rfl
    | usendV n => exact h.congr rfl rfl rfl rfl
    | deliver k i g =>
      cases k with
      | f => exact h.congr (chanIds_deliver _ _ _) rfl rfl rfl
      | s => exact h.congr rfl (chanIds_deliver _ _ _) rfl rfl
      | v => exact h.congr rfl rfl (chanIds_deliver _ _ _) rfl
      | c => exact h
    | cpFlush =>
      simp only
      split
      · exact h.congr rfl rfl rfl rfl
      · exact h
    | cpRestart =>
      simp only
      split
      · exact h.congr rfl rfl rfl rfl
      · exact h
    | take k n =>
      cases k with
      | f => exact h.congr rfl rfl rfl rfl
      | s => exact h.congr rfl rfl rfl rfl
      | v => exact h.congr rfl rfl rfl rfl
      | c => exact h.congr rfl rfl rfl rfl
    | foreign k n =>
      cases k with
      | f => exact h.congr rfl rfl rfl rfl
      | s => exact h.congr rfl rfl rfl rfl
      | v => exact h.congr rfl rfl rfl rfl
      | c => exact h
    | tick => exact tick_IdsOK c h

theorem run_IdsOK (c : C14.Flush.Cfg) (ops : List C14.Flush.Op) {s : C14.Flush.St} (h : IdsOK s) :
    IdsOK (C14.Flush.run c s ops) := by
  induction ops generalizing s with
  | nil => exact h
  | cons o os ih => exact ih (step_IdsOK c h o)

/-! ## the composed system -/

/-- every event of the composed system (compute unit, connection in either direction, reorder
    buffer / memory / control) preserves `IdsOK` of the compute unit -/
theorem cstep_IdsOK (c : Cfg) (σ : Comp) (e : CEv) (h : IdsOK σ.cu) : IdsOK (cstep c σ e).cu := by
  cases e with
  | cu o =>
    simp only [cstep]
    split
    · exact h
    · exact step_IdsOK c.cu h o
  | xfer =>
    simp only [cstep]
    split
    · exact h
    · split
      · exact h
      · split
        · exact step_IdsOK c.cu h _
        · exact h
  | back =>
    simp only [cstep]
    split
    · exact h
    · split
      · exact h
      · split
        · exact h
        · split
          · exact step_IdsOK c.cu h _
          · exact h
  | rob e => cases e <;> exact h

theorem cfold_IdsOK (c : Cfg) (evs : List CEv) {σ : Comp} (h : IdsOK σ.cu) :
    IdsOK (evs.foldl (cstep c) σ).cu := by
  induction evs generalizing σ with
  | nil => exact h
  | cons e es ih => exact ih (cstep_IdsOK c σ e h)

/-- in EVERY run of the composed system the compute unit's record ids are unique -/
theorem crun_IdsOK (c : Cfg) (evs : List CEv) : IdsOK (crun c evs).cu :=
  cfold_IdsOK c evs IdsOK_init

/-- consequence: in every run, on the connected (scalar) path no record id is answered twice, and an
    answered record is neither in flight nor saved any more -/
theorem crun_applied_nodup (c : Cfg) (evs : List CEv) :
    (crun c evs).cu.s.applied.Nodup ∧
    ∀ i ∈ (crun c evs).cu.s.applied, i ∉ ids ((crun c evs).cu.s.inf ++ (crun c evs).cu.s.sh) := by
  have h := (crun_IdsOK c evs).s.1
  unfold chanIds at h
  rw [List.nodup_append] at h
  exact ⟨h.1, fun i hi hin => h.2.2 i hi i hin rfl⟩

/-- the same for every path of the stand-alone compute unit started in `St.init` -/
theorem run_applied_nodup (c : C14.Flush.Cfg) (ops : List C14.Flush.Op) :
    (C14.Flush.run c C14.Flush.St.init ops).f.applied.Nodup ∧ (C14.Flush.run c C14.Flush.St.init ops).s.applied.Nodup ∧
    (C14.Flush.run c C14.Flush.St.init ops).v.applied.Nodup := by
  have h := run_IdsOK c ops IdsOK_init
  have hl : ∀ {ch : Chan} {n : Nat}, COK ch n → ch.applied.Nodup := fun hc => by
    have := hc.1
    unfold chanIds at this
    exact (List.nodup_append.1 this).1
  exact ⟨hl h.f, hl h.s, hl h.v⟩

end C15.Cu
