import MgpuProofs.C07Frame
set_option linter.unusedVariables false
set_option linter.unusedSimpArgs false
/-! # C07 helper lemmas: the abstract register map `CellId → Nat` (one per wavefront) and the abstract
machine on it; both real stores refine it step by step -/
namespace C07
open Gen

/-- the abstract register state of one wavefront: a value per architectural cell
    (`s i`, `v lane i`, `vcc_lo`, `vcc_hi`, `exec_lo`, `exec_hi`, `scc`, `m0`) -/
abbrev CMap := CellId → Nat

def Cells.toMap (c : Cells) : CMap := c.cell

/-- an access reads its cells in operand order, each at its own width -/
def CMap.readBytes (m : CMap) (a : Acc) : List UInt8 := a.cells.flatMap fun id => toLE id.bytes (m id)

/-- the part of the written data that lands in cell `id` (its position in the operand × 4 bytes) -/
def chunk (a : Acc) (d : List UInt8) (id : CellId) : Nat :=
  leNat ((d.drop (4 * a.cells.idxOf id)).take id.bytes)

/-- a write replaces exactly the cells the access denotes, each by its chunk of the data -/
def CMap.writeBytes (m : CMap) (a : Acc) (d : List UInt8) : CMap :=
  fun id => if id ∈ a.cells then chunk a d id else m id

theorem cellBytes_eq (c : Cells) (id : CellId) : c.cellBytes id = toLE id.bytes (c.cell id) := by
  cases id <;> try rfl
  show [c.scc] = [UInt8.ofNat (c.scc.toNat % 256)]
  have := ofNat_byte c.scc 0
  simp only [Nat.mul_zero, Nat.add_zero] at this
  rw [this]

theorem toMap_read (c : Cells) (a : Acc) : c.readBytes a = c.toMap.readBytes a := by
  rw [cells_read_eq_cells]
  unfold CMap.readBytes Cells.toMap
  exact flatMap_congr' (fun id _ => cellBytes_eq c id)

theorem idxOf_map_range (f : Nat → CellId) (hinj : ∀ x y, f x = f y → x = y) (k j : Nat) (hj : j < k) :
    ((List.range k).map f).idxOf (f j) = j := by
  have hnd : ((List.range k).map f).Nodup := by
    rw [List.Nodup, List.pairwise_map]
    exact (List.nodup_range (n := k)).imp (fun h e => h (hinj _ _ e))
  have hlen : j < ((List.range k).map f).length := by simp [hj]
  have hget : ((List.range k).map f)[j] = f j := by simp
  have := hnd.idxOf_getElem j hlen
  rw [hget] at this
  exact this

theorem vlh_ne : (CellId.vccLo == CellId.vccHi) = false := by decide
theorem elh_ne : (CellId.execLo == CellId.execHi) = false := by decide

theorem take4_of_len4 (l : List UInt8) (h : l.length = 4) : l.take 4 = l := List.take_of_length_le (by omega)

theorem m0_roundtrip (d : List UInt8) (h : d.length = 4) : (UInt32.ofNat (leNat d)).toNat = leNat d := by
  rw [UInt32.toNat_ofNat']
  exact Nat.mod_eq_of_lt (leNat4_lt d h)

/-- the flat-cells write of the spec is the map write: cell `id` of the operand receives the chunk
    at its position, every other cell keeps its value -/
theorem toMap_write (c : Cells) (a : Acc) (d : List UInt8) (hd : d.length = a.width) :
    (c.writeBytes a d).toMap = c.toMap.writeBytes a d := by
  funext id
  unfold CMap.writeBytes Cells.toMap
  by_cases hin : id ∈ a.cells
  · rw [if_pos hin]
    obtain ⟨k, rc, lane⟩ := a
    cases k with
    | s i =>
      simp only [Acc.cells, List.mem_map, List.mem_range] at hin
      obtain ⟨j, hj, rfl⟩ := hin
      have hidx := idxOf_map_range (fun j => CellId.s (i + j)) (by intro x y h; injection h; omega) (cnt rc) j hj
      simp only [chunk, Acc.cells, hidx, CellId.bytes, Cells.writeBytes, Cells.cell, updRegs]
      rw [if_pos (by omega), Nat.add_sub_cancel_left]
    | v i =>
      simp only [Acc.cells, List.mem_map, List.mem_range] at hin
      obtain ⟨j, hj, rfl⟩ := hin
      have hidx := idxOf_map_range (fun j => CellId.v lane (i + j)) (by intro x y h; injection h; omega) (cnt rc) j hj
      simp only [chunk, Acc.cells, hidx, CellId.bytes, Cells.writeBytes, Cells.cell, updRegs, if_true]
      rw [if_pos (by omega), Nat.add_sub_cancel_left]
    | scc =>
      simp [Acc.width, Acc.cells, CellId.bytes] at hd
      simp only [Acc.cells, List.mem_singleton] at hin
      subst hin
      match d, hd with
      | [b], _ => simp [chunk, Acc.cells, CellId.bytes, Cells.writeBytes, Cells.cell, leNat]
    | m0 =>
      simp [Acc.width, Acc.cells, CellId.bytes] at hd
      simp only [Acc.cells, List.mem_singleton] at hin
      subst hin
      simp [chunk, Acc.cells, CellId.bytes, Cells.writeBytes, Cells.cell, m0_roundtrip d hd, take4_of_len4 d hd]
    | vcc =>
      simp [Acc.width, Acc.cells, CellId.bytes] at hd
      have h2 : (d.drop 4).length = 4 := by simp; omega
      simp only [Acc.cells, List.mem_cons, List.mem_nil_iff, or_false] at hin
      rcases hin with rfl | rfl
      · simp [chunk, Acc.cells, CellId.bytes, Cells.writeBytes, Cells.cell, lo32_mk64,
          Nat.mod_eq_of_lt (leNat_take_lt d)]
      · simp [chunk, Acc.cells, CellId.bytes, Cells.writeBytes, Cells.cell, hi32_mk64,
          Nat.mod_eq_of_lt (leNat4_lt _ h2), take4_of_len4 _ h2, List.idxOf_cons, vlh_ne, elh_ne]
    | exec =>
      simp [Acc.width, Acc.cells, CellId.bytes] at hd
      have h2 : (d.drop 4).length = 4 := by simp; omega
      simp only [Acc.cells, List.mem_cons, List.mem_nil_iff, or_false] at hin
      rcases hin with rfl | rfl
      · simp [chunk, Acc.cells, CellId.bytes, Cells.writeBytes, Cells.cell, lo32_mk64,
          Nat.mod_eq_of_lt (leNat_take_lt d)]
      · simp [chunk, Acc.cells, CellId.bytes, Cells.writeBytes, Cells.cell, hi32_mk64,
          Nat.mod_eq_of_lt (leNat4_lt _ h2), take4_of_len4 _ h2, List.idxOf_cons, vlh_ne, elh_ne]
    | vcclo =>
      by_cases h : rc = 2
      · subst h
        simp [Acc.width, Acc.cells, CellId.bytes] at hd
        have h2 : (d.drop 4).length = 4 := by simp; omega
        simp only [Acc.cells, if_true, List.mem_cons, List.mem_nil_iff, or_false] at hin
        rcases hin with rfl | rfl
        · simp [chunk, Acc.cells, CellId.bytes, Cells.writeBytes, Cells.cell, lo32_mk64,
            Nat.mod_eq_of_lt (leNat_take_lt d)]
        · simp [chunk, Acc.cells, CellId.bytes, Cells.writeBytes, Cells.cell, hi32_mk64,
            Nat.mod_eq_of_lt (leNat4_lt _ h2), take4_of_len4 _ h2, List.idxOf_cons, vlh_ne, elh_ne]
      · simp [Acc.width, Acc.cells, CellId.bytes, h] at hd
        simp only [Acc.cells, h, if_false, List.mem_singleton] at hin
        subst hin
        simp [chunk, Acc.cells, CellId.bytes, Cells.writeBytes, Cells.cell, h, lo32_mk64,
          Nat.mod_eq_of_lt (leNat4_lt d hd), take4_of_len4 d hd]
    | execlo =>
      by_cases h : rc = 2
      · subst h
        simp [Acc.width, Acc.cells, CellId.bytes] at hd
        have h2 : (d.drop 4).length = 4 := by simp; omega
        simp only [Acc.cells, if_true, List.mem_cons, List.mem_nil_iff, or_false] at hin
        rcases hin with rfl | rfl
        · simp [chunk, Acc.cells, CellId.bytes, Cells.writeBytes, Cells.cell, lo32_mk64,
            Nat.mod_eq_of_lt (leNat_take_lt d)]
        · simp [chunk, Acc.cells, CellId.bytes, Cells.writeBytes, Cells.cell, hi32_mk64,
            Nat.mod_eq_of_lt (leNat4_lt _ h2), take4_of_len4 _ h2, List.idxOf_cons, vlh_ne, elh_ne]
      · simp [Acc.width, Acc.cells, CellId.bytes, h] at hd
        simp only [Acc.cells, h, if_false, List.mem_singleton] at hin
        subst hin
        simp [chunk, Acc.cells, CellId.bytes, Cells.writeBytes, Cells.cell, h, lo32_mk64,
          Nat.mod_eq_of_lt (leNat4_lt d hd), take4_of_len4 d hd]
    | vcchi =>
      simp [Acc.width, Acc.cells, CellId.bytes] at hd
      simp only [Acc.cells, List.mem_singleton] at hin
      subst hin
      simp [chunk, Acc.cells, CellId.bytes, Cells.writeBytes, Cells.cell, hi32_mk64,
        Nat.mod_eq_of_lt (leNat4_lt d hd), take4_of_len4 d hd]
    | exechi =>
      simp [Acc.width, Acc.cells, CellId.bytes] at hd
      simp only [Acc.cells, List.mem_singleton] at hin
      subst hin
      simp [chunk, Acc.cells, CellId.bytes, Cells.writeBytes, Cells.cell, hi32_mk64,
        Nat.mod_eq_of_lt (leNat4_lt d hd), take4_of_len4 d hd]
  · rw [if_neg hin]
    exact cells_frame c a d id hin

/-! ## the abstract machine -/

/-- one access on the abstract map: reads answer from the map, writes always succeed -/
def CMap.step (m : CMap) : Op → CMap × Out
  | .rb a n => (m, .bytes (.ok ((m.readBytes a).take n)))
  | .r a => (m, .val (.ok (leNat ((m.readBytes a).take 8))))
  | .wb a d => (m.writeBytes a d, .done none)
  | .w a v => (m.writeBytes a ((toLE 8 v).take a.width), .done none)

/-- the abstract state of a compute unit: one map per wavefront -/
abbrev GMap := Nat → CMap

/-- wavefront `wi` performs an access: only its own map can change -/
def GMap.step (g : GMap) (wi : Nat) (o : Op) : GMap × Out :=
  (fun j => if j = wi then ((g wi).step o).1 else g j, ((g wi).step o).2)

/-- a whole interleaved access sequence of several wavefronts -/
def GMap.exec (g : GMap) : List (Nat × Op) → GMap × List Out
  | [] => (g, [])
  | p :: ops => ((GMap.exec (g.step p.1 p.2).1 ops).1, (g.step p.1 p.2).2 :: (GMap.exec (g.step p.1 p.2).1 ops).2)

def TimingRF.exec (t : TimingRF) : List (Nat × Op) → TimingRF × List Out
  | [] => (t, [])
  | p :: ops => ((TimingRF.exec (t.step p.1 p.2).1 ops).1, (t.step p.1 p.2).2 :: (TimingRF.exec (t.step p.1 p.2).1 ops).2)

/-- emulation mode: every wavefront has its own store -/
abbrev EmuG := Nat → EmuRF

def EmuG.step (es : EmuG) (wi : Nat) (o : Op) : EmuG × Out :=
  (fun j => if j = wi then ((es wi).step o).1 else es j, ((es wi).step o).2)

def EmuG.exec (es : EmuG) : List (Nat × Op) → EmuG × List Out
  | [] => (es, [])
  | p :: ops => ((EmuG.exec (es.step p.1 p.2).1 ops).1, (es.step p.1 p.2).2 :: (EmuG.exec (es.step p.1 p.2).1 ops).2)

/-- the abstract state a compute unit holds: the cells of every resident wavefront -/
def absG (t : TimingRF) : GMap := fun j => if j < t.wfs.size then (absT t (t.wf j)).toMap else fun _ => 0

def absEG (es : EmuG) : GMap := fun j => (absE (es j)).toMap

theorem width_take (a : Acc) (v : Nat) (hw : a.width ≤ 8) : ((toLE 8 v).take a.width).length = a.width := by
  simp; omega

/-- one access of the emulator's store is one step of the abstract machine -/
theorem emu_step_refines (e : EmuRF) (o : Op) (hs : e.Sized) (ho : o.Ok 102 256) :
    (e.step o).2 = ((absE e).toMap.step o).2 ∧ (absE (e.step o).1).toMap = ((absE e).toMap.step o).1 ∧
    (e.step o).1.Sized := by
  cases o with
  | rb a n =>
    obtain ⟨h1, _, _, _⟩ := emu_refines_cells e a hs ho
    exact ⟨by simp only [EmuRF.step, CMap.step, h1 n, toMap_read], rfl, hs⟩
  | r a =>
    obtain ⟨_, h2, _, _⟩ := emu_refines_cells e a hs ho
    exact ⟨by simp only [EmuRF.step, CMap.step, h2, Cells.read, toMap_read], rfl, hs⟩
  | wb a d =>
    obtain ⟨ha, hd⟩ := ho
    obtain ⟨_, _, h3, _⟩ := emu_refines_cells e a hs ha
    obtain ⟨x1, x2, x3⟩ := h3 d hd
    exact ⟨by simp only [EmuRF.step, CMap.step, x1], by simp only [EmuRF.step, CMap.step, x2, toMap_write _ a d hd], x3⟩
  | w a v =>
    obtain ⟨ha, hw⟩ := ho
    obtain ⟨_, _, _, h4⟩ := emu_refines_cells e a hs ha
    obtain ⟨x1, x2, x3⟩ := h4 v hw
    exact ⟨by simp only [EmuRF.step, CMap.step, x1],
      by simp only [EmuRF.step, CMap.step, x2, Cells.write, toMap_write _ a _ (width_take a v hw)], x3⟩

/-- the allocation invariant of a compute unit: every resident wavefront's windows lie inside the
    register files and the windows of two different wavefronts share no byte -/
structure Alloc (t : TimingRF) : Prop where
  fits : ∀ i, i < t.wfs.size → Fits t (t.wf i)
  disj : ∀ i j, i < t.wfs.size → j < t.wfs.size → i ≠ j → WindowsDisjoint (t.wf i) (t.wf j)

theorem ownS_layout {w w' : TWf} (h1 : w'.soff = w.soff) (h2 : w'.ns = w.ns) (p : Nat) : ownS w' p ↔ ownS w p := by
  unfold ownS; rw [h1, h2]
theorem ownV_layout {w w' : TWf} (h1 : w'.voff = w.voff) (h2 : w'.nv = w.nv) (p : Nat) : ownV w' p ↔ ownV w p := by
  unfold ownV; rw [h1, h2]

theorem SameLayout.alloc {t t' : TimingRF} (h : SameLayout t t') (hA : Alloc t) : Alloc t' := by
  refine ⟨fun i hi => h.fits i (hA.fits i (by rw [← h.nwf]; exact hi)), fun i j hi hj hne => ?_⟩
  obtain ⟨a1, a2, a3, a4, a5⟩ := h.lay i
  obtain ⟨b1, b2, b3, b4, b5⟩ := h.lay j
  obtain ⟨d1, d2⟩ := hA.disj i j (by rw [← h.nwf]; exact hi) (by rw [← h.nwf]; exact hj) hne
  refine ⟨fun p ⟨x, y⟩ => d1 p ⟨(ownS_layout a2 a4 p).1 x, (ownS_layout b2 b4 p).1 y⟩, ?_⟩
  rcases d2 with d2 | d2
  · left; rw [a1, b1]; exact d2
  · right; exact fun p ⟨x, y⟩ => d2 p ⟨(ownV_layout a3 a5 p).1 x, (ownV_layout b3 b5 p).1 y⟩

/-- one access of a timing wavefront is one step of the abstract machine on the maps of ALL resident
    wavefronts: the answer comes from the accessing wavefront's map, a write changes exactly its
    cells there and nothing in any other wavefront's map -/
theorem tim_step_refines (t : TimingRF) (wi : Nat) (o : Op) (hA : Alloc t) (hwi : wi < t.wfs.size)
    (ho : o.Ok (t.wf wi).ns (t.wf wi).nv) :
    (t.step wi o).2 = ((absG t).step wi o).2 ∧ absG (t.step wi o).1 = ((absG t).step wi o).1 ∧
    SameLayout t (t.step wi o).1 := by
  have hf := hA.fits wi hwi
  have hnv : (t.wf wi).nv ≤ 256 := by have := hf.hrow; omega
  have hgi : absG t wi = (absT t (t.wf wi)).toMap := by simp only [absG, hwi, if_true]
  -- a write of wavefront `wi` with data `d` of the operand's width
  have hwrite : ∀ (a : Acc) (d : List UInt8), a.Supported (t.wf wi).ns (t.wf wi).nv → d.length = a.width →
      (t.writeOperandBytes wi a.k.reg a.rc a.lane d).2 = none ∧
      absG (t.writeOperandBytes wi a.k.reg a.rc a.lane d).1 =
        (fun j => if j = wi then (absG t wi).writeBytes a d else absG t j) ∧
      SameLayout t (t.writeOperandBytes wi a.k.reg a.rc a.lane d).1 := by
    intro a d ha hd
    obtain ⟨y1, y2, y3, _⟩ := (timing_refines_cells t wi a hwi hf ha).2.2.1 d hd
    refine ⟨y1, ?_, y3⟩
    funext j
    by_cases hj : j = wi
    · subst hj
      simp only [absG, y3.nwf, hwi, if_true, y2, toMap_write _ a d hd]
    · simp only [hj, if_false, absG, y3.nwf]
      by_cases hjs : j < t.wfs.size
      · simp only [hjs, if_true]
        rw [tim_others_unchanged t wi j a d hf.hns hnv ha hj (hA.disj wi j hwi hjs (Ne.symm hj))]
      · simp only [hjs, if_false]
  cases o with
  | rb a n =>
    obtain ⟨h1, _, _, _⟩ := timing_refines_cells t wi a hwi hf ho
    refine ⟨by simp only [TimingRF.step, GMap.step, CMap.step, h1 n, hgi, toMap_read], ?_, SameLayout.refl t⟩
    funext j
    by_cases hj : j = wi <;> simp [TimingRF.step, GMap.step, CMap.step, hj]
  | r a =>
    obtain ⟨_, h2, _, _⟩ := timing_refines_cells t wi a hwi hf ho
    refine ⟨by simp only [TimingRF.step, GMap.step, CMap.step, h2, hgi, Cells.read, toMap_read], ?_, SameLayout.refl t⟩
    funext j
    by_cases hj : j = wi <;> simp [TimingRF.step, GMap.step, CMap.step, hj]
  | wb a d =>
    obtain ⟨ha, hd⟩ := ho
    obtain ⟨y1, y2, y3⟩ := hwrite a d ha hd
    exact ⟨by simp only [TimingRF.step, GMap.step, CMap.step, y1], by simp only [TimingRF.step, GMap.step, CMap.step, y2], y3⟩
  | w a v =>
    obtain ⟨ha, hw⟩ := ho
    have e := (timing_refines_cells t wi a hwi hf ha).2.2.2 v hw
    obtain ⟨y1, y2, y3⟩ := hwrite a _ ha (width_take a v hw)
    exact ⟨by simp only [TimingRF.step, GMap.step, CMap.step, e, y1],
      by simp only [TimingRF.step, GMap.step, CMap.step, e, y2], by simp only [TimingRF.step, e]; exact y3⟩

end C07
