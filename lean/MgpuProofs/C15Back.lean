import MgpuProofs.C15Resend
import MgpuProofs.C15Refine
import MgpuProofs.C15Flush
/-! # C15 ∘ C14 — the names stamped on the ROB's responses cover the delivered log (helpers for `Props/C15Back.lean`) -/
namespace C15.Cu

theorem sysStep_delivered (c : C15.Cfg) (σ : Sys) (e : Ev) (h : e ≠ .tick) :
    (sysStep c σ e).rob.delivered = σ.rob.delivered := by
  cases e with
  | tick => exact absurd rfl h
  | arrive q => simp only [sysStep, C15.step]; split <;> rfl
  | memTake => simp only [sysStep]; split <;> rfl
  | memAnswer j p =>
    simp only [sysStep]
    split
    · rfl
    · split
      · simp only [C15.step]; split <;> rfl
      · rfl
  | ctl m => simp only [sysStep, C15.step]; split <;> rfl
  | takeRsp => simp only [sysStep]; split <;> rfl
  | takeAck => rfl

theorem sysStep_delivered_ext (c : C15.Cfg) (σ : Sys) (e : Ev) (h : σ.Ok c) :
    ∃ more, (sysStep c σ e).rob.delivered = σ.rob.delivered ++ more :=
  (Spec.star_ext (sysStep_refines c σ e h)).out

/-- what the fold maintains: the ROB part is a reachable state of the closed system and the names
    cover the delivered log -/
def Covered (c : Cfg) (σ : Comp) : Prop :=
  σ.sys.Ok c.rob ∧ σ.named.map (·.1) = σ.sys.rob.delivered.map (·.rspTo)

theorem cstep_Covered (c : Cfg) (σ : Comp) (e : CEv) (h : Covered c σ) : Covered c (cstep c σ e) := by
  obtain ⟨hok, hcov⟩ := h
  have hsys := cstep_sys c σ e
  have hok' : (cstep c σ e).sys.Ok c.rob := by
    rw [hsys]; split
    · exact hok
    · exact sysStep_ok c.rob σ.sys _ hok
  refine ⟨hok', ?_⟩
  cases e with
  | cu o =>
    simp only [cstep]; split <;> exact hcov
  | xfer =>
    simp only [cstep]
    repeat' split
    all_goals first
      | exact hcov
      | (show σ.named.map (·.1) = (sysStep c.rob σ.sys _).rob.delivered.map (·.rspTo)
         rw [sysStep_delivered _ _ _ (by intro h; cases h)]; exact hcov)
  | back =>
    simp only [cstep]
    repeat' split
    all_goals first
      | exact hcov
      | (show σ.named.map (·.1) = (sysStep c.rob σ.sys _).rob.delivered.map (·.rspTo)
         rw [sysStep_delivered _ _ _ (by intro h; cases h)]; exact hcov)
  | rob e' =>
    cases e' with
    | tick =>
      obtain ⟨more, hmore⟩ := sysStep_delivered_ext c.rob σ.sys .tick hok
      show (σ.named ++ nameRsps σ (sysStep c.rob σ.sys .tick)).map (·.1) =
        (sysStep c.rob σ.sys .tick).rob.delivered.map (·.rspTo)
      rw [List.map_append, hcov]
      unfold nameRsps
      rw [hmore, List.drop_left, List.map_append, List.map_map]
      rfl
    | arrive q => exact hcov
    | takeRsp => exact hcov
    | memTake =>
      show σ.named.map (·.1) = (sysStep c.rob σ.sys .memTake).rob.delivered.map (·.rspTo)
      rw [sysStep_delivered _ _ _ (by intro h; cases h)]; exact hcov
    | memAnswer j p =>
      show σ.named.map (·.1) = (sysStep c.rob σ.sys (.memAnswer j p)).rob.delivered.map (·.rspTo)
      rw [sysStep_delivered _ _ _ (by intro h; cases h)]; exact hcov
    | ctl m =>
      show σ.named.map (·.1) = (sysStep c.rob σ.sys (.ctl m)).rob.delivered.map (·.rspTo)
      rw [sysStep_delivered _ _ _ (by intro h; cases h)]; exact hcov
    | takeAck =>
      show σ.named.map (·.1) = (sysStep c.rob σ.sys .takeAck).rob.delivered.map (·.rspTo)
      rw [sysStep_delivered _ _ _ (by intro h; cases h)]; exact hcov

theorem crun_Covered (c : Cfg) (evs : List CEv) : Covered c (crun c evs) := by
  have : ∀ (es : List CEv) (σ : Comp), Covered c σ → Covered c (es.foldl (cstep c) σ) := by
    intro es
    induction es with
    | nil => intro σ h; exact h
    | cons e es ih => intro σ h; exact ih _ (cstep_Covered c σ e h)
  exact this evs {} ⟨sinv_init c.rob, rfl⟩

/-! ## the compute unit's tick applies the response at the head of its scalar port -/

open C14.Flush in
theorem procV1_s (s : C14.Flush.St) : (procV1 s).s = s.s := by
  unfold procV1
  split
  · rfl
  · simp only; split <;> rfl

open C14.Flush in
theorem procV_s (n : Nat) (s : C14.Flush.St) : (procV n s).s = s.s := by
  induction n generalizing s with
  | zero => rfl
  | succ n ih => exact (ih (procV1 s)).trans (procV1_s s)

open C14.Flush in
theorem procCP_s (c : C14.Flush.Cfg) (s : C14.Flush.St) : (procCP c s).s = s.s := by
  unfold procCP; repeat' split
  all_goals rfl

open C14.Flush in
theorem flushPipeline_applied (s : C14.Flush.St) : (flushPipeline s).s.applied = s.s.applied := by
  unfold flushPipeline; repeat' split
  all_goals rfl

open C14.Flush in
theorem doFlush_applied (c : C14.Flush.Cfg) (s : C14.Flush.St) : (doFlush c s).s.applied = s.s.applied := by
  unfold doFlush
  have h2 : ∀ t : C14.Flush.St, (if t.isSending then checkShadow c t else t).s.applied = t.s.applied := by
    intro t; split
    · unfold checkShadow; split
      · rfl
      · exact drain_applied _ _
    · rfl
  simp only
  rw [h2]
  split
  · rw [flushPipeline_applied]; split <;> rfl
  · rfl

open C14.Flush in
/-- the response at the head of the scalar port that names the CURRENT request of an in-flight record
    is applied by the compute unit's next tick (if it reads its ports: running or re-sending) -/
theorem tick_applies_current (c : C14.Flush.Cfg) (s : C14.Flush.St) (e : Entry) (rest : List C14.Flush.Req)
    (hinp : s.s.inp = (e.id, e.gen) :: rest) (he : e ∈ s.s.inf)
    (hrun : s.isPaused = false ∨ s.isSending = true) :
    e.id ∈ (C14.Flush.tick c s).s.applied := by
  have e0 : C14.Flush.tick c s = doFlush c (procCP c
      (if !(sendToCP c s).isPaused || (sendToCP c s).isSending then procV 16 (procS (procF (sendToCP c s)))
       else sendToCP c s)) := rfl
  have hflags : (sendToCP c s).isPaused = s.isPaused ∧ (sendToCP c s).isSending = s.isSending ∧
      (sendToCP c s).s = s.s := by
    unfold sendToCP; split <;> exact ⟨rfl, rfl, rfl⟩
  have hcond : (!(sendToCP c s).isPaused || (sendToCP c s).isSending) = true := by
    rw [hflags.1, hflags.2.1]
    rcases hrun with h | h <;> simp [h]
  rw [e0, if_pos hcond, doFlush_applied, procCP_s, procV_s]
  have hF : (procF (sendToCP c s)).s = s.s := by
    unfold procF; split
    · exact hflags.2.2
    · exact hflags.2.2
  unfold procS
  rw [hF, hinp]
  simp only
  split
  · rename_i ch hres
    exfalso
    unfold Chan.respond at hres
    split at hres
    · rename_i hnone
      have := List.find?_eq_none.1 hnone e he
      simp [Entry.is] at this
    · simp at hres
  · rename_i ch y hres
    obtain ⟨ha, _, hr, _⟩ := applied_of_respond hres
    have hid : y.id = e.id := congrArg Prod.fst hr
    show e.id ∈ ch.applied
    rw [ha, ← hid]; simp

/-! ## the name stamped on a response is the record's current request ID -/

theorem eq_of_id_nodup {l : List C14.Flush.Entry} (hn : (C14.Flush.ids l).Nodup) {a b : C14.Flush.Entry}
    (ha : a ∈ l) (hb : b ∈ l) (hid : a.id = b.id) : a = b := by
  induction l with
  | nil => cases ha
  | cons x xs ih =>
    simp only [C14.Flush.ids, List.map_cons, List.nodup_cons, List.mem_map, not_exists, not_and] at hn
    rcases List.mem_cons.mp ha with rfl | ha' <;> rcases List.mem_cons.mp hb with rfl | hb'
    · rfl
    · exact absurd hid.symm (hn.1 b hb')
    · exact absurd hid (hn.1 a ha')
    · exact ih (by simpa [C14.Flush.ids] using hn.2) ha' hb'

theorem curGen_of_mem (ch : C14.Flush.Chan) (hn : (C14.Flush.ids (ch.inf ++ ch.sh)).Nodup) (e : C14.Flush.Entry)
    (he : e ∈ ch.inf ++ ch.sh) : curGen ch e.id = e.gen := by
  unfold curGen
  rcases hf : (ch.inf ++ ch.sh).find? (fun x => x.id == e.id) with _ | x
  · have := List.find?_eq_none.1 hf e he
    simp at this
  · have hx := List.find?_some hf
    have hxm := List.mem_of_find?_eq_some hf
    have : x = e := eq_of_id_nodup hn hxm he (by simpa using hx)
    rw [hf]; simp only; rw [this]

/-- the name a ROB tick stamps on the response to its request number `n` -/
def nameFn (σ : Comp) (n : Nat) : C14.Flush.Req :=
  match σ.idOf[n]? with
  | some r => (r.1, curGen σ.cu.s r.1)
  | none => (0, 0)

theorem nameRsps_eq (σ : Comp) (sys' : Sys) :
    nameRsps σ sys' =
      (sys'.rob.delivered.drop σ.sys.rob.delivered.length).map (fun d => (d.rspTo, nameFn σ d.rspTo)) := rfl

end C15.Cu
