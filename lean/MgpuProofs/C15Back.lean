import MgpuProofs.C15Resend
import MgpuProofs.C15Refine
import MgpuProofs.C15Flush
/-! # C15 ∘ C14 — the names stamped on the ROB's responses cover the delivered log (helpers for `Props/C15Back.lean`) -/
namespace C15.Cu

theorem sysStep_delivered (c : C15.Cfg) (σ : Sys) (e : Ev) (h : e ≠ .tick) :
    (sysStep c σ e).rob.delivered = σ.rob.delivered := by
  cases e with
  | tick => exact absurd rfl h
  | arrive q => simp only [sysStep, C15.step]; split <;> rfl
  | memTake => simp only [sysStep]; split <;> rfl
  | memAnswer j p =>
    simp only [sysStep]
    split
    · rfl
    · split
      · simp only [C15.step]; split <;> rfl
      · rfl
  | ctl m => simp only [sysStep, C15.step]; split <;> rfl
  | takeRsp => simp only [sysStep]; split <;> rfl
  | takeAck => rfl

theorem sysStep_delivered_ext (c : C15.Cfg) (σ : Sys) (e : Ev) (h : σ.Ok c) :
    ∃ more, (sysStep c σ e).rob.delivered = σ.rob.delivered ++ more :=
  (Spec.star_ext (sysStep_refines c σ e h)).out

/-- what the fold maintains: the ROB part is a reachable state of the closed system and the names
    cover the delivered log -/
def Covered (c : Cfg) (σ : Comp) : Prop :=
  σ.sys.Ok c.rob ∧ σ.named.map (·.1) = σ.sys.rob.delivered.map (·.rspTo)

theorem cstep_Covered (c : Cfg) (σ : Comp) (e : CEv) (h : Covered c σ) : Covered c (cstep c σ e) := by
  obtain ⟨hok, hcov⟩ := h
  have hsys := cstep_sys c σ e
  have hok' : (cstep c σ e).sys.Ok c.rob := by
    rw [hsys]; split
    · exact hok
    · exact sysStep_ok c.rob σ.sys _ hok
  refine ⟨hok', ?_⟩
  cases e with
  | cu o =>
    simp only [cstep]; split <;> exact hcov
  | xfer =>
    simp only [cstep]
    repeat' split
    all_goals first
      | exact hcov
      | (show σ.named.map (·.1) = (sysStep c.rob σ.sys _).rob.delivered.map (·.rspTo)
         rw [sysStep_delivered _ _ _ (by intro h; cases h)]; exact hcov)
  | back =>
    simp only [cstep]
    repeat' split
    all_goals first
      | exact hcov
      | (show σ.named.map (·.1) = (sysStep c.rob σ.sys _).rob.delivered.map (·.rspTo)
         rw [sysStep_delivered _ _ _ (by intro h; cases h)]; exact hcov)
  | rob e' =>
    cases e' with
    | tick =>
      obtain ⟨more, hmore⟩ := sysStep_delivered_ext c.rob σ.sys .tick hok
      show (σ.named ++ nameRsps σ (sysStep c.rob σ.sys .tick)).map (·.1) =
        (sysStep c.rob σ.sys .tick).rob.delivered.map (·.rspTo)
      rw [List.map_append, hcov]
      unfold nameRsps
      rw [hmore, List.drop_left, List.map_append, List.map_map]
      rfl
    | arrive q => exact hcov
    | takeRsp => exact hcov
    | memTake =>
      show σ.named.map (·.1) = (sysStep c.rob σ.sys .memTake).rob.delivered.map (·.rspTo)
      rw [sysStep_delivered _ _ _ (by intro h; cases h)]; exact hcov
    | memAnswer j p =>
      show σ.named.map (·.1) = (sysStep c.rob σ.sys (.memAnswer j p)).rob.delivered.map (·.rspTo)
      rw [sysStep_delivered _ _ _ (by intro h; cases h)]; exact hcov
    | ctl m =>
      show σ.named.map (·.1) = (sysStep c.rob σ.sys (.ctl m)).rob.delivered.map (·.rspTo)
      rw [sysStep_delivered _ _ _ (by intro h; cases h)]; exact hcov
    | takeAck =>
      show σ.named.map (·.1) = (sysStep c.rob σ.sys .takeAck).rob.delivered.map (·.rspTo)
      rw [sysStep_delivered _ _ _ (by intro h; cases h)]; exact hcov

theorem crun_Covered (c : Cfg) (evs : List CEv) : Covered c (crun c evs) := by
  have : ∀ (es : List CEv) (σ : Comp), Covered c σ → Covered c (es.foldl (cstep c) σ) := by
    intro es
    induction es with
    | nil => intro σ h; exact h
    | cons e es ih => intro σ h; exact ih _ (cstep_Covered c σ e h)
  exact this evs {} ⟨sinv_init c.rob, rfl⟩

end C15.Cu
