import MgpuProofs.C07Run
set_option linter.unusedVariables false
set_option linter.unusedSimpArgs false
/-! # C07 helper lemmas: exactly which register operands fault (Go panic: index out of range /
"Register type … not supported") in each store, as decidable predicates on (register, RegCount, lane
[, data length]); the model's error branch is taken exactly then -/
namespace C07
open Gen

/-- the fault of a call, if any -/
def errOf {α : Type} : Except Fault α → Option Fault
  | .ok _ => none
  | .error f => some f

@[simp] theorem errOf_ok {α : Type} (x : α) : errOf (Except.ok x : Except Fault α) = none := rfl
@[simp] theorem errOf_error {α : Type} (f : Fault) : errOf (Except.error f : Except Fault α) = some f := rfl
theorem errOf_ite {α : Type} (c : Prop) [Decidable c] (a b : Except Fault α) :
    errOf (if c then a else b) = if c then errOf a else errOf b := by split <;> rfl

/-- the special registers every path of both stores implements for every count -/
def isSpecial7 (r : Nat) : Bool :=
  r == R_SCC || r == R_VCC || r == R_VCCLO || r == R_VCCHI || r == R_EXEC || r == R_EXECLO || r == R_M0

/-- **which register operands make the emulator's `ReadReg` (behind `ReadOperandBytes`) panic**, for a
    store with the file sizes `NewWavefront` allocates -/
def emuReadFault (r rc lane : Nat) : Option Fault :=
  if numBytes r rc > 64 then some .bounds
  else if isSReg r then (if regIndex r * 4 + numBytes r rc ≤ 408 then none else some .bounds)
  else if isVReg r then (if lane * 1024 + regIndex r * 4 + numBytes r rc ≤ 65536 then none else some .bounds)
  else if isSpecial7 r then none
  else if r == R_EXECHI then (if rc ≤ 1 then none else some .unsupported)
  else some .unsupported

theorem numBytes_scc_pos (rc : Nat) : numBytes 368 rc ≠ 0 := by
  unfold numBytes; rw [bs_scc]; split <;> omega

theorem emu_readReg_fault (e : EmuRF) (hs : e.Sized) (r rc lane : Nat) :
    errOf (e.readReg r rc lane) = emuReadFault r rc lane := by
  obtain ⟨h1, h2⟩ := hs
  unfold EmuRF.readReg emuReadFault isSpecial7
  simp only [h1, h2]
  by_cases c0 : numBytes r rc > 64
  · simp [c0, errOf]
  by_cases cS : isSReg r = true
  · simp only [c0, cS, if_true, if_false]
    simp only [errOf_ite, errOf_ok, errOf_error]
  by_cases cV : isVReg r = true
  · simp only [c0, cS, cV, if_true, if_false, Nat.mul_assoc, errOf_ite, errOf_ok, errOf_error]
  simp only [c0, cS, cV, if_false, Bool.false_eq_true]
  by_cases a1 : r = R_SCC
  · subst a1
    have := numBytes_scc_pos rc
    simp [errOf_ite, R_SCC, this]
  by_cases a2 : r = R_VCC
  · subst a2; simp [errOf_ite, R_SCC, R_VCC]
  by_cases a3 : r = R_VCCLO
  · subst a3; simp [errOf_ite, R_SCC, R_VCC, R_VCCLO, R_VCCHI, R_EXEC, R_EXECLO, R_EXECHI, R_M0]
  by_cases a4 : r = R_VCCHI
  · subst a4; simp [errOf_ite, R_SCC, R_VCC, R_VCCLO, R_VCCHI, R_EXEC, R_EXECLO, R_EXECHI, R_M0]
  by_cases a5 : r = R_EXEC
  · subst a5; simp [errOf_ite, R_SCC, R_VCC, R_VCCLO, R_VCCHI, R_EXEC, R_EXECLO, R_EXECHI, R_M0]
  by_cases a6 : r = R_EXECLO
  · subst a6; simp [errOf_ite, R_SCC, R_VCC, R_VCCLO, R_VCCHI, R_EXEC, R_EXECLO, R_EXECHI, R_M0]
  by_cases a7 : r = R_M0
  · subst a7; simp [errOf_ite, R_SCC, R_VCC, R_VCCLO, R_VCCHI, R_EXEC, R_EXECLO, R_EXECHI, R_M0]
  by_cases a8 : r = R_EXECHI
  · subst a8; simp [errOf_ite, R_SCC, R_VCC, R_VCCLO, R_VCCHI, R_EXEC, R_EXECLO, R_EXECHI, R_M0]
  simp [errOf_ite, a1, a2, a3, a4, a5, a6, a7, a8]

/-- **… and `CURegFileAccessor.ReadReg`** (behind both `ReadOperand` and `ReadOperandBytes` of a timing
    wavefront `w` on compute unit `t`) -/
def timReadFault (t : TimingRF) (w : TWf) (r rc lane : Nat) : Option Fault :=
  if isSpecial7 r || r == R_EXECHI then none
  else if isSReg r then
    (if regIndex r * 4 + w.soff + 4 * cnt rc ≤ t.sfile.size then none else some .bounds)
  else if isVReg r then
    (if regIndex r * 4 + lane * 1024 + w.voff + 4 * cnt rc ≤ (t.vfileOf w).size then none else some .bounds)
  else some .unsupported

theorem isSReg_range (r : Nat) (h : isSReg r = true) : 258 ≤ r ∧ r ≤ 359 := by
  unfold isSReg at h
  simp only [R_S0, R_S101, Bool.and_eq_true] at h
  exact ⟨of_decide_eq_true h.1, of_decide_eq_true h.2⟩
theorem isVReg_range (r : Nat) (h : isVReg r = true) : 2 ≤ r ∧ r ≤ 257 := by
  unfold isVReg at h
  simp only [R_V0, R_V255, Bool.and_eq_true] at h
  exact ⟨of_decide_eq_true h.1, of_decide_eq_true h.2⟩
theorem sv_excl (r : Nat) (h : isSReg r = true) : isVReg r = false := by
  have := isSReg_range r h
  cases hv : isVReg r
  · rfl
  · have := isVReg_range r hv; omega

theorem special_not_s (r : Nat) (h : (isSpecial7 r || r == R_EXECHI) = true) : isSReg r = false ∧ isVReg r = false := by
  simp only [isSpecial7, Bool.or_eq_true, beq_iff_eq] at h
  rcases h with ((((((h | h) | h) | h) | h) | h) | h) | h <;> subst h <;> constructor <;> decide

theorem cnt4 (rc : Nat) : (if (rc == 0) = true then 1 else rc) * 4 = 4 * cnt rc := by
  rw [cnt_beq]; omega
theorem cnt4' (rc : Nat) : (if rc = 0 then 1 else rc) * 4 = 4 * cnt rc := by
  unfold cnt; split <;> omega

theorem tim_readReg_fault (t : TimingRF) (w : TWf) (r rc lane : Nat) :
    errOf (t.readReg w r rc lane (TimingRF.waveOffset w r)) = timReadFault t w r rc lane := by
  unfold TimingRF.readReg timReadFault
  by_cases hsp : (isSpecial7 r || r == R_EXECHI) = true
  · rw [if_pos hsp]
    simp only [isSpecial7, Bool.or_eq_true, beq_iff_eq] at hsp
    rcases hsp with ((((((h | h) | h) | h) | h) | h) | h) | h <;> subst h <;>
      simp [errOf_ite, R_SCC, R_VCC, R_VCCLO, R_VCCHI, R_EXEC, R_EXECLO, R_EXECHI, R_M0]
  · rw [if_neg hsp]
    simp only [isSpecial7, Bool.or_eq_true, beq_iff_eq, not_or] at hsp
    obtain ⟨⟨⟨⟨⟨⟨⟨a1, a2⟩, a3⟩, a4⟩, a5⟩, a6⟩, a7⟩, a8⟩ := hsp
    simp only [beq_iff_eq, a1, a2, a3, a4, a5, a6, a7, a8, if_false]
    by_cases cS : isSReg r = true
    · have cV := sv_excl r cS
      simp only [cS, cV, Bool.true_or, if_true, TimingRF.getRegOffset, TimingRF.waveOffset, cnt4, errOf_ite, errOf_ok,
        errOf_error, Bool.false_eq_true, if_false]
      simp only [cnt4', Nat.add_assoc]
    · by_cases cV : isVReg r = true
      · simp only [cS, cV, Bool.or_true, if_true, TimingRF.getRegOffset, TimingRF.waveOffset, cnt4, errOf_ite, errOf_ok,
          errOf_error, Bool.false_eq_true, if_false, LANE_STRIDE]
        simp only [cnt4', Nat.add_assoc]
      · simp [cS, cV]

/-- **the emulator's `ReadOperand`** goes through `readRegOperand` / `readFromRegFile`, which reads 4
    or 8 bytes whatever the count, answers every count of the eight special registers, and falls
    back to `ReadReg` for every other register -/
def emuReadOperandFault (r rc lane : Nat) : Option Fault :=
  if isVReg r then (if lane * 1024 + regIndex r * 4 + (if rc ≤ 1 then 4 else 8) ≤ 65536 then none else some .bounds)
  else if isSReg r then (if regIndex r * 4 + (if rc ≤ 1 then 4 else 8) ≤ 408 then none else some .bounds)
  else if isSpecial7 r || r == R_EXECHI then none
  else emuReadFault r rc lane

theorem byteSize_of_s (r : Nat) (h : isSReg r = true) : byteSize r = 4 := by
  have := isSReg_range r h
  exact byteSize_sv r (by omega) (by omega)
theorem byteSize_of_v (r : Nat) (h : isVReg r = true) : byteSize r = 4 := by
  have := isVReg_range r h
  exact byteSize_sv r (by omega) (by omega)

theorem readFromRegFile_fault (file : File) (off rc : Nat) :
    errOf (EmuRF.readFromRegFile file off 4 rc) =
      if off + (if rc ≤ 1 then 4 else 8) ≤ file.size then none else some .bounds := by
  unfold EmuRF.readFromRegFile
  by_cases h : rc ≤ 1
  · have h' : ¬ rc ≥ 2 := by omega
    simp [h, h', errOf_ite]
  · have h' : rc ≥ 2 := by omega
    have h4 : ¬ (4 * rc = 4) := by omega
    simp [h, h', h4, errOf_ite]

theorem emu_readOperand_fault (e : EmuRF) (hs : e.Sized) (r rc lane : Nat) :
    errOf (e.readOperand r rc lane) = emuReadOperandFault r rc lane := by
  unfold EmuRF.readOperand EmuRF.readRegOperand emuReadOperandFault
  by_cases cV : isVReg r = true
  · simp only [cV, if_true, byteSize_of_v r cV, readFromRegFile_fault, hs.2, Nat.mul_assoc]
  by_cases cS : isSReg r = true
  · simp only [cV, cS, if_true, if_false, byteSize_of_s r cS, readFromRegFile_fault, hs.1, Bool.false_eq_true]
  simp only [cV, cS, if_false, Bool.false_eq_true]
  by_cases hsp : (isSpecial7 r || r == R_EXECHI) = true
  · rw [if_pos hsp]
    simp only [isSpecial7, Bool.or_eq_true, beq_iff_eq] at hsp
    rcases hsp with ((((((h | h) | h) | h) | h) | h) | h) | h <;> subst h <;>
      simp [errOf_ite, R_SCC, R_VCC, R_VCCLO, R_VCCHI, R_EXEC, R_EXECLO, R_EXECHI, R_M0]
  · rw [if_neg hsp, ← emu_readReg_fault e hs]
    simp only [isSpecial7, Bool.or_eq_true, beq_iff_eq, not_or] at hsp
    obtain ⟨⟨⟨⟨⟨⟨⟨a1, a2⟩, a3⟩, a4⟩, a5⟩, a6⟩, a7⟩, a8⟩ := hsp
    simp only [beq_iff_eq, a1, a2, a3, a4, a5, a6, a7, a8, if_false]
    cases e.readReg r rc lane <;> rfl

theorem tim_readOperand_fault (t : TimingRF) (wi r rc lane : Nat) :
    errOf (t.readOperand wi r rc lane) = timReadFault t (t.wf wi) r rc lane := by
  rw [← tim_readReg_fault]
  simp only [TimingRF.readOperand, TimingRF.wf]
  split <;> simp_all [errOf]

theorem emu_readOperandBytes_fault (e : EmuRF) (hs : e.Sized) (r rc lane n : Nat) :
    errOf (e.readOperandBytes r rc lane n) = emuReadFault r rc lane := by
  rw [← emu_readReg_fault e hs]
  unfold EmuRF.readOperandBytes
  cases e.readReg r rc lane <;> rfl

theorem tim_readOperandBytes_fault (t : TimingRF) (wi r rc lane n : Nat) :
    errOf (t.readOperandBytes wi r rc lane n) = timReadFault t (t.wf wi) r rc lane := by
  rw [← tim_readReg_fault]
  simp only [TimingRF.readOperandBytes, TimingRF.wf]
  split <;> simp_all [errOf]

/-- **which `WriteReg` calls of the emulator panic** (`n` = length of the data) -/
def emuWriteFault (r rc lane n : Nat) : Option Fault :=
  if isSReg r then (if regIndex r * 4 + numBytes r rc ≤ 408 then none else some .bounds)
  else if isVReg r then (if lane * 1024 + regIndex r * 4 + numBytes r rc ≤ 65536 then none else some .bounds)
  else if r == R_SCC then (if n = 0 then some .bounds else none)
  else if r == R_VCC || r == R_EXEC then (if n < 8 then some .bounds else none)
  else if r == R_VCCLO || r == R_VCCHI then
    (if rc ≤ 1 then (if n < 4 then some .bounds else none) else (if n < 8 then some .bounds else none))
  else if r == R_EXECLO then
    (if rc = 2 then (if n < 8 then some .bounds else none) else (if n < 4 then some .bounds else none))
  else if r == R_EXECHI then (if rc ≤ 1 then (if n < 4 then some .bounds else none) else some .unsupported)
  else if r == R_M0 then (if n < 4 then some .bounds else none)
  else some .unsupported

theorem u32_snd (d : List UInt8) : errOf (u32 d) = if d.length < 4 then some .bounds else none := by
  unfold u32; split <;> rfl
theorem u64_snd (d : List UInt8) : errOf (u64 d) = if d.length < 8 then some .bounds else none := by
  unfold u64; split <;> rfl

theorem emu_writeReg_fault (e : EmuRF) (hs : e.Sized) (r rc lane : Nat) (d : List UInt8) :
    (e.writeReg r rc lane d).2 = emuWriteFault r rc lane d.length := by
  obtain ⟨h1, h2⟩ := hs
  unfold EmuRF.writeReg emuWriteFault
  simp only [h1, h2]
  by_cases cS : isSReg r = true
  · simp only [cS, if_true]
    split <;> rfl
  by_cases cV : isVReg r = true
  · simp only [cS, cV, if_true, if_false, Nat.mul_assoc, Bool.false_eq_true]
    split <;> rfl
  simp only [cS, cV, if_false, Bool.false_eq_true]
  by_cases a1 : r = R_SCC
  · subst a1; cases d <;> simp [R_SCC]
  by_cases a2 : r = R_VCC
  · subst a2; simp [R_SCC, R_VCC, R_VCCLO, R_VCCHI, R_EXEC, R_EXECLO, R_EXECHI, R_M0, u32, u64]
    repeat' split
    all_goals simp_all
  by_cases a3 : r = R_VCCLO
  · subst a3; simp [R_SCC, R_VCC, R_VCCLO, R_VCCHI, R_EXEC, R_EXECLO, R_EXECHI, R_M0, u32, u64]
    repeat' split
    all_goals simp_all
  by_cases a4 : r = R_VCCHI
  · subst a4; simp [R_SCC, R_VCC, R_VCCLO, R_VCCHI, R_EXEC, R_EXECLO, R_EXECHI, R_M0, u32, u64]
    repeat' split
    all_goals simp_all
  by_cases a5 : r = R_EXEC
  · subst a5; simp [R_SCC, R_VCC, R_VCCLO, R_VCCHI, R_EXEC, R_EXECLO, R_EXECHI, R_M0, u32, u64]
    repeat' split
    all_goals simp_all
  by_cases a6 : r = R_EXECLO
  · subst a6; simp [R_SCC, R_VCC, R_VCCLO, R_VCCHI, R_EXEC, R_EXECLO, R_EXECHI, R_M0, u32, u64]
    repeat' split
    all_goals simp_all
  by_cases a7 : r = R_EXECHI
  · subst a7; simp [R_SCC, R_VCC, R_VCCLO, R_VCCHI, R_EXEC, R_EXECLO, R_EXECHI, R_M0, u32, u64]
    repeat' split
    all_goals simp_all
  by_cases a8 : r = R_M0
  · subst a8; simp [R_SCC, R_VCC, R_VCCLO, R_VCCHI, R_EXEC, R_EXECLO, R_EXECHI, R_M0, u32, u64]
    repeat' split
    all_goals simp_all
  simp [a1, a2, a3, a4, a5, a6, a7, a8]

/-- **… and which `CURegFileAccessor.WriteReg` calls** of wavefront `w` -/
def timWriteFault (t : TimingRF) (w : TWf) (r rc lane n : Nat) : Option Fault :=
  if r == R_SCC then (if n = 0 then some .bounds else none)
  else if r == R_VCC || r == R_VCCLO || r == R_VCCHI || r == R_EXEC || r == R_EXECLO || r == R_EXECHI then
    (if 2 ≤ rc ∨ 8 ≤ n then none else if n < 4 then some .bounds else none)
  else if r == R_M0 then (if n < 4 then some .bounds else none)
  else if isSReg r then
    (if regIndex r * 4 + w.soff + 4 * cnt rc ≤ t.sfile.size then (if n < 4 * cnt rc then some .bounds else none)
     else some .bounds)
  else if isVReg r then
    (if regIndex r * 4 + lane * 1024 + w.voff + 4 * cnt rc ≤ (t.vfileOf w).size then
      (if n < 4 * cnt rc then some .bounds else none)
     else some .bounds)
  else some .unsupported

theorem write64_fault (cur : UInt64) (rc : Nat) (d : List UInt8) (high : Bool) :
    errOf (TimingRF.write64 cur rc d high) =
      if 2 ≤ rc ∨ 8 ≤ d.length then none else if d.length < 4 then some .bounds else none := by
  unfold TimingRF.write64
  by_cases h : 2 ≤ rc ∨ 8 ≤ d.length
  · have h' : (decide (rc ≥ 2) || decide (d.length ≥ 8)) = true := by simpa using h
    have hp : ¬ (TimingRF.padTo8 d).length < 8 := by
      unfold TimingRF.padTo8; split <;> simp <;> omega
    simp [h, h', u64, hp]
  · have h' : ¬ (decide (rc ≥ 2) || decide (d.length ≥ 8)) = true := by simpa using h
    simp only [h, h', if_false, u32]
    by_cases l4 : d.length < 4
    · simp [l4]
    · cases high <;> simp [l4]

theorem tim_writeReg_fault (t : TimingRF) (wi r rc lane : Nat) (d : List UInt8) :
    (t.writeReg wi r rc lane (TimingRF.waveOffset (t.wf wi) r) d).2 = timWriteFault t (t.wf wi) r rc lane d.length := by
  have hw : t.wfs.getD wi default = t.wf wi := rfl
  unfold TimingRF.writeReg timWriteFault
  simp only [hw]
  by_cases a1 : r = R_SCC
  · subst a1; cases d <;> simp [R_SCC]
  by_cases a2 : r = R_VCC
  · subst a2
    have hf := write64_fault (t.wf wi).vcc rc d false
    simp [R_SCC, R_VCC, R_VCCLO, R_VCCHI, R_EXEC, R_EXECLO, R_EXECHI, R_M0]
    cases hx : TimingRF.write64 (t.wf wi).vcc rc d false <;> simp_all [errOf]
  by_cases a3 : r = R_VCCLO
  · subst a3
    have hf := write64_fault (t.wf wi).vcc rc d false
    simp [R_SCC, R_VCC, R_VCCLO, R_VCCHI, R_EXEC, R_EXECLO, R_EXECHI, R_M0]
    cases hx : TimingRF.write64 (t.wf wi).vcc rc d false <;> simp_all [errOf]
  by_cases a4 : r = R_VCCHI
  · subst a4
    have hf := write64_fault (t.wf wi).vcc rc d true
    simp [R_SCC, R_VCC, R_VCCLO, R_VCCHI, R_EXEC, R_EXECLO, R_EXECHI, R_M0]
    cases hx : TimingRF.write64 (t.wf wi).vcc rc d true <;> simp_all [errOf]
  by_cases a5 : r = R_EXEC
  · subst a5
    have hf := write64_fault (t.wf wi).exec rc d false
    simp [R_SCC, R_VCC, R_VCCLO, R_VCCHI, R_EXEC, R_EXECLO, R_EXECHI, R_M0]
    cases hx : TimingRF.write64 (t.wf wi).exec rc d false <;> simp_all [errOf]
  by_cases a6 : r = R_EXECLO
  · subst a6
    have hf := write64_fault (t.wf wi).exec rc d false
    simp [R_SCC, R_VCC, R_VCCLO, R_VCCHI, R_EXEC, R_EXECLO, R_EXECHI, R_M0]
    cases hx : TimingRF.write64 (t.wf wi).exec rc d false <;> simp_all [errOf]
  by_cases a7 : r = R_EXECHI
  · subst a7
    have hf := write64_fault (t.wf wi).exec rc d true
    simp [R_SCC, R_VCC, R_VCCLO, R_VCCHI, R_EXEC, R_EXECLO, R_EXECHI, R_M0]
    cases hx : TimingRF.write64 (t.wf wi).exec rc d true <;> simp_all [errOf]
  by_cases a8 : r = R_M0
  · subst a8
    by_cases l4 : d.length < 4 <;> simp [R_SCC, R_VCC, R_VCCLO, R_VCCHI, R_EXEC, R_EXECLO, R_EXECHI, R_M0, u32, l4]
  simp only [beq_iff_eq, a1, a2, a3, a4, a5, a6, a7, a8, if_false, Bool.or_self, Bool.false_eq_true]
  by_cases cS : isSReg r = true
  · have cV := sv_excl r cS
    simp only [cS, cV, Bool.true_or, if_true, TimingRF.getRegOffset, TimingRF.waveOffset, cnt4, cnt4', Bool.false_eq_true, if_false]
    simp only [Nat.add_assoc]
    by_cases b1 : regIndex r * 4 + ((t.wf wi).soff + 4 * cnt rc) ≤ t.sfile.size <;>
      by_cases b2 : d.length < 4 * cnt rc <;> simp [b1, b2, a1, a2, a3, a4, a5, a6, a7, a8]
  · by_cases cV : isVReg r = true
    · simp only [cS, cV, Bool.or_true, if_true, TimingRF.getRegOffset, TimingRF.waveOffset, cnt4, cnt4', Bool.false_eq_true, if_false, LANE_STRIDE]
      simp only [Nat.add_assoc]
      by_cases b1 : regIndex r * 4 + (lane * 1024 + ((t.wf wi).voff + 4 * cnt rc)) ≤ (t.vfileOf (t.wf wi)).size <;>
        by_cases b2 : d.length < 4 * cnt rc <;> simp [b1, b2, a1, a2, a3, a4, a5, a6, a7, a8]
    · simp [cS, cV, a1, a2, a3, a4, a5, a6, a7, a8]

/-- `WriteOperand` (both wavefront types): the 8-byte value is cut to the operand's nominal width -/
def emuWriteOperandFault (r rc lane : Nat) : Option Fault :=
  if numBytes r rc > 8 then some .bounds else emuWriteFault r rc lane (numBytes r rc)
def timWriteOperandFault (t : TimingRF) (w : TWf) (r rc lane : Nat) : Option Fault :=
  if numBytes r rc > 8 then some .bounds else timWriteFault t w r rc lane (numBytes r rc)

theorem emu_writeOperand_fault (e : EmuRF) (hs : e.Sized) (r rc lane v : Nat) :
    (e.writeOperand r rc lane v).2 = emuWriteOperandFault r rc lane := by
  unfold EmuRF.writeOperand emuWriteOperandFault
  by_cases h : numBytes r rc > 8
  · simp [h]
  · simp only [h, if_false]
    rw [emu_writeReg_fault e hs]
    congr 1
    simp; omega

theorem tim_writeOperand_fault (t : TimingRF) (wi r rc lane v : Nat) :
    (t.writeOperand wi r rc lane v).2 = timWriteOperandFault t (t.wf wi) r rc lane := by
  unfold TimingRF.writeOperand timWriteOperandFault
  by_cases h : numBytes r rc > 8
  · simp [h]
  · simp only [h, if_false]
    have := tim_writeReg_fault t wi r rc lane ((toLE 8 v).take (numBytes r rc))
    simp only [TimingRF.wf] at this ⊢
    rw [this]
    congr 1
    simp; omega

theorem emu_writeOperandBytes_fault (e : EmuRF) (hs : e.Sized) (r rc lane : Nat) (d : List UInt8) :
    (e.writeOperandBytes r rc lane d).2 = emuWriteFault r rc lane d.length := emu_writeReg_fault e hs r rc lane d

theorem tim_writeOperandBytes_fault (t : TimingRF) (wi r rc lane : Nat) (d : List UInt8) :
    (t.writeOperandBytes wi r rc lane d).2 = timWriteFault t (t.wf wi) r rc lane d.length :=
  tim_writeReg_fault t wi r rc lane d

end C07
