import MgpuProofs.C11DmaFlow
/-! # C11 helper: run-level account of the memory transactions of the DMA engine

`Env.issued` = every transaction ever created, in creation order (already handed to the memory,
in ToMem's outgoing buffer, or waiting in `toSendToMem`). Invariant `Env.TxInv`: the transactions
issued are, in order, the `2^log2`-unit pieces of the copy requests parsed so far, their ids are
`0 … nextId-1`, and every pending transaction is one of them. -/
namespace C11

/-- what the memory side can observe of a transaction, plus its ghost owner -/
def MemReq.key (q : MemReq) : Nat × Nat × Nat × Bool := (q.owner, q.addr, q.len, q.write)

/-- every transaction created so far, in creation order -/
def Env.issued (e : Env) : List MemReq := e.seen ++ e.s.memOut ++ e.s.toMem

/-- the transactions copy request `r` has to be cut into -/
def expectTx (log2 : Nat) (r : CpReq) : List (Nat × Nat × Nat × Bool) :=
  (splitBy (2 ^ log2) (Nat.pow_pos (by decide)) r.addr r.len).map fun p => (r.id, p.1, p.2, r.kind == Kind.h2d)

theorem subReqs_keys (s : Dma) (r : CpReq) : (subReqs s r).map MemReq.key = expectTx s.log2 r := by
  unfold subReqs expectTx
  rw [List.map_map]
  have : (MemReq.key ∘ fun (x : (Nat × Nat) × Nat) => match x with
      | (p, i) => ({ id := s.nextId + i, write := r.kind == Kind.h2d, addr := p.1, len := p.2,
                     base := r.addr, owner := r.id } : MemReq)) =
      (fun p : Nat × Nat => (r.id, p.1, p.2, r.kind == Kind.h2d)) ∘ Prod.fst := by
    funext ⟨p, i⟩; rfl
  rw [this, ← List.map_map, List.zipIdx_map_fst]

/-! ## what a tick does to the queues of transactions and copy requests -/

/-- the fields the account depends on -/
structure Dma.TxView where
  q : List MemReq
  cpIn : List CpReq
  pending : List MemReq
  log2 : Nat
  nextId : Nat

def Dma.txv (s : Dma) : Dma.TxView :=
  { q := s.memOut ++ s.toMem, cpIn := s.cpIn, pending := s.pending, log2 := s.log2, nextId := s.nextId }

theorem sendCP_txv (s : Dma) : s.sendCP.1.txv = s.txv := by
  unfold Dma.sendCP; cases s.toCP <;> rfl

theorem sendMem_txv (s : Dma) : s.sendMem.1.txv = s.txv := by
  unfold Dma.sendMem
  cases h : s.toMem with
  | nil => rfl
  | cons r rest =>
    simp only
    split
    · simp [Dma.txv, h]
    · simp [Dma.txv, h]

/-- `parseFromMem` touches neither the transaction queues nor the copy queue; pending only shrinks -/
theorem parseFromMem_txv (s : Dma) :
    s.parseFromMem.1.memOut = s.memOut ∧ s.parseFromMem.1.toMem = s.toMem ∧ s.parseFromMem.1.cpIn = s.cpIn ∧
    s.parseFromMem.1.log2 = s.log2 ∧ s.parseFromMem.1.nextId = s.nextId ∧
    (∀ q ∈ s.parseFromMem.1.pending, q ∈ s.pending) := by
  rcases parseFromMem_cases s with ⟨_, e⟩ | ⟨id, rest, hm, hc⟩
  · rw [e]; exact ⟨rfl, rfl, rfl, rfl, rfl, fun q h => h⟩
  · rcases hc with ⟨_, e⟩ | ⟨_, _, e⟩ | ⟨_, c', _, _, e⟩ | ⟨_, c', _, _, e⟩
    · rw [e]; exact ⟨rfl, rfl, rfl, rfl, rfl, fun q h => h⟩
    · rw [e]; exact ⟨rfl, rfl, rfl, rfl, rfl, fun q h => (List.mem_filter.1 h).1⟩
    · rw [e]; exact ⟨rfl, rfl, rfl, rfl, rfl, fun q h => (List.mem_filter.1 h).1⟩
    · rw [e]; exact ⟨rfl, rfl, rfl, rfl, rfl, fun q h => (List.mem_filter.1 h).1⟩

/-- one tick: the transaction queue `memOut ++ toMem` and the pending list grow by the transactions
    of at most one copy request, taken from the head of the copy queue -/
theorem tick_txv (s : Dma) :
    s.tick.1.log2 = s.log2 ∧
    ((s.tick.1.memOut ++ s.tick.1.toMem = s.memOut ++ s.toMem ∧ s.tick.1.cpIn = s.cpIn ∧
        s.tick.1.nextId = s.nextId ∧ ∀ q ∈ s.tick.1.pending, q ∈ s.pending) ∨
     ∃ r rest t, s.cpIn = r :: rest ∧ s.tick.1.cpIn = rest ∧ t.log2 = s.log2 ∧ t.nextId = s.nextId ∧
        s.tick.1.memOut ++ s.tick.1.toMem = s.memOut ++ s.toMem ++ subReqs t r ∧
        s.tick.1.nextId = s.nextId + (subReqs t r).length ∧
        ∀ q ∈ s.tick.1.pending, q ∈ s.pending ∨ q ∈ subReqs t r) := by
  have h1 := sendCP_txv s
  have h2 := sendMem_txv s.sendCP.1
  obtain ⟨a1, a2, a3, a4, a5, a6⟩ := parseFromMem_txv s.sendCP.1.sendMem.1
  have hv : s.sendCP.1.sendMem.1.txv = s.txv := h2.trans h1
  have hq : s.sendCP.1.sendMem.1.memOut ++ s.sendCP.1.sendMem.1.toMem = s.memOut ++ s.toMem :=
    congrArg Dma.TxView.q hv
  have hc : s.sendCP.1.sendMem.1.cpIn = s.cpIn := congrArg Dma.TxView.cpIn hv
  have hp : s.sendCP.1.sendMem.1.pending = s.pending := congrArg Dma.TxView.pending hv
  have hl : s.sendCP.1.sendMem.1.log2 = s.log2 := congrArg Dma.TxView.log2 hv
  have hn : s.sendCP.1.sendMem.1.nextId = s.nextId := congrArg Dma.TxView.nextId hv
  have base : s.sendCP.1.sendMem.1.parseFromMem.1.log2 = s.log2 ∧
      s.sendCP.1.sendMem.1.parseFromMem.1.memOut ++ s.sendCP.1.sendMem.1.parseFromMem.1.toMem = s.memOut ++ s.toMem ∧
      s.sendCP.1.sendMem.1.parseFromMem.1.cpIn = s.cpIn ∧ s.sendCP.1.sendMem.1.parseFromMem.1.nextId = s.nextId ∧
      ∀ q ∈ s.sendCP.1.sendMem.1.parseFromMem.1.pending, q ∈ s.pending := by
    refine ⟨a4.trans hl, by rw [a1, a2]; exact hq, a3.trans hc, a5.trans hn, fun q h => hp ▸ a6 q h⟩
  unfold Dma.tick
  split
  · exact ⟨rfl, .inl ⟨rfl, rfl, rfl, fun q h => h⟩⟩
  · simp only
    split
    · exact ⟨base.1, .inl base.2⟩
    · obtain ⟨b1, b2, b3, b4, b5⟩ := base
      rcases parseFromCP_cases s.sendCP.1.sendMem.1.parseFromMem.1 with ⟨e, _⟩ | ⟨r, rest, hci, _, e⟩
      · rw [e]; exact ⟨b1, .inl ⟨b2, b3, b4, b5⟩⟩
      · rw [e]
        refine ⟨b1, .inr ⟨r, rest, s.sendCP.1.sendMem.1.parseFromMem.1, by rw [← b3]; exact hci, rfl, b1, b4, ?_, ?_, ?_⟩⟩
        · show s.sendCP.1.sendMem.1.parseFromMem.1.memOut ++ (s.sendCP.1.sendMem.1.parseFromMem.1.toMem ++ _) = _
          rw [← List.append_assoc, b2]
        · show s.sendCP.1.sendMem.1.parseFromMem.1.nextId + _ = _
          rw [b4]
        · intro q hq
          rcases List.mem_append.1 hq with h | h
          · exact .inl (b5 q h)
          · exact .inr h

/-! ## the invariant -/

structure Env.TxInv (e : Env) : Prop where
  /-- the transactions issued are the pieces of the copy requests parsed so far, in order -/
  tile : ∃ parsed, e.cps = parsed ++ e.s.cpIn ∧ e.issued.map MemReq.key = parsed.flatMap (expectTx e.s.log2)
  ids : e.issued.map (·.id) = List.range e.s.nextId
  pend : ∀ q ∈ e.s.pending, q ∈ e.issued

theorem Env.init_tx (log2 maxReq memCap : Nat) : (Env.init log2 maxReq memCap).TxInv :=
  ⟨⟨[], rfl, rfl⟩, rfl, fun q h => by cases h⟩

theorem Env.TxInv.step {e : Env} (h : e.TxInv) (op : EnvOp) : (e.step op).TxInv := by
  obtain ⟨⟨parsed, hcps, htile⟩, hids, hpend⟩ := h
  cases op with
  | copy k a l =>
    refine ⟨⟨parsed, ?_, htile⟩, hids, hpend⟩
    show e.cps ++ [_] = parsed ++ (e.s.cpIn ++ [_])
    rw [hcps, List.append_assoc]
  | tick =>
    obtain ⟨hl, hcase⟩ := tick_txv e.s
    have hiss : ∀ x : List MemReq, e.s.tick.1.memOut ++ e.s.tick.1.toMem = e.s.memOut ++ e.s.toMem ++ x →
        (e.step .tick).issued = e.issued ++ x := by
      intro x hx
      show e.seen ++ e.s.tick.1.memOut ++ e.s.tick.1.toMem = e.seen ++ e.s.memOut ++ e.s.toMem ++ x
      rw [List.append_assoc, hx]; simp [List.append_assoc]
    rcases hcase with ⟨hq, hc, hn, hp⟩ | ⟨r, rest, t, hci, hc, htl, htn, hq, hn, hp⟩
    · have hi : (e.step .tick).issued = e.issued := by
        have := hiss [] (by rw [List.append_nil]; exact hq)
        rw [List.append_nil] at this; exact this
      refine ⟨⟨parsed, ?_, ?_⟩, ?_, ?_⟩
      · show e.cps = parsed ++ e.s.tick.1.cpIn
        rw [hc]; exact hcps
      · show (e.step .tick).issued.map MemReq.key = parsed.flatMap (expectTx e.s.tick.1.log2)
        rw [hi, hl]; exact htile
      · show (e.step .tick).issued.map (·.id) = List.range e.s.tick.1.nextId
        rw [hi, hn]; exact hids
      · intro q hq'
        rw [hi]; exact hpend q (hp q hq')
    · have hi : (e.step .tick).issued = e.issued ++ subReqs t r := hiss _ hq
      refine ⟨⟨parsed ++ [r], ?_, ?_⟩, ?_, ?_⟩
      · show e.cps = parsed ++ [r] ++ e.s.tick.1.cpIn
        rw [hc, hcps, hci]; simp
      · show (e.step .tick).issued.map MemReq.key = (parsed ++ [r]).flatMap (expectTx e.s.tick.1.log2)
        rw [hi, hl, List.map_append, htile, subReqs_keys, htl, List.flatMap_append]
        simp
      · show (e.step .tick).issued.map (·.id) = List.range e.s.tick.1.nextId
        rw [hi, hn, List.map_append, hids, subReqs_ids, htn, List.range_add]
        simp [List.range'_eq_map_range]
      · intro q hq'
        rw [hi]
        rcases hp q hq' with h | h
        · exact List.mem_append_left _ (hpend q h)
        · exact List.mem_append_right _ h
  | take k =>
    have hi : (e.step (.take k)).issued = e.issued := by
      show e.seen ++ e.s.memOut.take k ++ e.s.memOut.drop k ++ e.s.toMem = e.seen ++ e.s.memOut ++ e.s.toMem
      rw [List.append_assoc e.seen, List.take_append_drop]
    exact ⟨⟨parsed, hcps, by rw [hi]; exact htile⟩, by rw [hi]; exact hids, fun q hq => by rw [hi]; exact hpend q hq⟩
  | respond j =>
    unfold Env.step
    simp only
    split
    · exact ⟨⟨parsed, hcps, htile⟩, hids, hpend⟩
    · split
      · exact ⟨⟨parsed, hcps, htile⟩, hids, hpend⟩
      · exact ⟨⟨parsed, hcps, htile⟩, hids, hpend⟩
  | drain => exact ⟨⟨parsed, hcps, htile⟩, hids, hpend⟩
  | inject id => exact ⟨⟨parsed, hcps, htile⟩, hids, hpend⟩

theorem Env.run_tx {e : Env} (h : e.TxInv) (ops : List EnvOp) : (e.run ops).TxInv := by
  induction ops generalizing e with
  | nil => exact h
  | cons op ops ih => exact ih (h.step op)

/-! ## per copy request -/

theorem expectTx_owner (k : Nat) (r : CpReq) : ∀ x ∈ expectTx k r, x.1 = r.id := by
  intro x hx
  unfold expectTx at hx
  obtain ⟨p, _, rfl⟩ := List.mem_map.1 hx
  rfl

/-- the transactions of one copy request inside the concatenation for a list of requests with
    pairwise different ids -/
theorem filter_flatMap_expect (k : Nat) : ∀ (l : List CpReq), (l.map (·.id)).Nodup → ∀ r ∈ l,
    (l.flatMap (expectTx k)).filter (fun x => x.1 == r.id) = expectTx k r
  | [], _, r, hr => by cases hr
  | c :: l, hnd, r, hr => by
    rw [List.map_cons, List.nodup_cons] at hnd
    rw [List.flatMap_cons, List.filter_append]
    have hnone : ∀ (l' : List CpReq), r.id ∉ l'.map (·.id) →
        (l'.flatMap (expectTx k)).filter (fun x => x.1 == r.id) = [] := by
      intro l' hno
      rw [List.filter_eq_nil_iff]
      intro x hx
      obtain ⟨c', hc', hx'⟩ := List.mem_flatMap.1 hx
      have := expectTx_owner k c' x hx'
      simp only [beq_iff_eq]
      intro he
      exact hno (List.mem_map.2 ⟨c', hc', by rw [← this, he]⟩)
    rcases List.mem_cons.1 hr with rfl | hr'
    · rw [hnone l hnd.1, List.append_nil, List.filter_eq_self]
      intro x hx
      simp [expectTx_owner k r x hx]
    · have hne : c.id ≠ r.id := fun he => hnd.1 (he ▸ List.mem_map_of_mem hr')
      have : (expectTx k c).filter (fun x => x.1 == r.id) = [] := by
        rw [List.filter_eq_nil_iff]
        intro x hx
        simp only [beq_iff_eq]
        rw [expectTx_owner k c x hx]; exact hne
      rw [this, List.nil_append]
      exact filter_flatMap_expect k l hnd.2 r hr'

end C11
