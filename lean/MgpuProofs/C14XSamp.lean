import MgpuProofs.C14XDefs
/-! # C14 — the sampled-completion path (`handleMapWGReq` in sampling mode, `handleWfCompletionEvent`)

`SInv` is an invariant of the handling of `WfCompletionEvent`s (`fireS`), of every scheduler event
and of a flush; consequences: a sampled work-group is reported exactly once, in the handling of the
event of its last wavefront (or of the retry that event scheduled). -/
namespace C14

/-- all the other wavefronts of `w`'s group have ended -/
def xsa_last (x : XState) (w : Wf) (i : Nat) : Prop :=
  ∀ u ∈ x.sw, u.wg = w.wg → u.id ≠ i → u.state = .completed

def xsa_clr (g : Nat) (v : Wf) : Wf := if v.wg = g then { v with inPool := false } else v

/-- what one handling does to a wavefront: the one with id `i` is Completed, maybe out of its pool -/
def xsa_F (i : Nat) (g : Option Nat) (v : Wf) : Wf :=
  match g with
  | none => if v.id = i then complete v else v
  | some g => xsa_clr g (if v.id = i then complete v else v)

theorem xsa_F_id (i : Nat) (g : Option Nat) (v : Wf) : (xsa_F i g v).id = v.id := by
  cases g <;> by_cases h : v.id = i <;> simp only [xsa_F, xsa_clr, complete, h, if_true, if_false] <;>
    first | rfl | (split <;> rfl)

theorem xsa_F_wg (i : Nat) (g : Option Nat) (v : Wf) : (xsa_F i g v).wg = v.wg := by
  cases g <;> by_cases h : v.id = i <;> simp only [xsa_F, xsa_clr, complete, h, if_true, if_false] <;>
    first | rfl | (split <;> rfl)

theorem xsa_F_state (i : Nat) (g : Option Nat) (v : Wf) :
    (xsa_F i g v).state = if v.id = i then .completed else v.state := by
  cases g <;> by_cases h : v.id = i <;> simp only [xsa_F, xsa_clr, complete, h, if_true, if_false] <;>
    first | rfl | (split <;> rfl)

theorem xsa_upd_eq (sw : List Wf) (i : Nat) : updWf sw i complete = sw.map (xsa_F i none) := by
  unfold updWf xsa_F; rfl

theorem xsa_clear_eq (sw : List Wf) (i g : Nat) :
    clearPool g (updWf sw i complete) = sw.map (xsa_F i (some g)) := by
  unfold updWf clearPool
  rw [List.map_map]; rfl

theorem xsa_others_iff (x : XState) (w : Wf) (i : Nat) :
    othersCompleted w.wg i (updWf x.sw i complete) = true ↔ xsa_last x w i := by
  unfold othersCompleted xsa_last
  rw [List.all_eq_true]
  constructor
  · intro h u hu hg hne
    have hm : u ∈ updWf x.sw i complete := mem_updWf.mpr ⟨u, hu, by rw [if_neg hne]⟩
    have := h u hm
    simpa [hg, hne] using this
  · intro h v' hv'
    obtain ⟨v, hv, rfl⟩ := mem_updWf.mp hv'
    by_cases hvi : v.id = i
    · rw [if_pos hvi]
      have : (complete v).id = i := hvi
      simp
    · rw [if_neg hvi]
      by_cases hg : v.wg = w.wg
      · have := h v hv hg hvi
        simp [this]
      · simp [hg]

theorem xsa_wfComp_some (c : Cfg) (s : State) (i : Nat) (w : Wf) (hget : getWf s.wfs i = some w) :
    wfComp c s i =
      if othersCompleted w.wg i (updWf s.wfs i complete) then
        if s.out.length < c.aceCap then
          ({ s with out := s.out ++ [some w.wg], sent := s.sent ++ [w.wg],
                    wfs := clearPool w.wg (updWf s.wfs i complete) }, false)
        else ({ s with wfs := updWf s.wfs i complete }, true)
      else ({ s with wfs := updWf s.wfs i complete }, false) := by
  unfold wfComp
  rw [hget]

/-- the three outcomes of the handling of a scheduled event -/
theorem xsa_fire_cases (c : Cfg) (x : XState) (i : Nat) (w : Wf)
    (hids : x.sw.Pairwise (fun a b => a.id ≠ b.id)) (hw : w ∈ x.sw) (hid : w.id = i) :
    (¬ xsa_last x w i ∧
      fireS c x i = ({ s := x.s, sw := x.sw.map (xsa_F i none), evq := x.evq.erase i }, false)) ∨
    (xsa_last x w i ∧ x.s.out.length < c.aceCap ∧
      fireS c x i = ({ s := { x.s with out := x.s.out ++ [some w.wg], sent := x.s.sent ++ [w.wg] },
                       sw := x.sw.map (xsa_F i (some w.wg)), evq := x.evq.erase i }, false)) ∨
    (xsa_last x w i ∧ ¬ x.s.out.length < c.aceCap ∧
      fireS c x i = ({ s := x.s, sw := x.sw.map (xsa_F i none), evq := x.evq.erase i ++ [i] }, true)) := by
  have hget : getWf ({ x.s with wfs := x.sw } : State).wfs i = some w := hid ▸ getWf_of_mem hids hw
  have hc := xsa_wfComp_some c _ i w hget
  by_cases hl : xsa_last x w i
  · have ho : othersCompleted w.wg i (updWf x.sw i complete) = true := (xsa_others_iff x w i).mpr hl
    by_cases hroom : x.s.out.length < c.aceCap
    · refine Or.inr (Or.inl ⟨hl, hroom, ?_⟩)
      unfold fireS
      rw [hc]
      simp only [ho, hroom, if_true, List.append_nil, Bool.false_eq_true, if_false]
      simp only [xsa_clear_eq]
    · refine Or.inr (Or.inr ⟨hl, hroom, ?_⟩)
      unfold fireS
      rw [hc]
      simp only [ho, hroom, if_true, if_false]
      simp only [xsa_upd_eq]
  · have ho : othersCompleted w.wg i (updWf x.sw i complete) = false := by
      cases hh : othersCompleted w.wg i (updWf x.sw i complete) with
      | false => rfl
      | true => exact absurd ((xsa_others_iff x w i).mp hh) hl
    refine Or.inl ⟨hl, ?_⟩
    unfold fireS
    rw [hc]
    simp only [ho, List.append_nil, Bool.false_eq_true, if_false]
    simp only [xsa_upd_eq]

/-- what `SInv` says about the wavefront whose event is handled -/
theorem xsa_pre {x : XState} {i : Nat} {w : Wf} (h : SInv x) (hi : i ∈ x.evq) (hw : w ∈ x.sw)
    (hid : w.id = i) :
    w.wg ∉ x.s.sent ∧
    (∀ u ∈ x.sw, u.wg = w.wg → u.state = .completed → u.id ∈ x.evq → u = w) ∧
    (w.state = .completed → xsa_last x w i) := by
  rcases h.sst w hw with hs | hs
  · have hnall : ¬ allC w.wg x.sw := fun ha => by
      have := ha w hw rfl; rw [hs] at this; cases this
    refine ⟨fun hin => hnall (h.sentS w hw hin), ?_, fun hc => by rw [hs] at hc; cases hc⟩
    intro u hu hg hc hq
    have := (h.retry u hu hc hq).1
    rw [hg] at this
    exact absurd this hnall
  · have hr := h.retry w hw hs (hid ▸ hi)
    refine ⟨hr.2, ?_, fun _ u hu hg _ => hr.1 u hu hg⟩
    intro u hu hg hc hq
    exact h.retry1 u hu w hw hc hs hq (hid ▸ hi) hg

/-- `SInv` after a handling, from an abstract description of the new log and the new queue -/
theorem xsa_post {x : XState} {i : Nat} {w : Wf} (h : SInv x) (hi : i ∈ x.evq) (hw : w ∈ x.sw)
    (hid : w.id = i) (g : Option Nat) (s' : State) (evq' : List Nat)
    (hwfs : s'.wfs = x.s.wfs)
    (hmono : ∀ k ∈ x.s.sent, k ∈ s'.sent)
    (hnew : ∀ k ∈ s'.sent, k ∈ x.s.sent ∨ (k = w.wg ∧ xsa_last x w i))
    (hnd : evq'.Nodup)
    (hold : ∀ j, j ≠ i → (j ∈ evq' ↔ j ∈ x.evq))
    (hqi : i ∈ evq' → xsa_last x w i ∧ w.wg ∉ s'.sent)
    (hlast : xsa_last x w i → w.wg ∈ s'.sent ∨ i ∈ evq') :
    SInv { s := s', sw := x.sw.map (xsa_F i g), evq := evq' } := by
  obtain ⟨hns, hQ, _⟩ := xsa_pre h hi hw hid
  have hidw : ∀ v ∈ x.sw, v.id = i → v = w := fun v hv e => uniq h.sids hv hw (e.trans hid.symm)
  have mem' : ∀ v' ∈ x.sw.map (xsa_F i g), ∃ v ∈ x.sw, v' = xsa_F i g v := by
    intro v' hv'
    obtain ⟨v, hv, e⟩ := List.mem_map.mp hv'
    exact ⟨v, hv, e.symm⟩
  have memF : ∀ v ∈ x.sw, xsa_F i g v ∈ x.sw.map (xsa_F i g) := fun v hv => List.mem_map_of_mem hv
  have mono : ∀ k, allC k x.sw → allC k (x.sw.map (xsa_F i g)) := by
    intro k ha v' hv' hg
    obtain ⟨v, hv, rfl⟩ := mem' v' hv'
    rw [xsa_F_wg] at hg
    rw [xsa_F_state]
    split
    · rfl
    · exact ha v hv hg
  have back : ∀ k, allC k (x.sw.map (xsa_F i g)) → k ≠ w.wg → allC k x.sw := by
    intro k ha hne v hv hg
    have hvi : v.id ≠ i := fun e => hne (by rw [← hg, hidw v hv e])
    have := ha _ (memF v hv) (by rw [xsa_F_wg]; exact hg)
    rw [xsa_F_state, if_neg hvi] at this
    exact this
  have lastC : xsa_last x w i → allC w.wg (x.sw.map (xsa_F i g)) := by
    intro hl v' hv' hg
    obtain ⟨v, hv, rfl⟩ := mem' v' hv'
    rw [xsa_F_wg] at hg
    rw [xsa_F_state]
    split
    · rfl
    · rename_i hvi
      exact hl v hv hg hvi
  have lastR : allC w.wg (x.sw.map (xsa_F i g)) → xsa_last x w i := by
    intro ha u hu hg hne
    have := ha _ (memF u hu) (by rw [xsa_F_wg]; exact hg)
    rw [xsa_F_state, if_neg hne] at this
    exact this
  refine ⟨ids_map h.sids _ (xsa_F_id i g), ?_, hnd, ?_, ?_, ?_, ?_, ?_, ?_, ?_⟩
  · -- sst
    intro v' hv'
    obtain ⟨v, hv, rfl⟩ := mem' v' hv'
    rw [xsa_F_state]
    split
    · exact Or.inr rfl
    · exact h.sst v hv
  · -- evmem
    intro j hj
    by_cases hji : j = i
    · exact ⟨_, memF w hw, by rw [xsa_F_id, hid, hji]⟩
    · obtain ⟨v, hv, e⟩ := h.evmem j ((hold j hji).mp hj)
      exact ⟨_, memF v hv, by rw [xsa_F_id, e]⟩
  · -- owes
    intro v' hv' hs
    obtain ⟨v, hv, rfl⟩ := mem' v' hv'
    rw [xsa_F_state] at hs
    rw [xsa_F_id]
    by_cases hvi : v.id = i
    · rw [if_pos hvi] at hs; cases hs
    · rw [if_neg hvi] at hs
      exact (hold _ hvi).mpr (h.owes v hv hs)
  · -- retry
    intro v' hv' hs hq
    obtain ⟨v, hv, rfl⟩ := mem' v' hv'
    rw [xsa_F_id] at hq
    rw [xsa_F_wg]
    by_cases hvi : v.id = i
    · obtain ⟨hl, hn⟩ := hqi (hvi ▸ hq)
      rw [hidw v hv hvi]
      exact ⟨lastC hl, hn⟩
    · rw [xsa_F_state, if_neg hvi] at hs
      have hq' := (hold _ hvi).mp hq
      have hr := h.retry v hv hs hq'
      have hne : v.wg ≠ w.wg := fun e => hvi ((hQ v hv e hs hq') ▸ hid)
      exact ⟨mono _ hr.1, fun hin => (hnew _ hin).elim hr.2 (fun hh => hne hh.1)⟩
  · -- retry1
    intro u' hu' v' hv' hsu hsv hqu hqv hwg
    obtain ⟨u, hu, rfl⟩ := mem' u' hu'
    obtain ⟨v, hv, rfl⟩ := mem' v' hv'
    rw [xsa_F_id] at hqu hqv
    rw [xsa_F_wg, xsa_F_wg] at hwg
    by_cases hui : u.id = i
    · by_cases hvi : v.id = i
      · rw [hidw u hu hui, hidw v hv hvi]
      · rw [xsa_F_state, if_neg hvi] at hsv
        have e : v.wg = w.wg := by rw [← hwg, hidw u hu hui]
        have := hQ v hv e hsv ((hold _ hvi).mp hqv)
        exact absurd (this ▸ hid) hvi
    · rw [xsa_F_state, if_neg hui] at hsu
      by_cases hvi : v.id = i
      · have e : u.wg = w.wg := by rw [hwg, hidw v hv hvi]
        have := hQ u hu e hsu ((hold _ hui).mp hqu)
        exact absurd (this ▸ hid) hui
      · rw [xsa_F_state, if_neg hvi] at hsv
        rw [h.retry1 u hu v hv hsu hsv ((hold _ hui).mp hqu) ((hold _ hvi).mp hqv) hwg]
  · -- sentS
    intro v' hv' hin
    obtain ⟨v, hv, rfl⟩ := mem' v' hv'
    rw [xsa_F_wg] at hin ⊢
    rcases hnew _ hin with ho | ⟨e, hl⟩
    · exact mono _ (h.sentS v hv ho)
    · rw [e]; exact lastC hl
  · -- done
    intro v' hv' ha
    obtain ⟨v, hv, rfl⟩ := mem' v' hv'
    rw [xsa_F_wg] at ha ⊢
    by_cases e : v.wg = w.wg
    · rw [e] at ha ⊢
      rcases hlast (lastR ha) with hh | hh
      · exact Or.inl hh
      · exact Or.inr ⟨_, memF w hw, xsa_F_wg i g w, by rw [xsa_F_id, hid]; exact hh⟩
    · rcases h.done v hv (back _ ha e) with hh | ⟨u, hu, hug, huq⟩
      · exact Or.inl (hmono _ hh)
      · have hne : u.id ≠ i := fun hh => e (by rw [← hug, hidw u hu hh])
        exact Or.inr ⟨_, memF u hu, by rw [xsa_F_wg]; exact hug, by rw [xsa_F_id]; exact (hold _ hne).mpr huq⟩
  · -- disj
    intro u hu v' hv'
    obtain ⟨v, hv, rfl⟩ := mem' v' hv'
    rw [xsa_F_wg]
    exact h.disj u (hwfs ▸ hu) v hv

theorem XInit_SInv {x : XState} (h : XInit x) : SInv x := by
  have hsam : ∀ w ∈ x.sw, w.state ≠ .completed := fun w hw hc => by
    rw [(h.sst w hw).1] at hc; cases hc
  refine ⟨h.sids, fun w hw => Or.inl (h.sst w hw).1, ?_, ?_, ?_, ?_, ?_, ?_, ?_, h.disj⟩
  · rw [h.ev]
    exact List.pairwise_map.mpr h.sids
  · intro i hi
    rw [h.ev] at hi
    obtain ⟨w, hw, e⟩ := List.mem_map.mp hi
    exact ⟨w, hw, e⟩
  · intro w hw _
    rw [h.ev]
    exact List.mem_map.mpr ⟨w, hw, rfl⟩
  · intro w hw hc
    exact absurd hc (hsam w hw)
  · intro u hu w hw hc
    exact absurd hc (hsam u hu)
  · intro w hw hin
    rw [h.sent] at hin
    cases hin
  · intro w hw ha
    exact absurd (ha w hw rfl) (hsam w hw)

/-- handling an event touches nothing of the scheduler but the port and the log -/
theorem fire_frame (c : Cfg) (x : XState) (i : Nat) :
    (fireS c x i).1.s.wfs = x.s.wfs ∧ (fireS c x i).1.s.exec = x.s.exec ∧
    (fireS c x i).1.s.buf = x.s.buf ∧ (fireS c x i).1.s.fault = x.s.fault :=
  ⟨rfl, rfl, rfl, rfl⟩

theorem xsa_wfComp_sent (c : Cfg) (s : State) (i : Nat) :
    (wfComp c s i).1.sent = s.sent ∨ ∃ g, (wfComp c s i).1.sent = s.sent ++ [g] := by
  unfold wfComp
  split
  · exact Or.inl rfl
  · simp only
    split
    · split
      · exact Or.inr ⟨_, rfl⟩
      · exact Or.inl rfl
    · exact Or.inl rfl

theorem fire_sent_mono (c : Cfg) (x : XState) (i : Nat) {g : Nat} (h : g ∈ x.s.sent) :
    g ∈ (fireS c x i).1.s.sent := by
  show g ∈ (wfComp c { x.s with wfs := x.sw } i).1.sent
  rcases xsa_wfComp_sent c { x.s with wfs := x.sw } i with e | ⟨k, e⟩
  · rw [e]; exact h
  · rw [e]; exact List.mem_append_left _ h

theorem xsa_evq_erase {x : XState} {i : Nat} (h : SInv x) :
    (x.evq.erase i).Nodup ∧ (∀ j, j ≠ i → (j ∈ x.evq.erase i ↔ j ∈ x.evq)) ∧ i ∉ x.evq.erase i := by
  refine ⟨h.evnd.erase i, fun j hj => List.mem_erase_of_ne hj, fun hin => ?_⟩
  exact (h.evnd.mem_erase_iff.mp hin).1 rfl

theorem xsa_evq_again {x : XState} {i : Nat} (h : SInv x) :
    (x.evq.erase i ++ [i]).Nodup ∧ (∀ j, j ≠ i → (j ∈ x.evq.erase i ++ [i] ↔ j ∈ x.evq)) ∧
    i ∈ x.evq.erase i ++ [i] := by
  obtain ⟨h1, h2, h3⟩ := xsa_evq_erase (i := i) h
  refine ⟨?_, ?_, List.mem_append_right _ (List.mem_singleton.mpr rfl)⟩
  · rw [List.nodup_append]
    refine ⟨h1, (by simp : [i].Nodup), ?_⟩
    intro a ha b hb
    rw [List.mem_singleton] at hb
    intro e
    have hai : a = i := e.trans hb
    exact h3 (hai ▸ ha)
  · intro j hj
    rw [List.mem_append, List.mem_singleton]
    constructor
    · rintro (hh | hh)
      · exact (h2 j hj).mp hh
      · exact absurd hh hj
    · intro hh
      exact Or.inl ((h2 j hj).mpr hh)

theorem fire_SInv {c : Cfg} {x : XState} {i : Nat} (h : SInv x) (hi : i ∈ x.evq) :
    SInv (fireS c x i).1 := by
  obtain ⟨w, hw, hid⟩ := h.evmem i hi
  obtain ⟨hns, _, _⟩ := xsa_pre h hi hw hid
  rcases xsa_fire_cases c x i w h.sids hw hid with ⟨hl, e⟩ | ⟨hl, _, e⟩ | ⟨hl, _, e⟩
  · rw [e]
    obtain ⟨h1, h2, h3⟩ := xsa_evq_erase (i := i) h
    exact xsa_post h hi hw hid none x.s _ rfl (fun _ hk => hk) (fun _ hk => Or.inl hk) h1 h2
      (fun hh => absurd hh h3) (fun hh => absurd hh hl)
  · rw [e]
    obtain ⟨h1, h2, h3⟩ := xsa_evq_erase (i := i) h
    refine xsa_post h hi hw hid (some w.wg) _ _ rfl (fun _ hk => List.mem_append_left _ hk) ?_ h1 h2
      (fun hh => absurd hh h3) (fun _ => Or.inl (List.mem_append_right _ (List.mem_singleton.mpr rfl)))
    intro k hk
    rcases List.mem_append.mp hk with hh | hh
    · exact Or.inl hh
    · exact Or.inr ⟨List.mem_singleton.mp hh, hl⟩
  · rw [e]
    obtain ⟨h1, h2, h3⟩ := xsa_evq_again (i := i) h
    exact xsa_post h hi hw hid none x.s _ rfl (fun _ hk => hk) (fun _ hk => Or.inl hk) h1 h2
      (fun _ => ⟨hl, hns⟩) (fun _ => Or.inr h3)

theorem fire_CInv {c : Cfg} {x : XState} {i : Nat} (h : SInv x) (hc : CInv x.s) (hi : i ∈ x.evq) :
    CInv (fireS c x i).1.s := by
  obtain ⟨w, hw, hid⟩ := h.evmem i hi
  obtain ⟨hns, _, _⟩ := xsa_pre h hi hw hid
  rcases xsa_fire_cases c x i w h.sids hw hid with ⟨_, e⟩ | ⟨_, _, e⟩ | ⟨_, _, e⟩
  · rw [e]; exact hc
  · rw [e]
    refine ⟨?_, ?_⟩
    · show (x.s.sent ++ [w.wg]).Nodup
      rw [List.nodup_append]
      refine ⟨hc.1, (by simp : [w.wg].Nodup), ?_⟩
      intro a ha b hb e'
      rw [List.mem_singleton] at hb
      have hai : a = w.wg := e'.trans hb
      exact hns (hai ▸ ha)
    · intro g hg
      show allC g x.s.wfs
      rcases List.mem_append.mp hg with hh | hh
      · exact hc.2 g hh
      · rw [List.mem_singleton.mp hh]
        intro v hv hg'
        exact absurd hg' (h.disj v hv w hw)
  · rw [e]; exact hc

theorem fire_DInv {c : Cfg} {x : XState} {i : Nat} (hd : DInv x.s) : DInv (fireS c x i).1.s := by
  intro v hv ha
  exact fire_sent_mono c x i (hd v hv ha)

/-- the scheduler's own events and a flush leave the sampled groups alone -/
theorem SInv_frame {x : XState} {s' : State} (h : SInv x)
    (hsent : ∀ g ∈ s'.sent, g ∈ x.s.sent ∨ ∃ w ∈ x.s.wfs, w.wg = g)
    (hmono : ∀ g ∈ x.s.sent, g ∈ s'.sent)
    (hwg : ∀ u' ∈ s'.wfs, ∃ u ∈ x.s.wfs, u'.wg = u.wg) : SInv { x with s := s' } := by
  have hold : ∀ w ∈ x.sw, w.wg ∈ s'.sent → w.wg ∈ x.s.sent := by
    intro w hw hin
    rcases hsent _ hin with hh | ⟨u, hu, e⟩
    · exact hh
    · exact absurd e (h.disj u hu w hw)
  refine ⟨h.sids, h.sst, h.evnd, h.evmem, h.owes, ?_, h.retry1, ?_, ?_, ?_⟩
  · intro w hw hc hq
    have hr := h.retry w hw hc hq
    exact ⟨hr.1, fun hin => hr.2 (hold w hw hin)⟩
  · intro w hw hin
    exact h.sentS w hw (hold w hw hin)
  · intro w hw ha
    rcases h.done w hw ha with hh | hh
    · exact Or.inl (hmono _ hh)
    · exact Or.inr hh
  · intro u' hu' v hv
    obtain ⟨u, hu, e⟩ := hwg u' hu'
    show u'.wg ≠ v.wg
    rw [e]
    exact h.disj u hu v hv

/-! ## consequences -/

/-- once the engine holds no event of the group any more, the group has been reported -/
theorem sampled_quiescent_reported {x : XState} (h : SInv x) :
    ∀ w ∈ x.sw, (∀ u ∈ x.sw, u.wg = w.wg → u.id ∉ x.evq) → w.wg ∈ x.s.sent := by
  intro w hw hq
  have ha : allC w.wg x.sw := by
    intro u hu hg
    rcases h.sst u hu with hs | hs
    · exact absurd (h.owes u hu hs) (hq u hu hg)
    · exact hs
  rcases h.done w hw ha with hh | ⟨u, hu, hg, hin⟩
  · exact hh
  · exact absurd hin (hq u hu hg)

/-- an event handled while the port has room is not scheduled again -/
theorem fire_room_no_reschedule (c : Cfg) (x : XState) (i : Nat) (hroom : x.s.out.length < c.aceCap) :
    (fireS c x i).2 = false := by
  show (wfComp c { x.s with wfs := x.sw } i).2 = false
  unfold wfComp
  split
  · rfl
  · simp only
    split <;> first | rfl | (split <;> first | rfl | (rename_i hr; exact absurd hroom hr))

/-- the queue of events: one fewer after a handling that was not re-scheduled, the same otherwise -/
theorem fire_evq_length (c : Cfg) (x : XState) (i : Nat) (hi : i ∈ x.evq) :
    (fireS c x i).1.evq.length = if (fireS c x i).2 then x.evq.length else x.evq.length - 1 := by
  have e : (fireS c x i).1.evq = x.evq.erase i ++ (if (fireS c x i).2 then [i] else []) := rfl
  rw [e]
  have hpos := List.length_pos_of_mem hi
  cases (fireS c x i).2
  · simp [List.length_erase_of_mem hi]
  · simp [List.length_erase_of_mem hi]
    omega

/-- a message enters the log only in the handling of an event of a wavefront of that group, and
    only when the whole group has ended -/
theorem fire_sends_only_last {c : Cfg} {x : XState} {i : Nat} (h : SInv x) (hi : i ∈ x.evq) :
    ∀ g, g ∈ (fireS c x i).1.s.sent → g ∉ x.s.sent →
      (∃ w ∈ x.sw, w.id = i ∧ w.wg = g) ∧ allC g (fireS c x i).1.sw ∧
      (fireS c x i).1.s.sent = x.s.sent ++ [g] := by
  intro g
  have hS := fire_SInv (c := c) h hi
  obtain ⟨w, hw, hid⟩ := h.evmem i hi
  rcases xsa_fire_cases c x i w h.sids hw hid with ⟨_, e⟩ | ⟨_, _, e⟩ | ⟨_, _, e⟩
  · rw [e]; intro hg hn; exact absurd hg hn
  · rw [e] at hS ⊢
    intro hg hn
    have hgw : g = w.wg := by
      rcases List.mem_append.mp hg with hh | hh
      · exact absurd hh hn
      · exact List.mem_singleton.mp hh
    subst hgw
    refine ⟨⟨w, hw, hid, rfl⟩, ?_, rfl⟩
    have := hS.sentS (xsa_F i (some w.wg) w) (List.mem_map_of_mem hw)
      (by rw [xsa_F_wg]; exact List.mem_append_right _ (List.mem_singleton.mpr rfl))
    rw [xsa_F_wg] at this
    exact this
  · rw [e]; intro hg hn; exact absurd hg hn

/-- with room in the port, the event that ends the last wavefront of a group (or the retry)
    reports the group in that very handling -/
theorem fire_last_with_room_reports {c : Cfg} {x : XState} {i : Nat} {w : Wf} (h : SInv x) (hi : i ∈ x.evq)
    (hw : w ∈ x.sw) (hid : w.id = i) (hroom : x.s.out.length < c.aceCap)
    (hoth : ∀ u ∈ x.sw, u.wg = w.wg → u.id ≠ i → u.state = .completed) :
    w.wg ∈ (fireS c x i).1.s.sent := by
  have _ := hi
  rcases xsa_fire_cases c x i w h.sids hw hid with ⟨hl, _⟩ | ⟨_, _, e⟩ | ⟨_, hr, _⟩
  · exact absurd hoth hl
  · rw [e]
    exact List.mem_append_right _ (List.mem_singleton.mpr rfl)
  · exact absurd hroom hr

end C14
