import MgpuModel.C10
/-! Helper lemmas for property C10 (allocator invariant). -/
namespace C10

/-! ### lookup tables (head insertion, first match) -/

theorem lookup_cons_eq {α : Type} (l : List (Nat × α)) (k : Nat) (a : α) : lookup ((k, a) :: l) k = some a := by
  simp [lookup, List.find?]

theorem lookup_cons_ne {α : Type} (l : List (Nat × α)) (k k' : Nat) (a : α) (h : k ≠ k') :
    lookup ((k, a) :: l) k' = lookup l k' := by
  have : (k == k') = false := by simp [h]
  simp [lookup, List.find?, this]

theorem inj_of_nodup_map {α β : Type} {f : α → β} : ∀ {l : List α}, (l.map f).Nodup → ∀ {a b : α}, a ∈ l → b ∈ l → f a = f b → a = b := by
  intro l
  induction l with
  | nil => intro _ a b ha; simp at ha
  | cons x xs ih =>
    intro h a b ha hb hab
    simp only [List.map_cons, List.nodup_cons] at h
    rcases List.mem_cons.mp ha with rfl | ha' <;> rcases List.mem_cons.mp hb with rfl | hb'
    · rfl
    · exact absurd (hab ▸ List.mem_map_of_mem hb') h.1
    · exact absurd (hab ▸ List.mem_map_of_mem ha') h.1
    · exact ih h.2 ha' hb' hab

/-! ### page table -/

def key (p : Page) : Nat × Nat := (p.pid, p.vaddr)

theorem ptFind_none {pt : List Page} {pid v : Nat} (h : ptFind pt pid v = none) :
    ∀ q ∈ pt, ¬ (q.pid = pid ∧ q.vaddr = v) := by
  intro q hq hk
  have := List.find?_eq_none.mp h q hq
  simp [hk.1, hk.2] at this

theorem ptFind_some {pt : List Page} {pid v : Nat} {e : Page} (h : ptFind pt pid v = some e) :
    e ∈ pt ∧ e.pid = pid ∧ e.vaddr = v := by
  have h1 := List.mem_of_find?_eq_some h
  have h2 := List.find?_some h
  simp at h2
  exact ⟨h1, h2.1, h2.2⟩

/-- replacing the entry with key `(pid, v)` -/
def upd (pg : Page) (q : Page) : Page := if q.pid == pg.pid && q.vaddr == pg.vaddr then pg else q

theorem upd_key (pg q : Page) : key (upd pg q) = key q := by
  unfold upd
  split
  · rename_i h; simp at h; simp [key, h.1, h.2]
  · rfl

theorem upd_cases (pg q : Page) : (upd pg q = pg ∧ q.pid = pg.pid ∧ q.vaddr = pg.vaddr) ∨ (upd pg q = q ∧ ¬ (q.pid = pg.pid ∧ q.vaddr = pg.vaddr)) := by
  unfold upd
  split
  · rename_i h; simp at h; exact Or.inl ⟨rfl, h.1, h.2⟩
  · rename_i h; simp at h; exact Or.inr ⟨rfl, fun hh => h hh.1 hh.2⟩

theorem map_upd_keys (pg : Page) (pt : List Page) : (pt.map (upd pg)).map key = pt.map key := by
  simp [List.map_map, Function.comp_def, upd_key]

theorem mem_map_upd {pg : Page} {pt : List Page} {x : Page} (h : x ∈ pt.map (upd pg)) : x = pg ∨ x ∈ pt := by
  obtain ⟨q, hq, rfl⟩ := List.mem_map.mp h
  rcases upd_cases pg q with ⟨h1, _⟩ | ⟨h1, _⟩
  · exact Or.inl h1
  · rw [h1]; exact Or.inr hq

theorem map_upd_of_no_key (pg : Page) (pt : List Page) (h : ∀ q ∈ pt, ¬ (q.pid = pg.pid ∧ q.vaddr = pg.vaddr)) :
    pt.map (upd pg) = pt := by
  induction pt with
  | nil => rfl
  | cons q qs ih =>
    have hq := h q (List.mem_cons_self ..)
    rcases upd_cases pg q with ⟨_, h2, h3⟩ | ⟨h1, _⟩
    · exact absurd ⟨h2, h3⟩ hq
    · simp only [List.map_cons, h1]
      rw [ih (fun q' hq' => h q' (List.mem_cons_of_mem _ hq'))]

theorem nodup_map_upd_paddr (pg : Page) (pt : List Page)
    (hk : (pt.map key).Nodup) (hp : (pt.map (·.paddr)).Nodup) (hnew : pg.paddr ∉ pt.map (·.paddr)) :
    ((pt.map (upd pg)).map (·.paddr)).Nodup := by
  induction pt with
  | nil => simp
  | cons q qs ih =>
    simp only [List.map_cons, List.nodup_cons] at hk hp
    have hnew' : pg.paddr ∉ qs.map (·.paddr) := fun h => hnew (by simp only [List.map_cons]; exact List.mem_cons_of_mem _ h)
    have hq : q.paddr ≠ pg.paddr := fun h => hnew (by simp [h])
    rcases upd_cases pg q with ⟨h1, h2, h3⟩ | ⟨h1, _⟩
    · -- q is replaced; nobody else has this key
      have hno : ∀ q' ∈ qs, ¬ (q'.pid = pg.pid ∧ q'.vaddr = pg.vaddr) := by
        intro q' hq' hh
        apply hk.1
        have : key q' = key q := by simp [key, hh.1, hh.2, h2, h3]
        rw [← this]; exact List.mem_map_of_mem hq'
      simp only [List.map_cons, h1, map_upd_of_no_key pg qs hno, List.nodup_cons]
      exact ⟨hnew', hp.2⟩
    · simp only [List.map_cons, h1, List.nodup_cons]
      refine ⟨?_, ih hk.2 hp.2 hnew'⟩
      intro hmem
      obtain ⟨x, hx, hxe⟩ := List.mem_map.mp hmem
      rcases mem_map_upd hx with rfl | hx'
      · exact hq hxe.symm
      · exact hp.1 (hxe ▸ List.mem_map_of_mem hx')

/-! ### devices -/

theorem devOfFrom_spec : ∀ (devs : List Dev) (i p j : Nat), devOfFrom devs i p = some j →
    ∃ d, devs[j - i]? = some d ∧ i ≤ j ∧ d.base ≤ p ∧ p < d.base + d.size := by
  intro devs
  induction devs with
  | nil => intro i p j h; simp [devOfFrom] at h
  | cons d ds ih =>
    intro i p j h
    simp only [devOfFrom] at h
    split at h
    · rename_i hr
      injection h with h; subst h
      simp [inRange] at hr
      exact ⟨d, by simp, Nat.le_refl _, hr.1, hr.2⟩
    · obtain ⟨d', h1, h2, h3, h4⟩ := ih (i + 1) p j h
      refine ⟨d', ?_, by omega, h3, h4⟩
      have : j - i = (j - (i + 1)) + 1 := by omega
      rw [this]; simpa using h1

theorem devOf_spec {devs : List Dev} {p j : Nat} (h : devOf devs p = some j) :
    ∃ d, devs[j]? = some d ∧ d.base ≤ p ∧ p < d.base + d.size := by
  obtain ⟨d, h1, _, h3, h4⟩ := devOfFrom_spec devs 0 p j h
  exact ⟨d, by simpa using h1, h3, h4⟩

/-- a page-aligned address inside a page-aligned range has its whole page inside -/
theorem page_inside {ps p b sz : Nat} (h1 : ps ∣ p) (h2 : ps ∣ b) (h3 : ps ∣ sz)
    (hb : b ≤ p) (he : p < b + sz) : p + ps ≤ b + sz := by
  obtain ⟨x, rfl⟩ := h1
  obtain ⟨y, rfl⟩ := h2
  obtain ⟨z, rfl⟩ := h3
  rw [← Nat.mul_add] at he
  have hps : 0 < ps := by
    rcases Nat.eq_zero_or_pos ps with h | h
    · subst h; simp at he
    · exact h
  have : x < y + z := Nat.lt_of_mul_lt_mul_left he
  calc ps * x + ps = ps * (x + 1) := by rw [Nat.mul_add, Nat.mul_one]
    _ ≤ ps * (y + z) := Nat.mul_le_mul_left _ this
    _ = ps * y + ps * z := Nat.mul_add ..

/-! ### taking pages out of the free lists -/

theorem popAt_spec {frees : List (List Nat)} {j p : Nat} {fr : List (List Nat)}
    (h : popAt frees j = some (p, fr)) : ∃ fs, frees[j]? = some (p :: fs) ∧ fr = frees.set j fs := by
  unfold popAt at h
  split at h
  · rename_i p' fs heq
    injection h with h
    obtain ⟨rfl, rfl⟩ := Prod.mk.inj h
    exact ⟨fs, heq, rfl⟩
  · simp at h

theorem flatten_set_perm : ∀ (frees : List (List Nat)) (j p : Nat) (fs : List Nat),
    frees[j]? = some (p :: fs) → frees.flatten.Perm (p :: (frees.set j fs).flatten) := by
  intro frees
  induction frees with
  | nil => intro j p fs h; simp at h
  | cons l ls ih =>
    intro j p fs h
    cases j with
    | zero =>
      simp at h; subst h
      simp
    | succ j =>
      simp at h
      have := ih j p fs h
      simp only [List.set_cons_succ, List.flatten_cons]
      exact (List.Perm.append_left l this).trans List.perm_middle

theorem flatten_modify_perm : ∀ (frees : List (List Nat)) (d p : Nat), d < frees.length →
    (frees.modify d (· ++ [p])).flatten.Perm (p :: frees.flatten) := by
  intro frees
  induction frees with
  | nil => intro d p h; simp at h
  | cons l ls ih =>
    intro d p h
    cases d with
    | zero =>
      simp only [List.modify_zero_cons, List.flatten_cons, List.append_assoc, List.singleton_append]
      exact List.perm_middle
    | succ d =>
      simp only [List.modify_succ_cons, List.flatten_cons]
      have := ih d p (by simpa using h)
      exact (List.Perm.append_left l this).trans List.perm_middle

/-- `fr'` results from `fr` by removing the pages `taken` from some of its lists -/
structure Took (fr fr' : List (List Nat)) (taken : List Nat) : Prop where
  perm : fr.flatten.Perm (taken ++ fr'.flatten)
  len : fr'.length = fr.length
  sub : ∀ (i : Nat) (fl' : List Nat), fr'[i]? = some fl' → ∃ fl, fr[i]? = some fl ∧ ∀ p ∈ fl', p ∈ fl

theorem Took.refl (fr : List (List Nat)) : Took fr fr [] :=
  ⟨by simp, rfl, fun i fl' h => ⟨fl', h, fun _ hp => hp⟩⟩

theorem Took.pop {fr : List (List Nat)} {j p : Nat} {fs : List Nat} (h : fr[j]? = some (p :: fs)) :
    Took fr (fr.set j fs) [p] := by
  refine ⟨flatten_set_perm fr j p fs h, by simp, ?_⟩
  intro i fl' hi
  by_cases hij : j = i
  · subst hij
    have hlt : j < fr.length := by
      rcases Nat.lt_or_ge j fr.length with hl | hl
      · exact hl
      · simp [List.getElem?_eq_none hl] at h
    rw [List.getElem?_set_self hlt] at hi
    injection hi with hi; subst hi
    exact ⟨p :: fs, h, fun q hq => List.mem_cons_of_mem _ hq⟩
  · rw [List.getElem?_set_ne hij] at hi
    exact ⟨fl', hi, fun _ hq => hq⟩

theorem Took.trans {a b c : List (List Nat)} {t1 t2 : List Nat} (h1 : Took a b t1) (h2 : Took b c t2) :
    Took a c (t1 ++ t2) := by
  refine ⟨?_, h2.len.trans h1.len, ?_⟩
  · have := h1.perm.trans (List.Perm.append_left t1 h2.perm)
    simpa [List.append_assoc] using this
  · intro i fl' hi
    obtain ⟨fl, hfl, hs⟩ := h2.sub i fl' hi
    obtain ⟨fl0, hfl0, hs0⟩ := h1.sub i fl hfl
    exact ⟨fl0, hfl0, fun p hp => hs0 p (hs p hp)⟩

theorem Took.src {fr fr' : List (List Nat)} {t : List Nat} (h : Took fr fr' t) :
    ∀ p ∈ t, ∃ (i : Nat) (fl : List Nat), fr[i]? = some fl ∧ p ∈ fl := by
  intro p hp
  have : p ∈ fr.flatten := h.perm.mem_iff.mpr (List.mem_append_left _ hp)
  obtain ⟨fl, hfl, hpfl⟩ := List.mem_flatten.mp this
  obtain ⟨i, hi⟩ := List.mem_iff_getElem?.mp hfl
  exact ⟨i, fl, hi, hpfl⟩

theorem allocPage_took {devs : List Dev} {pool pool' : Pool} {d p : Nat}
    (h : allocPage devs pool d = .ok (p, pool')) : Took pool.frees pool'.frees [p] := by
  unfold allocPage at h
  split at h
  · simp at h
  · split at h
    · dsimp only at h
      split at h
      · simp at h
      · split at h
        · simp at h
        · rename_i hpop
          injection h with h
          obtain ⟨rfl, rfl⟩ := Prod.mk.inj h
          obtain ⟨fs, h1, rfl⟩ := popAt_spec hpop
          exact Took.pop h1
    · split at h
      · simp at h
      · rename_i hpop
        injection h with h
        obtain ⟨rfl, rfl⟩ := Prod.mk.inj h
        obtain ⟨fs, h1, rfl⟩ := popAt_spec hpop
        exact Took.pop h1

/-- on a non-unified device the page comes from that device's own list -/
theorem allocPage_own {devs : List Dev} {pool pool' : Pool} {d p : Nat} {dv : Dev}
    (hd : devs[d]? = some dv) (hk : dv.kind ≠ .unified)
    (h : allocPage devs pool d = .ok (p, pool')) : ∃ fl, pool.frees[d]? = some fl ∧ p ∈ fl := by
  unfold allocPage at h
  rw [hd] at h
  simp only [hk, if_false] at h
  split at h
  · simp at h
  · rename_i hpop
    injection h with h
    obtain ⟨rfl, rfl⟩ := Prod.mk.inj h
    obtain ⟨fs, h1, _⟩ := popAt_spec hpop
    exact ⟨_, h1, List.mem_cons_self ..⟩

theorem popN_took : ∀ (n : Nat) (fr : List (List Nat)) (j : Nat) (ps : List Nat) (fr' : List (List Nat)),
    popN fr j n = .ok (ps, fr') → Took fr fr' ps ∧ ps.length = n := by
  intro n
  induction n with
  | zero =>
    intro fr j ps fr' h
    simp [popN] at h
    obtain ⟨rfl, rfl⟩ := h
    exact ⟨Took.refl _, rfl⟩
  | succ n ih =>
    intro fr j ps fr' h
    simp only [popN] at h
    split at h
    · simp at h
    · rename_i p fr1 hpop
      split at h
      · simp at h
      · rename_i ps1 fr2 hrec
        injection h with h
        obtain ⟨rfl, rfl⟩ := Prod.mk.inj h
        obtain ⟨fs, h1, rfl⟩ := popAt_spec hpop
        obtain ⟨t, hl⟩ := ih _ _ _ _ hrec
        exact ⟨(Took.pop h1).trans t, by simp [hl]⟩

theorem allocMulti_took {devs : List Dev} {pool pool' : Pool} {d n : Nat} {ps : List Nat}
    (h : allocMulti devs pool d n = .ok (ps, pool')) : Took pool.frees pool'.frees ps ∧ ps.length = n := by
  unfold allocMulti at h
  split at h
  · simp at h
  · split at h
    · dsimp only at h
      split at h
      · simp at h
      · split at h
        · simp at h
        · split at h
          · simp at h
          · rename_i hrec
            injection h with h
            obtain ⟨rfl, rfl⟩ := Prod.mk.inj h
            exact popN_took _ _ _ _ _ hrec
    · split at h
      · simp at h
      · split at h
        · simp at h
        · rename_i hrec
          injection h with h
          obtain ⟨rfl, rfl⟩ := Prod.mk.inj h
          exact popN_took _ _ _ _ _ hrec

/-! ### the physical invariant -/

/-- The physical part of the property's invariant, on the components it mentions. -/
structure PInv (ps : Nat) (devs : List Dev) (frees : List (List Nat)) (pt : List Page) : Prop where
  pspos : 0 < ps
  len : frees.length = devs.length
  devAligned : ∀ d ∈ devs, ps ∣ d.base ∧ ps ∣ d.size
  freeNodup : frees.flatten.Nodup
  liveNodup : (pt.map (·.paddr)).Nodup
  disj : ∀ p ∈ frees.flatten, p ∉ pt.map (·.paddr)
  keyNodup : (pt.map key).Nodup
  palign : ∀ pg ∈ pt, ps ∣ pg.paddr
  inDev : ∀ pg ∈ pt, ∃ d, devs[pg.dev]? = some d ∧ d.base ≤ pg.paddr ∧ pg.paddr + ps ≤ d.base + d.size
  freeInDev : ∀ (i : Nat) (fl : List Nat), frees[i]? = some fl → ∀ p ∈ fl,
    ps ∣ p ∧ ∃ d, devs[i]? = some d ∧ d.base ≤ p ∧ p + ps ≤ d.base + d.size

/-- facts about a page just taken from the free lists -/
theorem PInv.taken {ps : Nat} {devs : List Dev} {fr fr' : List (List Nat)} {pt : List Page} {p : Nat}
    (h : PInv ps devs fr pt) (ht : Took fr fr' [p]) :
    fr'.flatten.Nodup ∧ p ∉ fr'.flatten ∧ p ∉ pt.map (·.paddr) ∧ ps ∣ p ∧
    (∀ q ∈ fr'.flatten, q ∈ fr.flatten) ∧
    (∀ dev, devOf devs p = some dev → ∃ d, devs[dev]? = some d ∧ d.base ≤ p ∧ p + ps ≤ d.base + d.size) := by
  have hperm : fr.flatten.Perm (p :: fr'.flatten) := by simpa using ht.perm
  have hnd := (hperm.nodup_iff).mp h.freeNodup
  have hpin : p ∈ fr.flatten := hperm.mem_iff.mpr (List.mem_cons_self ..)
  obtain ⟨i, fl, hi, hpfl⟩ := ht.src p (List.mem_cons_self ..)
  have hal := (h.freeInDev i fl hi p hpfl).1
  refine ⟨(List.nodup_cons.mp hnd).2, (List.nodup_cons.mp hnd).1, h.disj p hpin, hal, ?_, ?_⟩
  · intro q hq; exact hperm.mem_iff.mpr (List.mem_cons_of_mem _ hq)
  · intro dev hdev
    obtain ⟨d, h1, h2, h3⟩ := devOf_spec hdev
    have hda := h.devAligned d (List.mem_of_getElem? h1)
    exact ⟨d, h1, h2, page_inside hal hda.1 hda.2 h2 h3⟩

theorem PInv.freeInDev_took {ps : Nat} {devs : List Dev} {fr fr' : List (List Nat)} {pt : List Page} {t : List Nat}
    (h : PInv ps devs fr pt) (ht : Took fr fr' t) :
    ∀ (i : Nat) (fl : List Nat), fr'[i]? = some fl → ∀ p ∈ fl, ps ∣ p ∧ ∃ d, devs[i]? = some d ∧ d.base ≤ p ∧ p + ps ≤ d.base + d.size := by
  intro i fl' hi p hp
  obtain ⟨fl, hfl, hs⟩ := ht.sub i fl' hi
  exact h.freeInDev i fl hfl p (hs p hp)

/-- (A) a page taken from the free lists is mapped at a fresh key -/
theorem PInv.insert {ps : Nat} {devs : List Dev} {fr fr' : List (List Nat)} {pt : List Page} {pg : Page}
    (h : PInv ps devs fr pt) (ht : Took fr fr' [pg.paddr]) (hdev : devOf devs pg.paddr = some pg.dev)
    (hfresh : ptFind pt pg.pid pg.vaddr = none) : PInv ps devs fr' (pt ++ [pg]) := by
  obtain ⟨t1, t2, t3, t4, t5, t6⟩ := h.taken ht
  refine ⟨h.pspos, ht.len.trans h.len, h.devAligned, t1, ?_, ?_, ?_, ?_, ?_, h.freeInDev_took ht⟩
  · rw [List.map_append, List.nodup_append]
    refine ⟨h.liveNodup, by simp, ?_⟩
    intro a ha b hb
    simp at hb; subst hb
    intro hab; subst hab; exact t3 ha
  · intro q hq
    rw [List.map_append, List.mem_append, not_or]
    refine ⟨h.disj q (t5 q hq), ?_⟩
    simp
    intro hqp; subst hqp; exact t2 hq
  · rw [List.map_append, List.nodup_append]
    refine ⟨h.keyNodup, by simp, ?_⟩
    intro a ha b hb
    simp at hb; subst hb
    intro hab; subst hab
    obtain ⟨q, hq, hqk⟩ := List.mem_map.mp ha
    simp [key] at hqk
    exact ptFind_none hfresh q hq hqk
  · intro q hq
    rcases List.mem_append.mp hq with hq | hq
    · exact h.palign q hq
    · simp at hq; subst hq; exact t4
  · intro q hq
    rcases List.mem_append.mp hq with hq | hq
    · exact h.inDev q hq
    · simp at hq; subst hq; exact t6 _ hdev

/-- (B) an existing key is re-pointed to a page taken from the free lists (the old physical page is
not returned: Remap and migration leak it, they never alias it) -/
theorem PInv.update {ps : Nat} {devs : List Dev} {fr fr' : List (List Nat)} {pt : List Page} {pg : Page}
    (h : PInv ps devs fr pt) (ht : Took fr fr' [pg.paddr])
    (hdev : ∃ d, devs[pg.dev]? = some d ∧ d.base ≤ pg.paddr ∧ pg.paddr + ps ≤ d.base + d.size) :
    PInv ps devs fr' (pt.map (upd pg)) := by
  obtain ⟨t1, t2, t3, t4, t5, _⟩ := h.taken ht
  refine ⟨h.pspos, ht.len.trans h.len, h.devAligned, t1, nodup_map_upd_paddr pg pt h.keyNodup h.liveNodup t3, ?_, ?_, ?_, ?_, h.freeInDev_took ht⟩
  · intro q hq hmem
    obtain ⟨x, hx, hxe⟩ := List.mem_map.mp hmem
    rcases mem_map_upd hx with rfl | hx'
    · exact t2 (hxe ▸ hq)
    · exact h.disj q (t5 q hq) (hxe ▸ List.mem_map_of_mem hx')
  · rw [map_upd_keys]; exact h.keyNodup
  · intro q hq
    rcases mem_map_upd hq with rfl | hq'
    · exact t4
    · exact h.palign q hq'
  · intro q hq
    rcases mem_map_upd hq with rfl | hq'
    · exact hdev
    · exact h.inDev q hq'

/-- (E) an entry is rewritten keeping its physical page -/
theorem PInv.rewrite {ps : Nat} {devs : List Dev} {fr : List (List Nat)} {pt : List Page} {pg e : Page}
    (h : PInv ps devs fr pt) (he : e ∈ pt) (hk : e.pid = pg.pid ∧ e.vaddr = pg.vaddr) (hp : pg.paddr = e.paddr)
    (hdev : ∃ d, devs[pg.dev]? = some d ∧ d.base ≤ pg.paddr ∧ pg.paddr + ps ≤ d.base + d.size) :
    PInv ps devs fr (pt.map (upd pg)) := by
  have hpaddr : (pt.map (upd pg)).map (·.paddr) = pt.map (·.paddr) := by
    rw [List.map_map]
    apply List.map_congr_left
    intro q hq
    rcases upd_cases pg q with ⟨h1, h2, h3⟩ | ⟨h1, _⟩
    · simp only [Function.comp, h1, hp]
      -- q and e have the same key, hence are the same entry
      have hkq : key q = key e := by simp [key, h2, h3, hk.1, hk.2]
      have := inj_of_nodup_map h.keyNodup hq he hkq
      rw [this]
    · simp [Function.comp, h1]
  refine ⟨h.pspos, h.len, h.devAligned, h.freeNodup, by rw [hpaddr]; exact h.liveNodup, by rw [hpaddr]; exact h.disj, by rw [map_upd_keys]; exact h.keyNodup, ?_, ?_, h.freeInDev⟩
  · intro q hq
    rcases mem_map_upd hq with rfl | hq'
    · rw [hp]; exact h.palign e he
    · exact h.palign q hq'
  · intro q hq
    rcases mem_map_upd hq with rfl | hq'
    · exact hdev
    · exact h.inDev q hq'

/-- (C) an entry is removed and its physical page is appended to the free list of the device that
contains it -/
theorem PInv.remove {ps : Nat} {devs : List Dev} {fr : List (List Nat)} {pt : List Page} {e : Page} {d : Nat}
    (h : PInv ps devs fr pt) (he : e ∈ pt) (hd : devOf devs e.paddr = some d) :
    PInv ps devs (fr.modify d (· ++ [e.paddr])) (pt.filter fun p => !(p.pid == e.pid && p.vaddr == e.vaddr)) := by
  obtain ⟨dv, hdv, hb, hlt⟩ := devOf_spec hd
  have hdlt : d < fr.length := by
    rw [h.len]
    rcases Nat.lt_or_ge d devs.length with hl | hl
    · exact hl
    · simp [List.getElem?_eq_none hl] at hdv
  have hperm := flatten_modify_perm fr d e.paddr hdlt
  have hsub : (pt.filter fun p => !(p.pid == e.pid && p.vaddr == e.vaddr)).Sublist pt := List.filter_sublist
  have hein : e.paddr ∈ pt.map (·.paddr) := List.mem_map_of_mem he
  have hnotfree : e.paddr ∉ fr.flatten := fun hf => h.disj _ hf hein
  have hgone : e.paddr ∉ (pt.filter fun p => !(p.pid == e.pid && p.vaddr == e.vaddr)).map (·.paddr) := by
    intro hm
    obtain ⟨q, hq, hqe⟩ := List.mem_map.mp hm
    have hq' := List.mem_filter.mp hq
    have : q = e := inj_of_nodup_map h.liveNodup hq'.1 he hqe
    subst this
    simp at hq'
  refine ⟨h.pspos, by simp [h.len], h.devAligned, ?_, (hsub.map _).nodup h.liveNodup, ?_, (hsub.map _).nodup h.keyNodup, ?_, ?_, ?_⟩
  · exact (hperm.nodup_iff).mpr (List.nodup_cons.mpr ⟨hnotfree, h.freeNodup⟩)
  · intro q hq
    rcases List.mem_cons.mp (hperm.mem_iff.mp hq) with rfl | hq'
    · exact hgone
    · intro hm; exact h.disj q hq' ((hsub.map _).subset hm)
  · intro q hq; exact h.palign q (hsub.subset hq)
  · intro q hq; exact h.inDev q (hsub.subset hq)
  · intro i fl hi p hp
    rw [List.getElem?_modify] at hi
    by_cases hdi : d = i
    · subst hdi
      simp only [if_true] at hi
      cases hfr : fr[d]? with
      | none => simp [hfr] at hi
      | some fl0 =>
        simp [hfr] at hi; subst hi
        rcases List.mem_append.mp hp with hp | hp
        · exact h.freeInDev d fl0 hfr p hp
        · simp at hp; subst hp
          have hal := h.palign e he
          have hda := h.devAligned dv (List.mem_of_getElem? hdv)
          exact ⟨hal, dv, hdv, hb, page_inside hal hda.1 hda.2 hb hlt⟩
    · have hi' : fr[i]? = some fl := by simpa [hdi] using hi
      exact h.freeInDev i fl hi' p hp

end C10

namespace C10

/-! ### batch allocation: pages "in limbo" between the free lists and the page table -/

/-- what is known about a page that has left the free lists and is not mapped yet -/
structure Fresh (ps : Nat) (devs : List Dev) (fr : List (List Nat)) (pt : List Page) (p : Nat) : Prop where
  notFree : p ∉ fr.flatten
  notLive : p ∉ pt.map (·.paddr)
  aligned : ps ∣ p
  dev : ∀ dev, devOf devs p = some dev → ∃ d, devs[dev]? = some d ∧ d.base ≤ p ∧ p + ps ≤ d.base + d.size

theorem PInv.shrink {ps : Nat} {devs : List Dev} {fr fr' : List (List Nat)} {pt : List Page} {t : List Nat}
    (h : PInv ps devs fr pt) (ht : Took fr fr' t) :
    PInv ps devs fr' pt ∧ t.Nodup ∧ ∀ p ∈ t, Fresh ps devs fr' pt p := by
  have hnd := (ht.perm.nodup_iff).mp h.freeNodup
  rw [List.nodup_append] at hnd
  have hsubset : ∀ q ∈ fr'.flatten, q ∈ fr.flatten := fun q hq => ht.perm.mem_iff.mpr (List.mem_append_right _ hq)
  refine ⟨⟨h.pspos, ht.len.trans h.len, h.devAligned, hnd.2.1, h.liveNodup, fun q hq => h.disj q (hsubset q hq),
    h.keyNodup, h.palign, h.inDev, h.freeInDev_took ht⟩, hnd.1, ?_⟩
  intro p hp
  have hpin : p ∈ fr.flatten := ht.perm.mem_iff.mpr (List.mem_append_left _ hp)
  obtain ⟨i, fl, hi, hpfl⟩ := ht.src p hp
  have hal := (h.freeInDev i fl hi p hpfl).1
  refine ⟨fun hf => hnd.2.2 p hp p hf rfl, h.disj p hpin, hal, ?_⟩
  intro dev hdev
  obtain ⟨d, h1, h2, h3⟩ := devOf_spec hdev
  have hda := h.devAligned d (List.mem_of_getElem? h1)
  exact ⟨d, h1, h2, page_inside hal hda.1 hda.2 h2 h3⟩

/-- (B') an existing key is re-pointed to a fresh page -/
theorem PInv.update' {ps : Nat} {devs : List Dev} {fr : List (List Nat)} {pt : List Page} {pg : Page}
    (h : PInv ps devs fr pt) (hf : Fresh ps devs fr pt pg.paddr)
    (hdev : ∃ d, devs[pg.dev]? = some d ∧ d.base ≤ pg.paddr ∧ pg.paddr + ps ≤ d.base + d.size) :
    PInv ps devs fr (pt.map (upd pg)) := by
  refine ⟨h.pspos, h.len, h.devAligned, h.freeNodup, nodup_map_upd_paddr pg pt h.keyNodup h.liveNodup hf.notLive, ?_, ?_, ?_, ?_, h.freeInDev⟩
  · intro q hq hmem
    obtain ⟨x, hx, hxe⟩ := List.mem_map.mp hmem
    rcases mem_map_upd hx with rfl | hx'
    · exact hf.notFree (hxe ▸ hq)
    · exact h.disj q hq (hxe ▸ List.mem_map_of_mem hx')
  · rw [map_upd_keys]; exact h.keyNodup
  · intro q hq
    rcases mem_map_upd hq with rfl | hq'
    · exact hf.aligned
    · exact h.palign q hq'
  · intro q hq
    rcases mem_map_upd hq with rfl | hq'
    · exact hdev
    · exact h.inDev q hq'

/-- (A') a fresh page is mapped at a fresh key -/
theorem PInv.insert' {ps : Nat} {devs : List Dev} {fr : List (List Nat)} {pt : List Page} {pg : Page}
    (h : PInv ps devs fr pt) (hf : Fresh ps devs fr pt pg.paddr) (hdev : devOf devs pg.paddr = some pg.dev)
    (hfresh : ptFind pt pg.pid pg.vaddr = none) : PInv ps devs fr (pt ++ [pg]) := by
  refine ⟨h.pspos, h.len, h.devAligned, h.freeNodup, ?_, ?_, ?_, ?_, ?_, h.freeInDev⟩
  · rw [List.map_append, List.nodup_append]
    refine ⟨h.liveNodup, by simp, ?_⟩
    intro a ha b hb
    simp at hb; subst hb
    intro hab; subst hab; exact hf.notLive ha
  · intro q hq
    rw [List.map_append, List.mem_append, not_or]
    refine ⟨h.disj q hq, ?_⟩
    simp
    intro hqp; subst hqp; exact hf.notFree hq
  · rw [List.map_append, List.nodup_append]
    refine ⟨h.keyNodup, by simp, ?_⟩
    intro a ha b hb
    simp at hb; subst hb
    intro hab; subst hab
    obtain ⟨q, hq, hqk⟩ := List.mem_map.mp ha
    simp [key] at hqk
    exact ptFind_none hfresh q hq hqk
  · intro q hq
    rcases List.mem_append.mp hq with hq | hq
    · exact h.palign q hq
    · simp at hq; subst hq; exact hf.aligned
  · intro q hq
    rcases List.mem_append.mp hq with hq | hq
    · exact h.inDev q hq
    · simp at hq; subst hq; exact hf.dev _ hdev

/-- a fresh page stays fresh when another fresh page is mapped by an update -/
theorem Fresh.after_update {ps : Nat} {devs : List Dev} {fr : List (List Nat)} {pt : List Page} {pg : Page} {p : Nat}
    (hf : Fresh ps devs fr pt p) (hne : p ≠ pg.paddr) : Fresh ps devs fr (pt.map (upd pg)) p := by
  refine ⟨hf.notFree, ?_, hf.aligned, hf.dev⟩
  intro hm
  obtain ⟨x, hx, hxe⟩ := List.mem_map.mp hm
  rcases mem_map_upd hx with rfl | hx'
  · exact hne hxe.symm
  · exact hf.notLive (hxe ▸ List.mem_map_of_mem hx')

/-- (F) a page that is neither free nor mapped goes (back) to the free list of the device that contains it
(the repaired Remap: the replaced page is returned) -/
theorem PInv.release {ps : Nat} {devs : List Dev} {fr : List (List Nat)} {pt : List Page} {p d : Nat}
    (h : PInv ps devs fr pt) (hnf : p ∉ fr.flatten) (hnl : p ∉ pt.map (·.paddr)) (hal : ps ∣ p)
    (hd : devOf devs p = some d) :
    PInv ps devs (fr.modify d (· ++ [p])) pt := by
  obtain ⟨dv, hdv, hb, hlt⟩ := devOf_spec hd
  have hdlt : d < fr.length := by
    rw [h.len]
    rcases Nat.lt_or_ge d devs.length with hl | hl
    · exact hl
    · simp [List.getElem?_eq_none hl] at hdv
  have hperm := flatten_modify_perm fr d p hdlt
  refine ⟨h.pspos, by simp [h.len], h.devAligned, ?_, h.liveNodup, ?_, h.keyNodup, h.palign, h.inDev, ?_⟩
  · exact (hperm.nodup_iff).mpr (List.nodup_cons.mpr ⟨hnf, h.freeNodup⟩)
  · intro q hq
    rcases List.mem_cons.mp (hperm.mem_iff.mp hq) with rfl | hq'
    · exact hnl
    · exact h.disj q hq'
  · intro i fl hi q hq
    rw [List.getElem?_modify] at hi
    by_cases hdi : d = i
    · subst hdi
      simp only [if_true] at hi
      cases hfr : fr[d]? with
      | none => simp [hfr] at hi
      | some fl0 =>
        simp [hfr] at hi; subst hi
        rcases List.mem_append.mp hq with hq | hq
        · exact h.freeInDev d fl0 hfr q hq
        · simp at hq; subst hq
          have hda := h.devAligned dv (List.mem_of_getElem? hdv)
          exact ⟨hal, dv, hdv, hb, page_inside hal hda.1 hda.2 hb hlt⟩
    · have hi' : fr[i]? = some fl := by simpa [hdi] using hi
      exact h.freeInDev i fl hi' q hq

theorem mem_map_upd' {pg : Page} {pt : List Page} {x : Page} (h : x ∈ pt.map (upd pg)) :
    x = pg ∨ (x ∈ pt ∧ ¬ (x.pid = pg.pid ∧ x.vaddr = pg.vaddr)) := by
  obtain ⟨q, hq, rfl⟩ := List.mem_map.mp h
  rcases upd_cases pg q with ⟨h1, _⟩ | ⟨h1, h2⟩
  · exact Or.inl h1
  · rw [h1]; exact Or.inr ⟨hq, h2⟩

/-- after an entry has been re-pointed to a fresh page, the page it named before is mapped by no entry -/
theorem replaced_not_live {ps : Nat} {devs : List Dev} {fr : List (List Nat)} {pt : List Page} {pg e : Page}
    (h : PInv ps devs fr pt) (he : e ∈ pt) (hk : e.pid = pg.pid ∧ e.vaddr = pg.vaddr)
    (hnl : pg.paddr ∉ pt.map (·.paddr)) : e.paddr ∉ (pt.map (upd pg)).map (·.paddr) := by
  intro hm
  obtain ⟨x, hx, hxe⟩ := List.mem_map.mp hm
  rcases mem_map_upd' hx with rfl | ⟨hx', hnk⟩
  · exact hnl (hxe ▸ List.mem_map_of_mem he)
  · have : x = e := inj_of_nodup_map h.liveNodup hx' he hxe
    subst this
    exact hnk hk

/-- a fresh page stays fresh when a page that is not it goes back to a free list -/
theorem Fresh.after_release {ps : Nat} {devs : List Dev} {fr : List (List Nat)} {pt : List Page} {p q d : Nat}
    (hf : Fresh ps devs fr pt p) (hne : p ≠ q) (hd : d < fr.length) : Fresh ps devs (fr.modify d (· ++ [q])) pt p := by
  refine ⟨?_, hf.notLive, hf.aligned, hf.dev⟩
  intro hm
  rcases List.mem_cons.mp ((flatten_modify_perm fr d q hd).mem_iff.mp hm) with h1 | h1
  · exact hne h1
  · exact hf.notFree h1

/-! ### mirror -/

def agreesB (m : Option Page) (e : Page) : Bool :=
  match m with
  | some m => m.pid == e.pid && m.vaddr == e.vaddr && m.paddr == e.paddr
  | none => false

/-- the allocator's mirror agrees with every page-table entry (on owner, address and physical page) -/
def MirrorOK (s : State) : Prop :=
  (∀ e ∈ s.pt, agreesB (lookup s.mirror e.vaddr) e = true) ∧ (∀ x ∈ s.mirror, x.2.vaddr = x.1)

theorem lookup_mem {α : Type} {l : List (Nat × α)} {k : Nat} {a : α} (h : lookup l k = some a) : (k, a) ∈ l := by
  unfold lookup at h
  split at h
  · rename_i e he
    injection h with h; subst h
    have h1 := List.mem_of_find?_eq_some he
    have h2 := List.find?_some he
    simp at h2
    rw [← h2]; exact h1
  · simp at h

theorem agreesB_self (pg : Page) : agreesB (some pg) pg = true := by simp [agreesB]

/-- single PID: pushing `(v, pg)` on the mirror keeps the agreement for entries with another key -/
theorem mirror_push_other {mirror : List (Nat × Page)} {pg e : Page} {π : Nat}
    (he : agreesB (lookup mirror e.vaddr) e = true) (hpe : e.pid = π) (hpg : pg.pid = π)
    (hk : ¬ (e.pid = pg.pid ∧ e.vaddr = pg.vaddr)) :
    agreesB (lookup ((pg.vaddr, pg) :: mirror) e.vaddr) e = true := by
  have : pg.vaddr ≠ e.vaddr := fun h => hk ⟨hpe.trans hpg.symm, h.symm⟩
  rw [lookup_cons_ne _ _ _ _ this]; exact he

/-! ### weak mirror invariant (any number of processes) -/

def MirrorWeak (mirror : List (Nat × Page)) (pt : List Page) : Prop :=
  (∀ x ∈ mirror, x.2.vaddr = x.1) ∧
  (∀ v pg, lookup mirror v = some pg → ∀ e ∈ pt, e.pid = pg.pid → e.vaddr = v → e.paddr = pg.paddr)

theorem MirrorWeak.push_update {m : List (Nat × Page)} {pt : List Page} {pg : Page} {v : Nat}
    (h : MirrorWeak m pt) (hv : pg.vaddr = v) : MirrorWeak ((v, pg) :: m) (pt.map (upd pg)) := by
  refine ⟨?_, ?_⟩
  · intro x hx
    rcases List.mem_cons.mp hx with rfl | hx
    · exact hv
    · exact h.1 x hx
  · intro v' pg' hl e he hp hv'
    by_cases hvv : v = v'
    · subst hvv
      rw [lookup_cons_eq] at hl
      injection hl with hl; subst hl
      rcases mem_map_upd' he with rfl | ⟨_, hk⟩
      · rfl
      · exact absurd ⟨hp, hv'.trans hv.symm⟩ hk
    · rw [lookup_cons_ne _ _ _ _ hvv] at hl
      rcases mem_map_upd' he with rfl | ⟨he', _⟩
      · exact absurd (hv.symm.trans hv') hvv
      · exact h.2 v' pg' hl e he' hp hv'

end C10
