import MgpuModel.C11
/-! # C11 helper lemmas: `pieces`, `translate`, `h2d`, `d2h` -/
namespace C11

/-- `Tiles pt addr off ps`: the pieces `(paddr, dataOffset, len)` of `ps` cover virtual addresses
    consecutively from `addr`, data offsets consecutively from `off`, each piece is non-empty, lies
    inside the page `findPage` returns for its first byte, and its physical address is that page's
    `paddr` plus the offset in the page. -/
def Tiles (pt : List Page) : Nat → Nat → List (Nat × Nat × Nat) → Prop
  | _, _, [] => True
  | addr, off, (pa, o, n) :: r =>
    o = off ∧ 0 < n ∧
    (∃ p, findPage pt addr = some p ∧ p ∈ pt ∧ p.vaddr ≤ addr ∧ addr + n ≤ p.vaddr + p.size ∧
          pa = p.paddr + (addr - p.vaddr)) ∧
    Tiles pt (addr + n) (off + n) r

theorem findPage_some {pt : List Page} {a : Nat} {p : Page} (h : findPage pt a = some p) :
    p ∈ pt ∧ p.vaddr ≤ a ∧ a < p.vaddr + p.size := by
  unfold findPage at h
  have h1 := List.find?_some h
  have h2 := List.mem_of_find?_eq_some h
  simp only [Bool.and_eq_true, decide_eq_true_eq] at h1
  exact ⟨h2, h1.1, h1.2⟩

theorem findPage_none {pt : List Page} {a : Nat} (h : findPage pt a = none) :
    ∀ p ∈ pt, ¬ (p.vaddr ≤ a ∧ a < p.vaddr + p.size) := by
  unfold findPage at h
  intro p hp
  have := List.find?_eq_none.1 h p hp
  simpa using this

theorem findPage_isSome_of_mem {pt : List Page} {a : Nat} {p : Page} (hp : p ∈ pt)
    (h1 : p.vaddr ≤ a) (h2 : a < p.vaddr + p.size) : ∃ q, findPage pt a = some q := by
  cases h : findPage pt a with
  | some q => exact ⟨q, rfl⟩
  | none => exact absurd ⟨h1, h2⟩ (findPage_none h p hp)

theorem pairwise_mem {α} {R : α → α → Prop} {l : List α} (h : l.Pairwise R) {a b : α}
    (ha : a ∈ l) (hb : b ∈ l) : a = b ∨ R a b ∨ R b a := by
  induction h with
  | nil => cases ha
  | cons hx _ ih =>
    rcases List.mem_cons.1 ha with rfl | ha' <;> rcases List.mem_cons.1 hb with rfl | hb'
    · exact .inl rfl
    · exact .inr (.inl (hx _ hb'))
    · exact .inr (.inr (hx _ ha'))
    · exact ih ha' hb'

/-- under `PtInj`, every address of a page translates through that very page -/
theorem findPage_same {pt : List Page} (hinj : PtInj pt) {a b : Nat} {p : Page}
    (h : findPage pt a = some p) (h1 : p.vaddr ≤ b) (h2 : b < p.vaddr + p.size) :
    findPage pt b = some p := by
  have ⟨hp, _, _⟩ := findPage_some h
  obtain ⟨q, hq⟩ := findPage_isSome_of_mem hp h1 h2
  have ⟨hqm, hq1, hq2⟩ := findPage_some hq
  rcases pairwise_mem hinj hp hqm with e | d | d
  · rw [hq, e]
  · unfold Page.disj at d; omega
  · unfold Page.disj at d; omega

/-- under `PtInj`, `translate` is injective on mapped addresses -/
theorem translate_inj {pt : List Page} (hinj : PtInj pt) {a b q : Nat}
    (ha : translate pt a = some q) (hb : translate pt b = some q) : a = b := by
  unfold translate at ha hb
  cases hpa : findPage pt a with
  | none => simp [hpa] at ha
  | some p =>
    cases hpb : findPage pt b with
    | none => simp [hpb] at hb
    | some p' =>
      simp only [hpa, hpb, Option.map_some, Option.some.injEq] at ha hb
      have ⟨hp, a1, a2⟩ := findPage_some hpa
      have ⟨hp', b1, b2⟩ := findPage_some hpb
      rcases pairwise_mem hinj hp hp' with e | d | d
      · subst e; omega
      · unfold Page.disj at d; omega
      · unfold Page.disj at d; omega

/-- the physical address of a mapped virtual address (0 when unmapped) -/
def tr (pt : List Page) (a : Nat) : Nat := (translate pt a).getD 0

theorem tr_of_findPage {pt : List Page} {a : Nat} {p : Page} (h : findPage pt a = some p) :
    translate pt a = some (p.paddr + (a - p.vaddr)) ∧ tr pt a = p.paddr + (a - p.vaddr) := by
  simp [tr, translate, h]

theorem translate_eq_tr {pt : List Page} {a : Nat} (h : translate pt a ≠ none) :
    translate pt a = some (tr pt a) := by
  unfold tr
  cases h' : translate pt a with
  | none => exact absurd h' h
  | some q => rfl

/-! ## `pieces` -/

/-- one unfolding of `pieces` at a non-empty range whose first byte is mapped -/
theorem pieces_succ {pt : List Page} {fuel addr off left : Nat} (hl : left ≠ 0) :
    pieces pt (fuel + 1) addr off left =
      match findPage pt addr with
      | none => none
      | some p =>
        let n := if left < p.size - (addr - p.vaddr) then left else p.size - (addr - p.vaddr)
        if n = 0 then none else
        match pieces pt fuel (addr + n) (off + n) (left - n) with
        | none => none
        | some r => some ((p.paddr + (addr - p.vaddr), off, n) :: r) := by
  rw [pieces]; simp only [hl, ↓reduceIte]; rfl

/-- the shape of a successful `pieces` call -/
theorem pieces_cons {pt : List Page} {fuel addr off left : Nat} {ps : List (Nat × Nat × Nat)}
    (hl : left ≠ 0) (h : pieces pt (fuel + 1) addr off left = some ps) :
    ∃ p n r, findPage pt addr = some p ∧ 0 < n ∧ n ≤ left ∧ addr + n ≤ p.vaddr + p.size ∧
      (n = left ∨ addr + n = p.vaddr + p.size) ∧
      pieces pt fuel (addr + n) (off + n) (left - n) = some r ∧
      ps = (p.paddr + (addr - p.vaddr), off, n) :: r := by
  rw [pieces_succ hl] at h
  cases hp : findPage pt addr with
  | none => simp [hp] at h
  | some p =>
    simp only [hp] at h
    have ⟨_, h1, h2⟩ := findPage_some hp
    generalize hn : (if left < p.size - (addr - p.vaddr) then left else p.size - (addr - p.vaddr)) = n at h
    have hn0 : 0 < n := by subst hn; split <;> omega
    have hnl : n ≤ left := by subst hn; split <;> omega
    have hin : addr + n ≤ p.vaddr + p.size := by subst hn; split <;> omega
    have hor : n = left ∨ addr + n = p.vaddr + p.size := by subst hn; split <;> omega
    rw [if_neg (by omega)] at h
    cases hr : pieces pt fuel (addr + n) (off + n) (left - n) with
    | none => simp [hr] at h
    | some r =>
      simp only [hr, Option.some.injEq] at h
      exact ⟨p, n, r, rfl, hn0, hnl, hin, hor, hr, h.symm⟩

theorem pieces_tiles {pt : List Page} : ∀ (fuel addr off left : Nat) (ps : List (Nat × Nat × Nat)),
    left ≤ fuel → pieces pt fuel addr off left = some ps →
    Tiles pt addr off ps ∧ (ps.map (·.2.2)).sum = left := by
  intro fuel
  induction fuel with
  | zero =>
    intro addr off left ps hle h
    simp [pieces] at h; subst h
    simp [Tiles]; omega
  | succ fuel ih =>
    intro addr off left ps hle h
    by_cases hl : left = 0
    · simp [pieces, hl] at h; subst h; simp [Tiles, hl]
    · obtain ⟨p, n, r, hp, hn, hnl, hin, _, hr, rfl⟩ := pieces_cons hl h
      have ⟨hpm, h1, h2⟩ := findPage_some hp
      have ⟨t, s⟩ := ih _ _ _ r (by omega) hr
      refine ⟨⟨rfl, hn, ⟨p, hp, hpm, h1, hin, rfl⟩, t⟩, ?_⟩
      simp only [List.map_cons, List.sum_cons, s]; omega

/-- `pieces` fails ("page not found" panic) exactly when some byte of the range is unmapped -/
theorem pieces_none_iff {pt : List Page} : ∀ (fuel addr off left : Nat), left ≤ fuel →
    (pieces pt fuel addr off left = none ↔ ∃ i, i < left ∧ findPage pt (addr + i) = none) := by
  intro fuel
  induction fuel with
  | zero =>
    intro addr off left hle
    simp [pieces]; omega
  | succ fuel ih =>
    intro addr off left hle
    by_cases hl : left = 0
    · simp [pieces, hl]
    · rw [pieces_succ hl]
      cases hp : findPage pt addr with
      | none => simp only [true_iff]; exact ⟨0, by omega, by simpa using hp⟩
      | some p =>
        have ⟨hpm, h1, h2⟩ := findPage_some hp
        simp only
        generalize hn : (if left < p.size - (addr - p.vaddr) then left else p.size - (addr - p.vaddr)) = n
        have hn0 : 0 < n := by subst hn; split <;> omega
        have hnl : n ≤ left := by subst hn; split <;> omega
        have hin : addr + n ≤ p.vaddr + p.size := by subst hn; split <;> omega
        rw [if_neg (by omega)]
        have ihn := ih (addr + n) (off + n) (left - n) (by omega)
        constructor
        · intro h
          cases hr : pieces pt fuel (addr + n) (off + n) (left - n) with
          | some r => simp [hr] at h
          | none =>
            obtain ⟨i, hi, hf⟩ := ihn.1 hr
            exact ⟨n + i, by omega, by rw [← Nat.add_assoc]; exact hf⟩
        · rintro ⟨i, hi, hf⟩
          have hge : n ≤ i := by
            apply Nat.le_of_not_lt
            intro hlt
            exact findPage_none hf p hpm ⟨by omega, by omega⟩
          have : pieces pt fuel (addr + n) (off + n) (left - n) = none :=
            ihn.2 ⟨i - n, by omega, by rw [show addr + n + (i - n) = addr + i by omega]; exact hf⟩
          simp [this]

/-! ## memory effect of `h2d`, result of `d2h` -/

/-- the fold `h2d` performs over its pieces -/
def foldW (data : List Nat) (ps : List (Nat × Nat × Nat)) (m : Mem) : Mem :=
  ps.foldl (fun m (p : Nat × Nat × Nat) => writePiece m p.1 ((data.drop p.2.1).take p.2.2)) m

theorem h2d_eq {pt : List Page} {m : Mem} {addr : Nat} {data : List Nat} :
    h2d pt m addr data = (pieces pt data.length addr 0 data.length).map fun ps => foldW data ps m := rfl

theorem take_drop_getD (data : List Nat) (off n k : Nat) (hk : k < n) :
    ((data.drop off).take n).getD k 0 = data.getD (off + k) 0 := by
  simp [List.getD_eq_getElem?_getD, hk]

theorem take_drop_length (data : List Nat) (off n : Nat) (h : off + n ≤ data.length) :
    ((data.drop off).take n).length = n := by
  simp; omega

theorem translate_in_piece {pt : List Page} (hinj : PtInj pt) {addr n i : Nat} {p : Page}
    (hp : findPage pt addr = some p) (hin : addr + n ≤ p.vaddr + p.size) (hi : i < n) :
    translate pt (addr + i) = some (p.paddr + (addr - p.vaddr) + i) := by
  have ⟨_, h1, h2⟩ := findPage_some hp
  have := findPage_same hinj hp (b := addr + i) (by omega) (by omega)
  rw [(tr_of_findPage this).1]; congr 1; omega

theorem foldW_spec {pt : List Page} (hinj : PtInj pt) (data : List Nat) :
    ∀ (fuel addr off left : Nat) (ps : List (Nat × Nat × Nat)) (m : Mem),
    left ≤ fuel → off + left ≤ data.length → pieces pt fuel addr off left = some ps →
    (∀ i, i < left → foldW data ps m (tr pt (addr + i)) = data.getD (off + i) 0) ∧
    (∀ q, (∀ i, i < left → translate pt (addr + i) ≠ some q) → foldW data ps m q = m q) := by
  intro fuel
  induction fuel with
  | zero =>
    intro addr off left ps m hle _ h
    simp [pieces] at h; subst h
    refine ⟨fun i hi => by omega, fun q _ => rfl⟩
  | succ fuel ih =>
    intro addr off left ps m hle hlen h
    by_cases hl : left = 0
    · simp [pieces, hl] at h; subst h
      exact ⟨fun i hi => by omega, fun q _ => rfl⟩
    · obtain ⟨p, n, r, hp, hn, hnl, hin, _, hr, rfl⟩ := pieces_cons hl h
      have ⟨ihhit, ihfr⟩ := ih (addr + n) (off + n) (left - n) r
        (writePiece m (p.paddr + (addr - p.vaddr)) ((data.drop off).take n)) (by omega) (by omega) hr
      have hbl := take_drop_length data off n (by omega)
      have hstep : ∀ m, foldW data ((p.paddr + (addr - p.vaddr), off, n) :: r) m =
          foldW data r (writePiece m (p.paddr + (addr - p.vaddr)) ((data.drop off).take n)) :=
        fun _ => rfl
      have hfr : ∀ q, (∀ i, i < left → translate pt (addr + i) ≠ some q) →
          foldW data ((p.paddr + (addr - p.vaddr), off, n) :: r) m q = m q := by
        intro q hq
        rw [hstep, ihfr q (fun i hi => by
          have := hq (n + i) (by omega); rwa [← Nat.add_assoc] at this)]
        unfold writePiece
        rw [hbl]
        split
        · rename_i hc
          exfalso
          have := translate_in_piece hinj hp hin (n := n) (i := q - (p.paddr + (addr - p.vaddr))) (by omega)
          exact hq (q - (p.paddr + (addr - p.vaddr))) (by omega) (by rw [this]; congr 1; omega)
        · rfl
      refine ⟨?_, hfr⟩
      intro i hi
      by_cases hin' : i < n
      · have htr := translate_in_piece hinj hp hin hin'
        have htr' : tr pt (addr + i) = p.paddr + (addr - p.vaddr) + i := by simp [tr, htr]
        rw [htr', hstep, ihfr _ (fun j hj hc => by
          have := translate_inj hinj hc htr; omega)]
        unfold writePiece
        rw [hbl, if_pos (by omega), show p.paddr + (addr - p.vaddr) + i - (p.paddr + (addr - p.vaddr)) = i by omega]
        exact take_drop_getD data off n i hin'
      · have := ihhit (i - n) (by omega)
        rw [show addr + n + (i - n) = addr + i by omega, show off + n + (i - n) = off + i by omega] at this
        rw [hstep]; exact this

theorem read_spec {pt : List Page} (hinj : PtInj pt) (m : Mem) :
    ∀ (fuel addr off left : Nat) (ps : List (Nat × Nat × Nat)),
    left ≤ fuel → pieces pt fuel addr off left = some ps →
    (ps.flatMap fun (p : Nat × Nat × Nat) => (List.range p.2.2).map fun i => m (p.1 + i)) =
      (List.range left).map fun i => m (tr pt (addr + i)) := by
  intro fuel
  induction fuel with
  | zero =>
    intro addr off left ps hle h
    simp [pieces] at h; subst h
    have : left = 0 := by omega
    subst this; rfl
  | succ fuel ih =>
    intro addr off left ps hle h
    by_cases hl : left = 0
    · simp [pieces, hl] at h; subst h; subst hl; rfl
    · obtain ⟨p, n, r, hp, hn, hnl, hin, _, hr, rfl⟩ := pieces_cons hl h
      have ihr := ih (addr + n) (off + n) (left - n) r (by omega) hr
      rw [List.flatMap_cons, ihr]
      conv => rhs; rw [show left = n + (left - n) by omega, List.range_add, List.map_append, List.map_map]
      congr 1
      · apply List.map_congr_left
        intro i hi
        have hi' : i < n := List.mem_range.1 hi
        have htr := translate_in_piece hinj hp hin hi'
        simp [tr, htr]
      · apply List.map_congr_left
        intro i _
        simp [Nat.add_assoc]

theorem map_getD_range (data : List Nat) :
    (List.range data.length).map (fun i => data.getD i 0) = data := by
  apply List.ext_getElem
  · simp
  · intro i h1 h2
    simp [List.getD_eq_getElem?_getD, h2]

theorem translate_ne_none_iff {pt : List Page} {a : Nat} :
    translate pt a ≠ none ↔ findPage pt a ≠ none := by
  unfold translate; cases findPage pt a <;> simp

theorem pieces_mapped {pt : List Page} {fuel addr off left : Nat} {ps : List (Nat × Nat × Nat)}
    (hle : left ≤ fuel) (h : pieces pt fuel addr off left = some ps) :
    ∀ i, i < left → translate pt (addr + i) ≠ none := by
  intro i hi
  rw [translate_ne_none_iff]
  intro hc
  have := (pieces_none_iff fuel addr off left hle).2 ⟨i, hi, hc⟩
  rw [this] at h; cases h

theorem pieces_some_of_mapped {pt : List Page} {fuel addr off left : Nat} (hle : left ≤ fuel)
    (hm : ∀ i, i < left → translate pt (addr + i) ≠ none) :
    ∃ ps, pieces pt fuel addr off left = some ps := by
  cases h : pieces pt fuel addr off left with
  | some ps => exact ⟨ps, rfl⟩
  | none =>
    obtain ⟨i, hi, hf⟩ := (pieces_none_iff fuel addr off left hle).1 h
    exact absurd hf (translate_ne_none_iff.1 (hm i hi))

theorem h2d_some {pt : List Page} {m m' : Mem} {addr : Nat} {data : List Nat}
    (h : h2d pt m addr data = some m') :
    ∃ ps, pieces pt data.length addr 0 data.length = some ps ∧ m' = foldW data ps m := by
  rw [h2d_eq] at h
  cases hp : pieces pt data.length addr 0 data.length with
  | none => simp [hp] at h
  | some ps => simp [hp] at h; exact ⟨ps, rfl, h.symm⟩

theorem d2h_spec {pt : List Page} (hinj : PtInj pt) {m : Mem} {a len : Nat} {out : List Nat}
    (h : d2h pt m a len = some out) :
    out = (List.range len).map fun i => m (tr pt (a + i)) := by
  unfold d2h at h
  cases hp : pieces pt len a 0 len with
  | none => simp [hp] at h
  | some ps =>
    simp only [hp, Option.map_some, Option.some.injEq] at h
    rw [← h]; exact read_spec hinj m len a 0 len ps (Nat.le_refl _) hp

/-- the virtual-address view of `h2d`: a mapped address sees the new byte if it lies in the copied
    range and its old content otherwise -/
theorem h2d_view {pt : List Page} (hinj : PtInj pt) {m m' : Mem} {addr : Nat} {data : List Nat}
    (h : h2d pt m addr data = some m') (v : Nat) (hv : translate pt v ≠ none) :
    m' (tr pt v) = if addr ≤ v ∧ v < addr + data.length then data.getD (v - addr) 0 else m (tr pt v) := by
  obtain ⟨ps, hp, rfl⟩ := h2d_some h
  have ⟨hit, fr⟩ := foldW_spec hinj data data.length addr 0 data.length ps m (Nat.le_refl _) (by omega) hp
  split
  · rename_i hc
    have := hit (v - addr) (by omega)
    rw [show addr + (v - addr) = v by omega, Nat.zero_add] at this
    exact this
  · rename_i hc
    apply fr
    intro i hi he
    have := translate_inj hinj he (translate_eq_tr hv)
    omega

end C11
