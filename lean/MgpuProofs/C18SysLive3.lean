import MgpuProofs.C18SysFinal
import MgpuProofs.Props.C18
import MgpuProofs.C18SysRoute
/-! C18 system level, part 9: liveness of the drain that `Driver.initiateRDMADrain` really performs —
every engine is paused (a drain command was taken by each), the compute units may go on issuing
remote requests (they pile up in the inside ports, which are bounded), no restart is sent before
the acknowledgements. Then every drain is acknowledged under the same fairness. -/
namespace C18

/-- what one system move does to the part of a node the pause concerns -/
def Frame (o : SOp) (B B' : Node) : Prop :=
  match o with
  | .issue _ src pl => B'.s = B.s ∨ (B.s.io.reqIn.length < B.cfg.cap ∧ B'.s = step B.cfg B.s (.reqI src pl))
  | .ctl _ _ => True
  | .tick _ => B'.s = B.s ∨ B'.s = (tick B.cfg B.s).1
  | _ => B'.s.io.reqIn = B.s.io.reqIn ∧ B'.s.pause = B.s.pause ∧ B'.s.ctIn = B.s.ctIn ∧ B'.s.cfault = B.s.cfault

theorem frame_refl (o : SOp) (B : Node) : Frame o B B := by
  cases o <;> simp [Frame]

theorem sstep_frame (y : Sys) (o : SOp) (b : Nat) (B' : Node) (hb : (sstep y o).nodes[b]? = some B') :
    ∃ B, y.nodes[b]? = some B ∧ B'.cfg = B.cfg ∧ Frame o B B' := by
  have keep : y.nodes[b]? = some B' → ∃ B, y.nodes[b]? = some B ∧ B'.cfg = B.cfg ∧ Frame o B B' :=
    fun h => ⟨B', h, rfl, frame_refl o B'⟩
  have upd : ∀ (i : Nat) (A nd' : Node), y.nodes[i]? = some A → (y.nodes.set i nd')[b]? = some B' →
      nd'.cfg = A.cfg → Frame o A nd' → ∃ B, y.nodes[b]? = some B ∧ B'.cfg = B.cfg ∧ Frame o B B' := by
    intro i A nd' hA h hc hf
    rcases getElem?_set' h with ⟨h1, h2, _⟩ | ⟨_, h2⟩
    · subst h1; subst h2; exact ⟨A, hA, hc, hf⟩
    · exact keep h2
  cases o with
  | issue a src pl =>
    simp only [sstep] at hb
    split at hb
    · exact keep hb
    · next A hA =>
      split at hb
      · next hsp => exact upd a A _ hA hb rfl (Or.inr ⟨hsp, rfl⟩)
      · exact keep hb
  | ctl a k =>
    simp only [sstep] at hb
    split at hb
    · exact keep hb
    · next A hA => exact upd a A _ hA hb rfl trivial
  | tick a =>
    simp only [sstep] at hb
    split at hb
    · exact keep hb
    · next A hA => exact upd a A _ hA hb rfl (Or.inr rfl)
  | sendQ a =>
    simp only [sstep] at hb
    split at hb
    · exact keep hb
    · next A hA =>
      split at hb
      · exact keep hb
      · exact upd a A _ hA hb rfl ⟨rfl, rfl, rfl, rfl⟩
  | delivQ j =>
    simp only [sstep] at hb
    split at hb
    · exact keep hb
    · split at hb
      · exact keep hb
      · next B hB =>
        split at hb
        · exact upd _ B _ hB hb rfl ⟨rfl, rfl, rfl, rfl⟩
        · exact keep hb
  | l2take a =>
    simp only [sstep] at hb
    split at hb
    · exact keep hb
    · next A hA =>
      split at hb
      · exact keep hb
      · exact upd a A _ hA hb rfl ⟨rfl, rfl, rfl, rfl⟩
  | l2ans a j d =>
    simp only [sstep] at hb
    split at hb
    · exact keep hb
    · next A hA =>
      split at hb
      · exact keep hb
      · split at hb
        · exact upd a A _ hA hb rfl ⟨rfl, rfl, rfl, rfl⟩
        · exact keep hb
  | sendR a =>
    simp only [sstep] at hb
    split at hb
    · exact keep hb
    · next A hA =>
      split at hb
      · exact keep hb
      · split at hb
        · exact keep hb
        · exact upd a A _ hA hb rfl ⟨rfl, rfl, rfl, rfl⟩
  | delivR j =>
    simp only [sstep] at hb
    split at hb
    · exact keep hb
    · split at hb
      · exact keep hb
      · next A hA =>
        split at hb
        · next hsp =>
          exact upd _ A _ hA hb rfl ⟨by simp only [step, deliverRsp, hsp, if_true], rfl, rfl, rfl⟩
        · exact keep hb
  | l1take a =>
    simp only [sstep] at hb
    split at hb
    · exact keep hb
    · next A hA =>
      split at hb
      · exact keep hb
      · exact upd a A _ hA hb rfl ⟨rfl, rfl, rfl, rfl⟩
  | ctake a =>
    simp only [sstep] at hb
    split at hb
    · exact keep hb
    · next A hA =>
      split at hb
      · exact keep hb
      · exact upd a A _ hA hb rfl ⟨rfl, rfl, rfl, rfl⟩

/-- every engine is paused and no restart is pending -/
def AllPaused (y : Sys) : Prop :=
  ∀ (b : Nat) (B : Node), y.nodes[b]? = some B → B.s.pause = true ∧ ∀ k ∈ B.s.ctIn, ∃ src, k = Ctl.drain src

theorem ctrlStep_ctIn (cap : Nat) (s : St) : (ctrlStep cap s).1.ctIn = s.ctIn ∨ (ctrlStep cap s).1.ctIn = s.ctIn.tail := by
  unfold ctrlStep
  split
  · exact Or.inl rfl
  · next h => right; rw [h]; rfl
  · next h =>
    split
    · right; rw [h]; rfl
    · split
      · right; rw [h]; rfl
      · right; rw [h]; rfl
  · next h => right; rw [h]; rfl

theorem drainStep_ctIn (cap : Nat) (s : St) : (drainStep cap s).1.ctIn = s.ctIn := by
  unfold drainStep
  split
  · split
    · rfl
    · split <;> rfl
  · rfl

theorem tick_ctIn (c : Cfg) (s : St) : ∀ k ∈ (tick c s).1.ctIn, k ∈ s.ctIn := by
  have hd := (dataPhase_ctl c (ctrlPhase c s).1).2.2.2.2.2.2
  have hc : (ctrlPhase c s).1.ctIn = (ctrlStep c.cap s).1.ctIn := by
    unfold ctrlPhase
    simp only
    split
    · unfold guard
      split
      · rfl
      · exact drainStep_ctIn _ _
    · rfl
  have ht : (tick c s).1.ctIn = (ctrlStep c.cap s).1.ctIn := hd.trans hc
  intro k hk
  rw [ht] at hk
  rcases ctrlStep_ctIn c.cap s with h | h
  · rw [h] at hk; exact hk
  · rw [h] at hk; exact List.mem_of_mem_tail hk

/-- a paused engine with only drain commands pending stays paused and keeps its inside port -/
theorem tick_paused (c : Cfg) (s : St) (hp : s.pause = true) (hk : ∀ k ∈ s.ctIn, ∃ src, k = Ctl.drain src) :
    (tick c s).1.pause = true ∧ (tick c s).1.io.reqIn = s.io.reqIn := by
  have hp' : (tick c s).1.pause = true := by
    cases hq : (tick c s).1.pause with
    | true => rfl
    | false =>
      obtain ⟨_, src, rest, he⟩ := (drain_pauses_restart_resumes c s).2 hp hq
      obtain ⟨src', he'⟩ := hk (.restart src) (by rw [he]; exact List.mem_cons_self)
      cases he'
  exact ⟨hp', (paused_no_consume c s hp').1⟩

theorem allPaused_step (y : Sys) (o : SOp) (h : AllPaused y) (hno : ∀ a k, o ≠ SOp.ctl a k) :
    AllPaused (sstep y o) := by
  intro b B' hb
  obtain ⟨B, hB, _, hf⟩ := sstep_frame y o b B' hb
  obtain ⟨hp, hk⟩ := h b B hB
  cases o with
  | ctl a k => exact absurd rfl (hno a k)
  | issue a src pl =>
    simp only [Frame] at hf
    rcases hf with hf | ⟨_, hf⟩
    · rw [hf]; exact ⟨hp, hk⟩
    · rw [hf]; exact ⟨hp, hk⟩
  | tick a =>
    simp only [Frame] at hf
    rcases hf with hf | hf
    · rw [hf]; exact ⟨hp, hk⟩
    · rw [hf]
      exact ⟨(tick_paused B.cfg B.s hp hk).1, fun k hk' => hk k (tick_ctIn B.cfg B.s k hk')⟩
  | sendQ a => simp only [Frame] at hf; rw [hf.2.1, hf.2.2.1]; exact ⟨hp, hk⟩
  | delivQ j => simp only [Frame] at hf; rw [hf.2.1, hf.2.2.1]; exact ⟨hp, hk⟩
  | l2take a => simp only [Frame] at hf; rw [hf.2.1, hf.2.2.1]; exact ⟨hp, hk⟩
  | l2ans a j d => simp only [Frame] at hf; rw [hf.2.1, hf.2.2.1]; exact ⟨hp, hk⟩
  | sendR a => simp only [Frame] at hf; rw [hf.2.1, hf.2.2.1]; exact ⟨hp, hk⟩
  | delivR j => simp only [Frame] at hf; rw [hf.2.1, hf.2.2.1]; exact ⟨hp, hk⟩
  | l1take a => simp only [Frame] at hf; rw [hf.2.1, hf.2.2.1]; exact ⟨hp, hk⟩
  | ctake a => simp only [Frame] at hf; rw [hf.2.1, hf.2.2.1]; exact ⟨hp, hk⟩

/-- room left in the inside port of a node -/
def room (B : Node) : Nat := 14 * (B.cfg.cap - B.s.io.reqIn.length)
def roomSum (y : Sys) : Nat := (y.nodes.map room).sum
/-- the measure when requests keep arriving at paused engines: hops left + room left -/
def sysMu2 (y : Sys) : Nat := sysMu y + roomSum y

theorem sum_map_congr_getElem {α} (f : α → Nat) {l l' : List α}
    (h : ∀ b : Nat, (l'[b]?).map f = (l[b]?).map f) : (l'.map f).sum = (l.map f).sum := by
  have : l'.map f = l.map f := by
    apply List.ext_getElem?
    intro b
    rw [List.getElem?_map, List.getElem?_map]
    exact h b
  rw [this]

theorem sstep_getElem?_none (y : Sys) (o : SOp) (b : Nat) :
    (sstep y o).nodes[b]? = none ↔ y.nodes[b]? = none := by
  rw [List.getElem?_eq_none_iff, List.getElem?_eq_none_iff, sstep_length]

/-- moves other than a new request keep the room of every paused node -/
theorem roomSum_same (y : Sys) (o : SOp) (h : AllPaused y) (hi : isInput o = false) :
    roomSum (sstep y o) = roomSum y := by
  apply sum_map_congr_getElem
  intro b
  cases hb : (sstep y o).nodes[b]? with
  | none => rw [(sstep_getElem?_none y o b).mp hb]
  | some B' =>
    obtain ⟨B, hB, hc, hf⟩ := sstep_frame y o b B' hb
    obtain ⟨hp, hk⟩ := h b B hB
    rw [hB]
    simp only [Option.map_some, Option.some.injEq, room, hc]
    cases o with
    | issue a src pl => cases hi
    | ctl a k => cases hi
    | tick a =>
      simp only [Frame] at hf
      rcases hf with hf | hf
      · rw [hf]
      · rw [hf, (tick_paused B.cfg B.s hp hk).2]
    | sendQ a => simp only [Frame] at hf; rw [hf.1]
    | delivQ j => simp only [Frame] at hf; rw [hf.1]
    | l2take a => simp only [Frame] at hf; rw [hf.1]
    | l2ans a j d => simp only [Frame] at hf; rw [hf.1]
    | sendR a => simp only [Frame] at hf; rw [hf.1]
    | delivR j => simp only [Frame] at hf; rw [hf.1]
    | l1take a => simp only [Frame] at hf; rw [hf.1]
    | ctake a => simp only [Frame] at hf; rw [hf.1]

/-- a new request either is refused (state unchanged) or fills room: `sysMu2` drops -/
theorem issue_mono2 (y : Sys) (a src : Nat) (pl : Payload) :
    sstep y (.issue a src pl) = y ∨ sysMu2 (sstep y (.issue a src pl)) < sysMu2 y := by
  simp only [sstep]
  split
  · exact Or.inl rfl
  · next A hA =>
    split
    · next hsp =>
      right
      have h1 := sum_map_set nodeMu hA { A with s := step A.cfg A.s (.reqI src pl), sent := ⟨A.s.io.nextA, src, pl⟩ :: A.sent }
      have h2 := sum_map_set room hA { A with s := step A.cfg A.s (.reqI src pl), sent := ⟨A.s.io.nextA, src, pl⟩ :: A.sent }
      have h3 := mu_reqI A.cfg A.s src pl hsp
      have h4 : room { A with s := step A.cfg A.s (.reqI src pl), sent := ⟨A.s.io.nextA, src, pl⟩ :: A.sent } + 14 = room A := by
        simp only [room, step, deliverReq, hsp, if_true, List.length_append, List.length_cons, List.length_nil]
        omega
      simp only [sysMu2, sysMu, roomSum, setNode, nodeMu] at h1 h2 ⊢
      omega
    · exact Or.inl rfl

theorem step_mono2 (y : Sys) (o : SOp) (h : AllPaused y) (hno : ∀ a k, o ≠ SOp.ctl a k) :
    sstep y o = y ∨ sysMu2 (sstep y o) < sysMu2 y := by
  cases hi : isInput o with
  | true =>
    cases o with
    | issue a src pl => exact issue_mono2 y a src pl
    | ctl a k => exact absurd rfl (hno a k)
    | _ => cases hi
  | false =>
    rcases step_mono y o hi with he | hlt
    · exact Or.inl he
    · right
      have := roomSum_same y o h hi
      simp only [sysMu2]
      omega

/-! ### a paused engine that only sees drain commands never has a control panic -/

/-- a paused engine knows whom to acknowledge -/
def PC (s : St) : Prop := s.pause = true → s.cur.isSome = true

theorem drainStep_cur (cap : Nat) (s : St) : (drainStep cap s).1.cur = s.cur := by
  unfold drainStep
  split
  · split
    · rfl
    · split <;> rfl
  · rfl

theorem ctrlPhase_cur (c : Cfg) (s : St) :
    (ctrlPhase c s).1.cur = (ctrlStep c.cap s).1.cur ∧ (ctrlPhase c s).1.pause = (ctrlStep c.cap s).1.pause := by
  refine ⟨?_, (ctrlPhase_pause c s).1⟩
  unfold ctrlPhase
  simp only
  split
  · unfold guard
    split
    · rfl
    · exact drainStep_cur _ _
  · rfl

theorem ctrlStep_pc (cap : Nat) (s : St) (h : PC s) : PC (ctrlStep cap s).1 := by
  unfold ctrlStep
  split
  · exact h
  · intro _; rfl
  · split
    · exact h
    · split
      · intro hp; cases hp
      · exact h
  · exact h

theorem tick_pc (c : Cfg) (s : St) (h : PC s) : PC (tick c s).1 := by
  have hd := dataPhase_ctl c (ctrlPhase c s).1
  have hc := ctrlPhase_cur c s
  have h1 : (tick c s).1.pause = (ctrlStep c.cap s).1.pause := hd.2.1.trans hc.2
  have h2 : (tick c s).1.cur = (ctrlStep c.cap s).1.cur := hd.2.2.2.2.1.trans hc.1
  intro hp
  rw [h2]; rw [h1] at hp
  exact ctrlStep_pc c.cap s h hp

theorem step_pc (c : Cfg) (s : St) (o : Op) (h : PC s) : PC (step c s o) := by
  cases o with
  | tick => exact tick_pc c s h
  | ctl k =>
    simp only [step]
    split <;> exact h
  | _ => exact h

theorem reach_pc {c : Cfg} {s : St} (h : Reach c s) : PC s := by
  obtain ⟨eops, rfl⟩ := h
  unfold run
  have : ∀ (eops : List Op) (s : St), PC s → PC (eops.foldl (step c) s) := by
    intro eops
    induction eops with
    | nil => intro s hs; exact hs
    | cons o os ih => intro s hs; exact ih _ (step_pc c s o hs)
  exact this eops {} (fun hp => by cases hp)

/-- the data phase never records a control panic -/
theorem dataPhase_cfault (c : Cfg) (s : St) : (dataPhase c s).1.cfault = s.cfault := by
  unfold dataPhase
  simp only
  apply pres_iter (fun t => t.cfault = s.cfault) _ (pres_guard _ _ ?_)
  · apply pres_iter (fun t => t.cfault = s.cfault) _ (pres_guard _ _ ?_)
    · apply pres_iter (fun t => t.cfault = s.cfault) _ (pres_guard _ _ ?_)
      · apply pres_iter (fun t => t.cfault = s.cfault) _ (pres_guard _ _ ?_)
        · rfl
        · intro t ht
          unfold fromL1
          split
          · exact ht
          · exact ht
      · intro t ht; exact ht
    · intro t ht; exact ht
  · intro t ht; exact ht

theorem tick_cfault_paused (c : Cfg) (s : St) (hp : s.pause = true) (hpc : PC s)
    (hk : ∀ k ∈ s.ctIn, ∃ src, k = Ctl.drain src) (hf : s.cfault = none) : (tick c s).1.cfault = none := by
  have h1 : (tick c s).1.cfault = (ctrlPhase c s).1.cfault := dataPhase_cfault c (ctrlPhase c s).1
  rw [h1]
  have hcs : (ctrlStep c.cap s).1.cfault = none ∧ (ctrlStep c.cap s).1.cur.isSome = true := by
    unfold ctrlStep
    split
    · exact ⟨hf, hpc hp⟩
    · exact ⟨hf, rfl⟩
    · next src rest hin =>
      obtain ⟨src', he⟩ := hk (.restart src) (by rw [hin]; exact List.mem_cons_self)
      cases he
    · next rest hin =>
      obtain ⟨src', he⟩ := hk .bad (by rw [hin]; exact List.mem_cons_self)
      cases he
  unfold ctrlPhase
  simp only
  split
  · unfold guard
    split
    · exact hcs.1
    · unfold drainStep
      split
      · split
        · next hnone => rw [hnone] at hcs; cases hcs.2
        · split <;> exact hcs.1
      · exact hcs.1
  · exact hcs.1

/-- in the drain-all scenario no control panic can occur -/
theorem cfault_along_paused (cfgs : List Cfg) (y0 : Sys) (σ : Nat → SOp) (hr : NodesReach cfgs y0)
    (hp : AllPaused y0) (hno : ∀ t a k, σ t ≠ SOp.ctl a k)
    (hf : ∀ (b : Nat) (B : Node), y0.nodes[b]? = some B → B.s.cfault = none) :
    ∀ t (b : Nat) (B : Node), (sysAt y0 σ t).nodes[b]? = some B → B.s.cfault = none := by
  have key : ∀ t, NodesReach cfgs (sysAt y0 σ t) ∧ AllPaused (sysAt y0 σ t) ∧
      ∀ (b : Nat) (B : Node), (sysAt y0 σ t).nodes[b]? = some B → B.s.cfault = none := by
    intro t
    induction t with
    | zero => exact ⟨hr, hp, hf⟩
    | succ t ih =>
      obtain ⟨i1, i2, i3⟩ := ih
      refine ⟨nodesReach_step cfgs _ _ i1, allPaused_step _ _ i2 (hno t), ?_⟩
      intro b B' hb
      obtain ⟨B, hB, _, hfr⟩ := sstep_frame _ (σ t) b B' hb
      obtain ⟨hpb, hkb⟩ := i2 b B hB
      have hcf := i3 b B hB
      cases ho : σ t with
      | ctl a k => exact absurd ho (hno t a k)
      | issue a src pl =>
        rw [ho] at hfr
        simp only [Frame] at hfr
        rcases hfr with hfr | ⟨_, hfr⟩
        · rw [hfr]; exact hcf
        · rw [hfr]; exact hcf
      | tick a =>
        rw [ho] at hfr
        simp only [Frame] at hfr
        rcases hfr with hfr | hfr
        · rw [hfr]; exact hcf
        · rw [hfr]; exact tick_cfault_paused B.cfg B.s hpb (reach_pc (i1 b B hB).2) hkb hcf
      | sendQ a => rw [ho] at hfr; simp only [Frame] at hfr; rw [hfr.2.2.2]; exact hcf
      | delivQ j => rw [ho] at hfr; simp only [Frame] at hfr; rw [hfr.2.2.2]; exact hcf
      | l2take a => rw [ho] at hfr; simp only [Frame] at hfr; rw [hfr.2.2.2]; exact hcf
      | l2ans a j d => rw [ho] at hfr; simp only [Frame] at hfr; rw [hfr.2.2.2]; exact hcf
      | sendR a => rw [ho] at hfr; simp only [Frame] at hfr; rw [hfr.2.2.2]; exact hcf
      | delivR j => rw [ho] at hfr; simp only [Frame] at hfr; rw [hfr.2.2.2]; exact hcf
      | l1take a => rw [ho] at hfr; simp only [Frame] at hfr; rw [hfr.2.2.2]; exact hcf
      | ctake a => rw [ho] at hfr; simp only [Frame] at hfr; rw [hfr.2.2.2]; exact hcf
  intro t
  exact (key t).2.2

/-! ### the fair-schedule argument for an arbitrary measure -/

theorem measure_drops_gen (M : Sys → Nat) (y0 : Sys) (σ : Nat → SOp)
    (hmono : ∀ t, sstep (sysAt y0 σ t) (σ t) = sysAt y0 σ t ∨ M (sysAt y0 σ (t + 1)) < M (sysAt y0 σ t))
    (o0 : SOp) :
    ∀ d t, sameKind (σ (t + d)) o0 → (∀ o, sameKind o o0 → M (sstep (sysAt y0 σ t) o) < M (sysAt y0 σ t)) →
      ∃ t', t ≤ t' ∧ M (sysAt y0 σ (t' + 1)) < M (sysAt y0 σ t) := by
  intro d
  induction d with
  | zero =>
    intro t hk hen
    exact ⟨t, Nat.le_refl _, hen _ hk⟩
  | succ d ih =>
    intro t hk hen
    rcases hmono t with he | hlt
    · have hst : sysAt y0 σ (t + 1) = sysAt y0 σ t := he
      have hk' : sameKind (σ (t + 1 + d)) o0 := by
        have : t + 1 + d = t + (d + 1) := by omega
        rw [this]; exact hk
      obtain ⟨t', h1, h2⟩ := ih (t + 1) hk' (by rw [hst]; exact hen)
      exact ⟨t', by omega, by rw [hst] at h2; exact h2⟩
    · exact ⟨t, Nat.le_refl _, hlt⟩

theorem eventually_settled_gen (M : Sys → Nat) (y0 : Sys) (σ : Nat → SOp)
    (hmono : ∀ t, sstep (sysAt y0 σ t) (σ t) = sysAt y0 σ t ∨ M (sysAt y0 σ (t + 1)) < M (sysAt y0 σ t))
    (hhelp : ∀ t, ¬ Settled (sysAt y0 σ t) → ∃ o0 ∈ fairList y0.nodes.length,
      ∀ o, sameKind o o0 → M (sstep (sysAt y0 σ t) o) < M (sysAt y0 σ t))
    (hfair : ∀ o0 ∈ fairList y0.nodes.length, ∀ t, ∃ t', t ≤ t' ∧ sameKind (σ t') o0) :
    ∀ m t, M (sysAt y0 σ t) ≤ m → ∃ t', t ≤ t' ∧ Settled (sysAt y0 σ t') := by
  intro m
  induction m using Nat.strongRecOn with
  | _ m ih =>
    intro t hm
    by_cases hset : Settled (sysAt y0 σ t)
    · exact ⟨t, Nat.le_refl _, hset⟩
    · obtain ⟨o0, hmem, hen⟩ := hhelp t hset
      obtain ⟨t1, ht1, hk⟩ := hfair o0 hmem t
      have hk' : sameKind (σ (t + (t1 - t))) o0 := by
        have : t + (t1 - t) = t1 := by omega
        rw [this]; exact hk
      obtain ⟨t2, h1, h2⟩ := measure_drops_gen M y0 σ hmono o0 (t1 - t) t hk' hen
      obtain ⟨t3, h3, h4⟩ := ih (M (sysAt y0 σ (t2 + 1))) (by omega) (t2 + 1) (Nat.le_refl _)
      exact ⟨t3, by omega, h4⟩

theorem allPaused_along (y0 : Sys) (σ : Nat → SOp) (h : AllPaused y0) (hno : ∀ t a k, σ t ≠ SOp.ctl a k) :
    ∀ t, AllPaused (sysAt y0 σ t)
  | 0 => h
  | t + 1 => allPaused_step _ _ (allPaused_along y0 σ h hno t) (hno t)

theorem sameKind_not_input {o o0 : SOp} (h : sameKind o o0) (hi : isInput o0 = false) : isInput o = false := by
  cases o0 with
  | l2ans b j d => obtain ⟨d', rfl⟩ := h; rfl
  | issue a src pl => cases hi
  | ctl a k => cases hi
  | tick a => rw [show o = .tick a from h]; rfl
  | sendQ a => rw [show o = .sendQ a from h]; rfl
  | delivQ j => rw [show o = .delivQ j from h]; rfl
  | l2take a => rw [show o = .l2take a from h]; rfl
  | sendR a => rw [show o = .sendR a from h]; rfl
  | delivR j => rw [show o = .delivR j from h]; rfl
  | l1take a => rw [show o = .l1take a from h]; rfl
  | ctake a => rw [show o = .ctake a from h]; rfl

/-- liveness core for the drain-all scenario: requests keep arriving, every engine is paused -/
theorem eventually_settled_paused (y0 : Sys) (σ : Nat → SOp) (hp : AllPaused y0)
    (hno : ∀ t a k, σ t ≠ SOp.ctl a k)
    (hfair : ∀ o0 ∈ fairList y0.nodes.length, ∀ t, ∃ t', t ≤ t' ∧ sameKind (σ t') o0)
    (hg : ∀ t, Good (sysAt y0 σ t)) : ∃ t, Settled (sysAt y0 σ t) ∧ AllPaused (sysAt y0 σ t) := by
  have hpa := allPaused_along y0 σ hp hno
  obtain ⟨t, _, ht⟩ := eventually_settled_gen sysMu2 y0 σ
    (fun t => step_mono2 _ _ (hpa t) (hno t))
    (fun t hset => by
      have g := hg t
      obtain ⟨o0, hmem, hi, hen⟩ := exists_helpful _ g.inv g.valid g.cfg g.nofault hset
      rw [sysAt_length] at hmem
      refine ⟨o0, hmem, fun o ho => ?_⟩
      have h1 := en_lt _ o (hen o ho)
      have h2 := roomSum_same _ o (hpa t) (sameKind_not_input ho hi)
      simp only [sysMu2]
      omega)
    hfair _ 0 (Nat.le_refl _)
  exact ⟨t, ht, hpa t⟩

/-! ### decidable rendering of `AllPaused` and a fair schedule with requests that never stop -/

def isDrainB : Ctl → Bool
  | .drain _ => true
  | _ => false

def allPausedB (y : Sys) : Bool := y.nodes.all fun B => B.s.pause && B.s.ctIn.all isDrainB

theorem allPaused_of_B {y : Sys} (h : allPausedB y = true) : AllPaused y := by
  intro b B hB
  have := List.all_eq_true.mp h B (List.mem_of_getElem? hB)
  simp only [Bool.and_eq_true, List.all_eq_true] at this
  refine ⟨this.1, fun k hk => ?_⟩
  have := this.2 k hk
  cases k with
  | drain src => exact ⟨src, rfl⟩
  | restart src => cases this
  | bad => cases this

/-- round-robin over `fairList`, and before every such move the L1 side of the next node issues a
    read of address `addr` -/
def rrIssue (n addr : Nat) (t : Nat) : SOp :=
  if t % 2 = 0 then .issue (t / 2 % n) 1 (.read addr 4 0) else rrSched n (t / 2)

theorem rrIssue_fair (n addr : Nat) : ∀ o0 ∈ fairList n, ∀ t, ∃ t', t ≤ t' ∧ sameKind (rrIssue n addr t') o0 := by
  intro o0 hm t
  obtain ⟨t', h1, h2⟩ := rrSched_fair n o0 hm t
  refine ⟨2 * t' + 1, by omega, ?_⟩
  have e1 : (2 * t' + 1) % 2 = 1 := by omega
  have e2 : (2 * t' + 1) / 2 = t' := by omega
  simp only [rrIssue, e1, e2]
  exact h2

/-! ### the uniform platform: `nodeCfg` for nodes `0 … n-1` -/

/-- the platform the timing builder creates: one bank per node, node `i` keeps `[i*bank, (i+1)*bank)` -/
def platform (cap w1 w2 w3 w4 bank n isz k : Nat) : List Cfg :=
  (List.range n).map (nodeCfg cap w1 w2 w3 w4 bank n isz k)

theorem platform_getElem? {cap w1 w2 w3 w4 bank n isz k b : Nat} {c : Cfg}
    (h : (platform cap w1 w2 w3 w4 bank n isz k)[b]? = some c) :
    b < n ∧ c = nodeCfg cap w1 w2 w3 w4 bank n isz k b := by
  simp only [platform, List.getElem?_map, Option.map_eq_some_iff] at h
  obtain ⟨i, hi, rfl⟩ := h
  have hlt : b < (List.range n).length := lt_of_getElem? hi
  rw [List.getElem?_eq_getElem hlt, List.getElem_range] at hi
  simp only [Option.some.injEq] at hi
  subst hi
  exact ⟨by simpa using hlt, rfl⟩

theorem platform_route (cap w1 w2 w3 w4 bank n isz k : Nat) :
    ∀ c ∈ platform cap w1 w2 w3 w4 bank n isz k, ∀ x,
      routeOut c x = routeOut (nodeCfg cap w1 w2 w3 w4 bank n isz k 0) x := by
  intro c hc x
  simp only [platform, List.mem_map] at hc
  obtain ⟨i, _, rfl⟩ := hc
  rfl

/-- on the platform a clone addressed to node `b` has its address in `b`'s local range, and `b`'s
    local mapper sends it to one of its own banks (not to the module for other addresses) -/
theorem platform_local {cap w1 w2 w3 w4 bank n isz k b x : Nat} (hisz : 0 < isz) (hk : 0 < k)
    (h : routeOut (nodeCfg cap w1 w2 w3 w4 bank n isz k 0) x = some b) :
    b = x / bank ∧ b * bank ≤ x ∧ x < (b + 1) * bank ∧ isLocal bank b x = true ∧
    routeIn (nodeCfg cap w1 w2 w3 w4 bank n isz k b) x = some (x / isz % k) := by
  simp only [routeOut, nodeCfg] at h
  by_cases hb : bank = 0
  · simp only [hb, if_true] at h; cases h
  · by_cases hlt : x / bank < n
    · simp only [hb, hlt, if_true, if_false, Option.some.injEq] at h
      have hpos : 0 < bank := Nat.pos_of_ne_zero hb
      have h1 : b * bank ≤ x := by rw [← h]; exact Nat.div_mul_le_self x bank
      have h2 : x < (b + 1) * bank := by
        rw [← h, Nat.add_mul, Nat.one_mul]
        have e1 := Nat.div_add_mod x bank
        have e2 := Nat.mod_lt x hpos
        rw [Nat.mul_comm] at e1
        omega
      refine ⟨h.symm, h1, h2, ?_, ?_⟩
      · simp only [isLocal, Bool.and_eq_true, decide_eq_true_eq]
        rw [Nat.add_mul, Nat.one_mul] at h2
        exact ⟨h1, h2⟩
      · simp only [routeIn, nodeCfg]
        have : ¬ (x ≥ (b + 1) * bank ∨ x < b * bank) := by omega
        have h0 : ¬ (isz = 0 ∨ k = 0) := by omega
        simp only [this, h0, if_false]
    · simp only [hb, hlt, if_false] at h; cases h

end C18
